/-
  Penman.Proofs.OrderIndepDfs — property C17, consumer 5: `model._dfs` / `Model.errors`.
  `_dfs` iterates the neighbour SETS `q[cur]`; `errors` iterates `sorted(unreachable)`.
  The visited set is the connected component of the top whatever order the neighbours are
  pushed in (given the fuel of the model, which is shown to suffice), and `sorted` of a set
  does not depend on its enumeration.
  (The worklist lemmas follow the C16 development `Penman/Proofs/Dfs.lean`, generalised
  to an arbitrary neighbour enumeration; they are restated here so that this file depends
  on model files only.)
  Core Lean only.
-/
import Penman.Proofs.OrderIndep
set_option linter.unusedSimpArgs false
set_option linter.unusedVariables false
namespace Penman.OrderIndep
open Penman

/-- `_dfs` with the enumeration of each neighbour set as a parameter -/
def dfsLoopWith (nb : Str → List Str) : Nat → List Str → List Str → List Str
  | 0, _, visited => visited
  | _+1, [], visited => visited
  | f+1, cur :: agenda, visited =>
    if cur ∈ visited then dfsLoopWith nb f agenda visited
    else dfsLoopWith nb f ((nb cur).filter (· ∉ cur :: visited) ++ agenda) (cur :: visited)

theorem dfsLoop_eq_with (g : Graph) (srcs : List Str) :
    ∀ (f : Nat) (agenda visited : List Str),
      dfsLoop g srcs f agenda visited = dfsLoopWith (neighbours g srcs) f agenda visited
  | 0, _, _ => rfl
  | _+1, [], _ => rfl
  | f+1, cur :: agenda, visited => by
    simp only [dfsLoop, dfsLoopWith, dfsLoop_eq_with g srcs f]

/-- connected to `top` through the neighbour relation (only MEMBERSHIP in `nb u` matters) -/
inductive Conn (nb : Str → List Str) (top : Str) : Str → Prop
  | refl : Conn nb top top
  | step {u w : Str} : Conn nb top u → w ∈ nb u → Conn nb top w

theorem Conn.congr {nb nb' : Str → List Str} (h : ∀ v, SameMembers (nb v) (nb' v)) {top v : Str}
    (c : Conn nb top v) : Conn nb' top v := by
  induction c with
  | refl => exact .refl
  | step _ hw ih => exact .step ih ((h _ _).mp hw)

/-! ### the worklist -/

def dfsMeasure (n : Nat) (srcs agenda visited : List Str) : Nat :=
  agenda.length + n * (srcs.filter (· ∉ visited)).length

theorem length_filter_mono {α : Type} (p q : α → Bool) (l : List α) (h : ∀ x, p x = true → q x = true) :
    (l.filter p).length ≤ (l.filter q).length := by
  induction l with
  | nil => simp
  | cons a l ih =>
    simp only [List.filter_cons]
    by_cases hp : p a = true
    · rw [if_pos hp, if_pos (h a hp)]
      simp only [List.length_cons]
      omega
    · rw [if_neg hp]
      by_cases hq : q a = true
      · rw [if_pos hq]
        simp only [List.length_cons]
        omega
      · rw [if_neg hq]
        exact ih

theorem filter_notMem_cons_lt (srcs visited : List Str) (cur : Str)
    (hc : cur ∈ srcs) (hv : cur ∉ visited) :
    (srcs.filter (fun x => decide (x ∉ cur :: visited))).length <
      (srcs.filter (fun x => decide (x ∉ visited))).length := by
  induction srcs with
  | nil => cases hc
  | cons a l ih =>
    by_cases ha : a = cur
    · subst ha
      have hle : (l.filter (fun x => decide (x ∉ a :: visited))).length ≤
          (l.filter (fun x => decide (x ∉ visited))).length := by
        apply length_filter_mono
        intro x
        simp only [List.mem_cons, not_or, decide_eq_true_eq]
        exact fun h => h.2
      rw [List.filter_cons_of_neg (by simp), List.filter_cons_of_pos (by simpa using hv)]
      simp only [List.length_cons]
      omega
    · have hc' : cur ∈ l := by
        rcases List.mem_cons.1 hc with h | h
        · exact absurd h.symm ha
        · exact h
      have := ih hc'
      by_cases hav : a ∈ visited
      · rw [List.filter_cons_of_neg (by simp [hav]), List.filter_cons_of_neg (by simp [hav])]
        exact this
      · rw [List.filter_cons_of_pos (by simp [hav, ha]), List.filter_cons_of_pos (by simpa using hav)]
        simp only [List.length_cons]
        omega

section
variable (nb : Str → List Str) (srcs : List Str) (n : Nat)
  (hsub : ∀ v w, w ∈ nb v → w ∈ srcs) (hlen : ∀ v, (nb v).length ≤ n)

theorem dfsLoopWith_visited (f : Nat) (cur : Str) (agenda visited : List Str) (h : cur ∈ visited) :
    dfsLoopWith nb (f+1) (cur :: agenda) visited = dfsLoopWith nb f agenda visited := by
  simp [dfsLoopWith, h]

theorem dfsLoopWith_fresh (f : Nat) (cur : Str) (agenda visited : List Str) (h : cur ∉ visited) :
    dfsLoopWith nb (f+1) (cur :: agenda) visited =
      dfsLoopWith nb f ((nb cur).filter (· ∉ cur :: visited) ++ agenda) (cur :: visited) := by
  simp [dfsLoopWith, h]

include hlen in
theorem dfsMeasure_fresh (cur : Str) (agenda visited : List Str)
    (hc : cur ∈ srcs) (hv : cur ∉ visited) :
    dfsMeasure n srcs ((nb cur).filter (· ∉ cur :: visited) ++ agenda) (cur :: visited)
      < dfsMeasure n srcs (cur :: agenda) visited := by
  simp only [dfsMeasure, List.length_append, List.length_cons]
  have h1 := filter_notMem_cons_lt srcs visited cur hc hv
  have h2 : ((nb cur).filter (· ∉ cur :: visited)).length ≤ n :=
    Nat.le_trans (List.length_filter_le _ _) (hlen cur)
  generalize (srcs.filter (· ∉ cur :: visited)).length = a at *
  generalize (srcs.filter (· ∉ visited)).length = b at *
  generalize ((nb cur).filter (· ∉ cur :: visited)).length = k at *
  have : n * (a + 1) ≤ n * b := Nat.mul_le_mul_left n h1
  rw [Nat.mul_add, Nat.mul_one] at this
  omega

/-- soundness (no fuel condition) -/
theorem dfsLoopWith_sound (P : Str → Prop)
    (hP : ∀ v w, P v → w ∈ nb v → P w)
    (f : Nat) (agenda visited : List Str)
    (hA : ∀ a ∈ agenda, P a) (hV : ∀ a ∈ visited, P a) :
    ∀ a ∈ dfsLoopWith nb f agenda visited, P a := by
  induction f generalizing agenda visited with
  | zero => simpa [dfsLoopWith] using hV
  | succ f ih =>
    cases agenda with
    | nil => simpa [dfsLoopWith] using hV
    | cons cur agenda =>
      by_cases hv : cur ∈ visited
      · rw [dfsLoopWith_visited nb _ _ _ _ hv]
        exact ih _ _ (fun a ha => hA a (List.mem_cons_of_mem _ ha)) hV
      · rw [dfsLoopWith_fresh nb _ _ _ _ hv]
        have hc : P cur := hA cur (List.mem_cons_self ..)
        apply ih
        · intro a ha
          rcases List.mem_append.1 ha with h | h
          · exact hP cur a hc (List.mem_filter.1 h).1
          · exact hA a (List.mem_cons_of_mem _ h)
        · intro a ha
          rcases List.mem_cons.1 ha with h | h
          · exact h ▸ hc
          · exact hV a h

include hsub hlen in
/-- completeness: with enough fuel the result contains agenda and visited and is closed
    under the neighbour relation -/
theorem dfsLoopWith_complete (f : Nat) (agenda visited : List Str)
    (hA : ∀ a ∈ agenda, a ∈ srcs)
    (hf : dfsMeasure n srcs agenda visited ≤ f)
    (hI : ∀ v ∈ visited, ∀ w ∈ nb v, w ∈ visited ∨ w ∈ agenda) :
    (∀ a ∈ visited, a ∈ dfsLoopWith nb f agenda visited) ∧
    (∀ a ∈ agenda, a ∈ dfsLoopWith nb f agenda visited) ∧
    (∀ v ∈ dfsLoopWith nb f agenda visited, ∀ w ∈ nb v, w ∈ dfsLoopWith nb f agenda visited) := by
  induction f generalizing agenda visited with
  | zero =>
    have hz : agenda = [] := by
      cases agenda with
      | nil => rfl
      | cons a l => simp [dfsMeasure] at hf
    subst hz
    have e : dfsLoopWith nb 0 [] visited = visited := rfl
    rw [e]
    refine ⟨fun a h => h, fun a h => (nomatch h), ?_⟩
    intro v hv w hw
    rcases hI v hv w hw with h | h
    · exact h
    · cases h
  | succ f ih =>
    cases agenda with
    | nil =>
      have e : dfsLoopWith nb (f+1) [] visited = visited := rfl
      rw [e]
      refine ⟨fun a h => h, fun a h => (nomatch h), ?_⟩
      intro v hv w hw
      rcases hI v hv w hw with h | h
      · exact h
      · cases h
    | cons cur agenda =>
      by_cases hv : cur ∈ visited
      · rw [dfsLoopWith_visited nb _ _ _ _ hv]
        have := ih agenda visited (fun a ha => hA a (List.mem_cons_of_mem _ ha))
          (by simp only [dfsMeasure, List.length_cons] at hf ⊢; omega)
          (by
            intro v hv' w hw
            rcases hI v hv' w hw with h | h
            · exact Or.inl h
            · rcases List.mem_cons.1 h with h | h
              · exact Or.inl (h ▸ hv)
              · exact Or.inr h)
        obtain ⟨h1, h2, h3⟩ := this
        refine ⟨h1, ?_, h3⟩
        intro a ha
        rcases List.mem_cons.1 ha with h | h
        · exact h ▸ h1 cur hv
        · exact h2 a h
      · rw [dfsLoopWith_fresh nb _ _ _ _ hv]
        have hm := dfsMeasure_fresh nb srcs n hlen cur agenda visited (hA cur (List.mem_cons_self ..)) hv
        have := ih ((nb cur).filter (· ∉ cur :: visited) ++ agenda) (cur :: visited)
          (by
            intro a ha
            rcases List.mem_append.1 ha with h | h
            · exact hsub cur a (List.mem_filter.1 h).1
            · exact hA a (List.mem_cons_of_mem _ h))
          (by omega)
          (by
            intro v hv' w hw
            by_cases hwv : w ∈ cur :: visited
            · exact Or.inl hwv
            · right
              rcases List.mem_cons.1 hv' with h | h
              · subst h
                exact List.mem_append_left _ (List.mem_filter.2 ⟨hw, by simpa using hwv⟩)
              · rcases hI v h w hw with h' | h'
                · exact absurd (List.mem_cons_of_mem _ h') hwv
                · rcases List.mem_cons.1 h' with h'' | h''
                  · exact absurd (h'' ▸ List.mem_cons_self ..) hwv
                  · exact List.mem_append_right _ h'')
        obtain ⟨h1, h2, h3⟩ := this
        refine ⟨fun a ha => h1 a (List.mem_cons_of_mem _ ha), ?_, h3⟩
        intro a ha
        rcases List.mem_cons.1 ha with h | h
        · exact h ▸ h1 cur (List.mem_cons_self ..)
        · exact h2 a (List.mem_append_right _ h)

include hsub hlen in
/-- with fuel beyond the measure, the visited set is exactly the connected component -/
theorem mem_dfsLoopWith_iff (top : Str) (htop : top ∈ srcs) (f : Nat)
    (hf : 1 + n * srcs.length ≤ f) (v : Str) :
    v ∈ dfsLoopWith nb f [top] [] ↔ Conn nb top v := by
  have hfuel : dfsMeasure n srcs [top] [] ≤ f := by
    simp only [dfsMeasure, List.length_cons, List.length_nil]
    have : (srcs.filter (· ∉ ([] : List Str))).length ≤ srcs.length := List.length_filter_le _ _
    have := Nat.mul_le_mul_left n this
    omega
  constructor
  · intro h
    refine dfsLoopWith_sound nb (fun a => Conn nb top a) ?_ f [top] [] ?_ ?_ v h
    · intro a w ha hw; exact .step ha hw
    · intro a ha
      simp only [List.mem_singleton] at ha
      subst ha; exact .refl
    · intro a ha; cases ha
  · intro h
    obtain ⟨_, h2, h3⟩ := dfsLoopWith_complete nb srcs n hsub hlen f [top] []
      (by intro a ha; simp only [List.mem_singleton] at ha; exact ha ▸ htop) hfuel
      (by intro v hv; cases hv)
    induction h with
    | refl => exact h2 top (List.mem_singleton.2 rfl)
    | step _ hw ih => exact h3 _ ih _ hw
end

/-! ### instantiation at the model's neighbour lists -/

theorem mem_dedup' {α : Type} [DecidableEq α] (l : List α) (x : α) : x ∈ dedup l ↔ x ∈ l :=
  Penman.mem_dedup

theorem length_dedup_le {α : Type} [DecidableEq α] (l : List α) : (dedup l).length ≤ l.length := by
  induction l with
  | nil => simp [dedup]
  | cons a l ih =>
    simp only [dedup, List.length_cons]
    have := List.length_filter_le (fun x => decide (x ≠ a)) (dedup l)
    omega

theorem neighbours_subset (g : Graph) (srcs : List Str) (v w : Str)
    (h : w ∈ neighbours g srcs v) : w ∈ srcs := by
  simp only [neighbours, List.mem_filterMap] at h
  obtain ⟨t, _, h⟩ := h
  split at h
  · simp at h
  · split at h
    · split at h
      · rename_i h1
        simp only [Option.some.injEq] at h
        exact h ▸ h1.2
      · split at h
        · rename_i h2
          simp only [Option.some.injEq] at h
          exact h ▸ h2.2
        · simp at h
    · simp at h

theorem length_neighbours_le (g : Graph) (srcs : List Str) (v : Str) :
    (neighbours g srcs v).length ≤ g.triples.length := by
  simp only [neighbours]
  exact List.length_filterMap_le _ _

/-- `_dfs(g, top)` where the set `q[cur]` is enumerated as `nb cur` -/
def reachableWith (nb : Str → List Str) (g : Graph) (top : Str) : List Str :=
  dfsLoopWith nb (g.triples.length * g.triples.length + g.triples.length + 2) [top] []

theorem reachable_eq_with (g : Graph) (top : Str) :
    reachable g top = reachableWith (neighbours g (dedup (g.triples.map (·.src)))) g top := by
  simp only [reachable, reachableWith, dfsLoop_eq_with]

/-- a neighbour enumeration that, for every variable, is a permutation of the model's -/
def NbPerm (g : Graph) (nb : Str → List Str) : Prop :=
  ∀ v, (nb v).Perm (neighbours g (dedup (g.triples.map (·.src))) v)

theorem fuel_ok (g : Graph) :
    1 + g.triples.length * (dedup (g.triples.map (·.src))).length ≤
      g.triples.length * g.triples.length + g.triples.length + 2 := by
  have h := length_dedup_le (g.triples.map (·.src))
  rw [List.length_map] at h
  have := Nat.mul_le_mul_left g.triples.length h
  omega

/-- the model's fuel suffices for every neighbour enumeration, and the visited set is the
    connected component of `top` -/
theorem mem_reachableWith_iff (g : Graph) (nb : Str → List Str) (hnb : NbPerm g nb) (top : Str)
    (htop : top ∈ dedup (g.triples.map (·.src))) (v : Str) :
    v ∈ reachableWith nb g top ↔ Conn nb top v := by
  unfold reachableWith
  refine mem_dfsLoopWith_iff nb (dedup (g.triples.map (·.src))) g.triples.length ?_ ?_ top htop _
    (fuel_ok g) v
  · intro a w hw
    exact neighbours_subset g _ a w ((hnb a).mem_iff.mp hw)
  · intro a
    rw [(hnb a).length_eq]
    exact length_neighbours_le g _ a

/-- **the visited set does not depend on the order in which neighbours are pushed** -/
theorem reachableWith_members (g : Graph) (nb nb' : Str → List Str) (hnb : NbPerm g nb)
    (hnb' : NbPerm g nb') (top : Str) (htop : top ∈ dedup (g.triples.map (·.src))) :
    SameMembers (reachableWith nb g top) (reachableWith nb' g top) := by
  intro v
  rw [mem_reachableWith_iff g nb hnb top htop, mem_reachableWith_iff g nb' hnb' top htop]
  have h : ∀ v, SameMembers (nb v) (nb' v) :=
    fun v => SameMembers.of_perm ((hnb v).trans (hnb' v).symm)
  exact ⟨Conn.congr h, Conn.congr (fun v => (h v).symm)⟩

/-! ### `Model.errors` -/

/-- `Model.errors(graph)` where `_dfs` enumerates each neighbour set `q[cur]` as `nb cur` and
    `sorted(unreachable)` receives the set `unreachable` enumerated through `enum` -/
def errorsWith (m : Model) (nb : Str → List Str) (enum : List Str → List Str) (g : Graph) :
    AList (Option Triple) (List Nat) :=
  let add (d : AList (Option Triple) (List Nat)) (k : Option Triple) (msg : Nat) :=
    d.set k ((AList.get? d k).getD [] ++ [msg])
  if g.triples.isEmpty then [(none, [2])]
  else
    let d1 := g.triples.foldl (fun d t => if m.hasRole t.role then d else add d (some t) 0) []
    let srcs := dedup (g.triples.map (·.src))
    match g.getTop with
    | none => add d1 none 3
    | some top =>
      if top.isEmpty then add d1 none 3
      else if top ∉ srcs then add d1 none 4
      else
        let reach := reachableWith nb g top
        let unreach := sortStrs (enum (srcs.filter (· ∉ reach)))
        unreach.foldl (fun d u => (g.triples.filter (·.src = u)).foldl (fun d t => add d (some t) 1) d) d1

theorem errors_eq_with (m : Model) (g : Graph) :
    m.errors g = errorsWith m (neighbours g (dedup (g.triples.map (·.src)))) id g := by
  unfold Model.errors errorsWith
  simp only [reachable_eq_with, id]
  first | rfl | congr

/-- **`Model.errors` does not depend on any set iteration order** -/
theorem errorsWith_congr (m : Model) (g : Graph) (nb nb' : Str → List Str)
    (enum enum' : List Str → List Str) (hnb : NbPerm g nb) (hnb' : NbPerm g nb')
    (he : ∀ l, (enum l).Perm l) (he' : ∀ l, (enum' l).Perm l) :
    errorsWith m nb enum g = errorsWith m nb' enum' g := by
  unfold errorsWith
  simp only []
  split
  · rfl
  · split
    · rfl
    · rename_i top _
      split
      · rfl
      · by_cases ht : top ∈ dedup (g.triples.map (·.src))
        · simp only [ht, not_true_eq_false, if_false]
          have hm := reachableWith_members g nb nb' hnb hnb' top ht
          have hf : (dedup (g.triples.map (·.src))).filter (· ∉ reachableWith nb g top) =
              (dedup (g.triples.map (·.src))).filter (· ∉ reachableWith nb' g top) := by
            apply List.filter_congr
            intro x _
            simp [hm x]
          rw [hf, sortStrs_perm ((he _).trans (he' _).symm)]
        · simp only [ht, not_false_eq_true, if_true]

end Penman.OrderIndep

/-
  Penman.Proofs.ConstantSurr — `scanJsonString`: lone surrogates and fuel independence (C18).
-/
import Penman.Proofs.ConstantTotal

namespace Penman
namespace C18

/-! ## 9. lone surrogate escapes, and the fuel of `scanJsonString` -/

theorem hex4Val_some {es : Str} {u : Nat} {rest : Str} (h : hex4Val es = some (u, rest)) :
    ∃ a b c d, es = a :: b :: c :: d :: rest := by
  unfold hex4Val at h
  split at h
  · rename_i a b c d r
    cases ha : hexVal a <;> cases hb : hexVal b <;> cases hc : hexVal c <;> cases hd : hexVal d <;>
      simp [ha, hb, hc, hd, bind, Option.bind, pure] at h
    exact ⟨a, b, c, d, by rw [h.2]⟩
  · simp at h

theorem hex4Val_length {es : Str} {u : Nat} {rest : Str} (h : hex4Val es = some (u, rest)) :
    es.length = rest.length + 4 := by
  obtain ⟨a, b, c, d, rfl⟩ := hex4Val_some h
  simp

theorem hex4Val_suffix {es : Str} {u : Nat} {rest : Str} (h : hex4Val es = some (u, rest)) :
    rest <:+ es := by
  obtain ⟨a, b, c, d, rfl⟩ := hex4Val_some h
  exact ⟨[a, b, c, d], rfl⟩

theorem lone_suffix {t s : Str} (h : HasLoneSurrogateEscape t) (hs : t <:+ s) :
    HasLoneSurrogateEscape s := by
  obtain ⟨p, rfl⟩ := hs
  obtain ⟨pre, post, u, rest, rfl, h1, h2⟩ := h
  exact ⟨p ++ pre, post, u, rest, by simp, h1, h2⟩

theorem suffix_cons2 {t s : Str} (a b : Char) (h : t <:+ s) : t <:+ a :: b :: s :=
  (h.trans (List.suffix_cons b s)).trans (List.suffix_cons a _)

theorem scanJsonString_surrogate (f : Nat) (s acc : Str) :
    scanJsonString f s acc = .surrogate → HasLoneSurrogateEscape s := by
  fun_induction scanJsonString f s acc
  case case14 ih2 ih1 =>
    rename_i hv2 _ _ _ _ _ _ _ _ _ _ hv
    intro h
    exact lone_suffix (ih1 h) (suffix_cons2 _ _ ((hex4Val_suffix hv2).trans
      ((suffix_cons2 _ _ (List.suffix_refl _)).trans (hex4Val_suffix hv))))
  case case15 =>
    rename_i es u hhi rest2 u2 rest3 hv2 hlo _ _ _ _ _ _ _ _ _ hv _
    intro _
    refine ⟨[], es, u, _, rfl, hv, Or.inr ⟨hhi.1, hhi.2, ?_⟩⟩
    rintro ⟨r2, v2, r3, heq, hv', hl⟩
    injection heq with _ heq; injection heq with _ heq; subst heq
    rw [hv2] at hv'; injection hv' with hv'; injection hv' with e1 _; subst e1
    exact hlo hl
  case case16 =>
    rename_i es u hhi rest2 hv2 _ _ _ _ _ _ _ _ _ hv _
    intro _
    refine ⟨[], es, u, _, rfl, hv, Or.inr ⟨hhi.1, hhi.2, ?_⟩⟩
    rintro ⟨r2, v2, r3, heq, hv', hl⟩
    injection heq with _ heq; injection heq with _ heq; subst heq
    rw [hv2] at hv'; simp at hv'
  case case17 =>
    rename_i es u rest hv hhi hno _ _ _ _ _ _ _ _ _ _
    intro _
    refine ⟨[], es, u, _, rfl, hv, Or.inr ⟨hhi.1, hhi.2, ?_⟩⟩
    rintro ⟨r2, v2, r3, heq, hv', hl⟩
    exact hno r2 heq
  case case18 =>
    rename_i es u rest hv _ hlo _ _ _ _ _ _ _ _ _ _
    intro _
    exact ⟨[], es, u, _, rfl, hv, Or.inl hlo⟩
  case case19 ih2 ih1 =>
    rename_i hv _ _ _ _ _ _ _ _ _ _ _
    intro h
    exact lone_suffix (ih1 h) (suffix_cons2 _ _ (hex4Val_suffix hv))
  case case22 ih1 =>
    intro h
    exact lone_suffix (ih1 h) (List.suffix_cons _ _)
  all_goals first
    | (intro h; cases h; done)
    | (rename_i ih1; intro h; exact lone_suffix (ih1 _ h) (suffix_cons2 _ _ (List.suffix_refl _)))

theorem scanJsonString_fuel (f : Nat) (s acc : Str) :
    ∀ g, s.length < f → s.length < g → scanJsonString f s acc = scanJsonString g s acc := by
  fun_induction scanJsonString f s acc <;> intro g hf hg <;>
    (cases g with
     | zero => simp at hg
     | succ g => ?_)
  all_goals (try simp only [List.length_cons] at hf hg)
  case case14.succ =>
    rename_i hv2 _ _ _ _ _ _ _ _ _ _ hv ih2 ih1
    have l1 := hex4Val_length hv
    have l2 := hex4Val_length hv2
    simp only [List.length_cons] at l1
    simp [scanJsonString, *]
    apply ih1 <;> omega
  case case19.succ =>
    rename_i hv _ _ _ _ _ _ _ _ _ _ _ ih2 ih1
    have l1 := hex4Val_length hv
    simp [scanJsonString, *]
    apply ih1 <;> omega
  all_goals first
    | omega
    | (simp [scanJsonString, *]; done)
    | (rename_i ih1; simp [scanJsonString, *]; apply ih1 <;> omega)

end C18
end Penman

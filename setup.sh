#!/bin/sh
# Build the framework offline from files on disk: regenerate the tables from /repo,
# build the Lean model, the driver and every Props module.
set -e
cd "$(dirname "$0")"
mkdir -p build evidence
/venv/bin/python tools/gen_tables.py || true
cd lean
mods=$(ls Penman/Props/*.lean 2>/dev/null | sed 's|/|.|g; s|\.lean$||')
lake build penman_model $mods

/-
  Penman.Proofs.Configure11 — `Deg` and `J1` are invariants of `getOrEstablish`,
  `findNext`, `configureNode`, the loop, hence hold of the final store.
-/
import Penman.Proofs.Configure10
namespace Penman
namespace Cfg

theorem shape_getOrEstablish {R : List Str} {st : St} {v : Str} (hg : Good st) (hd : Deg R st) (hj : J1 st) :
    Deg R (getOrEstablish st v).2 ∧ J1 (getOrEstablish st v).2 := by
  unfold getOrEstablish
  split
  · exact ⟨hd, hj⟩
  · rename_i u hs
    simp only []
    have hu : Own st u := hg.site v u hs
    have huk : u ∈ ckeys st.cells := (hg.own u).2 hu
    have hvn : ¬ Own st v := by unfold Own; rw [hs]; simp
    have hvk : v ∉ ckeys st.cells := fun h => hvn ((hg.own v).1 h)
    have huv : u ≠ v := by rintro rfl; exact hvn hu
    have hk1 : ckeys (AList.set st.cells u (establishIn v (st.cell u))) = ckeys st.cells := keys_set_of_mem _ huk
    have hvk1 : v ∉ ckeys (AList.set st.cells u (establishIn v (st.cell u))) := by rw [hk1]; exact hvk
    have hkeys : ckeys (AList.set (AList.set st.cells u (establishIn v (st.cell u))) v []) = ckeys st.cells ++ [v] := by
      rw [keys_set_of_not_mem _ hvk1, hk1]
    -- node targets: one more, `v`
    have hN1 : (allNodeTgts (AList.set st.cells u (establishIn v (st.cell u)))).Perm (v :: allNodeTgts st.cells) := by
      have h1 := flat_set (fun _ es => nodeTgts es) (fun _ => rfl) st.cells u (establishIn v (st.cell u))
      have h2 := nodeTgts_establishIn v (st.cell u) (hj v u hs)
      have h3 : (nodeTgts (establishIn v (st.cell u)) ++ allNodeTgts st.cells).Perm
          ((v :: allNodeTgts st.cells) ++ nodeTgts (st.cell u)) := by
        refine (List.Perm.append_right _ h2).trans ?_
        simp only [List.cons_append]
        exact (List.perm_cons v).2 List.perm_append_comm
      exact (List.perm_append_right_iff _).1 (h1.trans h3)
    have hN : (allNodeTgts (AList.set (AList.set st.cells u (establishIn v (st.cell u))) v [])).Perm
        (v :: allNodeTgts st.cells) := by
      refine (flat_set_same _ (fun _ => rfl) _ v [] ?_).trans hN1
      rw [get?_none_of_not_mem hvk1]; rfl
    refine ⟨⟨?_, ?_⟩, ?_⟩
    · show (ckeys (AList.set (AList.set st.cells u (establishIn v (st.cell u))) v [])).Nodup
      rw [hkeys, List.nodup_append]
      exact ⟨hd.nodup, by simp, fun a ha b hb => by simp at hb; subst hb; exact fun e => hvk (e ▸ ha)⟩
    · show (R ++ allNodeTgts (AList.set (AList.set st.cells u (establishIn v (st.cell u))) v [])).Perm
        (ckeys (AList.set (AList.set st.cells u (establishIn v (st.cell u))) v []))
      rw [hkeys]
      refine (List.Perm.append_left _ hN).trans ?_
      refine List.perm_middle.trans ?_
      exact ((List.perm_cons v).2 hd.deg).trans (List.perm_append_comm (l₁ := [v]))
    · intro w u' hw
      have hwv : w ≠ v := by rintro rfl; simp [get?_set_same] at hw
      simp only [get?_set_other _ _ _ _ hwv] at hw
      obtain ⟨x, hx, h1, h2⟩ := hj w u' hw
      have hu'v : u' ≠ v := by rintro rfl; exact hvn (hg.site w _ hw)
      refine ⟨x, ?_, h1, h2⟩
      show x ∈ (AList.get? (AList.set (AList.set st.cells u (establishIn v (st.cell u))) v []) u').getD []
      rw [get?_set_other _ _ _ _ hu'v]
      by_cases e : u' = u
      · subst e
        rw [get?_set_same]
        simp only [Option.getD_some]
        apply establishIn_keeps hx
        rw [h1]; intro h; simp only [ETgt.atom.injEq, Atom.str.injEq] at h; exact hwv h
      · rw [get?_set_other _ _ _ _ e]; exact hx
  · exact ⟨hd, hj⟩

theorem shape_findNext {R : List Str} : ∀ data rev st, Good st → Deg R st → J1 st →
    Deg R (findNext data rev st).2.2.2 ∧ J1 (findNext data rev st).2.2.2 := by
  intro data rev st
  fun_induction findNext data rev st <;> intro hg hd hj
  · exact ⟨hd, hj⟩
  · exact ⟨hd, hj⟩
  · rename_i ih; exact ih hg hd hj
  · rename_i tr push epis rest rev st d trySrc h1
    simp only [trySrc]; split
    · exact shape_getOrEstablish hg hd hj
    · exact ⟨hd, hj⟩
  · rename_i tr push epis rest rev st d trySrc h1 tv htv tryTgt h2
    have hT : Good trySrc.2 ∧ Deg R trySrc.2 ∧ J1 trySrc.2 := by
      simp only [trySrc]; split
      · exact ⟨(good_getOrEstablish hg).1, shape_getOrEstablish hg hd hj⟩
      · exact ⟨hg, hd, hj⟩
    simp only [tryTgt]; split
    · exact shape_getOrEstablish hT.1 hT.2.1 hT.2.2
    · exact hT.2
  · rename_i tr push epis rest rev st d trySrc h1 tv htv tryTgt h2 ih
    have hT : Good trySrc.2 ∧ Deg R trySrc.2 ∧ J1 trySrc.2 := by
      simp only [trySrc]; split
      · exact ⟨(good_getOrEstablish hg).1, shape_getOrEstablish hg hd hj⟩
      · exact ⟨hg, hd, hj⟩
    have hU : Good tryTgt.2 ∧ Deg R tryTgt.2 ∧ J1 tryTgt.2 := by
      simp only [tryTgt]; split
      · exact ⟨(good_getOrEstablish hT.1).1, shape_getOrEstablish hT.1 hT.2.1 hT.2.2⟩
      · exact hT
    exact ih hU.1 hU.2.1 hU.2.2
  · rename_i tr push epis rest rev st d trySrc h1 hnt ih
    have hT : Good trySrc.2 ∧ Deg R trySrc.2 ∧ J1 trySrc.2 := by
      simp only [trySrc]; split
      · exact ⟨(good_getOrEstablish hg).1, shape_getOrEstablish hg hd hj⟩
      · exact ⟨hg, hd, hj⟩
    exact ih hT.1 hT.2.1 hT.2.2

theorem shape_cn (m : Model) : ∀ f var data st s (R : List Str), Good st → Own st var →
    (∀ tr ∈ pending data, RoleOK m tr) → Deg R st → J1 st →
    Deg R (configureNode m f var data st s).2.1 ∧ J1 (configureNode m f var data st s).2.1 := by
  intro f
  induction f with
  | zero => intro var data st s R _ _ _ hd hj; exact ⟨hd, hj⟩
  | succ f ih =>
    intro var data st s R hg hv hr hd hj
    cases data with
    | nil => exact ⟨hd, hj⟩
    | cons d data =>
      cases d with
      | pop => exact ⟨hd, hj⟩
      | t tr push epis =>
        have hr' : ∀ tr ∈ pending data, RoleOK m tr := fun t ht => hr t (by simp [pending, ht])
        have hrt : RoleOK m tr := hr tr (by simp [pending])
        simp only [configureNode]
        split
        · exact ⟨hd, hj⟩
        · rename_i role target push' s' hor
          obtain ⟨hslash, _⟩ := orient_spec hor hrt
          split
          · split
            · exact ih _ _ _ _ R hg hv hr' hd hj
            · obtain ⟨g1, e1⟩ := good_addFront_atom (e := ⟨['/'], .atom target, epis⟩) hg hv (by intro w; simp)
              exact ih var data _ s' R g1 (own_mono hg g1 e1 hv) hr'
                (deg_addFront_atom hg hv (by intro w; simp) hd) (j1_addFront hj)
          · split
            · rename_i v hp
              obtain ⟨_, hnv⟩ := pushVar_some hp
              obtain ⟨g1, k1, o1⟩ := good_newCell hg hnv
              have e1 : Ext st (st.newCell v) := by unfold Ext; rw [k1]; exact List.prefix_append _ _
              obtain ⟨g2, e2⟩ := good_cn m f v data (st.newCell v) false g1 o1
              have hv2 : Own (configureNode m f v data (st.newCell v) false).2.1 var :=
                own_mono g1 g2 e2 (own_mono hg g1 e1 hv)
              obtain ⟨d2, j2⟩ := ih v data (st.newCell v) false (v :: R) g1 o1 hr'
                (deg_newCell hg hnv hd) (j1_newCell hg hnv hj)
              have hr2 : ∀ tr ∈ pending (configureNode m f v data (st.newCell v) false).1, RoleOK m tr := by
                intro t ht; apply hr'
                obtain ⟨c, hc⟩ := cn_suffix m f v data (st.newCell v) false
                rw [← hc, pending_append]; exact List.mem_append_right _ ht
              -- `Good` of the state with the node edge (as in `good_cn`)
              have hvk : var ∈ ckeys st.cells := (hg.own var).2 hv
              have hvn : v ∉ ckeys st.cells := fun h => hnv ((hg.own v).1 h)
              have hidx : (ckeys (st.newCell v).cells).idxOf var < (ckeys (st.newCell v).cells).idxOf v := by
                rw [k1]
                simp only [List.idxOf_append, hvk, hvn, if_true, if_false]
                have := List.idxOf_lt_length_of_mem hvk
                omega
              have hm1 : var ∈ ckeys (st.newCell v).cells := List.IsPrefix.mem hvk e1
              have hm2 : v ∈ ckeys (st.newCell v).cells := by rw [k1]; simp
              have hidx2 : (ckeys (configureNode m f v data (st.newCell v) false).2.1.cells).idxOf var <
                  (ckeys (configureNode m f v data (st.newCell v) false).2.1.cells).idxOf v := by
                rw [idxOf_prefix e2 hm1, idxOf_prefix e2 hm2]; exact hidx
              obtain ⟨g3, e3⟩ := good_addBack_node (role := role) (epis := epis) g2 hv2 hidx2 (List.IsPrefix.mem hm2 e2)
              exact ih var _ _ (s' && (configureNode m f v data (st.newCell v) false).2.2) R g3
                (own_mono g2 g3 e3 hv2) hr2 (deg_addBack_node g2 hv2 d2) (j1_addBack j2)
            · obtain ⟨g1, e1⟩ := good_noteSite (t := target) hg hv
              have hv1 := own_mono hg g1 e1 hv
              obtain ⟨g2, e2⟩ := good_addBack_atom (e := ⟨role, .atom target, epis⟩) g1 hv1 (by intro w; simp)
              exact ih var data _ s' R g2 (own_mono g1 g2 e2 hv1) hr'
                (deg_addBack_atom g1 hv1 (by intro w; simp) (deg_noteSite hd)) (j1_note hslash hj)

theorem shape_round {m : Model} {R : List Str} {a b} (h : Round m a b) (hg : Good a.2.2)
    (hr : ∀ tr ∈ pending a.1 ++ pending a.2.1, RoleOK m tr) (hd : Deg R a.2.2) (hj : J1 a.2.2) :
    Deg R b.2.2 ∧ J1 b.2.2 := by
  cases h with
  | @skip data skipped st sk v st1 tr push epis rest hfn ho =>
    have := shape_findNext (R := R) data [] st hg hd hj
    rw [hfn] at this
    exact this
  | @prog data skipped st sk v st1 tr push epis rest hfn ho =>
    obtain ⟨hcat, _⟩ := findNext_some _ _ _ hfn
    simp only [List.reverse_nil, List.nil_append] at hcat
    have h1 := shape_findNext (R := R) data [] st hg hd hj
    have hgf := good_findNext data [] st hg
    rw [hfn] at h1 hgf
    obtain ⟨g1, _, o1⟩ := hgf
    have hr1 : ∀ t ∈ pending (.t tr push epis :: rest), RoleOK m t := by
      intro t ht; apply hr
      simp only [← hcat, pending_append]
      exact List.mem_append_left _ (List.mem_append_right _ ht)
    exact shape_cn m _ v _ st1 false R g1 (o1 v rfl) hr1 h1.1 h1.2

theorem shape_loop (m : Model) (R : List Str) : ∀ fuel data skipped st st', Good st →
    (∀ tr ∈ pending data ++ pending skipped, RoleOK m tr) → Deg R st → J1 st →
    configureLoop m fuel data skipped st = .ok st' → Deg R st' ∧ J1 st' := by
  intro fuel
  induction fuel with
  | zero => intro data skipped st st' _ _ _ _ h; simp [configureLoop] at h
  | succ fuel ih =>
    intro data skipped st st' hg hr hd hj h
    cases data with
    | nil =>
      simp only [configureLoop] at h
      split at h
      · simp only [Except.ok.injEq] at h; subst h; exact ⟨hd, hj⟩
      · simp at h
    | cons d data =>
      rcases loop_cases m d data skipped st with ⟨_, e⟩ | ⟨nx, hround, e⟩
      · rw [e] at h; simp at h
      · rw [e] at h
        obtain ⟨g1, _⟩ := good_round hround hg
        obtain ⟨d1, j1⟩ := shape_round hround hg hr hd hj
        exact ih _ _ _ _ g1 (round_roleOK hround hg hr) d1 j1 h

/-- the final store: distinct keys, every cell but the top has exactly one incoming node edge -/
theorem storeOf_shape {m : Model} {g : Graph} {top : Str} {st : St} (h : storeOf m g top = .ok st)
    (hr : ∀ t ∈ g.triples, RoleOK2 m t) : Deg [top] st ∧ J1 st ∧ (ckeys st.cells).head? = some top := by
  unfold storeOf at h
  cases hp : preconfigure m g.epidata g.triples [] with
  | error e1 => rw [hp] at h; simp [Except.bind] at h
  | ok data =>
    rw [hp] at h
    simp only [Except.bind] at h
    have hpre := preconfigure_spec m _ _ _ _ hp
    have hrd := roleOK_of_Pre hpre hr
    obtain ⟨g0, o0⟩ := good_st0 g top
    obtain ⟨g1, e1⟩ := good_cn m (data.length + 1) top data (st0 g top) false g0 o0
    have d0 : Deg [top] (st0 g top) := ⟨by simp [st0, ckeys, AList.keys], by simp [st0, ckeys, AList.keys, allNodeTgts, flat, nodeTgts]⟩
    have j0 : J1 (st0 g top) := by
      intro v u hv
      exfalso
      unfold st0 at hv
      by_cases e : v = top
      · subst e; simp [get?_set_same] at hv
      · simp only [get?_set_other _ _ _ _ e] at hv
        have := get?_map_const hv
        simp at this
    obtain ⟨d1, j1⟩ := shape_cn m (data.length + 1) top data (st0 g top) false [top] g0 o0 hrd d0 j0
    have hrd1 : ∀ tr ∈ pending (stripPops (configureNode m (data.length + 1) top data (st0 g top) false).1) ++ pending [],
        RoleOK m tr := by
      intro t ht
      apply hrd
      obtain ⟨c, hc⟩ := cn_suffix m (data.length + 1) top data (st0 g top) false
      rw [← hc, pending_append]
      simp only [pending, List.append_nil, pending_stripPops] at ht
      exact List.mem_append_right _ ht
    obtain ⟨d2, j2⟩ := shape_loop m [top] _ _ _ _ _ g1 hrd1 d1 j1 h
    obtain ⟨_, e2⟩ := good_loop m _ _ _ _ _ g1 h
    refine ⟨d2, j2, ?_⟩
    have : ckeys (st0 g top).cells <+: ckeys st.cells := (e1.trans e2)
    obtain ⟨t, ht⟩ := this
    rw [← ht]; simp [st0, ckeys, AList.keys]

end Cfg
end Penman

import Penman.Proofs.Align8
import Penman.Proofs.Layout8
import Penman.Props.C03
/-!
# C03al — the encode → decode round trip (C03) WITH surface alignments

`Penman.C03_tree` / `Penman.C03` assume `NoAlign g` (inside `WfGraph`): the epidata holds `Push`/`POP`
only.  Here that hypothesis is replaced by `AlignOK isAlpha m g` (`Penman/Spec/AlignOK.lean`), which
says exactly which `RoleAlignment` / `Alignment` entries survive, and the conclusion is extended by
"the alignments survive".  `WfGraphAl` is `WfGraph` minus its `noAlign` field (`wfGraph_iff`), and
`C03al_contains_C03` shows that the old hypotheses imply the new ones.

Model functions: `Layout.configure` (`_preconfigure`, `_configure_node`, `_process_epigraph` =
`applyEpis`), `Layout.interpret` (`_process_role`, `_process_atomic`, `alnFromString`, `epimapOf`).
Lemmas: `Penman/Proofs/Align1…8.lean` (namespace `Penman.Cfg.Al`, to stay clear of `Cfg.DataOK` in
`Proofs/EncodeDecodeB.lean`), on top of `Configure1…18` (C06/C03), `Decoded` (C04).

Clause ↦ theorem
* tree → `C03al_tree`: the conclusion of `C03_tree` about the written triples with their alignment
  suffixes stripped (`stripAln`), plus: every branch `x` of the tree is a triple `t0` of `g` (or its
  inversion) whose role text is the role followed by the printed role alignment of `t0`
  (`alnText (roleAlnOf g t0)`) and whose target text is the target followed by the printed alignment
  of `t0` (`withAln … (tgtAlnOf g t0)`).  Numbers allowed, as in `C03_tree`.
* graph → `C03al`: the conclusion of `C03` (same top, same variables, same triples as multisets up to
  one de-inversion, each output triple an input triple or its inversion) plus
  - every triple `t0` of `g` occurs in `g'` as `deinvert1 m g t0` (itself, or deinverted if its role
    is inverted and its target a variable — the normal form decoding produces), and that triple of
    `g'` reports the SAME role alignment and the SAME alignment
    (`roleAlnOf` / `tgtAlnOf` = what `penman.surface.role_alignments` / `alignments` report: the last
    marker of the kind in the triple's list; `AlignOK.one` makes it the only one);
  - every triple of `g'` is `deinvert1 m g t0` for some `t0 ∈ g.triples`: no other triple carries anything.
  Inverted relations: a ROLE alignment travels with the relation (`(w :ARG0~e.3 b)` written from `b`
  is `:ARG0-of~e.3 (w …)` and is read back onto `(w :ARG0 b)`).  A target ALIGNMENT is only admitted on
  constants (see `AlignOK.tgtAln`), which are never inverted.
  The comparison is by `roleAlnOf`/`tgtAlnOf`, i.e. up to the position of the alignment entries inside
  the marker list (decoding emits role alignment, alignment, `Push`, `POP`s in that fixed order).

`AlignOK isAlpha m g` (decidable), for every triple `t` of `g`:
* `one`: at most one role alignment and at most one alignment in `t`'s list.  (Several are printed
  one after the other, `:ARG0~e.1~e.2`; reading that back fails — model: `PyErr.surface`; real code:
  `DecodeError`.)
* `markers`: every marker satisfies `MarkerOK`: `alnFromString (printed form) = (prefix, indices)`,
  and the printed form has no `"`.  True of `~1,2`, `~e1`, `~e.1`; false of an empty index list and
  of a prefix longer than a letter and a dot (examples below).
* `roleAln`: no role alignment on a node label (`(a :/~e.1 x)` is what would be written).
* `tgtAln`: an alignment only on a triple whose target is a text constant that is not the name of a
  variable (quoted: ending in its quote; unquoted: without `~`).  A relation to a variable may have to
  be written as the relation that OPENS that variable's node — from another top, or without layout
  markers — and `_process_epigraph` drops the alignment of a non-atomic target ("epigraphical marker
  ignored").  COUNTEREXAMPLE `exReent` below (real code agrees): boundary of the property.
  Null targets: the alignment turns `None` into the string `None~e.1` (`exNullTgt`).
* `agree`: triples with the same decoded form (duplicates; a relation and its inverse both present)
  carry the same alignments; decoding keeps the markers of the first written occurrence only
  (`exConflict`).

UNPROVED (stated): text level.
```
theorem C03al_text {cfg : LexCfg} (hcfg : FmtCfgWf cfg = true) (isSpace isAlpha : Char → Bool) {m g top t}
    (hw : ModelWf m) (hnoop : m.noop = false) (hg : WfGraphAl m g) (hal : AlignOK isAlpha m g)
    (htx : GraphTextOK cfg isSpace m g)
    (hmk : ∀ t ∈ g.triples, ∀ e ∈ episOf g t, e.mode ≠ 0 → alignmentB cfg e.toStr = true)   -- GraphTextOKal
    (hpv : PushVars g) (hps : PushSrcOK g) (ht : topOf g top = some t) (htv : t ∈ g.variables)
    (hreach : ∀ v ∈ g.variables, Reach g t v) (i : Indent) (c : Bool) :
    ∃ s g', encode m g top i c = .ok s ∧ decode cfg isSpace isAlpha m s = .ok g' ∧ g'.getTop = some t ∧
      (∀ x, x ∈ g'.variables ↔ x ∈ g.variables) ∧
      (g'.triples.map (deinvert1 m g)).Perm ((g.triples.map writtenTriple).map (deinvert1 m g)) ∧
      (∀ t0 ∈ g.triples, roleAlnOf g' (deinvert1 m g (writtenTriple t0)) = roleAlnOf g t0 ∧
         tgtAlnOf g' (deinvert1 m g (writtenTriple t0)) = tgtAlnOf g t0) ∧ g'.metadata = g.metadata
```
What is missing: (1) `configured_tree_wf` (Proofs/EncodeDecode*.lean) for `WfGraphAl ∧ AlignOK ∧ hmk`
instead of `WfGraph`: `WfTreeText cfg (writtenForm T.node)`. `WfTreeText` (C01) already admits
`ROLE text ++ ALIGNMENT text` and `SYMBOL/STRING text ++ ALIGNMENT text` (`roleTextB`, `atomTextB`), and
`rawTriple_al` (Align8) gives every branch in exactly that shape, so what remains is
`alignedB cfg p (s ++ a)` from `p s` and `alignmentB cfg a` (the split point is the first `~` outside
quotes); (2) re-running `encode_decode_text` with `EncodedAl` in place of `Encoded` (it uses
`Encoded.plain` through `storeOf_tree_triples`, replaced here by `rawTriple_al`); C01 then applies unchanged.
Not attempted for lack of time; no counterexample known.

Nothing else is left unproved in this file.
-/
namespace Penman
open Cfg Cfg.Al

/-- **C03al, tree level.** -/
theorem C03al_tree (isAlpha : Char → Bool) {m : Model} {g : Graph} {top : Option Str} {t : Str}
    (hw : ModelWf m) (hg : WfGraphAl m g) (hal : AlignOK isAlpha m g)
    (hpv : PushVars g) (hps : PushSrcOK g) (ht : topOf g top = some t) (htv : t ∈ g.variables)
    (hreach : ∀ v ∈ g.variables, Reach g t v) :
    ∃ T, configure m g top = .ok T ∧ T.metadata = g.metadata ∧ T.node.var = some t ∧
      (∀ x, x ∈ T.node.vars ↔ x ∈ g.variables) ∧ T.node.vars.Nodup ∧
      ((T.node.edgeTriples.map stripAln).map (deinvert1 m g)).Perm
        ((g.triples.filter (fun x => !nullB x)).map (deinvert1 m g)) ∧
      ∀ x ∈ T.node.edgeTriples, ∃ t0 ∈ g.triples,
        (stripAln x = t0 ∨ (stripAln x = m.invert t0 ∧ (∃ b, t0.tgt = .str b) ∧ t0.role ≠ CONCEPT_ROLE)) ∧
        x.role = (stripAln x).role ++ alnText (roleAlnOf g t0) ∧
        x.tgt = withAln (stripAln x).tgt (tgtAlnOf g t0) :=
  Cfg.Al.encode_tree_al isAlpha hw hg hal hpv hps ht htv hreach

/-- **C03al, graph level.** -/
theorem C03al (isAlpha : Char → Bool) {m : Model} {g : Graph} {top : Option Str} {t : Str}
    (hw : ModelWf m) (hnoop : m.noop = false) (hg : WfGraphAl m g) (hal : AlignOK isAlpha m g) (hnum : NoNum g)
    (hpv : PushVars g) (hps : PushSrcOK g) (ht : topOf g top = some t) (htv : t ∈ g.variables)
    (hreach : ∀ v ∈ g.variables, Reach g t v) :
    ∃ T g', configure m g top = .ok T ∧ interpret isAlpha m T = .ok g' ∧
      g'.getTop = some t ∧ (∀ x, x ∈ g'.variables ↔ x ∈ g.variables) ∧
      (g'.triples.map (deinvert1 m g)).Perm (g.triples.map (deinvert1 m g)) ∧
      (∀ x ∈ g'.triples, ∃ t0 ∈ g.triples, x = t0 ∨ x = m.invert t0) ∧
      (∀ t0 ∈ g.triples, deinvert1 m g t0 ∈ g'.triples ∧
        roleAlnOf g' (deinvert1 m g t0) = roleAlnOf g t0 ∧ tgtAlnOf g' (deinvert1 m g t0) = tgtAlnOf g t0) ∧
      (∀ x ∈ g'.triples, ∃ t0 ∈ g.triples, x = deinvert1 m g t0) := by
  obtain ⟨T, g', ds, h1, h2, h3, h4, h5, h6, h7, h8⟩ :=
    Cfg.Al.encode_decode_core isAlpha hw hnoop hg hal hnum hpv hps ht htv hreach
  obtain ⟨h9, h10⟩ := Cfg.Al.alignments_kept hw hg hal h2 h3 h6 h8
  exact ⟨T, g', h1, h2, h4, h5, h6, h7, h9, h10⟩

/-- the hypotheses of `C03` imply those of `C03al` -/
theorem C03al_contains_C03 (isAlpha : Char → Bool) {m : Model} {g : Graph} (hg : WfGraph m g) :
    WfGraphAl m g ∧ AlignOK isAlpha m g :=
  ⟨((wfGraph_iff m g).1 hg).1, alignOK_of_noAlign isAlpha m hg.noAlign⟩

/-! ## non-vacuity -/

namespace C03alExamples
open C03Examples (T S)

def e (n : Nat) : Option Str × List Nat := (some "e.".toList, [n])

/-- the graph `penman.decode` returns for
    `(w / want-01~e.2 :ARG0~e.3 (b / boy~e.1) :ARG1 (g / go~e.5 :ARG0-of~e.7 b :polarity~e.9 -~10,11))`:
    alignments on node labels (stored on the instance triples), role alignments, one of them on a
    relation that was written inverted, an alignment on a constant, an alignment without prefix -/
def gA : Graph :=
  { triples := [T "w" ":instance" (S "want-01"), T "w" ":ARG0" (S "b"), T "b" ":instance" (S "boy"),
                T "w" ":ARG1" (S "g"), T "g" ":instance" (S "go"), T "b" ":ARG0" (S "g"),
                T "g" ":polarity" (S "-")],
    epidata := [(T "w" ":instance" (S "want-01"), [.aln (some "e.".toList) [2]]),
                (T "w" ":ARG0" (S "b"), [.roleAln (some "e.".toList) [3], .push "b".toList]),
                (T "b" ":instance" (S "boy"), [.aln (some "e.".toList) [1], .pop]),
                (T "w" ":ARG1" (S "g"), [.push "g".toList]),
                (T "g" ":instance" (S "go"), [.aln (some "e.".toList) [5]]),
                (T "b" ":ARG0" (S "g"), [.roleAln (some "e.".toList) [7]]),
                (T "g" ":polarity" (S "-"), [.roleAln (some "e.".toList) [9], .aln none [10, 11], .pop])] }

example : WfGraphAl Generated.defaultModel gA := by decide
example : WfGraphAl Generated.amrModel gA := by decide +kernel
example : AlignOK isAsciiAlpha Generated.defaultModel gA := by decide
example : ¬ NoAlign gA := by decide
example : NoNum gA ∧ PushVars gA ∧ PushSrcOK gA := by decide

theorem gA_conn (t : Str) (ht : t ∈ gA.variables) : ∀ v ∈ gA.variables, Reach gA t v := by
  have hv : gA.variables = ["w".toList, "b".toList, "g".toList] := by decide
  have wb : Adj gA "w".toList "b".toList :=
    ⟨T "w" ":ARG0" (S "b"), by decide, by decide, by decide, by decide, Or.inl ⟨rfl, rfl⟩⟩
  have bw : Adj gA "b".toList "w".toList :=
    ⟨T "w" ":ARG0" (S "b"), by decide, by decide, by decide, by decide, Or.inr ⟨rfl, rfl⟩⟩
  have wg : Adj gA "w".toList "g".toList :=
    ⟨T "w" ":ARG1" (S "g"), by decide, by decide, by decide, by decide, Or.inl ⟨rfl, rfl⟩⟩
  have gw : Adj gA "g".toList "w".toList :=
    ⟨T "w" ":ARG1" (S "g"), by decide, by decide, by decide, by decide, Or.inr ⟨rfl, rfl⟩⟩
  intro v hvm
  rw [hv] at ht hvm
  simp only [List.mem_cons, List.mem_nil_iff, or_false] at ht hvm
  rcases ht with rfl | rfl | rfl <;> rcases hvm with rfl | rfl | rfl
  · exact Reach.refl
  · exact Reach.step Reach.refl wb
  · exact Reach.step Reach.refl wg
  · exact Reach.step Reach.refl bw
  · exact Reach.refl
  · exact Reach.step (Reach.step Reach.refl bw) wg
  · exact Reach.step Reach.refl gw
  · exact Reach.step (Reach.step Reach.refl gw) wb
  · exact Reach.refl

/-- `C03al` applies to `gA` from every top, and tells where each alignment ends up -/
example (t : Str) (ht : t ∈ gA.variables) :
    ∃ T' g', configure Generated.defaultModel gA (some t) = .ok T' ∧
      interpret isAsciiAlpha Generated.defaultModel T' = .ok g' ∧ g'.getTop = some t ∧
      roleAlnOf g' (T "w" ":ARG0" (S "b")) = some (.roleAln (some "e.".toList) [3]) ∧
      tgtAlnOf g' (T "b" ":instance" (S "boy")) = some (.aln (some "e.".toList) [1]) ∧
      roleAlnOf g' (T "b" ":ARG0" (S "g")) = some (.roleAln (some "e.".toList) [7]) ∧
      tgtAlnOf g' (T "g" ":polarity" (S "-")) = some (.aln none [10, 11]) ∧
      tgtAlnOf g' (T "w" ":ARG1" (S "g")) = none := by
  obtain ⟨T', g', h1, h2, h3, _, _, _, h4, _⟩ := C03al isAsciiAlpha (top := some t) C13.modelWf_default (by decide)
    (by decide) (by decide) (by decide) (by decide) (by decide) rfl ht (gA_conn t ht)
  refine ⟨T', g', h1, h2, h3, ?_, ?_, ?_, ?_, ?_⟩
  · exact (h4 (T "w" ":ARG0" (S "b")) (by decide)).2.1
  · exact (h4 (T "b" ":instance" (S "boy")) (by decide)).2.2
  · exact (h4 (T "b" ":ARG0" (S "g")) (by decide)).2.1
  · exact (h4 (T "g" ":polarity" (S "-")) (by decide)).2.2
  · exact (h4 (T "w" ":ARG1" (S "g")) (by decide)).2.2

/-- `C03al_tree` applies to `gA` from every top -/
example (t : Str) (ht : t ∈ gA.variables) :
    ∃ T', configure Generated.defaultModel gA (some t) = .ok T' ∧ T'.node.var = some t := by
  obtain ⟨T', h1, _, h2, _⟩ := C03al_tree isAsciiAlpha (top := some t) C13.modelWf_default
    (by decide) (by decide) (by decide) (by decide) rfl ht (gA_conn t ht)
  exact ⟨T', h1, h2⟩

/-! ### running the model (kernel-evaluable twin `C02.configure'` of `configure`, `C02.configure_eq`) -/

/-- encode from `top`, decode, and report the role alignment and the alignment of `x` -/
def roundTrip (g : Graph) (top : String) (x : Triple) : Option (Option Epi × Option Epi) :=
  match (C02.configure' Generated.defaultModel g (some top.toList)).bind
      (interpret isAsciiAlpha Generated.defaultModel) with
  | .ok g' => some (roleAlnOf g' x, tgtAlnOf g' x)
  | .error _ => none

/-- from the non-original top `b` the relation `(w :ARG0 b)` is written `:ARG0-of~e.3 (w …)`;
    it is read back with its role alignment -/
example : roundTrip gA "b" (T "w" ":ARG0" (S "b")) = some (some (.roleAln (some "e.".toList) [3]), none) := by
  decide +kernel
example : roundTrip gA "g" (T "g" ":polarity" (S "-")) =
    some (some (.roleAln (some "e.".toList) [9]), some (.aln none [10, 11])) := by decide +kernel

/-! ### markers -/
example : MarkerOK isAsciiAlpha (some "e.".toList) [1] ∧ MarkerOK isAsciiAlpha none [10, 11] ∧
    MarkerOK isAsciiAlpha (some "e".toList) [3] ∧ MarkerOK isAsciiAlpha (some "x.".toList) [0] := by decide
/-- `~e.` (no index), `~ee.1` (long prefix), `~1.2` as prefix `1.`: not read back as themselves -/
example : ¬ MarkerOK isAsciiAlpha (some "e.".toList) [] ∧ ¬ MarkerOK isAsciiAlpha (some "ee.".toList) [1] ∧
    ¬ MarkerOK isAsciiAlpha none [] ∧ ¬ MarkerOK isAsciiAlpha (some "1.".toList) [2] := by decide

/-! ### COUNTEREXAMPLES: what `AlignOK` excludes, on the model -/

/-- `penman.decode('(b / y :ARG0-of a~e.1 :ARG1-of (a / x))')`: an alignment on a RE-ENTRANT variable.
    All hypotheses of `C03al` hold except `AlignOK.tgtAln`.  Encoded from top `a`, the aligned
    relation `(a :ARG0 b)` is the one that opens the node of `b`, and the alignment is dropped. -/
def exReent : Graph :=
  { triples := [T "b" ":instance" (S "y"), T "a" ":ARG0" (S "b"), T "a" ":ARG1" (S "b"), T "a" ":instance" (S "x")],
    epidata := [(T "a" ":ARG0" (S "b"), [.aln (some "e.".toList) [1]]),
                (T "a" ":ARG1" (S "b"), [.push "a".toList]), (T "a" ":instance" (S "x"), [.pop])] }
example : WfGraphAl Generated.defaultModel exReent ∧ NoNum exReent ∧ PushVars exReent ∧ PushSrcOK exReent := by decide
example : ¬ AlignOK isAsciiAlpha Generated.defaultModel exReent := by decide
example : tgtAlnOf exReent (T "a" ":ARG0" (S "b")) = some (.aln (some "e.".toList) [1]) := by decide
/-- kept from the original top, LOST from top `a` -/
example : roundTrip exReent "b" (T "a" ":ARG0" (S "b")) = some (none, some (.aln (some "e.".toList) [1])) := by
  decide +kernel
example : roundTrip exReent "a" (T "a" ":ARG0" (S "b")) = some (none, none) := by decide +kernel

/-- a relation and its inverse, both present, with different alignments: both are written as
    `:ARG0 …`/`:ARG0-of …` of the same decoded triple; the first written occurrence wins -/
def exConflict : Graph :=
  { triples := [T "a" ":instance" (S "x"), T "b" ":instance" (S "y"), T "a" ":ARG0" (S "b"), T "b" ":ARG0-of" (S "a")],
    epidata := [(T "a" ":ARG0" (S "b"), [.roleAln (some "e.".toList) [1]]),
                (T "b" ":ARG0-of" (S "a"), [.roleAln (some "e.".toList) [2]])] }
example : WfGraphAl Generated.defaultModel exConflict := by decide
example : ¬ AlignOK isAsciiAlpha Generated.defaultModel exConflict := by decide
example : roundTrip exConflict "a" (T "a" ":ARG0" (S "b")) = some (some (.roleAln (some "e.".toList) [1]), none) := by
  decide +kernel

/-- two role alignments on one triple: `:ARG0~e.1~e.2` is written and cannot be read back -/
def exTwo : Graph :=
  { triples := [T "a" ":instance" (S "x"), T "a" ":ARG0" (S "b"), T "b" ":instance" (S "y")],
    epidata := [(T "a" ":ARG0" (S "b"), [.roleAln (some "e.".toList) [1], .roleAln (some "e.".toList) [2]])] }
example : ¬ AlignOK isAsciiAlpha Generated.defaultModel exTwo := by decide
example : roundTrip exTwo "a" (T "a" ":ARG0" (S "b")) = none := by decide +kernel

/-- an alignment on a null target: `None~e.1` is written, a STRING `None` comes back -/
def exNullTgt : Graph :=
  { triples := [T "a" ":instance" (S "x"), T "a" ":ARG0" .none],
    epidata := [(T "a" ":ARG0" .none, [.aln (some "e.".toList) [1]])] }
example : ¬ AlignOK isAsciiAlpha Generated.defaultModel exNullTgt := by decide
example : roundTrip exNullTgt "a" (T "a" ":ARG0" (S "None")) = some (none, some (.aln (some "e.".toList) [1])) := by
  decide +kernel

end C03alExamples
end Penman

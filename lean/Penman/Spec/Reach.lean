/-
  Penman.Spec.Reach — the specification vocabulary of property C16:
  weak connectivity of the variables of a graph (`Reach`), the message
  codes of `Model.errors`, and the trees the command reads from one input.
-/
import Penman.Main
namespace Penman

/-- the sources of the triples of `g` (the keys of the dict `g` that
    `Model.errors` builds; the model enumerates them as `dedup …`) -/
def Graph.srcs (g : Graph) : List Str := dedup (g.triples.map (·.src))

/-- `v` is the source of some triple of `g` -/
def Graph.IsSrc (g : Graph) (v : Str) : Prop := ∃ t ∈ g.triples, t.src = v

/-- the undirected relation "some non-instance triple joins `u` and `w`,
    and both are sources of triples of `g`" -/
def Graph.Adj (g : Graph) (u w : Str) : Prop :=
  g.IsSrc u ∧ g.IsSrc w ∧
  ∃ t ∈ g.triples, t.role ≠ CONCEPT_ROLE ∧
    ((t.src = u ∧ t.tgt = .str w) ∨ (t.src = w ∧ t.tgt = .str u))

/-- `Reach g top v` : `v` is weakly connected to `top` — the
    reflexive-transitive closure of `g.Adj`, started at `top`. -/
inductive Reach (g : Graph) (top : Str) : Str → Prop
  | refl : Reach g top top
  | step {u w : Str} : Reach g top u → g.Adj u w → Reach g top w

/-! ### message codes of `Model.errors` (see `errMsg` in `Penman/Main.lean`) -/

/-- "invalid role" -/ abbrev E_ROLE : Nat := 0
/-- "unreachable" -/ abbrev E_UNREACH : Nat := 1
/-- "graph is empty" -/ abbrev E_EMPTY : Nat := 2
/-- "top is not set" -/ abbrev E_NOTOP : Nat := 3
/-- "top is not a variable in the graph" -/ abbrev E_TOPVAR : Nat := 4

/-- the messages reported under key `k` (`err.get(k, [])`) -/
def codes (d : AList (Option Triple) (List Nat)) (k : Option Triple) : List Nat :=
  (AList.get? d k).getD []

/-- the top of `g` is usable for the reachability check: it is set, not
    the empty string, and the source of some triple -/
def Graph.TopOk (g : Graph) (top : Str) : Prop :=
  g.getTop = some top ∧ top ≠ [] ∧ g.IsSrc top

/-! ### the trees the command reads from a token stream -/

/-- `ParsedTrees c isSpace toks trees` : `iterparse` over `toks` yields
    exactly `trees` and then stops normally (end of the stream, or a token
    that starts neither a comment nor a node). -/
inductive ParsedTrees (c : PCtx) (isSpace : Char → Bool) : List Tok → List Tree → Prop
  | nil : ParsedTrees c isSpace [] []
  | stop {t : Tok} {ts : List Tok} : ¬ (t.ty = .COMMENT ∨ t.ty = .LPAREN) →
      ParsedTrees c isSpace (t :: ts) []
  | cons {t : Tok} {ts rest : List Tok} {tree : Tree} {trees : List Tree} :
      (t.ty = .COMMENT ∨ t.ty = .LPAREN) →
      parseTree c isSpace (t :: ts) = .ok (tree, rest) →
      ParsedTrees c isSpace rest trees →
      ParsedTrees c isSpace (t :: ts) (tree :: trees)

/-- the trees of one input text of the command -/
def InputTrees (cfg : LexCfg) (u : UTables) (input : Str) (trees : List Tree) : Prop :=
  let toks := lexLines cfg cfg.penmanOrder (fileLines input)
  ParsedTrees ⟨eofPos toks⟩ u.isSpace toks trees

end Penman

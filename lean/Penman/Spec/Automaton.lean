/-
  Penman.Spec.Automaton — an independent recogniser for the documented PENMAN
  grammar (docs/notation.rst)

      Graph := COMMENT* Node
      Node  := '(' Var ('/' Concept Alignment?)? Edge* ')'
      Edge  := Role Alignment? (Atom Alignment? | Node)

  plus the three documented robustness extensions

      * the empty node `()`,
      * a missing concept after `/`,
      * a missing target, only when the next token is a ROLE or `)`.

  It is an *iterative* pushdown automaton over token types: one transition
  per token, a small state enum, the node under construction (`cur`) and an
  explicit stack of the enclosing, partially built nodes (`parents`).  It does
  not look like the recursive-descent code of `Penman.Parse` and does not
  import it.

  Outcome of a run: the tree of the first graph and the remaining tokens, or
  the first token that has no transition, or "input exhausted".
  `Outcome.report` turns this into what `penman` reports: the offending
  token's `(lineno, offset)` (kind 1), or the end of the last token of the
  whole input (kind 0).
-/
import Penman.Lexer
import Penman.Tree
namespace Penman.Spec.Automaton
open Penman

/-- a node under construction: its variable (if seen) and the branches
    completed so far, in order -/
structure Frame where
  var : Option Str
  bs : List Branch

def Frame.empty : Frame := ⟨none, []⟩
/-- append a completed branch -/
def Frame.push (fr : Frame) (b : Branch) : Frame := { fr with bs := fr.bs ++ [b] }
/-- the finished node -/
def Frame.node (fr : Frame) : Node := .mk fr.var (Branches.ofList fr.bs)

/-- automaton states (what has just been read inside the current node) -/
inductive State where
  /-- before the `(` of the graph; `comments = true` : COMMENT tokens may precede it -/
  | start (comments : Bool)
  /-- just after `(` : a variable or `)` -/
  | opened
  /-- after the variable -/
  | afterVar
  /-- after `/` -/
  | afterSlash
  /-- after the concept `c` (an ALIGNMENT may follow) -/
  | afterConcept (c : Str)
  /-- between edges: a ROLE or `)` -/
  | edges
  /-- after the role `r` (an ALIGNMENT may follow) -/
  | afterRole (r : Str)
  /-- after role and its alignment: a target -/
  | target (r : Str)
  /-- after role `r` and atomic target `a` (an ALIGNMENT may follow) -/
  | afterAtom (r a : Str)

structure Config where
  st : State
  /-- the innermost node under construction -/
  cur : Frame
  /-- the enclosing unfinished nodes (innermost first), each with the role
      under which the node below it will be attached -/
  parents : List (Frame × Str)

inductive Step where
  | next (c : Config)
  | done (n : Node)
  | reject

def isAtomTok (t : Tok) : Bool := t.ty = .SYMBOL || t.ty = .STRING

/-- `)` : finish `cur`; attach it to its parent or, at depth 0, stop -/
def close (cur : Frame) : List (Frame × Str) → Step
  | [] => .done cur.node
  | (p, r) :: ps => .next ⟨.edges, p.push (r, .node cur.node), ps⟩

/-- between edges -/
def stepEdges (cur : Frame) (ps : List (Frame × Str)) (t : Tok) : Step :=
  if t.ty = .RPAREN then close cur ps
  else if t.ty = .ROLE then .next ⟨.afterRole t.text, cur, ps⟩
  else .reject

/-- a target is due for role `r` -/
def stepTarget (r : Str) (cur : Frame) (ps : List (Frame × Str)) (t : Tok) : Step :=
  if isAtomTok t then .next ⟨.afterAtom r t.text, cur, ps⟩
  else if t.ty = .LPAREN then .next ⟨.opened, Frame.empty, (cur, r) :: ps⟩
  else if t.ty = .ROLE || t.ty = .RPAREN then stepEdges (cur.push (r, .atom .none)) ps t   -- missing target
  else .reject

/-- an ALIGNMENT may follow the atom `a` of the branch with role `r` -/
def stepAtom (r a : Str) (cur : Frame) (ps : List (Frame × Str)) (t : Tok) : Step :=
  if t.ty = .ALIGNMENT then .next ⟨.edges, cur.push (r, .atom (.str (a ++ t.text))), ps⟩
  else stepEdges (cur.push (r, .atom (.str a))) ps t

/-- the transition function: exactly one token is consumed per transition -/
def step : Config → Tok → Step
  | ⟨.start cm, cur, ps⟩, t =>
    if t.ty = .LPAREN then .next ⟨.opened, cur, ps⟩
    else if cm && t.ty = .COMMENT then .next ⟨.start cm, cur, ps⟩
    else .reject
  | ⟨.opened, cur, ps⟩, t =>
    if t.ty = .RPAREN then close cur ps                     -- the empty node `()`
    else if t.ty = .SYMBOL then .next ⟨.afterVar, { cur with var := some t.text }, ps⟩
    else .reject
  | ⟨.afterVar, cur, ps⟩, t =>
    if t.ty = .SLASH then .next ⟨.afterSlash, cur, ps⟩
    else stepEdges cur ps t
  | ⟨.afterSlash, cur, ps⟩, t =>
    if isAtomTok t then .next ⟨.afterConcept t.text, cur, ps⟩
    else stepEdges (cur.push (['/'], .atom .none)) ps t       -- missing concept
  | ⟨.afterConcept c, cur, ps⟩, t => stepAtom ['/'] c cur ps t
  | ⟨.edges, cur, ps⟩, t => stepEdges cur ps t
  | ⟨.afterRole r, cur, ps⟩, t =>
    if t.ty = .ALIGNMENT then .next ⟨.target (r ++ t.text), cur, ps⟩
    else stepTarget r cur ps t
  | ⟨.target r, cur, ps⟩, t => stepTarget r cur ps t
  | ⟨.afterAtom r a, cur, ps⟩, t => stepAtom r a cur ps t

inductive Outcome where
  /-- the first graph and the tokens after it -/
  | accept (n : Node) (rest : List Tok)
  /-- the first token with no transition -/
  | rejectAt (t : Tok)
  /-- input ran out before the graph was complete -/
  | exhausted

/-- run from a configuration -/
def loop : Config → List Tok → Outcome
  | _, [] => .exhausted
  | cfg, t :: ts =>
    match step cfg t with
    | .next cfg' => loop cfg' ts
    | .done n => .accept n ts
    | .reject => .rejectAt t

def init (comments : Bool) : Config := ⟨.start comments, Frame.empty, []⟩

/-- `run true` : a graph (`COMMENT* Node`); `run false` : a node -/
def run (comments : Bool) (toks : List Tok) : Outcome := loop (init comments) toks

/-- the end of the last token of the input; `(0, 0)` for no input -/
def endPos : List Tok → Nat × Nat
  | [] => (0, 0)
  | [t] => (t.lineno, t.offset + t.text.length)
  | _ :: t :: ts => endPos (t :: ts)

/-- what is reported for an outcome, given the whole input `all` -/
def Outcome.report (all : List Tok) : Outcome → Except PyErr (Node × List Tok)
  | .accept n rest => .ok (n, rest)
  | .rejectAt t => .error (.decode t.lineno t.offset 1)
  | .exhausted => .error (.decode (endPos all).1 (endPos all).2 0)

/-! ### the language of the automaton -/

/-- the configuration reached after reading all of `toks` without rejecting
    or finishing -/
def steps : Config → List Tok → Option Config
  | cfg, [] => some cfg
  | cfg, t :: ts =>
    match step cfg t with
    | .next cfg' => steps cfg' ts
    | _ => none

/-- `toks` starts with a complete graph -/
def Accepts (comments : Bool) (toks : List Tok) : Prop :=
  ∃ n rest, run comments toks = .accept n rest

/-- `pre` can be extended to an accepted input -/
def Viable (comments : Bool) (pre : List Tok) : Prop :=
  ∃ ext, Accepts comments (pre ++ ext)

/-! ### iterating over graphs (`iterparse`) -/

/-- the leading COMMENT tokens of a graph -/
def leadingComments (toks : List Tok) : List Tok := toks.takeWhile (·.ty = .COMMENT)

theorem loop_accept_length (cfg : Config) (toks : List Tok) (n : Node) (rest : List Tok)
    (h : loop cfg toks = .accept n rest) : rest.length < toks.length := by
  induction toks generalizing cfg with
  | nil => simp [loop] at h
  | cons t ts ih =>
    simp only [loop] at h
    split at h
    · have := ih _ h; simp; omega
    · cases h; simp
    · cases h

/-- why the iteration over graphs stopped -/
inductive Stop where
  /-- no further graph starts here (end of input, or a token other than COMMENT / `(`) -/
  | ended
  /-- a graph was started and this token has no transition -/
  | rejectAt (t : Tok)
  /-- a graph was started and the input ran out -/
  | exhausted

/-- the error reported for a stop, given the whole input `all` -/
def Stop.error? (all : List Tok) : Stop → Option PyErr
  | .ended => none
  | .rejectAt t => some (.decode t.lineno t.offset 1)
  | .exhausted => some (.decode (endPos all).1 (endPos all).2 0)

set_option linter.unusedVariables false in
/-- graphs are read as long as the next token is a COMMENT or `(`; the
    result is the list of `(tokens the graph was read from, node)` and the
    reason the iteration stopped. -/
def runAll (toks : List Tok) : List (List Tok × Node) × Stop :=
  match toks with
  | [] => ([], .ended)
  | t :: ts =>
    if t.ty = .COMMENT || t.ty = .LPAREN then
      match h : run true (t :: ts) with
      | .accept n rest =>
        let r := runAll rest
        ((t :: ts, n) :: r.1, r.2)
      | .rejectAt u => ([], .rejectAt u)
      | .exhausted => ([], .exhausted)
    else ([], .ended)
termination_by toks.length
decreasing_by exact loop_accept_length _ _ _ _ h

end Penman.Spec.Automaton

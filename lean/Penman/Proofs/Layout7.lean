/-
  Penman.Proofs.Layout7 — C02: assembly. `interpret` of a well-formed tree is
  the graph of `spNode`; `configure` of that graph preconfigures to `dNode`,
  runs one `configureNode` call that consumes everything, skips the `while`
  loop, and builds `dropNullConcept` of the tree.
-/
import Penman.Proofs.Layout6
namespace Penman
namespace C02

variable (isAlpha : Char → Bool) (m : Model)

theorem unset_not_own (vs : List Str) (x : Str) : AList.get? (vs.map (·, NM.unset)) x ≠ some NM.own := by
  induction vs with
  | nil => simp [AList.get?]
  | cons v vs ih =>
    simp only [List.map_cons, get?_cons]
    split
    · simp
    · exact ih

theorem top_mem_variables (g : Graph) (top : Str) (h : g.top = some top) : top ∈ g.variables := by
  unfold Graph.variables
  simp only [h]
  split
  · assumption
  · simp

/-- the one `configureNode` call of `configure`, from the initial store -/
theorem top_call (n : Node) (hL : LNode isAlpha m n) (hnd : n.vars.Nodup) (top : Str) (bs : Branches)
    (hn : n = .mk (some top) bs) (vars vs : List Str) :
    ∃ s' st1, configureNode m ((dNode isAlpha m vars n).length + 1) top (dNode isAlpha m vars n)
        ⟨[(top, [])], AList.set (vs.map (fun v => (v, NM.unset))) top NM.own⟩ false = ([], st1, s') ∧
      st1.cells = storeN isAlpha n := by
  generalize hst : (⟨[(top, [])], AList.set (vs.map (fun v => (v, NM.unset))) top NM.own⟩ : St) = st0
  have hc0 : st0.cells = [(top, [])] := by rw [← hst]
  have hn0 : st0.nm = AList.set (vs.map (fun v => (v, NM.unset))) top NM.own := by rw [← hst]
  have hvar : n.var = some top := by rw [hn]; rfl
  have hnode : n.vars.Nodup := hnd
  rw [hn, vars_mk, List.nodup_cons] at hnode
  have hown0 : ∀ x ∈ nvB n.bs, ¬ Own st0 x := by
    intro x hx ho
    rw [hn] at hx
    simp only [Node.bs] at hx
    have hxt : x ≠ top := by rintro rfl; exact hnode.1 hx
    unfold Own at ho
    rw [hn0, get?_set_other _ _ _ _ hxt] at ho
    exact unset_not_own _ _ ho
  obtain ⟨s', hcn⟩ := cn_node isAlpha m vars n hL hnd st0 false [] ((dNode isAlpha m vars n).length + 1) hown0
    (by simp)
  rw [hvar, List.append_nil] at hcn
  simp only [Option.getD_some, configureNode] at hcn
  refine ⟨s', _, hcn, ?_⟩
  have hcells := cells_node isAlpha m n hL hnd st0
    (by rw [hvar, hc0]; simp [AList.keys])
    (by rw [hvar]; simp [St.cell, hc0, AList.get?])
    (by
      intro x hx
      rw [hn] at hx; simp only [Node.bs] at hx
      rw [hc0]
      simp only [AList.keys, List.map_cons, List.map_nil, List.mem_singleton]
      rintro rfl; exact hnode.1 hx)
  rw [hcells, hc0, hn]
  simp [AList.set, storeN, Node.bs, Node.var]

theorem layout_main (t : Tree) (ht : WfLayout isAlpha m t.node) :
    ∃ g, interpret isAlpha m t = .ok g ∧
      configure m g none = .ok ⟨dropNullConcept t.node, AList.ofList t.metadata⟩ := by
  obtain ⟨hwf, hnd, hdist⟩ := ht
  have hL := wfNode_L isAlpha m t.node hwf
  obtain ⟨top, bs, hn⟩ := LNode_var isAlpha m hL
  have hint := interp_node isAlpha m t.node.vars t.node hL
  -- the denoted triples are distinct
  have hTn : ((spNode isAlpha m t.node.vars t.node).map (·.1)).Nodup := by
    unfold distinctTriplesB at hdist
    rw [hint] at hdist
    simpa using hdist
  generalize hE : spNode isAlpha m t.node.vars t.node = E at hint hTn
  have hEne : E ≠ [] := hE ▸ spNode_ne_nil isAlpha m _ _
  -- the graph
  have hcolon : (E.map (·.1)).map (fun t => { t with role := ensureColon t.role }) = E.map (·.1) := by
    have hc := colon_node isAlpha m t.node.vars t.node hL
    rw [hE] at hc
    conv => rhs; rw [← List.map_id (E.map (·.1))]
    apply List.map_congr_left
    intro tr htr
    have := hc tr htr
    simp [ensureColon, this]
  refine ⟨Graph.mk' (E.map (·.1)) t.node.var (epimapOf E) t.metadata, ?_, ?_⟩
  · simp [interpret, hint, bind, Except.bind, pure, Except.pure]
  · have hep : AList.ofList (epimapOf E) = E := by
      rw [epimapOf_nodup E hTn]; exact ofList_nodup E hTn
    have hvar : t.node.var = some top := by rw [hn]; rfl
    -- the datum list
    obtain ⟨p', hpre, _⟩ := pre_node isAlpha m t.node.vars t.node hL hnd [] (by simp)
    rw [hE] at hpre
    have hdata := preconfigure_eq m E E (fun p hp => get?_of_mem_nodup hTn (by
      obtain ⟨a, b⟩ := p; exact hp)) [] hpre
    -- the store
    have hkeys := keys_storeN isAlpha m t.node hL
    have hlen : (storeN isAlpha t.node).length = t.node.vars.length := by
      rw [← hkeys]; simp [AList.keys]
    have hbuild := build_node isAlpha m t.node hL (storeN isAlpha t.node) (2 * (storeN isAlpha t.node).length + 2)
      (fun p hp => get?_of_mem_nodup (by rw [hkeys]; exact hnd) (by obtain ⟨a, b⟩ := p; exact hp))
      (by have := need_node isAlpha m t.node hL; rw [hlen]; omega)
    rw [hvar] at hbuild
    simp only [Option.getD_some] at hbuild
    -- run `configure`
    have htr : ((E.map (·.1)).map (fun t => { t with role := ensureColon t.role })).isEmpty = false := by
      rw [hcolon]; cases E with
      | nil => exact absurd rfl hEne
      | cons _ _ => rfl
    have hmem : top ∈ (Graph.mk' (E.map (·.1)) (some top) (epimapOf E) t.metadata).variables :=
      top_mem_variables _ top rfl
    unfold configure
    simp only [Graph.mk', hvar, hep, hcolon] at hmem htr ⊢
    simp only [htr, Bool.false_eq_true, if_false, Graph.getTop, hmem, not_true_eq_false, hdata, bind, Except.bind]
    generalize Graph.variables _ = vs
    obtain ⟨s', st1, hcn, hstore⟩ := top_call isAlpha m t.node hL hnd top bs hn t.node.vars vs
    rw [hcn]
    simp only [stripPops, configureLoop, List.isEmpty_nil, if_true]
    rw [hstore, hbuild]
    rfl

end C02
end Penman

/-
  Penman.Proofs.Layout4 — C02, the key lemma: `configureNode` started on the
  data of a well-formed branch list followed by `rest`, with no nested variable
  established yet, consumes exactly that data and transforms the store as the
  structural function `runBranches` says; a nested call returns at its own POP.
-/
import Penman.Proofs.Layout3
namespace Penman
namespace C02

variable (isAlpha : Char → Bool) (m : Model)

/-! ### the store transformer -/

mutual
def runNode (st : St) : Node → St
  | .mk v bs => runBranches (v.getD []) st bs
def runBranches (var : Str) (st : St) : Branches → St
  | .nil => st
  | .atom role a rest =>
    runBranches var
      (if roleCore isAlpha role = CONCEPT_ROLE then
        (if (atomCore isAlpha a).isMissing then st
         else st.addFront var ⟨['/'], .atom (atomCore isAlpha a), roleEpis isAlpha role ++ atomEpis isAlpha a⟩)
       else (st.noteSite var (atomCore isAlpha a)).addBack var
          ⟨roleCore isAlpha role, .atom (atomCore isAlpha a), roleEpis isAlpha role ++ atomEpis isAlpha a⟩)
      rest
  | .sub role n rest =>
    runBranches var
      ((runNode (st.newCell (n.var.getD [])) n).addBack var
        ⟨roleCore isAlpha role, .node (n.var.getD []), roleEpis isAlpha role⟩)
      rest
end

/-! ### established variables -/

def Own (st : St) (v : Str) : Prop := AList.get? st.nm v = some NM.own

theorem own_addBack (st : St) (v : Str) (e : Edge) (x : Str) : Own (st.addBack v e) x ↔ Own st x := Iff.rfl
theorem own_addFront (st : St) (v : Str) (e : Edge) (x : Str) : Own (st.addFront v e) x ↔ Own st x := Iff.rfl

theorem own_noteSite (st : St) (var : Str) (t : Atom) (x : Str) : Own (st.noteSite var t) x ↔ Own st x := by
  unfold St.noteSite
  cases t with
  | none => exact Iff.rfl
  | num s => exact Iff.rfl
  | str v =>
    simp only
    split
    · rename_i h
      unfold Own
      simp only
      by_cases hx : x = v
      · subst hx; rw [get?_set_same, h]; simp
      · rw [get?_set_other _ _ _ _ hx]
    · exact Iff.rfl

theorem own_newCell (st : St) (v x : Str) : Own (st.newCell v) x ↔ x = v ∨ Own st x := by
  unfold Own St.newCell
  simp only
  by_cases hx : x = v
  · subst hx; rw [get?_set_same]; simp
  · rw [get?_set_other _ _ _ _ hx]; simp [hx]

mutual
theorem own_runNode : ∀ (n : Node) (st : St), LNode isAlpha m n → ∀ x,
    (Own (runNode isAlpha st n) x ↔ Own st x ∨ x ∈ nvB n.bs)
  | .mk v bs => by
    intro st h x
    obtain ⟨var, rfl, hb, _⟩ := h
    simp only [runNode, Node.bs]
    exact own_runBranches var bs st hb x
theorem own_runBranches (var : Str) : ∀ (bs : Branches) (st : St), LB isAlpha m var bs → ∀ x,
    (Own (runBranches isAlpha var st bs) x ↔ Own st x ∨ x ∈ nvB bs)
  | .nil => by intro st _ x; simp [runBranches]
  | .atom role a rest => by
    intro st h x
    obtain ⟨_, _, hb⟩ := h
    simp only [runBranches, nvB_atom]
    rw [own_runBranches var rest _ hb x]
    split
    · split
      · exact Iff.rfl
      · rw [own_addFront]
    · rw [own_addBack, own_noteSite]
  | .sub role n rest => by
    intro st h x
    obtain ⟨_, hn, hb⟩ := h
    obtain ⟨nv, nbs, rfl⟩ := LNode_var isAlpha m hn
    simp only [runBranches, nvB_sub, vars_mk, Node.var, Option.getD_some]
    rw [own_runBranches var rest _ hb x, own_addBack, own_runNode _ _ hn x, own_newCell]
    simp only [Node.bs, List.mem_append, List.mem_cons]
    grind
end

/-! ### single steps of `configureNode` -/

theorem cn_step_skip (f : Nat) (var : Str) (tr : Triple) (push : Bool) (epis : List Epi) (data : List Datum)
    (st : St) (s : Bool) {tgt : Atom} {p s1 : Bool}
    (ho : orient m var tr push s = some (CONCEPT_ROLE, tgt, p, s1)) (hm : tgt.isMissing = true) :
    configureNode m (f+1) var (.t tr push epis :: data) st s = configureNode m f var data st s1 := by
  simp [configureNode, ho, hm]

theorem cn_step_concept (f : Nat) (var : Str) (tr : Triple) (push : Bool) (epis : List Epi) (data : List Datum)
    (st : St) (s : Bool) {tgt : Atom} {p s1 : Bool}
    (ho : orient m var tr push s = some (CONCEPT_ROLE, tgt, p, s1)) (hm : tgt.isMissing = false) :
    configureNode m (f+1) var (.t tr push epis :: data) st s =
      configureNode m f var data (st.addFront var ⟨['/'], .atom tgt, epis⟩) s1 := by
  simp [configureNode, ho, hm]

theorem cn_step_atom (f : Nat) (var : Str) (tr : Triple) (push : Bool) (epis : List Epi) (data : List Datum)
    (st : St) (s : Bool) {role : Str} {tgt : Atom} {p s1 : Bool}
    (ho : orient m var tr push s = some (role, tgt, p, s1)) (hr : role ≠ CONCEPT_ROLE)
    (hp : pushVar st p tgt = none) :
    configureNode m (f+1) var (.t tr push epis :: data) st s =
      configureNode m f var data ((st.noteSite var tgt).addBack var ⟨role, .atom tgt, epis⟩) s1 := by
  simp [configureNode, ho, hr, hp]

theorem cn_step_node (f : Nat) (var : Str) (tr : Triple) (push : Bool) (epis : List Epi) (data : List Datum)
    (st : St) (s : Bool) {role : Str} {tgt : Atom} {p s1 : Bool} {v : Str}
    (ho : orient m var tr push s = some (role, tgt, p, s1)) (hr : role ≠ CONCEPT_ROLE)
    (hp : pushVar st p tgt = some v) :
    configureNode m (f+1) var (.t tr push epis :: data) st s =
      configureNode m f var (configureNode m f v data (st.newCell v) false).1
        ((configureNode m f v data (st.newCell v) false).2.1.addBack var ⟨role, .node v, epis⟩)
        (s1 && (configureNode m f v data (st.newCell v) false).2.2) := by
  simp [configureNode, ho, hr, hp]

theorem inst_not_inverted : m.isRoleInverted CONCEPT_ROLE = false := by
  have : endsWith ofStr CONCEPT_ROLE = false := by decide
  simp [Model.isRoleInverted, this]

theorem deinverts_inst : deinverts m CONCEPT_ROLE = false := by
  simp [deinverts, inst_not_inverted]

/-- one atomic branch: the datum is consumed, the store changes as `runBranches` says -/
theorem cn_atom_step (vars : List Str) (var role : Str) (a : Atom)
    (hs : RoleSlot isAlpha m var role a)
    (f : Nat) (data : List Datum) (st : St) (s : Bool) :
    ∃ s1, configureNode m (f+1) var
        (.t (brTriple m vars var (roleCore isAlpha role) (atomCore isAlpha a)) false
          (roleEpis isAlpha role ++ atomEpis isAlpha a) :: data) st s =
      configureNode m f var data
        (if roleCore isAlpha role = CONCEPT_ROLE then
          (if (atomCore isAlpha a).isMissing then st
           else st.addFront var ⟨['/'], .atom (atomCore isAlpha a), roleEpis isAlpha role ++ atomEpis isAlpha a⟩)
         else (st.noteSite var (atomCore isAlpha a)).addBack var
            ⟨roleCore isAlpha role, .atom (atomCore isAlpha a), roleEpis isAlpha role ++ atomEpis isAlpha a⟩) s1 := by
  rcases hs with rfl | ⟨hr, hself⟩
  · -- the concept slot
    rw [slash_core, slash_epis]
    simp only [brTriple, deinverts_inst, Bool.false_and, Bool.false_eq_true, if_false, if_true]
    have ho : orient m var ⟨var, CONCEPT_ROLE, atomCore isAlpha a⟩ false s =
        some (CONCEPT_ROLE, atomCore isAlpha a, false, s) := by simp [orient]
    cases hm : (atomCore isAlpha a).isMissing with
    | true => exact ⟨s, by rw [cn_step_skip m f var _ _ _ _ st s ho hm]; simp⟩
    | false => exact ⟨s, by rw [cn_step_concept m f var _ _ _ _ st s ho hm]; simp⟩
  · have rf := roleFacts isAlpha m hr
    simp only [rf.notInst, if_false]
    by_cases hd : (deinverts m (roleCore isAlpha role) && atomInVars vars (atomCore isAlpha a)) = true
    · -- an inverted re-entrancy, deinverted by `interpret`: "unexpected inversion"
      simp only [Bool.and_eq_true] at hd
      obtain ⟨hd1, hd2⟩ := hd
      cases hc : atomCore isAlpha a with
      | none => simp [hc, atomInVars] at hd2
      | num t => simp [hc, atomInVars] at hd2
      | str w =>
        have hw : w ≠ var := by
          rintro rfl; exact hself ⟨hd1, hc⟩
        have hw' : ¬ var = w := fun e => hw e.symm
        have hin : atomInVars vars (Atom.str w) = true := hc ▸ hd2
        simp only [brTriple, hd1, hin, Bool.and_self, if_true, Model.invert]
        have ho : orient m var ⟨w, m.invertRole (roleCore isAlpha role), .str var⟩ false s =
            some (roleCore isAlpha role, .str w, false, true) := by
          have hcan := rf.canon (by unfold deinverts at hd1; simp at hd1; exact hd1.2)
          simp [orient, hw, rf.invNotInst, Model.invert, hcan]
        refine ⟨true, ?_⟩
        rw [cn_step_atom m f var _ _ _ _ st s ho rf.notInst (by simp [pushVar])]
    · have hd' : (deinverts m (roleCore isAlpha role) && atomInVars vars (atomCore isAlpha a)) = false := by
        simpa using hd
      simp only [brTriple, hd', Bool.false_eq_true, if_false]
      have ho : orient m var ⟨var, roleCore isAlpha role, atomCore isAlpha a⟩ false s =
          some (roleCore isAlpha role, atomCore isAlpha a, false, s) := by simp [orient]
      exact ⟨s, cn_step_atom m f var _ _ _ _ st s ho rf.notInst (by simp [pushVar])⟩

/-! ### the key lemma -/

theorem fuel_succ {f n : Nat} (h : n + 1 < f) : ∃ f', f = f' + 1 ∧ n < f' := by
  cases f with
  | zero => omega
  | succ f' => exact ⟨f', rfl, by omega⟩

mutual
theorem cn_node (vars : List Str) : ∀ (n : Node), LNode isAlpha m n → n.vars.Nodup →
    ∀ (st : St) (s : Bool) (rest : List Datum) (f : Nat), (∀ x ∈ nvB n.bs, ¬ Own st x) →
    (dNode isAlpha m vars n ++ rest).length < f →
    ∃ s', configureNode m f (n.var.getD []) (dNode isAlpha m vars n ++ rest) st s =
      configureNode m f (n.var.getD []) rest (runNode isAlpha st n) s'
  | .mk v bs => by
    intro h hnd st s rest f hown hf
    obtain ⟨var, rfl, hb, _⟩ := h
    simp only [vars_mk, List.nodup_cons] at hnd
    simp only [Node.bs] at hown
    simp only [dNode, Node.var, Option.getD_some, runNode] at hf ⊢
    unfold instDatum at hf ⊢
    cases hc : hasConceptB isAlpha bs with
    | true =>
      simp only [hc, if_true, List.nil_append] at hf ⊢
      exact cn_branches vars var bs hb hnd.1 hnd.2 st s rest f hown hf
    | false =>
      simp only [hc, Bool.false_eq_true, if_false, List.cons_append, List.nil_append] at hf ⊢
      obtain ⟨f', rfl, hf'⟩ := fuel_succ (n := (dBranches isAlpha m vars var bs ++ rest).length)
        (by simp only [List.length_cons, List.length_append] at hf ⊢; omega)
      have ho : orient m var ⟨var, CONCEPT_ROLE, .none⟩ false s = some (CONCEPT_ROLE, .none, false, s) := by
        simp [orient]
      rw [cn_step_skip m f' var _ _ _ _ st s ho rfl]
      obtain ⟨s', e⟩ := cn_branches vars var bs hb hnd.1 hnd.2 st s rest f' hown hf'
      refine ⟨s', ?_⟩
      rw [e]
      exact cn_fuel m _ _ _ _ _ _ (by simp at hf'; omega) (by simp at hf'; omega)
theorem cn_branches (vars : List Str) (var : Str) : ∀ (bs : Branches), LB isAlpha m var bs →
    var ∉ nvB bs → (nvB bs).Nodup →
    ∀ (st : St) (s : Bool) (rest : List Datum) (f : Nat), (∀ x ∈ nvB bs, ¬ Own st x) →
    (dBranches isAlpha m vars var bs ++ rest).length < f →
    ∃ s', configureNode m f var (dBranches isAlpha m vars var bs ++ rest) st s =
      configureNode m f var rest (runBranches isAlpha var st bs) s'
  | .nil => by
    intro _ _ _ st s rest f _ _
    exact ⟨s, by simp [dBranches, runBranches]⟩
  | .atom role a rest => by
    intro h hv hnd st s rest0 f hown hf
    obtain ⟨hs, ha, hb⟩ := h
    simp only [nvB_atom] at hv hnd hown
    simp only [dBranches, runBranches, List.cons_append] at hf ⊢
    obtain ⟨f', rfl, hf'⟩ := fuel_succ (n := (dBranches isAlpha m vars var rest ++ rest0).length)
      (by simp only [List.length_cons, List.length_append] at hf ⊢; omega)
    obtain ⟨s1, e1⟩ := cn_atom_step isAlpha m vars var role a hs f' (dBranches isAlpha m vars var rest ++ rest0) st s
    rw [e1]
    have hown' : ∀ x ∈ nvB rest, ¬ Own
        (if roleCore isAlpha role = CONCEPT_ROLE then
          (if (atomCore isAlpha a).isMissing then st
           else st.addFront var ⟨['/'], .atom (atomCore isAlpha a), roleEpis isAlpha role ++ atomEpis isAlpha a⟩)
         else (st.noteSite var (atomCore isAlpha a)).addBack var
            ⟨roleCore isAlpha role, .atom (atomCore isAlpha a), roleEpis isAlpha role ++ atomEpis isAlpha a⟩) x := by
      intro x hx
      split
      · split
        · exact hown x hx
        · rw [own_addFront]; exact hown x hx
      · rw [own_addBack, own_noteSite]; exact hown x hx
    obtain ⟨s', e⟩ := cn_branches vars var rest hb hv hnd _ s1 rest0 f' hown' hf'
    refine ⟨s', ?_⟩
    rw [e]
    exact cn_fuel m _ _ _ _ _ _ (by simp at hf'; omega) (by simp at hf'; omega)
  | .sub role n rest => by
    intro h hv hnd st s rest0 f hown hf
    obtain ⟨hr, hn, hb⟩ := h
    obtain ⟨nv, nbs, rfl⟩ := LNode_var isAlpha m hn
    have rf := roleFacts isAlpha m hr
    simp only [nvB_sub, vars_mk, List.mem_append, List.mem_cons, not_or] at hv hnd hown
    have hnd' := List.nodup_append.1 hnd
    simp only [dBranches, runBranches, Node.var, Option.getD_some, List.cons_append, List.append_assoc] at hf ⊢
    obtain ⟨f', rfl, hf'⟩ := fuel_succ (n := (dNode isAlpha m vars (.mk (some nv) nbs) ++
        Datum.pop :: (dBranches isAlpha m vars var rest ++ rest0)).length)
      (by simp only [List.length_cons, List.length_append] at hf ⊢; omega)
    have ho : orient m var ⟨var, roleCore isAlpha role, .str nv⟩ true s =
        some (roleCore isAlpha role, .str nv, true, s) := by simp [orient]
    have hnown : ¬ Own st nv := hown nv (Or.inl (Or.inl rfl))
    have hp : pushVar st true (.str nv) = some nv := by
      unfold Own at hnown
      simp [pushVar, St.established, hnown, tgtStr?]
    rw [cn_step_node m f' var _ _ _ _ st s ho rf.notInst hp]
    -- the nested call
    have hnn : (Node.mk (some nv) nbs).vars.Nodup := by simpa using hnd'.1
    obtain ⟨s2, e2⟩ := cn_node vars (.mk (some nv) nbs) hn hnn (st.newCell nv) false
      (Datum.pop :: (dBranches isAlpha m vars var rest ++ rest0)) f' (by
        intro x hx
        simp only [Node.bs] at hx
        rw [own_newCell]
        rintro (rfl | h)
        · exact (List.nodup_cons.1 hnd'.1).1 hx
        · exact hown x (Or.inl (Or.inr hx)) h) hf'
    simp only [Node.var, Option.getD_some] at e2
    rw [e2]
    obtain ⟨f'', rfl⟩ : ∃ f'', f' = f'' + 1 := by
      cases f' with
      | zero => simp at hf'
      | succ k => exact ⟨k, rfl⟩
    simp only [configureNode]
    -- the remaining branches
    have hlen : (dBranches isAlpha m vars var rest ++ rest0).length < f'' + 1 := by
      simp only [List.length_append, List.length_cons] at hf' ⊢; omega
    obtain ⟨s', e⟩ := cn_branches vars var rest hb hv.2 hnd'.2.1
      ((runNode isAlpha (st.newCell nv) (.mk (some nv) nbs)).addBack var
        ⟨roleCore isAlpha role, .node nv, roleEpis isAlpha role⟩) (s && s2) rest0 (f'' + 1) (by
        intro x hx
        rw [own_addBack, own_runNode isAlpha m _ _ hn, own_newCell]
        simp only [Node.bs]
        rintro ((rfl | h) | h)
        · exact hnd'.2.2 x (by simp) x hx rfl
        · exact hown x (Or.inr hx) h
        · exact hnd'.2.2 x (by simp [h]) x hx rfl) hlen
    refine ⟨s', ?_⟩
    rw [e]
    exact cn_fuel m _ _ _ _ _ _ (by simp at hlen; omega) (by simp at hlen; omega)
end

end C02
end Penman

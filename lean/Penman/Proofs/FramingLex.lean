/-
  Penman.Proofs.FramingLex — the lexer and line terminators (property C09):
  every scanner returns a prefix of its input; appending token-free
  separator characters (and a final LF) to a line changes no token, except that a
  COMMENT swallows the separators that precede the LF.
-/
import Penman.Proofs.FramingSplit
namespace Penman.Framing
open Penman

/-! ### `spanP` -/

theorem spanP_append_snd (p : Char → Bool) (s : Str) : (spanP p s).1 ++ (spanP p s).2 = s := by
  induction s with
  | nil => simp [spanP]
  | cons c cs ih => simp only [spanP]; split <;> simp [ih]

theorem spanP_fst_prefix (p : Char → Bool) (s : Str) : (spanP p s).1 <+: s :=
  ⟨(spanP p s).2, spanP_append_snd p s⟩

theorem spanP_all (p : Char → Bool) (s : Str) (h : ∀ c ∈ s, p c = true) : spanP p s = (s, []) := by
  induction s with
  | nil => simp [spanP]
  | cons c cs ih =>
    have hc := h c (by simp)
    have := ih (fun d hd => h d (by simp [hd]))
    simp [spanP, hc, this]

theorem spanP_append_stop (p : Char → Bool) (s : Str) (c0 : Char) (t : Str) (h : p c0 = false) :
    spanP p (s ++ c0 :: t) = ((spanP p s).1, (spanP p s).2 ++ c0 :: t) := by
  induction s with
  | nil => simp [spanP, h]
  | cons c cs ih =>
    simp only [List.cons_append, spanP]
    split <;> simp [ih]

theorem spanP_snd_length_le (p : Char → Bool) (s : Str) : (spanP p s).2.length ≤ s.length := by
  have := congrArg List.length (spanP_append_snd p s)
  simp at this; omega

/-! ### separator characters -/

/-- characters with a lexical role of their own -/
def specials : List Char := ['#', '"', '(', ')', '/', ':', '~', '.', ',', '\\']

/-- `c` can only separate tokens: it is skipped between tokens, ends ROLE and SYMBOL runs,
    is no part of an ALIGNMENT and has no lexical role of its own.
    (For the generated tables: space, TAB, CR, LF, VT, FF.) -/
def SepChar (cfg : LexCfg) (c : Char) : Prop :=
  c ∈ cfg.blank ∧ c ∈ cfg.roleExcl ∧ c ∈ cfg.symExcl ∧
  inRanges cfg.alnDigit c = false ∧ inRanges cfg.alnPrefix c = false ∧ c ∉ specials

instance (cfg : LexCfg) (c : Char) : Decidable (SepChar cfg c) := by unfold SepChar; infer_instance

/-- no LF in the text -/
def NoLF (s : Str) : Prop := ∀ c ∈ s, c ≠ '\n'
instance (s : Str) : Decidable (NoLF s) := by unfold NoLF; infer_instance

theorem NoBreak.noLF {s : Str} (h : NoBreak s) : NoLF s := fun c hc => (h c hc).1

theorem NoLF.tail {c : Char} {s : Str} (h : NoLF (c :: s)) : NoLF s := fun d hd => h d (by simp [hd])

theorem NoLF.drop {s : Str} (h : NoLF s) (k : Nat) : NoLF (s.drop k) :=
  fun d hd => h d (List.mem_of_mem_drop hd)

/-! ### every scanner returns a prefix of its input -/

theorem scanComment_prefix {s m : Str} (h : scanComment s = some m) : m <+: s := by
  unfold scanComment at h
  split at h
  · rename_i rest
    simp only at h
    split at h
    · cases h
      have := spanP_fst_prefix (· != '\n') rest
      obtain ⟨t, ht⟩ := this
      exact ⟨t, by simp [ht]⟩
    · cases h
  · cases h

theorem scanStringBody_prefix (excl : List Char) : ∀ (f : Nat) (s m : Str),
    scanStringBody excl f s = some m → m <+: s := by
  intro f
  induction f with
  | zero => intro s m h; simp [scanStringBody] at h
  | succ f ih =>
    intro s m h
    cases s with
    | nil => simp [scanStringBody] at h
    | cons c cs =>
      simp only [scanStringBody] at h
      split at h
      · cases h; rename_i hc; subst hc; exact ⟨cs, rfl⟩
      · split at h
        · cases cs with
          | nil => simp at h
          | cons d ds =>
            simp only at h
            split at h
            · cases h
            · simp only [Option.map_eq_some_iff] at h
              obtain ⟨r, hr, rfl⟩ := h
              obtain ⟨t, ht⟩ := ih ds r hr
              exact ⟨t, by simp [ht]⟩
        · split at h
          · cases h
          · simp only [Option.map_eq_some_iff] at h
            obtain ⟨r, hr, rfl⟩ := h
            obtain ⟨t, ht⟩ := ih cs r hr
            exact ⟨t, by simp [ht]⟩

theorem scanString_prefix {excl : List Char} {s m : Str} (h : scanString excl s = some m) :
    m <+: s := by
  unfold scanString at h
  split at h
  · rename_i rest
    simp only [Option.map_eq_some_iff] at h
    obtain ⟨r, hr, rfl⟩ := h
    obtain ⟨t, ht⟩ := scanStringBody_prefix excl _ rest r hr
    exact ⟨t, by simp [ht]⟩
  · cases h

theorem scanRole_prefix {excl : List Char} {s m : Str} (h : scanRole excl s = some m) : m <+: s := by
  unfold scanRole at h
  split at h
  · rename_i rest
    cases h
    obtain ⟨t, ht⟩ := spanP_fst_prefix (fun c => !(c ∈ excl)) rest
    exact ⟨t, by simp [ht]⟩
  · cases h

theorem scanSymbol_prefix {excl : List Char} {s m : Str} (h : scanSymbol excl s = some m) :
    m <+: s := by
  unfold scanSymbol at h
  simp only at h
  split at h
  · cases h
  · cases h; exact spanP_fst_prefix _ s

theorem scanAlnTail_prefix (dig : Char → Bool) : ∀ (f : Nat) (s : Str), scanAlnTail dig f s <+: s := by
  intro f
  induction f with
  | zero => intro s; simp [scanAlnTail]
  | succ f ih =>
    intro s
    unfold scanAlnTail
    split
    · rename_i rest
      simp only
      split
      · simp
      · obtain ⟨t, ht⟩ := ih (spanP dig rest).2
        refine ⟨t, ?_⟩
        have := spanP_append_snd dig rest
        simp only [List.cons_append, List.append_assoc, ht, this]
    · simp

theorem scanAlnDigits_prefix {dig : Char → Bool} {s m : Str} (h : scanAlnDigits dig s = some m) :
    m <+: s := by
  unfold scanAlnDigits at h
  simp only at h
  split at h
  · cases h
  · cases h
    obtain ⟨t, ht⟩ := scanAlnTail_prefix dig s.length (spanP dig s).2
    refine ⟨t, ?_⟩
    have := spanP_append_snd dig s
    simp only [List.append_assoc, ht, this]

theorem prefix_cons_of {c : Char} {m s : Str} (h : m <+: s) : (c :: m) <+: (c :: s) := by
  obtain ⟨t, ht⟩ := h; exact ⟨t, by simp [ht]⟩

theorem scanAlignment_prefix {cfg : LexCfg} {s m : Str} (h : scanAlignment cfg s = some m) :
    m <+: s := by
  unfold scanAlignment at h
  split at h
  · rename_i rest
    simp only at h
    split at h
    · rename_i m' hv
      cases h
      apply prefix_cons_of
      split at hv
      · rename_i p r1
        split at hv
        · split at hv
          · rename_i r2
            split at hv
            · rename_i m2 h2
              cases hv
              exact prefix_cons_of (prefix_cons_of (scanAlnDigits_prefix h2))
            · simp only [Option.map_eq_some_iff] at hv
              obtain ⟨r, hr, rfl⟩ := hv
              exact prefix_cons_of (scanAlnDigits_prefix hr)
          · simp only [Option.map_eq_some_iff] at hv
            obtain ⟨r, hr, rfl⟩ := hv
            exact prefix_cons_of (scanAlnDigits_prefix hr)
        · cases hv
      · cases hv
    · simp only [Option.map_eq_some_iff] at h
      obtain ⟨r, hr, rfl⟩ := h
      exact prefix_cons_of (scanAlnDigits_prefix hr)
  · cases h

theorem scanChar_prefix {c : Char} {s m : Str} (h : scanChar c s = some m) : m <+: s := by
  unfold scanChar at h
  split at h
  · split at h
    · cases h; rename_i d r hd; subst hd; exact ⟨r, rfl⟩
    · cases h
  · cases h

theorem scanUnexpected_prefix {blank : List Char} {s m : Str} (h : scanUnexpected blank s = some m) :
    m <+: s := by
  unfold scanUnexpected at h
  split at h
  · split at h
    · cases h
    · cases h; rename_i d r hd; exact ⟨r, rfl⟩
  · cases h

/-- the text of a match is a prefix of what was scanned -/
theorem scanTy_prefix {cfg : LexCfg} {ty : TokTy} {s m : Str} (h : scanTy cfg ty s = some m) :
    m <+: s := by
  cases ty <;> simp only [scanTy] at h
  · exact scanComment_prefix h
  · exact scanString_prefix h
  · exact scanChar_prefix h
  · exact scanChar_prefix h
  · exact scanChar_prefix h
  · exact scanRole_prefix h
  · exact scanSymbol_prefix h
  · exact scanAlignment_prefix h
  · exact scanUnexpected_prefix h

theorem firstMatch_prefix {cfg : LexCfg} {order : List TokTy} {s m : Str} {ty : TokTy}
    (h : firstMatch cfg order s = some (ty, m)) : m <+: s := by
  induction order with
  | nil => simp [firstMatch] at h
  | cons t ts ih =>
    simp only [firstMatch] at h
    split at h
    · rename_i m' hm; cases h; exact scanTy_prefix hm
    · exact ih h

/-! ### appending separator characters does not change what a scanner matches -/

theorem scanStringBody_append_some (excl : List Char) (t : Str) : ∀ (f : Nat) (s m : Str),
    scanStringBody excl f s = some m → ∀ f', f ≤ f' → scanStringBody excl f' (s ++ t) = some m := by
  intro f
  induction f with
  | zero => intro s m h; simp [scanStringBody] at h
  | succ f ih =>
    intro s m h f' hf'
    obtain ⟨g, rfl⟩ : ∃ g, f' = g + 1 := ⟨f' - 1, by omega⟩
    have hg : f ≤ g := by omega
    cases s with
    | nil => simp [scanStringBody] at h
    | cons c cs =>
      simp only [scanStringBody, List.cons_append] at h ⊢
      split
      · simpa [*] using h
      · rename_i hq
        simp only [hq, ↓reduceIte] at h
        split
        · rename_i hb
          simp only [hb, ↓reduceIte] at h
          cases cs with
          | nil => simp at h
          | cons d ds =>
            simp only [List.cons_append] at h ⊢
            split
            · simp [*] at h
            · rename_i hd
              simp only [hd, ↓reduceIte, Option.map_eq_some_iff] at h
              obtain ⟨r, hr, rfl⟩ := h
              simp [ih ds r hr g hg, hb]
        · rename_i hb
          simp only [hb, ↓reduceIte] at h
          split
          · simp [*] at h
          · rename_i he
            simp only [he, ↓reduceIte, Option.map_eq_some_iff] at h
            obtain ⟨r, hr, rfl⟩ := h
            simp [ih cs r hr g hg]

theorem scanStringBody_noquote (excl : List Char) : ∀ (f : Nat) (s : Str),
    (∀ c ∈ s, c ≠ '"') → scanStringBody excl f s = none := by
  intro f
  induction f with
  | zero => intro s _; simp [scanStringBody]
  | succ f ih =>
    intro s h
    cases s with
    | nil => simp [scanStringBody]
    | cons c cs =>
      have hc : c ≠ '"' := h c (by simp)
      have hcs : ∀ d ∈ cs, d ≠ '"' := fun d hd => h d (by simp [hd])
      simp only [scanStringBody, hc, ↓reduceIte]
      split
      · cases cs with
        | nil => rfl
        | cons d ds =>
          simp only
          split
          · rfl
          · simp [ih ds (fun e he => hcs e (by simp [he]))]
      · split
        · rfl
        · simp [ih cs hcs]

theorem scanStringBody_append_none (excl : List Char) (t : Str) (ht : ∀ c ∈ t, c ≠ '"') :
    ∀ (f : Nat) (s : Str), s.length < f → scanStringBody excl f s = none →
      ∀ f', scanStringBody excl f' (s ++ t) = none := by
  intro f
  induction f with
  | zero => intro s hl; omega
  | succ f ih =>
    intro s hl h f'
    cases s with
    | nil => simpa using scanStringBody_noquote excl f' t ht
    | cons c cs =>
      cases f' with
      | zero => simp [scanStringBody]
      | succ g =>
        simp only [List.length_cons] at hl
        simp only [scanStringBody, List.cons_append] at h ⊢
        split
        · simp [*] at h
        · rename_i hq
          simp only [hq, ↓reduceIte] at h
          split
          · rename_i hb
            simp only [hb, ↓reduceIte] at h
            cases cs with
            | nil =>
              cases t with
              | nil => rfl
              | cons d ds =>
                simp only [List.nil_append]
                split
                · rfl
                · simp [scanStringBody_noquote excl g ds (fun e he => ht e (by simp [he]))]
            | cons d ds =>
              simp only [List.cons_append] at h ⊢
              split
              · rfl
              · rename_i hd
                simp only [hd, ↓reduceIte, Option.map_eq_none_iff] at h
                simp only [List.length_cons] at hl
                simp [ih ds (by omega) h g]
          · rename_i hb
            simp only [hb, ↓reduceIte] at h
            split
            · rfl
            · rename_i he
              simp only [he, ↓reduceIte, Option.map_eq_none_iff] at h
              simp [ih cs (by omega) h g]

/-- STRING: text without a double quote appended to the input changes nothing -/
theorem scanString_append (excl : List Char) (s t : Str) (ht : ∀ c ∈ t, c ≠ '"') :
    scanString excl (s ++ t) = scanString excl s := by
  cases s with
  | nil =>
    cases t with
    | nil => rfl
    | cons d ds =>
      have : d ≠ '"' := ht d (by simp)
      simp only [List.nil_append]
      unfold scanString
      split
      · rename_i heq; cases heq; exact absurd rfl this
      · rfl
  | cons c cs =>
    by_cases hc : c = '"'
    · subst hc
      simp only [List.cons_append, scanString]
      cases h : scanStringBody excl (cs.length + 1) cs with
      | none => rw [scanStringBody_append_none excl t ht _ cs (by omega) h]
      | some m => rw [scanStringBody_append_some excl t _ cs m h _ (by simp)]
    · simp only [List.cons_append]
      unfold scanString
      split
      · rename_i heq; cases heq; exact absurd rfl hc
      · split
        · rename_i heq; cases heq; exact absurd rfl hc
        · rfl

/-- ROLE: an excluded character (other than `:`) ends the run -/
theorem scanRole_append (excl : List Char) (s : Str) (c0 : Char) (t : Str) (h0 : c0 ∈ excl)
    (h1 : c0 ≠ ':') : scanRole excl (s ++ c0 :: t) = scanRole excl s := by
  cases s with
  | nil =>
    simp only [List.nil_append]
    unfold scanRole
    split
    · rename_i heq; cases heq; exact absurd rfl h1
    · rfl
  | cons c cs =>
    by_cases hc : c = ':'
    · subst hc
      simp only [List.cons_append, scanRole]
      rw [spanP_append_stop _ cs c0 t (by simp [h0])]
    · simp only [List.cons_append]
      unfold scanRole
      split
      · rename_i heq; cases heq; exact absurd rfl hc
      · split
        · rename_i heq; cases heq; exact absurd rfl hc
        · rfl

theorem scanSymbol_append (excl : List Char) (s : Str) (c0 : Char) (t : Str) (h0 : c0 ∈ excl) :
    scanSymbol excl (s ++ c0 :: t) = scanSymbol excl s := by
  unfold scanSymbol
  simp only
  rw [spanP_append_stop _ s c0 t (by simp [h0])]

theorem scanChar_append (c : Char) (s : Str) (c0 : Char) (t : Str) (h0 : c0 ≠ c) :
    scanChar c (s ++ c0 :: t) = scanChar c s := by
  cases s with
  | nil => simp [scanChar, h0]
  | cons d ds => simp [scanChar]

theorem scanUnexpected_append (blank : List Char) (s : Str) (c0 : Char) (t : Str) (h0 : c0 ∈ blank) :
    scanUnexpected blank (s ++ c0 :: t) = scanUnexpected blank s := by
  cases s with
  | nil => simp [scanUnexpected, h0]
  | cons d ds => simp [scanUnexpected]

theorem scanAlnTail_fuel (dig : Char → Bool) : ∀ (f : Nat) (s : Str), s.length ≤ f →
    ∀ f', s.length ≤ f' → scanAlnTail dig f s = scanAlnTail dig f' s := by
  intro f
  induction f with
  | zero =>
    intro s hs f' _
    have : s = [] := List.eq_nil_of_length_eq_zero (by omega)
    subst this
    cases f' <;> simp [scanAlnTail]
  | succ f ih =>
    intro s hs f' hf'
    cases f' with
    | zero =>
      have : s = [] := List.eq_nil_of_length_eq_zero (by omega)
      subst this
      simp [scanAlnTail]
    | succ g =>
      unfold scanAlnTail
      split
      · rename_i rest
        simp only
        split
        · rfl
        · have hl := spanP_snd_length_le dig rest
          simp only [List.length_cons] at hs hf'
          rw [ih (spanP dig rest).2 (by omega) g (by omega)]
      · rfl

theorem scanAlnTail_comma (dig : Char → Bool) (f : Nat) (rest : Str) :
    scanAlnTail dig (f + 1) (',' :: rest) =
      if (spanP dig rest).1.isEmpty then []
      else ',' :: (spanP dig rest).1 ++ scanAlnTail dig f (spanP dig rest).2 := by
  rw [scanAlnTail]

theorem scanAlnTail_not_comma (dig : Char → Bool) (f : Nat) (s : Str) (h : s.head? ≠ some ',') :
    scanAlnTail dig f s = [] := by
  cases f with
  | zero => simp [scanAlnTail]
  | succ f =>
    unfold scanAlnTail
    split
    · simp at h
    · rfl

theorem scanAlnTail_append (dig : Char → Bool) (c0 : Char) (t : Str) (h0 : dig c0 = false)
    (h1 : c0 ≠ ',') : ∀ (f : Nat) (s : Str), s.length ≤ f →
    scanAlnTail dig (f + t.length + 1) (s ++ c0 :: t) = scanAlnTail dig f s := by
  intro f
  induction f with
  | zero =>
    intro s hs
    have : s = [] := List.eq_nil_of_length_eq_zero (by omega)
    subst this
    rw [scanAlnTail_not_comma _ _ _ (by simpa using h1), scanAlnTail_not_comma _ _ _ (by simp)]
  | succ f ih =>
    intro s hs
    cases s with
    | nil =>
      rw [scanAlnTail_not_comma _ _ _ (by simpa using h1), scanAlnTail_not_comma _ _ _ (by simp)]
    | cons c cs =>
      by_cases hc : c = ','
      · subst hc
        have e : f + 1 + t.length + 1 = (f + t.length + 1) + 1 := by omega
        rw [e, List.cons_append, scanAlnTail_comma, scanAlnTail_comma,
          spanP_append_stop dig cs c0 t h0]
        simp only
        split
        · rfl
        · have hl := spanP_snd_length_le dig cs
          simp only [List.length_cons] at hs
          rw [ih (spanP dig cs).2 (by omega)]
      · rw [scanAlnTail_not_comma _ _ _ (by simpa using hc),
          scanAlnTail_not_comma _ _ _ (by simpa using hc)]

theorem scanAlnDigits_append (dig : Char → Bool) (c0 : Char) (t : Str) (h0 : dig c0 = false)
    (h1 : c0 ≠ ',') (s : Str) : scanAlnDigits dig (s ++ c0 :: t) = scanAlnDigits dig s := by
  unfold scanAlnDigits
  simp only
  rw [spanP_append_stop dig s c0 t h0]
  simp only
  split
  · rfl
  · have hl := spanP_snd_length_le dig s
    have e : (s ++ c0 :: t).length = s.length + t.length + 1 := by simp; omega
    rw [e, scanAlnTail_append dig c0 t h0 h1 s.length _ hl]

/-- the `(?:[a-zA-Z]\.?)?` part of ALIGNMENT after a prefix letter `p` -/
def alnVia (dig : Char → Bool) (p : Char) (r1 : Str) : Option Str :=
  match r1 with
  | '.' :: r2 =>
    match scanAlnDigits dig r2 with
    | some m => some (p :: '.' :: m)
    | none => (scanAlnDigits dig r1).map (p :: ·)
  | _ => (scanAlnDigits dig r1).map (p :: ·)

theorem scanAlignment_eq (cfg : LexCfg) (rest : Str) :
    scanAlignment cfg ('~' :: rest) =
      match (match rest with
        | p :: r1 => if inRanges cfg.alnPrefix p then alnVia (inRanges cfg.alnDigit) p r1 else none
        | [] => none) with
      | some m => some ('~' :: m)
      | none => (scanAlnDigits (inRanges cfg.alnDigit) rest).map ('~' :: ·) := by
  cases rest with
  | nil => rfl
  | cons p r1 =>
    cases r1 with
    | nil => rfl
    | cons q r2 =>
      rfl

theorem scanAlignment_not_tilde (cfg : LexCfg) (s : Str) (h : s.head? ≠ some '~') :
    scanAlignment cfg s = none := by
  unfold scanAlignment
  split
  · simp at h
  · rfl

theorem alnVia_append (dig : Char → Bool) (c0 : Char) (t : Str) (h0 : dig c0 = false)
    (h1 : c0 ≠ ',') (h2 : c0 ≠ '.') (p : Char) (r1 : Str) :
    alnVia dig p (r1 ++ c0 :: t) = alnVia dig p r1 := by
  have hd := scanAlnDigits_append dig c0 t h0 h1
  cases r1 with
  | nil =>
    simp only [List.nil_append]
    have := hd []
    simp only [List.nil_append] at this
    unfold alnVia
    split
    · rename_i heq; cases heq; exact absurd rfl h2
    · simp only [this]
  | cons q r2 =>
    have hq := hd (q :: r2)
    simp only [List.cons_append] at hq ⊢
    by_cases hq' : q = '.'
    · subst hq'
      simp only [alnVia, hd r2, hq]
    · unfold alnVia
      split
      · rename_i heq; cases heq; exact absurd rfl hq'
      · split
        · rename_i heq; cases heq; exact absurd rfl hq'
        · simp only [hq]

theorem scanAlignment_append (cfg : LexCfg) (c0 : Char) (t : Str)
    (h0 : inRanges cfg.alnDigit c0 = false) (hp : inRanges cfg.alnPrefix c0 = false)
    (h1 : c0 ≠ ',') (h2 : c0 ≠ '.') (h3 : c0 ≠ '~') (s : Str) :
    scanAlignment cfg (s ++ c0 :: t) = scanAlignment cfg s := by
  have hd := scanAlnDigits_append (inRanges cfg.alnDigit) c0 t h0 h1
  cases s with
  | nil =>
    rw [scanAlignment_not_tilde _ _ (by simpa using h3), scanAlignment_not_tilde _ _ (by simp)]
  | cons c cs =>
    by_cases hc : c = '~'
    · subst hc
      rw [List.cons_append, scanAlignment_eq, scanAlignment_eq, hd cs]
      cases cs with
      | nil => simp only [List.nil_append, hp, Bool.false_eq_true, ↓reduceIte]
      | cons p r1 =>
        simp only [List.cons_append, alnVia_append _ c0 t h0 h1 h2]
    · rw [scanAlignment_not_tilde _ _ (by simpa using hc),
        scanAlignment_not_tilde _ _ (by simpa using hc)]

/-! ### COMMENT and the end of the line -/

theorem scanComment_not_hash (s : Str) (h : s.head? ≠ some '#') : scanComment s = none := by
  unfold scanComment
  split
  · simp at h
  · rfl

/-- on a line without LF a comment runs to the end of the line -/
theorem scanComment_noLF (r : Str) (h : NoLF r) : scanComment ('#' :: r) = some ('#' :: r) := by
  have : spanP (· != '\n') r = (r, []) := spanP_all _ r (fun c hc => by simpa using h c hc)
  simp [scanComment, this]

/-- `.*$` : the comment swallows everything up to, and excluding, a final LF -/
theorem scanComment_tail (r rs nl : Str) (hr : NoLF r) (hrs : NoLF rs) (hnl : nl = [] ∨ nl = ['\n']) :
    scanComment ('#' :: (r ++ (rs ++ nl))) = some ('#' :: (r ++ rs)) := by
  have hall : spanP (· != '\n') (r ++ rs) = (r ++ rs, []) :=
    spanP_all _ _ (fun c hc => by
      rcases List.mem_append.1 hc with h | h
      · simpa using hr c h
      · simpa using hrs c h)
  rcases hnl with rfl | rfl
  · simp [scanComment, hall]
  · have := spanP_append_stop (· != '\n') (r ++ rs) '\n' [] (by simp)
    rw [hall] at this
    simp only [List.append_assoc] at this
    simp [scanComment, this]

/-- a line tail: token-free separators `rs` (no LF among them) followed by at most one LF -/
structure SepTail (cfg : LexCfg) (rs nl : Str) : Prop where
  rs_sep : ∀ c ∈ rs, SepChar cfg c ∧ c ≠ '\n'
  nl_ok : nl = [] ∨ (nl = ['\n'] ∧ SepChar cfg '\n')

theorem SepTail.all {cfg : LexCfg} {rs nl : Str} (h : SepTail cfg rs nl) :
    ∀ c ∈ rs ++ nl, SepChar cfg c := by
  intro c hc
  rcases List.mem_append.1 hc with h1 | h1
  · exact (h.rs_sep c h1).1
  · rcases h.nl_ok with h2 | ⟨h2, h3⟩
    · subst h2; simp at h1
    · subst h2; simp at h1; subst h1; exact h3

theorem SepTail.noLF {cfg : LexCfg} {rs nl : Str} (h : SepTail cfg rs nl) : NoLF rs :=
  fun c hc => (h.rs_sep c hc).2

theorem SepTail.nl {cfg : LexCfg} {rs nl : Str} (h : SepTail cfg rs nl) : nl = [] ∨ nl = ['\n'] := by
  rcases h.nl_ok with h | h
  · exact Or.inl h
  · exact Or.inr h.1

theorem SepChar.not_special {cfg : LexCfg} {c : Char} (h : SepChar cfg c) :
    c ≠ '#' ∧ c ≠ '"' ∧ c ≠ '(' ∧ c ≠ ')' ∧ c ≠ '/' ∧ c ≠ ':' ∧ c ≠ '~' ∧ c ≠ '.' ∧ c ≠ ',' := by
  have := h.2.2.2.2.2
  simp only [specials, List.mem_cons, List.not_mem_nil, or_false, not_or] at this
  obtain ⟨a1, a2, a3, a4, a5, a6, a7, a8, a9, _⟩ := this
  exact ⟨a1, a2, a3, a4, a5, a6, a7, a8, a9⟩

theorem scanComment_append_tail (cfg : LexCfg) (s rs nl : Str) (hs : NoLF s) (ht : SepTail cfg rs nl) :
    scanComment (s ++ (rs ++ nl)) = (scanComment s).map (· ++ rs) := by
  cases s with
  | nil =>
    rw [scanComment_not_hash [] (by simp), List.nil_append, scanComment_not_hash]
    · rfl
    · cases h : rs ++ nl with
      | nil => simp
      | cons d ds =>
        have := (ht.all d (by rw [h]; simp)).not_special.1
        simpa using this
  | cons c r =>
    by_cases hc : c = '#'
    · subst hc
      rw [List.cons_append, scanComment_tail r rs nl hs.tail ht.noLF ht.nl, scanComment_noLF r hs.tail]
      simp
    · rw [List.cons_append, scanComment_not_hash (c :: r) (by simpa using hc),
        scanComment_not_hash _ (by simpa using hc)]
      rfl

/-- every scanner but COMMENT is blind to separator characters appended to its input -/
theorem scanTy_append (cfg : LexCfg) (ty : TokTy) (hty : ty ≠ .COMMENT) (s t : Str)
    (ht : ∀ c ∈ t, SepChar cfg c) : scanTy cfg ty (s ++ t) = scanTy cfg ty s := by
  cases t with
  | nil => simp
  | cons c0 t' =>
    have h0 := ht c0 (by simp)
    obtain ⟨a1, a2, a3, a4, a5, a6, a7, a8, a9⟩ := h0.not_special
    obtain ⟨b1, b2, b3, b4, b5, _⟩ := h0
    cases ty <;> simp only [scanTy]
    · exact absurd rfl hty
    · exact scanString_append _ s _ (fun c hc => (ht c hc).not_special.2.1)
    · exact scanChar_append _ s c0 t' a3
    · exact scanChar_append _ s c0 t' a4
    · exact scanChar_append _ s c0 t' a5
    · exact scanRole_append _ s c0 t' b2 a6
    · exact scanSymbol_append _ s c0 t' b3
    · exact scanAlignment_append cfg c0 t' b4 b5 a9 a8 a7 s
    · exact scanUnexpected_append _ s c0 t' b1

theorem scanTy_nil (cfg : LexCfg) (ty : TokTy) : scanTy cfg ty [] = none := by
  cases ty <;> simp [scanTy, scanComment, scanString, scanChar, scanRole, scanSymbol, spanP,
    scanAlignment, scanUnexpected]

/-- no token starts at a separator character -/
theorem scanTy_seps (cfg : LexCfg) (ty : TokTy) (t : Str) (ht : ∀ c ∈ t, SepChar cfg c) :
    scanTy cfg ty t = none := by
  by_cases hty : ty = .COMMENT
  · subst hty
    simp only [scanTy]
    apply scanComment_not_hash
    cases t with
    | nil => simp
    | cons d ds => simpa using (ht d (by simp)).not_special.1
  · have := scanTy_append cfg ty hty [] t ht
    simpa [scanTy_nil] using this

theorem firstMatch_seps (cfg : LexCfg) (order : List TokTy) (t : Str) (ht : ∀ c ∈ t, SepChar cfg c) :
    firstMatch cfg order t = none := by
  induction order with
  | nil => rfl
  | cons ty tys ih => simp [firstMatch, scanTy_seps cfg ty t ht, ih]

/-- what the line tail does to a match: only a COMMENT grows, by the separators before the LF -/
def tailMatch (rs : Str) (p : TokTy × Str) : TokTy × Str :=
  if p.1 = .COMMENT then (p.1, p.2 ++ rs) else p

theorem firstMatch_tail (cfg : LexCfg) (order : List TokTy) (s rs nl : Str) (hs : NoLF s)
    (ht : SepTail cfg rs nl) :
    firstMatch cfg order (s ++ (rs ++ nl)) = (firstMatch cfg order s).map (tailMatch rs) := by
  induction order with
  | nil => rfl
  | cons ty tys ih =>
    simp only [firstMatch]
    by_cases hty : ty = .COMMENT
    · subst hty
      simp only [scanTy, scanComment_append_tail cfg s rs nl hs ht]
      cases scanComment s with
      | none => simpa using ih
      | some m => simp [tailMatch]
    · rw [scanTy_append cfg ty hty s _ ht.all]
      cases scanTy cfg ty s with
      | none => simpa using ih
      | some m => simp [tailMatch, hty]

/-- on a line without LF a COMMENT match is the whole remaining line -/
theorem firstMatch_comment_all (cfg : LexCfg) (order : List TokTy) (s m : Str) (hs : NoLF s)
    (h : firstMatch cfg order s = some (.COMMENT, m)) : m = s := by
  induction order with
  | nil => simp [firstMatch] at h
  | cons ty tys ih =>
    simp only [firstMatch] at h
    split at h
    · rename_i m' hm
      cases h
      simp only [scanTy] at hm
      cases s with
      | nil => simp [scanComment] at hm
      | cons c r =>
        by_cases hc : c = '#'
        · subst hc; rw [scanComment_noLF r hs.tail] at hm; cases hm; rfl
        · rw [scanComment_not_hash _ (by simpa using hc)] at hm; cases hm
    · exact ih h

/-! ### `lexAux` and the line tail -/

theorem lexAux_nil (cfg : LexCfg) (order : List TokTy) (n f off : Nat) :
    lexAux cfg order n f off [] = [] := by
  cases f <;> simp [lexAux]

/-- separators produce no token -/
theorem lexAux_seps (cfg : LexCfg) (order : List TokTy) (n : Nat) (t : Str)
    (ht : ∀ c ∈ t, SepChar cfg c) : ∀ f off, lexAux cfg order n f off t = [] := by
  induction t with
  | nil => intro f off; exact lexAux_nil ..
  | cons c cs ih =>
    intro f off
    cases f with
    | zero => simp [lexAux]
    | succ f =>
      simp only [lexAux, firstMatch_seps cfg order (c :: cs) ht]
      exact ih (fun d hd => ht d (by simp [hd])) f (off + 1)

/-- what the line tail does to a token: only a COMMENT grows -/
def tailTok (rs : Str) (t : Tok) : Tok :=
  if t.ty = .COMMENT then { t with text := t.text ++ rs } else t

theorem lexAux_tail (cfg : LexCfg) (order : List TokTy) (n : Nat) (rs nl : Str)
    (ht : SepTail cfg rs nl) : ∀ (f' : Nat) (s : Str), NoLF s → s.length ≤ f' →
    ∀ (f off : Nat), s.length + (rs ++ nl).length ≤ f →
    lexAux cfg order n f off (s ++ (rs ++ nl)) = (lexAux cfg order n f' off s).map (tailTok rs) := by
  intro f'
  induction f' with
  | zero =>
    intro s hs hl f off hf
    have : s = [] := List.eq_nil_of_length_eq_zero (by omega)
    subst this
    simp [lexAux_nil, lexAux_seps cfg order n _ ht.all]
  | succ f' ih =>
    intro s hs hl f off hf
    cases s with
    | nil => simp [lexAux_nil, lexAux_seps cfg order n _ ht.all]
    | cons c cs =>
      obtain ⟨g, rfl⟩ : ∃ g, f = g + 1 := ⟨f - 1, by simp at hf; omega⟩
      have hfm := firstMatch_tail cfg order (c :: cs) rs nl hs ht
      simp only [List.cons_append] at hfm
      simp only [List.cons_append, lexAux, hfm]
      simp only [List.length_cons] at hl hf
      cases hm : firstMatch cfg order (c :: cs) with
      | none =>
        simp only [Option.map_none]
        exact ih cs hs.tail (by omega) g (off + 1) (by omega)
      | some p =>
        obtain ⟨ty, m⟩ := p
        have hpre := firstMatch_prefix hm
        have hml : m.length ≤ cs.length + 1 := by simpa using hpre.length_le
        simp only [Option.map_some]
        by_cases hty : ty = .COMMENT
        · subst hty
          have hmeq := firstMatch_comment_all cfg order (c :: cs) m hs hm
          subst hmeq
          simp only [tailMatch, ↓reduceIte, List.cons_append, List.isEmpty_cons, Bool.false_eq_true,
            List.length_cons, List.drop_succ_cons, List.map_cons]
          have e1 : List.drop (cs ++ rs).length (cs ++ (rs ++ nl)) = nl := by
            rw [← List.append_assoc, List.drop_left]
          rw [e1, lexAux_seps cfg order n nl (fun d hd => ht.all d (by simp [hd]))]
          simp [lexAux_nil, tailTok]
        · simp only [tailMatch, hty, ↓reduceIte]
          split
          · exact ih cs hs.tail (by omega) g (off + 1) (by omega)
          · rename_i hne
            have hm1 : 1 ≤ m.length := by
              cases m with
              | nil => simp at hne
              | cons _ _ => simp
            have e1 : List.drop m.length (c :: (cs ++ (rs ++ nl))) =
                List.drop m.length (c :: cs) ++ (rs ++ nl) := by
              rw [← List.cons_append, List.drop_append_of_le_length (by simpa using hml)]
            rw [e1]
            simp only [List.map_cons, tailTok, hty, ↓reduceIte]
            congr 1
            have hdl : (List.drop m.length (c :: cs)).length ≤ f' := by
              simp only [List.length_drop, List.length_cons]; omega
            exact ih _ (hs.drop _) hdl g _ (by
              simp only [List.length_drop, List.length_cons] at hdl ⊢; omega)

end Penman.Framing

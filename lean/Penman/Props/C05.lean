/-
  Penman.Props.C05 — "Re-layout operations never change the graph".

  * rearrange clauses (branch sets, concept first, sortedness, stability, key
    meaning, graph content, idempotence): `Penman.Props.C05a`.
  * reconfigure / new-top clauses: corollaries of the configure development
    (`Penman.Props.C06`), stated here.
-/
import Penman.Props.C05a

/-
  Penman.Proofs.EncodeDecodeC — reading the WRITTEN FORM of the configured tree back
  (`Cfg.encode_decode` redone for `writtenForm T`: numbers are allowed in the graph; the tree
  the parser returns carries them as strings, which `interpret` accepts).
-/
import Penman.Proofs.Configure17
import Penman.Proofs.EncodeDecodeA

namespace Penman
namespace Cfg
open Penman.Spec.Reading Penman.C03Text

/-! ### the written form of written relations, edges and cells -/

/-- a written relation with its constant in written form -/
def wW (w : Written) : Written :=
  ⟨w.ctx, w.role, match w.tgt with | .atom a => .atom (writtenAtom a) | t => t⟩

/-- an edge with its constant in written form -/
def wE (e : Edge) : Edge :=
  { e with tgt := match e.tgt with | .atom a => .atom (writtenAtom a) | t => t }

theorem labelled_writtenBs : (bs : Branches) → labelled (writtenBs bs) = labelled bs
  | .nil => rfl
  | .atom r a rest => by
    have := labelled_writtenBs rest
    simp only [labelled, writtenBs, Branches.toList, List.any_cons] at this ⊢
    rw [this]
  | .sub r n rest => by
    have := labelled_writtenBs rest
    simp only [labelled, writtenBs, Branches.toList, List.any_cons] at this ⊢
    rw [this]

mutual
theorem written_writtenForm : (n : Node) → Node.written (writtenForm n) = (Node.written n).map wW
  | .mk v bs => by
    simp only [writtenForm, Node.written, labelled_writtenBs, List.map_append, written_writtenBs v bs]
    split <;> simp [wW, writtenAtom]
theorem written_writtenBs (ctx : Option Str) : (bs : Branches) →
    Branches.written ctx (writtenBs bs) = (Branches.written ctx bs).map wW
  | .nil => rfl
  | .atom r a rest => by
    simp [writtenBs, Branches.written, written_writtenBs ctx rest, wW]
  | .sub r n rest => by
    simp [writtenBs, Branches.written, written_writtenBs ctx rest, written_writtenForm n, wW,
      C03Text.writtenForm_var]
end

theorem edgeWritten_wE {v : Str} {e : Edge} (h : PlainE e) : wW (edgeWritten v e) = edgeWritten v (wE e) := by
  obtain ⟨_, hep⟩ := h
  cases e with
  | mk role tgt epis =>
    simp only [] at hep; subst hep
    cases tgt with
    | atom a => simp [wW, wE, edgeWritten, outRole, outAtom, applyEpis]
    | node w => simp [wW, wE, edgeWritten, outRole, applyEpis]

theorem denote_wE (v : Str) (e : Edge) : writtenTriple (Cfg.denote v e) = Cfg.denote v (wE e) := by
  cases e with
  | mk role tgt epis =>
    cases tgt with
    | atom a => rfl
    | node w => rfl

theorem plain_wE {e : Edge} (h : PlainE e) : PlainE (wE e) := h

theorem goodT_written {m : Model} {x : Triple} (h : GoodT m x) (hn : ∀ s, x.tgt = .num s → '~' ∉ s) :
    GoodT m (writtenTriple x) := by
  refine ⟨h.colon, h.roleTilde, h.canon, ?_⟩
  cases htg : x.tgt with
  | none => simp [writtenTriple, htg, writtenAtom, TgtOK]
  | str s => have := h.tgt; rw [htg] at this; simpa [writtenTriple, htg, writtenAtom] using this
  | num s => simp only [writtenTriple, htg, writtenAtom, TgtOK]; exact Or.inl (hn s htg)

theorem notNum_written (x : Triple) : notNum (writtenTriple x).tgt = true := by
  cases h : x.tgt <;> simp [writtenTriple, h, writtenAtom, notNum]

theorem written_of_notNum {x : Triple} (h : notNum x.tgt = true) : writtenTriple x = x := by
  cases x with
  | mk a b c => cases c <;> simp [writtenTriple, writtenAtom, notNum] at h ⊢

theorem deinvert1_num (m : Model) (g : Graph) {x : Triple} (h : notNum x.tgt = false) : deinvert1 m g x = x := by
  cases x with
  | mk a b c => cases c <;> simp [notNum] at h; simp [deinvert1, Graph.isVar]

theorem notNum_deinvert1 (m : Model) (g : Graph) {x : Triple} (h : notNum x.tgt = true) :
    notNum (deinvert1 m g x).tgt = true := by
  unfold deinvert1; split
  · rw [invert_tgt]; rfl
  · exact h

/-- comparing by written form absorbs one de-inversion -/
theorem dw_deinvert1 {m : Model} (hw : ModelWf m) {g : Graph} {x : Triple}
    (hc : m.canonInversion x.role = some x.role) :
    deinvert1 m g (writtenTriple (deinvert1 m g x)) = deinvert1 m g (writtenTriple x) := by
  cases hn : notNum x.tgt with
  | false => rw [deinvert1_num m g hn]
  | true =>
    rw [written_of_notNum (notNum_deinvert1 m g hn), written_of_notNum hn, deinvert1_idem hw hc]

/-- **C03 read back through the text.** For an encoded graph (numbers allowed) the written form of
    the configured tree — the tree the parser returns — is interpreted to a graph with the same top,
    the same variables and the same triples, constants compared by their written form, up to order
    and one de-inversion. -/
theorem decode_written (isAlpha : Char → Bool) {m : Model} {g : Graph} {t : Str} {T : Tree} {st : St}
    {l : List Triple} (hw : ModelWf m) (hnoop : m.noop = false) (hg : WfGraph m g)
    (hnumok : ∀ x ∈ g.triples, ∀ s, x.tgt = .num s → '~' ∉ s) (E : Encoded m g t T st l) :
    ∃ g', interpret isAlpha m ⟨writtenForm T.node, T.metadata⟩ = .ok g' ∧
      g'.getTop = some t ∧ (∀ x, x ∈ g'.variables ↔ x ∈ g.variables) ∧
      (g'.triples.map (deinvert1 m g)).Perm ((g.triples.map writtenTriple).map (deinvert1 m g)) ∧
      (∀ x ∈ g'.triples, ∃ t0 ∈ g.triples, x = writtenTriple t0 ∨ x = m.invert (writtenTriple t0)) ∧
      g'.metadata = AList.ofList g.metadata := by
  have hr2 : ∀ x ∈ g.triples, RoleOK2 m x := fun x hx => roleOK2_of_colon m x (hg.roles x hx).1
  obtain ⟨hW, hvars, _, hnd, hvar⟩ := storeOf_tree hr2 E.store E.build
  have hgood := storeOf_good E.store
  have hvmem : ∀ s, s ∈ T.node.vars ↔ s ∈ g.variables := fun s => hvars.mem_iff.trans (E.keys s)
  -- facts about every triple of the store
  have hfacts : ∀ x ∈ placed st.cells, GoodT m x ∧ (∀ s, x.tgt = .num s → '~' ∉ s) ∧ x.src ∈ g.variables := by
    intro x hx
    obtain ⟨t0, ht0, hv⟩ := E.version x (E.perm.symm.subset hx)
    refine ⟨goodT_of_version hw hg ht0 hv, ?_, (E.keys _).1 (placed_src_key hx)⟩
    rcases hv with rfl | ⟨rfl, _, _⟩
    · exact hnumok _ ht0
    · intro s hs; rw [invert_tgt] at hs; cases hs
  -- a cell is labelled iff it holds a `/` edge
  have hlabel : ∀ p ∈ st.cells, (cellLabelled p.2 = true ↔ ∃ e ∈ p.2, e.role = ['/']) := by
    intro p hp
    simp only [cellLabelled, List.any_eq_true, decide_eq_true_eq]
    constructor
    · rintro ⟨e, he, hrn⟩
      refine ⟨e, he, ?_⟩
      obtain ⟨hne, hep⟩ := E.plain p hp e he
      have hx : Cfg.denote p.1 e ∈ placed st.cells := by
        simp only [placed, List.mem_flatMap, List.mem_map]; exact ⟨p, hp, e, he, rfl⟩
      have hrt := (hfacts _ hx).1.roleTilde
      apply Classical.byContradiction
      intro hns
      simp only [Cfg.denote, hns, if_false] at hrt
      have : outRole e = e.role := by simp [outRole, hep, applyEpis]
      rw [this, roleName_plain hrt] at hrn
      simp only [slashRole, hns, if_false] at hrn
      exact hne hrn
    · rintro ⟨e, he, hs⟩
      refine ⟨e, he, ?_⟩
      obtain ⟨_, hep⟩ := E.plain p hp e he
      simp [outRole, hep, applyEpis, hs, roleName]
  have hW' := hW.trans (flat_ownW_split st.cells)
  -- every written relation reads as the store's triple in written form, deinverted once
  let G : Written → Triple := fun w =>
    match Spec.Reading.denote isAlpha m T.node.vars w with | .ok d => d.triple | .error _ => ⟨[], [], .none⟩
  have hedge : ∀ p ∈ st.cells, ∀ e ∈ p.2,
      (Spec.Reading.denote isAlpha m T.node.vars (wW (edgeWritten p.1 e))).map (·.triple) =
        .ok (readTriple m T.node.vars (writtenTriple (Cfg.denote p.1 e))) := by
    intro p hp e he
    have hx : Cfg.denote p.1 e ∈ placed st.cells := by
      simp only [placed, List.mem_flatMap, List.mem_map]; exact ⟨p, hp, e, he, rfl⟩
    obtain ⟨f1, f2, _⟩ := hfacts _ hx
    rw [edgeWritten_wE (E.plain p hp e he), denote_wE]
    apply denote_edge isAlpha hnoop T.node.vars (plain_wE (E.plain p hp e he))
    · rw [← denote_wE]; exact goodT_written f1 f2
    · rw [← denote_wE]; exact notNum_written _
    · intro w hw'
      have : e.tgt = .node w := by
        cases e with
        | mk role tgt epis => cases tgt <;> simp [wE] at hw' ⊢; exact hw'
      exact hvars.symm.subset (hgood.forest p hp e he w this).2
  have hGedge : ∀ p ∈ st.cells, ∀ e ∈ p.2,
      G (wW (edgeWritten p.1 e)) = readTriple m T.node.vars (writtenTriple (Cfg.denote p.1 e)) := by
    intro p hp e he
    have := hedge p hp e he
    simp only [G]
    cases hd : Spec.Reading.denote isAlpha m T.node.vars (wW (edgeWritten p.1 e)) with
    | error x => rw [hd] at this; simp [Except.map] at this
    | ok d => rw [hd] at this; simpa [Except.map] using this
  have hwnull : ∀ v, wW (nullW v) = nullW v := fun v => rfl
  have hGnull : ∀ v, G (nullW v) = ⟨v, CONCEPT_ROLE, .none⟩ := by
    intro v
    have := denote_null isAlpha m T.node.vars v
    simp only [G]
    cases hd : Spec.Reading.denote isAlpha m T.node.vars (nullW v) with
    | error x => rw [hd] at this; simp [Except.map] at this
    | ok d => rw [hd] at this; simpa [Except.map] using this
  have hall : ∀ w ∈ (Node.written T.node).map wW,
      (Spec.Reading.denote isAlpha m T.node.vars w).map (·.triple) = .ok (G w) := by
    intro w hw'
    obtain ⟨w0, hw0, rfl⟩ := List.mem_map.1 hw'
    have := hW'.subset hw0
    simp only [List.mem_append, nullsW, flat, List.mem_flatMap, List.mem_map] at this
    rcases this with ⟨p, _, rfl⟩ | ⟨p, hp, e, he, rfl⟩
    · rw [hwnull, hGnull]; exact denote_null isAlpha m T.node.vars p.1
    · rw [hGedge p hp e he]; exact hedge p hp e he
  obtain ⟨ds, hds, hdsmap⟩ := mapM_map _ Denoted.triple G _ hall
  have hread : Spec.Reading.read isAlpha m (writtenForm T.node) = .ok ⟨T.node.var, ds⟩ := by
    unfold Spec.Reading.read
    rw [written_writtenForm, C03Text.writtenForm_vars, hds, C03Text.writtenForm_var]; rfl
  obtain ⟨g', hg'⟩ := Interp.interpret_defined (t := ⟨writtenForm T.node, T.metadata⟩) hread
  obtain ⟨r, hr, htop, _, _, htr⟩ := Props.C04.C04 isAlpha m _ g' hg'
  have hr' : Spec.Reading.read isAlpha m (writtenForm T.node) = .ok r := hr
  rw [hread] at hr'; simp only [Except.ok.injEq] at hr'; subst hr'
  obtain ⟨_, _, hv3⟩ := Props.C04.C04_variables isAlpha m _ g' _ hg' hr
  have hv3' : ∀ x, x ∈ g'.variables ↔ x ∈ T.node.vars := by
    intro x; rw [hv3 x]; show x ∈ (writtenForm T.node).vars ↔ _; rw [C03Text.writtenForm_vars]
  -- the decoded triples, up to order
  have hD : ∀ x ∈ l, colon (readTriple m T.node.vars (writtenTriple x)) = deinvert1 m g (writtenTriple x) := by
    intro x hx
    obtain ⟨f1, _, _⟩ := hfacts x (E.perm.subset hx)
    have e1 : readTriple m T.node.vars (writtenTriple x) = deinvert1 m g (writtenTriple x) := by
      unfold readTriple deinvert1; rw [isVar_eq hvmem]
    rw [e1]
    have hc : (deinvert1 m g (writtenTriple x)).role.head? = some ':' := by
      unfold deinvert1; split
      · rw [invert_role]; exact head_invertRole m _ f1.colon
      · exact f1.colon
    simp [colon, ensureColon_of_head hc]
  obtain ⟨nullTs, hnT⟩ : ∃ x : List Triple,
      x = (st.cells.filter fun p => !cellLabelled p.2).map fun p => (⟨p.1, CONCEPT_ROLE, .none⟩ : Triple) := ⟨_, rfl⟩
  have hperm : g'.triples.Perm (nullTs ++ l.map (fun x => deinvert1 m g (writtenTriple x))) := by
    rw [htr]
    simp only [Reading.triples, hdsmap]
    have h1 : (((Node.written T.node).map wW).map G).Perm
        (nullTs ++ (placed st.cells).map (fun x => readTriple m T.node.vars (writtenTriple x))) := by
      refine ((hW'.map wW).map G).trans ?_
      rw [List.map_append, List.map_append]
      have e1 : ((nullsW st.cells).map wW).map G = nullTs := by
        rw [hnT]
        simp only [nullsW, List.map_map]
        apply List.map_congr_left
        intro p _
        exact hGnull p.1
      have e2 : ((flat (fun v es => es.map (edgeWritten v)) st.cells).map wW).map G =
          (placed st.cells).map (fun x => readTriple m T.node.vars (writtenTriple x)) := by
        simp only [flat, placed, List.map_flatMap, List.map_map]
        apply flatMap_congr'
        intro p hp
        apply List.map_congr_left
        intro e he
        exact hGedge p hp e he
      rw [e1, e2]
    refine (h1.map colon).trans ?_
    rw [List.map_append]
    have e1 : nullTs.map colon = nullTs := by
      conv => rhs; rw [← List.map_id nullTs]
      apply List.map_congr_left
      intro x hx
      rw [hnT] at hx
      simp only [List.mem_map] at hx
      obtain ⟨p, _, rfl⟩ := hx
      have : ensureColon CONCEPT_ROLE = CONCEPT_ROLE := by decide
      simp [colon, this]
    rw [e1]
    refine List.Perm.append_left _ ?_
    refine ((E.perm.symm.map (fun x => readTriple m T.node.vars (writtenTriple x))).map colon).trans ?_
    rw [List.map_map]
    have : l.map (colon ∘ fun x => readTriple m T.node.vars (writtenTriple x)) =
        l.map (fun x => deinvert1 m g (writtenTriple x)) :=
      List.map_congr_left (fun x hx => hD x hx)
    rw [this]
  -- the label-less cells are exactly the null labels of `g`
  have hnulls : nullTs.Perm (g.triples.filter nullB) := by
    apply perm_of_nodup
    · have hsub : ((st.cells.filter fun p => !cellLabelled p.2).map (·.1)).Nodup :=
        List.Nodup.sublist (List.Sublist.map _ List.filter_sublist) hnd
      have := List.Pairwise.map (S := fun a b : Triple => a ≠ b) (fun v : Str => (⟨v, CONCEPT_ROLE, .none⟩ : Triple))
        (fun a b hab h => hab (by injection h)) hsub
      rw [List.map_map] at this
      rw [hnT]
      exact this
    · exact hg.nullNodup
    · intro x
      rw [hnT]
      simp only [List.mem_map, List.mem_filter, Bool.not_eq_eq_eq_not, Bool.not_true]
      constructor
      · rintro ⟨p, ⟨hp, hunl⟩, rfl⟩
        obtain ⟨t0, ht0, hs0, hr0⟩ := hg.labelled p.1 ((E.keys _).1 (mem_keys_of_mem hp))
        cases hn0 : nullB t0 with
        | false =>
          exfalso
          have hmem := E.perm.subset (E.inst t0 ht0 hr0 hn0)
          simp only [placed, List.mem_flatMap, List.mem_map] at hmem
          obtain ⟨q, hq, e, he, hden⟩ := hmem
          have hk : q.1 = p.1 := by rw [← hs0, ← hden]; rfl
          have hes : q.2 = p.2 := by
            have h1 := get?_of_mem_nodup hnd (k := q.1) (es := q.2) hq
            have h2 := get?_of_mem_nodup hnd (k := p.1) (es := p.2) hp
            rw [hk, h2] at h1; simpa using h1.symm
          rw [hes] at he
          have hrole : (Cfg.denote q.1 e).role = CONCEPT_ROLE := by rw [hden]; exact hr0
          simp only [Cfg.denote] at hrole
          split at hrole
          · rename_i h
            have := (hlabel p hp).2 ⟨e, he, h⟩
            rw [this] at hunl; exact absurd hunl (by simp)
          · exact (E.plain p hp e he).1 hrole
        | true =>
          have hmiss : t0.tgt = .none := by
            have h1 := ((nullB_iff t0).1 hn0).2
            cases htg : t0.tgt with
            | none => rfl
            | num _ => rw [htg] at h1; simp [Atom.isMissing] at h1
            | str s' =>
              rw [htg] at h1
              simp only [Atom.isMissing, List.isEmpty_iff] at h1
              subst h1
              exact absurd htg (hg.instNotEmpty t0 ht0 hr0)
          have : (⟨p.1, CONCEPT_ROLE, .none⟩ : Triple) = t0 := by
            cases t0 with
            | mk a b c => simp only [] at hs0 hr0 hmiss; subst hs0 hr0 hmiss; rfl
          rw [this]; exact ⟨ht0, hn0⟩
      · rintro ⟨hx, hxn⟩
        have hnull := (nullB_iff x).1 hxn
        have hmiss : x.tgt = .none := by
          have h1 := hnull.2
          cases htg : x.tgt with
          | none => rfl
          | num _ => rw [htg] at h1; simp [Atom.isMissing] at h1
          | str s' =>
            rw [htg] at h1
            simp only [Atom.isMissing, List.isEmpty_iff] at h1
            subst h1
            exact absurd htg (hg.instNotEmpty x hx hnull.1)
        have hkey := storeOf_ownInst E.store x hx hnull.1
        simp only [ckeys, AList.keys, List.mem_map] at hkey
        obtain ⟨p, hp, hp1⟩ := hkey
        refine ⟨p, ⟨hp, ?_⟩, ?_⟩
        · cases hl : cellLabelled p.2 with
          | false => rfl
          | true =>
            exfalso
            obtain ⟨e, he, hs⟩ := (hlabel p hp).1 hl
            have hy : Cfg.denote p.1 e ∈ placed st.cells := by
              simp only [placed, List.mem_flatMap, List.mem_map]; exact ⟨p, hp, e, he, rfl⟩
            have hyl := E.perm.symm.subset hy
            obtain ⟨t0, ht0, hv⟩ := E.version _ hyl
            have hyr : (Cfg.denote p.1 e).role = CONCEPT_ROLE := by simp [Cfg.denote, hs]
            have hy0 : Cfg.denote p.1 e = t0 := by
              rcases hv with h | ⟨h, _, hr0⟩
              · exact h
              · exfalso
                rw [h, invert_role] at hyr
                exact (hg.noInstOf t0 ht0 hr0).1 hyr
            have h0r : t0.role = CONCEPT_ROLE := by rw [← hy0]; exact hyr
            have h0s : t0.src = x.src := by rw [← hy0, ← hp1]; rfl
            have := hg.nullAlone x hx hxn t0 ht0 h0r h0s
            apply E.notNull _ hyl
            rw [hy0, this]; exact hnull
        · cases x with
          | mk a b c =>
            simp only [] at hp1 hmiss
            have hb := hnull.1
            simp only [] at hb
            subst hp1 hmiss hb; rfl
  -- the null labels are untouched by the written form and by de-inversion
  have hnullDW : ∀ x ∈ nullTs, deinvert1 m g (writtenTriple x) = x := by
    intro x hx
    rw [hnT] at hx
    obtain ⟨p, _, rfl⟩ := List.mem_map.1 hx
    simp [deinvert1, writtenTriple, writtenAtom, Graph.isVar]
  have hnullD : ∀ x ∈ nullTs, deinvert1 m g x = x := by
    intro x hx
    rw [hnT] at hx
    obtain ⟨p, _, rfl⟩ := List.mem_map.1 hx
    simp [deinvert1, Graph.isVar]
  have hcanonL : ∀ x ∈ l, m.canonInversion x.role = some x.role :=
    fun x hx => (hfacts x (E.perm.subset hx)).1.canon
  obtain ⟨_, _, _, D⟩ := Interp.decoded hg'
  refine ⟨g', hg', by rw [htop]; exact hvar, fun x => (hv3' x).trans (hvmem x), ?_, ?_, ?_⟩
  · -- the multiset of triples
    have hsame := E.same.map (fun x => deinvert1 m g (writtenTriple x))
    rw [List.map_map, List.map_append, List.map_map, List.map_map] at hsame
    have a1 : g.triples.map ((fun x => deinvert1 m g (writtenTriple x)) ∘ deinvert1 m g) =
        (g.triples.map writtenTriple).map (deinvert1 m g) := by
      rw [List.map_map]
      apply List.map_congr_left
      intro x hx
      exact dw_deinvert1 hw (hg.roles x hx).2.2
    have a2 : l.map ((fun x => deinvert1 m g (writtenTriple x)) ∘ deinvert1 m g) =
        l.map (fun x => deinvert1 m g (writtenTriple x)) := by
      apply List.map_congr_left
      intro x hx
      exact dw_deinvert1 hw (hcanonL x hx)
    have a3 : ((g.triples.filter nullB).map ((fun x => deinvert1 m g (writtenTriple x)) ∘ deinvert1 m g)).Perm nullTs := by
      have e : (g.triples.filter nullB).map ((fun x => deinvert1 m g (writtenTriple x)) ∘ deinvert1 m g) =
          (g.triples.filter nullB).map (fun x => deinvert1 m g (writtenTriple x)) := by
        apply List.map_congr_left
        intro x hx
        exact dw_deinvert1 hw (hg.roles x (List.mem_filter.1 hx).1).2.2
      rw [e]
      refine (hnulls.symm.map _).trans ?_
      have : nullTs.map (fun x => deinvert1 m g (writtenTriple x)) = nullTs.map id :=
        List.map_congr_left (fun x hx => (hnullDW x hx : _ = id x))
      rw [this, List.map_id]
    rw [a1, a2] at hsame
    refine (hperm.map (deinvert1 m g)).trans ?_
    rw [List.map_append, List.map_map]
    have b1 : nullTs.map (deinvert1 m g) = nullTs := by
      have : nullTs.map (deinvert1 m g) = nullTs.map id :=
        List.map_congr_left (fun x hx => (hnullD x hx : _ = id x))
      rw [this, List.map_id]
    have b2 : l.map (deinvert1 m g ∘ fun x => deinvert1 m g (writtenTriple x)) =
        l.map (fun x => deinvert1 m g (writtenTriple x)) := by
      apply List.map_congr_left
      intro x hx
      have := (goodT_written (hfacts x (E.perm.subset hx)).1 (hfacts x (E.perm.subset hx)).2.1).canon
      exact deinvert1_idem hw this
    rw [b1, b2]
    refine List.perm_append_comm.trans ?_
    exact (List.Perm.append_left _ a3.symm).trans hsame.symm
  · intro x hx
    have := hperm.subset hx
    rcases List.mem_append.1 this with hxn | hxl
    · have hm := hnulls.subset hxn
      refine ⟨x, (List.mem_filter.1 hm).1, Or.inl ?_⟩
      rw [hnT] at hxn
      obtain ⟨p, _, rfl⟩ := List.mem_map.1 hxn
      rfl
    · obtain ⟨y, hy, rfl⟩ := List.mem_map.1 hxl
      obtain ⟨t0, ht0, hv⟩ := E.version y hy
      have hc0 := (hg.roles t0 ht0).2.2
      refine ⟨t0, ht0, ?_⟩
      rcases hv with rfl | ⟨rfl, ⟨b, hb⟩, _⟩
      · simp only [deinvert1]
        split
        · exact Or.inr rfl
        · exact Or.inl rfl
      · have hn0 : notNum t0.tgt = true := by rw [hb]; rfl
        have hn1 : notNum (m.invert t0).tgt = true := by rw [invert_tgt]; rfl
        rw [written_of_notNum hn1, written_of_notNum hn0]
        simp only [deinvert1]
        split
        · exact Or.inl (C13.invert_invert hw hb hc0)
        · exact Or.inr rfl
  · rw [D.md, E.metaEq]

end Cfg
end Penman

/-
  Penman.Spec.AlignOK — vocabulary of property C03 with surface alignments
  (`RoleAlignment` / `Alignment` epidata): which alignment entries survive
  graph → tree → graph, and how they are compared.
-/
import Penman.Spec.Encode
namespace Penman
namespace Cfg
open Penman.Spec.Reading

/-- the marker list filed under a triple (`g.epidata.get(t, [])`) -/
def episOf (g : Graph) (t : Triple) : List Epi := (AList.get? g.epidata t).getD []

/-- the role alignment of a triple, as `penman.surface.role_alignments(g)` reports it
    (`_get_alignments`: the last `RoleAlignment` in the triple's marker list) -/
def roleAlnOf (g : Graph) (t : Triple) : Option Epi := ((episOf g t).filter fun e => e.mode = 1).getLast?

/-- the alignment of a triple, as `penman.surface.alignments(g)` reports it -/
def tgtAlnOf (g : Graph) (t : Triple) : Option Epi := ((episOf g t).filter fun e => e.mode = 2).getLast?

/-- `str(marker)` without its leading `~` -/
def alnBody (p : Option Str) (i : List Nat) : Str := p.getD [] ++ joinStr [','] (i.map natToStr)

/-- decidable equality on `Except` (core has none) -/
instance decEqExceptAl {ε α : Type} [DecidableEq ε] [DecidableEq α] : DecidableEq (Except ε α)
  | .ok a, .ok b => if h : a = b then isTrue (by rw [h]) else isFalse (fun h' => h (by cases h'; rfl))
  | .error a, .error b => if h : a = b then isTrue (by rw [h]) else isFalse (fun h' => h (by cases h'; rfl))
  | .ok _, .error _ => isFalse (fun h => by cases h)
  | .error _, .ok _ => isFalse (fun h => by cases h)

/-- A marker whose printed form is read back as itself (`AlignmentMarker.from_string(str(mk)) == mk`)
    and contains no `"` (it may follow a quoted string). -/
def MarkerOK (isAlpha : Char → Bool) (p : Option Str) (i : List Nat) : Prop :=
  alnFromString isAlpha (alnBody p i) = .ok (p, i) ∧ '"' ∉ alnBody p i

instance (isAlpha : Char → Bool) (p : Option Str) (i : List Nat) : Decidable (MarkerOK isAlpha p i) := by
  unfold MarkerOK; infer_instance

def EpiOK (isAlpha : Char → Bool) : Epi → Prop
  | .roleAln p i => MarkerOK isAlpha p i
  | .aln p i => MarkerOK isAlpha p i
  | _ => True

instance (isAlpha : Char → Bool) (e : Epi) : Decidable (EpiOK isAlpha e) := by
  cases e <;> unfold EpiOK <;> infer_instance

/-- a target text that can carry an alignment suffix: an unquoted text without `~`, or a quoted
    string that ends with its closing quote -/
def TextOKal (s : Str) : Prop :=
  (s.head? ≠ some '"' ∧ '~' ∉ s) ∨ (s.head? = some '"' ∧ afterLastQuoteText s = [])

instance (s : Str) : Decidable (TextOKal s) := by unfold TextOKal; infer_instance

/-- a target that can carry an alignment: a constant text (not null, not a number object) that is
    not the name of a variable of the graph — a relation to a node may have to open that node,
    and `( v / … )` has no place for a target alignment (`_process_epigraph`: "epigraphical
    marker ignored") -/
def AlnTgtOK (g : Graph) : Atom → Prop
  | .str s => s ∉ g.variables ∧ TextOKal s
  | _ => False

instance (g : Graph) (a : Atom) : Decidable (AlnTgtOK g a) := by
  cases a <;> unfold AlnTgtOK <;> infer_instance

/-- **AlignOK**: the alignment entries that survive encode → decode.
    For every triple of the graph:
    * `one`: at most one role alignment and at most one alignment (the printed forms of several would
      be concatenated, `:ARG0~e.1~e.2`, which does not parse back);
    * `markers`: every marker prints to a text that is read back as itself;
    * `roleAln`: no role alignment on a node label (`/~e.1` is not a node label);
    * `tgtAln`: alignments only on constants (see `AlnTgtOK`);
    * `agree`: two triples that decode to the same triple (a duplicate, or a relation and its inverse)
      carry the same alignments — decoding keeps the markers of the first written occurrence only. -/
structure AlignOK (isAlpha : Char → Bool) (m : Model) (g : Graph) : Prop where
  one : ∀ t ∈ g.triples, ((episOf g t).filter fun e => e.mode = 1).length ≤ 1 ∧
      ((episOf g t).filter fun e => e.mode = 2).length ≤ 1
  markers : ∀ t ∈ g.triples, ∀ e ∈ episOf g t, EpiOK isAlpha e
  roleAln : ∀ t ∈ g.triples, roleAlnOf g t ≠ none → t.role ≠ CONCEPT_ROLE
  tgtAln : ∀ t ∈ g.triples, tgtAlnOf g t ≠ none → AlnTgtOK g t.tgt
  agree : ∀ t ∈ g.triples, ∀ t' ∈ g.triples, deinvert1 m g t = deinvert1 m g t' →
      roleAlnOf g t = roleAlnOf g t' ∧ tgtAlnOf g t = tgtAlnOf g t'

instance (isAlpha : Char → Bool) (m : Model) (g : Graph) : Decidable (AlignOK isAlpha m g) :=
  decidable_of_iff
    ((∀ t ∈ g.triples, ((episOf g t).filter fun e => e.mode = 1).length ≤ 1 ∧
        ((episOf g t).filter fun e => e.mode = 2).length ≤ 1) ∧
      (∀ t ∈ g.triples, ∀ e ∈ episOf g t, EpiOK isAlpha e) ∧
      (∀ t ∈ g.triples, roleAlnOf g t ≠ none → t.role ≠ CONCEPT_ROLE) ∧
      (∀ t ∈ g.triples, tgtAlnOf g t ≠ none → AlnTgtOK g t.tgt) ∧
      (∀ t ∈ g.triples, ∀ t' ∈ g.triples, deinvert1 m g t = deinvert1 m g t' →
        roleAlnOf g t = roleAlnOf g t' ∧ tgtAlnOf g t = tgtAlnOf g t'))
    ⟨fun ⟨a, b, c, d, e⟩ => ⟨a, b, c, d, e⟩, fun ⟨a, b, c, d, e⟩ => ⟨a, b, c, d, e⟩⟩

/-- a written triple without its alignment suffixes (`Role Alignment?`, `Atom Alignment?`) -/
def stripAln (x : Triple) : Triple :=
  ⟨x.src, beforeTilde x.role, match x.tgt with | .str s => .str (splitTarget s).1 | a => a⟩

/-- the printed form of an optional marker -/
def alnText : Option Epi → Str
  | some e => e.toStr
  | none => []

/-- a target with the printed form of an optional alignment appended -/
def withAln (a : Atom) : Option Epi → Atom
  | none => a
  | some e => .str (atomStr a ++ e.toStr)

/-- `WfGraph` without its `NoAlign` clause -/
structure WfGraphAl (m : Model) (g : Graph) : Prop where
  nonempty : g.triples.isEmpty = false
  labelled : ∀ v ∈ g.variables, ∃ t ∈ g.triples, t.src = v ∧ t.role = CONCEPT_ROLE
  nullNodup : (g.triples.filter nullB).Nodup
  nullAlone : ∀ t ∈ g.triples, nullB t = true → ∀ t' ∈ g.triples, t'.role = CONCEPT_ROLE → t'.src = t.src → t' = t
  instNotEmpty : ∀ t ∈ g.triples, t.role = CONCEPT_ROLE → t.tgt ≠ .str []
  roles : ∀ t ∈ g.triples, t.role.head? = some ':' ∧ '~' ∉ t.role ∧ m.canonInversion t.role = some t.role
  srcs : ∀ t ∈ g.triples, '~' ∉ t.src
  tgts : ∀ t ∈ g.triples, TgtOK t.tgt
  noInstOf : NoInstOf m g

instance (m : Model) (g : Graph) : Decidable (WfGraphAl m g) :=
  decidable_of_iff
    (g.triples.isEmpty = false ∧ (∀ v ∈ g.variables, ∃ t ∈ g.triples, t.src = v ∧ t.role = CONCEPT_ROLE) ∧
      (g.triples.filter nullB).Nodup ∧
      (∀ t ∈ g.triples, nullB t = true → ∀ t' ∈ g.triples, t'.role = CONCEPT_ROLE → t'.src = t.src → t' = t) ∧
      (∀ t ∈ g.triples, t.role = CONCEPT_ROLE → t.tgt ≠ .str []) ∧
      (∀ t ∈ g.triples, t.role.head? = some ':' ∧ '~' ∉ t.role ∧ m.canonInversion t.role = some t.role) ∧
      (∀ t ∈ g.triples, '~' ∉ t.src) ∧ (∀ t ∈ g.triples, TgtOK t.tgt) ∧ NoInstOf m g)
    ⟨fun ⟨a, b, c1, c2, c3, d, e, f, g'⟩ => ⟨a, b, c1, c2, c3, d, e, f, g'⟩,
     fun ⟨a, b, c1, c2, c3, d, e, f, g'⟩ => ⟨a, b, c1, c2, c3, d, e, f, g'⟩⟩

/-- with `NoAlign` the old and the new well-formedness coincide -/
theorem wfGraph_iff (m : Model) (g : Graph) : WfGraph m g ↔ WfGraphAl m g ∧ NoAlign g :=
  ⟨fun h => ⟨⟨h.nonempty, h.labelled, h.nullNodup, h.nullAlone, h.instNotEmpty, h.roles, h.srcs, h.tgts, h.noInstOf⟩,
      h.noAlign⟩,
   fun ⟨h, n⟩ => ⟨h.nonempty, h.labelled, h.nullNodup, h.nullAlone, h.instNotEmpty, h.roles, h.srcs, h.tgts,
      h.noInstOf, n⟩⟩

end Cfg
end Penman

/-
  Penman.Proofs.Configure6 — availability of variables (`own` or `site`), what
  `findNext` finds, and which endpoints `configureNode` makes available.
  Groundwork for completeness (J2, J4).
-/
import Penman.Proofs.Configure5
namespace Penman
namespace Cfg

/-- `v` has a node or a place where its node can be put -/
def Avail (st : St) (v : Str) : Prop :=
  AList.get? st.nm v = some NM.own ∨ ∃ u, AList.get? st.nm v = some (NM.site u)

def HasKey (st : St) (v : Str) : Prop := (AList.get? st.nm v).isSome = true

/-- neither end of the triple is available -/
def Unav (st : St) (tr : Triple) : Prop := ¬ Avail st tr.src ∧ ∀ w, tr.tgt = .str w → ¬ Avail st w

def Mono (st st' : St) : Prop :=
  (∀ v, Avail st v → Avail st' v) ∧ (∀ v, HasKey st v → HasKey st' v) ∧ (∀ v, Own st v → Own st' v)

theorem Mono.refl (st : St) : Mono st st := ⟨fun _ h => h, fun _ h => h, fun _ h => h⟩
theorem Mono.trans {a b c : St} (h1 : Mono a b) (h2 : Mono b c) : Mono a c :=
  ⟨fun v h => h2.1 v (h1.1 v h), fun v h => h2.2.1 v (h1.2.1 v h), fun v h => h2.2.2 v (h1.2.2 v h)⟩

theorem avail_of_own {st : St} {v : Str} (h : Own st v) : Avail st v := Or.inl h

theorem mono_of_nm_eq {st st' : St} (h : st'.nm = st.nm) : Mono st st' := by
  refine ⟨?_, ?_, ?_⟩ <;> intro v hv
  · unfold Avail at *; rw [h]; exact hv
  · unfold HasKey at *; rw [h]; exact hv
  · unfold Own at *; rw [h]; exact hv

theorem mono_noteSite (st : St) (var : Str) (t : Atom) : Mono st (st.noteSite var t) := by
  unfold St.noteSite
  split
  · rename_i v
    split
    · rename_i hu
      refine ⟨?_, ?_, ?_⟩ <;> intro w hw
      · by_cases e : w = v
        · subst e; right; exact ⟨var, by simp [get?_set_same]⟩
        · unfold Avail at *; simpa [get?_set_other _ _ _ _ e] using hw
      · by_cases e : w = v
        · subst e; simp [HasKey, get?_set_same]
        · unfold HasKey at *; simpa [get?_set_other _ _ _ _ e] using hw
      · have e : w ≠ v := by
          intro e; subst e; unfold Own at hw; rw [hw] at hu; simp at hu
        unfold Own at *; simpa [get?_set_other _ _ _ _ e] using hw
    · exact Mono.refl _
  · exact Mono.refl _

theorem avail_noteSite {st : St} {var w : Str} (h : HasKey st w) : Avail (st.noteSite var (.str w)) w := by
  unfold St.noteSite
  simp only []
  split
  · right; exact ⟨var, by simp [get?_set_same]⟩
  · rename_i hu
    unfold HasKey at h
    cases hg : AList.get? st.nm w with
    | none => simp [hg] at h
    | some x =>
      cases x with
      | unset => exact absurd hg hu
      | site u => right; exact ⟨u, hg⟩
      | own => left; exact hg

theorem mono_newCell (st : St) (v : Str) : Mono st (st.newCell v) ∧ Avail (st.newCell v) v := by
  refine ⟨⟨?_, ?_, ?_⟩, ?_⟩
  · intro w hw
    by_cases e : w = v
    · subst e; left; simp [St.newCell, get?_set_same]
    · unfold Avail at *; simpa [St.newCell, get?_set_other _ _ _ _ e] using hw
  · intro w hw
    by_cases e : w = v
    · subst e; simp [HasKey, St.newCell, get?_set_same]
    · unfold HasKey at *; simpa [St.newCell, get?_set_other _ _ _ _ e] using hw
  · intro w hw
    by_cases e : w = v
    · subst e; simp [Own, St.newCell, get?_set_same]
    · unfold Own at *; simpa [St.newCell, get?_set_other _ _ _ _ e] using hw
  · left; simp [St.newCell, get?_set_same]

theorem getOrEstablish_spec (st : St) (v : Str) :
    ((getOrEstablish st v).1 = true ↔ Avail st v) ∧
    (∀ w, Avail (getOrEstablish st v).2 w ↔ Avail st w) ∧
    (∀ w, HasKey (getOrEstablish st v).2 w ↔ HasKey st w) := by
  unfold getOrEstablish
  split
  · rename_i h; exact ⟨by simp [Avail, h], fun _ => Iff.rfl, fun _ => Iff.rfl⟩
  · rename_i u h
    refine ⟨by simp [Avail, h], ?_, ?_⟩
    · intro w
      by_cases e : w = v
      · subst e; simp [Avail, get?_set_same, h]
      · simp [Avail, get?_set_other _ _ _ _ e]
    · intro w
      by_cases e : w = v
      · subst e; simp [HasKey, get?_set_same, h]
      · simp [HasKey, get?_set_other _ _ _ _ e]
  · rename_i h1 h2
    refine ⟨?_, fun _ => Iff.rfl, fun _ => Iff.rfl⟩
    simp only [Bool.false_eq_true, false_iff]
    intro h
    rcases h with h | ⟨u, h⟩
    · exact h1 h
    · exact h2 u h

/-- the guarded call in `findNext` -/
theorem tryGet_spec (st : St) (v : Str) :
    ((if AList.contains st.nm v then getOrEstablish st v else (false, st)).1 = true ↔ Avail st v) ∧
    (∀ w, Avail (if AList.contains st.nm v then getOrEstablish st v else (false, st)).2 w ↔ Avail st w) ∧
    (∀ w, HasKey (if AList.contains st.nm v then getOrEstablish st v else (false, st)).2 w ↔ HasKey st w) := by
  split
  · exact getOrEstablish_spec st v
  · rename_i hc
    refine ⟨?_, fun _ => Iff.rfl, fun _ => Iff.rfl⟩
    simp only [Bool.false_eq_true, false_iff]
    intro h
    apply hc
    rw [contains_iff, ← get?_isSome_iff]
    rcases h with h | ⟨u, h⟩ <;> simp [h]

theorem findNext_spec : ∀ data rev st,
    (∀ w, Avail (findNext data rev st).2.2.2 w ↔ Avail st w) ∧
    (∀ w, HasKey (findNext data rev st).2.2.2 w ↔ HasKey st w) ∧
    ((findNext data rev st).2.1 = none → ∀ tr ∈ pending data, Unav st tr) ∧
    (∀ v, (findNext data rev st).2.1 = some v →
      ∃ sk', (findNext data rev st).1 = rev.reverse ++ sk' ∧ (∀ tr ∈ pending sk', Unav st tr) ∧
        ∃ tr p e rest, (findNext data rev st).2.2.1 = .t tr p e :: rest ∧
          (tr.src = v ∨ (tr.tgt = .str v ∧ ¬ Avail st tr.src))) := by
  intro data rev st
  fun_induction findNext data rev st
  · exact ⟨fun _ => Iff.rfl, fun _ => Iff.rfl, fun _ tr h => by simp [pending] at h, fun v h => by simp at h⟩
  · exact ⟨fun _ => Iff.rfl, fun _ => Iff.rfl, fun _ tr h => by simp [pending] at h, fun v h => by simp at h⟩
  · rename_i rest rev st ih
    obtain ⟨a, b, c, d⟩ := ih
    refine ⟨a, b, fun h tr htr => c h tr (by simpa [pending] using htr), ?_⟩
    intro v hv
    obtain ⟨sk', h1, h2, h3⟩ := d v hv
    exact ⟨.pop :: sk', by simp [h1], by simpa [pending] using h2, h3⟩
  · rename_i tr push epis rest rev st d trySrc h1
    obtain ⟨s1, s2, s3⟩ := tryGet_spec st tr.src
    refine ⟨s2, s3, fun h => by simp at h, ?_⟩
    intro v hv
    simp only [Option.some.injEq] at hv
    subst hv
    exact ⟨[], by simp, by simp [pending], tr, push, epis, rest, rfl, Or.inl rfl⟩
  · rename_i tr push epis rest rev st d trySrc h1 tv htv tryTgt h2
    obtain ⟨s1, s2, s3⟩ := tryGet_spec st tr.src
    obtain ⟨t1, t2, t3⟩ := tryGet_spec trySrc.2 tv
    refine ⟨fun w => (t2 w).trans (s2 w), fun w => (t3 w).trans (s3 w), fun h => by simp at h, ?_⟩
    intro v hv
    simp only [Option.some.injEq] at hv
    subst hv
    exact ⟨[], by simp, by simp [pending], tr, push, epis, rest, rfl,
      Or.inr ⟨htv, fun ha => h1 (s1.2 ha)⟩⟩
  · rename_i tr push epis rest rev st d trySrc h1 tv htv tryTgt h2 ih
    obtain ⟨s1, s2, s3⟩ := tryGet_spec st tr.src
    obtain ⟨t1, t2, t3⟩ := tryGet_spec trySrc.2 tv
    obtain ⟨a, b, c, e⟩ := ih
    have hav : ∀ w, Avail tryTgt.2 w ↔ Avail st w := fun w => (t2 w).trans (s2 w)
    have hun : ∀ x, Unav tryTgt.2 x ↔ Unav st x := by
      intro x; unfold Unav; simp only [hav]
    have hd : Unav st tr := by
      refine ⟨fun ha => h1 (s1.2 ha), ?_⟩
      intro w hw ha
      rw [htv] at hw; simp only [Atom.str.injEq] at hw; subst hw
      exact h2 (t1.2 ((s2 _).2 ha))
    refine ⟨fun w => (a w).trans (hav w), fun w => (b w).trans ((t3 w).trans (s3 w)), ?_, ?_⟩
    · intro h x hx
      simp only [pending, List.mem_cons] at hx
      rcases hx with rfl | hx
      · exact hd
      · exact (hun x).1 (c h x hx)
    · intro v hv
      obtain ⟨sk', k1, k2, tr', p', e', rest', k3, k4⟩ := e v hv
      refine ⟨d :: sk', by rw [k1]; simp, ?_, tr', p', e', rest', k3, ?_⟩
      · intro x hx
        simp only [d, pending, List.mem_cons] at hx
        rcases hx with rfl | hx
        · exact hd
        · exact (hun x).1 (k2 x hx)
      · rcases k4 with k4 | ⟨k4, k5⟩
        · exact Or.inl k4
        · exact Or.inr ⟨k4, fun ha => k5 ((hav _).2 ha)⟩
  · rename_i tr push epis rest rev st d trySrc h1 hnt ih
    obtain ⟨s1, s2, s3⟩ := tryGet_spec st tr.src
    obtain ⟨a, b, c, e⟩ := ih
    have hav : ∀ w, Avail trySrc.2 w ↔ Avail st w := s2
    have hun : ∀ x, Unav trySrc.2 x ↔ Unav st x := by
      intro x; unfold Unav; simp only [hav]
    have hd : Unav st tr := by
      refine ⟨fun ha => h1 (s1.2 ha), ?_⟩
      intro w hw; exact absurd hw (hnt w)
    refine ⟨fun w => (a w).trans (s2 w), fun w => (b w).trans (s3 w), ?_, ?_⟩
    · intro h x hx
      simp only [pending, List.mem_cons] at hx
      rcases hx with rfl | hx
      · exact hd
      · exact (hun x).1 (c h x hx)
    · intro v hv
      obtain ⟨sk', k1, k2, tr', p', e', rest', k3, k4⟩ := e v hv
      refine ⟨d :: sk', by rw [k1]; simp, ?_, tr', p', e', rest', k3, ?_⟩
      · intro x hx
        simp only [d, pending, List.mem_cons] at hx
        rcases hx with rfl | hx
        · exact hd
        · exact (hun x).1 (k2 x hx)
      · rcases k4 with k4 | ⟨k4, k5⟩
        · exact Or.inl k4
        · exact Or.inr ⟨k4, fun ha => k5 ((s2 _).2 ha)⟩


/-! ### `configureNode` makes both ends of every consumed triple available -/

/-- the role does not invert to `:instance` -/
def RNC (m : Model) (tr : Triple) : Prop := tr.role ≠ CONCEPT_ROLE → m.invertRole tr.role ≠ CONCEPT_ROLE

def EndsAvail (V : List Str) (st : St) (tr : Triple) : Prop :=
  (tr.src ∈ V → Avail st tr.src) ∧ (tr.role ≠ CONCEPT_ROLE → ∀ w ∈ V, tr.tgt = .str w → Avail st w)

theorem EndsAvail.mono {V : List Str} {st st' : St} {tr : Triple} (h : EndsAvail V st tr) (hm : Mono st st') :
    EndsAvail V st' tr :=
  ⟨fun hv => hm.1 _ (h.1 hv), fun hr w hw ht => hm.1 _ (h.2 hr w hw ht)⟩

theorem orient_cases {m : Model} {var : Str} {tr : Triple} {push s : Bool} {role : Str} {target : Atom}
    {push' s' : Bool} (h : orient m var tr push s = some (role, target, push', s')) :
    (tr.src = var ∧ role = tr.role ∧ target = tr.tgt) ∨
    (tr.tgt = .str var ∧ tr.role ≠ CONCEPT_ROLE ∧ role = m.invertRole tr.role ∧ target = .str tr.src) := by
  unfold orient at h
  split at h
  · rename_i h1
    simp only [Option.some.injEq, Prod.mk.injEq] at h
    obtain ⟨rfl, rfl, _, _⟩ := h
    exact Or.inl ⟨h1, rfl, rfl⟩
  · split at h
    · rename_i h2
      simp only [Option.some.injEq, Prod.mk.injEq] at h
      obtain ⟨rfl, rfl, _, _⟩ := h
      refine Or.inr ⟨h2.1, h2.2, invert_role m tr, ?_⟩
      unfold Model.invert; rw [h2.1]
    · simp at h

/-- once the node variable and the (non-concept) target are available, so are the ends of `tr` -/
theorem endsAvail_of_orient {m : Model} {V : List Str} {var : Str} {tr : Triple} {role : Str} {target : Atom}
    {st : St}
    (ho : (tr.src = var ∧ role = tr.role ∧ target = tr.tgt) ∨
      (tr.tgt = .str var ∧ tr.role ≠ CONCEPT_ROLE ∧ role = m.invertRole tr.role ∧ target = .str tr.src))
    (hvar : Avail st var) (htgt : role ≠ CONCEPT_ROLE → ∀ w ∈ V, target = .str w → Avail st w)
    (hrnc : RNC m tr) : EndsAvail V st tr := by
  rcases ho with ⟨h1, h2, h3⟩ | ⟨h1, h2, h3, h4⟩
  · subst h1 h2 h3
    exact ⟨fun _ => hvar, htgt⟩
  · have hr : role ≠ CONCEPT_ROLE := by rw [h3]; exact hrnc h2
    refine ⟨fun hv => htgt hr _ hv h4, ?_⟩
    intro _ w _ hw
    rw [h1] at hw; simp only [Atom.str.injEq] at hw; subst hw
    exact hvar

theorem cn_avail (m : Model) (V : List Str) : ∀ f var data st s, Own st var → (∀ v ∈ V, HasKey st v) →
    (∀ tr ∈ pending data, RNC m tr) →
    Mono st (configureNode m f var data st s).2.1 ∧
    ∃ c, data = c ++ (configureNode m f var data st s).1 ∧
      ∀ tr ∈ pending c, EndsAvail V (configureNode m f var data st s).2.1 tr := by
  intro f
  induction f with
  | zero => intro var data st s _ _ _; exact ⟨Mono.refl _, [], rfl, fun tr h => by simp [pending] at h⟩
  | succ f ih =>
    intro var data st s hv hK hr
    cases data with
    | nil => exact ⟨Mono.refl _, [], rfl, fun tr h => by simp [pending] at h⟩
    | cons d data =>
      cases d with
      | pop => exact ⟨Mono.refl _, [.pop], rfl, fun tr h => by simp [pending] at h⟩
      | t tr push epis =>
        have hr' : ∀ tr ∈ pending data, RNC m tr := fun t ht => hr t (by simp [pending, ht])
        have hrt : RNC m tr := hr tr (by simp [pending])
        simp only [configureNode]
        split
        · exact ⟨Mono.refl _, [], rfl, fun tr h => by simp [pending] at h⟩
        · rename_i role target push' s' hor
          have ho := orient_cases hor
          split
          · rename_i hcr
            have hE : ∀ st', Mono st st' → EndsAvail V st' tr := by
              intro st' hm
              exact endsAvail_of_orient ho (hm.1 _ (avail_of_own hv)) (fun h => absurd hcr h) hrt
            split
            · obtain ⟨m1, c, hc, hX⟩ := ih var data st s' hv hK hr'
              refine ⟨m1, .t tr push epis :: c, by rw [List.cons_append, ← hc], ?_⟩
              intro x hx
              simp only [pending, List.mem_cons] at hx
              rcases hx with rfl | hx
              · exact hE _ m1
              · exact hX x hx
            · have m0 : Mono st (st.addFront var ⟨['/'], .atom target, epis⟩) := mono_of_nm_eq rfl
              obtain ⟨m1, c, hc, hX⟩ := ih var data _ s' (m0.2.2 _ hv) (fun v hv' => m0.2.1 _ (hK v hv')) hr'
              refine ⟨m0.trans m1, .t tr push epis :: c, by rw [List.cons_append, ← hc], ?_⟩
              intro x hx
              simp only [pending, List.mem_cons] at hx
              rcases hx with rfl | hx
              · exact hE _ (m0.trans m1)
              · exact hX x hx
          · rename_i hncr
            split
            · rename_i v hp
              obtain ⟨htgt, _⟩ := pushVar_some hp
              obtain ⟨m0, a0⟩ := mono_newCell st v
              obtain ⟨m1, c1, hc1, hX1⟩ := ih v data (st.newCell v) false
                (by simp [Own, St.newCell, get?_set_same]) (fun w hw => m0.2.1 _ (hK w hw)) hr'
              have m2 : Mono (configureNode m f v data (st.newCell v) false).2.1
                  ((configureNode m f v data (st.newCell v) false).2.1.addBack var ⟨role, .node v, epis⟩) :=
                mono_of_nm_eq rfl
              have hr2 : ∀ tr ∈ pending (configureNode m f v data (st.newCell v) false).1, RNC m tr := by
                intro t ht; apply hr'
                rw [hc1, pending_append]; exact List.mem_append_right _ ht
              have m02 := (m0.trans m1).trans m2
              obtain ⟨m3, c2, hc2, hX2⟩ := ih var _ _ (s' && (configureNode m f v data (st.newCell v) false).2.2)
                (m02.2.2 _ hv) (fun w hw => m02.2.1 _ (hK w hw)) hr2
              refine ⟨m02.trans m3, .t tr push epis :: (c1 ++ c2), ?_, ?_⟩
              · rw [List.cons_append, List.append_assoc, ← hc2, ← hc1]
              · intro x hx
                simp only [pending, pending_append, List.mem_cons, List.mem_append] at hx
                rcases hx with rfl | hx | hx
                · apply endsAvail_of_orient ho ((m02.trans m3).1 _ (avail_of_own hv)) _ hrt
                  intro _ w _ hw
                  rw [htgt] at hw; simp only [Atom.str.injEq] at hw; subst hw
                  exact ((m1.trans m2).trans m3).1 _ a0
                · exact (hX1 x hx).mono (m2.trans m3)
                · exact hX2 x hx
            · have m0 := mono_noteSite st var target
              have m1 : Mono (st.noteSite var target) ((st.noteSite var target).addBack var ⟨role, .atom target, epis⟩) :=
                mono_of_nm_eq rfl
              have m01 := m0.trans m1
              obtain ⟨m2, c, hc, hX⟩ := ih var data _ s' (m01.2.2 _ hv) (fun w hw => m01.2.1 _ (hK w hw)) hr'
              refine ⟨m01.trans m2, .t tr push epis :: c, by rw [List.cons_append, ← hc], ?_⟩
              intro x hx
              simp only [pending, List.mem_cons] at hx
              rcases hx with rfl | hx
              · apply endsAvail_of_orient ho ((m01.trans m2).1 _ (avail_of_own hv)) _ hrt
                intro _ w hw ht
                subst ht
                exact (m1.trans m2).1 _ (avail_noteSite (hK w hw))
              · exact hX x hx

end Cfg

/-
  Token-level round trip: a concrete syntax tree (`CNode`/`CEdges`: the tokens
  of a graph arranged as a tree, positions and texts arbitrary) determines a
  token list (`toks`) and an abstract tree (`tree`, where an ALIGNMENT token's
  text is glued to the preceding role / atom text, as the parser does).
  The parser maps `toks` back to `tree`.
-/
import Penman.Parse
set_option linter.unusedSimpArgs false
namespace Penman

/-- a ROLE / SYMBOL / STRING token with an optional ALIGNMENT token after it -/
structure TText where
  tok : Tok
  aln : Option Tok

def TText.toks (x : TText) : List Tok :=
  match x.aln with
  | none => [x.tok]
  | some a => [x.tok, a]

/-- the text the parser builds: token text with the alignment text glued on -/
def TText.text (x : TText) : Str :=
  match x.aln with
  | none => x.tok.text
  | some a => x.tok.text ++ a.text

def TText.wfAln (x : TText) : Bool :=
  match x.aln with
  | none => true
  | some a => a.ty = .ALIGNMENT

mutual
/-- concrete syntax of a node -/
inductive CNode where
  /-- `()` -/
  | empty (lp rp : Tok)
  /-- `( var [ '/' [concept] ] edges )` -/
  | mk (lp var : Tok) (slash : Option (Tok × Option TText)) (edges : CEdges) (rp : Tok)
/-- concrete syntax of an edge list -/
inductive CEdges where
  | nil
  /-- `role [aln] [atom [aln]]` -/
  | atom (role : TText) (tgt : Option TText) (rest : CEdges)
  /-- `role [aln] node` -/
  | sub (role : TText) (n : CNode) (rest : CEdges)
end

def slashToks : Option (Tok × Option TText) → List Tok
  | none => []
  | some (s, none) => [s]
  | some (s, some c) => s :: c.toks

mutual
def CNode.toks : CNode → List Tok
  | .empty lp rp => [lp, rp]
  | .mk lp var sl es rp => lp :: var :: (slashToks sl ++ (es.toks ++ [rp]))
def CEdges.toks : CEdges → List Tok
  | .nil => []
  | .atom r none rest => r.toks ++ rest.toks
  | .atom r (some a) rest => r.toks ++ (a.toks ++ rest.toks)
  | .sub r n rest => r.toks ++ (n.toks ++ rest.toks)
end

mutual
def CNode.tree : CNode → Node
  | .empty _ _ => .mk none .nil
  | .mk _ var sl es _ =>
    .mk (some var.text)
      (match sl with
       | none => es.tree
       | some (_, none) => .atom ['/'] .none es.tree
       | some (_, some c) => .atom ['/'] (.str c.text) es.tree)
def CEdges.tree : CEdges → Branches
  | .nil => .nil
  | .atom r none rest => .atom r.text .none rest.tree
  | .atom r (some a) rest => .atom r.text (.str a.text) rest.tree
  | .sub r n rest => .sub r.text n.tree rest.tree
end

def slashWf : Option (Tok × Option TText) → Bool
  | none => true
  | some (s, none) => s.ty = .SLASH
  | some (s, some c) => s.ty = .SLASH && isSymOrStr c.tok && c.wfAln

mutual
/-- token types are those of the grammar -/
def CNode.wf : CNode → Bool
  | .empty lp rp => lp.ty = .LPAREN && rp.ty = .RPAREN
  | .mk lp var sl es rp =>
    lp.ty = .LPAREN && var.ty = .SYMBOL && slashWf sl && es.wf && rp.ty = .RPAREN
def CEdges.wf : CEdges → Bool
  | .nil => true
  | .atom r none rest => r.tok.ty = .ROLE && r.wfAln && rest.wf
  | .atom r (some a) rest => r.tok.ty = .ROLE && r.wfAln && isSymOrStr a.tok && a.wfAln && rest.wf
  | .sub r n rest => r.tok.ty = .ROLE && r.wfAln && n.wf && rest.wf
end

/-- `takeAln` on a text token's alignment part, when what follows is not an ALIGNMENT -/
theorem takeAln_ttext (c : PCtx) (x : TText) (m : Tok) (ms : List Tok)
    (hx : x.wfAln = true) (hm : m.ty ≠ .ALIGNMENT) :
    takeAln c x.tok.text ((x.toks ++ m :: ms).tail) = .ok (x.text, m :: ms) := by
  unfold TText.toks TText.text
  unfold TText.wfAln at hx
  cases h : x.aln with
  | none => simp [takeAln, hm]
  | some a => simp [h] at hx; simp [takeAln, hx]

theorem TText.toks_eq (x : TText) : x.toks = x.tok :: x.toks.tail := by
  unfold TText.toks; cases x.aln <;> rfl

/-- the token after an edge list (closed by `rp`) is a ROLE or `)` -/
theorem CEdges.head (es : CEdges) (rp : Tok) (rest : List Tok) (h : es.wf = true) (hrp : rp.ty = .RPAREN) :
    ∃ m ms, es.toks ++ rp :: rest = m :: ms ∧ (m.ty = .ROLE ∨ m.ty = .RPAREN) := by
  cases es with
  | nil => exact ⟨rp, rest, by simp [CEdges.toks], .inr hrp⟩
  | atom r tgt es' =>
    cases tgt with
    | none =>
      simp only [CEdges.wf, Bool.and_eq_true, decide_eq_true_eq] at h
      exact ⟨r.tok, _, by rw [CEdges.toks, r.toks_eq]; simp; rfl, .inl h.1.1⟩
    | some a =>
      simp only [CEdges.wf, Bool.and_eq_true, decide_eq_true_eq] at h
      exact ⟨r.tok, _, by rw [CEdges.toks, r.toks_eq]; simp; rfl, .inl h.1.1.1.1⟩
  | sub r n es' =>
    simp only [CEdges.wf, Bool.and_eq_true, decide_eq_true_eq] at h
    exact ⟨r.tok, _, by rw [CEdges.toks, r.toks_eq]; simp; rfl, .inl h.1.1.1⟩

theorem CNode.head (k : CNode) (rest : List Tok) (h : k.wf = true) :
    ∃ m ms, k.toks ++ rest = m :: ms ∧ m.ty = .LPAREN := by
  cases k with
  | empty lp rp =>
    simp only [CNode.wf, Bool.and_eq_true, decide_eq_true_eq] at h
    exact ⟨lp, _, by simp [CNode.toks]; rfl, h.1⟩
  | mk lp var sl es rp =>
    simp only [CNode.wf, Bool.and_eq_true, decide_eq_true_eq] at h
    exact ⟨lp, _, by simp [CNode.toks]; rfl, h.1.1.1.1⟩

theorem TText.toks_append (x : TText) (l : List Tok) : x.toks ++ l = x.tok :: (x.toks ++ l).tail := by
  unfold TText.toks; cases x.aln <;> rfl

theorem ne_aln_of_role_or_rparen {m : Tok} (h : m.ty = .ROLE ∨ m.ty = .RPAREN) : m.ty ≠ .ALIGNMENT := by
  rcases h with h | h <;> simp [h]

theorem ne_aln_of_symOrStr {m : Tok} (h : isSymOrStr m = true) : m.ty ≠ .ALIGNMENT := by
  simp [isSymOrStr] at h; rcases h with h | h <;> simp [h]

theorem not_symOrStr_of_role_or_rparen {m : Tok} (h : m.ty = .ROLE ∨ m.ty = .RPAREN) : isSymOrStr m = false := by
  rcases h with h | h <;> simp [isSymOrStr, h]

mutual
theorem parseNode_cst (c : PCtx) : (k : CNode) → (f : Nat) → (rest : List Tok) → k.wf = true →
    k.tree.size ≤ f → parseNode c f (k.toks ++ rest) = .ok (k.tree, rest)
  | .empty lp rp, f, rest, hw, hf => by
    simp only [CNode.wf, Bool.and_eq_true, decide_eq_true_eq] at hw
    cases f with
    | zero => simp [CNode.tree, Node.size] at hf
    | succ f => simp [CNode.toks, parseNode, expectTy, hw.1, hw.2, bind, Except.bind, CNode.tree, pure, Except.pure]
  | .mk lp var sl es rp, f, rest, hw, hf => by
    simp only [CNode.wf, Bool.and_eq_true, decide_eq_true_eq] at hw
    obtain ⟨⟨⟨⟨hlp, hv⟩, hsl⟩, hes⟩, hrp⟩ := hw
    cases f with
    | zero => simp [CNode.tree, Node.size] at hf
    | succ f =>
      obtain ⟨m, ms, e, hm⟩ := es.head rp rest hes hrp
      have hvr : var.ty ≠ .RPAREN := by simp [hv]
      have hm1 : m.ty ≠ .SLASH := by rcases hm with h | h <;> simp [h]
      match sl, hsl, hf with
      | none, _, hf =>
        have ih := parseEdges_cst c es f rp rest hes hrp (by simp [CNode.tree, Node.size] at hf; omega)
        rw [e] at ih
        simp only [CNode.toks, slashToks, List.nil_append, List.cons_append, List.append_assoc,
          List.singleton_append, e]
        simp [parseNode, expectTy, hlp, hv, hm1, ih, bind, Except.bind, pure, Except.pure, CNode.tree]
      | some (s, none), hsl, hf =>
        simp only [slashWf, decide_eq_true_eq] at hsl
        have ih := parseEdges_cst c es f rp rest hes hrp (by
          simp [CNode.tree, Node.size, Branches.size] at hf; omega)
        rw [e] at ih
        simp only [CNode.toks, slashToks, List.nil_append, List.cons_append, List.append_assoc,
          List.singleton_append, e]
        simp [parseNode, expectTy, hlp, hv, hsl, not_symOrStr_of_role_or_rparen hm, ih, bind, Except.bind,
          pure, Except.pure, CNode.tree]
      | some (s, some cpt), hsl, hf =>
        simp only [slashWf, Bool.and_eq_true, decide_eq_true_eq] at hsl
        obtain ⟨⟨hs, hk⟩, hca⟩ := hsl
        have ih := parseEdges_cst c es f rp rest hes hrp (by
          simp [CNode.tree, Node.size, Branches.size] at hf; omega)
        rw [e] at ih
        simp only [CNode.toks, slashToks, List.nil_append, List.cons_append, List.append_assoc,
          List.singleton_append, e]
        rw [cpt.toks_append]
        simp only [parseNode, expectTy, hlp, hv, hs, hk, if_true, bind, Except.bind]
        rw [takeAln_ttext c cpt m ms hca (ne_aln_of_role_or_rparen hm)]
        simp [ih, pure, Except.pure, CNode.tree]
theorem parseEdges_cst (c : PCtx) : (es : CEdges) → (f : Nat) → (rp : Tok) → (rest : List Tok) → es.wf = true →
    rp.ty = .RPAREN → es.tree.size ≤ f → parseEdges c f (es.toks ++ rp :: rest) = .ok (es.tree, rest)
  | .nil, f, rp, rest, _, hrp, hf => by
    cases f with
    | zero => simp [CEdges.tree, Branches.size] at hf
    | succ f => simp [CEdges.toks, parseEdges, hrp, CEdges.tree]
  | .atom r none es, f, rp, rest, hw, hrp, hf => by
    simp only [CEdges.wf, Bool.and_eq_true, decide_eq_true_eq] at hw
    obtain ⟨⟨hr, ha⟩, hes⟩ := hw
    cases f with
    | zero => simp [CEdges.tree, Branches.size] at hf
    | succ f =>
      have ih := parseEdges_cst c es f rp rest hes hrp (by simp [CEdges.tree, Branches.size] at hf; omega)
      obtain ⟨m, ms, e, hm⟩ := es.head rp rest hes hrp
      rw [CEdges.toks, List.append_assoc, e, r.toks_append]
      rw [e] at ih
      simp only [parseEdges, hr]
      rw [takeAln_ttext c r m ms ha (ne_aln_of_role_or_rparen hm)]
      have h1 : m.ty ≠ .LPAREN := by rcases hm with h | h <;> simp [h]
      simp [bind, Except.bind, not_symOrStr_of_role_or_rparen hm, h1, hm, ih, pure, Except.pure, CEdges.tree]
  | .atom r (some a) es, f, rp, rest, hw, hrp, hf => by
    simp only [CEdges.wf, Bool.and_eq_true, decide_eq_true_eq] at hw
    obtain ⟨⟨⟨⟨hr, ha⟩, hs⟩, haa⟩, hes⟩ := hw
    cases f with
    | zero => simp [CEdges.tree, Branches.size] at hf
    | succ f =>
      have ih := parseEdges_cst c es f rp rest hes hrp (by simp [CEdges.tree, Branches.size] at hf; omega)
      obtain ⟨m, ms, e, hm⟩ := es.head rp rest hes hrp
      rw [CEdges.toks, List.append_assoc, List.append_assoc, e, r.toks_append, a.toks_append]
      rw [e] at ih
      simp only [parseEdges, hr]
      rw [← a.toks_append, a.toks_append, takeAln_ttext c r _ _ ha (ne_aln_of_symOrStr hs)]
      simp only [bind, Except.bind, hs, if_true]
      rw [takeAln_ttext c a m ms haa (ne_aln_of_role_or_rparen hm)]
      simp [ih, pure, Except.pure, CEdges.tree]
  | .sub r n es, f, rp, rest, hw, hrp, hf => by
    simp only [CEdges.wf, Bool.and_eq_true, decide_eq_true_eq] at hw
    obtain ⟨⟨⟨hr, ha⟩, hn⟩, hes⟩ := hw
    cases f with
    | zero => simp [CEdges.tree, Branches.size] at hf
    | succ f =>
      have ihE := parseEdges_cst c es f rp rest hes hrp (by simp [CEdges.tree, Branches.size] at hf; omega)
      have ihN := parseNode_cst c n f (es.toks ++ rp :: rest) hn (by simp [CEdges.tree, Branches.size] at hf; omega)
      obtain ⟨m, ms, e, hm⟩ := n.head (es.toks ++ rp :: rest) hn
      rw [CEdges.toks, List.append_assoc, List.append_assoc, e, r.toks_append]
      rw [e] at ihN
      simp only [parseEdges, hr]
      rw [takeAln_ttext c r m ms ha (by simp [hm])]
      have h1 : isSymOrStr m = false := by simp [isSymOrStr, hm]
      simp [bind, Except.bind, h1, hm, ihN, ihE, pure, Except.pure, CEdges.tree]
end

/-! ### enough fuel: the tree is no larger than its token list -/

theorem TText.toks_length_pos (x : TText) : 1 ≤ x.toks.length := by
  unfold TText.toks; cases x.aln <;> simp

mutual
theorem CNode.size_le : (k : CNode) → k.tree.size ≤ k.toks.length
  | .empty lp rp => by simp [CNode.tree, CNode.toks, Node.size, Branches.size]
  | .mk lp var sl es rp => by
    have := es.size_le
    match sl with
    | none => simp [CNode.tree, CNode.toks, Node.size, slashToks]; omega
    | some (s, none) => simp [CNode.tree, CNode.toks, Node.size, Branches.size, slashToks]; omega
    | some (s, some c) => simp [CNode.tree, CNode.toks, Node.size, Branches.size, slashToks]; omega
theorem CEdges.size_le : (es : CEdges) → es.tree.size ≤ es.toks.length + 1
  | .nil => by simp [CEdges.tree, Branches.size]
  | .atom r none es => by
    have := es.size_le; have := r.toks_length_pos
    simp [CEdges.tree, CEdges.toks, Branches.size]; omega
  | .atom r (some a) es => by
    have := es.size_le; have := r.toks_length_pos
    simp [CEdges.tree, CEdges.toks, Branches.size]; omega
  | .sub r n es => by
    have := es.size_le; have := n.size_le; have := r.toks_length_pos
    simp [CEdges.tree, CEdges.toks, Branches.size]; omega
end

/-- the fuel `parseTree` uses is enough -/
theorem parseNode_cst_top (c : PCtx) (k : CNode) (rest : List Tok) (hw : k.wf = true) :
    parseNode c ((k.toks ++ rest).length + 1) (k.toks ++ rest) = .ok (k.tree, rest) :=
  parseNode_cst c k _ rest hw (by have := k.size_le; simp; omega)

/-! ### the same, as a relation between abstract trees and token lists -/

/-- `ts` is a ROLE token (optionally followed by an ALIGNMENT token) whose glued text is `r` -/
def RoleToks (r : Str) (ts : List Tok) : Prop :=
  ∃ x : TText, x.tok.ty = .ROLE ∧ x.wfAln = true ∧ x.text = r ∧ x.toks = ts
/-- `ts` is a SYMBOL or STRING token (optionally followed by an ALIGNMENT token) whose glued text is `a` -/
def AtomToks (a : Str) (ts : List Tok) : Prop :=
  ∃ x : TText, isSymOrStr x.tok = true ∧ x.wfAln = true ∧ x.text = a ∧ x.toks = ts
/-- `ts` is a token list of the edge list `bs` -/
def EdgesToks (bs : Branches) (ts : List Tok) : Prop :=
  ∃ es : CEdges, es.wf = true ∧ es.tree = bs ∧ es.toks = ts
/-- `ts` is a token list of the node `t` -/
def TreeToks (t : Node) (ts : List Tok) : Prop :=
  ∃ k : CNode, k.wf = true ∧ k.tree = t ∧ k.toks = ts

theorem RoleToks.single (t : Tok) (h : t.ty = .ROLE) : RoleToks t.text [t] :=
  ⟨⟨t, none⟩, h, rfl, rfl, rfl⟩
theorem RoleToks.aligned (t a : Tok) (h : t.ty = .ROLE) (ha : a.ty = .ALIGNMENT) : RoleToks (t.text ++ a.text) [t, a] :=
  ⟨⟨t, some a⟩, h, by simp [TText.wfAln, ha], rfl, rfl⟩
theorem AtomToks.single (t : Tok) (h : isSymOrStr t = true) : AtomToks t.text [t] :=
  ⟨⟨t, none⟩, h, rfl, rfl, rfl⟩
theorem AtomToks.aligned (t a : Tok) (h : isSymOrStr t = true) (ha : a.ty = .ALIGNMENT) :
    AtomToks (t.text ++ a.text) [t, a] :=
  ⟨⟨t, some a⟩, h, by simp [TText.wfAln, ha], rfl, rfl⟩

theorem EdgesToks.nil : EdgesToks .nil [] := ⟨.nil, rfl, rfl, rfl⟩
theorem EdgesToks.atom_none {r : Str} {bs : Branches} {tr tb : List Tok}
    (hr : RoleToks r tr) (hb : EdgesToks bs tb) : EdgesToks (.atom r .none bs) (tr ++ tb) := by
  obtain ⟨x, h1, h2, rfl, rfl⟩ := hr
  obtain ⟨es, h3, rfl, rfl⟩ := hb
  exact ⟨.atom x none es, by simp [CEdges.wf, h1, h2, h3], rfl, rfl⟩
theorem EdgesToks.atom_str {r a : Str} {bs : Branches} {tr ta tb : List Tok}
    (hr : RoleToks r tr) (ha : AtomToks a ta) (hb : EdgesToks bs tb) :
    EdgesToks (.atom r (.str a) bs) (tr ++ (ta ++ tb)) := by
  obtain ⟨x, h1, h2, rfl, rfl⟩ := hr
  obtain ⟨y, h4, h5, rfl, rfl⟩ := ha
  obtain ⟨es, h3, rfl, rfl⟩ := hb
  exact ⟨.atom x (some y) es, by simp [CEdges.wf, h1, h2, h3, h4, h5], rfl, rfl⟩
theorem EdgesToks.sub {r : Str} {n : Node} {bs : Branches} {tr tn tb : List Tok}
    (hr : RoleToks r tr) (hn : TreeToks n tn) (hb : EdgesToks bs tb) :
    EdgesToks (.sub r n bs) (tr ++ (tn ++ tb)) := by
  obtain ⟨x, h1, h2, rfl, rfl⟩ := hr
  obtain ⟨k, h4, rfl, rfl⟩ := hn
  obtain ⟨es, h3, rfl, rfl⟩ := hb
  exact ⟨.sub x k es, by simp [CEdges.wf, h1, h2, h3, h4], rfl, rfl⟩

theorem TreeToks.empty (lp rp : Tok) (h1 : lp.ty = .LPAREN) (h2 : rp.ty = .RPAREN) :
    TreeToks (.mk none .nil) [lp, rp] := ⟨.empty lp rp, by simp [CNode.wf, h1, h2], rfl, rfl⟩
/-- `( var edges )` -/
theorem TreeToks.node {lp var rp : Tok} {bs : Branches} {tb : List Tok}
    (h1 : lp.ty = .LPAREN) (hv : var.ty = .SYMBOL) (h2 : rp.ty = .RPAREN) (hb : EdgesToks bs tb) :
    TreeToks (.mk (some var.text) bs) (lp :: var :: (tb ++ [rp])) := by
  obtain ⟨es, h3, rfl, rfl⟩ := hb
  exact ⟨.mk lp var none es rp, by simp [CNode.wf, slashWf, h1, h2, h3, hv], rfl, by simp [CNode.toks, slashToks]⟩
/-- `( var / edges )` : missing concept -/
theorem TreeToks.node_slash {lp var sl rp : Tok} {bs : Branches} {tb : List Tok}
    (h1 : lp.ty = .LPAREN) (hv : var.ty = .SYMBOL) (hs : sl.ty = .SLASH) (h2 : rp.ty = .RPAREN)
    (hb : EdgesToks bs tb) :
    TreeToks (.mk (some var.text) (.atom ['/'] .none bs)) (lp :: var :: sl :: (tb ++ [rp])) := by
  obtain ⟨es, h3, rfl, rfl⟩ := hb
  exact ⟨.mk lp var (some (sl, none)) es rp, by simp [CNode.wf, slashWf, h1, h2, h3, hv, hs], rfl,
    by simp [CNode.toks, slashToks]⟩
/-- `( var / concept edges )` -/
theorem TreeToks.node_concept {lp var sl rp : Tok} {a : Str} {bs : Branches} {ta tb : List Tok}
    (h1 : lp.ty = .LPAREN) (hv : var.ty = .SYMBOL) (hs : sl.ty = .SLASH) (h2 : rp.ty = .RPAREN)
    (ha : AtomToks a ta) (hb : EdgesToks bs tb) :
    TreeToks (.mk (some var.text) (.atom ['/'] (.str a) bs)) (lp :: var :: sl :: (ta ++ (tb ++ [rp]))) := by
  obtain ⟨y, h4, h5, rfl, rfl⟩ := ha
  obtain ⟨es, h3, rfl, rfl⟩ := hb
  exact ⟨.mk lp var (some (sl, some y)) es rp, by simp [CNode.wf, slashWf, h1, h2, h3, h4, h5, hv, hs], rfl,
    by simp [CNode.toks, slashToks]⟩

/-- parsing a token list of a tree gives back the tree, whatever follows -/
theorem parseNode_treeToks (c : PCtx) (t : Node) (ts rest : List Tok) (f : Nat) (h : TreeToks t ts)
    (hf : t.size ≤ f) : parseNode c f (ts ++ rest) = .ok (t, rest) := by
  obtain ⟨k, hw, rfl, rfl⟩ := h
  exact parseNode_cst c k f rest hw hf

theorem parseEdges_edgesToks (c : PCtx) (bs : Branches) (ts : List Tok) (rp : Tok) (rest : List Tok) (f : Nat)
    (h : EdgesToks bs ts) (hrp : rp.ty = .RPAREN) (hf : bs.size ≤ f) :
    parseEdges c f (ts ++ rp :: rest) = .ok (bs, rest) := by
  obtain ⟨es, hw, rfl, rfl⟩ := h
  exact parseEdges_cst c es f rp rest hw hrp hf

theorem TreeToks.size_le {t : Node} {ts : List Tok} (h : TreeToks t ts) : t.size ≤ ts.length := by
  obtain ⟨k, _, rfl, rfl⟩ := h; exact k.size_le

/-! ### a canonical token list for an abstract tree -/

/-- how the texts of a tree are cut into tokens: where the alignment suffix
    of a role / atom text starts, and which atom texts are STRING tokens -/
structure TokShape where
  split : Str → Str × Option Str
  isString : Str → Bool

/-- no ALIGNMENT tokens, every atom a SYMBOL -/
def TokShape.plain : TokShape := ⟨fun s => (s, none), fun _ => false⟩

def TokShape.splitOk (sh : TokShape) (s : Str) : Bool :=
  match sh.split s with
  | (core, none) => core = s
  | (core, some a) => core ++ a = s

def TokShape.textToks (sh : TokShape) (ty : TokTy) (s : Str) : List Tok :=
  match sh.split s with
  | (core, none) => [⟨ty, core, 0, 0⟩]
  | (core, some a) => [⟨ty, core, 0, 0⟩, ⟨.ALIGNMENT, a, 0, 0⟩]

def TokShape.atomTy (sh : TokShape) (s : Str) : TokTy := if sh.isString s then .STRING else .SYMBOL

def TokShape.atomToks (sh : TokShape) : Atom → List Tok
  | .str s => sh.textToks (sh.atomTy s) s
  | _ => []

def TokShape.atomOk (sh : TokShape) : Atom → Bool
  | .none => true
  | .str s => sh.splitOk s
  | .num _ => false

def mkTok (ty : TokTy) (s : Str) : Tok := ⟨ty, s, 0, 0⟩

mutual
def Node.toks (sh : TokShape) : Node → List Tok
  | .mk none _ => [mkTok .LPAREN ['('], mkTok .RPAREN [')']]
  | .mk (some v) bs => mkTok .LPAREN ['('] :: mkTok .SYMBOL v :: (Branches.topToks sh bs ++ [mkTok .RPAREN [')']])
/-- the branch list of a node: a first branch with role `/` is the concept -/
def Branches.topToks (sh : TokShape) : Branches → List Tok
  | .nil => []
  | .atom r a rest =>
    if r = ['/'] then mkTok .SLASH ['/'] :: (sh.atomToks a ++ Branches.toks sh rest)
    else sh.textToks .ROLE r ++ (sh.atomToks a ++ Branches.toks sh rest)
  | .sub r n rest => sh.textToks .ROLE r ++ (Node.toks sh n ++ Branches.toks sh rest)
def Branches.toks (sh : TokShape) : Branches → List Tok
  | .nil => []
  | .atom r a rest => sh.textToks .ROLE r ++ (sh.atomToks a ++ Branches.toks sh rest)
  | .sub r n rest => sh.textToks .ROLE r ++ (Node.toks sh n ++ Branches.toks sh rest)
end

mutual
/-- the trees `Node.toks` is meant for: no variable only for the empty
    node; atomic targets are strings (cut consistently) or missing; role
    texts are cut consistently -/
def Node.WfTree (sh : TokShape) : Node → Bool
  | .mk none bs => (match bs with | .nil => true | _ => false)
  | .mk (some _) bs => Branches.WfTop sh bs
def Branches.WfTop (sh : TokShape) : Branches → Bool
  | .nil => true
  | .atom r a rest =>
    if r = ['/'] then sh.atomOk a && Branches.WfTree sh rest
    else sh.splitOk r && sh.atomOk a && Branches.WfTree sh rest
  | .sub r n rest => sh.splitOk r && Node.WfTree sh n && Branches.WfTree sh rest
def Branches.WfTree (sh : TokShape) : Branches → Bool
  | .nil => true
  | .atom r a rest => sh.splitOk r && sh.atomOk a && Branches.WfTree sh rest
  | .sub r n rest => sh.splitOk r && Node.WfTree sh n && Branches.WfTree sh rest
end

theorem TokShape.roleToks (sh : TokShape) (r : Str) (h : sh.splitOk r = true) :
    RoleToks r (sh.textToks .ROLE r) := by
  unfold TokShape.splitOk at h
  unfold TokShape.textToks
  cases e : sh.split r with
  | mk core oa =>
    cases oa with
    | none =>
      simp only [e, decide_eq_true_eq] at h; subst h
      exact RoleToks.single ⟨.ROLE, core, 0, 0⟩ rfl
    | some a =>
      simp only [e, decide_eq_true_eq] at h; subst h
      exact RoleToks.aligned ⟨.ROLE, core, 0, 0⟩ ⟨.ALIGNMENT, a, 0, 0⟩ rfl rfl

theorem TokShape.atomToks_str (sh : TokShape) (s : Str) (h : sh.splitOk s = true) :
    AtomToks s (sh.atomToks (.str s)) := by
  have hty : ∀ core, isSymOrStr ⟨sh.atomTy s, core, 0, 0⟩ = true := by
    intro core; unfold TokShape.atomTy; split <;> simp [isSymOrStr]
  unfold TokShape.splitOk at h
  unfold TokShape.atomToks TokShape.textToks
  cases e : sh.split s with
  | mk core oa =>
    cases oa with
    | none =>
      simp only [e, decide_eq_true_eq] at h
      have := AtomToks.single ⟨sh.atomTy s, core, 0, 0⟩ (hty _)
      simpa [h, e] using this
    | some a =>
      simp only [e, decide_eq_true_eq] at h
      have := AtomToks.aligned ⟨sh.atomTy s, core, 0, 0⟩ ⟨.ALIGNMENT, a, 0, 0⟩ (hty _) rfl
      simpa [h, e] using this

theorem TokShape.edge_atom (sh : TokShape) (r : Str) (a : Atom) (rest : Branches) (tb : List Tok)
    (hr : sh.splitOk r = true) (ha : sh.atomOk a = true) (hb : EdgesToks rest tb) :
    EdgesToks (.atom r a rest) (sh.textToks .ROLE r ++ (sh.atomToks a ++ tb)) := by
  cases a with
  | none => simpa [TokShape.atomToks] using EdgesToks.atom_none (sh.roleToks r hr) hb
  | str s => exact EdgesToks.atom_str (sh.roleToks r hr) (sh.atomToks_str s ha) hb
  | num t => simp [TokShape.atomOk] at ha

mutual
theorem Node.treeToks (sh : TokShape) : (t : Node) → t.WfTree sh = true → TreeToks t (t.toks sh)
  | .mk none bs, h => by
    cases bs <;> simp [Node.WfTree] at h
    exact TreeToks.empty _ _ rfl rfl
  | .mk (some v) bs, h => by
    simp only [Node.WfTree] at h
    simp only [Node.toks]
    match bs, h with
    | .nil, _ => exact TreeToks.node (var := mkTok .SYMBOL v) rfl rfl rfl EdgesToks.nil
    | .atom r a rest, h =>
      simp only [Branches.WfTop] at h
      simp only [Branches.topToks]
      by_cases hr : r = ['/']
      · subst hr
        simp only [if_true, Bool.and_eq_true] at h ⊢
        have hb := Branches.edgesToks sh rest h.2
        cases a with
        | none =>
          have := TreeToks.node_slash (var := mkTok .SYMBOL v) (sl := mkTok .SLASH ['/'])
            (lp := mkTok .LPAREN ['(']) (rp := mkTok .RPAREN [')']) rfl rfl rfl rfl hb
          simp only [TokShape.atomToks, List.nil_append]
          exact this
        | str s =>
          have := TreeToks.node_concept (var := mkTok .SYMBOL v) (sl := mkTok .SLASH ['/'])
            (lp := mkTok .LPAREN ['(']) (rp := mkTok .RPAREN [')']) rfl rfl rfl rfl (sh.atomToks_str s h.1) hb
          simp only [List.cons_append, List.append_assoc]
          exact this
        | num t => simp [TokShape.atomOk] at h
      · simp only [hr, if_false, Bool.and_eq_true] at h ⊢
        have hb := Branches.edgesToks sh rest h.2
        exact TreeToks.node (var := mkTok .SYMBOL v) rfl rfl rfl (sh.edge_atom r a rest _ h.1.1 h.1.2 hb)
    | .sub r n rest, h =>
      simp only [Branches.WfTop, Bool.and_eq_true] at h
      simp only [Branches.topToks]
      exact TreeToks.node (var := mkTok .SYMBOL v) rfl rfl rfl
        (EdgesToks.sub (sh.roleToks r h.1.1) (Node.treeToks sh n h.1.2) (Branches.edgesToks sh rest h.2))
theorem Branches.edgesToks (sh : TokShape) : (bs : Branches) → bs.WfTree sh = true → EdgesToks bs (bs.toks sh)
  | .nil, _ => EdgesToks.nil
  | .atom r a rest, h => by
    simp only [Branches.WfTree, Bool.and_eq_true] at h
    simp only [Branches.toks]
    exact sh.edge_atom r a rest _ h.1.1 h.1.2 (Branches.edgesToks sh rest h.2)
  | .sub r n rest, h => by
    simp only [Branches.WfTree, Bool.and_eq_true] at h
    simp only [Branches.toks]
    exact EdgesToks.sub (sh.roleToks r h.1.1) (Node.treeToks sh n h.1.2) (Branches.edgesToks sh rest h.2)
end

/-- **token-level round trip** : parsing the token list of a well-formed
    tree, followed by anything, gives back the tree and what followed -/
theorem parse_toks (c : PCtx) (sh : TokShape) (t : Node) (rest : List Tok) (f : Nat)
    (h : t.WfTree sh = true) (hf : t.size ≤ f) :
    parseNode c f (t.toks sh ++ rest) = .ok (t, rest) :=
  parseNode_treeToks c t _ rest f (t.treeToks sh h) hf

/-- edge lists: up to and including the closing `)` -/
theorem parseEdges_toks (c : PCtx) (sh : TokShape) (bs : Branches) (rp : Tok) (rest : List Tok) (f : Nat)
    (h : bs.WfTree sh = true) (hrp : rp.ty = .RPAREN) (hf : bs.size ≤ f) :
    parseEdges c f (bs.toks sh ++ rp :: rest) = .ok (bs, rest) :=
  parseEdges_edgesToks c bs _ rp rest f (bs.edgesToks sh h) hrp hf

end Penman

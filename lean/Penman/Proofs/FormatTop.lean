/-
  Top level of format ∘ lex:
  * `TreeToks` only depends on token types and texts (`cnode_relabel`);
  * the metadata lines of `format` are COMMENT tokens (`lexC_lines`);
  * `format_lexC`: the (type, text) sequence of `lex(format(tree))`.
-/
import Penman.Proofs.TextWfLemmas

set_option linter.unusedSimpArgs false
namespace Penman.FL
open Penman Penman.Spec Penman.Lex

variable {cfg : LexCfg}

/-! ### relabelling: positions do not matter for `TreeToks` -/

theorem core_eq_iff (a b : Tok) : core a = core b ↔ a.ty = b.ty ∧ a.text = b.text := by
  simp [core]

theorem ttext_relabel (x : TText) (ts : List Tok) (h : ts.map core = x.toks.map core) :
    ∃ x' : TText, x'.toks = ts ∧ x'.tok.ty = x.tok.ty ∧ x'.wfAln = x.wfAln ∧ x'.text = x.text := by
  obtain ⟨tok, aln⟩ := x
  cases aln with
  | none =>
    simp only [TText.toks, List.map_cons, List.map_nil, List.map_eq_cons_iff, List.map_eq_nil_iff] at h
    obtain ⟨t', r, rfl, ht, rfl⟩ := h
    rw [core_eq_iff] at ht
    exact ⟨⟨t', none⟩, rfl, ht.1, rfl, by simp [TText.text, ht.2]⟩
  | some a =>
    simp only [TText.toks, List.map_cons, List.map_nil, List.map_eq_cons_iff, List.map_eq_nil_iff] at h
    obtain ⟨t', r, rfl, ht, a', r', rfl, ha, rfl⟩ := h
    rw [core_eq_iff] at ht ha
    exact ⟨⟨t', some a'⟩, rfl, ht.1, by simp [TText.wfAln, ha.1], by simp [TText.text, ht.2, ha.2]⟩

theorem isSymOrStr_congr {a b : Tok} (h : a.ty = b.ty) : isSymOrStr a = isSymOrStr b := by
  simp [isSymOrStr, h]

theorem slash_relabel (sl : Option (Tok × Option TText)) (ts : List Tok)
    (h : ts.map core = (slashToks sl).map core) :
    ∃ sl', slashToks sl' = ts ∧ slashWf sl' = slashWf sl ∧
      ∀ (lp lp' var var' rp rp' : Tok) (es : CEdges), var.text = var'.text →
        (CNode.mk lp var sl' es rp).tree = (CNode.mk lp' var' sl es rp').tree := by
  match sl, h with
  | none, h =>
    simp only [slashToks, List.map_nil, List.map_eq_nil_iff] at h
    subst h
    exact ⟨none, rfl, rfl, by intros; simp [CNode.tree, *]⟩
  | some (s, none), h =>
    simp only [slashToks, List.map_cons, List.map_nil, List.map_eq_cons_iff, List.map_eq_nil_iff] at h
    obtain ⟨s', r, rfl, hs, rfl⟩ := h
    rw [core_eq_iff] at hs
    exact ⟨some (s', none), rfl, by simp [slashWf, hs.1], by intros; simp [CNode.tree, *]⟩
  | some (s, some c), h =>
    simp only [slashToks, List.map_cons, List.map_eq_cons_iff] at h
    obtain ⟨s', r, rfl, hs, hr⟩ := h
    rw [core_eq_iff] at hs
    obtain ⟨c', rfl, c1, c2, c3⟩ := ttext_relabel c r hr
    exact ⟨some (s', some c'), rfl, by simp [slashWf, hs.1, isSymOrStr_congr c1, c2],
      by intros; simp [CNode.tree, *]⟩

mutual
theorem cnode_relabel : (k : CNode) → (ts : List Tok) → ts.map core = k.toks.map core →
    ∃ k' : CNode, k'.toks = ts ∧ k'.wf = k.wf ∧ k'.tree = k.tree
  | .empty lp rp, ts, h => by
    simp only [CNode.toks, List.map_cons, List.map_nil, List.map_eq_cons_iff, List.map_eq_nil_iff] at h
    obtain ⟨lp', r, rfl, h1, rp', r', rfl, h2, rfl⟩ := h
    rw [core_eq_iff] at h1 h2
    exact ⟨.empty lp' rp', rfl, by simp [CNode.wf, h1.1, h2.1], rfl⟩
  | .mk lp var sl es rp, ts, h => by
    simp only [CNode.toks, List.map_cons, List.map_append, List.map_nil, List.map_eq_cons_iff,
      List.map_eq_append_iff, List.map_eq_nil_iff] at h
    obtain ⟨lp', r, rfl, h1, var', r', rfl, h2, a, b, rfl, ha, e, f, rfl, he, rp', r'', rfl, h3, rfl⟩ := h
    rw [core_eq_iff] at h1 h2 h3
    obtain ⟨sl', rfl, s1, s2⟩ := slash_relabel sl a ha
    obtain ⟨es', rfl, e1, e2⟩ := cedges_relabel es e he
    refine ⟨.mk lp' var' sl' es' rp', by simp [CNode.toks], by simp [CNode.wf, h1.1, h2.1, h3.1, s1, e1], ?_⟩
    rw [s2 lp' lp var' var rp' rp es' h2.2]
    simp [CNode.tree, e2]
theorem cedges_relabel : (es : CEdges) → (ts : List Tok) → ts.map core = es.toks.map core →
    ∃ es' : CEdges, es'.toks = ts ∧ es'.wf = es.wf ∧ es'.tree = es.tree
  | .nil, ts, h => by
    simp only [CEdges.toks, List.map_nil, List.map_eq_nil_iff] at h
    subst h
    exact ⟨.nil, rfl, rfl, rfl⟩
  | .atom r none es, ts, h => by
    simp only [CEdges.toks, List.map_append, List.map_eq_append_iff] at h
    obtain ⟨a, b, rfl, ha, hb⟩ := h
    obtain ⟨r', rfl, r1, r2, r3⟩ := ttext_relabel r a ha
    obtain ⟨es', rfl, e1, e2⟩ := cedges_relabel es b hb
    exact ⟨.atom r' none es', rfl, by simp [CEdges.wf, r1, r2, e1], by simp [CEdges.tree, r3, e2]⟩
  | .atom r (some x) es, ts, h => by
    simp only [CEdges.toks, List.map_append, List.map_eq_append_iff] at h
    obtain ⟨a, b, rfl, ha, c, d, rfl, hc, hd⟩ := h
    obtain ⟨r', rfl, r1, r2, r3⟩ := ttext_relabel r a ha
    obtain ⟨x', rfl, x1, x2, x3⟩ := ttext_relabel x c hc
    obtain ⟨es', rfl, e1, e2⟩ := cedges_relabel es d hd
    exact ⟨.atom r' (some x') es', rfl, by simp [CEdges.wf, r1, r2, isSymOrStr_congr x1, x2, e1],
      by simp [CEdges.tree, r3, x3, e2]⟩
  | .sub r n es, ts, h => by
    simp only [CEdges.toks, List.map_append, List.map_eq_append_iff] at h
    obtain ⟨a, b, rfl, ha, c, d, rfl, hc, hd⟩ := h
    obtain ⟨r', rfl, r1, r2, r3⟩ := ttext_relabel r a ha
    obtain ⟨n', rfl, n1, n2⟩ := cnode_relabel n c hc
    obtain ⟨es', rfl, e1, e2⟩ := cedges_relabel es d hd
    exact ⟨.sub r' n' es', rfl, by simp [CEdges.wf, r1, r2, n1, e1], by simp [CEdges.tree, r3, n2, e2]⟩
end

/-- a token list with the (type, text) sequence of a well-formed concrete syntax tree is a
    token list of its abstract tree -/
theorem treeToks_of_core {k : CNode} (hk : k.wf = true) {ts : List Tok}
    (h : ts.map core = k.toks.map core) : TreeToks k.tree ts := by
  obtain ⟨k', h1, h2, h3⟩ := cnode_relabel k ts h
  exact ⟨k', by rw [h2, hk], h3, h1⟩

/-! ### the metadata lines -/

theorem joinStr_cons_ne (sep x : Str) {xs : List Str} (h : xs ≠ []) :
    joinStr sep (x :: xs) = x ++ sep ++ joinStr sep xs := by
  cases xs with
  | nil => exact absurd rfl h
  | cons y r => rfl

/-- `'\n'.join(lines + [last])` where every line is `#…` without line break: one COMMENT
    token per line, then the tokens of `last` -/
theorem lexC_lines {order tl : List TokTy} (ho : order = .COMMENT :: tl) (last : Str) :
    ∀ lines : List Str, (∀ l ∈ lines, ∃ body, l = '#' :: body ∧ NoBreak body) →
      lexC cfg order (joinStr ['\n'] (lines ++ [last])) =
        lines.map (fun l => (TokTy.COMMENT, l)) ++ lexC cfg order last
  | [], _ => by simp [joinStr]
  | l :: ls, h => by
    obtain ⟨body, rfl, hb⟩ := h l (by simp)
    have ih := lexC_lines ho last ls (fun l hl => h l (by simp [hl]))
    rw [List.cons_append, joinStr_cons_ne _ _ (by simp), List.append_assoc]
    have hnb : NoBreak ('#' :: body) := (noBreak_cons (by decide) (by decide)).2 hb
    have hs : splitLines (('#' :: body) ++ (['\n'] ++ joinStr ['\n'] (ls ++ [last]))) =
        (('#' :: body) ++ []) :: splitLines (joinStr ['\n'] (ls ++ [last])) :=
      splitLines_append hnb (by simp [splitLines])
    rw [lexC_eq, hs, List.map_cons, List.flatten_cons, ← lexC_eq, ih, List.append_nil,
      lexC_comment_line ho body hb]
    simp

theorem formatMeta_lines (md : AList Str Str) (hmd : ∀ kv ∈ md, NoBreak kv.1 ∧ NoBreak kv.2) :
    ∀ l ∈ formatMeta md, ∃ body, l = '#' :: body ∧ NoBreak body := by
  intro l hl
  simp only [formatMeta, List.mem_map] at hl
  obtain ⟨⟨k, v⟩, hkv, rfl⟩ := hl
  obtain ⟨h1, h2⟩ := hmd _ hkv
  refine ⟨" ::".toList ++ k ++ (if v.isEmpty then v else ' ' :: v), rfl, ?_⟩
  apply noBreak_append (noBreak_append ⟨by decide, by decide⟩ h1)
  split
  · exact h2
  · exact (noBreak_cons (by decide) (by decide)).2 h2

/-- **the (type, text) sequence of `lex(format(tree, indent, compact))`**: one COMMENT per
    metadata line, then the (type, text) sequence of the concrete syntax tree — whatever
    `indent` and `compact` are -/
theorem format_lexC (hw : FmtCfgWfP cfg) (k : CNode) (hk : CNode.Good cfg k) (md : AList Str Str)
    (hmd : ∀ kv ∈ md, NoBreak kv.1 ∧ NoBreak kv.2) (i : Indent) (c : Bool) :
    lexP cfg (format ⟨k.tree, md⟩ i c) =
      (formatMeta md).map (fun l => (TokTy.COMMENT, l)) ++ k.toks.map core := by
  obtain ⟨tl, ho⟩ := hw.penman_head
  simp only [format]
  rw [lexP, lexC_lines ho _ _ (formatMeta_lines md hmd)]
  have := node_lex hw k hk.1 hk.2 i (if c = true then k.tree.vars else []) 0 []
  simp only [List.append_nil] at this
  rw [show lexC cfg cfg.penmanOrder = lexP cfg from rfl, this]
  have : lexP cfg [] = [] := rfl
  rw [this, List.append_nil]

end Penman.FL

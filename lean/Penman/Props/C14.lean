/-
  # C14 — Layout diagnostics agree with the text the graph was decoded from

  Model functions: `nodeContexts` (`penman.layout.node_contexts`), `getPushedVariable`
  (`get_pushed_variable`), `appearsInverted` (`appears_inverted`) on `g = interpret … t`.
  Reference: `Reading.writer` of `Penman.Spec.Reading`, computed directly from the tree:
  per written relation its triple, the variable of the node that wrote it, the variable of
  the nested node it opens, and whether it was written inverted (the reading swapped it).

  Clause of the property text                                     ↦ theorem
  --------------------------------------------------------------------------------------
  "for every graph decoded from a well-formed tree"               ↦ hypothesis `WfLayout` (decidable),
                                                                     which also gives that decoding succeeds
  "the node context reported for each triple is the variable of
   the tree node whose branch list (or concept) wrote it — never
   unknown"                                                       ↦ `C14` clause 2 (`nodeContexts g = .ok (… some ctx …)`),
                                                                     `writer_ctx_is_writing_node`
  "the pushed variable of a triple is the variable of the nested
   node that branch opened, if any"                               ↦ `C14` clauses 3, 4
  "a triple whose source and target differ is reported as
   appearing inverted exactly when the text wrote it from its
   target's node with an inverted role"                           ↦ `C14` clause 5 + `writer_swapped_iff`
  "On graphs without markers the diagnostics answer
   unknown/False instead of raising"                              ↦ `getPushedVariable_markerless`,
                                                                     `nodeContexts_markerless`, and for *every* graph
                                                                     `nodeContexts_total`, `appearsInverted_total`

  `WfLayout isAlpha m t` := the tree has a reading `r` (every node has a variable, alignment
  strings parse) and `r.Layoutable`:
    (1) the denoted triples are pairwise distinct          (else `epimap` drops the later markers),
    (2) every role is written with its colon               (else markers are filed under a key that is
                                                            not a triple of the graph: C04, OBSERVATION),
    (3) no nested node has the empty string as variable    (Python: `if pushed:`),
    (4) no relation written inverted denotes an `:instance` triple (`:instance-of (b / …)`; an
        instance triple is only eligible for its source's context).
  "Variables defined once" and "no inverted self-loop" turned out NOT to be needed (the
  self-loop case is excluded by the property's own "source and target differ").
  Each of (1)–(4) is necessary: see the counterexamples at the end (all by `decide`).

  The IndexError of `node_contexts` on corrupted markers (former candidate finding, now
  fix F19 in /repo and in the model) is settled by `nodeContexts_total`; the concrete graph
  is kept as `exCorrupt`.

  Nothing is left unproved in this file.
-/
import Penman.Proofs.Decoded
import Penman.Generated
namespace Penman.Props.C14
open Penman Penman.Spec.Reading Penman.Interp

/-- well-formedness for layout diagnostics (decidable) -/
def WfLayout (isAlpha : Char → Bool) (m : Model) (t : Tree) : Prop :=
  match read isAlpha m t.node with
  | .ok r => r.Layoutable
  | .error _ => False

instance (isAlpha : Char → Bool) (m : Model) (t : Tree) : Decidable (WfLayout isAlpha m t) := by
  unfold WfLayout; split <;> infer_instance

/-- **C14.** For a well-formed tree decoding succeeds, and with `g` the decoded graph and
    `r.writer` the list (triple, writing node, opened node, written inverted) read off the tree:
    1. the triples of `g` are those of `writer`, in order;
    2. `node_contexts(g)` is the writing node of each triple — never `None`, never an error;
    3. `get_pushed_variable(g, triple)` is the opened node of that relation (or `None`);
    4. … and `None` for any triple not in `g`;
    5. for a triple whose source and target differ, `appears_inverted(g, triple)` is exactly
       "written inverted". -/
theorem C14 (isAlpha : Char → Bool) (m : Model) (t : Tree) (hwf : WfLayout isAlpha m t) :
    ∃ g r, interpret isAlpha m t = .ok g ∧ read isAlpha m t.node = .ok r ∧
      g.triples = r.writer.map (·.1) ∧
      nodeContexts g = .ok (r.writer.map fun w => some w.2.1) ∧
      (∀ w ∈ r.writer, getPushedVariable g w.1 = w.2.2.1) ∧
      (∀ tr, tr ∉ g.triples → getPushedVariable g tr = none) ∧
      (∀ w ∈ r.writer, Atom.str w.1.src ≠ w.1.tgt → appearsInverted g w.1 = .ok w.2.2.2) := by
  unfold WfLayout at hwf
  cases hr : read isAlpha m t.node with
  | error e => simp [hr] at hwf
  | ok r =>
    simp only [hr] at hwf
    obtain ⟨g, hg⟩ := interpret_defined hr
    obtain ⟨v, ds, es, D⟩ := decoded hg
    rw [D.rd] at hr; cases hr
    have hcol : ∀ d ∈ ds, colon d.triple = d.triple := fun d hd => by
      have := hwf.2.1 d hd; simp only [colon, this]
    have hw : Reading.writer ⟨some v, ds⟩ = ds.map fun d => (d.triple, d.ctx, d.opens, d.swapped) := by
      apply List.map_congr_left; intro d hd; rw [hcol d hd]
    refine ⟨g, ⟨some v, ds⟩, hg, rfl, ?_, ?_, ?_, ?_, ?_⟩
    · rw [hw, D.triples_eq hwf]; simp
    · rw [hw, D.nodeContexts hwf]; simp
    · intro w hwm
      rw [hw] at hwm
      obtain ⟨d, hd, rfl⟩ := List.mem_map.1 hwm
      exact D.pushed hwf hd
    · intro tr htr
      rw [D.triples_eq hwf] at htr
      exact D.pushed_none htr
    · intro w hwm hne
      rw [hw] at hwm
      obtain ⟨d, hd, rfl⟩ := List.mem_map.1 hwm
      exact D.appearsInverted hwf hd hne

/-- the `ctx` component of `writer` is, by construction, the variable of the node in whose
    branch list (or as whose implied node label) the relation is written: it is copied from
    `Written.ctx`, which `Node.written` sets to the variable of the enclosing node. -/
theorem writer_ctx_is_writing_node (isAlpha : Char → Bool) (m : Model) (vars : List Str) (w : Written) (d : Denoted)
    (h : denote isAlpha m vars w = .ok d) : w.ctx = some d.ctx ∧
      (d.opens = match w.tgt with | .opens v => v | .atom _ => none) := by
  obtain ⟨hc, -, hs⟩ := denote_shape h
  refine ⟨hc, ?_⟩
  cases hs with
  | opens nv h1 h2 => rw [h1, h2]
  | null h1 h2 => rw [h1, h2]
  | str raw h1 h2 => rw [h1, h2]

/-- "written inverted": the relation was swapped iff the triple's *target* is the writing node
    and the role as written is an inverted one (and the model deinverts); otherwise the
    writing node is the triple's source. -/
theorem writer_swapped_iff (isAlpha : Char → Bool) (m : Model) (vars : List Str) (w : Written) (d : Denoted)
    (h : denote isAlpha m vars w = .ok d) :
    (d.swapped = true → d.triple.tgt = .str d.ctx ∧ m.isRoleInverted (roleName w.role) = true ∧
        d.triple.role = m.invertRole (roleName w.role)) ∧
    (d.swapped = false → d.triple.src = d.ctx ∧ d.triple.role = roleName w.role) := by
  obtain ⟨-, -, hs⟩ := denote_shape h
  cases hs with
  | opens nv h1 h2 h3 h4 =>
    constructor
    · intro hsw; rw [hsw] at h4 h3
      have := h3.symm; simp only [Bool.and_eq_true] at this
      simp [h4, orientTriple, Model.invert, this.2]
    · intro hsw; rw [hsw] at h4; simp [h4, orientTriple]
  | null h1 h2 h3 h4 => simp [h3, h4]
  | str raw h1 h2 h3 h4 =>
    constructor
    · intro hsw; rw [hsw] at h4 h3
      have := h3.symm; simp only [Bool.and_eq_true] at this
      simp [h4, orientTriple, Model.invert, this.1.2]
    · intro hsw; rw [hsw] at h4; simp [h4, orientTriple]

/-! ## every graph: the diagnostics never raise -/

/-- `node_contexts` returns (one entry per triple) for EVERY graph, whatever its markers -/
theorem nodeContexts_total (g : Graph) : ∃ l, nodeContexts g = .ok l ∧ l.length = g.triples.length :=
  ⟨_, nodeContexts_eq_run g, by rw [run_length, countT_eventsG]⟩

/-- `appears_inverted` returns for EVERY graph and triple -/
theorem appearsInverted_total (g : Graph) (t : Triple) : ∃ b, appearsInverted g t = .ok b :=
  ⟨_, appearsInverted_eq g t⟩

/-! ## marker-less graphs -/

theorem getPushedVariable_markerless (g : Graph) (h : g.epidata = []) (t : Triple) :
    getPushedVariable g t = none := by
  simp [getPushedVariable, h, AList.get?]

/-- without markers the context is the top for as long as the top is eligible
    (source, or variable target of a non-instance triple), and unknown from then on -/
theorem nodeContexts_markerless (g : Graph) (h : g.epidata = []) :
    nodeContexts g = .ok (match g.getTop with
      | some c => topWhileEligible g.variables c g.triples
      | none => List.replicate g.triples.length none) := by
  rw [nodeContexts_eq_run, eventsG_markerless g h]
  cases hc : g.getTop with
  | some c => simp only [run_markerless]
  | none =>
    cases ht : g.triples with
    | nil => rfl
    | cons a l => simp [run, countT_map_t]

/-- without markers `appears_inverted` is `False` for instance triples and attributes, and for an
    edge it is decided by the (marker-less) node contexts alone: never an error -/
theorem appearsInverted_markerless (g : Graph) (h : g.epidata = []) (t : Triple) :
    appearsInverted g t = .ok
      (if t.role = CONCEPT_ROLE || !g.isVar t.tgt then false
       else invertedScan t (match g.getTop with
          | some c => topWhileEligible g.variables c g.triples
          | none => List.replicate g.triples.length none) g.triples) := by
  have hc := nodeContexts_markerless g h
  rw [nodeContexts_eq_run] at hc
  simp only [Except.ok.injEq] at hc
  rw [appearsInverted_eq, getPushedVariable_markerless g h, hc]

/-! ## non-vacuity -/

private def s (x : String) : Str := x.toList
private def T (src role tgt : String) : Triple := ⟨s src, s role, .str (s tgt)⟩

/-- docstring example of `node_contexts`:
    `(a / alpha :attr val :ARG0 (b / beta :ARG0 (g / gamma)) :ARG0-of g)`;
    `(g / gamma))` closes two node contexts on one triple (two POPs) -/
def exDoc : Tree := ⟨.mk (some (s "a")) (.atom (s "/") (.str (s "alpha")) (.atom (s ":attr") (.str (s "val"))
  (.sub (s ":ARG0") (.mk (some (s "b")) (.atom (s "/") (.str (s "beta"))
      (.sub (s ":ARG0") (.mk (some (s "g")) (.atom (s "/") (.str (s "gamma")) .nil)) .nil)))
  (.atom (s ":ARG0-of") (.str (s "g")) .nil)))), []⟩

example : WfLayout isAsciiAlpha Generated.defaultModel exDoc := by decide
example : WfLayout isAsciiAlpha Generated.amrModel exDoc := by decide

example : ((read isAsciiAlpha Generated.defaultModel exDoc.node).map (·.writer)).toOption =
    some [(T "a" ":instance" "alpha", s "a", none, false), (T "a" ":attr" "val", s "a", none, false),
          (T "a" ":ARG0" "b", s "a", some (s "b"), false), (T "b" ":instance" "beta", s "b", none, false),
          (T "b" ":ARG0" "g", s "b", some (s "g"), false), (T "g" ":instance" "gamma", s "g", none, false),
          (T "g" ":ARG0" "a", s "a", none, true)] := by decide

/-- the docstring's expected output, computed by the model -/
example : ((interpret isAsciiAlpha Generated.defaultModel exDoc) >>= nodeContexts).toOption =
    some [some (s "a"), some (s "a"), some (s "a"), some (s "b"), some (s "b"), some (s "g"), some (s "a")] := by
  decide

example : ((interpret isAsciiAlpha Generated.defaultModel exDoc).map fun g =>
      (g.triples.map fun tr => (appearsInverted g tr).toOption)).toOption =
    some [some false, some false, some false, some false, some false, some false, some true] := by decide

/-- deep nesting, a concept-less node with edges, an inverted nested node, three closes at once:
    `(a :ARG0 (b :ARG1-of (c / x :ARG2 (d))) :mod a2)` -/
def exDeep : Tree := ⟨.mk (some (s "a"))
  (.sub (s ":ARG0") (.mk (some (s "b"))
    (.sub (s ":ARG1-of") (.mk (some (s "c")) (.atom (s "/") (.str (s "x"))
      (.sub (s ":ARG2") (.mk (some (s "d")) .nil) .nil))) .nil))
  (.atom (s ":mod") (.str (s "a2")) .nil)), []⟩

example : WfLayout isAsciiAlpha Generated.defaultModel exDeep := by decide
example : ((interpret isAsciiAlpha Generated.defaultModel exDeep) >>= nodeContexts).toOption =
    some [some (s "a"), some (s "a"), some (s "b"), some (s "b"), some (s "c"), some (s "c"), some (s "d"),
          some (s "a")] := by decide

/-! ### marker-less and corrupted graphs -/

def exBare : Graph := { triples := [T "a" ":instance" "x", T "a" ":ARG0" "b", T "b" ":instance" "y"] }

example : exBare.epidata = [] := rfl
example : (nodeContexts exBare).toOption = some [some (s "a"), some (s "a"), none] := by decide
example : (appearsInverted exBare (T "a" ":ARG0" "b")).toOption = some false := by decide

/-- the former candidate finding: a POP on the first triple empties the stack; the pinned code
    raised `IndexError: list index out of range` at `stack[-1]` for the second triple
    (reproduced on the real code before fix F19). Now: unknown from there on. -/
def exCorrupt : Graph :=
  { triples := [T "a" ":instance" "x", T "a" ":ARG0" "b"],
    epidata := [(T "a" ":instance" "x", [.pop])] }

example : (nodeContexts exCorrupt).toOption = some [some (s "a"), none] := by decide
example : (appearsInverted exCorrupt (T "a" ":ARG0" "b")).toOption = some false := by decide

/-! ### each clause of `Layoutable` is necessary -/

/-- (1) duplicate triple, the second occurrence opens a node: `(a / x :R b :R (b / y))`.
    The Push of the second `(a :R b)` is dropped with its markers, `b`'s triples get no context. -/
def exDup : Tree := ⟨.mk (some (s "a")) (.atom (s "/") (.str (s "x")) (.atom (s ":R") (.str (s "b"))
  (.sub (s ":R") (.mk (some (s "b")) (.atom (s "/") (.str (s "y")) .nil)) .nil))), []⟩
example : ¬ WfLayout isAsciiAlpha Generated.defaultModel exDup := by decide
example : ((interpret isAsciiAlpha Generated.defaultModel exDup) >>= nodeContexts).toOption =
    some [some (s "a"), some (s "a"), some (s "a"), none] := by decide

/-- (2) role without colon (the docstring example of `interpret`): see C04, OBSERVATION -/
def exNoColon : Tree := ⟨.mk (some (s "b")) (.atom (s "/") (.str (s "bark-01"))
  (.sub (s "ARG0") (.mk (some (s "d")) (.atom (s "/") (.str (s "dog")) .nil)) .nil)), []⟩
example : ¬ WfLayout isAsciiAlpha Generated.defaultModel exNoColon := by decide
example : ((interpret isAsciiAlpha Generated.defaultModel exNoColon) >>= nodeContexts).toOption =
    some [some (s "b"), some (s "b"), none] := by decide

/-- (3) a nested node whose variable is the empty string: `Push('')` is falsy, its POP is not -/
def exEmptyVar : Tree := ⟨.mk (some (s "a")) (.atom (s "/") (.str (s "x"))
  (.sub (s ":R") (.mk (some []) (.atom (s "/") (.str (s "y")) .nil))
  (.atom (s ":mod") (.str (s "z")) .nil))), []⟩
example : ¬ WfLayout isAsciiAlpha Generated.defaultModel exEmptyVar := by decide
example : ((interpret isAsciiAlpha Generated.defaultModel exEmptyVar) >>= nodeContexts).toOption =
    some [some (s "a"), some (s "a"), none, none] := by decide

/-- (4) `:instance-of` on a node: `(a / x :instance-of (b / y))` denotes `(b :instance a)`,
    which is only eligible for context `b` (real code: `['a', None, None]`) -/
def exInstOf : Tree := ⟨.mk (some (s "a")) (.atom (s "/") (.str (s "x"))
  (.sub (s ":instance-of") (.mk (some (s "b")) (.atom (s "/") (.str (s "y")) .nil)) .nil)), []⟩
example : ¬ WfLayout isAsciiAlpha Generated.defaultModel exInstOf := by decide
example : ((interpret isAsciiAlpha Generated.defaultModel exInstOf) >>= nodeContexts).toOption =
    some [some (s "a"), none, none] := by decide

end Penman.Props.C14

/-
# C07t — triple conjunctions against an independent recogniser (closes the gap left in C07)

Property text (C07, the part about `parse_triples`) → theorems:

* "parsing a triple conjunction either returns a result or raises the decode
  error"  → already `C07.parseTriples_total`; here it is also a corollary of
  `triples_eq_spec` (`triples_total'`), the machine having only these outcomes.
* "Acceptance, the result, and on rejection the reported line and column …
  agree with an independent recogniser of that grammar"
  → `triples_eq_spec` : `parseTriplesToks toks = TripleAutomaton.run toks` for
  ALL token lists — results, error positions and error kinds.  The recogniser
  is `Spec.TripleAutomaton` (iterative finite-state machine, one transition
  per token; it does not import `Penman.Parse`).  `triples_eq_spec_loop` is the
  same from inside the model's loop (any context, any fuel above the number of
  tokens).
  The grammar  Conj := Triple ('^' Triple)* ;  Triple := Role '(' Source ','? Target? ')'
  is recognised with the documented lexical quirks (comma glued to source /
  target / both / alone; `^` alone or glued to the role; roles get a leading
  `:`; anything but a `^…` SYMBOL after a `)` ends the conjunction and the
  rest is ignored).  `automaton_accepts_conj` links the machine to the
  declarative token grammar `ConjToks` of C07 §6.
* "the first token at which the documented grammar fails, or the end of the
  last token when input runs out"
  → `triples_error_position` (kind 1: the token is in the input, the tokens
  before it are a viable prefix, with it they are not),
  `triples_error_position_eof` (kind 0: position = `eofPos` of the whole
  input, the whole input is a viable prefix but no conjunction is complete),
  `triples_error_kinds`.

Nothing is left unproved.
-/
import Penman.Spec.TripleAutomaton
import Penman.Proofs.TripleAutomaton
namespace Penman.C07t
open Penman Penman.Spec.TripleAutomaton Penman.TripleAut

deriving instance DecidableEq for Except

/-! ## concrete inputs used in the non-vacuity examples -/

def tk (ty : TokTy) (s : String) (off : Nat) : Tok := ⟨ty, s.toList, 1, off⟩

/-- the tokens of `instance(a, b) ^ ARG0(a , c)` -/
def trToks : List Tok :=
  [tk .SYMBOL "instance" 0, tk .LPAREN "(" 8, tk .SYMBOL "a," 9, tk .SYMBOL "b" 12, tk .RPAREN ")" 13,
   tk .SYMBOL "^" 15, tk .SYMBOL "ARG0" 17, tk .LPAREN "(" 21, tk .SYMBOL "a" 22, tk .SYMBOL "," 24,
   tk .SYMBOL "c" 26, tk .RPAREN ")" 27]

/-- the tokens of `instance(a,b) ^ARG0(a ,c)` : glued variants -/
def gluedToks : List Tok :=
  [tk .SYMBOL "instance" 0, tk .LPAREN "(" 8, tk .SYMBOL "a,b" 9, tk .RPAREN ")" 12,
   tk .SYMBOL "^ARG0" 14, tk .LPAREN "(" 19, tk .SYMBOL "a" 20, tk .SYMBOL ",c" 22, tk .RPAREN ")" 24]

def trTriples : List Triple :=
  [⟨"a".toList, ":instance".toList, .str "b".toList⟩, ⟨"a".toList, ":ARG0".toList, .str "c".toList⟩]

/-- the tokens of `instance(a b)` : the `b` (offset 11) has no comma -/
def badToks : List Tok :=
  [tk .SYMBOL "instance" 0, tk .LPAREN "(" 8, tk .SYMBOL "a" 9, tk .SYMBOL "b" 11, tk .RPAREN ")" 12]

/-- the tokens of `instance(a, b) ^ ARG0(a,` : input runs out after `a,` (offset 22, 2 characters) -/
def cutToks : List Tok := trToks.take 8 ++ [tk .SYMBOL "a," 22]

/-- the tokens of `instance(a, "x") ( junk` : what follows the conjunction is ignored -/
def restToks : List Tok :=
  [tk .SYMBOL "instance" 0, tk .LPAREN "(" 8, tk .SYMBOL "a," 9, tk .STRING "\"x\"" 12, tk .RPAREN ")" 15,
   tk .LPAREN "(" 17, tk .SYMBOL "junk" 19]

/-! ## 1. agreement with the independent recogniser -/

/-- **`parse_triples` is the machine** : same triple list, or the same error
    position and kind — for every token list -/
theorem triples_eq_spec (toks : List Tok) : parseTriplesToks toks = run toks :=
  parseTriplesToks_eq toks

example : run trToks = .ok trTriples := by decide
example : parseTriplesToks trToks = .ok trTriples := by decide
example : run gluedToks = .ok trTriples := by decide
example : run badToks = .error (.decode 1 11 1) := by decide
example : run cutToks = .error (.decode 1 24 0) := by decide
example : run [] = .error (.decode 0 0 0) := by decide
example : run restToks = .ok [⟨"a".toList, ":instance".toList, .str "\"x\"".toList⟩] := by decide
/-- no target: `a`, `a,`, `a ,` -/
example : run [tk .SYMBOL "top" 0, tk .LPAREN "(" 3, tk .SYMBOL "a" 4, tk .RPAREN ")" 5, tk .SYMBOL "^" 7,
      tk .SYMBOL "top" 9, tk .LPAREN "(" 12, tk .SYMBOL "a," 13, tk .RPAREN ")" 15, tk .SYMBOL "^top" 17,
      tk .LPAREN "(" 21, tk .SYMBOL "a" 22, tk .SYMBOL "," 24, tk .RPAREN ")" 25]
    = .ok [⟨['a'], ":top".toList, .none⟩, ⟨['a'], ":top".toList, .none⟩, ⟨['a'], ":top".toList, .none⟩] := by decide
/-- a `^` glued to the FIRST role is part of the role (recorded behaviour) -/
example : run [tk .SYMBOL "^r" 0, tk .LPAREN "(" 2, tk .SYMBOL "a,b" 3, tk .RPAREN ")" 6]
    = .ok [⟨['a'], ":^r".toList, .str ['b']⟩] := by decide

/-- the same from inside the model's loop: any context `c` (its end-of-input
    position), any fuel above the number of tokens, any triples already read -/
theorem triples_eq_spec_loop (c : PCtx) (f : Nat) (toks : List Tok) (acc : List Triple)
    (hf : toks.length < f) :
    parseTriplesLoop c f false toks acc = (loop ⟨.expectRole, acc.reverse⟩ toks).toExcept c :=
  parseTriplesLoop_eq c f toks acc hf

example : trToks.length < 13 := by decide

/-- a triple list or the decode error, nothing else (from the machine) -/
theorem triples_total' (toks : List Tok) :
    (∃ r, parseTriplesToks toks = .ok r) ∨ (∃ l k n, parseTriplesToks toks = .error (.decode l k n)) := by
  rw [triples_eq_spec, run]
  cases runOutcome toks with
  | accept trs => exact .inl ⟨trs, rfl⟩
  | rejectAt t => exact .inr ⟨_, _, _, rfl⟩
  | exhausted => exact .inr ⟨_, _, _, rfl⟩

/-- the machine accepts the declarative token grammar of C07 §6 (`ConjToks` :
    all spacing variants), whatever follows if it does not start with a `^` SYMBOL -/
theorem automaton_accepts_conj {trs : List Triple} {ts : List Tok} (h : ConjToks false trs ts)
    (rest : List Tok) (hst : StopsAt rest) : run (ts ++ rest) = .ok trs := by
  rw [← triples_eq_spec]; exact parseTriplesToks_conj h rest hst

example : StopsAt [tk .LPAREN "(" 17, tk .SYMBOL "junk" 19] := by simp [StopsAt, tk]

/-! ## 2. the position of an error -/

/-- only the two kinds of decode error occur -/
theorem triples_error_kinds (toks : List Tok) (l k n : Nat)
    (h : parseTriplesToks toks = .error (.decode l k n)) : n = 0 ∨ n = 1 := by
  rw [triples_eq_spec, run] at h
  cases hr : runOutcome toks with
  | accept trs => simp [hr, Outcome.report] at h
  | rejectAt t => simp [hr, Outcome.report] at h; exact .inr h.2.2.symm
  | exhausted => simp [hr, Outcome.report] at h; exact .inl h.2.2.symm

/-- **error position, kind 1** : the reported `(l, k)` is the position of a
    token `t` of the input such that the tokens before `t` are a viable prefix
    (they can be completed to an accepted conjunction) and adding `t` makes
    them non-viable: `t` is the first token at which the grammar fails -/
theorem triples_error_position (toks : List Tok) (l k : Nat)
    (h : parseTriplesToks toks = .error (.decode l k 1)) :
    ∃ pre t post, toks = pre ++ t :: post ∧ l = t.lineno ∧ k = t.offset ∧
      runOutcome toks = .rejectAt t ∧ Viable pre ∧ ¬ Viable (pre ++ [t]) := by
  rw [triples_eq_spec, run] at h
  cases hr : runOutcome toks with
  | accept trs => simp [hr, Outcome.report] at h
  | exhausted => simp [hr, Outcome.report] at h
  | rejectAt t =>
    simp [hr, Outcome.report] at h
    obtain ⟨pre, post, e, v, nv⟩ := TripleAut.run_rejectAt toks t hr
    exact ⟨pre, t, post, e, h.1.symm, h.2.symm, rfl, v, nv⟩

example : parseTriplesToks badToks = .error (.decode 1 11 1) := by decide

/-- **error position, kind 0** : the position is the end of the last token of
    the whole input; the whole input is a viable prefix, and no conjunction
    is complete -/
theorem triples_error_position_eof (toks : List Tok) (l k : Nat)
    (h : parseTriplesToks toks = .error (.decode l k 0)) :
    (l, k) = eofPos toks ∧ runOutcome toks = .exhausted ∧ Viable toks ∧ ¬ Accepts toks := by
  rw [triples_eq_spec, run] at h
  cases hr : runOutcome toks with
  | accept trs => simp [hr, Outcome.report] at h
  | rejectAt t => simp [hr, Outcome.report] at h
  | exhausted =>
    simp [hr, Outcome.report, endPos_eq_eofPos] at h
    refine ⟨by rw [← h.1, ← h.2], rfl, TripleAut.run_exhausted toks hr, ?_⟩
    rintro ⟨trs, ha⟩; rw [hr] at ha; cases ha

example : parseTriplesToks cutToks = .error (.decode 1 24 0) := by decide
example : eofPos cutToks = (1, 24) := by decide

end Penman.C07t



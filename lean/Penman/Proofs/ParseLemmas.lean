import Penman.Parse
import Penman.Spec.Automaton
set_option linter.unusedSimpArgs false
namespace Penman
open Spec.Automaton

theorem endPos_eq_eofPos (all : List Tok) : endPos all = eofPos all := by
  induction all with
  | nil => rfl
  | cons t ts ih =>
    cases ts with
    | nil => rfl
    | cons u us => simp only [endPos, ih, eofPos, List.getLast?_cons_cons]

theorem isAtomTok_eq (t : Tok) : isAtomTok t = isSymOrStr t := rfl

/-! ### clean unfoldings of the parser -/

theorem takeAln_length {c : PCtx} {text : Str} {toks : List Tok} {x : Str} {ts : List Tok}
    (h : takeAln c text toks = .ok (x, ts)) : ts.length ≤ toks.length := by
  cases toks with
  | nil => simp [takeAln] at h
  | cons t ts' =>
    simp only [takeAln] at h
    split at h <;> cases h <;> simp

theorem takeAln_length' {c : PCtx} {text : Str} {toks : List Tok} {v : Str × List Tok}
    (h : takeAln c text toks = .ok v) : v.snd.length ≤ toks.length := takeAln_length (x := v.1) (ts := v.2) h

theorem expectTy_ok {c : PCtx} {ty : TokTy} {toks : List Tok} {x : Tok} {ts : List Tok}
    (h : expectTy c ty toks = .ok (x, ts)) : toks = x :: ts ∧ x.ty = ty := by
  cases toks with
  | nil => simp [expectTy] at h
  | cons t ts' =>
    simp only [expectTy] at h
    split at h
    · cases h; simp_all
    · cases h

/-- both parsers consume at least one token -/
theorem parse_length (c : PCtx) (f : Nat) :
    (∀ toks n rest, parseNode c f toks = .ok (n, rest) → rest.length < toks.length) ∧
    (∀ toks bs rest, parseEdges c f toks = .ok (bs, rest) → rest.length < toks.length) := by
  induction f with
  | zero => constructor <;> intro toks _ _ h <;> simp [parseNode, parseEdges] at h
  | succ f ih =>
    have ihN : ∀ toks v, parseNode c f toks = .ok v → v.snd.length < toks.length :=
      fun toks v h => ih.1 toks v.1 v.2 h
    have ihE : ∀ toks v, parseEdges c f toks = .ok v → v.snd.length < toks.length :=
      fun toks v h => ih.2 toks v.1 v.2 h
    clear ih
    constructor
    · intro toks n rest h
      cases toks with
      | nil => simp [parseNode, expectTy, bind, Except.bind] at h
      | cons t0 ts =>
        by_cases h0 : t0.ty = .LPAREN
        · simp only [parseNode, expectTy, h0, if_true, bind, Except.bind] at h
          cases ts with
          | nil => cases h
          | cons t ts1 =>
            simp only at h
            by_cases hr : t.ty = .RPAREN
            · simp only [hr, if_true, pure, Except.pure] at h; cases h; simp; omega
            · by_cases hs : t.ty = .SYMBOL
              · simp only [hr, hs, if_true, if_false] at h
                repeat' split at h
                all_goals first
                  | (cases h; done)
                  | skip
                all_goals simp only [pure, Except.pure, Except.ok.injEq, Prod.mk.injEq] at h
                all_goals obtain ⟨_, rfl⟩ := h
                all_goals
                  try have a1 := takeAln_length' ‹takeAln c _ _ = Except.ok _›
                  try have a3 := ihE _ _ ‹parseEdges c f _ = Except.ok _›
                  simp only [List.length_cons] at *
                  omega
              · simp [hr, hs] at h
        · simp [parseNode, expectTy, h0, bind, Except.bind] at h
    · intro toks bs rest h
      cases toks with
      | nil => simp [parseEdges] at h
      | cons t ts =>
        simp only [parseEdges] at h
        split at h
        · cases h; simp
        split at h
        · cases h
        cases h1 : takeAln c t.text ts with
        | error e => simp [h1, bind, Except.bind] at h
        | ok r1 =>
          obtain ⟨role, ts1⟩ := r1
          have l1 := takeAln_length h1
          simp only [h1, bind, Except.bind] at h
          repeat' split at h
          all_goals first
            | (cases h; done)
            | (simp only [throw, throwThe, MonadExceptOf.throw, pure, Except.pure, reduceCtorEq] at h; done)
            | skip
          all_goals simp only [pure, Except.pure, Except.ok.injEq, Prod.mk.injEq] at h
          all_goals obtain ⟨_, rfl⟩ := h
          all_goals
            try have a1 := takeAln_length' ‹takeAln c _ _ = Except.ok _›
            try have a2 := ihN _ _ ‹parseNode c f _ = Except.ok _›
            try have a3 := ihE _ _ ‹parseEdges c f _ = Except.ok _›
            simp only [List.length_cons] at *
            omega

/-! ### the recursive-descent parser against the automaton -/

/-- the report of an outcome in the parser context `c` -/
def Spec.Automaton.Outcome.toExcept (c : PCtx) : Outcome → Except PyErr (Node × List Tok)
  | .accept n rest => .ok (n, rest)
  | .rejectAt t => .error (tokErr t)
  | .exhausted => .error c.eofErr

theorem report_eq_toExcept (all : List Tok) (o : Outcome) :
    o.report all = Outcome.toExcept ⟨eofPos all⟩ o := by
  cases o <;> simp [Outcome.report, Outcome.toExcept, tokErr, PCtx.eofErr, endPos_eq_eofPos]

/-- continue the automaton after the node `n` has been completed below `ps` -/
def resume (n : Node) (ps : List (Frame × Str)) (rest : List Tok) : Outcome :=
  match ps with
  | [] => .accept n rest
  | (p, r) :: ps' => loop ⟨.edges, p.push (r, .node n), ps'⟩ rest

theorem resume_cons (n : Node) (p : Frame) (r : Str) (ps : List (Frame × Str)) (rest : List Tok) :
    resume n ((p, r) :: ps) rest = loop ⟨.edges, p.push (r, .node n), ps⟩ rest := rfl
theorem resume_nil (n : Node) (rest : List Tok) : resume n [] rest = .accept n rest := rfl

theorem loop_of_close (cfg : Config) (cur : Frame) (ps : List (Frame × Str)) (t : Tok) (ts : List Tok)
    (h : step cfg t = close cur ps) : loop cfg (t :: ts) = resume cur.node ps ts := by
  cases ps with
  | nil => simp [loop, h, close, resume]
  | cons p ps => obtain ⟨p, r⟩ := p; simp [loop, h, close, resume]

theorem loop_congr_step (cfg cfg' : Config) (t : Tok) (ts : List Tok)
    (h : step cfg t = step cfg' t) : loop cfg (t :: ts) = loop cfg' (t :: ts) := by
  simp only [loop, h]

theorem Branches.ofList_toList : (bs : Branches) → Branches.ofList bs.toList = bs
  | .nil => rfl
  | .atom r a rest => by simp [Branches.toList, Branches.ofList, Branches.ofList_toList rest]
  | .sub r n rest => by simp [Branches.toList, Branches.ofList, Branches.ofList_toList rest]

theorem Branches.ofList_append_toList (l : List Branch) (bs : Branches) :
    Branches.ofList (l ++ bs.toList) = (Branches.ofList l).append bs := by
  induction l with
  | nil => simp [Branches.ofList, Branches.append, Branches.ofList_toList]
  | cons b l ih =>
    obtain ⟨r, tg⟩ := b
    cases tg <;> simp [Branches.ofList, Branches.append, ih]

/-- an optional ALIGNMENT after a role -/
theorem loop_afterRole (c : PCtx) (r : Str) (cur : Frame) (ps : List (Frame × Str)) (toks : List Tok) :
    (loop ⟨.afterRole r, cur, ps⟩ toks).toExcept c
      = takeAln c r toks >>= fun x => (loop ⟨.target x.1, cur, ps⟩ x.2).toExcept c := by
  cases toks with
  | nil => simp [loop, takeAln, Outcome.toExcept, bind, Except.bind]
  | cons t ts =>
    by_cases h : t.ty = .ALIGNMENT
    · simp [loop, step, takeAln, h, bind, Except.bind]
    · simp [loop, step, takeAln, h, bind, Except.bind]

/-- an optional ALIGNMENT after an atom -/
theorem loop_afterAtom (c : PCtx) (r a : Str) (cur : Frame) (ps : List (Frame × Str)) (toks : List Tok) :
    (loop ⟨.afterAtom r a, cur, ps⟩ toks).toExcept c
      = takeAln c a toks >>= fun x =>
          (loop ⟨.edges, cur.push (r, .atom (.str x.1)), ps⟩ x.2).toExcept c := by
  cases toks with
  | nil => simp [loop, takeAln, Outcome.toExcept, bind, Except.bind]
  | cons t ts =>
    by_cases h : t.ty = .ALIGNMENT
    · simp [loop, step, stepAtom, takeAln, h, bind, Except.bind]
    · simp [loop, step, stepAtom, takeAln, h, bind, Except.bind]

theorem loop_afterConcept (c : PCtx) (a : Str) (cur : Frame) (ps : List (Frame × Str)) (toks : List Tok) :
    (loop ⟨.afterConcept a, cur, ps⟩ toks).toExcept c
      = takeAln c a toks >>= fun x =>
          (loop ⟨.edges, cur.push (['/'], .atom (.str x.1)), ps⟩ x.2).toExcept c := by
  cases toks with
  | nil => simp [loop, takeAln, Outcome.toExcept, bind, Except.bind]
  | cons t ts =>
    by_cases h : t.ty = .ALIGNMENT
    · simp [loop, step, stepAtom, takeAln, h, bind, Except.bind]
    · simp [loop, step, stepAtom, takeAln, h, bind, Except.bind]

theorem parseEdges_length' {c : PCtx} {f : Nat} {toks : List Tok} {v : Branches × List Tok}
    (h : parseEdges c f toks = .ok v) : v.snd.length < toks.length := (parse_length c f).2 toks v.1 v.2 h
theorem parseNode_length' {c : PCtx} {f : Nat} {toks : List Tok} {v : Node × List Tok}
    (h : parseNode c f toks = .ok v) : v.snd.length < toks.length := (parse_length c f).1 toks v.1 v.2 h

/-- the statement relating `parseEdges` to the automaton in state `edges` -/
def EdgesSim (c : PCtx) (f : Nat) : Prop :=
  ∀ (toks : List Tok) (cur : Frame) (ps : List (Frame × Str)), toks.length < f →
    (loop ⟨.edges, cur, ps⟩ toks).toExcept c
      = parseEdges c f toks >>= fun x =>
          (resume (.mk cur.var (Branches.ofList (cur.bs ++ x.1.toList))) ps x.2).toExcept c

/-- the statement relating `parseNode` to the automaton just after `(` -/
def NodeSim (c : PCtx) (f : Nat) : Prop :=
  ∀ (t0 : Tok) (toks : List Tok) (ps : List (Frame × Str)), t0.ty = .LPAREN → toks.length + 1 < f →
    (loop ⟨.opened, Frame.empty, ps⟩ toks).toExcept c
      = parseNode c f (t0 :: toks) >>= fun x => (resume x.1 ps x.2).toExcept c

theorem edgesSim_succ (c : PCtx) (f : Nat) (ihN : NodeSim c f) (ihE : EdgesSim c f) : EdgesSim c (f+1) := by
  intro toks cur ps hlen
  cases toks with
  | nil => simp [loop, parseEdges, Outcome.toExcept, bind, Except.bind]
  | cons t ts =>
    simp only [parseEdges]
    by_cases h1 : t.ty = .RPAREN
    · rw [loop_of_close _ cur ps t ts (by simp [step, stepEdges, h1])]
      simp [h1, bind, Except.bind, Branches.toList, Frame.node]
    by_cases h2 : t.ty = .ROLE
    · rw [show loop ⟨.edges, cur, ps⟩ (t :: ts) = loop ⟨.afterRole t.text, cur, ps⟩ ts by
            simp [loop, step, stepEdges, h1, h2]]
      rw [loop_afterRole]
      simp only [h1, h2, if_false, ne_eq, not_true_eq_false]
      cases hA : takeAln c t.text ts with
      | error e => simp [bind, Except.bind]
      | ok x =>
        obtain ⟨role, ts1⟩ := x
        have l1 := takeAln_length hA
        simp only [List.length_cons] at hlen
        simp only [bind, Except.bind]
        cases ts1 with
        | nil => simp [loop, Outcome.toExcept, throw, throwThe, MonadExceptOf.throw]
        | cons n ts2 =>
          simp only [List.length_cons] at l1
          simp only
          by_cases h3 : isSymOrStr n = true
          · rw [show loop ⟨.target role, cur, ps⟩ (n :: ts2) = loop ⟨.afterAtom role n.text, cur, ps⟩ ts2 by
                  simp [loop, step, stepTarget, isAtomTok_eq, h3]]
            rw [loop_afterAtom]
            simp only [h3, if_true]
            cases hB : takeAln c n.text ts2 with
            | error e => simp [bind, Except.bind]
            | ok y =>
              obtain ⟨tgt, ts3⟩ := y
              have l2 := takeAln_length hB
              simp only [bind, Except.bind]
              rw [ihE ts3 _ ps (by omega)]
              cases hC : parseEdges c f ts3 with
              | error e => simp [bind, Except.bind]
              | ok z => simp [bind, Except.bind, pure, Except.pure, Frame.push, Branches.toList]
          by_cases h4 : n.ty = .LPAREN
          · rw [show loop ⟨.target role, cur, ps⟩ (n :: ts2)
                  = loop ⟨.opened, Frame.empty, (cur, role) :: ps⟩ ts2 by
                  simp [loop, step, stepTarget, isAtomTok_eq, h3, h4]]
            rw [ihN n ts2 _ h4 (by omega)]
            simp only [h3, h4, if_true, if_false]
            cases hB : parseNode c f (n :: ts2) with
            | error e => simp [bind, Except.bind]
            | ok y =>
              obtain ⟨node, ts3⟩ := y
              have l2 := parseNode_length' hB
              simp only [List.length_cons] at l2
              simp only [bind, Except.bind, resume_cons]
              rw [ihE ts3 _ ps (by omega)]
              cases hC : parseEdges c f ts3 with
              | error e => simp [bind, Except.bind]
              | ok z => simp [bind, Except.bind, pure, Except.pure, Frame.push, Branches.toList]
          by_cases h5 : n.ty = .ROLE ∨ n.ty = .RPAREN
          · rw [loop_congr_step ⟨.target role, cur, ps⟩ ⟨.edges, cur.push (role, .atom .none), ps⟩ n ts2 (by
                  have h5' : (n.ty = .ROLE || n.ty = .RPAREN) = true := by simpa using h5
                  simp [step, stepTarget, isAtomTok_eq, h3, h4, h5'])]
            rw [ihE (n :: ts2) _ ps (by simp only [List.length_cons]; omega)]
            simp only [h3, h4, h5, if_true, if_false]
            cases hC : parseEdges c f (n :: ts2) with
            | error e => simp [bind, Except.bind]
            | ok z => simp [bind, Except.bind, pure, Except.pure, Frame.push, Branches.toList]
          · have h5' : (n.ty = .ROLE || n.ty = .RPAREN) = false := by simpa using h5
            simp [loop, step, stepTarget, isAtomTok_eq, h3, h4, h5, h5', Outcome.toExcept, throw, throwThe,
              MonadExceptOf.throw]
    · simp [loop, step, stepEdges, h1, h2, Outcome.toExcept, bind, Except.bind]

theorem nodeSim_succ (c : PCtx) (f : Nat) (ihE : EdgesSim c f) : NodeSim c (f+1) := by
  intro t0 toks ps h0 hlen
  simp only [parseNode, expectTy, h0, if_true, bind, Except.bind]
  cases toks with
  | nil => simp [loop, Outcome.toExcept, throw, throwThe, MonadExceptOf.throw]
  | cons t ts1 =>
    simp only [List.length_cons] at hlen
    simp only
    by_cases hr : t.ty = .RPAREN
    · rw [loop_of_close _ Frame.empty ps t ts1 (by simp [step, hr])]
      simp [hr, pure, Except.pure, Frame.node, Frame.empty, Branches.ofList]
    by_cases hs : t.ty = .SYMBOL
    · rw [show loop ⟨.opened, Frame.empty, ps⟩ (t :: ts1) = loop ⟨.afterVar, ⟨some t.text, []⟩, ps⟩ ts1 by
            simp [loop, step, hr, hs, Frame.empty]]
      simp only [hr, hs, if_true, if_false]
      cases ts1 with
      | nil => simp [loop, Outcome.toExcept, throw, throwThe, MonadExceptOf.throw]
      | cons s ts3 =>
        simp only [List.length_cons] at hlen
        simp only
        by_cases hsl : s.ty = .SLASH
        · rw [show loop ⟨.afterVar, ⟨some t.text, []⟩, ps⟩ (s :: ts3) = loop ⟨.afterSlash, ⟨some t.text, []⟩, ps⟩ ts3 by
                simp [loop, step, hsl]]
          simp only [hsl, if_true]
          cases ts3 with
          | nil => simp [loop, Outcome.toExcept, throw, throwThe, MonadExceptOf.throw]
          | cons k ts4 =>
            simp only [List.length_cons] at hlen
            simp only
            by_cases hk : isSymOrStr k = true
            · rw [show loop ⟨.afterSlash, ⟨some t.text, []⟩, ps⟩ (k :: ts4)
                    = loop ⟨.afterConcept k.text, ⟨some t.text, []⟩, ps⟩ ts4 by
                    simp [loop, step, isAtomTok_eq, hk]]
              rw [loop_afterConcept]
              simp only [hk, if_true]
              cases hB : takeAln c k.text ts4 with
              | error e => simp [bind, Except.bind]
              | ok y =>
                obtain ⟨concept, ts5⟩ := y
                have l2 := takeAln_length hB
                simp only [bind, Except.bind]
                rw [ihE ts5 _ ps (by omega)]
                cases hC : parseEdges c f ts5 with
                | error e => simp [bind, Except.bind]
                | ok z =>
                  simp [bind, Except.bind, pure, Except.pure, Frame.push, Branches.ofList,
                    Branches.ofList_toList]
            · rw [loop_congr_step ⟨.afterSlash, ⟨some t.text, []⟩, ps⟩
                    ⟨.edges, Frame.push ⟨some t.text, []⟩ (['/'], .atom .none), ps⟩ k ts4 (by
                    simp [step, isAtomTok_eq, hk])]
              rw [ihE (k :: ts4) _ ps (by simp only [List.length_cons]; omega)]
              simp only [hk, if_false]
              cases hC : parseEdges c f (k :: ts4) with
              | error e => simp [bind, Except.bind]
              | ok z =>
                simp [bind, Except.bind, pure, Except.pure, Frame.push, Branches.ofList,
                  Branches.ofList_toList]
        · rw [loop_congr_step ⟨.afterVar, ⟨some t.text, []⟩, ps⟩ ⟨.edges, ⟨some t.text, []⟩, ps⟩ s ts3 (by
                simp [step, hsl])]
          rw [ihE (s :: ts3) _ ps (by simp only [List.length_cons]; omega)]
          simp only [hsl, if_false]
          cases hC : parseEdges c f (s :: ts3) with
          | error e => simp [bind, Except.bind]
          | ok z => simp [bind, Except.bind, pure, Except.pure, Branches.ofList_toList]
    · simp [loop, step, hr, hs, Outcome.toExcept, tokErr]

theorem sim_zero (c : PCtx) : NodeSim c 0 ∧ EdgesSim c 0 :=
  ⟨fun _ _ _ _ h => absurd h (by omega), fun _ _ _ h => absurd h (by omega)⟩

theorem sim_all (c : PCtx) : ∀ f, NodeSim c f ∧ EdgesSim c f
  | 0 => sim_zero c
  | f+1 => ⟨nodeSim_succ c f (sim_all c f).2, edgesSim_succ c f (sim_all c f).1 (sim_all c f).2⟩

/-- `parseNode` with enough fuel is the automaton started in state `start false` -/
theorem parseNode_eq_loop (c : PCtx) (f : Nat) (toks : List Tok) (hf : toks.length < f) :
    parseNode c f toks = (run false toks).toExcept c := by
  cases toks with
  | nil =>
    cases f with
    | zero => simp at hf
    | succ f => simp [parseNode, expectTy, run, loop, Outcome.toExcept, bind, Except.bind]
  | cons t0 ts =>
    by_cases h0 : t0.ty = .LPAREN
    · have := (sim_all c f).1 t0 ts [] h0 (by simpa using hf)
      rw [show run false (t0 :: ts) = loop ⟨.opened, Frame.empty, []⟩ ts by simp [run, loop, init, step, h0]]
      rw [this]
      cases parseNode c f (t0 :: ts) with
      | error e => simp [bind, Except.bind]
      | ok x => simp [bind, Except.bind, resume_nil, Outcome.toExcept]
    · cases f with
      | zero => simp at hf
      | succ f => simp [parseNode, expectTy, run, loop, init, step, h0, Outcome.toExcept, bind, Except.bind]

/-! ### comments, `parseTree`, `parseToks` -/

/-- the metadata decoded from the leading COMMENT tokens, starting from `md` -/
def metaOf (isSpace : Char → Bool) (toks : List Tok) (md : AList Str Str) : AList Str Str :=
  (leadingComments toks).foldl (fun md t => commentMeta isSpace (t.text.length + 1) t.text md) md

/-- the tokens after the leading COMMENT tokens -/
def afterComments (toks : List Tok) : List Tok := toks.dropWhile (·.ty = .COMMENT)

theorem leadingComments_append_afterComments (toks : List Tok) :
    leadingComments toks ++ afterComments toks = toks := List.takeWhile_append_dropWhile

/-- `parseComments` consumes exactly the leading COMMENT tokens (and fails
    at end of input) -/
theorem parseComments_eq (c : PCtx) (isSpace : Char → Bool) (toks : List Tok) (md : AList Str Str) :
    parseComments c isSpace toks md =
      if afterComments toks = [] then .error c.eofErr
      else .ok (metaOf isSpace toks md, afterComments toks) := by
  induction toks generalizing md with
  | nil => simp [parseComments, afterComments]
  | cons t ts ih =>
    by_cases h : t.ty = .COMMENT
    · simp only [parseComments, h, if_true, ih]
      simp only [afterComments, metaOf, leadingComments, h, List.dropWhile_cons, List.takeWhile_cons,
        decide_true, if_true, List.foldl_cons]
      split <;> rename_i h' <;> simp [h']
    · simp [parseComments, afterComments, metaOf, leadingComments, h]

theorem run_true_eq (toks : List Tok) : run true toks = run false (afterComments toks) := by
  induction toks with
  | nil => rfl
  | cons t ts ih =>
    by_cases h : t.ty = .COMMENT
    · have : run true (t :: ts) = run true ts := by simp [run, loop, init, step, h]
      rw [this, ih]; simp [afterComments, h]
    · simp [afterComments, h, run, loop, init, step]

theorem afterComments_length (toks : List Tok) : (afterComments toks).length ≤ toks.length := by
  have := congrArg List.length (leadingComments_append_afterComments toks)
  simp at this; omega

/-- `parseTree` against the automaton -/
theorem parseTree_eq (c : PCtx) (isSpace : Char → Bool) (toks : List Tok) :
    parseTree c isSpace toks =
      ((run true toks).toExcept c).map (fun x => (⟨x.1, metaOf isSpace toks []⟩, x.2)) := by
  simp only [parseTree, parseComments_eq, run_true_eq]
  by_cases h : afterComments toks = []
  · simp [h, run, loop, Outcome.toExcept, bind, Except.bind, Except.map]
  · simp only [h, if_false, bind, Except.bind]
    rw [parseNode_eq_loop c _ _ (Nat.lt_succ_self _)]
    cases (run false (afterComments toks)).toExcept c <;> simp [Except.map, pure, Except.pure]

/-- `parse` (on tokens) against the automaton -/
theorem parseToks_eq (isSpace : Char → Bool) (toks : List Tok) :
    parseToks isSpace toks =
      ((run true toks).report toks).map (fun x => ⟨x.1, metaOf isSpace toks []⟩) := by
  simp only [parseToks, parseTree_eq, report_eq_toExcept]
  cases (run true toks).toExcept ⟨eofPos toks⟩ <;> simp [Except.map]

theorem toExcept_not_other (c : PCtx) (o : Outcome) (s : String) : o.toExcept c ≠ .error (.other s) := by
  cases o <;> simp [Outcome.toExcept, tokErr, PCtx.eofErr]

theorem toExcept_ok_or_decode (c : PCtx) (o : Outcome) :
    (∃ x, o.toExcept c = .ok x) ∨ (∃ l k n, o.toExcept c = .error (.decode l k n)) := by
  cases o <;> simp [Outcome.toExcept, tokErr, PCtx.eofErr]

/-! ### `iterparse` -/

def Spec.Automaton.Stop.toErr (c : PCtx) : Stop → Option PyErr
  | .ended => none
  | .rejectAt t => some (tokErr t)
  | .exhausted => some c.eofErr

theorem error?_eq_toErr (all : List Tok) (s : Stop) : s.error? all = s.toErr ⟨eofPos all⟩ := by
  cases s <;> simp [Stop.error?, Stop.toErr, tokErr, PCtx.eofErr, endPos_eq_eofPos]

theorem runAll_nil : runAll [] = ([], .ended) := by rw [runAll]

theorem runAll_cons_stop (t : Tok) (ts : List Tok) (h : ¬ (t.ty = .COMMENT ∨ t.ty = .LPAREN)) :
    runAll (t :: ts) = ([], .ended) := by
  rw [runAll]; simp at h; simp [h]

theorem runAll_cons (t : Tok) (ts : List Tok) (h : t.ty = .COMMENT ∨ t.ty = .LPAREN) :
    runAll (t :: ts) =
      match run true (t :: ts) with
      | .accept n rest => ((t :: ts, n) :: (runAll rest).1, (runAll rest).2)
      | .rejectAt u => ([], .rejectAt u)
      | .exhausted => ([], .exhausted) := by
  rw [runAll]
  have : (t.ty = .COMMENT || t.ty = .LPAREN) = true := by simpa using h
  simp only [this, if_true]
  split <;> simp_all

/-- the tree read from the token list `p.1` with node `p.2` -/
def mkTree (isSpace : Char → Bool) (p : List Tok × Node) : Tree := ⟨p.2, metaOf isSpace p.1 []⟩

theorem iterparseLoop_eq (c : PCtx) (isSpace : Char → Bool) (f : Nat) :
    ∀ (toks : List Tok) (acc : List Tree), toks.length < f →
      iterparseLoop c isSpace f toks acc =
        (acc.reverse ++ (runAll toks).1.map (mkTree isSpace), (runAll toks).2.toErr c) := by
  induction f with
  | zero => intro toks acc h; omega
  | succ f ih =>
    intro toks acc hlen
    cases toks with
    | nil => simp [iterparseLoop, runAll_nil, Stop.toErr]
    | cons t ts =>
      by_cases h : t.ty = .COMMENT ∨ t.ty = .LPAREN
      · simp only [iterparseLoop, h, if_true, parseTree_eq, runAll_cons t ts h]
        cases hr : run true (t :: ts) with
        | accept n rest =>
          have l := loop_accept_length _ _ _ _ hr
          simp only [List.length_cons] at l hlen
          simp only [Outcome.toExcept, Except.map]
          rw [ih rest _ (by omega)]
          simp [mkTree]
        | rejectAt u => simp [Outcome.toExcept, Except.map, Stop.toErr]
        | exhausted => simp [Outcome.toExcept, Except.map, Stop.toErr]
      · simp [iterparseLoop, h, runAll_cons_stop t ts h, Stop.toErr]

/-- `iterparse` (on tokens) against the automaton -/
theorem iterparseToks_eq (isSpace : Char → Bool) (toks : List Tok) :
    iterparseToks isSpace toks =
      ((runAll toks).1.map (mkTree isSpace), (runAll toks).2.error? toks) := by
  simp [iterparseToks, iterparseLoop_eq _ _ _ toks [] (Nat.lt_succ_self _), error?_eq_toErr]

/-! ### viable prefixes and the position of a failure -/

theorem loop_append_of_steps (cfg cfg' : Config) (pre ext : List Tok) (h : steps cfg pre = some cfg') :
    loop cfg (pre ++ ext) = loop cfg' ext := by
  induction pre generalizing cfg with
  | nil => simp [steps] at h; simp [h]
  | cons t ts ih =>
    simp only [steps] at h
    split at h
    · rename_i cfg1 hs
      simp only [List.cons_append, loop, hs]
      exact ih _ h
    · cases h

theorem loop_rejectAt (cfg : Config) (toks : List Tok) (t : Tok) (h : loop cfg toks = .rejectAt t) :
    ∃ pre post cfg', toks = pre ++ t :: post ∧ steps cfg pre = some cfg' ∧ step cfg' t = .reject := by
  induction toks generalizing cfg with
  | nil => simp [loop] at h
  | cons u us ih =>
    simp only [loop] at h
    split at h
    · rename_i cfg1 hs
      obtain ⟨pre, post, cfg', e, s, r⟩ := ih _ h
      exact ⟨u :: pre, post, cfg', by simp [e], by simp [steps, hs, s], r⟩
    · cases h
    · rename_i hs
      cases h
      exact ⟨[], us, cfg, rfl, rfl, hs⟩

theorem loop_exhausted (cfg : Config) (toks : List Tok) (h : loop cfg toks = .exhausted) :
    ∃ cfg', steps cfg toks = some cfg' := by
  induction toks generalizing cfg with
  | nil => exact ⟨cfg, rfl⟩
  | cons u us ih =>
    simp only [loop] at h
    split at h
    · rename_i cfg1 hs
      obtain ⟨cfg', s⟩ := ih _ h
      exact ⟨cfg', by simp [steps, hs, s]⟩
    · cases h
    · cases h

def rpTok : Tok := ⟨.RPAREN, [')'], 0, 0⟩
def lpTok : Tok := ⟨.LPAREN, ['('], 0, 0⟩

/-- from state `edges`, closing all open nodes leads to acceptance -/
theorem edges_completable (ps : List (Frame × Str)) :
    ∀ cur, ∃ n, loop ⟨.edges, cur, ps⟩ (List.replicate (ps.length + 1) rpTok) = .accept n [] := by
  induction ps with
  | nil => intro cur; exact ⟨cur.node, by simp [List.replicate, loop, step, stepEdges, rpTok, close]⟩
  | cons p ps ih =>
    intro cur
    obtain ⟨p, r⟩ := p
    obtain ⟨n, hn⟩ := ih (p.push (r, .node cur.node))
    refine ⟨n, ?_⟩
    rw [List.length_cons, List.replicate_succ]
    simp only [loop, step, stepEdges, rpTok, close, if_true]
    exact hn

/-- in every state after the opening `(`, a `)` is accepted and closes the current node -/
theorem step_rp_close (st : State) (cur : Frame) (ps : List (Frame × Str)) (h : ∀ cm, st ≠ .start cm) :
    ∃ cur', step ⟨st, cur, ps⟩ rpTok = step ⟨.edges, cur', ps⟩ rpTok := by
  cases st with
  | start cm => exact absurd rfl (h cm)
  | opened => exact ⟨cur, by simp [step, stepEdges, rpTok]⟩
  | afterVar => exact ⟨cur, by simp [step, stepEdges, rpTok]⟩
  | afterSlash => exact ⟨_, by simp [step, isAtomTok, rpTok]; rfl⟩
  | afterConcept c => exact ⟨_, by simp [step, stepAtom, rpTok]; rfl⟩
  | edges => exact ⟨cur, rfl⟩
  | afterRole r => exact ⟨_, by simp [step, stepTarget, isAtomTok, rpTok]; rfl⟩
  | target r => exact ⟨_, by simp [step, stepTarget, isAtomTok, rpTok]; rfl⟩
  | afterAtom r a => exact ⟨_, by simp [step, stepAtom, rpTok]; rfl⟩

/-- every configuration can be completed to an accepted input -/
theorem completable (cfg : Config) : ∃ ext n, loop cfg ext = .accept n [] := by
  obtain ⟨st, cur, ps⟩ := cfg
  rcases Classical.em (∃ cm, st = .start cm) with h | h
  rotate_left
  · obtain ⟨cur', hc⟩ := step_rp_close st cur ps (fun cm e => h ⟨cm, e⟩)
    obtain ⟨n, hn⟩ := edges_completable ps cur'
    refine ⟨List.replicate (ps.length + 1) rpTok, n, ?_⟩
    rw [List.replicate_succ] at hn ⊢
    rw [loop_congr_step _ _ _ _ hc]; exact hn
  · obtain ⟨cm, rfl⟩ := h
    obtain ⟨n, hn⟩ := edges_completable ps cur
    refine ⟨lpTok :: List.replicate (ps.length + 1) rpTok, n, ?_⟩
    rw [List.replicate_succ] at hn ⊢
    rw [show loop ⟨.start cm, cur, ps⟩ (lpTok :: rpTok :: List.replicate ps.length rpTok)
          = loop ⟨.opened, cur, ps⟩ (rpTok :: List.replicate ps.length rpTok) by simp [loop, step, lpTok]]
    rw [loop_congr_step ⟨.opened, cur, ps⟩ ⟨.edges, cur, ps⟩ _ _ (by simp [step, stepEdges, rpTok])]
    exact hn

theorem viable_of_steps (cm : Bool) (pre : List Tok) (cfg : Config) (h : steps (init cm) pre = some cfg) :
    Viable cm pre := by
  obtain ⟨ext, n, hn⟩ := completable cfg
  exact ⟨ext, n, [], by rw [run, loop_append_of_steps _ _ _ _ h, hn]⟩

theorem not_viable_of_reject (cm : Bool) (pre : List Tok) (t : Tok) (cfg : Config)
    (h : steps (init cm) pre = some cfg) (hr : step cfg t = .reject) : ¬ Viable cm (pre ++ [t]) := by
  rintro ⟨ext, n, rest, ha⟩
  rw [run, List.append_assoc, loop_append_of_steps _ _ _ _ h] at ha
  simp [loop, hr] at ha

/-- the automaton rejects at `t` : `t` is in the input, what precedes it is a
    viable prefix, and with `t` it is not -/
theorem run_rejectAt (cm : Bool) (toks : List Tok) (t : Tok) (h : run cm toks = .rejectAt t) :
    ∃ pre post, toks = pre ++ t :: post ∧ Viable cm pre ∧ ¬ Viable cm (pre ++ [t]) := by
  obtain ⟨pre, post, cfg, e, s, r⟩ := loop_rejectAt _ _ _ h
  exact ⟨pre, post, e, viable_of_steps cm pre cfg s, not_viable_of_reject cm pre t cfg s r⟩

/-- the automaton runs out of input: all of it is a viable prefix -/
theorem run_exhausted (cm : Bool) (toks : List Tok) (h : run cm toks = .exhausted) : Viable cm toks := by
  obtain ⟨cfg, s⟩ := loop_exhausted _ _ h
  exact viable_of_steps cm toks cfg s

/-! ### comments in front of a graph -/

theorem leadingComments_append (cs : List Tok) (m : Tok) (ms : List Tok)
    (hcs : ∀ x ∈ cs, x.ty = .COMMENT) (hm : m.ty ≠ .COMMENT) :
    leadingComments (cs ++ m :: ms) = cs ∧ afterComments (cs ++ m :: ms) = m :: ms := by
  induction cs with
  | nil => simp [leadingComments, afterComments, hm]
  | cons c cs ih =>
    have hc := hcs c (by simp)
    have ih := ih (fun x hx => hcs x (by simp [hx]))
    simp only [leadingComments, afterComments] at ih ⊢
    simp [hc, ih]

theorem metaOf_append (isSpace : Char → Bool) (cs : List Tok) (m : Tok) (ms : List Tok)
    (hcs : ∀ x ∈ cs, x.ty = .COMMENT) (hm : m.ty ≠ .COMMENT) (md : AList Str Str) :
    metaOf isSpace (cs ++ m :: ms) md
      = cs.foldl (fun md t => commentMeta isSpace (t.text.length + 1) t.text md) md := by
  simp [metaOf, (leadingComments_append cs m ms hcs hm).1]

end Penman

/-
  Penman.Proofs.Layout2 — C02, decode side: what `WfLayout` gives per branch,
  a closed form (`spNode`) of what `interpretNode` returns, and the closed form
  (`dNode`) of the datum list `preconfigure` makes of it.
-/
import Penman.Proofs.Layout1
import Penman.Proofs.Role
namespace Penman
namespace C02

variable (isAlpha : Char → Bool) (m : Model)

/-! ### what the marker readers return -/

theorem processRole_epis {role c : Str} {es : List Epi} (h : processRole isAlpha role = .ok (c, es)) :
    es = [] ∨ ∃ p i, es = [.roleAln p i] := by
  unfold processRole at h
  split at h
  · simp only [Except.ok.injEq, Prod.mk.injEq] at h; exact Or.inl h.2.symm
  · dsimp only at h
    split at h
    · cases ha : alnFromString isAlpha (partitionStr ['~'] role).2.2 with
      | error e => simp [ha, bind, Except.bind] at h
      | ok r =>
        obtain ⟨p, i⟩ := r
        simp only [ha, bind, Except.bind, pure, Except.pure, Except.ok.injEq, Prod.mk.injEq] at h
        exact Or.inr ⟨p, i, h.2.symm⟩
    · simp only [Except.ok.injEq, Prod.mk.injEq] at h; exact Or.inl h.2.symm

theorem processAtomic_epis {a t : Atom} {es : List Epi} (h : processAtomic isAlpha a = .ok (t, es)) :
    (es = [] ∧ t = a) ∨ ∃ p i c, es = [.aln p i] ∧ t = .str c := by
  unfold processAtomic at h
  split at h
  · simp only [Except.ok.injEq, Prod.mk.injEq] at h; exact Or.inl ⟨h.2.symm, h.1.symm⟩
  · cases h
  · rename_i s
    split at h
    · simp only [Except.ok.injEq, Prod.mk.injEq] at h; exact Or.inl ⟨h.2.symm, h.1.symm⟩
    · split at h
      · dsimp only at h
        split at h
        · cases ha : alnFromString isAlpha (s.drop (afterLastQuote s)) with
          | error e => simp [ha, bind, Except.bind] at h
          | ok r =>
            obtain ⟨p, i⟩ := r
            simp only [ha, bind, Except.bind, pure, Except.pure, Except.ok.injEq, Prod.mk.injEq] at h
            exact Or.inr ⟨p, i, _, h.2.symm, h.1.symm⟩
        · simp only [Except.ok.injEq, Prod.mk.injEq] at h; exact Or.inl ⟨h.2.symm, h.1.symm⟩
      · dsimp only at h
        cases ha : alnFromString isAlpha (partitionStr ['~'] s).2.2 with
        | error e => simp [ha, bind, Except.bind] at h
        | ok r =>
          obtain ⟨p, i⟩ := r
          simp only [ha, bind, Except.bind, pure, Except.pure, Except.ok.injEq, Prod.mk.injEq] at h
          exact Or.inr ⟨p, i, _, h.2.symm, h.1.symm⟩

/-! ### per-branch facts -/

structure RoleFacts (role : Str) : Prop where
  proc : processRole isAlpha role = .ok (roleCore isAlpha role, roleEpis isAlpha role)
  colon : startsWith [':'] (roleCore isAlpha role) = true
  notInst : roleCore isAlpha role ≠ CONCEPT_ROLE
  invNotInst : m.invertRole (roleCore isAlpha role) ≠ CONCEPT_ROLE
  canon : m.isRoleInverted (roleCore isAlpha role) = true →
    m.invertRole (m.invertRole (roleCore isAlpha role)) = roleCore isAlpha role
  text : roleCore isAlpha role ++ episText (roleEpis isAlpha role) = role
  epis : roleEpis isAlpha role = [] ∨ ∃ p i, roleEpis isAlpha role = [.roleAln p i]

theorem roleFacts {role : Str} (h : roleOk isAlpha m role = true) : RoleFacts isAlpha m role := by
  unfold roleOk at h
  cases hp : processRole isAlpha role with
  | error e => simp [hp] at h
  | ok r =>
    obtain ⟨c, es⟩ := r
    have hc : roleCore isAlpha role = c := by simp [roleCore, hp]
    have he : roleEpis isAlpha role = es := by simp [roleEpis, hp]
    simp only [hp, Bool.and_eq_true, decide_eq_true_eq, Bool.or_eq_true, Bool.not_eq_true'] at h
    obtain ⟨⟨⟨⟨h1, h2⟩, h3⟩, h4⟩, h5⟩ := h
    have h4 : m.isRoleInverted c = true → m.invertRole (m.invertRole c) = c := by
      intro hi; rcases h4 with h4 | h4
      · rw [hi] at h4; cases h4
      · exact h4
    exact ⟨by rw [hc, he]; exact hp, by rw [hc]; exact h1, by rw [hc]; exact h2, by rw [hc]; exact h3,
      by rw [hc]; exact h4, by rw [hc, he]; exact h5, by rw [he]; exact processRole_epis isAlpha hp⟩

theorem slash_proc : processRole isAlpha ['/'] = .ok (CONCEPT_ROLE, []) := by
  simp [processRole]

theorem slash_core : roleCore isAlpha ['/'] = CONCEPT_ROLE := by simp [roleCore, slash_proc]
theorem slash_epis : roleEpis isAlpha ['/'] = [] := by simp [roleEpis, slash_proc]

theorem roleOk_ne_slash {role : Str} (h : roleOk isAlpha m role = true) : role ≠ ['/'] := by
  rintro rfl
  exact (roleFacts isAlpha m h).notInst (slash_core isAlpha)

structure AtomFacts (a : Atom) : Prop where
  proc : processAtomic isAlpha a = .ok (atomCore isAlpha a, atomEpis isAlpha a)
  core : atomCore isAlpha a = .none ∨ ∃ c, atomCore isAlpha a = .str c ∧ c ≠ []
  text : (atomEpis isAlpha a = [] ∧ atomCore isAlpha a = a) ∨
    ∃ p i c, atomEpis isAlpha a = [.aln p i] ∧ atomCore isAlpha a = .str c ∧ a = .str (c ++ alnToString p i)

theorem atomFacts {a : Atom} (h : atomOk isAlpha a = true) : AtomFacts isAlpha a := by
  unfold atomOk at h
  cases hp : processAtomic isAlpha a with
  | error e => simp [hp] at h
  | ok r =>
    obtain ⟨t, es⟩ := r
    have hc : atomCore isAlpha a = t := by simp [atomCore, hp]
    have he : atomEpis isAlpha a = es := by simp [atomEpis, hp]
    simp only [hp, Bool.and_eq_true] at h
    obtain ⟨h1, h2⟩ := h
    refine ⟨by rw [hc, he]; exact hp, ?_, ?_⟩
    · rw [hc]
      cases t with
      | none => exact Or.inl rfl
      | str c => refine Or.inr ⟨c, rfl, ?_⟩; rintro rfl; simp at h1
      | num c => simp at h1
    · rw [hc, he]
      rcases processAtomic_epis isAlpha hp with ⟨rfl, rfl⟩ | ⟨p, i, c, rfl, rfl⟩
      · exact Or.inl ⟨rfl, rfl⟩
      · refine Or.inr ⟨p, i, c, rfl, rfl, ?_⟩
        simp only [decide_eq_true_eq] at h2
        simpa [episText, Epi.toStr, atomStr] using h2

/-- role text conditions: either the concept slot `/`, or a well-formed role -/
def RoleSlot (var : Str) (role : Str) (a : Atom) : Prop :=
  role = ['/'] ∨ (roleOk isAlpha m role = true ∧
    ¬ (deinverts m (roleCore isAlpha role) = true ∧ atomCore isAlpha a = .str var))

/-- no `/` branch -/
def NoSlash : Branches → Prop
  | .nil => True
  | .atom role _ rest => role ≠ ['/'] ∧ NoSlash rest
  | .sub role _ rest => role ≠ ['/'] ∧ NoSlash rest

def Branches.tl : Branches → Branches
  | .nil => .nil
  | .atom _ _ rest => rest
  | .sub _ _ rest => rest

mutual
/-- the local (per-node, per-branch) content of `wfNodeB`, in uniform shape -/
def LNode : Node → Prop
  | .mk v bs => ∃ var, v = some var ∧ LB var bs ∧ NoSlash (Branches.tl bs)
def LB (var : Str) : Branches → Prop
  | .nil => True
  | .atom role a rest => RoleSlot isAlpha m var role a ∧ atomOk isAlpha a = true ∧ LB var rest
  | .sub role n rest => roleOk isAlpha m role = true ∧ LNode n ∧ LB var rest
end

mutual
theorem wfNode_L : ∀ (n : Node), wfNodeB isAlpha m n = true → LNode isAlpha m n
  | .mk v bs => by
    intro h
    cases v with
    | none => simp [wfNodeB] at h
    | some var =>
      cases bs with
      | nil => exact ⟨var, rfl, by simp [LB], by simp [Branches.tl, NoSlash]⟩
      | atom role a rest =>
        by_cases hr : role = ['/']
        · simp only [wfNodeB, hr, if_true, Bool.and_eq_true] at h
          obtain ⟨hb, hns⟩ := wfBranches_L var rest h.2
          exact ⟨var, rfl, ⟨Or.inl hr, h.1, hb⟩, hns⟩
        · simp only [wfNodeB, hr, if_false] at h
          obtain ⟨hb, hns⟩ := wfBranches_L var (.atom role a rest) h
          exact ⟨var, rfl, hb, hns.2⟩
      | sub role n rest =>
        simp only [wfNodeB] at h
        obtain ⟨hb, hns⟩ := wfBranches_L var (.sub role n rest) h
        exact ⟨var, rfl, hb, hns.2⟩
theorem wfBranches_L (var : Str) : ∀ (bs : Branches), wfBranchesB isAlpha m var bs = true →
    LB isAlpha m var bs ∧ NoSlash bs
  | .nil => by intro _; simp [LB, NoSlash]
  | .atom role a rest => by
    intro h
    simp only [wfBranchesB, Bool.and_eq_true, Bool.not_eq_true', Bool.and_eq_false_iff,
      decide_eq_false_iff_not] at h
    obtain ⟨⟨⟨h1, h2⟩, h3⟩, h4⟩ := h
    obtain ⟨hb, hns⟩ := wfBranches_L var rest h4
    refine ⟨⟨Or.inr ⟨h1, ?_⟩, h2, hb⟩, roleOk_ne_slash isAlpha m h1, hns⟩
    rintro ⟨hd, ha⟩
    rcases h3 with h3 | h3
    · simp [hd] at h3
    · exact h3 ha
  | .sub role n rest => by
    intro h
    simp only [wfBranchesB, Bool.and_eq_true] at h
    obtain ⟨⟨h1, h2⟩, h3⟩ := h
    obtain ⟨hb, hns⟩ := wfBranches_L var rest h3
    exact ⟨⟨h1, wfNode_L n h2, hb⟩, roleOk_ne_slash isAlpha m h1, hns⟩
end

/-! ### closed form of `interpretNode` -/

theorem deinvert_eq (t : Triple) : m.deinvert t = if deinverts m t.role then m.invert t else t := by
  unfold Model.deinvert deinverts
  cases m.noop <;> simp

/-- the triple an atomic branch denotes -/
def brTriple (vars : List Str) (var core : Str) (tgt : Atom) : Triple :=
  if deinverts m core && atomInVars vars tgt then m.invert ⟨var, core, tgt⟩ else ⟨var, core, tgt⟩

/-- the triple a branch to a nested node denotes -/
def subTriple (var core nv : Str) : Triple :=
  if deinverts m core then ⟨nv, m.invertRole core, .str var⟩ else ⟨var, core, .str nv⟩

def hasConceptB : Branches → Bool
  | .nil => false
  | .atom role _ rest => hasConceptB rest || decide (roleCore isAlpha role = CONCEPT_ROLE)
  | .sub role _ rest => hasConceptB rest || decide (roleCore isAlpha role = CONCEPT_ROLE)

def instEntry (var : Str) (bs : Branches) : List (Triple × List Epi) :=
  if hasConceptB isAlpha bs then [] else [(⟨var, CONCEPT_ROLE, .none⟩, [])]

mutual
/-- the `epidata` list `_interpret_node` returns for a node (no closing POP) -/
def spNode (vars : List Str) : Node → List (Triple × List Epi)
  | .mk v bs => instEntry isAlpha (v.getD []) bs ++ spBranches vars (v.getD []) bs
def spBranches (vars : List Str) (var : Str) : Branches → List (Triple × List Epi)
  | .nil => []
  | .atom role a rest =>
    (brTriple m vars var (roleCore isAlpha role) (atomCore isAlpha a), roleEpis isAlpha role ++ atomEpis isAlpha a)
      :: spBranches vars var rest
  | .sub role n rest =>
    (subTriple m var (roleCore isAlpha role) (n.var.getD []), roleEpis isAlpha role ++ [.push (n.var.getD [])])
      :: (appendPopLast (spNode vars n) ++ spBranches vars var rest)
end

theorem spNode_ne_nil (vars : List Str) (n : Node) : spNode isAlpha m vars n ≠ [] := by
  obtain ⟨v, bs⟩ := n
  cases bs with
  | nil => simp [spNode, instEntry, hasConceptB]
  | atom role a rest => simp [spNode, spBranches]
  | sub role n rest => simp [spNode, spBranches]

theorem roleCore_proc {role : Str} {x : Str × List Epi} (h : processRole isAlpha role = .ok x) :
    x = (roleCore isAlpha role, roleEpis isAlpha role) := by
  simp [roleCore, roleEpis, h]

theorem slot_proc {var role : Str} {a : Atom} (h : RoleSlot isAlpha m var role a) :
    processRole isAlpha role = .ok (roleCore isAlpha role, roleEpis isAlpha role) := by
  rcases h with rfl | ⟨h, _⟩
  · rw [slash_proc, slash_core, slash_epis]
  · exact (roleFacts isAlpha m h).proc

mutual
theorem interp_node (vars : List Str) : ∀ (n : Node), LNode isAlpha m n →
    interpretNode isAlpha m vars n = .ok ((spNode isAlpha m vars n).map (·.1), spNode isAlpha m vars n)
  | .mk v bs => by
    intro h
    obtain ⟨var, rfl, hb, _⟩ := h
    have := interp_branches vars var bs hb
    simp only [interpretNode, this, bind, Except.bind, spNode, Option.getD_some, instEntry]
    cases hasConceptB isAlpha bs <;> simp [pure, Except.pure]
theorem interp_branches (vars : List Str) (var : Str) : ∀ (bs : Branches), LB isAlpha m var bs →
    interpretBranches isAlpha m vars var bs =
      .ok ⟨hasConceptB isAlpha bs, (spBranches isAlpha m vars var bs).map (·.1), spBranches isAlpha m vars var bs⟩
  | .nil => by intro _; simp [interpretBranches, hasConceptB, spBranches]
  | .atom role a rest => by
    intro h
    obtain ⟨hs, ha, hb⟩ := h
    have h1 := slot_proc isAlpha m hs
    have h2 := (atomFacts isAlpha ha).proc
    have h3 := interp_branches vars var rest hb
    simp only [interpretBranches, h1, h2, h3, bind, Except.bind, pure, Except.pure, hasConceptB, spBranches,
      List.map_cons, brTriple, deinvert_eq]
    congr 1
    by_cases hd : deinverts m (roleCore isAlpha role) = true
    · have : m.isRoleInverted (roleCore isAlpha role) = true := by
        unfold deinverts at hd; simp at hd; exact hd.2
      simp [hd, this]
    · have hd' : deinverts m (roleCore isAlpha role) = false := by simpa using hd
      simp only [hd', Bool.false_and, Bool.false_eq_true, if_false]
      split <;> simp
  | .sub role n rest => by
    intro h
    obtain ⟨hr, hn, hb⟩ := h
    have h1 := (roleFacts isAlpha m hr).proc
    have h2 := interp_node vars n hn
    have h3 := interp_branches vars var rest hb
    obtain ⟨nvo, nbs⟩ := n
    obtain ⟨nv, rfl, _, _⟩ := hn
    simp only [interpretBranches, h1, h2, h3, bind, Except.bind, pure, Except.pure, hasConceptB, spBranches,
      List.map_cons, Node.var, Option.getD_some, deinvert_eq, subTriple, List.map_append,
      appendPopLast_map_fst, Model.invert]
    congr 1
end

end C02
end Penman

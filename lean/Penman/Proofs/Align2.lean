/-
  Penman.Proofs.Align2 — text facts: a role / target text followed by the printed
  form of a marker is split again into the text and the marker.
-/
import Penman.Proofs.Configure17
import Penman.Proofs.Align1
set_option linter.unusedSimpArgs false
namespace Penman
namespace Cfg
namespace Al
open Penman.Spec.Reading

theorem alnToString_eq (p : Option Str) (i : List Nat) : alnToString p i = '~' :: alnBody p i := rfl

theorem alnFromString_tilde (isAlpha : Char → Bool) (b : Str) :
    alnFromString isAlpha ('~' :: b) = alnFromString isAlpha b := by
  unfold alnFromString
  have : lstripChar '~' ('~' :: b) = lstripChar '~' b := by simp [lstripChar, List.dropWhile]
  rw [this]

theorem beforeTilde_append {r b : Str} (h : '~' ∉ r) : beforeTilde (r ++ '~' :: b) = r := by
  unfold beforeTilde
  rw [List.takeWhile_append_of_pos]
  · simp
  · intro x hx
    simp only [ne_eq, decide_not, Bool.not_eq_eq_eq_not, Bool.not_true, decide_eq_false_iff_not]
    rintro rfl; exact h hx

theorem afterTilde_append {r b : Str} (h : '~' ∉ r) : afterTilde (r ++ '~' :: b) = b := by
  unfold afterTilde
  rw [List.dropWhile_append_of_pos]
  · simp
  · intro x hx
    simp only [ne_eq, decide_not, Bool.not_eq_eq_eq_not, Bool.not_true, decide_eq_false_iff_not]
    rintro rfl; exact h hx

theorem roleName_append {r b : Str} (h : '~' ∉ r) : roleName (r ++ '~' :: b) = r := by
  unfold roleName
  have : r ++ '~' :: b ≠ ['/'] := by
    intro e
    have : '~' ∈ r ++ '~' :: b := by simp
    rw [e] at this; simp at this
  rw [if_neg this, beforeTilde_append h]

theorem roleAlnText_append {r b : Str} (h : '~' ∉ r) : roleAlnText (r ++ '~' :: b) = some b := by
  unfold roleAlnText
  have : r ++ '~' :: b ≠ ['/'] := by
    intro e
    have : '~' ∈ r ++ '~' :: b := by simp
    rw [e] at this; simp at this
  rw [if_neg this, if_pos (by simp), afterTilde_append h]

/-- a target text followed by `~body`: the text, and an alignment text that parses like `body` -/
theorem splitTarget_append (isAlpha : Char → Bool) {s b : Str} (hs : TextOKal s) (hb : '"' ∉ b) :
    ∃ b', splitTarget (s ++ '~' :: b) = (s, some b') ∧ alnFromString isAlpha b' = alnFromString isAlpha b := by
  unfold splitTarget
  rw [if_pos (by simp)]
  rcases hs with ⟨h1, h2⟩ | ⟨h1, h2⟩
  · have hh : (s ++ '~' :: b).head? ≠ some '"' := by
      cases s with
      | nil => simp
      | cons c cs => simpa using h1
    rw [if_neg hh, beforeTilde_append h2, afterTilde_append h2]
    exact ⟨b, rfl, rfl⟩
  · have hh : (s ++ '~' :: b).head? = some '"' := by
      cases s with
      | nil => simp at h1
      | cons c cs => simpa using h1
    rw [if_pos hh]
    have hrev : (s ++ '~' :: b).reverse = (b.reverse ++ ['~']) ++ s.reverse := by simp
    have hall : ∀ x ∈ b.reverse ++ ['~'], (decide (x ≠ '"')) = true := by
      intro x hx
      simp only [List.mem_append, List.mem_reverse, List.mem_singleton] at hx
      simp only [ne_eq, decide_not, Bool.not_eq_eq_eq_not, Bool.not_true, decide_eq_false_iff_not]
      rcases hx with hx | rfl
      · rintro rfl; exact hb hx
      · decide
    have htw : s.reverse.takeWhile (fun x => decide (x ≠ '"')) = [] := by
      unfold afterLastQuoteText at h2
      simpa using h2
    have hdw : s.reverse.dropWhile (fun x => decide (x ≠ '"')) = s.reverse := by
      have := List.takeWhile_append_dropWhile (p := fun x => decide (x ≠ '"')) (l := s.reverse)
      rw [htw] at this; simpa using this
    have e1 : afterLastQuoteText (s ++ '~' :: b) = '~' :: b := by
      unfold afterLastQuoteText
      rw [hrev, List.takeWhile_append_of_pos hall, htw]; simp
    have e2 : throughLastQuote (s ++ '~' :: b) = s := by
      unfold throughLastQuote
      rw [hrev, List.dropWhile_append_of_pos hall, hdw]; simp
    rw [e1, e2, if_neg (by simp)]
    exact ⟨'~' :: b, rfl, alnFromString_tilde isAlpha b⟩

/-! ### `applyEpis` -/

def raStr (es : List Epi) : Str := (es.filter fun x => x.mode = 1).flatMap Epi.toStr
def taStr (es : List Epi) : Str := (es.filter fun x => x.mode = 2).flatMap Epi.toStr

theorem applyEpis_eq (role : Str) (t : Option Str) (es : List Epi) :
    applyEpis role t es = (role ++ raStr es, t.map (· ++ taStr es)) := by
  induction es generalizing role t with
  | nil => cases t <;> simp [applyEpis, raStr, taStr]
  | cons e es ih =>
    simp only [applyEpis]
    by_cases h1 : e.mode = 1
    · rw [if_pos h1, ih]
      have h2 : ¬ e.mode = 2 := by omega
      simp [raStr, taStr, h1, h2, List.filter_cons]
    · rw [if_neg h1]
      by_cases h2 : e.mode = 2
      · rw [if_pos h2]
        cases t with
        | none => simp only []; rw [ih]; simp [raStr, taStr, h1, h2, List.filter_cons]
        | some t0 => simp only []; rw [ih]; simp [raStr, taStr, h1, h2, List.filter_cons]
      · rw [if_neg h2, ih]
        simp [raStr, taStr, h1, h2, List.filter_cons]

theorem outRole_eq (e : Edge) : outRole e = e.role ++ raStr e.epis := by
  simp [outRole, applyEpis_eq]

theorem any_mode2_iff (es : List Epi) : es.any (fun x => decide (x.mode = 2)) = true ↔ (es.filter fun x => x.mode = 2) ≠ [] := by
  simp [List.filter_eq_nil_iff]

theorem outAtom_eq (e : Edge) (a : Atom) :
    outAtom e a = if (e.epis.filter fun x => x.mode = 2) = [] then a else .str (atomStr a ++ taStr e.epis) := by
  unfold outAtom
  by_cases h : (e.epis.filter fun x => x.mode = 2) = []
  · have : e.epis.any (fun x => decide (x.mode = 2)) = false := by
      cases hh : e.epis.any (fun x => decide (x.mode = 2)) with
      | false => rfl
      | true => exact absurd h ((any_mode2_iff _).1 hh)
    simp [this, h]
  · have : e.epis.any (fun x => decide (x.mode = 2)) = true := (any_mode2_iff _).2 h
    simp [this, h, applyEpis_eq]

end Al
end Cfg
end Penman

"""Line coverage of /repo/penman/*.py reached by the correspondence and oracle runs
(sys.monitoring, Python 3.12). Reported in the evidence so that a reader sees which
parts of the anchored functions the model/code comparison actually executed."""
import os
import sys

from common import REPO

_hits = set()
_on = False
PKG = os.path.join(REPO, 'penman') + os.sep


def _line(code, line):
    fn = code.co_filename
    if fn.startswith(PKG):
        _hits.add((fn, line))
    return sys.monitoring.DISABLE


def start():
    global _on
    if _on or not hasattr(sys, 'monitoring'):
        return
    mon = sys.monitoring
    try:
        mon.use_tool_id(mon.COVERAGE_ID, 'penman-verif')
    except ValueError:
        return
    mon.register_callback(mon.COVERAGE_ID, mon.events.LINE, _line)
    mon.set_events(mon.COVERAGE_ID, mon.events.LINE)
    _on = True


def _executable_lines(path):
    src = open(path, encoding='utf-8').read()
    top = compile(src, path, 'exec')
    lines = set()
    todo = [top]
    while todo:
        c = todo.pop()
        for _, _, ln in c.co_lines():
            if ln is not None and ln > 0:
                lines.add(ln)
        for k in c.co_consts:
            if hasattr(k, 'co_lines'):
                todo.append(k)
    # docstring-only and def/class header lines execute at import time; keep them (they are hit at import)
    return lines


def report(files=None):
    """{relative file: {'executable': n, 'covered': n, 'uncovered': [lines...]}}"""
    out = {}
    names = files or sorted(f for f in os.listdir(PKG) if f.endswith('.py'))
    for f in names:
        path = os.path.join(PKG, f)
        if not os.path.exists(path):
            continue
        ex = _executable_lines(path)
        hit = {ln for fn, ln in _hits if fn == path}
        # lines executed at import time (defs, constants) were run before monitoring started: count
        # only lines inside function bodies, i.e. drop module-level lines
        top = compile(open(path, encoding='utf-8').read(), path, 'exec')
        # module level and class bodies run at import time, before monitoring starts: keep only
        # lines that belong to function bodies (code objects with CO_OPTIMIZED)
        body, todo = set(), [top]
        while todo:
            c = todo.pop()
            if c.co_flags & 0x1:
                body |= {ln for _, _, ln in c.co_lines() if ln}
                body.discard(c.co_firstlineno)
            for k in c.co_consts:
                if hasattr(k, 'co_lines'):
                    todo.append(k)
        body &= ex
        cov = body & hit
        out['penman/' + f] = {'executable': len(body), 'covered': len(cov),
                              'uncovered': sorted(body - hit)[:80]}
    return out

/-
  Penman.Proofs.Transform.ReifyProps — what `reifyEdges` returns: triples,
  top, fresh variables, roles, marker lookups; and the static structure of the
  reified triple list needed by the inverse theorem.
-/
import Penman.Proofs.Transform.Dereify
set_option linter.unusedSimpArgs false
namespace Penman

/-! ### hypotheses on the input graph -/

theorem pushesIn_mem {vars : List Str} {epis : List Epi} (h : pushesIn vars epis = true)
    {p : Str} (hp : Epi.push p ∈ epis) : p ∈ vars := by
  unfold pushesIn at h
  rw [List.all_eq_true] at h
  simpa using h _ hp

theorem natToStr_digits (n : Nat) : (natToStr n).all isAsciiDigit = true := by
  rw [natToStr_eq, List.all_eq_true]
  intro c hc
  have := Nat.isDigit_of_mem_toDigits (b := 10) (by decide) (by decide) hc
  simp only [Char.isDigit, Bool.and_eq_true, decide_eq_true_eq] at this
  simp only [isAsciiDigit, Bool.and_eq_true, decide_eq_true_eq]
  exact ⟨Char.le_def.mpr (by simpa using this.1), Char.le_def.mpr (by simpa using this.2)⟩

theorem isGenName_freshVar (vars : List Str) : isGenName (freshVar vars) = true := by
  rcases freshVar_shape vars with ⟨h, _⟩ | ⟨_, n, _, _, h, _⟩
  · rw [h]; rfl
  · rw [h]; exact natToStr_digits n

theorem freshSafe_tgt {g : Graph} (hf : FreshSafe g) {t : Triple} (ht : t ∈ g.triples)
    (hr : t.role ≠ CONCEPT_ROLE) {x : Str} (hx : t.tgt = .str x) (hgen : isGenName x = true) :
    x ∈ g.variables := by
  have := hf t ht hr
  rw [hx] at this
  simpa [freshSafeTgt, hgen] using this

/-! ### events: roles -/

theorem evOk_reif {m : Model} {g : Graph} {t : Triple} {rf : Reif} {v : Str} {inv : Bool} (h : EvOk m g (.reif t rf v inv)) :
    t ∈ g.triples ∧ rf ∈ m.reifs ∧ rf.role = t.role ∧ m.isReifiable t.role = true :=
  ⟨h.1, List.mem_of_find?_eq_some h.2.1, by simpa using List.find?_some h.2.1,
    isReifiable_of_find? h.2.1⟩

theorem concept_colon : startsWith [':'] CONCEPT_ROLE = true := by decide

theorem ev_out_colon {m : Model} {g : Graph} (hm : ReifWf m) (hg : RolesColon g) {e : Ev}
    (he : EvOk m g e) : ∀ t1 ∈ e.out, startsWith [':'] t1.role = true := by
  cases e with
  | keep t =>
    intro t1 h1
    simp only [Ev.out, List.mem_singleton] at h1
    subst h1; exact hg _ he.1
  | reif t rf v inv =>
    have hrf := hm.1 rf (evOk_reif he).2.1
    intro t1 h1
    simp only [Ev.out, List.mem_cons, List.not_mem_nil, or_false] at h1
    rcases h1 with rfl | rfl | rfl
    · cases inv
      · exact hrf.1
      · exact hrf.2.1
    · exact concept_colon
    · cases inv
      · exact hrf.2.1
      · exact hrf.1

theorem ev_out_not_reifiable {m : Model} {g : Graph} (hm : ReifWf m) {e : Ev}
    (he : EvOk m g e) : ∀ t1 ∈ e.out, m.isReifiable t1.role = false := by
  cases e with
  | keep t =>
    intro t1 h1
    simp only [Ev.out, List.mem_singleton] at h1
    subst h1; exact he.2
  | reif t rf v inv =>
    have hrf := hm.1 rf (evOk_reif he).2.1
    intro t1 h1
    simp only [Ev.out, List.mem_cons, List.not_mem_nil, or_false] at h1
    rcases h1 with rfl | rfl | rfl
    · cases inv
      · exact hrf.2.2.2.2.2.1
      · exact hrf.2.2.2.2.2.2.1
    · exact hm.2
    · cases inv
      · exact hrf.2.2.2.2.2.2.1
      · exact hrf.2.2.2.2.2.1

/-! ### the result graph -/

/-- the graph `reifyEdges` builds from a final loop state -/
def reifyResult (g : Graph) (st : RState) : Graph :=
  Graph.mk' st.triples.reverse g.getTop st.epidata g.metadata

theorem reifyEdges_result (m : Model) (g : Graph) :
    ∃ rev st, Run m g rev st ∧ rev.reverse.map Ev.orig = g.triples ∧
      reifyEdges m g = .ok (reifyResult g st) := reifyEdges_run m g

theorem reifyResult_triples {m : Model} {g : Graph} {rev st} (hm : ReifWf m) (hg : RolesColon g)
    (hrun : Run m g rev st) : (reifyResult g st).triples = rev.reverse.flatMap Ev.out := by
  unfold reifyResult
  rw [mk'_triples_of_colon, run_triples hrun]
  intro t1 h1
  rw [run_triples hrun, List.mem_flatMap] at h1
  obtain ⟨e, he, h1⟩ := h1
  exact ev_out_colon hm hg (run_evOk hrun e (by simpa using he)) t1 h1

theorem reifyResult_top (g : Graph) (st : RState) : (reifyResult g st).top = g.getTop := rfl

theorem reifyResult_getTop {m : Model} {g : Graph} {rev st} (hrun : Run m g rev st)
    (ho : rev.reverse.map Ev.orig = g.triples) : (reifyResult g st).getTop = g.getTop := by
  unfold reifyResult
  apply mk'_getTop
  intro hnil
  rw [hnil] at ho
  have : rev = [] := by simpa using ho
  subst this
  rw [run_triples hrun]; rfl

theorem reifyResult_epidata {m : Model} {g : Graph} {rev st} (hk : EpiKeysNodup g)
    (hrun : Run m g rev st) : (reifyResult g st).epidata = st.epidata := by
  unfold reifyResult Graph.mk'
  exact AList.ofList_of_nodup _ (run_keys_nodup hrun hk)

theorem reifyResult_get? {m : Model} {g : Graph} {rev st} (hk : EpiKeysNodup g)
    (hrun : Run m g rev st) (k : Triple) :
    AList.get? (reifyResult g st).epidata k = expEp g rev k := by
  rw [reifyResult_epidata hk hrun, run_epidata hrun]

/-! ### new variables -/

theorem run_newVars {m g rev st} (h : Run m g rev st) :
    (rev.flatMap Ev.newVar).Nodup ∧ ∀ v ∈ rev.flatMap Ev.newVar, v ∉ g.variables ∧ isGenName v = true := by
  have hn := run_vars_nodup h
  rw [run_vars h, List.nodup_append] at hn
  refine ⟨hn.1, fun v hv => ⟨fun hv' => hn.2.2 v hv v hv' rfl, ?_⟩⟩
  rw [List.mem_flatMap] at hv
  obtain ⟨e, he, hv⟩ := hv
  obtain ⟨post, pre, rfl⟩ := List.append_of_mem he
  cases e with
  | keep t => simp [Ev.newVar] at hv
  | reif t rf v' inv =>
    simp only [Ev.newVar, List.mem_singleton] at hv
    subst hv
    rw [run_shape h post t rf v inv pre rfl]
    exact isGenName_freshVar _

/-- the variables of the reified graph are the old ones and the new ones -/
theorem mem_variables_flatMap_out {m : Model} {g : Graph} {l : List Ev}
    (hok : ∀ e ∈ l, EvOk m g e) {t1 : Triple} (h1 : t1 ∈ l.flatMap Ev.out) :
    t1.src ∈ g.variables ∨ t1.src ∈ l.flatMap Ev.newVar := by
  rw [List.mem_flatMap] at h1
  obtain ⟨e, he, h1⟩ := h1
  cases e with
  | keep t =>
    simp only [Ev.out, List.mem_singleton] at h1
    subst h1; left; exact src_mem_variables (hok _ he).1
  | reif t rf v inv =>
    right
    rw [List.mem_flatMap]
    refine ⟨_, he, ?_⟩
    simp only [Ev.out, List.mem_cons, List.not_mem_nil, or_false] at h1
    rcases h1 with rfl | rfl | rfl <;> simp [Ev.newVar]

/-! ### static structure of the reified triple list -/

section Static
variable {m : Model} {g : Graph}

/-- triples of events that do not introduce `x` and whose originals... have a
    source different from a variable `x` that is not a variable of `g` -/
theorem src_ne_of_flatMap_out {l : List Ev} (hok : ∀ e ∈ l, EvOk m g e) {x : Str}
    (hx : x ∉ g.variables) (hnew : ∀ e ∈ l, x ∉ e.newVar) :
    ∀ t1 ∈ l.flatMap Ev.out, t1.src ≠ x := by
  intro t1 h1 hsrc
  rcases mem_variables_flatMap_out hok h1 with h | h
  · exact hx (hsrc ▸ h)
  · rw [List.mem_flatMap] at h
    obtain ⟨e, he, hv⟩ := h
    exact hnew e he (hsrc ▸ hv)

theorem filter_src_nil {l : List Triple} {x : Str} (h : ∀ t ∈ l, t.src ≠ x) (p : Triple → Prop)
    [DecidablePred p] : l.filter (fun t => p t ∧ t.src = x) = [] := by
  rw [List.filter_eq_nil_iff]
  intro t ht
  simp [h t ht]

theorem otherOf_append (a b : List Triple) (x : Str) :
    otherOf (a ++ b) x = otherOf a x ++ otherOf b x := by simp [otherOf]

theorem instOf_append (a b : List Triple) (x : Str) :
    instOf (a ++ b) x = instOf a x ++ instOf b x := by simp [instOf]

/-- the triples of a reification event, seen from its variable -/
theorem otherOf_reif (hm : ReifWf m) {t rf v inv} (he : EvOk m g (.reif t rf v inv)) :
    otherOf (Ev.reif t rf v inv).out v = [firstTriple t rf v inv, lastTriple t rf v inv] := by
  have hrf := hm.1 rf (evOk_reif he).2.1
  have h1 : rf.source ≠ CONCEPT_ROLE := hrf.2.2.1
  have h2 : rf.target ≠ CONCEPT_ROLE := hrf.2.2.2.1
  cases inv <;>
    simp [otherOf, Ev.out, firstTriple, lastTriple, inTriple, outTriple, nodeTriple, List.filter_cons,
      h1, h2]

theorem instOf_reif (hm : ReifWf m) {t rf v inv} (he : EvOk m g (.reif t rf v inv)) :
    instOf (Ev.reif t rf v inv).out v = [nodeTriple rf v] := by
  have hrf := hm.1 rf (evOk_reif he).2.1
  have h1 : rf.source ≠ CONCEPT_ROLE := hrf.2.2.1
  have h2 : rf.target ≠ CONCEPT_ROLE := hrf.2.2.2.1
  cases inv <;>
    simp [instOf, Ev.out, firstTriple, lastTriple, inTriple, outTriple, nodeTriple, List.filter_cons,
      h1, h2]

/-- seen from an old variable, reification only removes the reified relations -/
theorem otherOf_flatMap_old {l : List Ev} (hok : ∀ e ∈ l, EvOk m g e) {x : Str}
    (hnew : ∀ e ∈ l, x ∉ e.newVar) :
    otherOf (l.flatMap Ev.out) x = (otherOf (l.map Ev.orig) x).filter (fun t => !m.isReifiable t.role) := by
  induction l with
  | nil => rfl
  | cons e r ih =>
    have ih' := ih (fun e he => hok e (by simp [he])) (fun e he => hnew e (by simp [he]))
    rw [List.flatMap_cons, otherOf_append, ih', List.map_cons]
    have : otherOf (e.orig :: r.map Ev.orig) x = otherOf [e.orig] x ++ otherOf (r.map Ev.orig) x := by
      rw [← otherOf_append]; rfl
    rw [this, List.filter_append]
    congr 1
    cases e with
    | keep t =>
      have := (hok (.keep t) (by simp)).2
      simp only [Ev.out, Ev.orig, otherOf, List.filter_filter]
      apply List.filter_congr
      intro t' ht'
      simp only [List.mem_singleton] at ht'
      subst ht'; simp [this]
    | reif t rf v inv =>
      have hre := (evOk_reif (hok (.reif t rf v inv) (by simp))).2.2.2
      have hv : v ≠ x := by
        intro h; exact hnew (.reif t rf v inv) (by simp) (by simp [Ev.newVar, h])
      simp only [Ev.orig, otherOf, List.filter_filter]
      rw [List.filter_eq_nil_iff.mpr, List.filter_eq_nil_iff.mpr]
      · intro t' ht'
        simp only [List.mem_singleton] at ht'
        subst ht'; simp [hre]
      · intro t' ht'
        simp only [Ev.out, List.mem_cons, List.not_mem_nil, or_false] at ht'
        rcases ht' with rfl | rfl | rfl <;> simp [hv]

theorem instOf_flatMap_old (hm : ReifWf m) {l : List Ev} (hok : ∀ e ∈ l, EvOk m g e) {x : Str}
    (hnew : ∀ e ∈ l, x ∉ e.newVar) :
    instOf (l.flatMap Ev.out) x = instOf (l.map Ev.orig) x := by
  induction l with
  | nil => rfl
  | cons e r ih =>
    have ih' := ih (fun e he => hok e (by simp [he])) (fun e he => hnew e (by simp [he]))
    rw [List.flatMap_cons, instOf_append, ih', List.map_cons]
    have : instOf (e.orig :: r.map Ev.orig) x = instOf [e.orig] x ++ instOf (r.map Ev.orig) x := by
      rw [← instOf_append]; rfl
    rw [this]
    congr 1
    cases e with
    | keep t => rfl
    | reif t rf v inv =>
      have hre := (evOk_reif (hok (.reif t rf v inv) (by simp))).2.2.2
      have hv : v ≠ x := by
        intro h; exact hnew (.reif t rf v inv) (by simp) (by simp [Ev.newVar, h])
      have hc : t.role ≠ CONCEPT_ROLE := by
        intro h; rw [h, hm.2] at hre; simp at hre
      simp only [Ev.orig, instOf]
      rw [List.filter_eq_nil_iff.mpr, List.filter_eq_nil_iff.mpr]
      · intro t' ht'
        simp only [List.mem_singleton] at ht'
        subst ht'; simp [hc]
      · intro t' ht'
        simp only [Ev.out, List.mem_cons, List.not_mem_nil, or_false] at ht'
        rcases ht' with rfl | rfl | rfl <;> simp [hv]

/-- targets of relations of the reified list: old targets and sources of
    reified relations -/
theorem tgt_of_flatMap_out (hm : ReifWf m) {l : List Ev} (hok : ∀ e ∈ l, EvOk m g e)
    {t1 : Triple} (h1 : t1 ∈ l.flatMap Ev.out) (hr : t1.role ≠ CONCEPT_ROLE) :
    (∃ t ∈ g.triples, t.role ≠ CONCEPT_ROLE ∧ t.tgt = t1.tgt) ∨
    (∃ t ∈ g.triples, t1.tgt = .str t.src) := by
  rw [List.mem_flatMap] at h1
  obtain ⟨e, he, h1⟩ := h1
  cases e with
  | keep t =>
    simp only [Ev.out, List.mem_singleton] at h1
    subst h1; left; exact ⟨t1, (hok _ he).1, hr, rfl⟩
  | reif t rf v inv =>
    have hre := evOk_reif (hok _ he)
    have hc : t.role ≠ CONCEPT_ROLE := by
      intro h; have := hre.2.2.2; rw [h, hm.2] at this; simp at this
    simp only [Ev.out, List.mem_cons, List.not_mem_nil, or_false] at h1
    rcases h1 with rfl | rfl | rfl
    · cases inv
      · right; exact ⟨t, hre.1, rfl⟩
      · left; exact ⟨t, hre.1, hc, rfl⟩
    · exact absurd rfl hr
    · cases inv
      · left; exact ⟨t, hre.1, hc, rfl⟩
      · right; exact ⟨t, hre.1, rfl⟩

/-- old relation targets stay relation targets -/
theorem tgt_kept (hm : ReifWf m) {l : List Ev} (hok : ∀ e ∈ l, EvOk m g e) {t : Triple}
    (ht : t ∈ l.map Ev.orig) (hr : t.role ≠ CONCEPT_ROLE) :
    ∃ t1 ∈ l.flatMap Ev.out, t1.role ≠ CONCEPT_ROLE ∧ t1.tgt = t.tgt := by
  rw [List.mem_map] at ht
  obtain ⟨e, he, rfl⟩ := ht
  cases e with
  | keep t => exact ⟨t, List.mem_flatMap.mpr ⟨_, he, by simp [Ev.out]⟩, hr, rfl⟩
  | reif t rf v inv =>
    have hrf := hm.1 rf (evOk_reif (hok _ he)).2.1
    refine ⟨outTriple t rf v, List.mem_flatMap.mpr ⟨_, he, ?_⟩, hrf.2.2.2.1, rfl⟩
    cases inv <;> simp [Ev.out, firstTriple, lastTriple]

/-- the source of a reified relation becomes a relation target -/
theorem src_reified_is_tgt (hm : ReifWf m) {l : List Ev} (hok : ∀ e ∈ l, EvOk m g e)
    {t rf v inv} (he : Ev.reif t rf v inv ∈ l) :
    ∃ t1 ∈ l.flatMap Ev.out, t1.role ≠ CONCEPT_ROLE ∧ t1.tgt = .str t.src := by
  have hrf := hm.1 rf (evOk_reif (hok _ he)).2.1
  refine ⟨inTriple t rf v, List.mem_flatMap.mpr ⟨_, he, ?_⟩, hrf.2.2.1, rfl⟩
  cases inv <;> simp [Ev.out, firstTriple, lastTriple]

end Static

/-! ### marker lookups in the reified graph -/

/-- markers of an old triple: erased if it was reified, else unchanged -/
theorem expEp_old {g : Graph} {rev : List Ev} {k : Triple}
    (hnew : ∀ e ∈ rev, k.src ∉ e.newVar) :
    expEp g rev k = if k ∈ rev.flatMap Ev.reified then none else AList.get? g.epidata k := by
  induction rev with
  | nil => simp [expEp]
  | cons e r ih =>
    have ih' := ih (fun e he => hnew e (by simp [he]))
    cases e with
    | keep t => simpa [expEp, Ev.reified] using ih'
    | reif t rf v inv =>
      have hv : v ≠ k.src := by
        intro h; exact hnew (.reif t rf v inv) (by simp) (by simp [Ev.newVar, h])
      have h1 : lastTriple t rf v inv ≠ k := by
        intro h; apply hv; rw [← h]; simp
      have h2 : nodeTriple rf v ≠ k := by
        intro h; apply hv; rw [← h]; simp
      have h3 : firstTriple t rf v inv ≠ k := by
        intro h; apply hv; rw [← h]; simp
      simp only [expEp, h1, h2, h3, if_false, ih', List.flatMap_cons, Ev.reified,
        List.singleton_append, List.mem_cons]
      by_cases h : t = k
      · simp [h]
      · have h' : ¬ k = t := fun e => h e.symm
        simp [h, h']

/-- markers of the last triple of a reification event persist -/
theorem expEp_last {g : Graph} {post pre : List Ev} {t rf v inv}
    (hpost : ∀ e ∈ post, v ∉ e.newVar) (hsrc : ∀ e ∈ post, e.orig.src ≠ v) (hts : t.src ≠ v) :
    expEp g (post ++ .reif t rf v inv :: pre) (lastTriple t rf v inv) =
      some (edgeMarkers ((expEp g pre t).getD [])).2 := by
  induction post with
  | nil =>
    have : firstTriple t rf v inv ≠ t := by
      intro h; apply hts; rw [← h]; simp
    simp [expEp, this]
  | cons e r ih =>
    have ih' := ih (fun e he => hpost e (by simp [he])) (fun e he => hsrc e (by simp [he]))
    cases e with
    | keep t' => simpa [expEp] using ih'
    | reif t' rf' v' inv' =>
      have hv : v' ≠ v := by
        intro h; exact hpost (.reif t' rf' v' inv') (by simp) (by simp [Ev.newVar, h])
      have h1 : lastTriple t' rf' v' inv' ≠ lastTriple t rf v inv := by
        intro h; apply hv; have := congrArg Triple.src h; simpa using this
      have h2 : nodeTriple rf' v' ≠ lastTriple t rf v inv := by
        intro h; apply hv; have := congrArg Triple.src h; simpa using this
      have h3 : firstTriple t' rf' v' inv' ≠ lastTriple t rf v inv := by
        intro h; apply hv; have := congrArg Triple.src h; simpa using this
      have h4 : t' ≠ lastTriple t rf v inv := by
        intro h
        have := hsrc (.reif t' rf' v' inv') (by simp)
        apply this; rw [Ev.orig, h]; simp
      simp only [List.cons_append, expEp, h1, h2, h3, h4, if_false, ih']

/-- same for the node triple -/
theorem expEp_node {g : Graph} {post pre : List Ev} {t rf v inv}
    (hpost : ∀ e ∈ post, v ∉ e.newVar) (hsrc : ∀ e ∈ post, e.orig.src ≠ v) (hts : t.src ≠ v)
    (hne : nodeTriple rf v ≠ lastTriple t rf v inv) :
    expEp g (post ++ .reif t rf v inv :: pre) (nodeTriple rf v) =
      some (edgeMarkers ((expEp g pre t).getD [])).1 := by
  induction post with
  | nil =>
    have : firstTriple t rf v inv ≠ t := by
      intro h; apply hts; rw [← h]; simp
    have h' : lastTriple t rf v inv ≠ nodeTriple rf v := fun e => hne e.symm
    simp [expEp, this, h']
  | cons e r ih =>
    have ih' := ih (fun e he => hpost e (by simp [he])) (fun e he => hsrc e (by simp [he]))
    cases e with
    | keep t' => simpa [expEp] using ih'
    | reif t' rf' v' inv' =>
      have hv : v' ≠ v := by
        intro h; exact hpost (.reif t' rf' v' inv') (by simp) (by simp [Ev.newVar, h])
      have h1 : lastTriple t' rf' v' inv' ≠ nodeTriple rf v := by
        intro h; apply hv; have := congrArg Triple.src h; simpa using this
      have h2 : nodeTriple rf' v' ≠ nodeTriple rf v := by
        intro h; apply hv; have := congrArg Triple.src h; simpa using this
      have h3 : firstTriple t' rf' v' inv' ≠ nodeTriple rf v := by
        intro h; apply hv; have := congrArg Triple.src h; simpa using this
      have h4 : t' ≠ nodeTriple rf v := by
        intro h
        have := hsrc (.reif t' rf' v' inv') (by simp)
        apply this; rw [Ev.orig, h]; simp
      simp only [List.cons_append, expEp, h1, h2, h3, h4, if_false, ih']

end Penman

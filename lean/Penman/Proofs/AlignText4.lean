/-
  Penman.Proofs.AlignText4 — C03 with alignments at the level of TEXT: the alignments of the
  decoded graph (Align6 redone with constants compared by their written form), and the
  composition graph → tree → text → tree → graph.
-/
import Penman.Proofs.AlignText1
import Penman.Proofs.AlignText3
import Penman.Proofs.Align7
import Penman.Proofs.EncodeDecode
set_option linter.unusedSimpArgs false
set_option linter.unusedVariables false
namespace Penman
namespace Cfg
namespace Al
open Penman.Spec Penman.Spec.Reading Penman.Interp Penman.C03Text

/-- **the alignments survive**, constants compared by their written form -/
theorem alignments_kept_w {isAlpha : Char → Bool} {m : Model} {g g' : Graph} {T' : Tree} {v : Option Str}
    {ds : List Denoted} (hw : ModelWf m) (hg : WfGraphAl m g)
    (hagree : ∀ t ∈ g.triples, ∀ t' ∈ g.triples,
      deinvert1 m g (writtenTriple t) = deinvert1 m g (writtenTriple t') →
      roleAlnOf g t = roleAlnOf g t' ∧ tgtAlnOf g t = tgtAlnOf g t')
    (hg' : interpret isAlpha m T' = .ok g')
    (hread : Spec.Reading.read isAlpha m T'.node = .ok ⟨v, ds⟩)
    (hperm : (g'.triples.map (deinvert1 m g)).Perm ((g.triples.map writtenTriple).map (deinvert1 m g)))
    (hds : ∀ d ∈ ds, ∃ t1 ∈ g.triples, d.triple = deinvert1 m g (writtenTriple t1) ∧ colon d.triple = d.triple ∧
        d.roleAln.map (fun a => Epi.roleAln a.1 a.2) = roleAlnOf g t1 ∧
        d.tgtAln.map (fun a => Epi.aln a.1 a.2) = tgtAlnOf g t1) :
    (∀ t0 ∈ g.triples, deinvert1 m g (writtenTriple t0) ∈ g'.triples ∧
      roleAlnOf g' (deinvert1 m g (writtenTriple t0)) = roleAlnOf g t0 ∧
      tgtAlnOf g' (deinvert1 m g (writtenTriple t0)) = tgtAlnOf g t0) ∧
    (∀ x ∈ g'.triples, ∃ t0 ∈ g.triples, x = deinvert1 m g (writtenTriple t0)) := by
  obtain ⟨v', ds', es, Dd⟩ := decoded hg'
  have hrd := Dd.rd
  rw [hread] at hrd
  simp only [Except.ok.injEq, Reading.mk.injEq] at hrd
  obtain ⟨_, rfl⟩ := hrd
  have htr : g'.triples = ds.map (·.triple) := by
    rw [Dd.triples]
    apply List.map_congr_left
    intro d hd
    obtain ⟨_, _, _, hc, _⟩ := hds d hd
    exact hc
  have hall : ∀ x ∈ g'.triples, ∃ t0 ∈ g.triples, x = deinvert1 m g (writtenTriple t0) := by
    intro x hx
    rw [htr] at hx
    obtain ⟨d, hd, rfl⟩ := List.mem_map.1 hx
    obtain ⟨t1, ht1, h1, _⟩ := hds d hd
    exact ⟨t1, ht1, h1⟩
  refine ⟨?_, hall⟩
  intro t0 ht0
  have hmem : deinvert1 m g (writtenTriple t0) ∈ g'.triples := by
    have : deinvert1 m g (writtenTriple t0) ∈ g'.triples.map (deinvert1 m g) :=
      hperm.symm.subset (List.mem_map.2 ⟨writtenTriple t0, List.mem_map.2 ⟨t0, ht0, rfl⟩, rfl⟩)
    obtain ⟨x, hx, hxe⟩ := List.mem_map.1 this
    obtain ⟨t1, ht1, rfl⟩ := hall x hx
    have hc : m.canonInversion (writtenTriple t1).role = some (writtenTriple t1).role := (hg.roles t1 ht1).2.2
    rw [deinvert1_idem hw hc] at hxe
    rw [← hxe]; exact hx
  refine ⟨hmem, ?_⟩
  rw [htr] at hmem
  obtain ⟨d0, hd0, hd0k⟩ := List.mem_map.1 hmem
  have hfind : ∃ d, ds.find? (fun d => decide (d.triple = deinvert1 m g (writtenTriple t0))) = some d := by
    cases hf : ds.find? (fun d => decide (d.triple = deinvert1 m g (writtenTriple t0))) with
    | some d => exact ⟨d, rfl⟩
    | none =>
      have := List.find?_eq_none.1 hf d0 hd0
      simp [hd0k] at this
  obtain ⟨d, hfd⟩ := hfind
  have hdm : d ∈ ds := List.mem_of_find?_eq_some hfd
  have hdk : d.triple = deinvert1 m g (writtenTriple t0) := by
    have := List.find?_some hfd; simpa using this
  have hlook := lookup_proj g'.epidata (firstOccBy (·.triple) ds) Dd.epimap_proj (deinvert1 m g (writtenTriple t0))
  unfold firstOccBy at hlook
  rw [find?_firstOccAux (fun d : Denoted => d.triple) (deinvert1 m g (writtenTriple t0)) ds [] (by simp), hfd] at hlook
  obtain ⟨t1, ht1, h1, _, hra, hta⟩ := hds d hdm
  have hagree' := hagree t0 ht0 t1 ht1 (by rw [← h1, hdk])
  cases hget : AList.get? g'.epidata (deinvert1 m g (writtenTriple t0)) with
  | none => rw [hget] at hlook; simp at hlook
  | some e =>
    rw [hget] at hlook
    simp only [Option.map_some, Option.some.injEq, denProj, Prod.mk.injEq] at hlook
    obtain ⟨hr, htg⟩ := hlook
    constructor
    · show ((episOf g' (deinvert1 m g (writtenTriple t0))).filter fun e => e.mode = 1).getLast? = _
      unfold episOf; rw [hget]
      simp only [Option.getD_some]
      have : roleProj e = (e.filter fun x => x.mode = 1).getLast? := rfl
      rw [← this, hr, hra, hagree'.1]
    · show ((episOf g' (deinvert1 m g (writtenTriple t0))).filter fun e => e.mode = 2).getLast? = _
      unfold episOf; rw [hget]
      simp only [Option.getD_some]
      have : tgtProj e = (e.filter fun x => x.mode = 2).getLast? := rfl
      rw [← this, htg, hta, hagree'.2]

variable {cfg : LexCfg}

/-- **C03 with alignments at the level of text** -/
theorem encode_decode_text_al (hcfg : FmtCfgWf cfg = true) (isSpace isAlpha : Char → Bool) {m : Model} {g : Graph}
    {top : Option Str} {t : Str} (hw : ModelWf m) (hnoop : m.noop = false) (hg : WfGraphAl m g)
    (hal : AlignOK isAlpha m g) (htx : GraphTextOKal cfg isSpace m g) (hpv : PushVars g) (hps : PushSrcOK g)
    (ht : topOf g top = some t) (htv : t ∈ g.variables) (hreach : ∀ v ∈ g.variables, Reach g t v)
    (i : Indent) (c : Bool) :
    ∃ s g', encode m g top i c = .ok s ∧ decode cfg isSpace isAlpha m s = .ok g' ∧
      g'.getTop = some t ∧ (∀ x, x ∈ g'.variables ↔ x ∈ g.variables) ∧
      (g'.triples.map (deinvert1 m g)).Perm ((g.triples.map writtenTriple).map (deinvert1 m g)) ∧
      (∀ x ∈ g'.triples, ∃ t0 ∈ g.triples, x = writtenTriple t0 ∨ x = m.invert (writtenTriple t0)) ∧
      (∀ t0 ∈ g.triples, deinvert1 m g (writtenTriple t0) ∈ g'.triples ∧
        roleAlnOf g' (deinvert1 m g (writtenTriple t0)) = roleAlnOf g t0 ∧
        tgtAlnOf g' (deinvert1 m g (writtenTriple t0)) = tgtAlnOf g t0) ∧
      (∀ x ∈ g'.triples, ∃ t0 ∈ g.triples, x = deinvert1 m g (writtenTriple t0)) ∧
      g'.metadata = g.metadata := by
  obtain ⟨T, st, l, hT, E⟩ := encodedAl hw hg hpv hps ht htv hreach
  have hwf := encodedAl_tree_wf hw hg hal htx htv E
  have hmeta : WfMeta isSpace T.metadata := E.metaEq ▸ htx.base.metaOK
  have hparse := parse_format_num hcfg isSpace T.node T.metadata hwf hmeta i c
  have hnumok : ∀ x ∈ g.triples, ∀ s, x.tgt = .num s → '~' ∉ s := by
    intro x hx s hs
    have := htx.base.tgts x hx
    rw [hs] at this
    exact tilde_not_in_symbol hcfg this
  obtain ⟨g', ds, h1, hread, h2, h3, h4, h5, h6, h7⟩ := decode_written_al isAlpha hw hnoop hg hal hnumok E
  obtain ⟨h8, h9⟩ := alignments_kept_w (T' := ⟨writtenForm T.node, T.metadata⟩) hw hg htx.agreeW h1 hread h4 h7
  refine ⟨format T i c, g', by simp [encode, hT, Except.map], ?_, h2, h3, h4, h5, h8, h9, ?_⟩
  · simp only [decode]
    have : C01.parse cfg isSpace (format T i c) = .ok ⟨writtenForm T.node, T.metadata⟩ := hparse
    rw [this]
    exact h1
  · rw [h6]
    exact Interp.ofList_of_nodup _ htx.base.metaOK.1

/-- the `encode`/`parse` half on its own, for a graph with alignments -/
theorem encode_parse_text_al (hcfg : FmtCfgWf cfg = true) (isSpace isAlpha : Char → Bool) {m : Model} {g : Graph}
    {top : Option Str} {t : Str} (hw : ModelWf m) (hg : WfGraphAl m g)
    (hal : AlignOK isAlpha m g) (htx : GraphTextOKal cfg isSpace m g) (hpv : PushVars g) (hps : PushSrcOK g)
    (ht : topOf g top = some t) (htv : t ∈ g.variables) (hreach : ∀ v ∈ g.variables, Reach g t v)
    (i : Indent) (c : Bool) :
    ∃ T, configure m g top = .ok T ∧ WfTreeText cfg (writtenForm T.node) ∧
      encode m g top i c = .ok (format T i c) ∧
      C01.parse cfg isSpace (format T i c) = .ok ⟨writtenForm T.node, T.metadata⟩ := by
  obtain ⟨T, st, l, hT, E⟩ := encodedAl hw hg hpv hps ht htv hreach
  have hwf := encodedAl_tree_wf hw hg hal htx htv E
  have hmeta : WfMeta isSpace T.metadata := E.metaEq ▸ htx.base.metaOK
  exact ⟨T, hT, hwf, by simp [encode, hT, Except.map], parse_format_num hcfg isSpace T.node T.metadata hwf hmeta i c⟩

/-- without alignment markers the new text hypothesis is the old one -/
theorem graphTextOKal_of_noAlign {isSpace : Char → Bool} {m : Model} {g : Graph}
    (h : GraphTextOK cfg isSpace m g) (hna : NoAlign g) : GraphTextOKal cfg isSpace m g := by
  have hr : ∀ t ∈ g.triples, roleAlnOf g t = none := fun t ht => by
    unfold roleAlnOf; rw [filter_mode_of_noAlign hna ht 1 (by decide)]; rfl
  have hta : ∀ t ∈ g.triples, tgtAlnOf g t = none := fun t ht => by
    unfold tgtAlnOf; rw [filter_mode_of_noAlign hna ht 2 (by decide)]; rfl
  refine ⟨h, ?_, ?_⟩
  · intro t ht e he hm
    exact absurd (hna t ht e he) hm
  · intro t ht t' ht' _
    rw [hr t ht, hr t' ht', hta t ht, hta t' ht']; exact ⟨rfl, rfl⟩

end Al
end Cfg
end Penman

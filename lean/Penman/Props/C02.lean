import Penman.Proofs.Layout7
import Penman.Proofs.Layout8
import Penman.Main
import Penman.Generated
/-!
# C02 — decode then encode reproduces the layout that was written

Model functions: `interpret` (`interpretNode`/`interpretBranches`, `processRole`,
`processAtomic`, `alnFromString`, `appendPopLast`, `epimapOf`), `Graph.mk'`,
`configure` (`preconfigure`/`preconfEpis`, `configureNode`, `orient`, `pushVar`,
`stripPops`, `configureLoop`, `buildNode`/`buildBranches`, `applyEpis`,
`alnToString`), `Model.invert/deinvert/isRoleInverted/invertRole`; for the text
level `format` and the command path `processTree` (Penman/Main.lean).
Specification vocabulary (`dropNullConcept`, `WfLayout`, `roleOk`, `atomOk`,
`MetaDict`) is in Penman/Spec/WfLayout.lean; the proof is in
Penman/Proofs/Layout1 … Layout7.

Clause of the property text                              ↦ theorem(s)
-------------------------------------------------------------------------------------------
"for every well-formed tree (each variable defined       ↦ hypothesis `WfLayout isAlpha m t.node`
  once, denoted triples pairwise distinct, roles in         (decidable; `wfNodeB`, `Node.vars.Nodup`,
  canonical inversion form, no inverted self-loop)"         `distinctTriplesB`)
"and every semantic model"                               ↦ `m : Model` is universally quantified with
                                                            NO hypothesis (no `ModelWf` is needed: the
                                                            per-role condition `invertRole (invertRole r) = r`
                                                            of `roleOk` is all the proof uses; it also
                                                            holds for the no-op model, where `deinvert`
                                                            is the identity)
"interpreting the tree to a graph and configuring the    ↦ `C02_layout`, `C02_layout_dict`
  graph back gives an equal tree"
"encode(decode(s)) is exactly the normal-form text of s: ↦ `C02_text`, `C02_command`
  same nesting, branch order, inverted roles, alignments
  and metadata"
"the only normalisation allowed is that an empty concept ↦ `dropNullConcept` in the statements;
  slot `(a /)` is written `(a)`"                            `dropNull_id` (nothing else changes),
                                                            example `ex_null_concept`
"nodes without a concept, re-entrancies and cycles back  ↦ covered by `C02_layout` (no hypothesis excludes
  to an enclosing node are all reproduced"                  them); examples `ex1`, `ex2`, `ex3`
the intermediate facts                                   ↦ `C02.interp_node` (closed form of `interpret`),
                                                            `C02.pre_node` (`preconfigure` gives `dNode`),
                                                            `C02.cn_node`/`C02.cn_branches` (the key lemma:
                                                            `configureNode` consumes exactly the data of a
                                                            subtree and returns at its own POP),
                                                            `C02.cn_fuel` (fuel irrelevance),
                                                            `C02.cells_node`, `C02.build_node`

`WfLayout isAlpha m n` (Spec/WfLayout.lean) says, beyond the four conditions the text names:
every node has a variable; `/` occurs only as first branch and has an atomic target; every
other role text is accepted by `_process_role`, its core starts with `:`, is not `:instance`
and does not invert to `:instance`, and re-appending `str(marker)` to the core gives the
text back (canonical alignment suffix: `~01` is read as `1`, boundary O9); atomic targets
are `None` or a string with a non-empty core and a canonical alignment suffix.
"Canonical inversion form" is required in the weakest form the proof needs: a role the model
regards as inverted must satisfy `invertRole (invertRole r) = r`; nothing is asked of roles
that are not inverted. The self-loop clause is only required when the model deinverts
(`deinverts m r`), so the no-op model needs nothing there. `isAlpha` is the Unicode table
`str.isalpha` the model is parametric in (alignment prefixes), universally quantified.

`C02_layout` additionally assumes `MetaDict t.metadata` (metadata keys distinct). This is the
representation invariant of a Python `dict` in the association-list model (`Graph.mk'` copies the
metadata with `AList.ofList`); `C02_layout_dict` is the statement without it.

Fuel: `configure` is the fuel-instantiated top-level function; the proof shows its own fuels
suffice (`cn_fuel` for `configureNode`; `configureLoop` is entered with no data and returns at
once; `buildNode` needs at most `2·|vars| - 1 ≤ 2·|cells| + 2`, lemma `C02.need_node`).

Necessity of the hypotheses (section `Boundaries`): `/` not first (reachable through the tree
API only, the parser rejects it), an explicit `:instance` role, a non-canonical alignment `~01`,
an inverted self-loop, an over-inverted role `:R-of-of`, a duplicated triple, a duplicated
variable, a repeated metadata key. Each negation is proved on the model — `decide +kernel`
after rewriting `configure` to its kernel-evaluable twin `configure'` (`C02.configure_eq`;
`buildNode` itself is compiled by well-founded recursion and does not reduce) — and was replayed
on the real code with the same results.
-/
namespace Penman.C02P
open Penman Penman.C02

variable (isAlpha : Char → Bool) (m : Model)

/-- `configure ∘ interpret` is `dropNullConcept` on well-formed trees, for every model. -/
theorem C02_layout_dict (t : Tree) (ht : WfLayout isAlpha m t.node) :
    ∃ g, interpret isAlpha m t = .ok g ∧
      configure m g none = .ok ⟨dropNullConcept t.node, AList.ofList t.metadata⟩ :=
  layout_main isAlpha m t ht

/-- **C02.** Interpreting a well-formed tree and configuring the graph back gives the
    same tree, up to writing an empty concept slot `(a /)` as `(a)`. -/
theorem C02_layout (t : Tree) (ht : WfLayout isAlpha m t.node) (hmd : MetaDict t.metadata) :
    ∃ g, interpret isAlpha m t = .ok g ∧
      configure m g none = .ok ⟨dropNullConcept t.node, t.metadata⟩ := by
  obtain ⟨g, h1, h2⟩ := layout_main isAlpha m t ht
  exact ⟨g, h1, by rw [h2, ofList_nodup t.metadata hmd]⟩

/-- text level: for every indentation and compactness, the encoded text of the decoded
    graph is the formatted text of the normal form of the parsed tree `T`. -/
theorem C02_text (T : Tree) (ht : WfLayout isAlpha m T.node) (hmd : MetaDict T.metadata)
    (i : Indent) (c : Bool) :
    ∃ g T', interpret isAlpha m T = .ok g ∧ configure m g none = .ok T' ∧
      format T' i c = format ⟨dropNullConcept T.node, T.metadata⟩ i c := by
  obtain ⟨g, h1, h2⟩ := C02_layout isAlpha m T ht hmd
  exact ⟨g, _, h1, h2, rfl⟩

/-- the command without transformation options prints the normal form, status 0 -/
theorem C02_command (u : UTables) (T : Tree) (ht : WfLayout u.isAlpha m T.node)
    (hmd : MetaDict T.metadata) (i : Indent) (c : Bool) :
    processTree u m { indent := i, compact := c } T =
      .ok (format ⟨dropNullConcept T.node, T.metadata⟩ i c, 0) := by
  obtain ⟨g, h1, h2⟩ := C02_layout u.isAlpha m T ht hmd
  simp [processTree, processIn, processOut, h1, h2, bind, Except.bind, pure, Except.pure]

mutual
/-- `dropNullConcept` changes nothing but empty concept slots -/
theorem dropNull_id : ∀ (n : Node), noNullN n = true → dropNullConcept n = n
  | .mk v bs => by
    intro h; simp only [noNullN] at h; simp [dropNullConcept, dropNullB_id bs h]
theorem dropNullB_id : ∀ (bs : Branches), noNullB bs = true → dropNullBranches bs = bs
  | .nil => by intro _; rfl
  | .atom r a rest => by
    intro h
    simp only [noNullB, Bool.and_eq_true, Bool.not_eq_true', decide_eq_false_iff_not] at h
    simp [dropNullBranches, h.1, dropNullB_id rest h.2]
  | .sub r n rest => by
    intro h
    simp only [noNullB, Bool.and_eq_true] at h
    simp [dropNullBranches, dropNull_id n h.1, dropNullB_id rest h.2]
end

/-! ### non-vacuity: concrete trees through the actual `interpret` and `configure` -/

def s (x : String) : Str := x.toList

/-- run the model: does `configure (interpret t)` succeed with `expected`? -/
def roundTrip (m : Model) (t expected : Tree) : Bool :=
  match interpret isAsciiAlpha m t with
  | .ok g =>
    match configure m g none with
    | .ok t' => t'.node == expected.node && decide (t'.metadata = expected.metadata)
    | .error _ => false
  | .error _ => false

/-- the same with `configure'` (Proofs/Layout8: `buildNode` replaced by its structurally
    recursive twin, which the kernel can evaluate) -/
def roundTripEval (m : Model) (t expected : Tree) : Bool :=
  match interpret isAsciiAlpha m t with
  | .ok g =>
    match configure' m g none with
    | .ok t' => t'.node == expected.node && decide (t'.metadata = expected.metadata)
    | .error _ => false
  | .error _ => false

theorem roundTrip_eval (m : Model) (t e : Tree) : roundTrip m t e = roundTripEval m t e := by
  unfold roundTrip roundTripEval; simp only [configure_eq]

/-- a small AMR-like table (fast to evaluate); `:consist-of` is a defined role ending in `-of` -/
def miniModel : Model :=
  { roles := [.digit ":ARG".toList, .lit ":mod".toList, .lit ":domain".toList, .lit ":consist-of".toList] }

/-- `(a :ROLE (b :ROLE a))` : concept-less nodes, a cycle back to the enclosing node (fix F1) -/
def ex1 : Node := .mk (some (s "a")) (.sub (s ":ROLE") (.mk (some (s "b")) (.atom (s ":ROLE") (.str (s "a")) .nil)) .nil)
/-- `(a / alpha :ARG0 (b / beta :ARG1-of a) :mod 5)` : an inverted re-entrancy to the enclosing node -/
def ex2 : Node := .mk (some (s "a")) (.atom (s "/") (.str (s "alpha"))
  (.sub (s ":ARG0") (.mk (some (s "b")) (.atom (s "/") (.str (s "beta")) (.atom (s ":ARG1-of") (.str (s "a")) .nil)))
  (.atom (s ":mod") (.str (s "5")) .nil)))
/-- `(a / :ARG0-of~e.1,2 (b :x~2 "a~b"~e.3 :consist-of (c)) :mod-of c :ARG1 d :ARG2 (d / a~3))` :
    an empty concept slot, an inverted aligned edge to a concept-less nested node with edges, an
    aligned string containing `~`, a defined role ending in `-of`, a deeper node closing two levels
    at once, an inverted re-entrancy to an earlier node, a forward reference, a concept equal to a
    variable name -/
def ex3 : Node := .mk (some (s "a")) (.atom (s "/") .none
  (.sub (s ":ARG0-of~e.1,2") (.mk (some (s "b")) (.atom (s ":x~2") (.str (s "\"a~b\"~e.3"))
      (.sub (s ":consist-of") (.mk (some (s "c")) .nil) .nil)))
  (.atom (s ":mod-of") (.str (s "c"))
  (.atom (s ":ARG1") (.str (s "d"))
  (.sub (s ":ARG2") (.mk (some (s "d")) (.atom (s "/") (.str (s "a~3")) .nil)) .nil)))))

def md1 : AList Str Str := [(s "id", s "1"), (s "snt", s "x y")]

example : WfLayout isAsciiAlpha miniModel ex1 := by decide +kernel
example : WfLayout isAsciiAlpha miniModel ex2 := by decide +kernel
example : WfLayout isAsciiAlpha miniModel ex3 := by decide +kernel
example : WfLayout isAsciiAlpha Generated.amrModel ex3 := by decide +kernel
example : WfLayout isAsciiAlpha Generated.noopModel ex3 := by decide +kernel
example : WfLayout isAsciiAlpha Generated.defaultModel ex2 := by decide +kernel
example : MetaDict md1 := by decide

example : roundTrip miniModel ⟨ex1, md1⟩ ⟨ex1, md1⟩ = true := by rw [roundTrip_eval]; decide +kernel
example : roundTrip miniModel ⟨ex2, md1⟩ ⟨ex2, md1⟩ = true := by rw [roundTrip_eval]; decide +kernel
example : roundTrip miniModel ⟨ex3, []⟩ ⟨dropNullConcept ex3, []⟩ = true := by rw [roundTrip_eval]; decide +kernel
example : roundTrip Generated.amrModel ⟨ex3, []⟩ ⟨dropNullConcept ex3, []⟩ = true := by
  rw [roundTrip_eval]; decide +kernel
example : roundTrip Generated.noopModel ⟨ex3, []⟩ ⟨dropNullConcept ex3, []⟩ = true := by
  rw [roundTrip_eval]; decide +kernel
/-- the normalisation really happens: `(a / …)` comes back as `(a …)` -/
example : roundTrip miniModel ⟨ex3, []⟩ ⟨ex3, []⟩ = false := by rw [roundTrip_eval]; decide +kernel
/-- `ex_null_concept` : `(a /)` ↦ `(a)` -/
example : (dropNullConcept (.mk (some (s "a")) (.atom (s "/") .none .nil)) == .mk (some (s "a")) .nil) = true := by
  decide +kernel
example : noNullN ex2 = true := by decide +kernel
/-- the theorem instantiated -/
example : ∃ g, interpret isAsciiAlpha Generated.amrModel ⟨ex3, md1⟩ = .ok g ∧
    configure Generated.amrModel g none = .ok ⟨dropNullConcept ex3, md1⟩ :=
  C02_layout isAsciiAlpha Generated.amrModel ⟨ex3, md1⟩ (by decide +kernel) (by decide)

/-! ### Boundaries: each hypothesis of `WfLayout` is necessary -/
section Boundaries

/-- `(a :ARG0 b / alpha)`: a `/` branch that is not first is moved to the front -/
def bSlash : Node := .mk (some (s "a")) (.atom (s ":ARG0") (.str (s "b")) (.atom (s "/") (.str (s "alpha")) .nil))
example : ¬ WfLayout isAsciiAlpha miniModel bSlash := by decide +kernel
example : roundTrip miniModel ⟨bSlash, []⟩ ⟨bSlash, []⟩ = false := by rw [roundTrip_eval]; decide +kernel
example : roundTrip miniModel ⟨bSlash, []⟩
    ⟨.mk (some (s "a")) (.atom (s "/") (.str (s "alpha")) (.atom (s ":ARG0") (.str (s "b")) .nil)), []⟩ = true := by
  rw [roundTrip_eval]; decide +kernel

/-- `(a :instance alpha)` is written back as `(a / alpha)` -/
def bInst : Node := .mk (some (s "a")) (.atom (s ":instance") (.str (s "alpha")) .nil)
example : ¬ WfLayout isAsciiAlpha miniModel bInst := by decide +kernel
example : roundTrip miniModel ⟨bInst, []⟩ ⟨bInst, []⟩ = false := by rw [roundTrip_eval]; decide +kernel
example : roundTrip miniModel ⟨bInst, []⟩
    ⟨.mk (some (s "a")) (.atom (s "/") (.str (s "alpha")) .nil), []⟩ = true := by
  rw [roundTrip_eval]; decide +kernel

/-- `(a :ARG0~01 b)`: the index is read as the number 1 and written `~1` (boundary O9) -/
def bAln : Node := .mk (some (s "a")) (.atom (s ":ARG0~01") (.str (s "b")) .nil)
example : ¬ WfLayout isAsciiAlpha miniModel bAln := by decide +kernel
example : roundTrip miniModel ⟨bAln, []⟩ ⟨bAln, []⟩ = false := by rw [roundTrip_eval]; decide +kernel
example : roundTrip miniModel ⟨bAln, []⟩
    ⟨.mk (some (s "a")) (.atom (s ":ARG0~1") (.str (s "b")) .nil), []⟩ = true := by
  rw [roundTrip_eval]; decide +kernel

/-- `(a :ARG0-of a)`: an inverted self-loop is written `(a :ARG0 a)` -/
def bLoop : Node := .mk (some (s "a")) (.atom (s ":ARG0-of") (.str (s "a")) .nil)
example : ¬ WfLayout isAsciiAlpha miniModel bLoop := by decide +kernel
example : roundTrip miniModel ⟨bLoop, []⟩ ⟨bLoop, []⟩ = false := by rw [roundTrip_eval]; decide +kernel
example : roundTrip miniModel ⟨bLoop, []⟩
    ⟨.mk (some (s "a")) (.atom (s ":ARG0") (.str (s "a")) .nil), []⟩ = true := by
  rw [roundTrip_eval]; decide +kernel
/-- … but not under the no-op model, which does not deinvert -/
example : WfLayout isAsciiAlpha Generated.noopModel bLoop := by decide +kernel
example : roundTrip Generated.noopModel ⟨bLoop, []⟩ ⟨bLoop, []⟩ = true := by rw [roundTrip_eval]; decide +kernel

/-- `(a :R-of-of (b))`: an over-inverted role loses two inversions (boundary O2) -/
def bOver : Node := .mk (some (s "a")) (.sub (s ":R-of-of") (.mk (some (s "b")) .nil) .nil)
example : ¬ WfLayout isAsciiAlpha miniModel bOver := by decide +kernel
example : roundTrip miniModel ⟨bOver, []⟩ ⟨bOver, []⟩ = false := by rw [roundTrip_eval]; decide +kernel
example : roundTrip miniModel ⟨bOver, []⟩
    ⟨.mk (some (s "a")) (.sub (s ":R") (.mk (some (s "b")) .nil) .nil), []⟩ = true := by
  rw [roundTrip_eval]; decide +kernel

/-- `(a :ARG0 (b) :ARG0~1 b)`: two branches denoting the same triple share one marker list -/
def bDup : Node := .mk (some (s "a")) (.sub (s ":ARG0") (.mk (some (s "b")) .nil) (.atom (s ":ARG0~1") (.str (s "b")) .nil))
example : ¬ WfLayout isAsciiAlpha miniModel bDup := by decide +kernel
example : roundTrip miniModel ⟨bDup, []⟩ ⟨bDup, []⟩ = false := by rw [roundTrip_eval]; decide +kernel

/-- `(a :ARG0 (b / x) :ARG1 (b / y))`: a variable defined twice -/
def bVar : Node := .mk (some (s "a")) (.sub (s ":ARG0") (.mk (some (s "b")) (.atom (s "/") (.str (s "x")) .nil))
  (.sub (s ":ARG1") (.mk (some (s "b")) (.atom (s "/") (.str (s "y")) .nil)) .nil))
example : ¬ WfLayout isAsciiAlpha miniModel bVar := by decide +kernel
example : roundTrip miniModel ⟨bVar, []⟩ ⟨bVar, []⟩ = false := by rw [roundTrip_eval]; decide +kernel

/-- metadata given with a repeated key (not a `dict`): the last value wins at the first position -/
def mdDup : AList Str Str := [(s "id", s "1"), (s "id", s "2")]
example : ¬ MetaDict mdDup := by decide
example : roundTrip miniModel ⟨ex1, mdDup⟩ ⟨ex1, mdDup⟩ = false := by rw [roundTrip_eval]; decide +kernel
example : roundTrip miniModel ⟨ex1, mdDup⟩ ⟨ex1, [(s "id", s "2")]⟩ = true := by rw [roundTrip_eval]; decide +kernel

end Boundaries

end Penman.C02P

/-
  Penman.Proofs.NormalFormGraphLayout — KEY LEMMA of the graph half of the normal-form clause:
  everything `configure` prints is again in the domain of C02.
  1. texts without alignment are read back as themselves by `_process_role` / `_process_atomic`;
  2. every edge of the final store is layout-valid (`EdgeLay`), `/` at most in first position;
  3. `buildNode` then yields a tree whose written form satisfies `wfNodeB` (Spec/WfLayout.lean) and has
     no empty concept slot;
  4. the denoted triples are pairwise distinct (`decode_written`), variables are defined once:
     `configured_wfLayout`; with C02: `configured_fixed_point`.
-/
import Penman.Proofs.NormalFormGraphLoop
import Penman.Proofs.EncodeDecode
import Penman.Proofs.Interpret
import Penman.Props.C02

namespace Penman
namespace Cfg
open Penman.C20gen Penman.C03Text Penman.Spec.Reading

variable (isAlpha : Char → Bool)

/-! ### 1. plain texts -/

theorem processRole_plain {r : Str} (hr : r ≠ ['/']) (ht : '~' ∉ r) : processRole isAlpha r = .ok (r, []) := by
  rw [Interp.processRole_eq, roleAlnText_plain ht, roleName_plain ht]
  simp [parseAln?, Except.map, slashRole, hr]

theorem processAtomic_plain {s : Str} (h : TextOK s) : processAtomic isAlpha (.str s) = .ok (.str s, []) := by
  rw [Interp.processAtomic_str, splitTarget_ok h]
  simp [parseAln?, Except.map, Interp.tgtEpis]

theorem ne_slash_of_colon {r : Str} (hc : r.head? = some ':') : r ≠ ['/'] := by
  intro h; rw [h] at hc; simp at hc

theorem startsWith_colon {r : Str} (hc : r.head? = some ':') : startsWith [':'] r = true := by
  cases r with
  | nil => simp at hc
  | cons c cs => simp at hc; subst hc; simp [startsWith, List.isPrefixOf]

/-- a role as the graphs of C03 carry it (colon, no `~`, inversion-canonical, neither it nor its
    inversion is `:instance`) is a layout-valid role text -/
theorem roleOk_of_good {m : Model} (hw : ModelWf m) {r : Str} (hc : r.head? = some ':') (ht : '~' ∉ r)
    (hcan : m.canonInversion r = some r) (h1 : r ≠ CONCEPT_ROLE) (h2 : m.invertRole r ≠ CONCEPT_ROLE) :
    roleOk isAlpha m r = true ∧ roleCore isAlpha r = r := by
  have hp := processRole_plain isAlpha (ne_slash_of_colon hc) ht
  refine ⟨?_, by simp [roleCore, hp]⟩
  unfold roleOk
  rw [hp]
  simp [startsWith_colon hc, h1, h2, (C13.inv_involutive hw hcan).1, episText]

theorem atomOk_none : atomOk isAlpha .none = true ∧ atomCore isAlpha .none = .none := by
  simp [atomOk, atomCore, processAtomic]

theorem atomOk_str {s : Str} (h : TextOK s) (hne : s ≠ []) :
    atomOk isAlpha (.str s) = true ∧ atomCore isAlpha (.str s) = .str s := by
  have hp := processAtomic_plain isAlpha h
  refine ⟨?_, by simp [atomCore, hp]⟩
  unfold atomOk
  rw [hp]
  cases s with
  | nil => exact absurd rfl hne
  | cons c cs => simp

/-- a target of a well-formed graph, in written form, is a layout-valid atom read back as itself -/
theorem atomOk_written {a : Atom} (h1 : TgtOK a) (h2 : a ≠ .str []) (h3 : NumTextOK a) :
    atomOk isAlpha (writtenAtom a) = true ∧ atomCore isAlpha (writtenAtom a) = writtenAtom a := by
  cases a with
  | none => exact atomOk_none isAlpha
  | str s => exact atomOk_str isAlpha h1 (fun h => h2 (by rw [h]))
  | num s => exact atomOk_str isAlpha (Or.inl h3.2) h3.1

/-! ### 2./3. from layout-valid cells to a layout-valid tree -/

variable (m : Model)

/-- an edge of the cell of `v` that is layout-valid -/
def EdgeLay (v : Str) (e : Edge) : Prop :=
  e.epis = [] ∧
  (e.role = ['/'] → ∃ a, e.tgt = .atom a ∧ atomOk isAlpha (writtenAtom a) = true ∧ writtenAtom a ≠ .none) ∧
  (e.role ≠ ['/'] → roleOk isAlpha m e.role = true ∧ roleCore isAlpha e.role = e.role ∧
    ∀ a, e.tgt = .atom a → atomOk isAlpha (writtenAtom a) = true ∧
      atomCore isAlpha (writtenAtom a) = writtenAtom a ∧
      (writtenAtom a = .str v → m.isRoleInverted e.role = false))

structure CellLay (v : Str) (es : List Edge) : Prop where
  tail : ∀ e r, es = e :: r → ∀ x ∈ r, x.role ≠ ['/']
  edge : ∀ e ∈ es, EdgeLay isAlpha m v e

theorem roleOk_slash : roleOk isAlpha m ['/'] = false := by
  simp [roleOk, processRole]

theorem wfNodeB_of_branches (var : Str) : ∀ bs : Branches, wfBranchesB isAlpha m var bs = true →
    Penman.wfNodeB isAlpha m (.mk (some var) bs) = true := by
  intro bs h
  cases bs with
  | nil => simp [Penman.wfNodeB]
  | atom role a rest =>
    by_cases hs : role = ['/']
    · subst hs
      simp [wfBranchesB, roleOk_slash] at h
    · simp only [Penman.wfNodeB, hs, if_false]; exact h
  | sub role n rest => simpa [Penman.wfNodeB] using h

theorem branches_lay (C : Cells) (f : Nat) (v : Str)
    (hP : ∀ f' w n, f = f' + 1 → buildNode C f' w = .ok n →
      Penman.wfNodeB isAlpha m (writtenForm n) = true ∧ noNullN (writtenForm n) = true) :
    ∀ (es : List Edge) (bs : Branches), (∀ e ∈ es, EdgeLay isAlpha m v e ∧ e.role ≠ ['/']) →
      buildBranches C f es = .ok bs →
      wfBranchesB isAlpha m v (writtenBs bs) = true ∧ noNullB (writtenBs bs) = true := by
  intro es
  induction es with
  | nil =>
    intro bs _ h
    simp only [buildBranches, Except.ok.injEq] at h; subst h
    exact ⟨rfl, rfl⟩
  | cons e es ih =>
    intro bs hes h
    simp only [buildBranches] at h
    cases hrest : buildBranches C f es with
    | error x => rw [hrest] at h; simp [bind, Except.bind] at h
    | ok rest =>
      rw [hrest] at h
      simp only [bind, Except.bind] at h
      obtain ⟨i1, i2⟩ := ih rest (fun e' he' => hes e' (List.mem_cons_of_mem _ he')) hrest
      obtain ⟨⟨hep, _, hE⟩, hns⟩ := hes e List.mem_cons_self
      obtain ⟨hr, hcore, ha⟩ := hE hns
      cases htg : e.tgt with
      | atom a =>
        rw [htg] at h
        simp only [pure, Except.pure, Except.ok.injEq] at h
        subst h
        obtain ⟨a1, a2, a3⟩ := ha a htg
        have hloop : (deinverts m e.role && decide (writtenAtom a = Atom.str v)) = false := by
          by_cases hv : writtenAtom a = .str v
          · simp [deinverts, a3 hv]
          · simp [hv]
        simp [hep, applyEpis, writtenBs, wfBranchesB, noNullB, hr, hcore, a1, a2, hloop, i1, i2, hns]
      | node w =>
        rw [htg] at h
        cases f with
        | zero => simp at h
        | succ f1 =>
          simp only [] at h
          cases hnode : buildNode C f1 w with
          | error x => rw [hnode] at h; simp at h
          | ok n =>
            rw [hnode] at h
            simp only [pure, Except.pure, Except.ok.injEq] at h
            subst h
            obtain ⟨p1, p2⟩ := hP f1 w n rfl hnode
            simp [hep, applyEpis, writtenBs, wfBranchesB, noNullB, hr, p1, p2, i1, i2]

/-- **store → layout-valid tree without empty concept slot** -/
theorem build_lay (C : Cells) (hC : ∀ p ∈ C, CellLay isAlpha m p.1 p.2) : ∀ (f : Nat) (v : Str) (n : Node),
    buildNode C f v = .ok n →
    Penman.wfNodeB isAlpha m (writtenForm n) = true ∧ noNullN (writtenForm n) = true := by
  intro f
  induction f using Nat.strongRecOn with
  | _ f ih =>
    intro v n h
    cases f with
    | zero => simp [buildNode] at h
    | succ f0 =>
      simp only [buildNode] at h
      cases hb : buildBranches C f0 ((AList.get? C v).getD []) with
      | error e => rw [hb] at h; simp [bind, Except.bind] at h
      | ok bs =>
        rw [hb] at h
        simp only [bind, Except.bind, pure, Except.pure, Except.ok.injEq] at h
        subst h
        have hcell : CellLay isAlpha m v (cellOf C v) := by
          rcases cellOf_cases C v with h1 | h1
          · rw [h1]; exact ⟨fun e r h => (by cases h), fun e he => absurd he (by simp)⟩
          · exact hC _ h1
        have hQ := branches_lay isAlpha m C f0 v (fun f' w n' e hb' => ih f' (by omega) w n' hb')
        change buildBranches C f0 (cellOf C v) = .ok bs at hb
        cases hes : cellOf C v with
        | nil =>
          rw [hes] at hb; simp only [buildBranches, Except.ok.injEq] at hb; subst hb
          simp [writtenForm, writtenBs, Penman.wfNodeB, noNullN, noNullB]
        | cons e r =>
          rw [hes] at hb hcell
          have htail := hcell.tail e r rfl
          by_cases hs : e.role = ['/']
          · obtain ⟨hep, hS, _⟩ := hcell.edge e List.mem_cons_self
            obtain ⟨a, hta, hab, hnn⟩ := hS hs
            simp only [buildBranches] at hb
            cases hrest : buildBranches C f0 r with
            | error x => rw [hrest] at hb; simp [bind, Except.bind] at hb
            | ok rest =>
              rw [hrest] at hb
              simp only [bind, Except.bind, hta, pure, Except.pure, Except.ok.injEq] at hb
              subst hb
              obtain ⟨i1, i2⟩ := hQ r rest
                (fun x hx => ⟨hcell.edge x (List.mem_cons_of_mem _ hx), htail x hx⟩) hrest
              simp [hep, applyEpis, hs, writtenForm, writtenBs, Penman.wfNodeB, noNullN, noNullB, hab, hnn, i1, i2]
          · obtain ⟨i1, i2⟩ := hQ (e :: r) bs (fun x hx => ⟨hcell.edge x hx, by
              rcases List.mem_cons.1 hx with rfl | hx
              · exact hs
              · exact htail x hx⟩) hb
            exact ⟨by simpa [writtenForm] using wfNodeB_of_branches isAlpha m v _ i1,
              by simpa [writtenForm, noNullN] using i2⟩

/-! ### 2. the cells of an encoded graph are layout-valid -/

/-- **every cell of the store of an encoded graph is layout-valid** -/
theorem cells_lay {m : Model} {g : Graph} {t : Str} {T : Tree} {st : St} {l : List Triple}
    (hw : ModelWf m) (hg : WfGraph m g) (hL : LayoutOK m g) (E : Encoded m g t T st l) :
    ∀ p ∈ st.cells, CellLay isAlpha m p.1 p.2 := by
  have hr2 : ∀ x ∈ g.triples, RoleOK2 m x := fun x hx => roleOK2_of_colon m x (hg.roles x hx).1
  have hsq := storeOf_sq hr2 E.store
  have hsl := storeOf_sl hL.selfLoop E.store
  have hedge : ∀ p ∈ st.cells, ∀ e ∈ p.2, EdgeLay isAlpha m p.1 e := by
    intro p hp e he
    have hx : Cfg.denote p.1 e ∈ placed st.cells := by
      simp only [placed, List.mem_flatMap, List.mem_map]; exact ⟨p, hp, e, he, rfl⟩
    have hxl := E.perm.symm.subset hx
    obtain ⟨t0, ht0, hv⟩ := E.version _ hxl
    have hgood := goodT_of_version hw hg ht0 hv
    obtain ⟨hnc, hep⟩ := E.plain p hp e he
    refine ⟨hep, ?_, ?_⟩
    · intro hs
      obtain ⟨a, ha⟩ := slashOK_mem (hsq p hp) he hs
      refine ⟨a, ha, ?_⟩
      have hden : Cfg.denote p.1 e = ⟨p.1, CONCEPT_ROLE, a⟩ := by simp [Cfg.denote, hs, ha]
      have hx0 : Cfg.denote p.1 e = t0 := by
        rcases hv with hv | ⟨hv, _, hr0⟩
        · exact hv
        · exfalso
          have : (m.invert t0).role = CONCEPT_ROLE := by rw [← hv, hden]
          rw [invert_role] at this
          exact (hg.noInstOf t0 ht0 hr0).1 this
      have hta : t0.tgt = a := by rw [← hx0, hden]
      have hmiss : a.isMissing = false := by
        cases hm : a.isMissing with
        | false => rfl
        | true => exact absurd ⟨by rw [hden], by rw [hden]; exact hm⟩ (E.notNull _ hxl)
      have hne : a ≠ .str [] := by intro h; rw [h] at hmiss; simp [Atom.isMissing] at hmiss
      have hnn : a ≠ .none := by intro h; rw [h] at hmiss; simp [Atom.isMissing] at hmiss
      refine ⟨(atomOk_written isAlpha (by rw [← hta]; exact hg.tgts t0 ht0) hne
        (by rw [← hta]; exact hL.numOK t0 ht0)).1, ?_⟩
      cases a with
      | none => exact absurd rfl hnn
      | str s => simp [writtenAtom]
      | num s => simp [writtenAtom]
    · intro hs
      have hrole : (Cfg.denote p.1 e).role = e.role := by simp [Cfg.denote, hs]
      have hinv : m.invertRole e.role ≠ CONCEPT_ROLE := by
        rcases hv with hv | ⟨hv, _, hr0⟩
        · have e1 : t0.role = e.role := by rw [← hv, hrole]
          rw [← e1]; exact (hg.noInstOf t0 ht0 (by rw [e1]; exact hnc)).1
        · have e1 : m.invertRole t0.role = e.role := by rw [← invert_role, ← hv, hrole]
          rw [← e1]; exact (hg.noInstOf t0 ht0 hr0).2
      obtain ⟨r1, r2⟩ := roleOk_of_good isAlpha hw (by rw [← hrole]; exact hgood.colon)
        (by rw [← hrole]; exact hgood.roleTilde) (by rw [← hrole]; exact hgood.canon) hnc hinv
      refine ⟨r1, r2, ?_⟩
      intro a ha
      have htg : (Cfg.denote p.1 e).tgt = a := by simp [Cfg.denote, ha]
      have hok : TgtOK a ∧ a ≠ .str [] ∧ NumTextOK a := by
        rcases hv with hv | ⟨hv, _, _⟩
        · have : t0.tgt = a := by rw [← hv, htg]
          rw [← this]; exact ⟨hg.tgts t0 ht0, hL.tgtNonEmpty t0 ht0, hL.numOK t0 ht0⟩
        · have : a = .str t0.src := by rw [← htg, hv, invert_tgt]
          rw [this]
          refine ⟨Or.inl (hg.srcs t0 ht0), ?_, trivial⟩
          intro h; injection h with h; exact hL.srcNonEmpty t0 ht0 h
      obtain ⟨a1, a2⟩ := atomOk_written isAlpha hok.1 hok.2.1 hok.2.2
      exact ⟨a1, a2, fun hself => hsl p hp e he a ha hself⟩
  intro p hp
  refine ⟨?_, hedge p hp⟩
  intro e r hes x hx hxs
  -- two node labels in one cell: impossible (as in `cells_text`)
  have hso := hsq p hp
  rw [hes] at hso
  have hes' : e.role = ['/'] := by
    apply Classical.byContradiction
    intro hne; exact hso.2.1 hne x hx hxs
  have hcount : 2 ≤ (placed st.cells).countP (instOf p.1) := by
    have h1 : (p.2.map (Cfg.denote p.1)).countP (instOf p.1) ≤ (placed st.cells).countP (instOf p.1) :=
      countP_le_flatMap (instOf p.1) (fun q : Str × List Edge => q.2.map (Cfg.denote q.1)) hp
    have h2 : 2 ≤ (p.2.map (Cfg.denote p.1)).countP (instOf p.1) := by
      rw [hes, List.map_cons, List.countP_cons]
      have a1 : instOf p.1 (Cfg.denote p.1 e) = true := by simp [instOf, Cfg.denote, hes']
      have a2 : 0 < (r.map (Cfg.denote p.1)).countP (instOf p.1) :=
        List.countP_pos_iff.2 ⟨Cfg.denote p.1 x, List.mem_map.2 ⟨x, hx, rfl⟩, by simp [instOf, Cfg.denote, hxs]⟩
      simp only [a1, if_true]; omega
    omega
  have hle : (placed st.cells).countP (instOf p.1) ≤ 1 := by
    rw [← E.perm.countP_eq]
    have s1 : l.countP (instOf p.1) ≤ (l.map (deinvert1 m g)).countP (instOf p.1) := by
      rw [List.countP_map]
      apply List.countP_mono_left
      intro y _ hy
      simp only [instOf, decide_eq_true_eq] at hy
      simp only [Function.comp, deinvert1_inst m g hy.2]
      simpa [instOf] using hy
    have s2 : (l.map (deinvert1 m g)).countP (instOf p.1) ≤ (g.triples.map (deinvert1 m g)).countP (instOf p.1) := by
      rw [E.same.countP_eq, List.countP_append]; omega
    have s3 : (g.triples.map (deinvert1 m g)).countP (instOf p.1) ≤ g.triples.countP (instOf p.1) := by
      rw [List.countP_map]
      apply List.countP_mono_left
      intro y hy hP
      simp only [Function.comp, instOf, decide_eq_true_eq] at hP ⊢
      unfold deinvert1 at hP
      split at hP
      · rename_i hc
        exfalso
        rw [invert_role] at hP
        by_cases hyr : y.role = CONCEPT_ROLE
        · have hi : m.isRoleInverted y.role = false := by rw [hyr]; exact concept_not_inverted m
          rw [hi] at hc; exact absurd hc.1 (by simp)
        · exact (hg.noInstOf y hy hyr).1 hP.2
      · exact hP
    have s4 := countP_inst_le_one hL.oneLabel p.1
    omega
  omega

end Cfg

/-! ### 4. the key lemma and the fixed point -/

namespace C20gen
open Penman.Cfg Penman.C03Text

theorem nodup_of_map {α β : Type} (f : α → β) {l : List α} (h : (l.map f).Nodup) : l.Nodup := by
  unfold List.Nodup at h ⊢
  rw [List.pairwise_map] at h
  exact h.imp (fun hab e => hab (by rw [e]))

/-- a number-free reading of `LayoutOK.numOK` for `decode_written` -/
theorem numOK_tilde {m : Model} {g : Graph} (hL : LayoutOK m g) :
    ∀ x ∈ g.triples, ∀ s, x.tgt = .num s → '~' ∉ s := by
  intro x hx s hs
  have := hL.numOK x hx
  rw [hs] at this
  exact this.2

/-- **KEY LEMMA.**  Whatever `configure` prints for a well-formed graph (any top, any layout markers)
    is again in the domain of C02: the written form of the configured tree (numbers as their text — the
    tree the parser gives back) is `WfLayout`, has no empty concept slot, and carries the graph's
    metadata. -/
theorem configured_wfLayout (isAlpha : Char → Bool) {m : Model} {g : Graph} {top : Option Str} {T : Tree}
    (hw : ModelWf m) (hnoop : m.noop = false) (hg : WfGraph m g) (hL : LayoutOK m g) (hpv : Cfg.PushVars g)
    (h : configure m g top = .ok T) :
    WfLayout isAlpha m (writtenForm T.node) ∧ noNullN (writtenForm T.node) = true ∧
    T.metadata = g.metadata := by
  obtain ⟨t, st, l, _, _, E⟩ := encoded_of_ok hw hg hpv h
  have hr2 : ∀ x ∈ g.triples, RoleOK2 m x := fun x hx => roleOK2_of_colon m x (hg.roles x hx).1
  obtain ⟨_, hvars, _, hnd, _⟩ := storeOf_tree hr2 E.store E.build
  obtain ⟨b1, b2⟩ := build_lay isAlpha m st.cells (cells_lay isAlpha hw hg hL E) _ t T.node E.build
  obtain ⟨g', hg', _, _, hperm, _, _⟩ := decode_written isAlpha hw hnoop hg (numOK_tilde hL) E
  refine ⟨⟨b1, ?_, ?_⟩, b2, E.metaEq⟩
  · rw [writtenForm_vars]; exact (hvars.nodup_iff).2 hnd
  · -- the denoted triples are pairwise distinct
    have hnd' : g'.triples.Nodup := by
      have : (g'.triples.map (deinvert1 m g)).Nodup := (hperm.nodup_iff).2 hL.distinct
      exact nodup_of_map _ this
    unfold distinctTriplesB
    unfold interpret at hg'
    cases hi : interpretNode isAlpha m (writtenForm T.node).vars (writtenForm T.node) with
    | error e => simp [hi, bind, Except.bind] at hg'
    | ok r =>
      obtain ⟨ts, ep⟩ := r
      simp only [hi, bind, Except.bind, pure, Except.pure, Except.ok.injEq] at hg'
      subst hg'
      simp only [Graph.mk'] at hnd'
      simpa using nodup_of_map _ hnd'

/-- **COROLLARY (tree level).**  The tree `configure` prints is a fixed point of decode-then-encode:
    interpreting its written form `W` (what parsing the text returns) and configuring the result from
    its own top gives `W` again. -/
theorem configured_fixed_point (isAlpha : Char → Bool) {m : Model} {g : Graph} {top : Option Str} {T : Tree}
    (hw : ModelWf m) (hnoop : m.noop = false) (hg : WfGraph m g) (hL : LayoutOK m g) (hpv : Cfg.PushVars g)
    (hmd : MetaDict g.metadata) (h : configure m g top = .ok T) :
    ∃ g', interpret isAlpha m ⟨writtenForm T.node, T.metadata⟩ = .ok g' ∧
      configure m g' none = .ok ⟨writtenForm T.node, T.metadata⟩ := by
  obtain ⟨hl, hnn, hme⟩ := configured_wfLayout isAlpha hw hnoop hg hL hpv h
  obtain ⟨g', h1, h2⟩ := C02P.C02_layout isAlpha m ⟨writtenForm T.node, T.metadata⟩ hl (by rw [hme]; exact hmd)
  refine ⟨g', h1, ?_⟩
  rw [h2, C02P.dropNull_id _ hnn]

end C20gen
end Penman

/-
  Penman.Proofs.NormalFormGraphCli — one graph through `processTree` with the graph stages switched
  on (first and second pass), then streams through `processInput`.
-/
import Penman.Proofs.NormalFormGraphLayout
import Penman.Proofs.NormalFormGraphStages
import Penman.Proofs.NormalFormMain

namespace Penman
namespace C20gen
open Penman.NF Penman.Cfg Penman.C03Text Penman.Framing

/-! ### a tree without numbers is its own written form -/

mutual
theorem writtenForm_id : (n : Node) → (∀ x ∈ n.edgeTriples, notNum x.tgt = true) → writtenForm n = n
  | .mk v bs, h => by
    simp only [writtenForm]
    rw [writtenBs_id (v.getD []) bs (by simpa [Node.edgeTriples] using h)]
theorem writtenBs_id (v : Str) : (bs : Branches) → (∀ x ∈ Branches.edgeTriples v bs, notNum x.tgt = true) →
    writtenBs bs = bs
  | .nil, _ => rfl
  | .atom r a rest, h => by
    simp only [Branches.edgeTriples, List.mem_cons, forall_eq_or_imp] at h
    have ha : writtenAtom a = a := by
      cases a with
      | none => rfl
      | str s => rfl
      | num s => simp [notNum] at h
    simp only [writtenBs, ha, writtenBs_id v rest h.2]
  | .sub r n rest, h => by
    simp only [Branches.edgeTriples, List.mem_cons, List.mem_append, forall_eq_or_imp] at h
    simp only [writtenBs, writtenForm_id n (fun x hx => h.2 x (Or.inl hx)),
      writtenBs_id v rest (fun x hx => h.2 x (Or.inr hx))]
end

/-- the configured tree of a graph without numbers has no numbers -/
theorem configure_noNum {m : Model} {g : Graph} {top : Option Str} {T : Tree} (hw : ModelWf m) (hg : WfGraph m g)
    (hpv : Cfg.PushVars g) (hnum : NoNum g) (h : configure m g top = .ok T) : writtenForm T.node = T.node := by
  obtain ⟨t, st, l, _, _, E⟩ := encoded_of_ok hw hg hpv h
  have hr2 : ∀ x ∈ g.triples, RoleOK2 m x := fun x hx => roleOK2_of_colon m x (hg.roles x hx).1
  have htt := storeOf_tree_triples hr2 hg.noAlign E.store E.build
  apply writtenForm_id
  intro x hx
  obtain ⟨t0, ht0, hv⟩ := E.version x (E.perm.symm.subset (htt.subset hx))
  rcases hv with rfl | ⟨rfl, _, _⟩
  · exact hnum _ ht0
  · rw [invert_tgt]; rfl

/-! ### the command on one tree, option sets `stageOpts` -/

section One
variable (u : UTables) (m : Model) (canon : Bool) (re : Option (List KeyFn × Bool)) (rE dE rA : Bool)
  (i : Indent) (c : Bool)

/-- `_process_in` = canonicalise, interpret, graph stages -/
theorem processIn_stages (t t' : Tree) (g g2 : Graph) (hc : canonStep m canon t = .ok t')
    (hi : interpret u.isAlpha m t' = .ok g) (hs : stages m (stageOpts canon re rE dE rA i c) g = .ok g2) :
    processIn u m (stageOpts canon re rE dE rA i c) t = .ok g2 := by
  have key : ∀ (k : Graph → Except PyErr Graph),
      (do let t ← (if canon = true then canonicalizeRoles m t else pure t)
          let g ← interpret u.isAlpha m t
          k g) = k g := by
    intro k
    have hc' : (if canon = true then canonicalizeRoles m t else pure t) = Except.ok t' := hc
    rw [hc']; simp only [bind, Except.bind, hi]
  have e : processIn u m (stageOpts canon re rE dE rA i c) t =
      (do let t ← (if canon = true then canonicalizeRoles m t else pure t)
          let g ← interpret u.isAlpha m t
          (do
            let g ← if rE = true then reifyEdges m g else pure g
            let g ← if dE = true then dereifyEdges m g else pure g
            let g := if rA = true then reifyAttributes g else g
            pure g)) := by
    simp only [processIn, stageOpts, Bool.false_eq_true, if_false]
    cases canon <;> cases rE <;> cases dE <;> simp [bind, Except.bind, pure, Except.pure] <;> rfl
  rw [e, key]
  exact hs

/-- `_process_out` = configure, then rearrange -/
theorem processOut_stages (g : Graph) (T : Tree) (h : configure m g none = .ok T) :
    processOut u m (stageOpts canon re rE dE rA i c) g = .ok (rearrangeOpt m re T) := by
  simp only [processOut, stageOpts, h, rearrangeOpt, bind, Except.bind, pure, Except.pure]
  cases re with
  | none => rfl
  | some p => rfl

theorem processTree_stages (t : Tree) (g : Graph) (T : Tree)
    (hin : processIn u m (stageOpts canon re rE dE rA i c) t = .ok g) (h : configure m g none = .ok T) :
    processTree u m (stageOpts canon re rE dE rA i c) t = .ok (format (rearrangeOpt m re T) i c, 0) := by
  have hout := processOut_stages u m canon re rE dE rA i c g T h
  simp only [processTree, hin, bind, Except.bind]
  simp only [stageOpts, Bool.false_eq_true, if_false] at hout ⊢
  simp only [hout, pure, Except.pure]

end One

theorem nfTree_of_noNull (m : Model) (re : Option (List KeyFn × Bool)) (T : Tree) (h : noNullN T.node = true) :
    nfTree m re T = rearrangeOpt m re T := by
  unfold nfTree
  rw [C02P.dropNull_id _ h]

/-- **one graph, both passes.**  Let the first pass decode (and transform) the input tree `T` to the
    graph `g1` and encode it to `T1`; let `R` be the printed tree (`T1` rearranged).  If `g1` is
    well formed (for layout and text, no numbers), `R` is a fixed point of the canonicalisation step and
    the graph decoded from `R` is a fixed point of the selected stages, then both passes print
    `format R`, and `R` is grammar-valid. -/
theorem tree_normal_form_stages {cfg : LexCfg} (u : UTables) (m : Model) (canon : Bool)
    (re : Option (List KeyFn × Bool)) (rE dE rA : Bool) (i : Indent) (c : Bool)
    (hw : ModelWf m) (hnoop : m.noop = false) (T : Tree) (g1 : Graph) (T1 : Tree)
    (hin : processIn u m (stageOpts canon re rE dE rA i c) T = .ok g1)
    (hcf : configure m g1 none = .ok T1)
    (hg : WfGraph m g1) (hL : LayoutOK m g1) (htx : GraphTextOK cfg u.isSpace m g1) (hpv : Cfg.PushVars g1)
    (hnum : NoNum g1)
    (hcanon : canonStep m canon (nfTree m re T1) = .ok (nfTree m re T1))
    (hfix : StagesFixed u.isAlpha m (stageOpts canon re rE dE rA i c) (nfTree m re T1)) :
    processTree u m (stageOpts canon re rE dE rA i c) T = .ok (format (nfTree m re T1) i c, 0) ∧
    Spec.WfTreeText cfg (nfTree m re T1).node ∧
    Spec.WfMeta u.isSpace (nfTree m re T1).metadata ∧
    processTree u m (stageOpts canon re rE dE rA i c) (nfTree m re T1) = .ok (format (nfTree m re T1) i c, 0) := by
  have hwf := configure_noNum hw hg hpv hnum hcf
  obtain ⟨hl, hnn, hme⟩ := configured_wfLayout u.isAlpha hw hnoop hg hL hpv hcf
  obtain ⟨ht1, ht2⟩ := configured_tree_wf (cfg := cfg) hw hg htx hpv hcf
  rw [hwf] at hl hnn ht1
  have hR := nfTree_of_noNull m re T1 hnn
  have hmR : Spec.WfMeta u.isSpace (nfTree m re T1).metadata := by rw [nfTree_metadata]; exact ht2
  have hlR := nfTree_wfLayout u m re T1 hl
  have hnR := nfTree_noNull m re T1
  refine ⟨?_, nfTree_wfText m re cfg T1 ht1, hmR, ?_⟩
  · rw [hR]; exact processTree_stages u m canon re rE dE rA i c T g1 T1 hin hcf
  · obtain ⟨g', h1, h2⟩ := C02P.C02_layout u.isAlpha m (nfTree m re T1) hlR (metaDict_of_wfMeta hmR)
    rw [C02P.dropNull_id _ hnR] at h2
    obtain ⟨hpy, _⟩ := interpret_pyGraph h1 (metaDict_of_wfMeta hmR)
    have hst := stages_idle hpy (hfix g' h1)
    have hin2 := processIn_stages u m canon re rE dE rA i c _ _ g' g' hcanon h1 hst
    have := processTree_stages u m canon re rE dE rA i c _ g' _ hin2 h2
    have hid : rearrangeOpt m re (nfTree m re T1) = nfTree m re T1 := by
      rw [hR]; exact rearrangeOpt_idem m re T1
    have e : (⟨(nfTree m re T1).node, (nfTree m re T1).metadata⟩ : Tree) = nfTree m re T1 := rfl
    rw [e, hid] at this
    exact this

/-! ### streams -/

/-- data of one graph of a stream: its text, the parsed tree, the printed tree -/
structure GraphRun where
  s : Str
  T : Tree
  R : Tree

/-- what both passes need to know about one graph of the stream -/
def GraphRun.Ok (cfg : LexCfg) (u : UTables) (m : Model) (o : Opts) (g : GraphRun) : Prop :=
  (∃ c0, parseTree c0 u.isSpace (lexStr cfg cfg.penmanOrder g.s) = .ok (g.T, [])) ∧
  processTree u m o g.T = .ok (format g.R o.indent o.compact, 0) ∧
  Spec.WfTreeText cfg g.R.node ∧ Spec.WfMeta u.isSpace g.R.metadata ∧
  processTree u m o g.R = .ok (format g.R o.indent o.compact, 0)

/-- **streams, both passes, any option set**: if every graph of the input is printed as a
    grammar-valid tree that the command prints unchanged, the whole output is reproduced byte for byte -/
theorem stream_fixed {cfg : LexCfg} (hw : Spec.FmtCfgWf cfg = true) (hsep : SepChar cfg '\n')
    (u : UTables) (m : Model) (o : Opts) (x : Str) (gs : List GraphRun) (hg : ∀ g ∈ gs, g.Ok cfg u m o)
    (hx : LSim u.isSpace [] (gs.map fun g => lexStr cfg cfg.penmanOrder g.s).flatten
      (lexStr cfg cfg.penmanOrder x)) :
    let out1 := streamOut true (gs.map fun g => format g.R o.indent o.compact)
    processInput cfg u m o x = (out1, .ok 0) ∧ processInput cfg u m o out1 = (out1, .ok 0) := by
  intro out1
  have hfold : ∀ (l : List (List Tok × Tree × Str × Nat)), (∀ p ∈ l, p.2.2.2 = 0) →
      l.foldl (fun a p => a ||| p.2.2.2) 0 = 0 := by
    intro l
    induction l with
    | nil => intro _; rfl
    | cons p l ih =>
      intro h
      simp only [List.foldl_cons, h p (by simp)]
      exact ih (fun q hq => h q (by simp [hq]))
  constructor
  · have := processInput_stream cfg hsep u m o x
      (gs.map fun g => (lexStr cfg cfg.penmanOrder g.s, g.T, format g.R o.indent o.compact, 0))
      (by
        intro p hp; simp only [List.mem_map] at hp
        obtain ⟨g, hgm, rfl⟩ := hp; exact (hg g hgm).1)
      (by
        intro p hp; simp only [List.mem_map] at hp
        obtain ⟨g, hgm, rfl⟩ := hp; exact (hg g hgm).2.1)
      (by simpa [List.map_map, Function.comp_def] using hx)
    rw [this, hfold _ (by intro p hp; simp only [List.mem_map] at hp; obtain ⟨g, _, rfl⟩ := hp; rfl)]
    simp [out1, List.map_map, Function.comp_def]
  · by_cases hnil : gs = []
    · subst hnil
      simp only [out1, List.map_nil, streamOut]
      have := processInput_stream cfg hsep u m o [] [] (by simp) (by simp)
        (by simp [lexStr, lexLines, splitLines, lexLinesFrom, lexLine_nil]; exact .nil)
      simpa [streamOut] using this
    · have hss : (gs.map fun g => format g.R o.indent o.compact) ≠ [] := by simpa using hnil
      have hsim := lexJoin_sim u.isSpace cfg cfg.penmanOrder 1 ['\n'] (Or.inr rfl)
        (gs.map fun g => format g.R o.indent o.compact)
        (by
          intro s hs; simp only [List.mem_map] at hs
          obtain ⟨g, _, rfl⟩ := hs; exact format_noCR _ _ _) 1
      rw [← streamOut_join _ hss] at hsim
      have := processInput_stream cfg hsep u m o out1
        (gs.map fun g => (lexStr cfg cfg.penmanOrder (format g.R o.indent o.compact), g.R,
          format g.R o.indent o.compact, 0))
        (by
          intro p hp; simp only [List.mem_map] at hp
          obtain ⟨g, hgm, rfl⟩ := hp
          have hk := hg g hgm
          refine ⟨⟨(0, 0)⟩, ?_⟩
          exact parseTree_format hw u.isSpace g.R.node g.R.metadata hk.2.2.1 hk.2.2.2.1 o.indent o.compact ⟨(0, 0)⟩)
        (by
          intro p hp; simp only [List.mem_map] at hp
          obtain ⟨g, hgm, rfl⟩ := hp; exact (hg g hgm).2.2.2.2)
        (by
          have := hsim.symm_nil
          simpa [List.map_map, Function.comp_def, lexStr, lexLines, out1] using this)
      rw [this, hfold _ (by intro p hp; simp only [List.mem_map] at hp; obtain ⟨g, _, rfl⟩ := hp; rfl)]
      simp [out1, List.map_map, Function.comp_def]

end C20gen
end Penman

/-
  Driver — JSON-lines front end of the model for the correspondence check.
  One JSON object per input line (`{"op": ..., ...}`), one JSON answer per
  output line. Imports model files only (no Mathlib), so it links as a
  `lean_exe`.
-/
import Lean.Data.Json
import Penman
open Lean (Json)
open Penman

abbrev R := Except String

def jstr (s : Str) : Json := Json.str (String.ofList s)
def getStr (j : Json) : R Str := do
  match j with
  | .str s => pure s.toList
  | _ => throw s!"expected string, got {j.compress}"
def getStrOpt (j : Json) : R (Option Str) := do
  match j with
  | .null => pure none
  | .str s => pure (some s.toList)
  | _ => throw s!"expected string or null, got {j.compress}"
def getNat (j : Json) : R Nat := do
  match j.getNat? with
  | .ok n => pure n
  | .error e => throw e
def getInt (j : Json) : R Int := do
  match j.getInt? with
  | .ok n => pure n
  | .error e => throw e
def getBool (j : Json) : R Bool := do
  match j with
  | .bool b => pure b
  | _ => throw s!"expected bool, got {j.compress}"
def getArr (j : Json) : R (List Json) := do
  match j with
  | .arr a => pure a.toList
  | _ => throw s!"expected array, got {j.compress}"
def field (j : Json) (k : String) : R Json :=
  match j.getObjVal? k with
  | .ok v => pure v
  | .error _ => throw s!"missing field {k}"
def fieldD (j : Json) (k : String) (d : Json) : Json :=
  match j.getObjVal? k with
  | .ok v => v
  | .error _ => d

def jatom : Atom → Json
  | .none => .null
  | .str s => jstr s
  | .num t => Json.mkObj [("n", jstr t)]
def getAtom (j : Json) : R Atom := do
  match j with
  | .null => pure .none
  | .str s => pure (.str s.toList)
  | .obj _ => do pure (.num (← getStr (← field j "n")))
  | _ => throw s!"bad atom {j.compress}"

mutual
partial def jnode : Node → Json
  | .mk v bs => Json.arr #[(match v with | some s => jstr s | none => .null), Json.arr (jbranches bs).toArray]
partial def jbranches : Branches → List Json
  | .nil => []
  | .atom r a rest => Json.arr #[jstr r, jatom a] :: jbranches rest
  | .sub r n rest => Json.arr #[jstr r, jnode n] :: jbranches rest
end

mutual
partial def getNode (j : Json) : R Node := do
  match ← getArr j with
  | [v, bs] => do
    let v ← getStrOpt v
    let bs ← getArr bs
    pure (.mk v (← getBranches bs))
  | _ => throw s!"bad node {j.compress}"
partial def getBranches : List Json → R Branches
  | [] => pure .nil
  | b :: rest => do
    match ← getArr b with
    | [r, t] =>
      let r ← getStr r
      let rest ← getBranches rest
      match t with
      | .arr _ => do pure (.sub r (← getNode t) rest)
      | _ => do pure (.atom r (← getAtom t) rest)
    | _ => throw "bad branch"
end

def jpairs (l : List (Str × Str)) : Json := Json.arr (l.map fun (k, v) => Json.arr #[jstr k, jstr v]).toArray
def getPairs (j : Json) : R (List (Str × Str)) := do
  (← getArr j).mapM fun p => do
    match ← getArr p with
    | [k, v] => pure (← getStr k, ← getStr v)
    | _ => throw "bad pair"

def jtree (t : Tree) : Json := Json.mkObj [("node", jnode t.node), ("metadata", jpairs t.metadata)]
def getTree (j : Json) : R Tree := do
  let n ← getNode (← field j "node")
  let md ← getPairs (fieldD j "metadata" (Json.arr #[]))
  pure { node := n, metadata := md }

def jtriple (t : Triple) : Json := Json.arr #[jstr t.src, jstr t.role, jatom t.tgt]
def getTriple (j : Json) : R Triple := do
  match ← getArr j with
  | [s, r, t] => pure ⟨← getStr s, ← getStr r, ← getAtom t⟩
  | _ => throw s!"bad triple {j.compress}"

def jopt (f : α → Json) : Option α → Json
  | some x => f x
  | none => .null
def jnat (n : Nat) : Json := Json.num (Lean.JsonNumber.fromNat n)

def jepi : Epi → Json
  | .push v => Json.arr #["push", jstr v]
  | .pop => Json.arr #["pop"]
  | .roleAln p i => Json.arr #["ra", jopt jstr p, Json.arr (i.map jnat).toArray]
  | .aln p i => Json.arr #["a", jopt jstr p, Json.arr (i.map jnat).toArray]
def getEpi (j : Json) : R Epi := do
  match ← getArr j with
  | [.str "push", v] => pure (.push (← getStr v))
  | [.str "pop"] => pure .pop
  | [.str "ra", p, i] => pure (.roleAln (← getStrOpt p) (← (← getArr i).mapM getNat))
  | [.str "a", p, i] => pure (.aln (← getStrOpt p) (← (← getArr i).mapM getNat))
  | _ => throw s!"bad epi {j.compress}"

def jepidata (e : Epidata) : Json :=
  Json.arr (e.map fun (t, es) => Json.arr #[jtriple t, Json.arr (es.map jepi).toArray]).toArray
def getEpidata (j : Json) : R (List (Triple × List Epi)) := do
  (← getArr j).mapM fun p => do
    match ← getArr p with
    | [t, es] => pure (← getTriple t, ← (← getArr es).mapM getEpi)
    | _ => throw "bad epidata entry"

def jgraph (g : Graph) : Json :=
  Json.mkObj [("triples", Json.arr (g.triples.map jtriple).toArray), ("top", jopt jstr g.top),
              ("epidata", jepidata g.epidata), ("metadata", jpairs g.metadata)]
/-- a graph as the harness observed it (already constructed: roles as stored) -/
def getGraph (j : Json) : R Graph := do
  let ts ← (← getArr (← field j "triples")).mapM getTriple
  let top ← getStrOpt (fieldD j "top" .null)
  let ep ← getEpidata (fieldD j "epidata" (Json.arr #[]))
  let md ← getPairs (fieldD j "metadata" (Json.arr #[]))
  pure { triples := ts, top := top, epidata := ep, metadata := md }

def getModel (j : Json) : R Model := do
  match j with
  | .str "default" => pure Generated.defaultModel
  | .str "amr" => pure Generated.amrModel
  | .str "noop" => pure Generated.noopModel
  | .null => pure Generated.defaultModel
  | _ => do
    let roles ← (← getArr (fieldD j "roles" (Json.arr #[]))).mapM fun p => do
      match ← getArr p with
      | [.str "lit", s] => pure (RolePat.lit (← getStr s))
      | [.str "digit", s] => pure (RolePat.digit (← getStr s))
      | [.str "digits", s] => pure (RolePat.digits (← getStr s))
      | _ => throw "bad role pattern"
    let reifs ← (← getArr (fieldD j "reifs" (Json.arr #[]))).mapM fun p => do
      match ← getArr p with
      | [r, c, s, t] => pure (⟨← getStr r, ← getAtom c, ← getStr s, ← getStr t⟩ : Reif)
      | _ => throw "bad reification"
    pure { noop := ← getBool (fieldD j "noop" (.bool false)),
           topVariable := ← getStr (fieldD j "topVariable" "top"),
           topRole := ← getStr (fieldD j "topRole" ":TOP"),
           conceptRole := ← getStr (fieldD j "conceptRole" ":instance"),
           roles := roles,
           norm := ← getPairs (fieldD j "norm" (Json.arr #[])),
           reifs := reifs }

def jerr : PyErr → Json
  | .decode l o k => Json.arr #["DecodeError", jnat l, jnat o, jnat k]
  | .layout k => Json.arr #["LayoutError", jnat k]
  | .constant => Json.arr #["ConstantError"]
  | .model => Json.arr #["ModelError"]
  | .surface => Json.arr #["SurfaceError"]
  | .graph => Json.arr #["GraphError"]
  | .other n => Json.arr #["Other", Json.str n]
  | .unmodelled w => Json.arr #["Unmodelled", Json.str w]

def jres (f : α → Json) : Except PyErr α → Json
  | .ok x => Json.mkObj [("ok", f x)]
  | .error e => Json.mkObj [("err", jerr e)]

def jtok (t : Tok) : Json :=
  Json.arr #[Json.str (toString (repr t.ty)).trimAscii.toString, jstr t.text, jnat t.lineno, jnat t.offset]

def tokTyName : TokTy → String
  | .COMMENT => "COMMENT" | .STRING => "STRING" | .LPAREN => "LPAREN" | .RPAREN => "RPAREN"
  | .SLASH => "SLASH" | .ROLE => "ROLE" | .SYMBOL => "SYMBOL" | .ALIGNMENT => "ALIGNMENT"
  | .UNEXPECTED => "UNEXPECTED"
def jtok' (t : Tok) : Json := Json.arr #[Json.str (tokTyName t.ty), jstr t.text, jnat t.lineno, jnat t.offset]

def cfg := Generated.lexCfg

/-- Unicode tables: ASCII exactly, the generated sample otherwise -/
def utables : UTables :=
  { isSpace := fun c => c ∈ Generated.spaceChars,
    isAlpha := fun c => match Generated.alphaSample.find? (·.1 = c) with
      | some (_, a, _) => a
      | none => false,
    lower := fun c => match Generated.alphaSample.find? (·.1 = c) with
      | some (_, _, l) => l
      | none => [c] }

/-- the input container: a str, or a list of lines (already split by the caller) -/
def getToks (j : Json) (order : List TokTy) : R (List Tok) := do
  match fieldD j "lines" .null with
  | .null => do pure (lexStr cfg order (← getStr (← field j "s")))
  | ls => do pure (lexLines cfg order (← (← getArr ls).mapM getStr))

def getKeyFns (j : Json) : R (Option (List KeyFn)) := do
  match j with
  | .null => pure none
  | _ => do
    let ks ← (← getArr j).mapM fun k => do
      match k with
      | .str "original" => pure KeyFn.original
      | .str "alphanumeric" => pure KeyFn.alphanumeric
      | .str "canonical" => pure KeyFn.canonical
      | .str "invertedLast" => pure KeyFn.invertedLast
      | _ => throw s!"bad key {k.compress}"
    pure (some ks)

def getFmt (j : Json) : R Fmt := do
  (← getArr j).mapM fun p => do
    match p with
    | .str "pre" => pure FmtPiece.pre
    | .str "i" => pure FmtPiece.i
    | .str "j" => pure FmtPiece.j
    | .arr #[.str "lit", s] => do pure (FmtPiece.lit (← getStr s))
    | _ => throw "bad fmt piece"

def getIndent (j : Json) : R Indent := do
  match j with
  | .null => pure none
  | _ => do pure (some (← getInt j))

def jkv : KV → Json
  | .b x => .bool x
  | .s x => jstr x
  | .n x => jnat x

def jcval : CVal → Json
  | .none => .null
  | .str s => Json.arr #["str", jstr s]
  | .int t => Json.arr #["int", jstr t]
  | .float t => Json.arr #["float", jstr t]
  | .bool => Json.arr #["bool"]

def ctypeName : CType → String
  | .symbol => "Symbol" | .string => "String" | .integer => "Integer" | .float => "Float" | .null => "Null"

def getOpts (j : Json) : R Opts := do
  let rearr ← match fieldD j "rearrange" .null with
    | .null => pure none
    | r => do
      let ks ← getKeyFns (← field r "keys")
      pure (some (ks.getD [], ← getBool (fieldD r "attributesFirst" (.bool false))))
  let mv ← match fieldD j "makeVariables" .null with
    | .null => pure none
    | f => do pure (some (← getFmt f))
  pure { check := ← getBool (fieldD j "check" (.bool false)),
         indent := ← getIndent (fieldD j "indent" (Json.num (-1))),
         compact := ← getBool (fieldD j "compact" (.bool false)),
         triples := ← getBool (fieldD j "triples" (.bool false)),
         makeVariables := mv,
         rearrange := rearr,
         reconfigure := ← getKeyFns (fieldD j "reconfigure" .null),
         canonicalizeRoles := ← getBool (fieldD j "canonicalizeRoles" (.bool false)),
         reifyEdges := ← getBool (fieldD j "reifyEdges" (.bool false)),
         dereifyEdges := ← getBool (fieldD j "dereifyEdges" (.bool false)),
         reifyAttributes := ← getBool (fieldD j "reifyAttributes" (.bool false)),
         indicateBranches := ← getBool (fieldD j "indicateBranches" (.bool false)) }

/-- graph register machine for the C15/C17 operation sequences -/
def graphOps (regs : List Graph) : List Json → R (List Json × List Graph)
  | [] => pure ([], regs)
  | op :: rest => do
    let a ← getArr op
    let reg (j : Json) : R Graph := do
      let i ← getNat j
      match regs[i]? with
      | some g => pure g
      | none => throw "bad register"
    let setReg (i : Nat) (g : Graph) : List Graph := regs.set i g
    let (out, regs') ← match a with
      | [.str "or", x, y] => do pure (Json.null, regs ++ [(← reg x).or (← reg y)])
      | [.str "sub", x, y] => do pure (Json.null, regs ++ [(← reg x).sub (← reg y)])
      | [.str "ior", x, y] => do pure (Json.null, setReg (← getNat x) ((← reg x).ior (← reg y)))
      | [.str "isub", x, y] => do pure (Json.null, setReg (← getNat x) ((← reg x).isub (← reg y)))
      | [.str "settop", x, t] => do
        match (← reg x).setTop (← getStrOpt t) with
        | .ok g => pure (Json.str "ok", setReg (← getNat x) g)
        | .error e => pure (jerr e, regs)
      | [.str "eq", x, y] => do pure (Json.bool ((← reg x).eqv (← reg y)), regs)
      | _ => throw s!"bad graph op {op.compress}"
    let (outs, regs'') ← graphOps regs' rest
    pure (out :: outs, regs'')

def jgraphFull (g : Graph) : Json :=
  Json.mkObj [("graph", jgraph g), ("gettop", jopt jstr g.getTop),
    ("variables", Json.arr ((sortStrs g.variables).map jstr).toArray),
    ("instances", Json.arr (g.instances.map jtriple).toArray),
    ("edges", Json.arr (g.edges.map jtriple).toArray),
    ("attributes", Json.arr (g.attributes.map jtriple).toArray),
    ("reentrancies", Json.arr (g.reentrancies.map fun (v, n) => Json.arr #[jstr v, jnat n]).toArray)]

def handle (j : Json) : R Json := do
  let op ← field j "op"
  match op with
  | .str "lex" => do
    let order := if (fieldD j "mode" "penman") == "triples" then cfg.tripleOrder else cfg.penmanOrder
    pure (Json.arr ((← getToks j order).map jtok').toArray)
  | .str "parse" => do
    let toks ← getToks j cfg.penmanOrder
    pure (jres jtree (parseToks utables.isSpace toks))
  | .str "iterparse" => do
    let toks ← getToks j cfg.penmanOrder
    let (trees, err) := iterparseToks utables.isSpace toks
    pure (Json.mkObj [("trees", Json.arr (trees.map jtree).toArray), ("err", jopt jerr err)])
  | .str "parse_triples" => do
    let toks ← getToks j cfg.tripleOrder
    pure (jres (fun ts => Json.arr (ts.map jtriple).toArray) (parseTriplesToks toks))
  | .str "format" => do
    let t ← getTree (← field j "tree")
    pure (jstr (format t (← getIndent (fieldD j "indent" (Json.num (-1)))) (← getBool (fieldD j "compact" (.bool false)))))
  | .str "format_triples" => do
    let ts ← (← getArr (← field j "triples")).mapM getTriple
    pure (jstr (formatTriples ts (← getBool (fieldD j "indent" (.bool true)))))
  | .str "interpret" => do
    let t ← getTree (← field j "tree")
    let m ← getModel (fieldD j "model" .null)
    pure (jres jgraph (interpret utables.isAlpha m t))
  | .str "decode" => do
    let toks ← getToks j cfg.penmanOrder
    let m ← getModel (fieldD j "model" .null)
    pure (jres jgraph (do let t ← parseToks utables.isSpace toks; interpret utables.isAlpha m t))
  | .str "configure" => do
    let g ← getGraph (← field j "graph")
    let m ← getModel (fieldD j "model" .null)
    pure (jres jtree (configure m g (← getStrOpt (fieldD j "top" .null))))
  | .str "encode" => do
    let g ← getGraph (← field j "graph")
    let m ← getModel (fieldD j "model" .null)
    let ind ← getIndent (fieldD j "indent" (Json.num (-1)))
    let c ← getBool (fieldD j "compact" (.bool false))
    pure (jres jstr (do let t ← configure m g (← (getStrOpt (fieldD j "top" .null)).mapError fun _ => PyErr.other "bad"); pure (format t ind c)))
  | .str "reconfigure" => do
    let g ← getGraph (← field j "graph")
    let m ← getModel (fieldD j "model" .null)
    pure (jres jtree (reconfigure m g (← getStrOpt (fieldD j "top" .null)) (← getKeyFns (fieldD j "key" .null))))
  | .str "rearrange" => do
    let t ← getTree (← field j "tree")
    let m ← getModel (fieldD j "model" .null)
    pure (jtree (rearrange m (← getKeyFns (fieldD j "key" .null)) (← getBool (fieldD j "attributesFirst" (.bool false))) t))
  | .str "reset_variables" => do
    let t ← getTree (← field j "tree")
    let fmt ← getFmt (← field j "fmt")
    pure (jres jnode (t.node.resetVariables utables.isAlpha utables.lower fmt))
  | .str "node_contexts" => do
    let g ← getGraph (← field j "graph")
    pure (jres (fun l => Json.arr (l.map (jopt jstr)).toArray) (nodeContexts g))
  | .str "appears_inverted" => do
    let g ← getGraph (← field j "graph")
    pure (jres Json.bool (appearsInverted g (← getTriple (← field j "triple"))))
  | .str "get_pushed_variable" => do
    let g ← getGraph (← field j "graph")
    pure (jopt jstr (getPushedVariable g (← getTriple (← field j "triple"))))
  | .str "alignments" => do
    let g ← getGraph (← field j "graph")
    let role ← getBool (fieldD j "role" (.bool false))
    pure (Json.arr ((getAlignments g role).map fun (t, e) => Json.arr #[jtriple t, jepi e]).toArray)
  | .str "model" => do
    -- role algebra on one role
    let m ← getModel (fieldD j "model" .null)
    let r ← getStr (← field j "role")
    pure (Json.mkObj [
      ("has_role", .bool (m.hasRole r)),
      ("is_role_inverted", .bool (m.isRoleInverted r)),
      ("invert_role", jstr (m.invertRole r)),
      ("canonicalize_role", jopt jstr (m.canonRole r)),
      ("is_role_reifiable", .bool (m.isReifiable r)),
      ("alphanumeric_order", let p := alphanumericOrder r; Json.arr #[jstr p.1, jnat p.2]),
      ("canonical_order", let p := m.canonicalOrder r; Json.arr #[.bool p.1, jstr p.2.1, jnat p.2.2])])
  | .str "model_triple" => do
    let m ← getModel (fieldD j "model" .null)
    let t ← getTriple (← field j "triple")
    let vars ← (← getArr (fieldD j "vars" (Json.arr #[]))).mapM getStr
    pure (Json.mkObj [
      ("invert", match t.tgt with | .str _ => jtriple (m.invert t) | _ => Json.str "unmodelled"),
      ("deinvert", match t.tgt with | .str _ => jtriple (m.deinvert t) | _ => (if m.noop || !m.isRoleInverted t.role then jtriple t else Json.str "unmodelled")),
      ("canonicalize", match m.canonRole t.role with | some r => jtriple { t with role := r } | none => .null),
      ("reify", jres (fun (a, b, c) => Json.arr #[jtriple a, jtriple b, jtriple c]) (m.reify t vars)),
      ("is_concept_dereifiable", .bool (m.isDereifiable t.tgt))])
  | .str "dereify" => do
    let m ← getModel (fieldD j "model" .null)
    let a ← getTriple (← field j "inst")
    let b ← getTriple (← field j "src")
    let c ← getTriple (← field j "tgt")
    pure (jres (fun (s, r, t) => Json.arr #[jatom s, jstr r, jatom t]) (m.dereify a b c))
  | .str "errors" => do
    let m ← getModel (fieldD j "model" .null)
    let g ← getGraph (← field j "graph")
    pure (Json.arr ((m.errors g).map fun (k, v) => Json.arr #[jopt jtriple k, Json.arr (v.map jnat).toArray]).toArray)
  | .str "canonicalize_roles" => do
    let t ← getTree (← field j "tree")
    let m ← getModel (fieldD j "model" .null)
    pure (jres jtree (canonicalizeRoles m t))
  | .str "reify_edges" => do
    let g ← getGraph (← field j "graph")
    let m ← getModel (fieldD j "model" .null)
    pure (jres jgraph (reifyEdges m g))
  | .str "dereify_edges" => do
    let g ← getGraph (← field j "graph")
    let m ← getModel (fieldD j "model" .null)
    pure (jres jgraph (dereifyEdges m g))
  | .str "reify_attributes" => do
    let g ← getGraph (← field j "graph")
    pure (jgraph (reifyAttributes g))
  | .str "indicate_branches" => do
    let g ← getGraph (← field j "graph")
    let m ← getModel (fieldD j "model" .null)
    pure (jres jgraph (indicateBranches m g))
  | .str "graph_new" => do
    -- Graph(triples, top, epidata, metadata) then all queries
    let ts ← (← getArr (← field j "triples")).mapM getTriple
    let top ← getStrOpt (fieldD j "top" .null)
    let ep ← getEpidata (fieldD j "epidata" (Json.arr #[]))
    let md ← getPairs (fieldD j "metadata" (Json.arr #[]))
    pure (jgraphFull (Graph.mk' ts top ep md))
  | .str "graph_filter" => do
    let g ← getGraph (← field j "graph")
    let s ← getStrOpt (fieldD j "source" .null)
    let r ← getStrOpt (fieldD j "role" .null)
    let t ← match fieldD j "target" (Json.str "__none__") with
      | .str "__none__" => pure none
      | x => do pure (some (← getAtom x))
    pure (Json.mkObj [("edges", Json.arr ((g.edges s r t).map jtriple).toArray),
                      ("attributes", Json.arr ((g.attributes s r t).map jtriple).toArray)])
  | .str "graph_ops" => do
    let gs ← (← getArr (← field j "graphs")).mapM getGraph
    let (outs, regs) ← graphOps gs (← getArr (← field j "ops"))
    pure (Json.mkObj [("outs", Json.arr outs.toArray), ("regs", Json.arr (regs.map jgraphFull).toArray)])
  | .str "quote" => do
    pure (jstr (quote (← getAtom (← field j "value"))))
  | .str "evaluate" => do
    let s ← getStrOpt (← field j "s")
    pure (Json.mkObj [("evaluate", jres jcval (evaluate s)), ("type", jres (fun t => Json.str (ctypeName t)) (ctype s))])
  | .str "loads" => do
    -- penman.loads / load : all graphs of a text in a given container
    let m ← getModel (fieldD j "model" .null)
    let toks ← match fieldD j "container" "str" with
      | .str "file" => do pure (lexLines cfg cfg.penmanOrder (fileLines (← getStr (← field j "s"))))
      | _ => getToks j cfg.penmanOrder
    let (trees, err) := iterparseToks utables.isSpace toks
    let gs := trees.map (interpret utables.isAlpha m)
    -- the generator raises at the first failing graph; earlier graphs are lost to `list(...)`
    match err, gs.find? (fun r => match r with | .error _ => true | .ok _ => false) with
    | _, some (.error e) => pure (Json.mkObj [("err", jerr e)])
    | some e, _ => pure (Json.mkObj [("err", jerr e)])
    | none, _ => pure (Json.mkObj [("ok", Json.arr (gs.filterMap (fun r => match r with | .ok g => some (jgraph g) | .error _ => none)).toArray)])
  | .str "dumps" => do
    let m ← getModel (fieldD j "model" .null)
    let gs ← (← getArr (← field j "graphs")).mapM getGraph
    let ind ← getIndent (fieldD j "indent" (Json.num (-1)))
    let c ← getBool (fieldD j "compact" (.bool false))
    let rs := gs.map fun g => (configure m g none).map (fun t => format t ind c)
    match rs.find? (fun r => match r with | .error _ => true | .ok _ => false) with
    | some (.error e) => pure (Json.mkObj [("err", jerr e)])
    | _ => pure (Json.mkObj [("ok", jstr (joinStr ['\n', '\n'] (rs.filterMap (fun r => match r with | .ok x => some x | .error _ => none))))])
  | .str "dump" => do
    -- penman.dump : `_dump_stream` prints each encoding, a blank line between; a failing graph
    -- raises after the earlier ones were written (the text written so far is lost to the caller)
    let m ← getModel (fieldD j "model" .null)
    let gs ← (← getArr (← field j "graphs")).mapM getGraph
    let ind ← getIndent (fieldD j "indent" (Json.num (-1)))
    let c ← getBool (fieldD j "compact" (.bool false))
    let rs := gs.map fun g => (configure m g none).map (fun t => format t ind c)
    match rs.find? (fun r => match r with | .error _ => true | .ok _ => false) with
    | some (.error e) => pure (Json.mkObj [("err", jerr e)])
    | _ =>
      let texts := rs.filterMap (fun r => match r with | .ok x => some x | .error _ => none)
      pure (Json.mkObj [("ok", jstr (if texts.isEmpty then [] else joinStr ['\n', '\n'] texts ++ ['\n']))])
  | .str "main" => do
    let m ← getModel (fieldD j "model" .null)
    let o ← getOpts (fieldD j "opts" (Json.mkObj []))
    let inputs ← (← getArr (← field j "inputs")).mapM getStr
    let (out, res) := mainRun cfg utables m o inputs [] 0
    pure (Json.mkObj [("out", jstr out), ("exit", jres jnat res)])
  | _ => throw s!"unknown op {op.compress}"

partial def loop (hin hout : IO.FS.Stream) : IO Unit := do
  let line ← hin.getLine
  if line.isEmpty then return ()
  let out := match Json.parse line with
    | .error e => Json.mkObj [("driver_error", Json.str e)]
    | .ok j => match handle j with
      | .ok r => r
      | .error e => Json.mkObj [("driver_error", Json.str e)]
  hout.putStrLn out.compress
  loop hin hout

def main : IO Unit := do
  let hin ← IO.getStdin
  let hout ← IO.getStdout
  loop hin hout
  hout.flush

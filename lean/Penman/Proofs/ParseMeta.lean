/-
  Metadata comments: what `commentMeta` (the `rpartition('::')` loop of
  `_parse_comments`) computes on a comment of the form
  `pre ::k1 v1 ::k2 v2 …`.
-/
import Penman.Parse
namespace Penman

/-- `'::' in s` -/
def hasSep : Str → Bool
  | ':' :: ':' :: _ => true
  | _ :: cs => hasSep cs
  | [] => false

theorem hasSep_cons_false {c : Char} {cs : Str} (h : hasSep (c :: cs) = false) : hasSep cs = false := by
  unfold hasSep at h
  split at h
  · cases h
  · rename_i h'; simp only [List.cons.injEq] at h'; obtain ⟨_, rfl⟩ := h'; exact h
  · cases ‹_ :: _ = []›

theorem sep_not_prefix_of_hasSep_false {s : Str} (h : hasSep s = false) : [':', ':'].isPrefixOf s = false := by
  match s, h with
  | [], _ => rfl
  | [c], _ => simp [List.isPrefixOf]
  | c :: d :: cs, h =>
    by_cases hc : ':' = c <;> by_cases hd : ':' = d
    · subst hc hd; simp [hasSep] at h
    all_goals simp [List.isPrefixOf, hc, hd]

theorem rfindAux_noSep (s : Str) (i : Nat) (acc : Option Nat) (h : hasSep s = false) :
    rfindAux [':', ':'] s i acc = acc := by
  induction s generalizing i acc with
  | nil => rfl
  | cons c cs ih =>
    simp only [rfindAux, sep_not_prefix_of_hasSep_false h]
    exact ih _ _ (hasSep_cons_false h)

theorem rfindAux_append (before rest : Str) (i : Nat) (acc : Option Nat) :
    ∃ acc', rfindAux [':', ':'] (before ++ rest) i acc = rfindAux [':', ':'] rest (i + before.length) acc' := by
  induction before generalizing i acc with
  | nil => exact ⟨acc, by simp⟩
  | cons c cs ih =>
    obtain ⟨acc', h⟩ := ih (i+1) (if [':', ':'].isPrefixOf (c :: (cs ++ rest)) then some i else acc)
    exact ⟨acc', by simp only [List.cons_append, rfindAux, h, List.length_cons]; congr 1; omega⟩

/-- `(before + '::' + after).rpartition('::')` when `after` contains no
    further `::` and does not start with `:` -/
theorem rpartition_sep (before after : Str) (h : hasSep (':' :: after) = false) :
    rpartitionStr [':', ':'] (before ++ ':' :: ':' :: after) = (before, true, after) := by
  unfold rpartitionStr
  obtain ⟨acc', e⟩ := rfindAux_append before (':' :: ':' :: after) 0 none
  rw [e, rfindAux, rfindAux_noSep _ _ _ h]
  simp [List.isPrefixOf]

theorem rpartition_noSep (s : Str) (h : hasSep s = false) :
    rpartitionStr [':', ':'] s = ([], false, s) := by
  unfold rpartitionStr
  rw [rfindAux_noSep _ _ _ h]

theorem partition_blank (k v : Str) (hk : ' ' ∉ k) :
    partitionStr [' '] (k ++ ' ' :: v) = (k, true, v) := by
  induction k with
  | nil => simp [partitionStr, List.isPrefixOf]
  | cons c cs ih =>
    have hc : ' ' ≠ c := fun e => hk (by rw [e]; exact List.mem_cons_self)
    have ih := ih (fun e => hk (by simp [e]))
    simp [partitionStr, List.isPrefixOf, hc, ih]

theorem partition_noBlank (k : Str) (hk : ' ' ∉ k) :
    partitionStr [' '] k = (k, false, []) := by
  induction k with
  | nil => simp [partitionStr]
  | cons c cs ih =>
    have hc : ' ' ≠ c := fun e => hk (by rw [e]; exact List.mem_cons_self)
    have ih := ih (fun e => hk (by simp [e]))
    simp [partitionStr, List.isPrefixOf, hc, ih]

/-- one `::key value` entry; `value = none` : no blank after the key -/
abbrev MetaEntry := Str × Option Str

def MetaEntry.text (e : MetaEntry) : Str :=
  e.1 ++ (match e.2 with | none => [] | some v => ' ' :: v)

/-- the value stored for an entry: `value.rstrip()` -/
def MetaEntry.value (isSpace : Char → Bool) (e : MetaEntry) : Str :=
  match e.2 with | none => [] | some v => rstripBy isSpace v

/-- the key has no blank, and `::` occurs neither in the entry nor across
    the boundary with the preceding `::` -/
def MetaEntry.ok (e : MetaEntry) : Bool :=
  !(e.1.contains ' ') && !hasSep (':' :: e.text)

theorem partition_entry (e : MetaEntry) (h : e.ok = true) :
    partitionStr [' '] e.text = (e.1, e.2.isSome, match e.2 with | none => [] | some v => v) := by
  obtain ⟨k, ov⟩ := e
  simp only [MetaEntry.ok, Bool.and_eq_true, Bool.not_eq_true', List.contains_eq_mem,
    decide_eq_false_iff_not] at h
  cases ov with
  | none => simpa [MetaEntry.text] using partition_noBlank k h.1
  | some v => simpa [MetaEntry.text] using partition_blank k v h.1

/-- one round of the loop -/
theorem commentMeta_entry (isSpace : Char → Bool) (f : Nat) (before : Str) (e : MetaEntry)
    (md : AList Str Str) (h : e.ok = true) :
    commentMeta isSpace (f+1) (before ++ ':' :: ':' :: e.text) md
      = commentMeta isSpace f before (md.set e.1 (e.value isSpace)) := by
  have h2 : hasSep (':' :: e.text) = false := by
    simp only [MetaEntry.ok, Bool.and_eq_true, Bool.not_eq_true'] at h; exact h.2
  have hne : (before ++ ':' :: ':' :: e.text).isEmpty = false := by cases before <;> rfl
  simp only [commentMeta, hne, rpartition_sep before e.text h2, partition_entry e h]
  obtain ⟨k, ov⟩ := e
  cases ov <;> simp [MetaEntry.value, rstripBy]

/-- the loop ends at a prefix without `::` -/
theorem commentMeta_noSep (isSpace : Char → Bool) (f : Nat) (pre : Str) (md : AList Str Str)
    (h : hasSep pre = false) : commentMeta isSpace f pre md = md := by
  cases f with
  | zero => rfl
  | succ f =>
    simp only [commentMeta, rpartition_noSep pre h]
    split <;> simp

/-- the comment `pre ::k1 v1 ::k2 v2 …` -/
def metaLine (pre : Str) (es : List MetaEntry) : Str :=
  pre ++ es.flatMap (fun e => ':' :: ':' :: e.text)

theorem metaLine_snoc (pre : Str) (es : List MetaEntry) (e : MetaEntry) :
    metaLine pre (es ++ [e]) = metaLine pre es ++ ':' :: ':' :: e.text := by
  simp [metaLine]

/-- **metadata of one comment** : the entries are stored from right to left -/
theorem commentMeta_metaLine_rev (isSpace : Char → Bool) (pre : Str) (hpre : hasSep pre = false) :
    ∀ (rs : List MetaEntry) (f : Nat) (md : AList Str Str), (∀ e ∈ rs, e.ok = true) → rs.length ≤ f →
    commentMeta isSpace f (metaLine pre rs.reverse) md
      = rs.foldl (fun md e => md.set e.1 (e.value isSpace)) md
  | [], f, md, _, _ => by simpa [metaLine] using commentMeta_noSep isSpace f pre md hpre
  | e :: rs, 0, _, _, hf => by simp at hf
  | e :: rs, f+1, md, hes, hf => by
    rw [List.reverse_cons, metaLine_snoc, commentMeta_entry isSpace f _ e md (hes e (by simp))]
    rw [commentMeta_metaLine_rev isSpace pre hpre rs f _ (fun e' he' => hes e' (by simp [he'])) (by simpa using hf)]
    simp

theorem commentMeta_metaLine (isSpace : Char → Bool) (pre : Str) (es : List MetaEntry) (f : Nat)
    (md : AList Str Str) (hpre : hasSep pre = false) (hes : ∀ e ∈ es, e.ok = true) (hf : es.length ≤ f) :
    commentMeta isSpace f (metaLine pre es) md
      = es.foldr (fun e md => md.set e.1 (e.value isSpace)) md := by
  have := commentMeta_metaLine_rev isSpace pre hpre es.reverse f md (by simpa using hes) (by simpa using hf)
  rw [List.reverse_reverse] at this
  rw [this, List.foldl_reverse]

theorem metaLine_length (pre : Str) (es : List MetaEntry) : 2 * es.length ≤ (metaLine pre es).length := by
  induction es with
  | nil => simp
  | cons e es ih => simp [metaLine] at ih ⊢; omega

/-! ### the lines `format` emits: one `# ::key value` line per key -/

/-- the entry `format` writes for `(k, v)` : no blank when the value is empty -/
def fmtEntry (kv : Str × Str) : MetaEntry := (kv.1, if kv.2.isEmpty then none else some kv.2)

theorem fmtLine_eq (kv : Str × Str) :
    "# ::".toList ++ kv.1 ++ (if kv.2.isEmpty then kv.2 else ' ' :: kv.2) = metaLine "# ".toList [fmtEntry kv] := by
  obtain ⟨k, v⟩ := kv
  cases v <;> simp [metaLine, fmtEntry, MetaEntry.text]

/-- **round trip of one metadata line** `# ::key value` ↦ `(key, value.rstrip())` -/
theorem commentMeta_fmtLine (isSpace : Char → Bool) (kv : Str × Str) (md : AList Str Str) (f : Nat)
    (hok : (fmtEntry kv).ok = true) (hf : 1 ≤ f) :
    commentMeta isSpace f ("# ::".toList ++ kv.1 ++ (if kv.2.isEmpty then kv.2 else ' ' :: kv.2)) md
      = md.set kv.1 (rstripBy isSpace kv.2) := by
  rw [fmtLine_eq, commentMeta_metaLine isSpace _ _ f md (by decide) (by simpa using hok) (by simpa using hf)]
  obtain ⟨k, v⟩ := kv
  cases v <;> simp [fmtEntry, MetaEntry.value, rstripBy]

theorem AList.set_of_not_mem (d : AList Str Str) (k v : Str) (h : k ∉ d.map (·.1)) :
    d.set k v = d ++ [(k, v)] := by
  induction d with
  | nil => rfl
  | cons p d ih =>
    obtain ⟨k', v'⟩ := p
    simp only [List.map_cons, List.mem_cons, not_or] at h
    have hne : k' ≠ k := fun e => h.1 e.symm
    simp [AList.set, hne, ih h.2]

/-- a dictionary written one key per line is read back unchanged: keys
    distinct, each entry well-formed, each value its own `rstrip` -/
theorem foldl_fmtLines (isSpace : Char → Bool) (md acc : AList Str Str)
    (hnd : (acc ++ md).map (·.1) |>.Pairwise (· ≠ ·))
    (hok : ∀ kv ∈ md, (fmtEntry kv).ok = true ∧ rstripBy isSpace kv.2 = kv.2) :
    md.foldl (fun d kv =>
      commentMeta isSpace (("# ::".toList ++ kv.1 ++ (if kv.2.isEmpty then kv.2 else ' ' :: kv.2)).length + 1)
        ("# ::".toList ++ kv.1 ++ (if kv.2.isEmpty then kv.2 else ' ' :: kv.2)) d) acc = acc ++ md := by
  induction md generalizing acc with
  | nil => simp
  | cons kv md ih =>
    have h1 := hok kv (by simp)
    simp only [List.foldl_cons]
    rw [commentMeta_fmtLine isSpace kv acc _ h1.1 (by omega), h1.2]
    have hk : kv.1 ∉ acc.map (·.1) := by
      intro hm
      simp only [List.map_append, List.map_cons, List.pairwise_append, List.pairwise_cons] at hnd
      exact hnd.2.2 _ hm _ (by simp) rfl
    rw [AList.set_of_not_mem acc kv.1 kv.2 hk]
    have := ih (acc ++ [(kv.1, kv.2)]) (by simpa using hnd) (fun kv' h' => hok kv' (by simp [h']))
    simpa using this

end Penman

/-
  Penman.Proofs.Align4 — `configure` on a well-formed graph WITH alignments:
  the store (as in Configure16, without `NoAlign`) and what is known about each
  of its edges.
-/
import Penman.Proofs.Align3
set_option linter.unusedSimpArgs false
namespace Penman
namespace Cfg
namespace Al
open Penman.Spec.Reading

/-- `Encoded` (Configure16) with the `plain` clause replaced by the marker bookkeeping -/
structure EncodedAl (m : Model) (g : Graph) (t : Str) (T : Tree) (st : St) (l : List Triple) : Prop where
  store : storeOf m g t = .ok st
  build : buildNode st.cells (2 * st.cells.length + 2) t = .ok T.node
  metaEq : T.metadata = g.metadata
  perm : l.Perm (placed st.cells)
  version : ∀ x ∈ l, ∃ t0 ∈ g.triples, x = t0 ∨ (x = m.invert t0 ∧ (∃ b, t0.tgt = .str b) ∧ t0.role ≠ CONCEPT_ROLE)
  notNull : ∀ x ∈ l, ¬ NullInst x
  same : (g.triples.map (deinvert1 m g)).Perm
    (l.map (deinvert1 m g) ++ (g.triples.filter nullB).map (deinvert1 m g))
  keys : ∀ k, k ∈ ckeys st.cells ↔ k ∈ g.variables
  edges : CellsOK m g st.cells
  inst : ∀ t0 ∈ g.triples, t0.role = CONCEPT_ROLE → nullB t0 = false → t0 ∈ l

theorem encodedAl {m : Model} {g : Graph} {top : Option Str} {t : Str} (hw : ModelWf m) (hg : WfGraphAl m g)
    (hpv : PushVars g) (hps : PushSrcOK g) (ht : topOf g top = some t) (htv : t ∈ g.variables)
    (hreach : ∀ v ∈ g.variables, Reach g t v) :
    ∃ T st l, configure m g top = .ok T ∧ EncodedAl m g t T st l := by
  obtain ⟨T, hT⟩ := configure_complete hg.noInstOf hps ht htv hreach
  have hr2 : ∀ x ∈ g.triples, RoleOK2 m x := fun x hx => roleOK2_of_colon m x (hg.roles x hx).1
  rcases configure_cases m g top with ⟨he, _⟩ | ⟨_, _, h'⟩ | ⟨t', _, ht', _, ⟨e, _, h'⟩ | ⟨st, node, hs, _, hb, h'⟩⟩
  · rw [hg.nonempty] at he; simp at he
  · rw [h'] at hT; simp at hT
  · rw [h'] at hT; simp at hT
  · rw [ht] at ht'; simp only [Option.some.injEq] at ht'; subst ht'
    rw [h'] at hT; simp only [Except.ok.injEq] at hT; subst hT
    obtain ⟨l1, hpre, l, hcorr, hperm⟩ := storeOf_sound hs hr2
    have hsub := keys_subset_variables hg.noInstOf hpv htv hs
    have hnd : ∀ x ∈ g.triples, nullB x = false → ∀ t1, PreStep m x t1 → ¬ Step m t1 none :=
      fun x hx hn t1 h1 => no_drop hg.noInstOf hx hn h1
    have hsrc : ∀ x ∈ l, x.src ∈ g.variables :=
      fun x hx => hsub _ (placed_src_key (hperm.subset hx))
    have hver : ∀ x ∈ l, ∃ t0 ∈ g.triples, x = t0 ∨ (x = m.invert t0 ∧ (∃ b, t0.tgt = .str b) ∧ t0.role ≠ CONCEPT_ROLE) := by
      intro x hx
      obtain ⟨t0, ht0, t1, h1, h2⟩ := chain_back hpre hcorr x hx
      exact ⟨t0, ht0, two_steps hw (hg.roles t0 ht0).2.2 h1 h2⟩
    have hnn : ∀ x ∈ l, ¬ NullInst x := by
      intro x hx
      obtain ⟨t0, _, t1, _, h2⟩ := chain_back hpre hcorr x hx
      cases h2 with
      | keep h => exact h
      | inv _ _ _ h => exact h
    have hinst : ∀ t0 ∈ g.triples, t0.role = CONCEPT_ROLE → nullB t0 = false → t0 ∈ l := by
      intro t0 ht0 hr0 hn0
      obtain ⟨t1, h1, h2⟩ := chain_fwd hpre hcorr t0 ht0
      rcases h2 with h2 | ⟨x, hx, h2⟩
      · exact absurd h2 (hnd t0 ht0 hn0 t1 h1)
      · have hx0 : x = t0 := by
          cases h1 with
          | same =>
            cases h2 with
            | keep => rfl
            | inv v hv hr => exact absurd hr0 hr
          | inv v hv hr => exact absurd hr0 hr
        subst hx0; exact hx
    refine ⟨_, st, l, h', ⟨hs, hb, rfl, hperm, hver, hnn, ?_, ?_, storeOf_cellsOK hr2 hs, hinst⟩⟩
    · apply chain_map (deinvert1 m g) (deinvert1 m g) (fun x => x.src ∈ g.variables) hpre hcorr hnd _ hsrc
      intro t0 ht0 t1 t2 h1 h2 hq
      exact deinvert1_version hw ht0 (hg.roles t0 ht0).2.2 (two_steps hw (hg.roles t0 ht0).2.2 h1 h2) hq
    · intro k
      refine ⟨hsub k, ?_⟩
      intro hk
      obtain ⟨t0, ht0, hs0, hr0⟩ := hg.labelled k hk
      rw [← hs0]
      exact storeOf_ownInst hs t0 ht0 hr0

theorem goodT_of_version_al {m : Model} {g : Graph} (hw : ModelWf m) (hg : WfGraphAl m g) {x t0 : Triple}
    (ht0 : t0 ∈ g.triples)
    (h : x = t0 ∨ (x = m.invert t0 ∧ (∃ b, t0.tgt = .str b) ∧ t0.role ≠ CONCEPT_ROLE)) : GoodT m x := by
  obtain ⟨r1, r2, r3⟩ := hg.roles t0 ht0
  rcases h with rfl | ⟨rfl, _, _⟩
  · exact ⟨r1, r2, r3, hg.tgts _ ht0⟩
  · refine ⟨by rw [invert_role]; exact head_invertRole m _ r1, by rw [invert_role]; exact invertRole_noTilde m r2,
      by rw [invert_role]; exact canon_invertRole hw r3, ?_⟩
    rw [invert_tgt]; exact Or.inl (hg.srcs t0 ht0)

theorem filter_alnEpis (es : List Epi) (k : Nat) (hk : k ≠ 0) :
    ((alnEpis es).filter fun x => x.mode = k) = es.filter fun x => x.mode = k := by
  unfold alnEpis
  rw [List.filter_filter]
  apply List.filter_congr
  intro x _
  cases x with
  | push _ => simp [Epi.mode, Epi.isLayout]; exact decide_eq_false (fun h => hk h.symm)
  | pop => simp [Epi.mode, Epi.isLayout]; exact decide_eq_false (fun h => hk h.symm)
  | roleAln _ _ => simp [Epi.mode, Epi.isLayout]
  | aln _ _ => simp [Epi.mode, Epi.isLayout]

section
variable {isAlpha : Char → Bool} {m : Model} {g : Graph} {t : Str} {T : Tree} {st : St} {l : List Triple}

theorem mem_placed {c : Cells} {p : Str × List Edge} (hp : p ∈ c) {e : Edge} (he : e ∈ p.2) :
    Cfg.denote p.1 e ∈ placed c := by
  simp only [placed, List.mem_flatMap, List.mem_map]; exact ⟨p, hp, e, he, rfl⟩

/-- each edge of the store: the graph triple it expresses, as it is or inverted once, with its alignments -/
theorem edge_resolved (hw : ModelWf m) (hg : WfGraphAl m g) (E : EncodedAl m g t T st l)
    {p : Str × List Edge} (hp : p ∈ st.cells) {e : Edge} (he : e ∈ p.2) :
    e.role ≠ CONCEPT_ROLE ∧ ∃ t1 ∈ g.triples, e.epis = alnEpis (episOf g t1) ∧
      (Cfg.denote p.1 e = t1 ∨ (Cfg.denote p.1 e = m.invert t1 ∧ (∃ b, t1.tgt = .str b) ∧ t1.role ≠ CONCEPT_ROLE)) := by
  obtain ⟨h1, t1, ht1, tr, hpre, hep, hd⟩ := E.edges p hp e he
  have hl := E.perm.symm.subset (mem_placed hp he)
  have hnn := E.notNull _ hl
  have hstep := step_some hd hnn
  exact ⟨h1, t1, ht1, hep, two_steps hw (hg.roles t1 ht1).2.2 hpre hstep⟩

/-- the facts needed to read an edge back, from `AlignOK` -/
theorem edgeFacts (hw : ModelWf m) (hg : WfGraphAl m g) (hal : AlignOK isAlpha m g)
    (E : EncodedAl m g t T st l) {vars : List Str} (hvmem : ∀ s, s ∈ vars ↔ s ∈ g.variables)
    (hforest : Forest st.cells)
    {p : Str × List Edge} (hp : p ∈ st.cells) {e : Edge} (he : e ∈ p.2) :
    EdgeFacts isAlpha m vars p.1 e ∧ ∃ t1 ∈ g.triples,
      (Cfg.denote p.1 e = t1 ∨ (Cfg.denote p.1 e = m.invert t1 ∧ (∃ b, t1.tgt = .str b) ∧ t1.role ≠ CONCEPT_ROLE)) ∧
      deinvert1 m g (Cfg.denote p.1 e) = deinvert1 m g t1 ∧
      (e.epis.filter fun x => x.mode = 1).getLast? = roleAlnOf g t1 ∧
      (e.epis.filter fun x => x.mode = 2).getLast? = tgtAlnOf g t1 := by
  obtain ⟨hni, t1, ht1, hep, hv⟩ := edge_resolved hw hg E hp he
  have hkey : p.1 ∈ g.variables := (E.keys _).1 (mem_keys_of_mem hp)
  have hf1 : (e.epis.filter fun x => x.mode = 1) = (episOf g t1).filter fun x => x.mode = 1 := by
    rw [hep, filter_alnEpis _ 1 (by decide)]
  have hf2 : (e.epis.filter fun x => x.mode = 2) = (episOf g t1).filter fun x => x.mode = 2 := by
    rw [hep, filter_alnEpis _ 2 (by decide)]
  have hgoodT := goodT_of_version_al hw hg ht1 hv
  refine ⟨⟨hni, hgoodT, ?_, ?_, ?_, ?_, ?_, ?_⟩, t1, ht1, hv, ?_, by rw [hf1]; rfl, by rw [hf2]; rfl⟩
  · intro w hw'
    exact (hvmem w).2 ((E.keys w).1 (hforest p hp e he w hw').2)
  · rw [hf1]; exact (hal.one t1 ht1).1
  · rw [hf2]; exact (hal.one t1 ht1).2
  · intro x hx
    rw [hep] at hx
    exact hal.markers t1 ht1 x (List.mem_filter.1 hx).1
  · intro hne hs
    rw [hf1] at hne
    have hr1 : t1.role ≠ CONCEPT_ROLE := hal.roleAln t1 ht1 (by
      unfold roleAlnOf; intro hh; exact hne (List.getLast?_eq_none_iff.1 hh))
    have hdr : (Cfg.denote p.1 e).role = CONCEPT_ROLE := by simp [Cfg.denote, hs]
    rcases hv with h | ⟨h, _, _⟩
    · rw [h] at hdr; exact hr1 hdr
    · rw [h, invert_role] at hdr; exact (hg.noInstOf t1 ht1 hr1).1 hdr
  · intro hne
    rw [hf2] at hne
    have hat := hal.tgtAln t1 ht1 (by
      unfold tgtAlnOf; intro hh; exact hne (List.getLast?_eq_none_iff.1 hh))
    cases htg : t1.tgt with
    | none => rw [htg] at hat; exact absurd hat (by simp [AlnTgtOK])
    | num _ => rw [htg] at hat; exact absurd hat (by simp [AlnTgtOK])
    | str s =>
      rw [htg] at hat
      obtain ⟨hsv, hst⟩ := hat
      have hd1 : Cfg.denote p.1 e = t1 := by
        rcases hv with h | ⟨h, ⟨b, hb⟩, _⟩
        · exact h
        · exfalso
          have : (m.invert t1).src = b := invert_src m t1 b hb
          rw [← h] at this
          have hb' : b = s := by rw [htg] at hb; simpa using hb.symm
          apply hsv; rw [← hb', ← this]; exact hkey
      have htgt : (Cfg.denote p.1 e).tgt = .str s := by rw [hd1, htg]
      refine ⟨s, ?_, fun h => hsv ((hvmem s).1 h), hst⟩
      cases hte : e.tgt with
      | atom a => simp only [Cfg.denote, hte] at htgt; rw [htgt]
      | node w =>
        exfalso
        simp only [Cfg.denote, hte, Atom.str.injEq] at htgt
        have := (E.keys w).1 (hforest p hp e he w hte).2
        rw [htgt] at this; exact hsv this
  · exact deinvert1_version hw ht1 (hg.roles t1 ht1).2.2 hv hkey
end

end Al
end Cfg
end Penman

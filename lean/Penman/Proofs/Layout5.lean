/-
  Penman.Proofs.Layout5 — C02, encode side: the cell store `runNode` builds is
  `storeN` (one cell per node, in depth-first order, holding that node's
  branches as edges), and `buildNode` on it reproduces the tree.
-/
import Penman.Proofs.Layout4
namespace Penman
namespace C02

variable (isAlpha : Char → Bool) (m : Model)

/-! ### the expected store -/

def branchEdges (role : Str) (a : Atom) : List Edge :=
  if role = ['/'] then
    (if (atomCore isAlpha a).isMissing then []
     else [⟨['/'], .atom (atomCore isAlpha a), roleEpis isAlpha role ++ atomEpis isAlpha a⟩])
  else [⟨roleCore isAlpha role, .atom (atomCore isAlpha a), roleEpis isAlpha role ++ atomEpis isAlpha a⟩]

/-- the edges of a node's cell -/
def edgesB : Branches → List Edge
  | .nil => []
  | .atom role a rest => branchEdges isAlpha role a ++ edgesB rest
  | .sub role n rest => ⟨roleCore isAlpha role, .node (n.var.getD []), roleEpis isAlpha role⟩ :: edgesB rest

mutual
def storeN : Node → AList Str (List Edge)
  | .mk v bs => (v.getD [], edgesB isAlpha bs) :: storeB bs
def storeB : Branches → AList Str (List Edge)
  | .nil => []
  | .atom _ _ rest => storeB rest
  | .sub _ n rest => storeN n ++ storeB rest
end

mutual
theorem keys_storeN : ∀ (n : Node), LNode isAlpha m n → AList.keys (storeN isAlpha n) = n.vars
  | .mk v bs => by
    intro h
    obtain ⟨var, rfl, hb, _⟩ := h
    simp only [storeN, AList.keys, List.map_cons, Option.getD_some, vars_mk, List.cons.injEq, true_and]
    exact keys_storeB var bs hb
theorem keys_storeB (var : Str) : ∀ (bs : Branches), LB isAlpha m var bs → AList.keys (storeB isAlpha bs) = nvB bs
  | .nil => by intro _; rfl
  | .atom role a rest => by
    intro h; simp only [storeB, nvB_atom]; exact keys_storeB var rest h.2.2
  | .sub role n rest => by
    intro h
    have h1 := keys_storeN n h.2.1
    have h2 := keys_storeB var rest h.2.2
    simp only [AList.keys] at h1 h2
    simp only [storeB, nvB_sub, AList.keys, List.map_append, h1, h2]
end

/-! ### store algebra -/

theorem cell_eq (st : St) (v : Str) (hv : v ∈ AList.keys st.cells) : AList.get? st.cells v = some (st.cell v) := by
  unfold St.cell
  cases h : AList.get? st.cells v with
  | none =>
    have : (AList.get? st.cells v).isSome := by
      unfold AList.get? AList.keys at *
      simp only [List.mem_map] at hv
      obtain ⟨p, hp, rfl⟩ := hv
      cases hf : List.find? (fun x => decide (x.1 = p.1)) st.cells with
      | none => exact absurd (List.find?_eq_none.1 hf p hp) (by simp)
      | some q => simp
    simp [h] at this
  | some es => rfl

theorem set_self {α β : Type} [DecidableEq α] (l : AList α β) (k : α) (v : β) (h : AList.get? l k = some v) :
    AList.set l k v = l := by
  induction l with
  | nil => simp [AList.get?] at h
  | cons p l ih =>
    obtain ⟨k', v'⟩ := p
    rw [get?_cons] at h
    by_cases hk : k' = k
    · simp only [hk, if_true, Option.some.injEq] at h; simp [AList.set, hk, h]
    · simp only [hk, if_false] at h; simp [AList.set, hk, ih h]

theorem cells_noteSite (st : St) (var : Str) (t : Atom) : (st.noteSite var t).cells = st.cells := by
  unfold St.noteSite
  cases t with
  | str v => simp only; split <;> rfl
  | none => rfl
  | num s => rfl

theorem cell_noteSite (st : St) (var : Str) (t : Atom) (v : Str) : (st.noteSite var t).cell v = st.cell v := by
  unfold St.cell; rw [cells_noteSite]

theorem mem_keys_set {α β : Type} [DecidableEq α] (l : AList α β) (k x : α) (v : β) (h : x ∈ AList.keys l) :
    x ∈ AList.keys (AList.set l k v) := by
  induction l with
  | nil => simp [AList.keys] at h
  | cons p l ih =>
    obtain ⟨k', w⟩ := p
    by_cases hk : k' = k
    · simpa [AList.set, hk, AList.keys] using h
    · simp only [AList.set, hk, if_false, AList.keys, List.map_cons, List.mem_cons] at h ⊢
      rcases h with h | h
      · exact Or.inl h
      · exact Or.inr (ih h)

/-- appending an edge to the cell of `var` when the store is `base` (containing `var`) plus new cells -/
theorem addBack_cells (st : St) (var : Str) (e : Edge) :
    (st.addBack var e).cells = st.cells.set var (st.cell var ++ [e]) := rfl

theorem slot_ne_slash {var role : Str} {a : Atom} (h : RoleSlot isAlpha m var role a) (hr : role ≠ ['/']) :
    RoleFacts isAlpha m role := by
  rcases h with rfl | ⟨h, _⟩
  · exact absurd rfl hr
  · exact roleFacts isAlpha m h

mutual
theorem cells_node : ∀ (n : Node), LNode isAlpha m n → n.vars.Nodup → ∀ (st : St),
    (n.var.getD []) ∈ AList.keys st.cells → st.cell (n.var.getD []) = [] →
    (∀ x ∈ nvB n.bs, x ∉ AList.keys st.cells) →
    (runNode isAlpha st n).cells = st.cells.set (n.var.getD []) (edgesB isAlpha n.bs) ++ storeB isAlpha n.bs
  | .mk v bs => by
    intro h hnd st hk hc hnew
    obtain ⟨var, rfl, hb, hns⟩ := h
    simp only [vars_mk, List.nodup_cons] at hnd
    simp only [Node.var, Option.getD_some, Node.bs, runNode] at hk hc hnew ⊢
    cases bs with
    | nil =>
      simp only [runBranches, edgesB, storeB, List.append_nil]
      rw [set_self]; rw [cell_eq st var hk, hc]
    | sub role n rest =>
      have hno : NoSlash (.sub role n rest) := ⟨roleOk_ne_slash isAlpha m hb.1, hns⟩
      have := cells_branches var (.sub role n rest) hb hno hnd.1 hnd.2 st hk hnew
      rw [this, hc, List.nil_append]
    | atom role a rest =>
      by_cases hr : role = ['/']
      · subst hr
        simp only [Branches.tl] at hns
        simp only [nvB_atom] at hnd hnew
        simp only [runBranches, slash_core, if_true, edgesB, branchEdges, storeB]
        cases hm : (atomCore isAlpha a).isMissing with
        | true =>
          simp only [if_true, List.nil_append]
          have := cells_branches var rest hb.2.2 hns hnd.1 hnd.2 st hk hnew
          rw [this, hc, List.nil_append]
        | false =>
          simp only [Bool.false_eq_true, if_false]
          have hk' : var ∈ AList.keys (st.addFront var
              ⟨['/'], .atom (atomCore isAlpha a), roleEpis isAlpha ['/'] ++ atomEpis isAlpha a⟩).cells :=
            mem_keys_set _ _ _ _ hk
          have := cells_branches var rest hb.2.2 hns hnd.1 hnd.2 _ hk' (by
            intro x hx
            show x ∉ AList.keys (AList.set st.cells var _)
            rw [keys_set_mem _ _ _ hk]; exact hnew x hx)
          rw [this]
          have e1 : (st.addFront var ⟨['/'], .atom (atomCore isAlpha a),
              roleEpis isAlpha ['/'] ++ atomEpis isAlpha a⟩).cell var =
              [⟨['/'], .atom (atomCore isAlpha a), roleEpis isAlpha ['/'] ++ atomEpis isAlpha a⟩] := by
            unfold St.cell St.addFront
            simp only
            rw [get?_set_same]; simp [hc]
          rw [e1]
          show AList.set (AList.set st.cells var _) var _ ++ _ = _
          rw [set_set]
      · have hno : NoSlash (.atom role a rest) := ⟨hr, hns⟩
        have := cells_branches var (.atom role a rest) hb hno hnd.1 hnd.2 st hk hnew
        rw [this, hc, List.nil_append]
theorem cells_branches (var : Str) : ∀ (bs : Branches), LB isAlpha m var bs → NoSlash bs →
    var ∉ nvB bs → (nvB bs).Nodup → ∀ (st : St), var ∈ AList.keys st.cells →
    (∀ x ∈ nvB bs, x ∉ AList.keys st.cells) →
    (runBranches isAlpha var st bs).cells =
      st.cells.set var (st.cell var ++ edgesB isAlpha bs) ++ storeB isAlpha bs
  | .nil => by
    intro _ _ _ _ st hk _
    simp only [runBranches, edgesB, storeB, List.append_nil]
    rw [set_self]; exact cell_eq st var hk
  | .atom role a rest => by
    intro h hns hv hnd st hk hnew
    obtain ⟨hs, ha, hb⟩ := h
    have rf := slot_ne_slash isAlpha m hs hns.1
    simp only [nvB_atom] at hv hnd hnew
    simp only [runBranches, rf.notInst, if_false, edgesB, branchEdges, hns.1, storeB]
    have hk' : var ∈ AList.keys ((st.noteSite var (atomCore isAlpha a)).addBack var
        ⟨roleCore isAlpha role, .atom (atomCore isAlpha a), roleEpis isAlpha role ++ atomEpis isAlpha a⟩).cells := by
      rw [addBack_cells, cells_noteSite]; exact mem_keys_set _ _ _ _ hk
    have := cells_branches var rest hb hns.2 hv hnd _ hk' (by
      intro x hx
      rw [addBack_cells, cells_noteSite, keys_set_mem _ _ _ hk]; exact hnew x hx)
    rw [this]
    have e1 : ((st.noteSite var (atomCore isAlpha a)).addBack var
        ⟨roleCore isAlpha role, .atom (atomCore isAlpha a), roleEpis isAlpha role ++ atomEpis isAlpha a⟩).cell var =
        st.cell var ++ [⟨roleCore isAlpha role, .atom (atomCore isAlpha a),
          roleEpis isAlpha role ++ atomEpis isAlpha a⟩] := by
      unfold St.cell St.addBack
      simp only
      rw [get?_set_same]; simp [St.cell, cells_noteSite]
    rw [e1, addBack_cells, cells_noteSite, cell_noteSite, set_set]
    simp
  | .sub role n rest => by
    intro h hns hv hnd st hk hnew
    obtain ⟨hr, hn, hb⟩ := h
    obtain ⟨nv, nbs, rfl⟩ := LNode_var isAlpha m hn
    simp only [nvB_sub, vars_mk, List.mem_append, List.mem_cons, not_or] at hv hnd hnew
    have hnd' := List.nodup_append.1 hnd
    have hnn : (Node.mk (some nv) nbs).vars.Nodup := by simpa using hnd'.1
    have hnvk : nv ∉ AList.keys st.cells := hnew nv (Or.inl (Or.inl rfl))
    simp only [runBranches, edgesB, storeB, Node.var, Option.getD_some]
    -- the nested node
    have c1 : (st.newCell nv).cells = st.cells ++ [(nv, [])] := set_new _ _ _ hnvk
    have e2 := cells_node (.mk (some nv) nbs) hn hnn (st.newCell nv)
      (by simp only [Node.var, Option.getD_some, c1, AList.keys, List.map_append]; simp)
      (by simp only [Node.var, Option.getD_some, St.cell, c1]
          rw [get?_append_right _ _ _ hnvk]; simp [get?_cons])
      (by
        intro x hx
        simp only [Node.bs] at hx
        simp only [c1, AList.keys, List.map_append, List.map_cons, List.map_nil, List.mem_append,
          List.mem_singleton, not_or]
        refine ⟨hnew x (Or.inl (Or.inr hx)), ?_⟩
        rintro rfl; exact (List.nodup_cons.1 hnd'.1).1 hx)
    simp only [Node.var, Option.getD_some, Node.bs] at e2
    have e2' : (runNode isAlpha (st.newCell nv) (.mk (some nv) nbs)).cells =
        st.cells ++ storeN isAlpha (.mk (some nv) nbs) := by
      rw [e2, c1, set_append_right _ _ _ _ hnvk]
      simp [AList.set, storeN]
    -- the edge to it
    generalize hR : runNode isAlpha (st.newCell nv) (.mk (some nv) nbs) = R at e2'
    have hcell : R.cell var = st.cell var := by
      unfold St.cell; rw [e2', get?_append_left _ _ _ hk]
    have c2 : (R.addBack var ⟨roleCore isAlpha role, .node nv, roleEpis isAlpha role⟩).cells =
        st.cells.set var (st.cell var ++ [⟨roleCore isAlpha role, .node nv, roleEpis isAlpha role⟩]) ++
          storeN isAlpha (.mk (some nv) nbs) := by
      rw [addBack_cells, hcell, e2', set_append_left _ _ _ _ hk]
    have hks := keys_storeN isAlpha m _ hn
    have hk2 : var ∈ AList.keys (R.addBack var ⟨roleCore isAlpha role, .node nv, roleEpis isAlpha role⟩).cells := by
      rw [c2]; simp only [AList.keys, List.map_append, List.mem_append]
      exact Or.inl (mem_keys_set _ _ _ _ hk)
    have e3 := cells_branches var rest hb hns.2 hv.2 hnd'.2.1 _ hk2 (by
      intro x hx
      rw [c2]
      simp only [AList.keys, List.map_append, List.mem_append, not_or]
      constructor
      · have := keys_set_mem st.cells var (st.cell var ++ [⟨roleCore isAlpha role, .node nv, roleEpis isAlpha role⟩]) hk
        simp only [AList.keys] at this
        rw [this]; exact hnew x (Or.inr hx)
      · simp only [AList.keys] at hks
        rw [hks, vars_mk]
        intro hm
        exact hnd'.2.2 x hm x hx rfl)
    rw [e3]
    have hcell2 : (R.addBack var ⟨roleCore isAlpha role, .node nv, roleEpis isAlpha role⟩).cell var =
        st.cell var ++ [⟨roleCore isAlpha role, .node nv, roleEpis isAlpha role⟩] := by
      unfold St.cell St.addBack
      simp only
      rw [get?_set_same]
      simp only [Option.getD_some]
      show R.cell var ++ _ = _
      rw [hcell]
      rfl
    rw [hcell2, c2, set_append_left _ _ _ _ (mem_keys_set _ _ _ _ hk), set_set]
    simp
end

end C02
end Penman

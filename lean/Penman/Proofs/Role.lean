/-
  Penman.Proofs.Role — helper lemmas for property C13 (role inversion and
  canonicalisation algebra): suffix arithmetic on `Str`, the three-way case
  analysis of a double inversion, termination of the `_canonicalize_inversion`
  loop for every pattern table, invariants of the loop, `ofCount`/`base`,
  and the tree walk `canonNode`.
-/
import Penman.Spec.Role
namespace Penman
namespace Role

/-! ### suffix arithmetic -/

theorem endsWith_iff {p s : Str} : endsWith p s = true ↔ ∃ b, s = b ++ p := by
  unfold endsWith
  rw [List.isSuffixOf_iff_suffix]
  constructor
  · rintro ⟨t, h⟩; exact ⟨t, h.symm⟩
  · rintro ⟨t, h⟩; exact ⟨t, h.symm⟩

@[simp] theorem endsWith_append (b p : Str) : endsWith p (b ++ p) = true :=
  endsWith_iff.2 ⟨b, rfl⟩

theorem dropEnd_append (b p : Str) : dropEnd p.length (b ++ p) = b := by
  unfold dropEnd
  rw [List.length_append, Nat.add_sub_cancel]
  exact List.take_left' rfl

@[simp] theorem dropEnd_of (b : Str) : dropEnd 3 (b ++ ofStr) = b :=
  dropEnd_append b ofStr

@[simp] theorem dropEnd_of' (b : Str) : dropEnd 3 (b ++ ['-', 'o', 'f']) = b :=
  dropEnd_append b ofStr

theorem endsWith_of_eq {r : Str} (h : endsWith ofStr r = true) : r = dropEnd 3 r ++ ofStr := by
  obtain ⟨b, rfl⟩ := endsWith_iff.1 h
  simp

theorem endsWith_false_of_last {p s : Str} {c d : Char} (hp : p.getLast? = some c)
    (hs : s.getLast? = some d) (hcd : c ≠ d) : endsWith p s = false := by
  cases h : endsWith p s with
  | false => rfl
  | true =>
    obtain ⟨b, rfl⟩ := endsWith_iff.1 h
    rw [List.getLast?_append, hp] at hs
    simp at hs
    exact absurd hs hcd

theorem getLast?_append_of (r : Str) : (r ++ ofStr).getLast? = some 'f' := by
  show (r ++ ['-', 'o', 'f']).getLast? = some 'f'
  simp [List.getLast?_append]

theorem endsWith_nl_append_of (r : Str) : endsWith ['\n'] (r ++ ofStr) = false :=
  endsWith_false_of_last (c := '\n') (d := 'f') rfl (getLast?_append_of r) (by decide)

@[simp] theorem length_ofStr : ofStr.length = 3 := rfl

theorem length_append_of (r : Str) : (r ++ ofStr).length = r.length + 3 := by
  simp

/-! ### patterns -/

/-- a pattern matching `x` is the literal `x`, or `x` ends in an ASCII digit -/
theorem matches_cases {p : RolePat} {x : Str} (h : p.matches x = true) :
    p = .lit x ∨ ∃ d, x.getLast? = some d ∧ isAsciiDigit d = true := by
  cases p with
  | lit s =>
    left
    simp only [RolePat.matches, beq_iff_eq] at h
    rw [h]
  | digit s =>
    right
    simp only [RolePat.matches, Bool.and_eq_true] at h
    obtain ⟨_, h2⟩ := h
    split at h2
    · rename_i d hd
      refine ⟨d, ?_, h2⟩
      have := List.getLast?_drop (i := s.length) (l := x)
      rw [hd] at this
      split at this
      · simp at this
      · simpa using this.symm
    · exact absurd h2 (by simp)
  | digits s =>
    right
    simp only [RolePat.matches, Bool.and_eq_true] at h
    obtain ⟨_, h2, h3⟩ := h
    have hne : x.drop s.length ≠ [] := by
      intro h0; rw [h0] at h2; simp at h2
    obtain ⟨d, hd⟩ : ∃ d, (x.drop s.length).getLast? = some d := by
      cases hh : (x.drop s.length).getLast? with
      | none => exact absurd (List.getLast?_eq_none_iff.1 hh) hne
      | some d => exact ⟨d, rfl⟩
    refine ⟨d, ?_, ?_⟩
    · have := List.getLast?_drop (i := s.length) (l := x)
      rw [hd] at this
      split at this
      · simp at this
      · exact this.symm
    · exact List.all_eq_true.1 h3 d (List.mem_of_getLast? hd)

theorem hasRole1_append_of {m : Model} {r : Str} (h : m.hasRole1 (r ++ ofStr) = true) :
    RolePat.lit (r ++ ofStr) ∈ m.pats := by
  unfold Model.hasRole1 at h
  rw [endsWith_nl_append_of] at h
  simp only [Bool.false_and, Bool.or_false] at h
  unfold Model.matchExact at h
  obtain ⟨p, hp, hm⟩ := List.any_eq_true.1 h
  rcases matches_cases hm with rfl | ⟨d, hd, hdig⟩
  · exact hp
  · rw [getLast?_append_of] at hd
    cases hd
    exact absurd hdig (by decide)

/-! ### one and two inversions -/

variable {m : Model}

theorem invertRole_inv {r : Str} (h1 : m.hasRole1 r = false) (h2 : endsWith ofStr r = true) :
    m.invertRole r = dropEnd 3 r := by
  simp [Model.invertRole, h1, h2]

theorem invertRole_def {r : Str} (h : m.hasRole1 r = true) : m.invertRole r = r ++ ofStr := by
  simp [Model.invertRole, h]

theorem invertRole_plain {r : Str} (h : endsWith ofStr r = false) : m.invertRole r = r ++ ofStr := by
  simp [Model.invertRole, h]

/-- the condition under which a double inversion removes `-of-of` -/
def Down (m : Model) (r : Str) : Prop :=
  ∃ b, r = b ++ ofStr ++ ofStr ∧ m.hasRole1 r = false ∧ m.hasRole1 (b ++ ofStr) = false

/-- the three possible effects of `invert_role ∘ invert_role` -/
theorem invInv_cases (m : Model) (r : Str) :
    (m.invertRole (m.invertRole r) = r ∧ ¬ Down m r)
    ∨ (∃ b, r = b ++ ofStr ++ ofStr ∧ m.hasRole1 r = false ∧ m.hasRole1 (b ++ ofStr) = false
        ∧ m.invertRole (m.invertRole r) = b)
    ∨ (m.hasRole1 (r ++ ofStr) = true ∧ ¬ Down m r
        ∧ m.invertRole (m.invertRole r) = r ++ ofStr ++ ofStr) := by
  by_cases hA : m.hasRole1 r = false ∧ endsWith ofStr r = true
  · obtain ⟨h1, h2⟩ := hA
    obtain ⟨s, rfl⟩ := endsWith_iff.1 h2
    rw [invertRole_inv h1 h2, dropEnd_of]
    by_cases hB : m.hasRole1 s = false ∧ endsWith ofStr s = true
    · obtain ⟨h3, h4⟩ := hB
      obtain ⟨b, rfl⟩ := endsWith_iff.1 h4
      right; left
      exact ⟨b, rfl, h1, h3, by rw [invertRole_inv h3 h4, dropEnd_of]⟩
    · left
      have hs : m.invertRole s = s ++ ofStr := by
        simp only [Model.invertRole]
        rw [if_neg]
        intro hc
        simp only [Bool.and_eq_true, Bool.not_eq_true'] at hc
        exact hB hc
      refine ⟨hs, ?_⟩
      rintro ⟨b, hb, _, hb2⟩
      have : s = b ++ ofStr := List.append_cancel_right hb
      subst this
      exact hB ⟨hb2, endsWith_append _ _⟩
  · have hr : m.invertRole r = r ++ ofStr := by
      simp only [Model.invertRole]
      rw [if_neg]
      intro hc
      simp only [Bool.and_eq_true, Bool.not_eq_true'] at hc
      exact hA hc
    have hnd : ¬ Down m r := by
      rintro ⟨b, hb, h1, _⟩
      apply hA
      refine ⟨h1, ?_⟩
      rw [hb]; exact endsWith_append _ _
    rw [hr]
    cases hH : m.hasRole1 (r ++ ofStr) with
    | false =>
      left
      refine ⟨?_, hnd⟩
      rw [invertRole_inv hH (endsWith_append _ _), dropEnd_of]
    | true =>
      right; right
      exact ⟨rfl, hnd, invertRole_def hH⟩

/-! ### termination of the loop, for every pattern table -/

/-- number of literal patterns of length at least `n` -/
def litLong (m : Model) (n : Nat) : Nat :=
  m.pats.countP (fun p => match p with | .lit s => decide (n ≤ s.length) | _ => false)

theorem litLong_le (m : Model) (n : Nat) : litLong m n ≤ m.pats.length :=
  List.countP_le_length

theorem countP_lt_of_witness {α : Type} {p q : α → Bool} {l : List α}
    (hpq : ∀ x, p x = true → q x = true) {a : α} (ha : a ∈ l) (hqa : q a = true)
    (hpa : p a = false) : l.countP p < l.countP q := by
  induction l with
  | nil => cases ha
  | cons x xs ih =>
    have hmono : xs.countP p ≤ xs.countP q := List.countP_mono_left (fun x _ h => hpq x h)
    rw [List.countP_cons, List.countP_cons]
    rcases List.mem_cons.1 ha with rfl | hmem
    · simp [hqa, hpa]; omega
    · have := ih hmem
      by_cases hx : p x = true
      · simp [hx, hpq x hx]; omega
      · simp [hx]; split <;> omega

theorem litLong_step {r : Str} (h : m.hasRole1 (r ++ ofStr) = true) :
    litLong m (r.length + 9) < litLong m (r.length + 3) := by
  unfold litLong
  apply countP_lt_of_witness (a := RolePat.lit (r ++ ofStr))
  · intro p hp
    cases p <;> simp_all
    omega
  · exact hasRole1_append_of h
  · simp
  · simp

/-- once no `-of-of` can be removed, the loop only appends, and each append
    uses up one literal pattern -/
theorem canonLoop_up : ∀ (f : Nat) (r : Str), ¬ Down m r → litLong m (r.length + 3) < f →
    ∃ r', m.canonLoop f r = some r' := by
  intro f
  induction f with
  | zero => intro r _ h; omega
  | succ f ih =>
    intro r hnd hf
    simp only [Model.canonLoop]
    rcases invInv_cases m r with ⟨hfix, _⟩ | ⟨b, hb, h1, h2, _⟩ | ⟨hH, _, hup⟩
    · exact ⟨r, by rw [if_pos hfix]⟩
    · exact absurd ⟨b, hb, h1, h2⟩ hnd
    · rw [hup]
      split
      · exact ⟨_, rfl⟩
      · apply ih
        · rintro ⟨b, hb, _, hb2⟩
          have : r = b := List.append_cancel_right (List.append_cancel_right hb)
          subst this
          rw [hH] at hb2; cases hb2
        · have := litLong_step hH
          simp only [List.length_append, length_ofStr]
          have e : r.length + 3 + 3 + 3 = r.length + 9 := by omega
          rw [e]; omega

theorem canonLoop_terminates : ∀ (f : Nat) (r : Str), r.length + m.pats.length + 2 ≤ f →
    ∃ r', m.canonLoop f r = some r' := by
  intro f
  induction f with
  | zero => intro r h; omega
  | succ f ih =>
    intro r hf
    by_cases hd : Down m r
    · obtain ⟨b, hb, h1, h2⟩ := hd
      rcases invInv_cases m r with ⟨_, hnd⟩ | ⟨b', hb', _, _, hdown⟩ | ⟨_, hnd, _⟩
      · exact absurd ⟨b, hb, h1, h2⟩ hnd
      · simp only [Model.canonLoop]
        rw [hdown]
        split
        · exact ⟨_, rfl⟩
        · apply ih
          have : r.length = b'.length + 6 := by
            rw [hb']; simp
          omega
      · exact absurd ⟨b, hb, h1, h2⟩ hnd
    · apply canonLoop_up _ _ hd
      have := litLong_le m (r.length + 3)
      omega

/-- `_canonicalize_inversion` terminates within `canonFuel` for EVERY model -/
theorem canonInversion_terminates (m : Model) (r : Str) : ∃ r', m.canonInversion r = some r' := by
  unfold Model.canonInversion
  split
  · exact ⟨r, rfl⟩
  · apply canonLoop_terminates
    unfold Model.canonFuel
    omega

/-! ### loop invariants and fixed points -/

theorem canonLoop_fix {r : Str} (h : m.invertRole (m.invertRole r) = r) (f : Nat) :
    m.canonLoop (f+1) r = some r := by
  simp [Model.canonLoop, h]

/-- any property preserved by a double inversion is preserved by the loop,
    and the loop ends at a fixed point of the double inversion -/
theorem canonLoop_inv (P : Str → Prop) (hP : ∀ x, P x → P (m.invertRole (m.invertRole x))) :
    ∀ (f : Nat) (r r' : Str), P r → m.canonLoop f r = some r' →
      P r' ∧ m.invertRole (m.invertRole r') = r' := by
  intro f
  induction f with
  | zero => intro r r' _ h; simp [Model.canonLoop] at h
  | succ f ih =>
    intro r r' hr h
    simp only [Model.canonLoop] at h
    split at h
    · rename_i heq
      cases h
      exact ⟨hr, heq⟩
    · exact ih _ _ (hP r hr) h

theorem canonInversion_inv (P : Str → Prop) (hP : ∀ x, P x → P (m.invertRole (m.invertRole x)))
    {r r' : Str} (hr : P r) (h : m.canonInversion r = some r') : P r' := by
  unfold Model.canonInversion at h
  split at h
  · cases h; exact hr
  · exact (canonLoop_inv P hP _ _ _ hr h).1

/-- the result of `_canonicalize_inversion` is defined or a fixed point of the double inversion -/
theorem canonInversion_result {r r' : Str} (h : m.canonInversion r = some r') :
    m.hasRole1 r' = true ∨ m.invertRole (m.invertRole r') = r' := by
  unfold Model.canonInversion at h
  split at h
  · rename_i hH; cases h; exact Or.inl hH
  · exact Or.inr (canonLoop_inv (fun _ => True) (fun _ _ => trivial) _ _ _ trivial h).2

theorem canonInversion_fixed_iff {r : Str} :
    m.canonInversion r = some r ↔ (m.hasRole1 r = true ∨ m.invertRole (m.invertRole r) = r) := by
  constructor
  · exact canonInversion_result
  · intro h
    unfold Model.canonInversion
    split
    · rfl
    · rcases h with h | h
      · contradiction
      · exact canonLoop_fix h _

/-- `_canonicalize_inversion` is idempotent, for every model -/
theorem canonInversion_idem {r r' : Str} (h : m.canonInversion r = some r') :
    m.canonInversion r' = some r' :=
  canonInversion_fixed_iff.2 (canonInversion_result h)

/-! ### `ofPow`, `ofCount`, `base` -/

theorem ofStr_append_ofPow (n : Nat) : ofStr ++ ofPow n = ofPow n ++ ofStr := by
  induction n with
  | zero => simp [ofPow]
  | succ n ih => simp only [ofPow]; rw [← List.append_assoc, ih]

theorem ofPow_two_mul_succ (j : Nat) : ofPow (2 * (j+1)) = ofPow (2*j) ++ ofStr ++ ofStr := by
  rw [Nat.mul_succ]; rfl

theorem ofPow_two_mul_succ' (j : Nat) : ofPow (2 * (j+1)) = ofStr ++ ofStr ++ ofPow (2*j) := by
  rw [ofPow_two_mul_succ, List.append_assoc ofStr, ofStr_append_ofPow, ← List.append_assoc,
    ofStr_append_ofPow]

theorem reverse_append_of (r : Str) : (r ++ ofStr).reverse = 'f' :: 'o' :: '-' :: r.reverse := by
  simp [ofStr]

theorem ofCount_append_of (r : Str) : ofCount (r ++ ofStr) = ofCount r + 1 := by
  unfold ofCount; rw [reverse_append_of]; simp [stripOfRev]

theorem base_append_of (r : Str) : base (r ++ ofStr) = base r := by
  unfold base; rw [reverse_append_of]; simp [stripOfRev]

theorem strip_of_not_endsWith {r : Str} (h : endsWith ofStr r = false) :
    stripOfRev r.reverse = (0, r.reverse) := by
  generalize hl : r.reverse = l
  match l, hl with
  | c1 :: c2 :: c3 :: rest, hl =>
    simp only [stripOfRev]
    split
    · rename_i hc
      obtain ⟨rfl, rfl, rfl⟩ := hc
      have : r = rest.reverse ++ ofStr := by
        have := congrArg List.reverse hl
        simpa [ofStr] using this
      rw [this, endsWith_append] at h
      cases h
    · rfl
  | [], _ => simp [stripOfRev]
  | [_], _ => simp [stripOfRev]
  | [_, _], _ => simp [stripOfRev]

theorem ofCount_of_not_endsWith {r : Str} (h : endsWith ofStr r = false) : ofCount r = 0 := by
  simp [ofCount, strip_of_not_endsWith h]

theorem base_of_not_endsWith {r : Str} (h : endsWith ofStr r = false) : base r = r := by
  simp [base, strip_of_not_endsWith h]

theorem ofCount_append_ofPow (r : Str) (n : Nat) : ofCount (r ++ ofPow n) = ofCount r + n := by
  induction n with
  | zero => simp [ofPow]
  | succ n ih => simp only [ofPow]; rw [← List.append_assoc, ofCount_append_of, ih]; omega

theorem base_append_ofPow (r : Str) (n : Nat) : base (r ++ ofPow n) = base r := by
  induction n with
  | zero => simp [ofPow]
  | succ n ih => simp only [ofPow]; rw [← List.append_assoc, base_append_of, ih]

/-- `base`/`ofCount` really decompose the role -/
theorem base_spec (r : Str) : r = base r ++ ofPow (ofCount r) ∧ endsWith ofStr (base r) = false := by
  generalize hn : r.length = n
  induction n using Nat.strongRecOn generalizing r with
  | _ n ih =>
    cases h : endsWith ofStr r with
    | false =>
      rw [base_of_not_endsWith h, ofCount_of_not_endsWith h]
      simp [ofPow, h]
    | true =>
      obtain ⟨b, rfl⟩ := endsWith_iff.1 h
      have hb := ih b.length (by rw [← hn]; simp) b rfl
      rw [base_append_of, ofCount_append_of]
      refine ⟨?_, hb.2⟩
      simp only [ofPow]
      rw [← List.append_assoc, ← hb.1]

/-! ### what `_canonicalize_inversion` does to the `-of` suffixes -/

/-- a double inversion adds or removes exactly one `-of-of` or nothing -/
theorem invInv_pair_inv (r : Str) (x : Str)
    (hx : ∃ j, r = x ++ ofPow (2*j) ∨ x = r ++ ofPow (2*j)) :
    ∃ j, r = m.invertRole (m.invertRole x) ++ ofPow (2*j)
      ∨ m.invertRole (m.invertRole x) = r ++ ofPow (2*j) := by
  obtain ⟨j, hj⟩ := hx
  rcases invInv_cases m x with ⟨hfix, _⟩ | ⟨b, hb, _, _, hdown⟩ | ⟨_, _, hup⟩
  · rw [hfix]; exact ⟨j, hj⟩
  · rw [hdown]
    rcases hj with hj | hj
    · refine ⟨j+1, Or.inl ?_⟩
      rw [hj, hb, ofPow_two_mul_succ']
      simp only [List.append_assoc]
    · cases j with
      | zero =>
        refine ⟨1, Or.inl ?_⟩
        simp only [ofPow, List.append_nil] at hj
        rw [← hj, hb]
        simp [ofPow]
      | succ j =>
        refine ⟨j, Or.inr ?_⟩
        rw [hb, ofPow_two_mul_succ, ← List.append_assoc, ← List.append_assoc] at hj
        exact List.append_cancel_right (List.append_cancel_right hj)
  · rw [hup]
    rcases hj with hj | hj
    · cases j with
      | zero =>
        refine ⟨1, Or.inr ?_⟩
        simp only [ofPow, List.append_nil] at hj
        rw [hj]; simp [ofPow]
      | succ j =>
        refine ⟨j, Or.inl ?_⟩
        rw [hj, ofPow_two_mul_succ']
        simp only [List.append_assoc]
    · refine ⟨j+1, Or.inr ?_⟩
      rw [hj, ofPow_two_mul_succ]
      simp only [List.append_assoc]

theorem canonInversion_pairs {r r' : Str} (h : m.canonInversion r = some r') :
    ∃ j, r = r' ++ ofPow (2*j) ∨ r' = r ++ ofPow (2*j) :=
  canonInversion_inv (fun x => ∃ j, r = x ++ ofPow (2*j) ∨ x = r ++ ofPow (2*j))
    (fun x hx => invInv_pair_inv r x hx) ⟨0, Or.inl (by simp [ofPow])⟩ h

/-- if `r ++ "-of"` is not a defined role the loop can only remove pairs -/
theorem canonInversion_removes {r r' : Str} (hno : m.hasRole1 (r ++ ofStr) = false)
    (h : m.canonInversion r = some r') : ∃ j, r = r' ++ ofPow (2*j) := by
  have := canonInversion_inv
    (fun x => m.hasRole1 (x ++ ofStr) = false ∧ ∃ j, r = x ++ ofPow (2*j)) ?_
    ⟨hno, 0, by simp [ofPow]⟩ h
  · exact this.2
  · rintro x ⟨hx, j, hj⟩
    rcases invInv_cases m x with ⟨hfix, _⟩ | ⟨b, hb, _, hb2, hdown⟩ | ⟨hH, _, _⟩
    · rw [hfix]; exact ⟨hx, j, hj⟩
    · rw [hdown]
      refine ⟨hb2, j+1, ?_⟩
      rw [hj, hb, ofPow_two_mul_succ']
      simp only [List.append_assoc]
    · rw [hH] at hx; cases hx

/-! ### consequences of `ModelWf` -/

theorem wf_pair (hw : m.noDefinedPair = true) {r : Str} (h : m.hasRole1 r = true) :
    m.hasRole1 (r ++ ofStr) = false := by
  cases hH : m.hasRole1 (r ++ ofStr) with
  | false => rfl
  | true =>
    have hmem := hasRole1_append_of hH
    have := List.all_eq_true.1 hw _ hmem
    simp [h] at this

/-- the decidable check `noDefinedPair` is exactly "no `r` with `r` and `r-of` both defined" -/
theorem noDefinedPair_iff :
    m.noDefinedPair = true ↔ ∀ r, m.hasRole1 r = true → m.hasRole1 (r ++ ofStr) = false := by
  constructor
  · intro hw r h; exact wf_pair hw h
  · intro h
    unfold Model.noDefinedPair
    apply List.all_eq_true.2
    intro p hp
    cases p with
    | digit s => rfl
    | digits s => rfl
    | lit s =>
      cases he : endsWith ofStr s with
      | false => simp [he]
      | true =>
        obtain ⟨b, rfl⟩ := endsWith_iff.1 he
        have hdef : m.hasRole1 (b ++ ofStr) = true := by
          unfold Model.hasRole1 Model.matchExact
          rw [Bool.or_eq_true]; left
          exact List.any_eq_true.2 ⟨_, hp, by simp [RolePat.matches]⟩
        cases hb : m.hasRole1 b with
        | false => simp [hb]
        | true => rw [h b hb] at hdef; cases hdef

theorem wf_norm (hw : m.normOk = true) {k v : Str} (h : AList.get? m.norm k = some v) :
    (v = ['/'] ∨ v.head? = some ':') ∧ '~' ∉ v ∧ m.canonRole v = some v := by
  unfold AList.get? at h
  cases hf : m.norm.find? (·.1 = k) with
  | none => rw [hf] at h; cases h
  | some kv =>
    rw [hf] at h
    simp only [Option.map_some, Option.some.injEq] at h
    have hmem := List.mem_of_find?_eq_some hf
    have := List.all_eq_true.1 hw _ hmem
    rw [h] at this
    simp only [Bool.and_eq_true, Bool.or_eq_true, beq_iff_eq, Bool.not_eq_true',
      List.contains_eq_mem, decide_eq_false_iff_not] at this
    obtain ⟨⟨h1, h2⟩, h3⟩ := this
    refine ⟨?_, h2, h3⟩
    rcases h1 with h1 | h1
    · exact Or.inl h1
    · right
      cases v with
      | nil => simp [startsWith, List.isPrefixOf] at h1
      | cons c cs =>
        simp [startsWith, List.isPrefixOf] at h1
        subst h1; rfl

/-! ### colon and tilde -/

theorem addColon_spec (r : Str) : addColon r = ['/'] ∨ (addColon r).head? = some ':' := by
  unfold addColon
  split
  · right; rfl
  · rename_i h
    simp only [ne_eq, Bool.and_eq_true, decide_eq_true_eq, Bool.not_eq_true', not_and,
      Bool.not_eq_false] at h
    by_cases hr : r = ['/']
    · exact Or.inl hr
    · right
      have := h hr
      cases r with
      | nil => simp [startsWith, List.isPrefixOf] at this
      | cons c cs =>
        simp [startsWith, List.isPrefixOf] at this
        subst this; rfl

theorem addColon_of_ok {r : Str} (h : r = ['/'] ∨ r.head? = some ':') : addColon r = r := by
  unfold addColon
  rw [if_neg]
  rcases h with rfl | h
  · simp
  · cases r with
    | nil => cases h
    | cons c cs =>
      simp only [List.head?_cons, Option.some.injEq] at h
      subst h
      simp [startsWith, List.isPrefixOf]

theorem addColon_noTilde {r : Str} (h : '~' ∉ r) : '~' ∉ addColon r := by
  unfold addColon
  split
  · simp only [List.mem_cons, not_or]; exact ⟨by decide, h⟩
  · exact h

theorem invInv_head (x : Str) (hx : x.head? = some ':') :
    (m.invertRole (m.invertRole x)).head? = some ':' := by
  have hne : x ≠ [] := by rintro rfl; cases hx
  rcases invInv_cases m x with ⟨hfix, _⟩ | ⟨b, hb, _, _, hdown⟩ | ⟨_, _, hup⟩
  · rw [hfix]; exact hx
  · rw [hdown]
    cases b with
    | nil => rw [hb] at hx; cases hx
    | cons c cs => rw [hb] at hx; simpa using hx
  · rw [hup]
    cases x with
    | nil => exact absurd rfl hne
    | cons c cs => simpa using hx

theorem invInv_noTilde (x : Str) (hx : '~' ∉ x) : '~' ∉ m.invertRole (m.invertRole x) := by
  rcases invInv_cases m x with ⟨hfix, _⟩ | ⟨b, hb, _, _, hdown⟩ | ⟨_, _, hup⟩
  · rw [hfix]; exact hx
  · rw [hdown]
    intro hb'
    apply hx
    rw [hb]
    simp [hb']
  · rw [hup]
    simp only [List.mem_append, not_or]
    exact ⟨⟨hx, by decide⟩, by decide⟩

theorem canonInversion_slash (hw : m.slashOk = true) : m.canonInversion ['/'] = some ['/'] := by
  apply canonInversion_fixed_iff.2
  right
  have h1 : m.hasRole1 ('/' :: ofStr) = false := by simpa [Model.slashOk] using hw
  have e1 : m.invertRole ['/'] = '/' :: ofStr := invertRole_plain (r := ['/']) (by decide)
  have e2 : m.invertRole ('/' :: ofStr) = dropEnd 3 ('/' :: ofStr) :=
    invertRole_inv h1 (by decide)
  rw [e1, e2]
  decide

/-- the result of `_canonicalize_inversion` on a coloned role (or `/`) is coloned (or `/`) -/
theorem canonInversion_colon (hw : m.slashOk = true) {r r' : Str}
    (hr : r = ['/'] ∨ r.head? = some ':') (h : m.canonInversion r = some r') :
    r' = ['/'] ∨ r'.head? = some ':' := by
  rcases hr with rfl | hr
  · rw [canonInversion_slash hw] at h; cases h; exact Or.inl rfl
  · exact Or.inr (canonInversion_inv (fun x => x.head? = some ':') invInv_head hr h)

theorem canonInversion_noTilde {r r' : Str} (hr : '~' ∉ r) (h : m.canonInversion r = some r') :
    '~' ∉ r' :=
  canonInversion_inv (fun x => '~' ∉ x) invInv_noTilde hr h

/-! ### `canonRole` -/

theorem canonRole_eq (m : Model) (r : Str) :
    m.canonRole r = (m.canonInversion (addColon r)).map
      (fun r1 => (AList.get? m.norm r1).getD r1) := by
  unfold Model.canonRole addColon
  dsimp only
  split <;> (rename_i heq; rw [heq]; rfl)

theorem canonRole_terminates (m : Model) (r : Str) : ∃ r', m.canonRole r = some r' := by
  obtain ⟨r1, h1⟩ := canonInversion_terminates m (addColon r)
  exact ⟨_, by rw [canonRole_eq, h1]; rfl⟩

theorem canonRole_iff {r r' : Str} :
    m.canonRole r = some r' ↔
      ∃ r1, m.canonInversion (addColon r) = some r1 ∧ r' = (AList.get? m.norm r1).getD r1 := by
  rw [canonRole_eq]
  cases m.canonInversion (addColon r) with
  | none => simp
  | some r1 => simp [eq_comm]

theorem canonRole_colon (hs : m.slashOk = true) (hn : m.normOk = true) {r r' : Str}
    (h : m.canonRole r = some r') : r' = ['/'] ∨ r'.head? = some ':' := by
  obtain ⟨r1, h1, rfl⟩ := canonRole_iff.1 h
  cases hg : AList.get? m.norm r1 with
  | none => exact canonInversion_colon hs (addColon_spec r) h1
  | some v => exact (wf_norm hn hg).1

theorem canonRole_idem (hs : m.slashOk = true) (hn : m.normOk = true) {r r' : Str}
    (h : m.canonRole r = some r') : m.canonRole r' = some r' := by
  obtain ⟨r1, h1, rfl⟩ := canonRole_iff.1 h
  cases hg : AList.get? m.norm r1 with
  | some v => exact (wf_norm hn hg).2.2
  | none =>
    simp only [Option.getD_none]
    have hc := canonInversion_colon hs (addColon_spec r) h1
    apply canonRole_iff.2
    refine ⟨r1, ?_, by rw [hg]; rfl⟩
    rw [addColon_of_ok hc]
    exact canonInversion_idem h1

theorem canonRole_noTilde (hn : m.normOk = true) {r r' : Str} (hr : '~' ∉ r)
    (h : m.canonRole r = some r') : '~' ∉ r' := by
  obtain ⟨r1, h1, rfl⟩ := canonRole_iff.1 h
  cases hg : AList.get? m.norm r1 with
  | some v => exact (wf_norm hn hg).2.1
  | none => exact canonInversion_noTilde (addColon_noTilde hr) h1

/-! ### inversion on canonical roles -/

theorem inv_involutive (hw : m.noDefinedPair = true) {r : Str} (h : m.canonInversion r = some r) :
    m.invertRole (m.invertRole r) = r ∧ m.isRoleInverted (m.invertRole r) = !m.isRoleInverted r := by
  rcases canonInversion_fixed_iff.1 h with hH | hfix
  · have hno := wf_pair hw hH
    rw [invertRole_def hH, invertRole_inv hno (endsWith_append _ _), dropEnd_of]
    simp [Model.isRoleInverted, hH, hno]
  · refine ⟨hfix, ?_⟩
    cases hH : m.hasRole1 r with
    | true =>
      have hno := wf_pair hw hH
      rw [invertRole_def hH]
      simp [Model.isRoleInverted, hH, hno]
    | false =>
      cases he : endsWith ofStr r with
      | true =>
        obtain ⟨s, rfl⟩ := endsWith_iff.1 he
        rw [invertRole_inv hH he, dropEnd_of] at hfix ⊢
        simp only [Model.isRoleInverted, hH, he, Bool.not_false, Bool.and_self, Bool.not_true]
        -- `s` is not inverted, else the second inversion would have shortened it
        cases hs : (!m.hasRole1 s && endsWith ofStr s) with
        | false => rfl
        | true =>
          simp only [Bool.and_eq_true, Bool.not_eq_true'] at hs
          rw [invertRole_inv hs.1 hs.2] at hfix
          have := congrArg List.length hfix
          obtain ⟨b, rfl⟩ := endsWith_iff.1 hs.2
          simp at this
      | false =>
        rw [invertRole_plain he] at hfix ⊢
        simp only [Model.isRoleInverted, hH, he, Bool.not_false, Bool.and_false, Bool.not_false,
          endsWith_append, Bool.and_true, Bool.not_eq_true']
        cases hs : m.hasRole1 (r ++ ofStr) with
        | false => rfl
        | true =>
          rw [invertRole_def hs] at hfix
          have := congrArg List.length hfix
          simp at this

/-! ### splitting a role token at the first `'~'` -/

theorem partition_cons (c : Char) (cs : Str) :
    partitionStr ['~'] (c :: cs) =
      if c = '~' then ([], true, cs)
      else if (partitionStr ['~'] cs).2.1 then
        (c :: (partitionStr ['~'] cs).1, true, (partitionStr ['~'] cs).2.2)
      else (c :: cs, false, []) := by
  rw [partitionStr]
  by_cases hc : c = '~'
  · subst hc; simp [List.isPrefixOf]
  · have : ¬ '~' = c := fun h => hc h.symm
    simp [List.isPrefixOf, hc, this]

/-- full characterisation of `partition('~')` -/
theorem partition_spec (s : Str) :
    '~' ∉ (partitionStr ['~'] s).1 ∧
    ((partitionStr ['~'] s).2.1 = true → s = (partitionStr ['~'] s).1 ++ '~' :: (partitionStr ['~'] s).2.2) ∧
    ((partitionStr ['~'] s).2.1 = false → (partitionStr ['~'] s).1 = s ∧ (partitionStr ['~'] s).2.2 = []) := by
  induction s with
  | nil => simp [partitionStr]
  | cons c cs ih =>
    rw [partition_cons]
    by_cases hc : c = '~'
    · subst hc; simp
    · rw [if_neg hc]
      cases hf : (partitionStr ['~'] cs).2.1 with
      | true =>
        simp only [if_true, List.mem_cons, not_or, true_implies]
        refine ⟨⟨fun h => hc h.symm, ih.1⟩, ?_, by simp⟩
        rw [List.cons_append, ← ih.2.1 hf]
      | false =>
        have := ih.2.2 hf
        simp only [Bool.false_eq_true, if_false, List.mem_cons, not_or]
        refine ⟨⟨fun h => hc h.symm, ?_⟩, by simp, by simp⟩
        rw [← this.1]; exact ih.1

theorem partition_of_noTilde {c : Str} (h : '~' ∉ c) : partitionStr ['~'] c = (c, false, []) := by
  induction c with
  | nil => simp [partitionStr]
  | cons x xs ih =>
    simp only [List.mem_cons, not_or] at h
    rw [partition_cons, if_neg (fun e => h.1 e.symm), ih h.2]
    simp

theorem partition_append {c : Str} (h : '~' ∉ c) (rest : Str) :
    partitionStr ['~'] (c ++ '~' :: rest) = (c, true, rest) := by
  induction c with
  | nil => simp [partition_cons]
  | cons x xs ih =>
    simp only [List.mem_cons, not_or] at h
    rw [List.cons_append, partition_cons, if_neg (fun e => h.1 e.symm), ih h.2]
    simp

theorem rolePart_noTilde (role : Str) : '~' ∉ rolePart role := (partition_spec role).1

/-- the alignment part as `partition` delivers it -/
theorem alnPart_eq (role : Str) :
    alnPart role = (if (partitionStr ['~'] role).2.1 then ['~'] else []) ++ (partitionStr ['~'] role).2.2 := by
  have hs := partition_spec role
  have key : ∀ a b : Str, role = a ++ '~' :: b → role.drop a.length = '~' :: b := by
    intro a b h; rw [h]; simp
  unfold alnPart rolePart
  cases hf : (partitionStr ['~'] role).2.1 with
  | true => rw [key _ _ (hs.2.1 hf)]; simp
  | false =>
    have h := hs.2.2 hf
    rw [h.1, h.2]; simp

theorem alnPart_cases (role : Str) : alnPart role = [] ∨ ∃ rest, alnPart role = '~' :: rest := by
  rw [alnPart_eq]
  cases hf : (partitionStr ['~'] role).2.1 with
  | true => right; exact ⟨_, rfl⟩
  | false => left; simp [((partition_spec role).2.2 hf).2]

theorem role_split (role : Str) : role = rolePart role ++ alnPart role := by
  have hs := partition_spec role
  rw [alnPart_eq]
  unfold rolePart
  cases hf : (partitionStr ['~'] role).2.1 with
  | true => simpa using hs.2.1 hf
  | false => have h := hs.2.2 hf; rw [h.2]; simp [h.1]

/-- splitting `c ++ aln` again, when `c` has no `'~'` and `aln` is an alignment part -/
theorem partition_rebuild {c aln : Str} (hc : '~' ∉ c) (ha : aln = [] ∨ ∃ rest, aln = '~' :: rest) :
    rolePart (c ++ aln) = c ∧ alnPart (c ++ aln) = aln := by
  unfold alnPart rolePart
  rcases ha with rfl | ⟨rest, rfl⟩
  · rw [List.append_nil, partition_of_noTilde hc]; simp
  · rw [partition_append hc]; simp

/-! ### the tree walk -/

theorem canonRoleText_eq (m : Model) (role : Str) :
    canonBranches.canonRoleText m role =
      match m.canonRole (rolePart role) with
      | some c => .ok (c ++ alnPart role)
      | none => .error (.unmodelled "canonicalize_role does not terminate") := by
  unfold canonBranches.canonRoleText
  dsimp only
  rw [alnPart_eq]
  unfold rolePart
  split <;> simp [*]

theorem canonRoleText_ok {m : Model} {role role' : Str} :
    canonBranches.canonRoleText m role = .ok role' ↔ RoleRewritten m role role' := by
  rw [canonRoleText_eq]
  unfold RoleRewritten
  cases m.canonRole (rolePart role) with
  | none => simp
  | some c => simp [eq_comm]

theorem canonRoleText_total (m : Model) (role : Str) :
    ∃ role', canonBranches.canonRoleText m role = .ok role' := by
  obtain ⟨c, hc⟩ := canonRole_terminates m (rolePart role)
  exact ⟨c ++ alnPart role, canonRoleText_ok.2 ⟨c, hc, rfl⟩⟩

theorem roleRewritten_idem (hs : m.slashOk = true) (hn : m.normOk = true) {role role' : Str}
    (h : RoleRewritten m role role') : RoleRewritten m role' role' := by
  obtain ⟨c, hc, rfl⟩ := h
  have hnt := canonRole_noTilde hn (rolePart_noTilde role) hc
  obtain ⟨h1, h2⟩ := partition_rebuild hnt (alnPart_cases role)
  refine ⟨c, ?_, ?_⟩
  · rw [h1]; exact canonRole_idem hs hn hc
  · rw [h2]

theorem bind_ok {α β : Type} {x : Except PyErr α} {f : α → Except PyErr β} {b : β} :
    (x >>= f) = .ok b ↔ ∃ a, x = .ok a ∧ f a = .ok b := by
  cases x with
  | error e => simp [bind, Except.bind]
  | ok a => simp [bind, Except.bind]

mutual
theorem canonNode_shape (m : Model) : ∀ (n n' : Node), canonNode m n = .ok n' →
    Node.sameShape (RoleRewritten m) n n'
  | .mk v bs, n', h => by
    rw [canonNode] at h
    obtain ⟨bs', hbs, h2⟩ := bind_ok.1 h
    cases h2
    exact ⟨rfl, canonBranches_shape m bs bs' hbs⟩
theorem canonBranches_shape (m : Model) : ∀ (b b' : Branches), canonBranches m b = .ok b' →
    Branches.sameShape (RoleRewritten m) b b'
  | .nil, b', h => by
    rw [canonBranches] at h
    cases h
    trivial
  | .atom role a rest, b', h => by
    rw [canonBranches] at h
    obtain ⟨r', hr, h2⟩ := bind_ok.1 h
    obtain ⟨rest', hrest, h3⟩ := bind_ok.1 h2
    cases h3
    exact ⟨canonRoleText_ok.1 hr, rfl, canonBranches_shape m rest rest' hrest⟩
  | .sub role n rest, b', h => by
    rw [canonBranches] at h
    obtain ⟨r', hr, h2⟩ := bind_ok.1 h
    obtain ⟨n', hn, h3⟩ := bind_ok.1 h2
    obtain ⟨rest', hrest, h4⟩ := bind_ok.1 h3
    cases h4
    exact ⟨canonRoleText_ok.1 hr, canonNode_shape m n n' hn, canonBranches_shape m rest rest' hrest⟩
end

mutual
theorem canonNode_total (m : Model) : ∀ (n : Node), ∃ n', canonNode m n = .ok n'
  | .mk v bs => by
    obtain ⟨bs', hbs⟩ := canonBranches_total m bs
    exact ⟨.mk v bs', by rw [canonNode, hbs]; rfl⟩
theorem canonBranches_total (m : Model) : ∀ (b : Branches), ∃ b', canonBranches m b = .ok b'
  | .nil => ⟨.nil, by rw [canonBranches]; rfl⟩
  | .atom role a rest => by
    obtain ⟨r', hr⟩ := canonRoleText_total m role
    obtain ⟨rest', hrest⟩ := canonBranches_total m rest
    exact ⟨.atom r' a rest', by rw [canonBranches, hr, hrest]; rfl⟩
  | .sub role n rest => by
    obtain ⟨r', hr⟩ := canonRoleText_total m role
    obtain ⟨n', hn⟩ := canonNode_total m n
    obtain ⟨rest', hrest⟩ := canonBranches_total m rest
    exact ⟨.sub r' n' rest', by rw [canonBranches, hr, hn, hrest]; rfl⟩
end

/- a tree whose roles are all fixed by the rewriting is fixed by the walk -/
mutual
theorem canonNode_fixed (m : Model) : ∀ (n : Node),
    Node.sameShape (fun _ r' => RoleRewritten m r' r') n n → canonNode m n = .ok n
  | .mk v bs, h => by
    rw [canonNode, canonBranches_fixed m bs h.2]; rfl
theorem canonBranches_fixed (m : Model) : ∀ (b : Branches),
    Branches.sameShape (fun _ r' => RoleRewritten m r' r') b b → canonBranches m b = .ok b
  | .nil, _ => by rw [canonBranches]; rfl
  | .atom role a rest, h => by
    rw [canonBranches, canonRoleText_ok.2 h.1, canonBranches_fixed m rest h.2.2]; rfl
  | .sub role n rest, h => by
    rw [canonBranches, canonRoleText_ok.2 h.1, canonNode_fixed m n h.2.1,
      canonBranches_fixed m rest h.2.2]; rfl
end

mutual
theorem sameShape_idem_node (hs : m.slashOk = true) (hn : m.normOk = true) : ∀ (n n' : Node),
    Node.sameShape (RoleRewritten m) n n' →
    Node.sameShape (fun _ r' => RoleRewritten m r' r') n' n'
  | .mk _ bs, .mk _ bs', h => ⟨rfl, sameShape_idem_branches hs hn bs bs' h.2⟩
theorem sameShape_idem_branches (hs : m.slashOk = true) (hn : m.normOk = true) : ∀ (b b' : Branches),
    Branches.sameShape (RoleRewritten m) b b' →
    Branches.sameShape (fun _ r' => RoleRewritten m r' r') b' b'
  | .nil, .nil, _ => trivial
  | .atom _ _ rest, .atom _ _ rest', h =>
    ⟨roleRewritten_idem hs hn h.1, rfl, sameShape_idem_branches hs hn rest rest' h.2.2⟩
  | .sub _ n rest, .sub _ n' rest', h =>
    ⟨roleRewritten_idem hs hn h.1, sameShape_idem_node hs hn n n' h.2.1,
      sameShape_idem_branches hs hn rest rest' h.2.2⟩
  | .nil, .atom .., h | .nil, .sub .., h | .atom .., .nil, h | .atom .., .sub .., h
  | .sub .., .nil, h | .sub .., .atom .., h => h.elim
end

theorem canonNode_idem (hs : m.slashOk = true) (hn : m.normOk = true) {n n' : Node}
    (h : canonNode m n = .ok n') : canonNode m n' = .ok n' :=
  canonNode_fixed m n' (sameShape_idem_node hs hn n n' (canonNode_shape m n n' h))

end Role
end Penman

/-
  Penman.Proofs.Configure13 — what `buildNode` writes: the tree built from a
  forest-shaped store writes every edge of every cell exactly once.
-/
import Penman.Proofs.Configure12
import Penman.Spec.Reading
namespace Penman
namespace Cfg
open Penman.Spec.Reading

/-! ### fuel independence of `buildNode` on a forest -/

def bound (c : Cells) (v : Str) : Nat := 2 * ((ckeys c).length - (ckeys c).idxOf v) + 1

theorem build_fuel (c : Cells) (hF : Forest c) : ∀ f,
    (∀ v f', bound c v ≤ f → bound c v ≤ f' → buildNode c f v = buildNode c f' v) ∧
    (∀ es f', (∀ e ∈ es, ∀ w, e.tgt = .node w → bound c w + 1 ≤ f ∧ bound c w + 1 ≤ f') →
      buildBranches c f es = buildBranches c f' es) := by
  intro f
  induction f using Nat.strongRecOn with
  | _ f ih =>
    have hB : ∀ es f', (∀ e ∈ es, ∀ w, e.tgt = .node w → bound c w + 1 ≤ f ∧ bound c w + 1 ≤ f') →
        buildBranches c f es = buildBranches c f' es := by
      intro es
      induction es with
      | nil => intro f' _; simp [buildBranches]
      | cons e es ihes =>
        intro f' h
        have hrest := ihes f' (fun e' he' => h e' (List.mem_cons_of_mem _ he'))
        cases htg : e.tgt with
        | atom a => simp only [buildBranches, hrest, htg]
        | node w =>
          obtain ⟨h1, h2⟩ := h e List.mem_cons_self w htg
          cases f with
          | zero => simp [bound] at h1
          | succ f1 =>
            cases f' with
            | zero => simp [bound] at h2
            | succ f1' =>
              have := (ih f1 (by omega)).1 w f1' (by omega) (by omega)
              simp only [buildBranches, hrest, htg, this]
    refine ⟨?_, hB⟩
    intro v f' h1 h2
    cases f with
    | zero => simp [bound] at h1
    | succ f1 =>
      cases f' with
      | zero => simp [bound] at h2
      | succ f1' =>
        simp only [buildNode]
        have : buildBranches c f1 ((AList.get? c v).getD []) = buildBranches c f1' ((AList.get? c v).getD []) := by
          apply (ih f1 (by omega)).2
          intro e he w hw
          cases hg : AList.get? c v with
          | none => simp [hg] at he
          | some es =>
            simp [hg] at he
            obtain ⟨h3, h4⟩ := hF _ (mem_of_get? hg) e he w hw
            have := List.idxOf_lt_length_of_mem h4
            simp only [bound] at h1 h2 ⊢
            simp only [] at h3
            omega
        rw [this]

/-! ### what a cell writes -/

theorem applyEpis_fst (role : Str) (t : Option Str) (es : List Epi) :
    (applyEpis role t es).1 = (applyEpis role none es).1 := by
  induction es generalizing role t with
  | nil => rfl
  | cons e es ih =>
    simp only [applyEpis]
    split
    · exact ih _ _
    · split
      · cases t with
        | some x => simp only []; rw [ih _ (some _), ih _ none]
        | none => rfl
      · exact ih _ _

/-- the role text `buildBranches` writes for an edge -/
def outRole (e : Edge) : Str := (applyEpis e.role none e.epis).1

/-- the atom `buildBranches` writes for an atomic target -/
def outAtom (e : Edge) (a : Atom) : Atom :=
  if e.epis.any (·.mode = 2) then .str ((applyEpis e.role (some (atomStr a)) e.epis).2.getD []) else a

/-- the relation an edge of `v`'s cell becomes in the tree -/
def edgeWritten (v : Str) (e : Edge) : Written :=
  ⟨some v, outRole e, match e.tgt with | .atom a => .atom (outAtom e a) | .node w => .opens (some w)⟩

/-- does the cell carry a node label? -/
def cellLabelled (es : List Edge) : Bool := es.any fun e => roleName (outRole e) = CONCEPT_ROLE

/-- everything the node of `v` writes itself: the implicit null label if it has none, then its edges -/
def ownW (v : Str) (es : List Edge) : List Written :=
  (if cellLabelled es then [] else [⟨some v, ['/'], .atom .none⟩]) ++ es.map (edgeWritten v)

/-- what the subtree of `v` writes / which node variables it has (fuel-instantiated) -/
def builtW (c : Cells) (v : Str) : List Written :=
  match buildNode c (2 * c.length + 2) v with | .ok n => Node.written n | .error _ => []
def builtV (c : Cells) (v : Str) : List Str :=
  match buildNode c (2 * c.length + 2) v with | .ok n => n.vars | .error _ => []

theorem keys_length (c : Cells) : (ckeys c).length = c.length := by simp [ckeys, AList.keys]

theorem bound_le (c : Cells) (v : Str) : bound c v ≤ 2 * c.length + 2 := by
  unfold bound; rw [keys_length]; omega

theorem buildNode_var {c : Cells} {f : Nat} {v : Str} {n : Node} (h : buildNode c f v = .ok n) :
    ∃ bs, n = .mk (some v) bs ∧ ∃ f1, f = f1 + 1 ∧ buildBranches c f1 (cellOf c v) = .ok bs := by
  cases f with
  | zero => simp [buildNode] at h
  | succ f1 =>
    simp only [buildNode] at h
    cases hb : buildBranches c f1 ((AList.get? c v).getD []) with
    | error e => rw [hb] at h; simp [bind, Except.bind] at h
    | ok bs =>
      rw [hb] at h
      simp only [bind, Except.bind, pure, Except.pure, Except.ok.injEq] at h
      exact ⟨bs, h.symm, f1, rfl, hb⟩

theorem branches_written (c : Cells) (hF : Forest c) (v : Str) : ∀ (es : List Edge) (f : Nat) (bs : Branches),
    (∀ e ∈ es, ∀ w, e.tgt = .node w → bound c w + 1 ≤ f) → buildBranches c f es = .ok bs →
    (Branches.written (some v) bs).Perm (es.map (edgeWritten v) ++ (nodeTgts es).flatMap (builtW c)) ∧
    labelled bs = cellLabelled es ∧
    (bs.nodes.map (·.1)).Perm ((nodeTgts es).flatMap (builtV c)) := by
  intro es
  induction es with
  | nil =>
    intro f bs _ h
    simp only [buildBranches, Except.ok.injEq] at h; subst h
    simp [Branches.written, labelled, cellLabelled, Branches.toList, nodeTgts, Branches.nodes]
  | cons e es ih =>
    intro f bs hb h
    simp only [buildBranches] at h
    cases hrest : buildBranches c f es with
    | error x => rw [hrest] at h; simp [bind, Except.bind] at h
    | ok rest =>
      rw [hrest] at h
      simp only [bind, Except.bind] at h
      obtain ⟨i1, i2, i3⟩ := ih f rest (fun e' he' => hb e' (List.mem_cons_of_mem _ he')) hrest
      cases htg : e.tgt with
      | atom a =>
        rw [htg] at h
        simp only [pure, Except.pure, Except.ok.injEq] at h
        subst h
        have hn : nodeTgts (e :: es) = nodeTgts es := by simp [nodeTgts, htg]
        refine ⟨?_, ?_, ?_⟩
        · rw [hn]
          simp only [Branches.written, List.map_cons, List.cons_append]
          have : (⟨some v, (applyEpis e.role (some (atomStr a)) e.epis).1,
              .atom (if e.epis.any (·.mode = 2) then .str ((applyEpis e.role (some (atomStr a)) e.epis).2.getD []) else a)⟩ : Written)
              = edgeWritten v e := by
            simp [edgeWritten, htg, outRole, outAtom, applyEpis_fst e.role (some (atomStr a))]
          rw [this]
          exact (List.perm_cons _).2 i1
        · simp only [labelled, Branches.toList, List.any_cons, cellLabelled] at i2 ⊢
          rw [i2, applyEpis_fst]; rfl
        · rw [hn]; simpa [Branches.nodes] using i3
      | node w =>
        rw [htg] at h
        have hw := hb e List.mem_cons_self w htg
        cases f with
        | zero => simp [bound] at hw
        | succ f1 =>
          simp only [] at h
          cases hnode : buildNode c f1 w with
          | error x => rw [hnode] at h; simp at h
          | ok n =>
            rw [hnode] at h
            simp only [pure, Except.pure, Except.ok.injEq] at h
            subst h
            have hfi : buildNode c f1 w = buildNode c (2 * c.length + 2) w :=
              (build_fuel c hF f1).1 w _ (by omega) (bound_le c w)
            have hbw : builtW c w = Node.written n := by simp [builtW, ← hfi, hnode]
            have hbv : builtV c w = n.vars := by simp [builtV, ← hfi, hnode]
            obtain ⟨nbs, hn, _⟩ := buildNode_var hnode
            have hvar : n.var = some w := by rw [hn]; rfl
            have hnt : nodeTgts (e :: es) = w :: nodeTgts es := by simp [nodeTgts, htg]
            refine ⟨?_, ?_, ?_⟩
            · rw [hnt]
              simp only [Branches.written, List.map_cons, List.cons_append, List.flatMap_cons, hvar, hbw]
              have : (⟨some v, (applyEpis e.role none e.epis).1, .opens (some w)⟩ : Written) = edgeWritten v e := by
                simp [edgeWritten, htg, outRole]
              rw [this]
              refine (List.perm_cons _).2 ?_
              refine (List.Perm.append_left _ i1).trans ?_
              rw [← List.append_assoc, ← List.append_assoc]
              exact List.Perm.append_right _ List.perm_append_comm
            · simp only [labelled, Branches.toList, List.any_cons, cellLabelled] at i2 ⊢
              rw [i2]; rfl
            · rw [hnt]
              simp only [Branches.nodes, List.map_append, List.flatMap_cons, hbv, Node.vars]
              exact List.Perm.append_left _ i3

/-- one step of the traversal: the subtree of `v` writes `v`'s own relations and then the subtrees of
    its children -/
theorem built_step (c : Cells) (hF : Forest c) (v : Str) :
    (builtW c v).Perm (ownW v (cellOf c v) ++ (children c v).flatMap (builtW c)) ∧
    (builtV c v).Perm ([v] ++ (children c v).flatMap (builtV c)) := by
  obtain ⟨n, hn⟩ := buildNode_ok hF v
  obtain ⟨bs, rfl, f1, hf, hb⟩ := buildNode_var hn
  have hf1 : f1 = 2 * c.length + 1 := by omega
  subst hf1
  have hbnd : ∀ e ∈ cellOf c v, ∀ w, e.tgt = .node w → bound c w + 1 ≤ 2 * c.length + 1 := by
    intro e he w hw
    unfold cellOf at he
    cases hg : AList.get? c v with
    | none => simp [hg] at he
    | some es =>
      simp [hg] at he
      obtain ⟨h3, h4⟩ := hF _ (mem_of_get? hg) e he w hw
      have := List.idxOf_lt_length_of_mem h4
      simp only [bound]
      rw [keys_length] at this ⊢
      omega
  obtain ⟨i1, i2, i3⟩ := branches_written c hF v (cellOf c v) _ bs hbnd hb
  constructor
  · simp only [builtW, hn, Node.written, ownW, i2, children]
    rw [List.append_assoc]
    exact List.Perm.append_left _ i1
  · simp only [builtV, hn, Node.vars, Node.nodes, List.map_append, List.map_cons, List.map_nil, children]
    exact List.Perm.append_left _ i3

/-- **store → tree.** On a forest-shaped store with in-degree one, the tree built from the top
    writes every relation of every cell exactly once, and has one node per cell. -/
theorem built_all {c : Cells} {top : Str} {rest : List Str} (hkeys : ckeys c = top :: rest)
    (hn : (ckeys c).Nodup) (hF : Forest c) (hdeg : ([top] ++ allNodeTgts c).Perm (ckeys c)) :
    (builtW c top).Perm (flat ownW c) ∧ (builtV c top).Perm (ckeys c) := by
  constructor
  · rw [flat_eq_keys ownW hn]
    exact traverse c (fun v => ownW v (cellOf c v)) (builtW c) top rest hkeys hn hF hdeg
      (fun v _ => (built_step c hF v).1)
  · have := traverse c (fun v => [v]) (builtV c) top rest hkeys hn hF hdeg (fun v _ => (built_step c hF v).2)
    simpa using this

end Cfg
end Penman

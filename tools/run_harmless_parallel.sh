#!/bin/sh
# the false-alarm measurement, one shard per harmless rewrite: each shard gets its own copy of this
# directory and its own scratch worktree of /repo under /tmp (both removed at the end)
V=$(cd "$(dirname "$0")/.." && pwd)
cd $V
for d in harmless/h*.diff; do
  k=$(basename $d .diff)
  rm -rf /tmp/vharm$k; cp -a $V /tmp/vharm$k
  ( cd /tmp/vharm$k; mkdir -p /tmp/vharm$k/only; rm -f harmless/h*.diff; cp $V/$d harmless/
    tools/run_harmless.sh /tmp/harmrun$k > /tmp/harmshard.$k.out 2>&1
    git -C /repo worktree remove --force /tmp/harmrun$k; rm -rf /tmp/vharm$k ) &
done
wait
git -C /repo worktree prune
cat /tmp/harmshard.*.out
rm -f /tmp/harmshard.*

/-
  Penman.Proofs.Transform.InverseMain — assembling the inverse theorem
  (triples level) and the guard theorem of `dereify_edges`.
-/
import Penman.Proofs.Transform.Inverse
namespace Penman

theorem flatMap_congr' {α β : Type} {l : List α} {f h : α → List β} (hfh : ∀ a ∈ l, f a = h a) :
    l.flatMap f = l.flatMap h := by
  induction l with
  | nil => rfl
  | cons a r ih =>
    rw [List.flatMap_cons, List.flatMap_cons, hfh a (by simp), ih (fun b hb => hfh b (by simp [hb]))]

theorem flatMap_singleton_map {α β : Type} (l : List α) (f : α → β) :
    l.flatMap (fun a => [f a]) = l.map f := by
  induction l with
  | nil => rfl
  | cons a r ih => rw [List.flatMap_cons, ih]; rfl

theorem getTop_eq_of {g g2 : Graph} (h1 : g2.top = g.getTop) (h2 : g2.triples = g.triples) :
    g2.getTop = g.getTop := by
  cases hgt : g.top with
  | some x =>
    have : g.getTop = some x := by simp [Graph.getTop, hgt]
    rw [this] at h1 ⊢
    unfold Graph.getTop; rw [h1]
  | none =>
    cases hl : g.triples with
    | nil =>
      have : g.getTop = none := by simp [Graph.getTop, hgt, hl]
      rw [this] at h1 ⊢
      unfold Graph.getTop; rw [h1, h2, hl]
    | cons a r =>
      have : g.getTop = some a.src := by simp [Graph.getTop, hgt, hl]
      rw [this] at h1 ⊢
      unfold Graph.getTop; rw [h1]

section
variable {m : Model} {g : Graph} {rev : List Ev} {st : RState}

theorem collapseOf_old_none (hm : ReifWf m) (hg : RolesColon g) (hk : EpiKeysNodup g)
    (hf : FreshSafe g) (hrun : Run m g rev st) (ho : rev.reverse.map Ev.orig = g.triples)
    (hnc : dereifyAgenda m g = .ok []) {x : Str} (hx : ∀ e ∈ rev, x ∉ e.newVar) :
    collapseOf m (reifyResult g st) x = none := by
  unfold collapseOf
  cases hl : (instOf (reifyResult g st).triples x).getLast? with
  | none => rfl
  | some i0 =>
    simp only
    rw [collapse_old hm hg hk hf hrun ho hnc hx i0 hl]

theorem old_var_not_new (hrun : Run m g rev st) {x : Str} (hx : x ∈ g.variables) :
    ∀ e ∈ rev, x ∉ e.newVar := by
  intro e he hv
  exact ((run_newVars hrun).2 x (List.mem_flatMap.mpr ⟨e, he, hv⟩)).1 hx

/-- every event's triples collapse back to its original triple -/
theorem derOut_event (hm : ReifWf m) (hg : RolesColon g) (hk : EpiKeysNodup g) (hp : PushVars g)
    (hf : FreshSafe g) (hi : HasInst g) (hrun : Run m g rev st)
    (ho : rev.reverse.map Ev.orig = g.triples)
    (hnc : dereifyAgenda m g = .ok [])
    (hu : ∀ t ∈ g.triples, m.isReifiable t.role = true → Unambiguous m t.role)
    {e : Ev} (he : e ∈ rev) :
    e.out.flatMap (derOut (collapseOf m (reifyResult g st))) = [e.orig] := by
  have heok := run_evOk hrun e he
  cases e with
  | keep t =>
    have := collapseOf_old_none hm hg hk hf hrun ho hnc
      (old_var_not_new hrun (src_mem_variables heok.1))
    simp [Ev.out, Ev.orig, derOut, this]
  | reif t rf v inv =>
    have hc := collapse_new hm hg hk hp hf hi hrun ho hu he
    have hrf := hm.1 rf (evOk_reif heok).2.1
    have h1 : nodeTriple rf v ≠ firstTriple t rf v inv := by
      intro h
      have := congrArg Triple.role h
      cases inv
      · exact hrf.2.2.1 this.symm
      · exact hrf.2.2.2.1 this.symm
    have h2 : lastTriple t rf v inv ≠ firstTriple t rf v inv := by
      intro h
      have := congrArg Triple.role h
      cases inv
      · exact hrf.2.2.2.2.1 this.symm
      · exact hrf.2.2.2.2.1 this
    simp [Ev.out, Ev.orig, derOut, hc, h1, h2]

/-- **Inverse, triples level.** -/
theorem reify_dereify_triples (hm : ReifWf m) (hg : RolesColon g) (hk : EpiKeysNodup g)
    (hp : PushVars g) (hf : FreshSafe g) (hi : HasInst g) (hrun : Run m g rev st)
    (ho : rev.reverse.map Ev.orig = g.triples) (hnc : dereifyAgenda m g = .ok [])
    (hu : ∀ t ∈ g.triples, m.isReifiable t.role = true → Unambiguous m t.role) :
    ∃ g2, dereifyEdges m (reifyResult g st) = .ok g2 ∧ g2.triples = g.triples ∧
      g2.getTop = g.getTop ∧ g2.top = g.getTop := by
  -- no agenda entry raises
  have hnoerr : ∀ p ∈ (agendaScan (reifyResult g st)).2.1, ∀ e,
      entryRes m (reifyResult g st) p.1 p.2 ≠ .err e := by
    intro p hp' e
    have hlast := agendaScan_inst_mem hp'
    by_cases hnew : p.1 ∈ rev.flatMap Ev.newVar
    · rw [List.mem_flatMap] at hnew
      obtain ⟨ev, hev, hv⟩ := hnew
      cases ev with
      | keep t => simp [Ev.newVar] at hv
      | reif t rf v inv =>
        simp only [Ev.newVar, List.mem_singleton] at hv
        have hc := collapse_new hm hg hk hp hf hi hrun ho hu hev
        unfold collapseOf at hc
        rw [← hv, hlast] at hc
        simp only at hc
        intro h
        rw [h] at hc
        simp at hc
    · have hx : ∀ e ∈ rev, p.1 ∉ e.newVar :=
        fun e he hv => hnew (List.mem_flatMap.mpr ⟨e, he, hv⟩)
      rw [collapse_old hm hg hk hf hrun ho hnc hx p.2 hlast]
      simp
  obtain ⟨agenda, hag⟩ := dereifyAgenda_of_noErr hnoerr
  obtain ⟨g2, hg2⟩ := dereifyEdges_of_agenda hag
  obtain ⟨ht, htop, _, _⟩ := dereifyEdges_ok hg2
  have htr : g2.triples = g.triples := by
    rw [ht, reifyResult_triples hm hg hrun, List.flatMap_assoc]
    have : (rev.reverse.flatMap fun e => e.out.flatMap (derOut (collapseOf m (reifyResult g st))))
        = rev.reverse.flatMap fun e => [e.orig] := by
      apply flatMap_congr'
      intro e he
      exact derOut_event hm hg hk hp hf hi hrun ho hnc hu (by simpa using he)
    rw [this, flatMap_singleton_map, ho]
    conv => rhs; rw [← List.map_id g.triples]
    apply List.map_congr_left
    intro t ht'
    rw [ensureColon_of_colon (hg t ht')]; rfl
  have htop' : g2.top = g.getTop := by rw [htop, reifyResult_getTop hrun ho]
  exact ⟨g2, hg2, htr, getTop_eq_of htop' htr, htop'⟩

end

/-! ### the guard of `dereify_edges` -/

/-- `collapseOf` refuses the top, referenced variables, and variables that do
    not have exactly two relations. -/
theorem collapseOf_guard (m : Model) (g : Graph) (x : Str)
    (h : g.getTop = some x ∨ (∃ t ∈ g.triples, t.role ≠ CONCEPT_ROLE ∧ t.tgt = .str x) ∨
      (otherOf g.triples x).length ≠ 2) : collapseOf m g x = none := by
  unfold collapseOf
  cases (instOf g.triples x).getLast? with
  | none => rfl
  | some i0 =>
    simp only
    have : entryRes m g x i0 = .skip := by
      unfold entryRes
      split
      · rename_i a b hl
        rcases h with h | h | h
        · rw [if_neg]
          intro hc; apply hc.1
          rw [agendaScan_fixed]; left; unfold topAtom; rw [h]
        · rw [if_neg]
          intro hc; apply hc.1
          rw [agendaScan_fixed]; right; exact h
        · rw [hl] at h; simp at h
      · rfl
    rw [this]

/-- **Guard.** A variable that is the top, or the target of a relation, or
    does not have exactly two relations, is never collapsed: all its triples are
    kept (with the role normalisation of the `Graph` constructor). -/
theorem dereify_guard {m : Model} {g g' : Graph} (h : dereifyEdges m g = .ok g') (x : Str)
    (hx : g.getTop = some x ∨ (∃ t ∈ g.triples, t.role ≠ CONCEPT_ROLE ∧ t.tgt = .str x) ∨
      (otherOf g.triples x).length ≠ 2) :
    ∀ t ∈ g.triples, t.src = x → { t with role := ensureColon t.role } ∈ g'.triples := by
  intro t ht hsrc
  rw [(dereifyEdges_ok h).1, List.mem_map]
  refine ⟨t, ?_, rfl⟩
  rw [List.mem_flatMap]
  refine ⟨t, ht, ?_⟩
  unfold derOut
  rw [hsrc, collapseOf_guard m g x hx]
  simp

/-- conversely, every triple that disappears belongs to a collapsed variable:
    not the top, not referenced, exactly two relations, dereifiable concept -/
theorem dereify_removed {m : Model} {g g' : Graph} (h : dereifyEdges m g = .ok g') (t : Triple)
    (ht : t ∈ g.triples) (hgone : { t with role := ensureColon t.role } ∉ g'.triples) :
    g.getTop ≠ some t.src ∧ (∀ t' ∈ g.triples, t'.role ≠ CONCEPT_ROLE → t'.tgt ≠ .str t.src) ∧
      (otherOf g.triples t.src).length = 2 := by
  refine ⟨?_, ?_, ?_⟩
  · intro h1
    exact hgone (dereify_guard h t.src (Or.inl h1) t ht rfl)
  · intro t' ht' hr' htg
    exact hgone (dereify_guard h t.src (Or.inr (Or.inl ⟨t', ht', hr', htg⟩)) t ht rfl)
  · by_cases hl : (otherOf g.triples t.src).length = 2
    · exact hl
    · exact absurd (dereify_guard h t.src (Or.inr (Or.inr hl)) t ht rfl) hgone

end Penman

/-
  Penman.Proofs.NormalFormVarsLayout — `WfLayout` and `noNullN` are preserved by the renaming
  `RV.renNode vm` that `Tree.reset_variables` performs (C10 `reset_shape`), provided the variable map is
  injective on the tree's variables, no constant is spelled like a new name (`nodeIsoOk`, C10's `WfReset`)
  and the new names are non-empty.
-/
import Penman.Proofs.ResetIso
import Penman.Proofs.RearrangeInterp
import Penman.Spec.WfLayout

namespace Penman
namespace RV

/-! ### no empty concept slot -/

theorem renAtom_eq_none (vm : AList Str Str) (r : Str) (a : Atom) : renAtom vm r a = .none ↔ a = .none := by
  cases a with
  | none => simp [renAtom]
  | num t => simp [renAtom]
  | str s =>
    simp only [renAtom]
    split
    · split <;> simp
    · simp

mutual
theorem noNullN_ren (vm : AList Str Str) : ∀ n : Node, noNullN (renNode vm n) = noNullN n
  | .mk v bs => by simp only [renNode, noNullN]; exact noNullB_ren vm bs
theorem noNullB_ren (vm : AList Str Str) : ∀ bs : Branches, noNullB (renBranches vm bs) = noNullB bs
  | .nil => rfl
  | .atom r a rest => by
    simp only [renBranches, noNullB, renAtom_eq_none, noNullB_ren vm rest]
  | .sub r n rest => by
    simp only [renBranches, noNullB, noNullN_ren vm n, noNullB_ren vm rest]
end

/-! ### injectivity on keys -/

theorem renVar_key_inj {vm : AList Str Str} {vars : List Str} (hv : VmOk vm vars) {x y : Str}
    (hx : x ∈ AList.keys vm) (hy : y ∈ AList.keys vm) (e : renVar vm x = renVar vm y) : x = y := by
  obtain ⟨nx, hnx⟩ := Option.isSome_iff_exists.1 (get?_isSome_iff.2 hx)
  obtain ⟨ny, hny⟩ := Option.isSome_iff_exists.1 (get?_isSome_iff.2 hy)
  rw [renVar_of_get? hnx, renVar_of_get? hny] at e
  subst e
  exact get?_inj_of_nodup_vals hv.inj hnx hny

theorem nodup_map_renVar {vm : AList Str Str} {vars : List Str} (hv : VmOk vm vars) :
    ∀ (l : List Str), (∀ x ∈ l, x ∈ AList.keys vm) → l.Nodup → (l.map (renVar vm)).Nodup
  | [], _, _ => List.nodup_nil
  | a :: l, hk, hn => by
    rw [List.nodup_cons] at hn
    simp only [List.map_cons, List.nodup_cons, List.mem_map, not_exists, not_and]
    refine ⟨?_, nodup_map_renVar hv l (fun x hx => hk x (by simp [hx])) hn.2⟩
    intro x hx e
    have := renVar_key_inj hv (hk x (by simp [hx])) (hk a (by simp)) e
    subst this
    exact hn.1 hx

/-! ### atoms -/

theorem atomStr_str (s : Str) : atomStr (.str s) = s := rfl

theorem isoOk_role_ne {isAlpha : Char → Bool} {m : Model} {r : Str} (h : Penman.roleOk isAlpha m r = true) :
    r ≠ ['/'] := by
  intro e
  subst e
  simp [Penman.roleOk, processRole_concept] at h

/-- the clause of `branchesIsoOk` for one atomic target on a non-`/` role -/
def atomIsoP (m : Model) (vm : AList Str Str) (news : List Str) (r : Str) : Atom → Prop
  | .str s => if AList.contains vm (alnStem s) then RV.roleOk m r = true else alnStem s ∉ news
  | _ => True

/-- a reference `k ++ suf` and its image `nv ++ suf` -/
theorem atom_ref_ok (isAlpha : Char → Bool) (k suf nv : Str) (hq : '~' ∉ k) (hq' : k.head? ≠ some '"')
    (hn : '~' ∉ nv) (hn' : nv.head? ≠ some '"') (hne : nv ≠ [])
    (hs : suf = [] ∨ ∃ rest, suf = '~' :: rest) (hok : atomOk isAlpha (.str (k ++ suf)) = true) :
    atomOk isAlpha (.str (nv ++ suf)) = true ∧ atomCore isAlpha (.str (nv ++ suf)) = .str nv := by
  have p1 := processAtomic_stem isAlpha k suf hq hq' hs
  have p2 := processAtomic_stem isAlpha nv suf hn hn' hs
  rw [procTail_ren isAlpha k nv suf] at p2
  simp only [atomOk, p1] at hok
  simp only [atomOk, atomCore, p2]
  cases hpt : procTail isAlpha k suf with
  | error e => simp [hpt] at hok
  | ok p =>
    obtain ⟨t, es⟩ := p
    obtain ⟨ht, _⟩ := procTail_ok hpt
    subst ht
    simp only [hpt, Bool.and_eq_true] at hok
    simp only [map_ok, Bool.and_eq_true, and_true]
    refine ⟨?_, ?_⟩
    · cases nv with
      | nil => exact absurd rfl hne
      | cons c cs => rfl
    · cases es with
      | nil =>
        have h2 := hok.2
        simp only [decide_eq_true_eq, Atom.str.injEq] at h2 ⊢
        have : suf = [] := List.append_right_eq_self.1 h2.symm
        rw [this]; simp
      | cons e es =>
        have h2 := hok.2
        simp only [decide_eq_true_eq, Atom.str.injEq, atomStr_str] at h2 ⊢
        rw [List.append_cancel_left h2]

/-- one atomic branch: `atomOk` is preserved, and the renamed target is the renamed node variable only
    if the target was the node variable -/
theorem atom_ren_ok (isAlpha : Char → Bool) (m : Model) {vm : AList Str Str} {vars : List Str}
    (hv : VmOk vm vars) (hne : ∀ k nv, AList.get? vm k = some nv → nv ≠ [])
    {var : Str} (hvar : var ∈ AList.keys vm) {r : Str} (hr : r ≠ ['/']) (a : Atom)
    (hiso : atomIsoP m vm (vars.map (renVar vm)) r a)
    (hok : atomOk isAlpha a = true) :
    atomOk isAlpha (renAtom vm r a) = true ∧
      (atomCore isAlpha (renAtom vm r a) = .str (renVar vm var) → atomCore isAlpha a = .str var) := by
  cases a with
  | none => exact ⟨hok, fun h => by simp [renAtom, atomCore, processAtomic] at h⟩
  | num t => simp [atomOk, processAtomic] at hok
  | str s =>
    simp only [atomIsoP] at hiso
    cases hg : AList.get? vm (alnStem s) with
    | none =>
      have hnk : alnStem s ∉ AList.keys vm := get?_eq_none_iff.1 hg
      have hc : AList.contains vm (alnStem s) = false := by
        cases h : AList.contains vm (alnStem s) with
        | false => rfl
        | true => exact absurd (contains_iff_mem_keys.1 h) hnk
      rw [hc] at hiso
      simp only [Bool.false_eq_true, if_false] at hiso
      rw [renAtom_other hg]
      refine ⟨hok, ?_⟩
      intro hcore
      exfalso
      simp only [atomCore] at hcore
      cases hp : processAtomic isAlpha (.str s) with
      | error e => simp [hp] at hcore
      | ok p =>
        obtain ⟨t, e⟩ := p
        simp only [hp, ] at hcore
        obtain ⟨⟨t0, ht0, hcase⟩, _⟩ := processAtomic_ok_tgt hp
        rw [ht0] at hcore
        injection hcore with hcore
        obtain ⟨nv, hnv⟩ := Option.isSome_iff_exists.1 (get?_isSome_iff.2 hvar)
        rw [renVar_of_get? hnv] at hcore
        rcases hcase with h | h
        · apply hiso
          rw [← h, hcore]
          exact (mem_news hv).2 ⟨var, hnv⟩
        · rw [hcore] at h
          exact (hv.newsOk var nv hnv).2 h
    | some nv =>
      have hk : alnStem s ∈ AList.keys vm := get?_isSome_iff.1 (by simp [hg])
      rw [renAtom_ref hr hg]
      have hsplit := partition_tilde_spec s
      have hnvOk := hv.newsOk _ nv hg
      have hok' : atomOk isAlpha (.str (alnStem s ++ alnSuffix s)) = true := by
        have : alnStem s ++ alnSuffix s = s := hsplit.1.symm
        rw [this]; exact hok
      obtain ⟨h1, h2⟩ := atom_ref_ok isAlpha (alnStem s) (alnSuffix s) nv hsplit.2.1 (hv.keysQ _ hk) hnvOk.1 hnvOk.2
        (hne _ nv hg) (alnSuffix_shape s) hok'
      refine ⟨h1, ?_⟩
      intro h
      rw [h2] at h
      injection h with h
      have e := renVar_key_inj hv hk hvar (by rw [renVar_of_get? hg]; exact h)
      have p1 := processAtomic_stem isAlpha (alnStem s) (alnSuffix s) hsplit.2.1 (hv.keysQ _ hk) (alnSuffix_shape s)
      rw [← hsplit.1] at p1
      simp only [atomOk, p1] at hok
      simp only [atomCore, p1]
      cases hpt : procTail isAlpha (alnStem s) (alnSuffix s) with
      | error e => simp [hpt] at hok
      | ok p =>
        obtain ⟨t, es⟩ := p
        obtain ⟨ht, _⟩ := procTail_ok hpt
        rw [ht, e]

/-! ### the per-node conditions -/

mutual
theorem layoutNodeB_ren (isAlpha : Char → Bool) (m : Model) {vm : AList Str Str} {vars : List Str}
    (hv : VmOk vm vars) (hne : ∀ k nv, AList.get? vm k = some nv → nv ≠ []) :
    ∀ n : Node, nodeMappable vm n = true → nodeIsoOk m vm (vars.map (renVar vm)) n = true →
      Penman.wfNodeB isAlpha m n = true → Penman.wfNodeB isAlpha m (renNode vm n) = true
  | .mk v bs, hmp, hok, hwf => by
    cases v with
    | none => simp [Penman.wfNodeB] at hwf
    | some var =>
      simp only [nodeMappable, Bool.and_eq_true] at hmp
      simp only [nodeIsoOk] at hok
      have hvar := contains_iff_mem_keys.1 hmp.1
      cases bs with
      | nil => simp [renNode, renBranches, Penman.wfNodeB]
      | atom role a rest =>
        by_cases hr : role = ['/']
        · subst hr
          simp only [Penman.wfNodeB, if_true, Bool.and_eq_true] at hwf
          simp only [branchesMappable] at hmp
          simp only [branchesIsoOk, Bool.and_eq_true] at hok
          simp only [renNode, renBranches, Option.map_some, Penman.wfNodeB, if_true, renAtom_concept,
            Bool.and_eq_true]
          exact ⟨hwf.1, layoutBranchesB_ren isAlpha m hv hne rest var hvar hmp.2 hok.2 hwf.2⟩
        · simp only [Penman.wfNodeB, if_neg hr] at hwf
          have := layoutBranchesB_ren isAlpha m hv hne (.atom role a rest) var hvar hmp.2 hok hwf
          simp only [renNode, renBranches, Option.map_some, Penman.wfNodeB, if_neg hr]
          simpa only [renBranches] using this
      | sub role n rest =>
        simp only [Penman.wfNodeB] at hwf
        have := layoutBranchesB_ren isAlpha m hv hne (.sub role n rest) var hvar hmp.2 hok hwf
        simp only [renNode, renBranches, Option.map_some, Penman.wfNodeB]
        simpa only [renBranches] using this
theorem layoutBranchesB_ren (isAlpha : Char → Bool) (m : Model) {vm : AList Str Str} {vars : List Str}
    (hv : VmOk vm vars) (hne : ∀ k nv, AList.get? vm k = some nv → nv ≠ []) :
    ∀ (bs : Branches) (var : Str), var ∈ AList.keys vm → branchesMappable vm bs = true →
      branchesIsoOk m vm (vars.map (renVar vm)) bs = true →
      wfBranchesB isAlpha m var bs = true → wfBranchesB isAlpha m (renVar vm var) (renBranches vm bs) = true
  | .nil, _, _, _, _, _ => by simp [renBranches, wfBranchesB]
  | .atom role a rest, var, hvar, hmp, hok, hwf => by
    simp only [branchesMappable] at hmp
    simp only [branchesIsoOk, Bool.and_eq_true, Bool.or_eq_true, decide_eq_true_eq] at hok
    simp only [wfBranchesB, Bool.and_eq_true, Bool.not_eq_true', Bool.and_eq_false_iff,
      decide_eq_false_iff_not] at hwf
    obtain ⟨⟨⟨hro, hao⟩, hsl⟩, hrest⟩ := hwf
    have hr : role ≠ ['/'] := isoOk_role_ne hro
    have hiso : atomIsoP m vm (vars.map (renVar vm)) role a := by
      rcases hok.1 with h | h
      · exact absurd h hr
      · cases a with
        | none => trivial
        | num t => trivial
        | str s =>
          simp only [atomIsoP] at h ⊢
          split at h
          · rename_i hc; simp only [hc, if_true]; exact h
          · rename_i hc; simp only [hc, Bool.false_eq_true, if_false]; simpa using h
    obtain ⟨h1, h2⟩ := atom_ren_ok isAlpha m hv hne hvar hr a hiso hao
    have ih := layoutBranchesB_ren isAlpha m hv hne rest var hvar hmp hok.2 hrest
    simp only [renBranches, wfBranchesB, Bool.and_eq_true, Bool.not_eq_true', Bool.and_eq_false_iff,
      decide_eq_false_iff_not]
    refine ⟨⟨⟨hro, h1⟩, ?_⟩, ih⟩
    rcases hsl with h | h
    · exact Or.inl h
    · exact Or.inr (fun hc => h (h2 hc))
  | .sub role n rest, var, hvar, hmp, hok, hwf => by
    simp only [branchesMappable, Bool.and_eq_true] at hmp
    simp only [branchesIsoOk, Bool.and_eq_true, decide_eq_true_eq] at hok
    simp only [wfBranchesB, Bool.and_eq_true] at hwf
    obtain ⟨⟨hro, hn⟩, hrest⟩ := hwf
    simp only [renBranches, wfBranchesB, Bool.and_eq_true]
    exact ⟨⟨hro, layoutNodeB_ren isAlpha m hv hne n hmp.1 hok.1.2 hn⟩,
      layoutBranchesB_ren isAlpha m hv hne rest var hvar hmp.2 hok.2 hrest⟩
end

/-! ### distinct denoted triples -/

theorem distinctTriplesB_ren (isAlpha : Char → Bool) (m : Model) {vm : AList Str Str} (n : Node)
    (hv : VmOk vm n.vars) (hmp : nodeMappable vm n = true)
    (hok : nodeIsoOk m vm (n.vars.map (renVar vm)) n = true)
    (h : distinctTriplesB isAlpha m n = true) : distinctTriplesB isAlpha m (renNode vm n) = true := by
  have hall := ((nodeMappable_iff vm n).1 hmp).1
  have h1 := interpretNode_ren isAlpha m vm n.vars hv n hall hok
  simp only [distinctTriplesB] at h ⊢
  rw [renNode_vars, h1]
  cases hin : interpretNode isAlpha m n.vars n with
  | error e => simp [hin] at h
  | ok p =>
    obtain ⟨ts, es⟩ := p
    simp only [hin, decide_eq_true_eq] at h
    have hcl := interpretNode_closed isAlpha m vm n.vars hv n (ts, es) hmp hok hin
    have hkeys := RA.interpretNode_keys isAlpha m n.vars n ts es hin
    simp only [map_ok, renPair, decide_eq_true_eq]
    have hclT : ∀ t ∈ ts, Closed vm (n.vars.map (renVar vm)) t := by
      intro t ht
      rw [← hkeys] at ht
      obtain ⟨e, he, rfl⟩ := List.mem_map.1 ht
      exact hcl e he
    clear hin hkeys hcl h1
    induction ts with
    | nil => exact List.nodup_nil
    | cons t ts ih =>
      rw [List.nodup_cons] at h
      simp only [List.map_cons, List.nodup_cons, List.mem_map, not_exists, not_and]
      refine ⟨?_, ih h.2 (fun x hx => hclT x (by simp [hx]))⟩
      intro x hx e
      have := renTriple_inj hv x t (hclT x (by simp [hx])) (hclT t (by simp)) e
      subst this
      exact h.1 hx

/-- **`WfLayout` is preserved by the relabelling** -/
theorem wfLayout_ren (isAlpha : Char → Bool) (m : Model) {vm : AList Str Str} (n : Node)
    (hv : VmOk vm n.vars) (hne : ∀ k nv, AList.get? vm k = some nv → nv ≠ [])
    (hmp : nodeMappable vm n = true) (hok : nodeIsoOk m vm (n.vars.map (renVar vm)) n = true)
    (h : WfLayout isAlpha m n) : WfLayout isAlpha m (renNode vm n) := by
  obtain ⟨h1, h2, h3⟩ := h
  refine ⟨layoutNodeB_ren isAlpha m hv hne n hmp hok h1, ?_, distinctTriplesB_ren isAlpha m n hv hmp hok h3⟩
  rw [renNode_vars]
  exact nodup_map_renVar hv n.vars (fun x hx => (hv.keys x).1 hx) h2

end RV
end Penman

/-
  Penman.Proofs.NormalFormGraphStages — the graph stages of the command are the identity on a
  graph on which they have nothing to do (`StagesIdle`), and the graphs `interpret` returns are of the
  shape `Graph.__init__` produces (`PyGraph`).  Self-contained (no import of the C11/C12 development,
  which cannot be imported together with the C01 chain).
-/
import Penman.Spec.NormalFormGraph
import Penman.Proofs.Decoded
import Penman.Main

namespace Penman
namespace C20gen
open Penman.Cfg

/-! ### graphs of the shape `Graph.__init__` produces -/

theorem ensureColon_id {r : Str} (h : startsWith [':'] r = true) : ensureColon r = r := by
  simp [ensureColon, h]

theorem startsWith_ensureColon (r : Str) : startsWith [':'] (ensureColon r) = true := by
  unfold ensureColon
  split
  · assumption
  · simp [startsWith, List.isPrefixOf]

theorem getTop_of_top {g : Graph} {v : Str} (h : g.top = some v) : g.getTop = some v := by
  simp [Graph.getTop, h]

/-- rebuilding a `PyGraph` from its own components gives it back -/
theorem mk'_self {g : Graph} (h : PyGraph g) : Graph.mk' g.triples g.getTop g.epidata g.metadata = g := by
  have h1 : g.triples.map (fun t => ({ t with role := ensureColon t.role } : Triple)) = g.triples := by
    conv => rhs; rw [← List.map_id g.triples]
    apply List.map_congr_left
    intro t ht
    rw [ensureColon_id (h.colon t ht)]; rfl
  have h2 : AList.ofList g.epidata = g.epidata := Interp.ofList_of_nodup _ h.epiKeys
  have h3 : AList.ofList g.metadata = g.metadata := Interp.ofList_of_nodup _ h.metaKeys
  cases g with
  | mk ts top ep md =>
    simp only [Graph.mk'] at h1 h2 h3 ⊢
    have h4 := h.top
    simp only at h4
    rw [h1, h2, h3, ← h4]

/-- every graph `interpret` returns for a tree with dictionary metadata is a `PyGraph`, with the
    metadata of the tree -/
theorem interpret_pyGraph {isAlpha : Char → Bool} {m : Model} {t : Tree} {g : Graph}
    (h : interpret isAlpha m t = .ok g) (hmd : MetaDict t.metadata) : PyGraph g ∧ g.metadata = t.metadata := by
  obtain ⟨v, ds, es, D⟩ := Interp.decoded h
  have hm : g.metadata = t.metadata := by rw [D.md]; exact Interp.ofList_of_nodup _ hmd
  refine ⟨⟨?_, ?_, ?_, ?_⟩, hm⟩
  · intro x hx
    rw [D.triples] at hx
    obtain ⟨d, _, rfl⟩ := List.mem_map.1 hx
    exact startsWith_ensureColon _
  · rw [getTop_of_top D.top, D.top]
  · rw [D.epi, Interp.epimapOf_eq_firstOcc]
    exact (Interp.firstOccAux_keys_nodup (·.1) [] es).1
  · rw [hm]; exact hmd

/-! ### `reify_edges` with nothing to reify -/

/-- the body of the loop of `reify_edges` (verbatim) -/
def rStep (m : Model) (g : Graph) (st : RState) (t : Triple) : Except PyErr RState :=
    if m.isReifiable t.role then do
      let (inT, nodeT, outT) ← m.reify t st.vars
      let inv ← appearsInverted g t
      let (inT, outT) := if inv then (outT, inT) else (inT, outT)
      let var := nodeT.src
      let ep := st.epidata.set inT [.push var]
      let old := (AList.get? ep t).getD []
      let ep := ep.erase t
      let (nodeEpis, outEpis) := edgeMarkers old
      let ep := (ep.set nodeT nodeEpis).set outT outEpis
      pure { vars := var :: st.vars, epidata := ep, triples := outT :: nodeT :: inT :: st.triples }
    else pure { st with triples := t :: st.triples }

theorem reifyEdges_unfold (m : Model) (g : Graph) :
    reifyEdges m g = (do
      let st ← g.triples.foldlM (rStep m g) { vars := g.variables, epidata := g.epidata, triples := [] }
      pure (Graph.mk' st.triples.reverse g.getTop st.epidata g.metadata)) := rfl

theorem rStep_fold (m : Model) (g : Graph) : ∀ (l : List Triple) (st : RState),
    (∀ t ∈ l, m.isReifiable t.role = false) →
    l.foldlM (rStep m g) st = .ok { st with triples := l.reverse ++ st.triples }
  | [], st, _ => by simp [pure, Except.pure]
  | t :: l, st, h => by
    have ht : rStep m g st t = .ok { st with triples := t :: st.triples } := by
      unfold rStep; simp [h t List.mem_cons_self, pure, Except.pure]
    simp only [List.foldlM, bind, Except.bind, ht]
    rw [rStep_fold m g l _ (fun x hx => h x (List.mem_cons_of_mem _ hx))]
    simp

theorem reifyEdges_idle {m : Model} {g : Graph} (hp : PyGraph g) (h : NoReifiable m g) :
    reifyEdges m g = .ok g := by
  rw [reifyEdges_unfold, rStep_fold m g g.triples _ h]
  simp only [bind, Except.bind, pure, Except.pure, List.append_nil, List.reverse_reverse]
  rw [mk'_self hp]

/-! ### `dereify_edges` with an empty agenda -/

/-- the body of the loop of `dereify_edges` (verbatim) -/
def dStep (agenda : List Agenda) (acc : List Triple × Epidata) (t : Triple) : List Triple × Epidata :=
    let (ts, ep) := acc
    match agenda.find? (·.var = t.src) with
    | some ag =>
      let (ts, ep) := if t = ag.first then (ag.dereified :: ts, ep.set ag.dereified ag.epidata) else (ts, ep)
      (ts, ep.erase t)
    | none => (t :: ts, ep)

theorem dereifyEdges_unfold (m : Model) (g : Graph) :
    dereifyEdges m g = (do
      let agenda ← dereifyAgenda m g
      let r := g.triples.foldl (dStep agenda) ([], g.epidata)
      pure (Graph.mk' r.1.reverse g.getTop r.2 g.metadata)) := rfl

theorem dStep_fold : ∀ (l : List Triple) (acc : List Triple × Epidata),
    l.foldl (dStep []) acc = (l.reverse ++ acc.1, acc.2)
  | [], acc => by simp
  | t :: l, acc => by
    have ht : dStep [] acc t = (t :: acc.1, acc.2) := by
      obtain ⟨ts, ep⟩ := acc; simp [dStep]
    simp only [List.foldl_cons, ht]
    rw [dStep_fold l]; simp

theorem dereifyEdges_idle {m : Model} {g : Graph} (hp : PyGraph g) (h : NoCollapsible m g) :
    dereifyEdges m g = .ok g := by
  have h' : dereifyAgenda m g = .ok [] := h
  rw [dereifyEdges_unfold, h']
  simp only [bind, Except.bind, pure, Except.pure, dStep_fold, List.append_nil, List.reverse_reverse]
  rw [mk'_self hp]

/-! ### `reify_attributes` without attributes -/

abbrev AAcc := List Str × Nat × Epidata × List Triple

/-- the body of the loop of `reify_attributes` (verbatim) -/
def aStep (acc : AAcc) (t : Triple) : AAcc :=
    let (vars, i, ep, ts) := acc
    if t.role ≠ CONCEPT_ROLE ∧ !atomInVars vars t.tgt then
      let (var, i') := if ['_'] ∈ vars then attrVarLoop vars (vars.length + 1) i else (['_'], i)
      let roleT : Triple := ⟨t.src, t.role, .str var⟩
      let nodeT : Triple := ⟨var, CONCEPT_ROLE, t.tgt⟩
      let old := (AList.get? ep t).getD []
      let ep := ep.erase t
      let (roleEpis, nodeEpis) := attrMarkers old
      let ep := (ep.set roleT (roleEpis ++ [.push var])).set nodeT (nodeEpis ++ [.pop])
      (var :: vars, i', ep, nodeT :: roleT :: ts)
    else (vars, i, ep, t :: ts)

theorem reifyAttributes_unfold (g : Graph) :
    reifyAttributes g =
      Graph.mk' (g.triples.foldl aStep (g.variables, 2, g.epidata, [])).2.2.2.reverse g.getTop
        (g.triples.foldl aStep (g.variables, 2, g.epidata, [])).2.2.1 g.metadata := rfl

theorem aStep_fold (vars : List Str) : ∀ (l : List Triple) (i : Nat) (ep : Epidata) (ts : List Triple),
    (∀ t ∈ l, t.role = CONCEPT_ROLE ∨ atomInVars vars t.tgt = true) →
    l.foldl aStep (vars, i, ep, ts) = (vars, i, ep, l.reverse ++ ts)
  | [], i, ep, ts, _ => by simp
  | t :: l, i, ep, ts, h => by
    have ht : aStep (vars, i, ep, ts) t = (vars, i, ep, t :: ts) := by
      have : ¬ (t.role ≠ CONCEPT_ROLE ∧ (!atomInVars vars t.tgt) = true) := by
        rcases h t List.mem_cons_self with h1 | h1
        · exact fun hc => hc.1 h1
        · simp [h1]
      simp only [aStep, this, if_false]
    simp only [List.foldl_cons, ht]
    rw [aStep_fold vars l _ _ _ (fun x hx => h x (List.mem_cons_of_mem _ hx))]
    simp

theorem reifyAttributes_idle {g : Graph} (hp : PyGraph g) (h : NoAttributes g) : reifyAttributes g = g := by
  rw [reifyAttributes_unfold, aStep_fold g.variables g.triples _ _ _ h]
  simp only [List.append_nil, List.reverse_reverse]
  exact mk'_self hp

/-! ### the stages of `_process_in` -/

/-- the graph stages of `_process_in`, in order -/
def stages (m : Model) (o : Opts) (g : Graph) : Except PyErr Graph := do
  let g ← if o.reifyEdges then reifyEdges m g else pure g
  let g ← if o.dereifyEdges then dereifyEdges m g else pure g
  let g := if o.reifyAttributes then reifyAttributes g else g
  pure g

/-- **the selected stages are the identity on a graph on which they have nothing to do** -/
theorem stages_idle {m : Model} {o : Opts} {g : Graph} (hp : PyGraph g) (h : StagesIdle m o g) :
    stages m o g = .ok g := by
  have h1 : o.reifyEdges = true → reifyEdges m g = .ok g := fun hc => reifyEdges_idle hp (h.reify hc)
  have h2 : o.dereifyEdges = true → dereifyEdges m g = .ok g := fun hc => dereifyEdges_idle hp (h.dereify hc)
  have h3 : o.reifyAttributes = true → reifyAttributes g = g := fun hc => reifyAttributes_idle hp (h.attrs hc)
  unfold stages
  cases hr : o.reifyEdges <;> cases hd : o.dereifyEdges <;> cases ha : o.reifyAttributes <;>
    simp only [hr, hd, ha, forall_const, Bool.false_eq_true, false_implies] at h1 h2 h3 <;>
    simp [*, bind, Except.bind, pure, Except.pure]

end C20gen
end Penman

import Penman.Proofs.Configure14
/-!
# C06 (and the `configure` half of C03) — layout markers shape the text but never its content; encoding is total

Model: `Penman/Layout.lean` — `preconfEpis`, `preconfigure`, `orient`, `pushVar`,
`configureNode`, `establishIn`, `getOrEstablish`, `findNext`, `stripPops`, `configureLoop`,
`buildNode`/`buildBranches`, `configure` (Python: `penman/layout.py` `configure`, `_configure`,
`_preconfigure`, `_configure_node`, `_find_next`, `_get_or_establish_site`).
Specification vocabulary: `Penman/Spec/Configure.lean` (`placed`, `denote`, `pending`, `Step`,
`Corr`, `Sim`, `PreStep`, `Pre`, `Adj`, `Reach`, and the decidable hypotheses `RoleOK2`,
`NoInstOf`, `PushSrcOK`, `PushVars`, `TopOK`). Lemmas: `Penman/Proofs/Configure1…9.lean`.

All statements are about the top-level, fuel-instantiated `configure`; the three fuels are
discharged (`configureNode_fuel_irrelevant`, `configureLoop_fuel_suffices`, `buildNode_total`),
nothing is "true because fuel ran out".

Clause of the property text ↦ theorem(s)

* C06 *"Whatever layout markers a … graph carries … encoding terminates"* and *"no other
  exception escapes for any list of triples"* ↦ `configure_no_other` (no hypothesis at all:
  every graph, top, model, epidata), `configure_ne_other`; the fuel facts behind it:
  `configureLoop_fuel_suffices` (measure `psi = (|data|+|skipped|)² + |data|` strictly decreases
  every round, `round_decreases`), `configureNode_fuel_irrelevant`, `buildNode_total`
  (the cell store is a forest: `Cfg.Forest`, `Cfg.storeOf_good`).
* C06 *"Encoding fails, and then only with the layout error"* ↦ `configure_error_kind`
  (only LayoutError kinds 0, 1, 3 — "unknown configuration error" (2) is unreachable — or the
  model's `unmodelled` marker for `Push(source)` on a non-string target),
  `configure_layout0_iff` (kind 0 ⇔ the requested/implicit top is missing or not a variable).
* C06 *"… exactly when some variable is not weakly connected to the top (or the requested top
  is not a variable)"* ↦ `configure_complete` (connected ⇒ succeeds), `configure_success_connected`
  (succeeds ⇒ top is a variable and all variables connected), combined in `configure_ok_iff`.
  Hypotheses (all decidable, all forced — see below): `NoInstOf`, `PushSrcOK`, `PushVars`, `TopOK`.
* C06 *"succeeds, and decodes to the same graph"* / C03 *"Every triple is expressed exactly once:
  nothing is dropped (including constants equal to 0), duplicated, re-targeted, or changed
  between edge and attribute"* — the `configure` half ↦ `configure_sound_triples`: the triples
  denoted by the final cell store (`placed`, each edge read back with `/` ↦ `:instance`,
  node target ↦ its variable) are, up to order, exactly the graph's triples, each one possibly
  inverted once by `preconfigure` (`Pre`, only for `Push(source)`), then kept, inverted once, or —
  only for `(v :instance None/"")` — dropped (`Corr`/`Step`). No epidata restriction is needed
  (alignments are carried on the edges and do not enter `placed`). `num "0"` is not missing, so
  constants equal to 0 are kept (`zero_not_dropped`). `roleOK2_of_colon`: the role hypothesis
  holds for every role written with its colon (what `Graph.mk'` produces).

Hypotheses and why they are needed
* `RoleOK2 m t` (soundness only): the role and its first two inversions are not the literal `/`,
  because `/` is how the store spells `:instance`. Implied by a leading colon.
* `NoInstOf m g` (both directions of the iff): no non-instance role inverts to `:instance`
  (`:instance-of`). Such a triple, met at its target, is expressed as the *concept* of the
  target and its source is never made available.
* `PushSrcOK g`: `Push(src)` only on triples whose target is a string; otherwise the model leaves
  its domain (`unmodelled`; Python would build a node for a non-string).
* `PushVars g` (success ⇒ connected only): every `Push` names a variable; a `Push` on a constant
  deliberately turns the constant into a node (boundary O14) and can connect variables through it.
* `TopOK g t` (success ⇒ connected only): an explicit `g.top` different from the requested top
  must occur as a source; otherwise it is a variable (by definition of `variables`) with no
  triple at all, trivially unreachable, and `configure` still succeeds
  (`isolated_explicit_top_succeeds`).

* store → tree (formerly UNPROVED, now proved) ↦ `configure_tree_triples`: without alignment markers
  (`NoAlign g`) the triples written in the returned tree (`Node.edgeTriples`: every branch
  `(v, role, target-or-nested-variable)`, `/` read as `:instance`, text untouched) are a permutation
  of `placed st.cells`, and the tree has exactly one node per cell; hence
  `configure_sound_tree`: the tree's triples are the graph's triples, each kept or inverted once,
  null instances dropped, nothing duplicated. `configure_tree_written` is the alignment-agnostic
  form (any epidata): the relations the tree writes (`Spec.Reading.Node.written`) are, up to
  order, exactly the edges of the cells as `buildBranches` renders them (`edgeWritten`), plus the
  implicit null label of unlabelled cells. Invariants behind it: keys distinct, every cell but the
  top has exactly one incoming node edge (`Cfg.Deg`), J1 (`Cfg.J1`), forest (`Cfg.Forest`);
  `Cfg.traverse` is the exactly-once traversal argument.

FINDING (model defect, fixed during this work): the loop fuel was `2 * data.length + 2`; the real
loop needs Θ(n²) rounds. With k blocked instance triples `(xᵢ :instance a)` followed by a chain
`(y_{k-1} :R y_k) … (a :R y₁)` in reverse order (n = 2k triples) Python runs the loop
≈ k²/2 + 2k times (k = 5: 25 > 22) and raises LayoutError('incomplete configuration'); the model
returned `other "configure: fuel"`. `Layout.lean` now uses `(n+1)² + 1`; `quad5_layout3` replays
the family member k = 5 on the repaired model.
-/
namespace Penman
open Cfg

/-! ## 1. totality: no exception other than LayoutError -/

/-- (b) `configureNode`: any two fuels above `data.length` give the same result -/
theorem configureNode_fuel_irrelevant (m : Model) (f f' : Nat) (var : Str) (data : List Datum) (st : St) (s : Bool)
    (h : data.length < f) (h' : data.length < f') :
    configureNode m f var data st s = configureNode m f' var data st s :=
  Cfg.cn_fuel m f f' var data st s h h'

/-- (a) every round of the loop strictly decreases `psi` -/
theorem round_decreases {m : Model} {a b : List Datum × List Datum × St} (h : Round m a b) :
    psi b.1 b.2.1 < psi a.1 a.2.1 := Cfg.round_psi h

/-- (a) with fuel above `psi` the loop never reports fuel exhaustion (nor any other
    non-layout error), and its result does not depend on the fuel -/
theorem configureLoop_fuel_suffices (m : Model) (fuel fuel' : Nat) (data skipped : List Datum) (st : St)
    (h : psi data skipped < fuel) (h' : psi data skipped < fuel') :
    (∀ s, configureLoop m fuel data skipped st ≠ .error (.other s)) ∧
    configureLoop m fuel data skipped st = configureLoop m fuel' data skipped st :=
  ⟨Cfg.loop_no_other m fuel data skipped st h, Cfg.loop_fuel m fuel fuel' data skipped st h h'⟩

/-- the fuel `configure` passes to the loop exceeds `psi` of the initial state -/
theorem configure_loop_fuel (data : List Datum) (n : Nat) (h : data.length ≤ n) :
    psi (stripPops data) [] < (n + 1) * (n + 1) + 1 := Cfg.psi_start data n h

/-- (c) the store `configure` builds is a forest and `buildNode` succeeds on it -/
theorem buildNode_total {m : Model} {g : Graph} {top : Str} {st : St} (h : storeOf m g top = .ok st) (v : Str) :
    Forest st.cells ∧ ∃ n, buildNode st.cells (2 * st.cells.length + 2) v = .ok n :=
  ⟨(Cfg.storeOf_good h).forest, Cfg.buildNode_ok (Cfg.storeOf_good h).forest v⟩

/-- `configure` is `storeOf` followed by `buildNode` -/
theorem configure_pipeline (m : Model) (g : Graph) (top : Option Str) : configure m g top =
    if g.triples.isEmpty then .ok { node := .mk g.getTop .nil, metadata := g.metadata } else
    match topOf g top with
    | none => .error (.layout 0)
    | some t => if t ∉ g.variables then .error (.layout 0) else
      (storeOf m g t).bind fun st2 =>
        (buildNode st2.cells (2 * st2.cells.length + 2) t).bind fun node =>
          .ok { node := node, metadata := g.metadata } := Cfg.configure_eq m g top

/-- **C06, totality.** For every graph, top and model: success, a LayoutError, or outside the
    modelled domain — never any other exception. -/
theorem configure_no_other (m : Model) (g : Graph) (top : Option Str) :
    (∃ T, configure m g top = .ok T) ∨ (∃ k, configure m g top = .error (.layout k)) ∨
    (∃ w, configure m g top = .error (.unmodelled w)) := Cfg.configure_no_other m g top

theorem configure_ne_other (m : Model) (g : Graph) (top : Option Str) (s : String) :
    configure m g top ≠ .error (.other s) := Cfg.configure_ne_other m g top s

/-! ## 3. which error -/

theorem configure_error_kind (m : Model) (g : Graph) (top : Option Str) (e : PyErr)
    (h : configure m g top = .error e) :
    e = .layout 0 ∨ e = .layout 1 ∨ e = .layout 3 ∨ ∃ w, e = .unmodelled w :=
  Cfg.configure_error_kind m g top e h

theorem configure_layout0_iff (m : Model) (g : Graph) (top : Option Str) :
    configure m g top = .error (.layout 0) ↔
      (g.triples.isEmpty = false ∧ ∀ t, topOf g top = some t → t ∉ g.variables) :=
  Cfg.configure_layout0_iff m g top

/-! ## 2. content preservation -/

/-- **C03/C06, content.** If `configure` succeeds on a non-empty graph, the tree is built from a
    cell store whose denoted triples are the graph's triples up to order, per-triple inversion,
    and dropped null instances. -/
theorem configure_sound_triples {m : Model} {g : Graph} {top : Option Str} {T : Tree}
    (hr : ∀ t ∈ g.triples, RoleOK2 m t) (hne : g.triples.isEmpty = false)
    (h : configure m g top = .ok T) :
    ∃ t st node, topOf g top = some t ∧ t ∈ g.variables ∧ storeOf m g t = .ok st ∧
      buildNode st.cells (2 * st.cells.length + 2) t = .ok node ∧
      T = { node := node, metadata := g.metadata } ∧
      ∃ l1, Pre m g.triples l1 ∧ Sim m l1 (placed st.cells) := by
  rcases configure_cases m g top with ⟨he, _⟩ | ⟨_, _, h'⟩ | ⟨t, _, ht, htv, ⟨e, _, h'⟩ | ⟨st, node, hs, _, hb, h'⟩⟩
  · rw [he] at hne; simp at hne
  · rw [h'] at h; simp at h
  · rw [h'] at h; simp at h
  · rw [h'] at h; simp only [Except.ok.injEq] at h
    exact ⟨t, st, node, ht, htv, hs, hb, h.symm, Cfg.storeOf_sound hs hr⟩

/-- roles written with their colon satisfy the role hypothesis -/
theorem roleOK2_of_colon (m : Model) (t : Triple) (h : t.role.head? = some ':') : RoleOK2 m t :=
  Cfg.roleOK2_of_colon m t h

/-- unfolding of `Sim`: an explicit list of "expressed as" choices -/
theorem sim_iff (m : Model) (l1 l2 : List Triple) :
    Sim m l1 l2 ↔ ∃ l, Corr m l1 l ∧ l.Perm l2 := Iff.rfl

/-- a constant equal to 0 is not a null instance, so it is never dropped -/
theorem zero_not_dropped (v : Str) : ¬ NullInst ⟨v, CONCEPT_ROLE, .num "0".toList⟩ := by
  intro h; simp [NullInst, Atom.isMissing] at h

/-! ## 2b. from the store to the tree -/

/-- **store → tree.** Without alignment markers the triples written in the configured tree are a
    permutation of the triples placed in the store, and the tree has one node per cell. -/
theorem configure_tree_triples {m : Model} {g : Graph} {top : Option Str} {T : Tree}
    (hr : ∀ t ∈ g.triples, RoleOK2 m t) (hna : NoAlign g) (hne : g.triples.isEmpty = false)
    (h : configure m g top = .ok T) :
    ∃ t st, topOf g top = some t ∧ storeOf m g t = .ok st ∧ T.node.var = some t ∧
      T.node.edgeTriples.Perm (placed st.cells) ∧
      T.node.vars.Perm (ckeys st.cells) ∧ (ckeys st.cells).Nodup := by
  obtain ⟨t, st, node, ht, _, hs, hb, rfl, _⟩ := configure_sound_triples hr hne h
  obtain ⟨_, hv, _, hnd, hvar⟩ := Cfg.storeOf_tree hr hs hb
  exact ⟨t, st, ht, hs, hvar, Cfg.storeOf_tree_triples hr hna hs hb, hv, hnd⟩

/-- alignment-agnostic form: what the tree writes is what the cells hold -/
theorem configure_tree_written {m : Model} {g : Graph} {top : Option Str} {T : Tree}
    (hr : ∀ t ∈ g.triples, RoleOK2 m t) (hne : g.triples.isEmpty = false)
    (h : configure m g top = .ok T) :
    ∃ t st, topOf g top = some t ∧ storeOf m g t = .ok st ∧
      (Spec.Reading.Node.written T.node).Perm (flat ownW st.cells) := by
  obtain ⟨t, st, node, ht, _, hs, hb, rfl, _⟩ := configure_sound_triples hr hne h
  exact ⟨t, st, ht, hs, (Cfg.storeOf_tree hr hs hb).1⟩

/-- **C03/C06, content, at the level of the returned tree.** The triples written in the tree are
    the graph's triples up to order, each possibly inverted by `preconfigure`, then kept, inverted
    once, or (null instance) dropped — nothing duplicated, nothing else dropped. -/
theorem configure_sound_tree {m : Model} {g : Graph} {top : Option Str} {T : Tree}
    (hr : ∀ t ∈ g.triples, RoleOK2 m t) (hna : NoAlign g) (hne : g.triples.isEmpty = false)
    (h : configure m g top = .ok T) :
    ∃ l1, Pre m g.triples l1 ∧ Sim m l1 T.node.edgeTriples := by
  obtain ⟨t, st, node, ht, _, hs, hb, rfl, l1, hpre, hsim⟩ := configure_sound_triples hr hne h
  exact ⟨l1, hpre, hsim.perm_right (Cfg.storeOf_tree_triples hr hna hs hb).symm⟩

/-! ## 4. success ⇔ connected -/

/-- **C06, completeness.** -/
theorem configure_complete {m : Model} {g : Graph} {top : Option Str} {t : Str} (hn : NoInstOf m g)
    (hpush : PushSrcOK g) (ht : topOf g top = some t) (htv : t ∈ g.variables)
    (hreach : ∀ v ∈ g.variables, Reach g t v) : ∃ T, configure m g top = .ok T :=
  Cfg.configure_complete hn hpush ht htv hreach

/-- **C06, failure only when disconnected.** -/
theorem configure_success_connected {m : Model} {g : Graph} {top : Option Str} {T : Tree}
    (hn : NoInstOf m g) (hpv : PushVars g) (hne : g.triples.isEmpty = false)
    (h : configure m g top = .ok T) :
    ∃ t, topOf g top = some t ∧ t ∈ g.variables ∧ (TopOK g t → ∀ v ∈ g.variables, Reach g t v) :=
  Cfg.configure_success_connected hn hpv hne h

/-- **C06, "exactly when".** -/
theorem configure_ok_iff {m : Model} {g : Graph} {top : Option Str} {t : Str}
    (hn : NoInstOf m g) (hpush : PushSrcOK g) (hpv : PushVars g) (hne : g.triples.isEmpty = false)
    (ht : topOf g top = some t) (htop : TopOK g t) :
    (∃ T, configure m g top = .ok T) ↔ (t ∈ g.variables ∧ ∀ v ∈ g.variables, Reach g t v) := by
  constructor
  · rintro ⟨T, h⟩
    obtain ⟨t', ht', htv, hr⟩ := Cfg.configure_success_connected hn hpv hne h
    rw [ht] at ht'; simp only [Option.some.injEq] at ht'; subst ht'
    exact ⟨htv, hr htop⟩
  · rintro ⟨htv, hr⟩
    exact Cfg.configure_complete hn hpush ht htv hr

/-- the failing side, with the error named -/
theorem configure_error_iff {m : Model} {g : Graph} {top : Option Str} {t : Str}
    (hn : NoInstOf m g) (hpush : PushSrcOK g) (hpv : PushVars g) (hne : g.triples.isEmpty = false)
    (ht : topOf g top = some t) (htop : TopOK g t) :
    (∃ k, configure m g top = .error (.layout k)) ↔ ¬ (t ∈ g.variables ∧ ∀ v ∈ g.variables, Reach g t v) := by
  rw [← configure_ok_iff hn hpush hpv hne ht htop]
  constructor
  · rintro ⟨k, h⟩ ⟨T, h'⟩; rw [h] at h'; simp at h'
  · intro hno
    rcases Cfg.configure_no_other m g top with h | h | ⟨w, h⟩
    · exact absurd h hno
    · exact h
    · exfalso
      -- `unmodelled` only comes from `preconfigure`, excluded by `PushSrcOK`
      rcases configure_cases m g top with ⟨he, _⟩ | ⟨_, _, h'⟩ | ⟨t', _, _, _, ⟨e, hs, h'⟩ | ⟨st, node, _, _, _, h'⟩⟩
      · rw [he] at hne; simp at hne
      · rw [h'] at h; simp at h
      · rw [h'] at h; simp only [Except.error.injEq] at h; subst h
        unfold storeOf at hs
        obtain ⟨data, hp⟩ := Cfg.preconfigure_ok m g.epidata g.triples [] (by
          intro t ht
          rcases hpush t ht with h | h | h
          · left; cases htg : t.tgt <;> simp [htg, tgtStr?] at h ⊢
          · exact Or.inr (Or.inl h)
          · exact Or.inr (Or.inr h))
        rw [hp] at hs
        simp only [Except.bind] at hs
        rcases Cfg.loop_err m _ _ _ _ _ (Cfg.psi_start _ data.length (Cfg.cn_length_le _ _ _ _ _ _)) hs with h | h <;>
          simp at h
      · rw [h'] at h; simp at h

/-! ## non-vacuity: a concrete graph with stale, contradictory markers -/

namespace C06Examples

/-- decidable views of a result (`Tree` has no `DecidableEq`) -/
def errOf {α : Type} (r : Except PyErr α) : Option PyErr := match r with | .error e => some e | .ok _ => none
theorem eq_error {α : Type} {r : Except PyErr α} {e : PyErr} (h : errOf r = some e) : r = .error e := by
  cases r with
  | error e' => simp [errOf] at h; rw [h]
  | ok _ => simp [errOf] at h
theorem eq_ok {α : Type} {r : Except PyErr α} (h : errOf r = none) : ∃ T, r = .ok T := by
  cases r with
  | error e' => simp [errOf] at h
  | ok T => exact ⟨T, rfl⟩

/-- success of `configure` from success of the (kernel-evaluable) store computation -/
theorem configure_ok_of_store {m : Model} {g : Graph} {top : Option Str} {t : Str}
    (hne : g.triples.isEmpty = false) (ht : topOf g top = some t) (htv : t ∈ g.variables)
    (hs : errOf (storeOf m g t) = none) : ∃ T, configure m g top = .ok T := by
  rcases configure_cases m g top with ⟨he, _⟩ | ⟨_, hno, _⟩ | ⟨t', _, ht', _, ⟨e, hs', _⟩ | ⟨st, node, _, _, _, h⟩⟩
  · rw [he] at hne; simp at hne
  · exact absurd htv (hno t ht)
  · rw [ht] at ht'; simp only [Option.some.injEq] at ht'; subst ht'
    rw [hs'] at hs; simp [errOf] at hs
  · exact ⟨_, h⟩

def T (s r : String) (t : Atom) : Triple := ⟨s.toList, r.toList, t⟩
def S (s : String) : Atom := .str s.toList

/-- `(b / bark-01 :ARG0 (d / dog :quant 0 :ARG1-of b) :polarity None)` with a `Push(b)` on a triple
    whose source is `b`, surplus `POP`s, a `Push(d)` on `d`'s own instance triple and an alignment -/
def g1 : Graph :=
  { triples := [T "b" ":instance" (S "bark-01"), T "b" ":ARG0" (S "d"), T "d" ":instance" (S "dog"),
                T "d" ":quant" (.num "0".toList), T "d" ":ARG1-of" (S "b"), T "b" ":polarity" .none],
    epidata := [(T "b" ":ARG0" (S "d"), [.push "b".toList, .pop, .aln none [3]]),
                (T "d" ":instance" (S "dog"), [.pop, .push "d".toList, .pop])] }

example : NoInstOf {} g1 := by decide
example : PushSrcOK g1 := by decide
example : PushVars g1 := by decide
example : TopOK g1 "b".toList := by decide
example : TopOK g1 "d".toList := by decide
example : ∀ t ∈ g1.triples, RoleOK2 {} t := by decide
example : ∀ t ∈ g1.triples, t.role.head? = some ':' := by decide
example : g1.triples.isEmpty = false := by decide
example : topOf g1 none = some "b".toList := by decide
example : g1.variables = ["b".toList, "d".toList] := by decide

theorem g1_adj : Adj g1 "b".toList "d".toList :=
  ⟨T "b" ":ARG0" (S "d"), by decide, by decide, by decide, by decide, Or.inl ⟨rfl, rfl⟩⟩

theorem g1_adj' : Adj g1 "d".toList "b".toList :=
  ⟨T "b" ":ARG0" (S "d"), by decide, by decide, by decide, by decide, Or.inr ⟨rfl, rfl⟩⟩

theorem g1_connected_b : ∀ v ∈ g1.variables, Reach g1 "b".toList v := by
  intro v hv
  have h : v = "b".toList ∨ v = "d".toList := by
    have : g1.variables = ["b".toList, "d".toList] := by decide
    rw [this] at hv; simpa using hv
  rcases h with rfl | rfl
  · exact Reach.refl
  · exact Reach.step Reach.refl g1_adj

theorem g1_connected_d : ∀ v ∈ g1.variables, Reach g1 "d".toList v := by
  intro v hv
  have h : v = "b".toList ∨ v = "d".toList := by
    have : g1.variables = ["b".toList, "d".toList] := by decide
    rw [this] at hv; simpa using hv
  rcases h with rfl | rfl
  · exact Reach.step Reach.refl g1_adj'
  · exact Reach.refl

/-- the theorems apply: `g1` encodes from either top -/
example : ∃ T, configure {} g1 none = .ok T :=
  configure_complete (t := "b".toList) (by decide) (by decide) (by decide) (by decide) g1_connected_b
example : ∃ T, configure {} g1 (some "d".toList) = .ok T :=
  configure_complete (t := "d".toList) (by decide) (by decide) (by decide) (by decide) g1_connected_d

example : NoAlign { g1 with epidata := [(T "b" ":ARG0" (S "d"), [.push "b".toList, .pop])] } := by decide

/-- a disconnected graph and a bad top: the error cases are inhabited -/
def g2 : Graph := { triples := [T "a" ":instance" (S "x"), T "b" ":instance" (S "y")] }
example : configure {} g2 none = .error (.layout 1) := eq_error (by decide +kernel)
example : configure {} g2 (some "q".toList) = .error (.layout 0) := eq_error (by decide +kernel)
example : configure {} { triples := [T "a" ":instance" (S "x"), T "b" ":instance" (S "a")] } none
    = .error (.layout 3) := eq_error (by decide +kernel)

/-- replay of the fuel finding on the repaired model (k = 5, 10 triples, 25 rounds) -/
def quad5 : Graph :=
  { triples := [T "x0" ":instance" (S "a"), T "x1" ":instance" (S "a"), T "x2" ":instance" (S "a"),
                T "x3" ":instance" (S "a"), T "x4" ":instance" (S "a"),
                T "y4" ":R" (S "y5"), T "y3" ":R" (S "y4"), T "y2" ":R" (S "y3"), T "y1" ":R" (S "y2"),
                T "a" ":R" (S "y1")],
    top := some "a".toList }
theorem quad5_layout3 : configure {} quad5 none = .error (.layout 3) := eq_error (by decide +kernel)
/-- the old fuel `2 * n + 2 = 22` was too small for this input -/
example : ((preconfigure {} quad5.epidata quad5.triples []).bind fun data =>
    configureLoop {} (2 * data.length + 2)
      (stripPops (configureNode {} (data.length + 1) "a".toList data (st0 quad5 "a".toList) false).1) []
      (configureNode {} (data.length + 1) "a".toList data (st0 quad5 "a".toList) false).2.1)
      = .error (.other "configure: fuel") := eq_error (by decide +kernel)

/-! ### the hypotheses of `configure_ok_iff` are needed (all three replayed on the Python code) -/

/-- without `NoInstOf`: weakly connected, yet LayoutError (`:instance-of` met at its target becomes
    the target's concept, its source is never made available) -/
def gA : Graph :=
  { triples := [T "b" ":instance" (S "x"), T "a" ":instance-of" (S "b"), T "a" ":R" (S "c")],
    top := some "b".toList }
theorem noInstOf_needed :
    configure {} gA none = .error (.layout 1) ∧ (∀ v ∈ gA.variables, Reach gA "b".toList v) ∧ ¬ NoInstOf {} gA := by
  refine ⟨eq_error (by decide +kernel), ?_, by decide⟩
  intro v hv
  have h : v = "b".toList ∨ v = "a".toList := by
    have : gA.variables = ["b".toList, "a".toList] := by decide
    rw [this] at hv; simpa using hv
  rcases h with rfl | rfl
  · exact Reach.refl
  · exact Reach.step Reach.refl
      ⟨T "a" ":instance-of" (S "b"), by decide, by decide, by decide, by decide, Or.inr ⟨rfl, rfl⟩⟩

/-- without `PushVars`: `Push(k)` on the constant `k` makes it a node through which `b` is attached
    (boundary O14): success although `b` is not connected to `a` through variables -/
def gB : Graph :=
  { triples := [T "a" ":instance" (S "x"), T "a" ":R" (S "k"), T "b" ":S" (S "k"), T "b" ":instance" (S "y")],
    epidata := [(T "a" ":R" (S "k"), [.push "k".toList])] }
theorem pushVars_needed :
    (∃ T, configure {} gB none = .ok T) ∧ ¬ Reach gB "a".toList "b".toList ∧ ¬ PushVars gB := by
  refine ⟨configure_ok_of_store (t := "a".toList) (by decide) (by decide) (by decide) (by decide +kernel),
    ?_, by decide⟩
  have hdec : ∀ t ∈ gB.triples, ∀ c ∈ gB.variables, t.role ≠ CONCEPT_ROLE →
      ((t.src = "a".toList ∧ t.tgt = .str c) ∨ (t.src = c ∧ t.tgt = .str "a".toList)) → c = "a".toList := by
    decide
  have key : ∀ v, Reach gB "a".toList v → v = "a".toList := by
    intro v h
    induction h with
    | refl => rfl
    | step _ hadj ih =>
      subst ih
      obtain ⟨t, ht, hr, _, hc, hdir⟩ := hadj
      exact hdec t ht _ hc hr hdir
  intro h
  have := key _ h
  simp at this

/-- without `TopOK`: an explicit top with no triple is a variable connected to nothing, and
    encoding from another top still succeeds -/
def gC : Graph := { triples := [T "a" ":instance" (S "x")], top := some "z".toList }
theorem isolated_explicit_top_succeeds :
    (∃ T, configure {} gC (some "a".toList) = .ok T) ∧ "z".toList ∈ gC.variables ∧
      ¬ Reach gC "a".toList "z".toList ∧ ¬ TopOK gC "a".toList := by
  refine ⟨configure_ok_of_store (t := "a".toList) (by decide) (by decide) (by decide) (by decide +kernel),
    by decide, ?_, by decide⟩
  intro h
  cases h with
  | step _ hadj =>
    obtain ⟨t, ht, hr, _⟩ := hadj
    simp only [gC, List.mem_singleton] at ht
    subst ht
    exact hr rfl

end C06Examples

end Penman

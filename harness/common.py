"""Shared helpers: paths, the driver process, canonical JSON forms."""
import json
import os
import subprocess
import sys

HERE = os.path.dirname(os.path.abspath(__file__))
VERIF = os.path.dirname(HERE)
REPO = os.environ.get('PENMAN_REPO', '/repo')
LEAN_DIR = os.path.join(VERIF, 'lean')
DRIVER = os.path.join(LEAN_DIR, '.lake', 'build', 'bin', 'penman_model')
BUILD = os.path.join(VERIF, 'build')

if REPO not in sys.path:
    sys.path.insert(0, REPO)

import logging  # noqa: E402
import warnings  # noqa: E402
# VERIF_ENV_VARIANT selects how the process is set up around the library (the check repeats a sample of
# its work in each): 'log' = every logger enabled down to level 1 (records go to a null handler),
# 'werror' = warnings issued from penman's modules are errors; default = logging disabled
_VARIANT = os.environ.get('VERIF_ENV_VARIANT', '')
if _VARIANT == 'log':
    logging.getLogger().addHandler(logging.NullHandler())
    logging.getLogger().setLevel(1)
    logging.getLogger('penman').setLevel(1)
else:
    logging.disable(logging.CRITICAL)
if _VARIANT == 'werror':
    warnings.filterwarnings('error', module=r'penman(\..*)?$')

import penman  # noqa: E402
from penman import layout, surface, transform, constant  # noqa: E402
from penman.graph import Graph  # noqa: E402
from penman.model import Model  # noqa: E402
from penman.tree import Tree  # noqa: E402
from penman.models import amr as _amr, noop as _noop  # noqa: E402
from penman import exceptions as pex  # noqa: E402


def tables():
    return json.load(open(os.path.join(BUILD, 'tables.json')))


# ---------------------------------------------------------------- driver

def run_driver(ops, timeout=600):
    """ops: list of JSON-able dicts -> list of parsed JSON answers"""
    if not ops:
        return []
    data = '\n'.join(json.dumps(o, ensure_ascii=False) for o in ops) + '\n'
    p = subprocess.run([DRIVER], input=data.encode('utf-8'), stdout=subprocess.PIPE,
                       stderr=subprocess.PIPE, timeout=timeout)
    if p.returncode != 0:
        raise RuntimeError(f'driver failed rc={p.returncode}: {p.stderr[-2000:]!r}')
    lines = p.stdout.decode('utf-8').split('\n')
    if lines and lines[-1] == '':
        lines.pop()
    if len(lines) != len(ops):
        raise RuntimeError(f'driver answered {len(lines)} lines for {len(ops)} ops')
    return [json.loads(l) for l in lines]


# ---------------------------------------------------------------- canonical forms

def j_atom(a):
    if a is None:
        return None
    if isinstance(a, str):
        return a
    if isinstance(a, bool):
        raise Unrepresentable('bool atom')
    if isinstance(a, (int, float)):
        return {'n': str(a)}
    raise Unrepresentable(f'atom {a!r}')


class Unrepresentable(Exception):
    """value outside the JSON transport / model types"""


def j_node(node):
    var, branches = node
    if var is not None and not isinstance(var, str):
        raise Unrepresentable('non-str var')
    out = []
    for role, tgt in branches:
        if not isinstance(role, str):
            raise Unrepresentable('non-str role')
        if isinstance(tgt, (tuple, list)):
            out.append([role, j_node(tgt)])
        else:
            out.append([role, j_atom(tgt)])
    return [var, out]


def py_atom(j):
    if isinstance(j, dict):
        t = j['n']
        try:
            return int(t)
        except ValueError:
            return float(t)
    return j


def py_node(j):
    var, bs = j
    return (var, [(r, py_node(t) if isinstance(t, list) else py_atom(t)) for r, t in bs])


def j_tree(t):
    return {'node': j_node(t.node), 'metadata': [[k, v] for k, v in t.metadata.items()]}


def py_tree(j):
    md = dict((k, v) for k, v in j.get('metadata', []))
    how = j.get('build')
    if how == 'later':
        # a tree built without metadata whose metadata is filled in afterwards (in place)
        t = Tree(py_node(j['node']))
        t.metadata.update(md)
        return t
    if how == 'default' and not md:
        return Tree(py_node(j['node']))            # the constructor's own default
    return Tree(py_node(j['node']), metadata=md)


def j_triple(t):
    s, r, tg = t
    if not isinstance(s, str) or not isinstance(r, str):
        raise Unrepresentable(f'triple {t!r}')
    return [s, r, j_atom(tg)]


def py_triple(j):
    return (j[0], j[1], py_atom(j[2]))


def j_epi(e):
    if isinstance(e, layout.Push):
        if not isinstance(e.variable, str):
            raise Unrepresentable('Push of non-str')
        return ['push', e.variable]
    if isinstance(e, layout.Pop):
        return ['pop']
    if isinstance(e, surface.RoleAlignment):
        return ['ra', e.prefix, list(e.indices)]
    if isinstance(e, surface.Alignment):
        return ['a', e.prefix, list(e.indices)]
    raise Unrepresentable(f'epi {e!r}')


def py_epi(j):
    if j[0] == 'push':
        return layout.Push(j[1])
    if j[0] == 'pop':
        # a FRESH Pop object, as in an unpickled / deep-copied graph (worker processes): marker
        # checks must use isinstance, never identity with the POP singleton (C17, issue #85)
        return layout.Pop()
    if j[0] == 'ra':
        return surface.RoleAlignment(tuple(j[2]), prefix=j[1])
    if j[0] == 'a':
        return surface.Alignment(tuple(j[2]), prefix=j[1])
    raise ValueError(j)


def j_graph(g):
    return {'triples': [j_triple(t) for t in g.triples],
            'top': g._top,
            'epidata': [[j_triple(t), [j_epi(e) for e in es]] for t, es in g.epidata.items()],
            'metadata': [[k, v] for k, v in g.metadata.items()]}


def py_graph(j):
    """build a Graph holding exactly the observed state (no re-normalisation)"""
    g = Graph()
    g.triples = [py_triple(t) for t in j['triples']]
    g._top = j.get('top')
    g.epidata = {py_triple(t): [py_epi(e) for e in es] for t, es in j.get('epidata', [])}
    g.metadata = dict((k, v) for k, v in j.get('metadata', []))
    return g


def j_err(e):
    if isinstance(e, pex.DecodeError):
        kind = 0 if 'Unexpected end' in (e.message or '') else 1
        return ['DecodeError', e.lineno, e.offset, kind]
    if isinstance(e, pex.LayoutError):
        msg = str(e)
        kind = (0 if msg.startswith('top is not') else 1 if 'disconnected' in msg
                else 2 if 'unknown configuration' in msg else 3 if 'incomplete' in msg else 9)
        return ['LayoutError', kind]
    if isinstance(e, pex.ConstantError):
        return ['ConstantError']
    if isinstance(e, pex.ModelError):
        return ['ModelError']
    if isinstance(e, pex.SurfaceError):
        return ['SurfaceError']
    if isinstance(e, pex.GraphError):
        return ['GraphError']
    return ['Other', type(e).__name__]


def res(f, conv=lambda x: x):
    """run f(); {'ok': conv(result)} or {'err': ...}"""
    try:
        r = f()
    except RecursionError:
        raise
    except Unrepresentable:
        raise
    except Exception as e:  # noqa: BLE001
        return {'err': j_err(e)}
    return {'ok': conv(r)}


# ---------------------------------------------------------------- models

META = set('.^$*+?{}[]\\|()')


def role_pat(p):
    for suffix, kind in (('[0-9]+', 'digits'), ('[0-9]', 'digit')):
        if p.endswith(suffix):
            base = p[:-len(suffix)]
            if not (set(base) & META):
                return [kind, base]
    if not (set(p) & META):
        return ['lit', p]
    raise Unrepresentable(f'role pattern {p!r}')


def pat_regex(p):
    kind, base = p
    return base + {'lit': '', 'digit': '[0-9]', 'digits': '[0-9]+'}[kind]


class NoOp(Model):
    def deinvert(self, triple):
        return triple


def py_model(spec):
    """spec: 'default' | 'amr' | 'noop' | dict -> penman Model"""
    if spec is None or spec == 'default':
        return Model()
    if spec == 'amr':
        return _amr.model
    if spec == 'noop':
        return _noop.model
    if 'roles_raw' in spec:
        return Model(roles={p: {} for p in spec['roles_raw']})
    cls = NoOp if spec.get('noop') else Model
    reifs = [(r, py_atom(c), s, t) for r, c, s, t in spec.get('reifs', [])]
    if len(reifs) % 2 == 1:
        # the parameter is typed Iterable: an odd-sized table is handed over as a one-shot
        # generator, an even-sized one as a list (both must build the same model)
        reifs = (x for x in list(reifs))
    return cls(
        top_variable=spec.get('topVariable', 'top'),
        top_role=spec.get('topRole', ':TOP'),
        concept_role=spec.get('conceptRole', ':instance'),
        roles={pat_regex(p): {} for p in spec.get('roles', [])},
        normalizations=dict((k, v) for k, v in spec.get('norm', [])),
        reifications=reifs,
    )

/-
  formatTriples ∘ lex (triple mode): the text of a triple conjunction, in every spacing
  variant of `Spec/TripleVariants.lean`, lexes to a token list that is a `ConjToks` of the
  triples (roles with one leading colon).
-/
import Penman.Proofs.FormatTop
import Penman.Proofs.ParseTriples
import Penman.Spec.TripleVariants

set_option linter.unusedSimpArgs false
namespace Penman.FL
open Penman Penman.Spec Penman.Lex

variable {cfg : LexCfg}

/-- the triple-mode (type, text) sequence -/
abbrev lexT (cfg : LexCfg) (s : Str) : List (TokTy × Str) := lexC cfg cfg.tripleOrder s

/-- a text that is one SYMBOL token -/
def SymOk (cfg : LexCfg) (s : Str) : Prop := IsSymbol cfg s ∧ s.head? ≠ some '#' ∧ NoBreak s

theorem lexT_symbol (hw : FmtCfgWfP cfg) {s rest : Str} (hs : SymOk cfg s)
    (hrest : ∀ c, rest.head? = some c → c ∈ cfg.symExcl) :
    lexT cfg (s ++ rest) = (.SYMBOL, s) :: lexT cfg rest :=
  lexC_symbol hw.base hw.base.triple_order hw.t_symbol hs.1 hs.2.2 hs.2.1 hrest

theorem lexT_string (hw : FmtCfgWfP cfg) {s : Str} (rest : Str) (hs : IsString cfg s) (hnb : NoBreak s) :
    lexT cfg (s ++ rest) = (.STRING, s) :: lexT cfg rest :=
  lexC_string hw.base hw.base.triple_order hw.t_string rest hs hnb

theorem lexT_lparen (hw : FmtCfgWfP cfg) (rest : Str) :
    lexT cfg ('(' :: rest) = (.LPAREN, ['(']) :: lexT cfg rest :=
  lexC_delim hw.base hw.base.triple_order (by simp) hw.t_lparen rest

theorem lexT_rparen (hw : FmtCfgWfP cfg) (rest : Str) :
    lexT cfg (')' :: rest) = (.RPAREN, [')']) :: lexT cfg rest :=
  lexC_delim hw.base hw.base.triple_order (by simp) hw.t_rparen rest

theorem lexT_space (hw : FmtCfgWfP cfg) (rest : Str) : lexT cfg (' ' :: rest) = lexT cfg rest :=
  lexC_blank hw.base hw.space_blank (by decide) (by decide) rest

theorem lexT_spaces (hw : FmtCfgWfP cfg) (k : Nat) (rest : Str) :
    lexT cfg (List.replicate k ' ' ++ rest) = lexT cfg rest :=
  lexC_blanks hw.base hw.space_blank (by decide) (by decide) k rest

/-- characters that end a SYMBOL -/
theorem headEx (hw : FmtCfgWfP cfg) {c : Char} (h : c = ' ' ∨ c = '\n' ∨ c = '(' ∨ c = ')' ∨ c = '"')
    (t : Str) : ∀ d, (c :: t).head? = some d → d ∈ cfg.symExcl := by
  intro d hd; simp at hd; subst hd
  rcases h with rfl | rfl | rfl | rfl | rfl
  · exact hw.base.blank_sym _ hw.space_blank
  · exact hw.base.blank_sym _ hw.lf_blank
  · exact (delim_facts hw.base).2.1
  · exact (delim_facts hw.base).2.2.1
  · exact (delim_facts hw.base).1

/-! ### composite SYMBOL texts -/

theorem symOk_cons (hw : FmtCfgWfP cfg) {c : Char} (hc : c = ',' ∨ c = '^') {s : Str}
    (hs : (∀ x ∈ s, x ∉ cfg.symExcl) ∧ NoBreak s) : SymOk cfg (c :: s) := by
  have h1 : c ∉ cfg.symExcl := by rcases hc with rfl | rfl; exact hw.comma_sym; exact hw.caret_sym
  have h2 : c ≠ '#' ∧ c ≠ '\n' ∧ c ≠ '\r' := by rcases hc with rfl | rfl <;> decide
  refine ⟨⟨by simp, ?_⟩, by simp [h2.1], (noBreak_cons h2.2.1 h2.2.2).2 hs.2⟩
  intro x hx; simp only [List.mem_cons] at hx
  rcases hx with rfl | hx
  · exact h1
  · exact hs.1 x hx

theorem symOk_name {s : Str} (h : SymOk cfg s) : (∀ x ∈ s, x ∉ cfg.symExcl) ∧ NoBreak s := ⟨h.1.2, h.2.2⟩

theorem symOk_append {a b : Str} (ha : SymOk cfg a) (hb : (∀ x ∈ b, x ∉ cfg.symExcl) ∧ NoBreak b) :
    SymOk cfg (a ++ b) := by
  refine ⟨⟨by simp [ha.1.1], ?_⟩, ?_, noBreak_append ha.2.2 hb.2⟩
  · intro x hx; simp only [List.mem_append] at hx
    exact hx.elim (ha.1.2 x) (hb.1 x)
  · cases a with
    | nil => exact absurd rfl ha.1.1
    | cons c cs => simpa using ha.2.1

theorem name_nil : (∀ x ∈ ([] : Str), x ∉ cfg.symExcl) ∧ NoBreak [] := ⟨by simp, noBreak_nil⟩

theorem symOk_comma (hw : FmtCfgWfP cfg) : SymOk cfg [','] := symOk_cons hw (.inl rfl) name_nil
theorem symOk_caret (hw : FmtCfgWfP cfg) : SymOk cfg ['^'] := symOk_cons hw (.inr rfl) name_nil

/-! ### the argument part `source<comma>target` -/

def argCores (cs : CommaStyle) (isStr : Bool) (src s : Str) : List (TokTy × Str) :=
  match isStr, cs with
  | false, .glued => [(.SYMBOL, src ++ ',' :: s)]
  | false, .left => [(.SYMBOL, src ++ [',']), (.SYMBOL, s)]
  | false, .right => [(.SYMBOL, src), (.SYMBOL, ',' :: s)]
  | false, .spaced => [(.SYMBOL, src), (.SYMBOL, [',']), (.SYMBOL, s)]
  | true, .glued => [(.SYMBOL, src ++ [',']), (.STRING, s)]
  | true, .left => [(.SYMBOL, src ++ [',']), (.STRING, s)]
  | true, .right => [(.SYMBOL, src), (.SYMBOL, [',']), (.STRING, s)]
  | true, .spaced => [(.SYMBOL, src), (.SYMBOL, [',']), (.STRING, s)]

/-- the target text is a SYMBOL (`isStr = false`) or a STRING literal (`isStr = true`) -/
def TgtOk (cfg : LexCfg) (isStr : Bool) (s : Str) : Prop :=
  if isStr then IsString cfg s ∧ NoBreak s else SymOk cfg s

theorem args_lex (hw : FmtCfgWfP cfg) (cs : CommaStyle) (isStr : Bool) {src s : Str} (hsrc : SymOk cfg src)
    (hs : TgtOk cfg isStr s) (tail : Str) :
    lexT cfg (src ++ (cs.text ++ (s ++ ')' :: tail))) =
      argCores cs isStr src s ++ lexT cfg (')' :: tail) := by
  have hrp := headEx hw (c := ')') (by simp) tail
  have hsc : SymOk cfg (src ++ [',']) :=
    symOk_append hsrc ⟨by simp [hw.comma_sym], noBreak_singleton (by decide) (by decide)⟩
  cases isStr with
  | false =>
    simp only [TgtOk, Bool.false_eq_true, if_false] at hs
    cases cs with
    | glued =>
      have e : src ++ ([','] ++ (s ++ ')' :: tail)) = (src ++ ',' :: s) ++ ')' :: tail := by simp
      simp only [CommaStyle.text, argCores]
      rw [e, lexT_symbol hw (symOk_append hsrc (symOk_name (symOk_cons hw (.inl rfl) (symOk_name hs)))) hrp]
      rfl
    | left =>
      have e : src ++ ([',', ' '] ++ (s ++ ')' :: tail)) = (src ++ [',']) ++ ' ' :: (s ++ ')' :: tail) := by simp
      simp only [CommaStyle.text, argCores]
      rw [e, lexT_symbol hw hsc (headEx hw (by simp) _), lexT_space hw, lexT_symbol hw hs hrp]
      rfl
    | right =>
      have e : src ++ ([' ', ','] ++ (s ++ ')' :: tail)) = src ++ ' ' :: ((',' :: s) ++ ')' :: tail) := by simp
      simp only [CommaStyle.text, argCores]
      rw [e, lexT_symbol hw hsrc (headEx hw (by simp) _), lexT_space hw,
        lexT_symbol hw (symOk_cons hw (.inl rfl) (symOk_name hs)) hrp]
      rfl
    | spaced =>
      have e : src ++ ([' ', ',', ' '] ++ (s ++ ')' :: tail)) =
          src ++ ' ' :: ([','] ++ ' ' :: (s ++ ')' :: tail)) := by simp
      simp only [CommaStyle.text, argCores]
      rw [e, lexT_symbol hw hsrc (headEx hw (by simp) _), lexT_space hw,
        lexT_symbol hw (symOk_comma hw) (headEx hw (by simp) _), lexT_space hw, lexT_symbol hw hs hrp]
      rfl
  | true =>
    simp only [TgtOk, if_true] at hs
    have hq : ∀ rest c, (s ++ rest).head? = some c → c ∈ cfg.symExcl := by
      obtain ⟨body, rfl, -⟩ := hs.1
      intro rest c hc; simp at hc; subst hc; exact (delim_facts hw.base).1
    have hstr := fun rest => lexT_string hw rest hs.1 hs.2
    cases cs with
    | glued =>
      have e : src ++ ([','] ++ (s ++ ')' :: tail)) = (src ++ [',']) ++ (s ++ ')' :: tail) := by simp
      simp only [CommaStyle.text, argCores]
      rw [e, lexT_symbol hw hsc (hq _), hstr]
      rfl
    | left =>
      have e : src ++ ([',', ' '] ++ (s ++ ')' :: tail)) =
          (src ++ [',']) ++ ' ' :: (s ++ ')' :: tail) := by simp
      simp only [CommaStyle.text, argCores]
      rw [e, lexT_symbol hw hsc (headEx hw (by simp) _), lexT_space hw, hstr]
      rfl
    | right =>
      have e : src ++ ([' ', ','] ++ (s ++ ')' :: tail)) =
          src ++ ' ' :: ([','] ++ (s ++ ')' :: tail)) := by simp
      simp only [CommaStyle.text, argCores]
      rw [e, lexT_symbol hw hsrc (headEx hw (by simp) _), lexT_space hw,
        lexT_symbol hw (symOk_comma hw) (hq _), hstr]
      rfl
    | spaced =>
      have e : src ++ ([' ', ',', ' '] ++ (s ++ ')' :: tail)) =
          src ++ ' ' :: ([','] ++ ' ' :: (s ++ ')' :: tail)) := by simp
      simp only [CommaStyle.text, argCores]
      rw [e, lexT_symbol hw hsrc (headEx hw (by simp) _), lexT_space hw,
        lexT_symbol hw (symOk_comma hw) (headEx hw (by simp) _), lexT_space hw, hstr]
      rfl

theorem core_eq_iff_mk (a : Tok) (ty : TokTy) (s : Str) : core a = (ty, s) ↔ a.ty = ty ∧ a.text = s := by
  simp [core]

theorem argToks_of_cores (cs : CommaStyle) (isStr : Bool) (src s : Str) (hs : s ≠ []) (ts : List Tok)
    (h : ts.map core = argCores cs isStr src s) : ArgToks src (.str s) ts := by
  have sym_or : ∀ {n : Tok}, n.ty = .SYMBOL ∨ n.ty = .STRING → isSymOrStr n = true := by
    intro n h; rcases h with h | h <;> simp [isSymOrStr, h]
  cases isStr <;> cases cs <;>
    simp only [argCores, List.map_eq_cons_iff, List.map_eq_nil_iff, core_eq_iff_mk] at h
  · obtain ⟨t, r, rfl, ⟨h1, h2⟩, rfl⟩ := h
    exact .glued t s h1 h2 hs
  · obtain ⟨t, r, rfl, ⟨h1, h2⟩, n, r', rfl, ⟨h3, h4⟩, rfl⟩ := h
    exact h4 ▸ .commaLeft t n h1 h2 (sym_or (.inl h3))
  · obtain ⟨a, r, rfl, ⟨h1, h2⟩, n, r', rfl, ⟨h3, h4⟩, rfl⟩ := h
    exact .commaRight a n s h1 h2 h3 h4 hs
  · obtain ⟨a, r, rfl, ⟨h1, h2⟩, cm, r', rfl, ⟨h3, h4⟩, n, r'', rfl, ⟨h5, h6⟩, rfl⟩ := h
    exact h6 ▸ .spaced a cm n h1 h2 h3 h4 (sym_or (.inl h5))
  · obtain ⟨t, r, rfl, ⟨h1, h2⟩, n, r', rfl, ⟨h3, h4⟩, rfl⟩ := h
    exact h4 ▸ .commaLeft t n h1 h2 (sym_or (.inr h3))
  · obtain ⟨t, r, rfl, ⟨h1, h2⟩, n, r', rfl, ⟨h3, h4⟩, rfl⟩ := h
    exact h4 ▸ .commaLeft t n h1 h2 (sym_or (.inr h3))
  · obtain ⟨a, r, rfl, ⟨h1, h2⟩, cm, r', rfl, ⟨h3, h4⟩, n, r'', rfl, ⟨h5, h6⟩, rfl⟩ := h
    exact h6 ▸ .spaced a cm n h1 h2 h3 h4 (sym_or (.inr h5))
  · obtain ⟨a, r, rfl, ⟨h1, h2⟩, cm, r', rfl, ⟨h3, h4⟩, n, r'', rfl, ⟨h5, h6⟩, rfl⟩ := h
    exact h6 ▸ .spaced a cm n h1 h2 h3 h4 (sym_or (.inr h5))

/-! ### one triple -/

/-- unpacked `WfTripleText` -/
structure TripleOk (cfg : LexCfg) (t : Triple) (s : Str) (isStr : Bool) : Prop where
  src : SymOk cfg t.src
  nocomma : ',' ∉ t.src
  role : SymOk cfg (lstripChar ':' t.role)
  tgt : t.tgt = .str s
  tgtOk : TgtOk cfg isStr s

theorem wfTriple_unpack (hw : FmtCfgWfP cfg) {t : Triple} (h : WfTripleText cfg t) :
    ∃ s isStr, TripleOk cfg t s isStr := by
  simp only [WfTripleText, wfTripleB, Bool.and_eq_true, Bool.not_eq_true', List.contains_eq_mem,
    decide_eq_false_iff_not] at h
  obtain ⟨⟨⟨h1, h2⟩, h3⟩, h4⟩ := h
  cases ht : t.tgt with
  | none => simp [ht] at h4
  | num x => simp [ht] at h4
  | str s =>
    simp only [ht, Bool.or_eq_true] at h4
    by_cases hstr : stringB cfg s = true
    · exact ⟨s, true, (symbolB_iff _).1 h1, h2, (symbolB_iff _).1 h3, ht,
        by simp only [TgtOk, if_true]; exact (stringB_iff hw.base s).1 hstr⟩
    · exact ⟨s, false, (symbolB_iff _).1 h1, h2, (symbolB_iff _).1 h3, ht,
        by simp only [TgtOk, Bool.false_eq_true, if_false]; exact (symbolB_iff _).1 (h4.resolve_right hstr)⟩

theorem tgtOk_ne_nil {isStr : Bool} {s : Str} (h : TgtOk cfg isStr s) : s ≠ [] := by
  cases isStr with
  | false => simp only [TgtOk, Bool.false_eq_true, if_false] at h; exact h.1.1
  | true => simp only [TgtOk, if_true] at h; obtain ⟨b, rfl, -⟩ := h.1; simp

def caretPre (strip : Bool) : Str := if strip then ['^'] else []

def tripleCores (strip : Bool) (cs : CommaStyle) (t : Triple) (s : Str) (isStr : Bool) : List (TokTy × Str) :=
  (.SYMBOL, caretPre strip ++ lstripChar ':' t.role) :: (.LPAREN, ['(']) ::
    (argCores cs isStr t.src s ++ [(.RPAREN, [')'])])

theorem triple_lex (hw : FmtCfgWfP cfg) (strip : Bool) (cs : CommaStyle) {t : Triple} {s : Str} {isStr : Bool}
    (ht : TripleOk cfg t s isStr) (tail : Str) :
    lexT cfg (caretPre strip ++ (tripleText cs t ++ tail)) =
      tripleCores strip cs t s isStr ++ lexT cfg tail := by
  have hr : SymOk cfg (caretPre strip ++ lstripChar ':' t.role) := by
    cases strip with
    | false => simpa [caretPre] using ht.role
    | true => simpa [caretPre] using symOk_cons hw (.inr rfl) (symOk_name ht.role)
  have e : caretPre strip ++ (tripleText cs t ++ tail) =
      (caretPre strip ++ lstripChar ':' t.role) ++ '(' :: (t.src ++ (cs.text ++ (s ++ ')' :: tail))) := by
    simp [tripleText, ht.tgt, atomText]
  rw [e, lexT_symbol hw hr (headEx hw (by simp) _), lexT_lparen hw, args_lex hw cs isStr ht.src ht.tgtOk,
    lexT_rparen hw]
  simp [tripleCores]

theorem lstrip_not_colon (hw : FmtCfgWfP cfg) {r : Str} (h : SymOk cfg r) : colonRole r = ':' :: r := by
  have : ':' ∈ cfg.symExcl := (delim_facts hw.base).2.2.2.2.1
  cases r with
  | nil => rfl
  | cons c cs =>
    have hc : c ≠ ':' := by rintro rfl; exact h.1.2 _ (by simp) this
    have : (':' == c) = false := beq_eq_false_iff_ne.2 (fun h => hc h.symm)
    simp [colonRole, startsWith, List.isPrefixOf, this]

theorem oneTriple_of_cores (hw : FmtCfgWfP cfg) (strip : Bool) (cs : CommaStyle) {t : Triple} {s : Str} {isStr : Bool}
    (ht : TripleOk cfg t s isStr) (ts : List Tok) (h : ts.map core = tripleCores strip cs t s isStr) :
    OneTripleToks strip (normTriple t) ts := by
  simp only [tripleCores, List.map_eq_cons_iff, List.map_eq_append_iff, List.map_eq_nil_iff,
    core_eq_iff_mk] at h
  obtain ⟨rt, r1, rfl, ⟨h1, h2⟩, lp, r2, rfl, ⟨h3, -⟩, args, r3, rfl, ha, rp, r4, rfl, ⟨h5, -⟩, rfl⟩ := h
  refine ⟨lstripChar ':' t.role, rt, lp, rp, args, ⟨h1, ?_⟩, h3, h5, ?_, ht.nocomma, ?_, rfl⟩
  · cases strip with
    | false => simpa [caretPre] using h2
    | true => simpa [caretPre] using ⟨h2, ht.role.1.1⟩
  · have := argToks_of_cores cs isStr t.src s (tgtOk_ne_nil ht.tgtOk) args ha
    simpa [normTriple, ht.tgt] using this
  · simp [normTriple, lstrip_not_colon hw ht.role]

/-! ### conjunctions -/

/-- the (type, text) sequence of a conjunction; `strip` : the first role token carries a caret -/
def conjCores (cfg : LexCfg) (strip : Bool) : List (Triple × CommaStyle × ConjStyle) → List (TokTy × Str)
  | [] => []
  | [(t, cs, _)] => tripleCores strip cs t (match t.tgt with | .str s => s | _ => []) (stringB cfg (match t.tgt with | .str s => s | _ => []))
  | (t, cs, j) :: x :: rest =>
    tripleCores strip cs t (match t.tgt with | .str s => s | _ => []) (stringB cfg (match t.tgt with | .str s => s | _ => [])) ++
      (if j.glued then conjCores cfg true (x :: rest) else (.SYMBOL, ['^']) :: conjCores cfg false (x :: rest))

/-- the canonical unpacking: `isStr` decided by `stringB` -/
theorem wfTriple_unpack' (hw : FmtCfgWfP cfg) {t : Triple} (h : WfTripleText cfg t) :
    TripleOk cfg t (match t.tgt with | .str s => s | _ => []) (stringB cfg (match t.tgt with | .str s => s | _ => [])) := by
  obtain ⟨s, isStr, ht⟩ := wfTriple_unpack hw h
  have e : (match t.tgt with | .str s => s | _ => []) = s := by rw [ht.tgt]
  rw [e]
  have : isStr = stringB cfg s := by
    cases isStr with
    | true =>
      have := ht.tgtOk; simp only [TgtOk, if_true] at this
      exact ((stringB_iff hw.base s).2 this).symm
    | false =>
      have := ht.tgtOk; simp only [TgtOk, Bool.false_eq_true, if_false] at this
      cases hb : stringB cfg s with
      | false => rfl
      | true =>
        obtain ⟨b, rfl, -⟩ := ((stringB_iff hw.base s).1 hb).1
        exact absurd (delim_facts hw.base).1 (this.1.2 _ (by simp))
  exact this ▸ ht

theorem conjText_lex (hw : FmtCfgWfP cfg) (j : ConjStyle) (F : Str) :
    lexT cfg (j.text ++ F) =
      if j.glued then lexT cfg (caretPre true ++ F) else (.SYMBOL, ['^']) :: lexT cfg (caretPre false ++ F) := by
  obtain ⟨pre, nl, post⟩ := j
  simp only [ConjStyle.text, ConjStyle.glued, List.append_assoc, caretPre, if_true, Bool.false_eq_true,
    if_false, List.nil_append, List.cons_append]
  rw [lexT_spaces hw]
  cases nl with
  | true =>
    simp only [if_true, Bool.not_true, Bool.false_and, Bool.false_eq_true, if_false, List.cons_append,
      List.nil_append]
    have := lexT_symbol hw (symOk_caret hw) (headEx hw (c := '\n') (by simp) (List.replicate post ' ' ++ F))
    simp only [List.cons_append, List.nil_append] at this
    rw [this, lexT, lexC_newline]
    exact congrArg _ (lexT_spaces hw post F)
  | false =>
    simp only [Bool.false_eq_true, if_false, List.nil_append, Bool.not_false, Bool.true_and, beq_iff_eq]
    cases post with
    | zero => simp
    | succ p =>
      simp only [Nat.add_one_ne_zero, if_false, List.replicate_succ, List.cons_append]
      have := lexT_symbol hw (symOk_caret hw) (headEx hw (c := ' ') (by simp) (List.replicate p ' ' ++ F))
      simp only [List.cons_append, List.nil_append] at this
      rw [this, lexT_space hw]
      exact congrArg _ (lexT_spaces hw p F)

theorem formatTriplesV_cons (x y : Triple × CommaStyle × ConjStyle) (rest : List (Triple × CommaStyle × ConjStyle)) :
    formatTriplesV (x :: y :: rest) = tripleText x.2.1 x.1 ++ (x.2.2.text ++ formatTriplesV (y :: rest)) := by
  obtain ⟨t, cs, j⟩ := x
  rw [formatTriplesV]; simp

theorem conj_lex (hw : FmtCfgWfP cfg) : ∀ (l : List (Triple × CommaStyle × ConjStyle)) (strip : Bool),
    l ≠ [] → (∀ x ∈ l, WfTripleText cfg x.1) →
    lexT cfg (caretPre strip ++ formatTriplesV l) = conjCores cfg strip l
  | [], _, hl, _ => absurd rfl hl
  | [(t, cs, j)], strip, _, h => by
    have ht : TripleOk cfg t (match t.tgt with | .str s => s | _ => [])
        (stringB cfg (match t.tgt with | .str s => s | _ => [])) := wfTriple_unpack' hw (h (t, cs, j) (by simp))
    have := triple_lex hw strip cs ht []
    simp only [List.append_nil] at this
    rw [formatTriplesV, this, conjCores, show lexT cfg [] = [] from rfl, List.append_nil]
  | (t, cs, j) :: x :: rest, strip, _, h => by
    have ht : TripleOk cfg t (match t.tgt with | .str s => s | _ => [])
        (stringB cfg (match t.tgt with | .str s => s | _ => [])) := wfTriple_unpack' hw (h (t, cs, j) (by simp))
    rw [formatTriplesV_cons, triple_lex hw strip cs ht, conjCores, conjText_lex hw]
    congr 1
    split
    · exact conj_lex hw (x :: rest) true (by simp) (fun y hy => h y (by simp [hy]))
    · exact congrArg _ (conj_lex hw (x :: rest) false (by simp) (fun y hy => h y (by simp [hy])))

theorem conjToks_of_cores (hw : FmtCfgWfP cfg) : ∀ (l : List (Triple × CommaStyle × ConjStyle)) (strip : Bool)
    (ts : List Tok), l ≠ [] → (∀ x ∈ l, WfTripleText cfg x.1) → ts.map core = conjCores cfg strip l →
    ConjToks strip (l.map fun x => normTriple x.1) ts
  | [], _, _, hl, _, _ => absurd rfl hl
  | [(t, cs, j)], strip, ts, _, h, hc => by
    have ht : TripleOk cfg t (match t.tgt with | .str s => s | _ => [])
        (stringB cfg (match t.tgt with | .str s => s | _ => [])) := wfTriple_unpack' hw (h (t, cs, j) (by simp))
    exact .last strip _ ts (oneTriple_of_cores hw strip cs ht ts hc)
  | (t, cs, j) :: x :: rest, strip, ts, _, h, hc => by
    have ht : TripleOk cfg t (match t.tgt with | .str s => s | _ => [])
        (stringB cfg (match t.tgt with | .str s => s | _ => [])) := wfTriple_unpack' hw (h (t, cs, j) (by simp))
    rw [conjCores, List.map_eq_append_iff] at hc
    obtain ⟨a, b, rfl, ha, hb⟩ := hc
    have h1 := oneTriple_of_cores hw strip cs ht a ha
    have hrest : ∀ y ∈ x :: rest, WfTripleText cfg y.1 := fun y hy => h y (by simp [hy])
    by_cases hg : j.glued = true
    · simp only [hg, if_true] at hb
      exact .glue strip _ a _ b h1 (conjToks_of_cores hw (x :: rest) true b (by simp) hrest hb)
    · simp only [hg, Bool.false_eq_true, if_false, List.map_eq_cons_iff, core_eq_iff_mk] at hb
      obtain ⟨caret, more, rfl, ⟨c1, c2⟩, hm⟩ := hb
      exact .sep strip _ a caret _ more h1 c1 c2 (conjToks_of_cores hw (x :: rest) false more (by simp) hrest hm)

/-- **the tokens of a triple conjunction in any spacing variant** -/
theorem formatTriplesV_conjToks (hw : FmtCfgWfP cfg) (l : List (Triple × CommaStyle × ConjStyle)) (hl : l ≠ [])
    (h : ∀ x ∈ l, WfTripleText cfg x.1) :
    ConjToks false (l.map fun x => normTriple x.1) (lexStr cfg cfg.tripleOrder (formatTriplesV l)) := by
  apply conjToks_of_cores hw l false _ hl h
  have := conj_lex hw l false hl h
  simp only [caretPre, Bool.false_eq_true, if_false, List.nil_append] at this
  exact this

/-- `format_triples` is the variant "`, `" with `" ^\n"` / `" ^ "` -/
theorem formatTriples_eq (ts : List Triple) (indent : Bool) :
    formatTriples ts indent = formatTriplesV (ts.map fun t => (t, stdStyle indent)) := by
  have key : ∀ ts : List Triple, joinStr (if indent then " ^\n".toList else " ^ ".toList)
      (ts.map fun t => tripleText .left t) = formatTriplesV (ts.map fun t => (t, stdStyle indent)) := by
    intro ts
    induction ts with
    | nil => rfl
    | cons t r ih =>
      cases r with
      | nil => simp [joinStr, formatTriplesV, stdStyle]
      | cons u r' =>
        simp only [List.map_cons] at ih ⊢
        rw [joinStr, ih, formatTriplesV_cons]
        cases indent <;> simp [stdStyle, ConjStyle.text]
  rw [← key]
  simp only [formatTriples]
  congr 1
  apply List.map_congr_left
  intro t _
  simp only [tripleText, CommaStyle.text, List.append_assoc, List.cons_append, List.nil_append,
    String.toList]
  cases t.tgt <;> rfl

end Penman.FL

/-
  Penman.Constant — `penman.constant`: `quote` (= `json.dumps(str(x))`),
  `evaluate` (= `json.loads(s, parse_constant=str)` with penman's guards),
  `type`. The JSON encoder/decoder of CPython are modelled here (modelled,
  not verified: see the trusted base).
-/
import Penman.Basic
namespace Penman

/-! ### json.dumps of a str (ensure_ascii=True) -/

def hexDigit (n : Nat) : Char :=
  if n < 10 then Char.ofNat ('0'.toNat + n) else Char.ofNat ('a'.toNat + (n - 10))

/-- `\uXXXX` with lower-case hex -/
def hex4 (n : Nat) : Str :=
  ['\\', 'u', hexDigit (n / 4096 % 16), hexDigit (n / 256 % 16), hexDigit (n / 16 % 16), hexDigit (n % 16)]

def escapeChar (c : Char) : Str :=
  if c = '"' then ['\\', '"']
  else if c = '\\' then ['\\', '\\']
  else if c = '\n' then ['\\', 'n']
  else if c = '\r' then ['\\', 'r']
  else if c = '\t' then ['\\', 't']
  else if c = '\x08' then ['\\', 'b']
  else if c = '\x0c' then ['\\', 'f']
  else
    let n := c.toNat
    if 0x20 ≤ n ∧ n ≤ 0x7e then [c]
    else if n < 0x10000 then hex4 n
    else
      let v := n - 0x10000
      hex4 (0xd800 + v / 1024) ++ hex4 (0xdc00 + v % 1024)

/-- `json.dumps(s)` -/
def jsonDumpsStr (s : Str) : Str := '"' :: s.flatMap escapeChar ++ ['"']

/-- `quote(constant)` -/
def quote : Atom → Str
  | .none => ['"', '"']
  | .str s => jsonDumpsStr s
  | .num t => jsonDumpsStr t

/-! ### json.loads -/

/-- what `json.loads` can return, as far as `evaluate` can tell -/
inductive JVal where
  | str (s : Str)
  | int (text : Str)      -- JSON number text without fraction/exponent
  | float (text : Str)    -- JSON number text with fraction or exponent
  | const (name : Str)    -- NaN, Infinity, -Infinity through `parse_constant=str`
  | bool | null
  | container
deriving DecidableEq, Repr

def isJsonWs (c : Char) : Bool := c = ' ' || c = '\t' || c = '\n' || c = '\r'
def skipWs (s : Str) : Str := s.dropWhile isJsonWs

def hexVal (c : Char) : Option Nat :=
  if '0' ≤ c && c ≤ '9' then some (c.toNat - '0'.toNat)
  else if 'a' ≤ c && c ≤ 'f' then some (c.toNat - 'a'.toNat + 10)
  else if 'A' ≤ c && c ≤ 'F' then some (c.toNat - 'A'.toNat + 10)
  else none

def hex4Val : Str → Option (Nat × Str)
  | a :: b :: c :: d :: rest => do
    let a ← hexVal a; let b ← hexVal b; let c ← hexVal c; let d ← hexVal d
    pure (a * 4096 + b * 256 + c * 16 + d, rest)
  | _ => none

/-- result of scanning a JSON string body -/
inductive StrScan where
  | ok (s : Str) (rest : Str)
  | bad                 -- JSONDecodeError
  | surrogate           -- valid JSON but a lone surrogate: outside the model

/-- `py_scanstring` after the opening quote (strict mode) -/
def scanJsonString : Nat → Str → Str → StrScan
  | 0, _, _ => .bad
  | _, [], _ => .bad
  | f+1, c :: cs, acc =>
    if c = '"' then .ok acc.reverse cs
    else if c = '\\' then
      match cs with
      | [] => .bad
      | e :: es =>
        let simple (x : Char) := scanJsonString f es (x :: acc)
        if e = '"' then simple '"' else if e = '\\' then simple '\\' else if e = '/' then simple '/'
        else if e = 'b' then simple '\x08' else if e = 'f' then simple '\x0c' else if e = 'n' then simple '\n'
        else if e = 'r' then simple '\r' else if e = 't' then simple '\t'
        else if e = 'u' then
          match hex4Val es with
          | none => .bad
          | some (u, rest) =>
            if 0xd800 ≤ u ∧ u ≤ 0xdbff then
              match rest with
              | '\\' :: 'u' :: rest2 =>
                match hex4Val rest2 with
                | some (u2, rest3) =>
                  if 0xdc00 ≤ u2 ∧ u2 ≤ 0xdfff then
                    scanJsonString f rest3 (Char.ofNat (0x10000 + (u - 0xd800) * 1024 + (u2 - 0xdc00)) :: acc)
                  else .surrogate
                | none => .surrogate   -- CPython keeps the lone high surrogate, then fails or continues
              | _ => .surrogate
            else if 0xdc00 ≤ u ∧ u ≤ 0xdfff then .surrogate
            else scanJsonString f rest (Char.ofNat u :: acc)
        else .bad
    else if c.toNat < 0x20 then .bad
    else scanJsonString f cs (c :: acc)

/-- JSON number at the head: `-?(0|[1-9]\d*)(\.\d+)?([eE][-+]?\d+)?`;
    returns (text, isFloat, rest) -/
def scanJsonNumber (s : Str) : Option (Str × Bool × Str) :=
  let (sign, s1) := match s with | '-' :: r => (['-'], r) | _ => ([], s)
  let ip : Option (Str × Str) := match s1 with
    | '0' :: r => some (['0'], r)
    | c :: _ => if '1' ≤ c && c ≤ '9' then some (s1.takeWhile isAsciiDigit, s1.dropWhile isAsciiDigit) else none
    | [] => none
  match ip with
  | none => none
  | some (int, s2) =>
    let (frac, s3) := match s2 with
      | '.' :: r => let ds := r.takeWhile isAsciiDigit
                    if ds.isEmpty then ([], s2) else ('.' :: ds, r.dropWhile isAsciiDigit)
      | _ => ([], s2)
    let (exp, s4) := match s3 with
      | e :: r =>
        if e = 'e' || e = 'E' then
          let (sg, r1) := match r with
            | '-' :: r' => (['-'], r')
            | '+' :: r' => (['+'], r')
            | _ => ([], r)
          let ds := r1.takeWhile isAsciiDigit
          if ds.isEmpty then ([], s3) else (e :: sg ++ ds, r1.dropWhile isAsciiDigit)
        else ([], s3)
      | [] => ([], s3)
    some (sign ++ int ++ frac ++ exp, !(frac.isEmpty && exp.isEmpty), s4)

inductive JScan where
  | ok (v : JVal) (rest : Str)
  | bad
  | unmodelled

mutual
/-- `scan_once` : one JSON value at the head (no leading whitespace) -/
def scanJson : Nat → Str → JScan
  | 0, _ => .unmodelled
  | f+1, s =>
    match s with
    | '"' :: rest =>
      match scanJsonString (rest.length + 1) rest [] with
      | .ok v r => .ok (.str v) r
      | .bad => .bad
      | .surrogate => .unmodelled
    | '{' :: rest => scanObject f (skipWs rest) true
    | '[' :: rest => scanArray f (skipWs rest) true
    | _ =>
      if startsWith "null".toList s then .ok .null (s.drop 4)
      else if startsWith "true".toList s then .ok .bool (s.drop 4)
      else if startsWith "false".toList s then .ok .bool (s.drop 5)
      else match scanJsonNumber s with
        | some (t, isF, r) => .ok (if isF then .float t else .int t) r
        | none =>
          if startsWith "NaN".toList s then .ok (.const "NaN".toList) (s.drop 3)
          else if startsWith "Infinity".toList s then .ok (.const "Infinity".toList) (s.drop 8)
          else if startsWith "-Infinity".toList s then .ok (.const "-Infinity".toList) (s.drop 9)
          else .bad
/-- array body after `[` and whitespace; `first` = no element yet -/
def scanArray : Nat → Str → Bool → JScan
  | 0, _, _ => .unmodelled
  | f+1, s, first =>
    match s with
    | ']' :: rest => if first then .ok .container rest else .bad
    | _ =>
      match scanJson f s with
      | .ok _ r =>
        match skipWs r with
        | ',' :: r' => scanArray f (skipWs r') false
        | ']' :: r' => .ok .container r'
        | _ => .bad
      | .bad => .bad
      | .unmodelled => .unmodelled
/-- object body after `{` and whitespace -/
def scanObject : Nat → Str → Bool → JScan
  | 0, _, _ => .unmodelled
  | f+1, s, first =>
    match s with
    | '}' :: rest => if first then .ok .container rest else .bad
    | '"' :: rest =>
      match scanJsonString (rest.length + 1) rest [] with
      | .ok _ r =>
        match skipWs r with
        | ':' :: r1 =>
          match scanJson f (skipWs r1) with
          | .ok _ r2 =>
            match skipWs r2 with
            | ',' :: r3 =>
              -- after a comma a key string must follow
              match skipWs r3 with
              | '"' :: _ => scanObject f (skipWs r3) false
              | _ => .bad
            | '}' :: r3 => .ok .container r3
            | _ => .bad
          | .bad => .bad
          | .unmodelled => .unmodelled
        | _ => .bad
      | .bad => .bad
      | .surrogate => .unmodelled
    | _ => .bad
end

/-- `json.loads(s, parse_constant=str)` : `none` = JSONDecodeError -/
def jsonLoads (s : Str) : Except PyErr (Option JVal) :=
  match scanJson (2 * s.length + 2) (skipWs s) with
  | .ok v rest => if (skipWs rest).isEmpty then .ok (some v) else .ok none
  | .bad => .ok none
  | .unmodelled => .error (.unmodelled "json: lone surrogate or nesting")

/-- what `evaluate` returns -/
inductive CVal where
  | none
  | str (s : Str)
  | int (text : Str)
  | float (text : Str)
  | bool                  -- only reachable through JSON whitespace (" true"): `isinstance(True, int)`
deriving DecidableEq, Repr

/-- `evaluate(constant_string)` -/
def evaluate (a : Option Str) : Except PyErr CVal :=
  match a with
  | none => .ok .none
  | some s =>
    if s.isEmpty then .ok .none
    else if startsWith ['"'] s != endsWith ['"'] s then .error .constant
    else if s = "true".toList ∨ s = "false".toList ∨ s = "null".toList then .ok (.str s)
    else do
      match ← jsonLoads s with
      | none => pure (.str s)
      | some (.str v) => pure (.str v)
      | some (.int t) => pure (.int t)
      | some (.float t) => pure (.float t)
      | some (.const n) => pure (.str n)
      | some .bool => pure .bool
      | some .null => pure .none
      | some .container => throw .constant

/-- constant types -/
inductive CType where
  | symbol | string | integer | float | null
deriving DecidableEq, Repr

/-- `type(constant_string)` -/
def ctype (a : Option Str) : Except PyErr CType :=
  match a with
  | none => .ok .null
  | some s => do
    match ← evaluate (some s) with
    | .none => pure .null
    | .bool => throw (.other "KeyError")
    | .int _ => pure .integer
    | .float _ => pure .float
    | .str _ => pure (if startsWith ['"'] s && endsWith ['"'] s then .string else .symbol)

end Penman

"""Correspondence check: the Lean model's executable definitions vs the real
penman functions on the same generated operations."""
import collections
import json
import random
import sys
import time

import gen
import ops
from common import (penman, layout, Graph, Tree, run_driver, j_graph, j_tree, j_node, j_triple, j_atom,
                    py_model, Unrepresentable)


# ---------------------------------------------------------------- streams

def s_lex_random(rng):
    k = rng.random()
    if k < 0.45:
        s = gen.gen_penman_string(rng, wf=maybe(rng, 0.5))
        if maybe(rng, 0.6):
            s = gen.perturb(rng, s)
    elif k < 0.92:
        s = gen.gen_token_soup(rng)
    else:
        s = '\n'.join(gen.gen_blank_line(rng) if maybe(rng, 0.6) else gen.gen_token_soup(rng, 3) for _ in range(rng.randint(1, 4)))
    s = gen.newline_variant(rng, s)
    op = {'op': 'lex', 'mode': 'triples' if maybe(rng, 0.3) else 'penman'}
    op.update(gen.container_variants(rng, s))
    if maybe(rng, 0.25):
        op['consume'] = rng.choice([0, 1, 1, 2, 3, 5])      # mixed use of the token iterator
    elif maybe(rng, 0.2):
        op['beside'] = gen.gen_penman_string(rng, wf=True) if maybe(rng, 0.6) else gen.gen_token_soup(rng)
    return op


def maybe(rng, p):
    return rng.random() < p


def drop_defaults(rng, op, p=0.12):
    """omit formatting/model arguments so that the library's own default values are what is compared"""
    for k in ('indent', 'compact'):
        if k in op and maybe(rng, p):
            del op[k]
    if op.get('op') in ('format', 'format_triples', 'encode') and maybe(rng, 0.3):
        op['viaCodec'] = True        # the PENMANCodec method (its own default arguments) instead of the function
    if op.get('model') == 'default' and maybe(rng, p):
        del op['model']
    return op


def s_parse_random(rng):
    k = rng.random()
    if k < 0.6:
        s = gen.gen_penman_string(rng, wf=maybe(rng, 0.6))
        if maybe(rng, 0.55):
            s = gen.perturb(rng, s)
    elif k < 0.8:
        s = gen.gen_token_soup(rng)
    else:
        # several graphs
        s = rng.choice(['\n\n', '\n', ' ', '']).join(
            rng.choice(['()', '(a :r () :s b)', '(a / x :ARG0 ()', '( )']) if maybe(rng, 0.15) else gen.gen_penman_string(rng)
            for _ in range(rng.randint(0, 3)))
        if maybe(rng, 0.3):
            s = gen.perturb(rng, s)
    s = gen.newline_variant(rng, s)
    op = {'op': rng.choice(['parse', 'parse', 'iterparse'])}
    op.update(gen.container_variants(rng, s))
    op['via'] = rng.choice(['internal', 'public', 'codec'])     # penman.parse / PENMANCodec().parse / the internals
    if op['op'] == 'iterparse' and maybe(rng, 0.3):
        op['consume'] = rng.choice([1, 1, 2, 3])
    elif op['op'] == 'iterparse' and maybe(rng, 0.3):
        # a second iterparse over another stream, advanced graph by graph alongside this one
        op['beside'] = '\n'.join(gen.gen_penman_string(rng) for _ in range(rng.randint(1, 3)))
    return op


def triples_string(rng):
    g = gen.decode_graph(rng) or Graph([('a', ':instance', 'b')])
    ts = [t for t in g.triples]
    if maybe(rng, 0.04):
        # a long conjunction (hundreds of tokens)
        for _ in range(rng.randint(3, 12)):
            h = gen.decode_graph(rng)
            if h is not None:
                ts += list(h.triples)
    if maybe(rng, 0.15):
        ts = [(s, rng.choice([':^up', ':^', ':a^b', r]), t) for s, r, t in ts]
    if maybe(rng, 0.5):
        ts = [(s, r, (t if t is not None else 'x')) for s, r, t in ts]
    s = penman.format_triples(ts, indent=maybe(rng, 0.5))
    k = rng.random()
    if k < 0.3:
        s = s.replace(', ', rng.choice([',', ' , ', ' ,', ', ']))
    if k > 0.7:
        s = s.replace(' ^', rng.choice(['^', ' ^ ', ' ^']))
    elif k > 0.5:
        # a different spelling of every conjunction sign (glued "^role", spaced "^ role")
        import re as _re
        s = _re.sub(r'(?<=\)) \^\n?', lambda m: rng.choice([' ^', ' ^ ', '^', ' ^\n', '^ ']), s)
    return s


def s_parse_triples(rng):
    k = rng.random()
    if k < 0.55:
        s = triples_string(rng)
        if maybe(rng, 0.45):
            s = gen.perturb(rng, s)
    else:
        s = gen.gen_token_soup(rng)
    op = {'op': 'parse_triples', 'via': rng.choice(['internal', 'public', 'codec'])}
    op.update(gen.container_variants(rng, gen.newline_variant(rng, s)))
    return op


def s_format(rng):
    t = gen.gen_tree(rng, wf=maybe(rng, 0.7))
    if maybe(rng, 0.1):
        t = rng.choice([(None, []), ('', []), ('a', []), ('a', [('ARG0', 'b'), ('/', None), (':r', '')]),
                        ('a', [('/', 'x'), (':q', 0), (':r', 0.0), (':s', -2), (':t', ('b', [(':u', 1.5)]))]),
                        # the same role with constants that are == but print differently, across calls
                        ('a', [(':v', 1)]), ('a', [(':v', 1.0)]), ('a', [(':v', 0)]), ('a', [(':v', -0.0)]),
                        ('a', [(':v', 0.0)]), ('a', [('/', 2)]), ('a', [('/', 2.0)])])
    tree = Tree(t, metadata=gen.gen_metadata(rng) if maybe(rng, 0.3) else {})
    op = {'op': 'format', 'tree': j_tree(tree), 'indent': rng.choice([None, -1, -1, 0, 1, 2, 3, 4, 7]),
          'compact': maybe(rng, 0.4)}
    op['tree']['build'] = rng.choice(['given', 'given', 'later', 'default'])     # how the Tree object is constructed
    drop_defaults(rng, op)
    return op


def s_format_triples(rng):
    g = gen.gen_graph(rng)
    op = {'op': 'format_triples', 'triples': [j_triple(t) for t in g.triples], 'indent': maybe(rng, 0.5)}
    drop_defaults(rng, op)
    return op


def s_interpret(rng):
    t = gen.gen_tree(rng, wf=maybe(rng, 0.6), weird=0.15)
    tree = Tree(t, metadata=gen.gen_metadata(rng) if maybe(rng, 0.2) else {})
    op = {'op': 'interpret', 'tree': j_tree(tree), 'model': gen.gen_model(rng)}
    if maybe(rng, 0.05):
        del op['model']        # the library's own default model
    if maybe(rng, 0.3):
        op['via'] = 'public'   # penman.interpret
    return op


def s_decode(rng):
    s = gen.gen_penman_string(rng, wf=maybe(rng, 0.7))
    if maybe(rng, 0.2):
        s = gen.perturb(rng, s)
    return {'op': 'decode', 's': s, 'model': gen.gen_model(rng),
            'via': rng.choice(['internal', 'penman.decode', 'codec.decode'])}


def s_configure(rng):
    m = gen.gen_model(rng)
    g = gen.gen_graph(rng, m)
    op = {'op': rng.choice(['configure', 'configure', 'encode']), 'graph': j_graph(g), 'top': gen.pick_top(rng, g), 'model': m}
    if op['op'] == 'encode':
        op['indent'] = rng.choice([None, -1, 0, 2])
        op['compact'] = maybe(rng, 0.3)
        drop_defaults(rng, op)
    elif m == 'default' and maybe(rng, 0.15):
        del op['model']
    if op['op'] == 'configure' and maybe(rng, 0.3):
        op['via'] = 'public'   # penman.configure
    if g.triples and maybe(rng, 0.12):
        # the graph object was inspected and encoded while one triple still had another source,
        # then edited in place (same number of triples)
        op['editedFrom'] = [rng.randrange(len(g.triples)), rng.choice(['q', 'zz'] + gen.VARS)]
    return op


def s_reconfigure(rng):
    m = gen.gen_model(rng)
    g = gen.gen_graph(rng, m)
    return {'op': 'reconfigure', 'graph': j_graph(g), 'top': gen.pick_top(rng, g), 'model': m,
            'key': rng.choice(gen.KEYS)}


def s_rearrange(rng):
    t = gen.gen_tree(rng, wf=maybe(rng, 0.7))
    return {'op': 'rearrange', 'tree': j_tree(Tree(t)), 'model': gen.gen_model(rng), 'key': rng.choice(gen.KEYS),
            'attributesFirst': maybe(rng, 0.4)}


def s_reset_variables(rng):
    t = gen.gen_tree(rng, wf=maybe(rng, 0.8))
    fmt = rng.choice(gen.FMTS)
    if not any(p in ('i', 'j') for p in fmt):
        # an index-free format makes the real loop spin forever on a collision (boundary O5):
        # only single-node trees are sent to the real code
        t = (t[0], [b for b in t[1] if not isinstance(b[1], tuple)])
    if maybe(rng, 0.12) and any(p in ('i', 'j') for p in fmt):
        # a tree whose variables are already the names this format generates, but on other nodes
        try:
            t0 = Tree(t)
            t0.reset_variables(ops.fmt_string(fmt))
            t = gen.permute_vars(rng, t0.node)
        except Exception:  # noqa: BLE001
            pass
    return {'op': 'reset_variables', 'tree': j_tree(Tree(t)), 'fmt': fmt, 'listNodes': maybe(rng, 0.15)}


def s_diagnostics(rng):
    m = gen.gen_model(rng, custom=False)
    g = gen.gen_graph(rng, m, mode=rng.choice(['decoded', 'decoded', 'decoded', 'hand', 'corrupt']))
    k = rng.random()
    if k < 0.3 or not g.triples:
        return {'op': 'node_contexts', 'graph': j_graph(g)}
    t = rng.choice(g.triples)
    if maybe(rng, 0.05):
        t = ('zz', ':r', 'a')
    if k < 0.7:
        return {'op': 'appears_inverted', 'graph': j_graph(g), 'triple': j_triple(t)}
    if k < 0.85:
        return {'op': 'get_pushed_variable', 'graph': j_graph(g), 'triple': j_triple(t)}
    return {'op': 'alignments', 'graph': j_graph(g), 'role': maybe(rng, 0.5)}


def s_model_role(rng):
    m = gen.gen_model(rng)
    return {'op': 'model', 'model': m, 'role': gen.gen_role_probe(rng, m)}


def s_model_triple(rng):
    m = gen.gen_model(rng)
    r = gen.gen_role_probe(rng, m)
    t = (rng.choice(gen.VARS), r, rng.choice(gen.VARS + gen.CONSTS + gen.CONCEPTS + [None, 3]))
    return {'op': 'model_triple', 'model': m, 'triple': j_triple(t),
            'vars': (['_'] + ['_%d' % i for i in range(2, rng.randint(2, 6))]) if maybe(rng, 0.15)
            else rng.sample(gen.VARS + ['_3', '_4'], rng.randint(0, 6))}


def s_dereify(rng):
    m = rng.choice(['amr', 'amr', gen.CUSTOM_MODELS[1], 'default'])
    pm = py_model(m)
    v = rng.choice(gen.VARS)
    # the concepts come from the SPEC (not from the model object under test, whose tables may be wrong)
    if isinstance(m, dict):
        concepts = [c for _, c, _, _ in m.get('reifs', [])]
    elif m == 'amr':
        concepts = [c for _, c, _, _ in gen.AMR_REIFS] + ['have-03', 'receive-01', 'include-91']
    else:
        concepts = []
    concepts = concepts + ['foo', None]
    roles = [':ARG0', ':ARG1', ':ARG2', ':ARG3']
    inst = (v, ':instance' if maybe(rng, 0.95) else ':x', rng.choice(concepts))
    a = (v if maybe(rng, 0.95) else 'q', rng.choice(roles), rng.choice(gen.VARS + ['7']))
    b = (v, rng.choice(roles), rng.choice(gen.VARS + ['7', None]))
    return {'op': 'dereify', 'model': m, 'inst': j_triple(inst), 'src': j_triple(a), 'tgt': j_triple(b)}


def s_errors(rng):
    m = gen.gen_model(rng)
    g = gen.gen_graph(rng, m, mode=rng.choice(['decoded', 'hand', 'hand-disc', 'hand-disc', 'illformed', 'corrupt']))
    if maybe(rng, 0.05):
        g = Graph([], top=rng.choice([None, 'a']))
    if maybe(rng, 0.1) and g.triples:
        # instance triple whose target is a variable (F16)
        vs = sorted(g.variables())
        g.triples.append((rng.choice(vs), ':instance', rng.choice(vs)))
    if maybe(rng, 0.1):
        g._top = rng.choice(['', 'zz', None])
    return {'op': 'errors', 'model': m, 'graph': j_graph(g)}


def s_canonicalize_roles(rng):
    t = gen.gen_tree(rng, wf=maybe(rng, 0.7))
    op = {'op': 'canonicalize_roles', 'tree': j_tree(Tree(t)), 'model': gen.gen_model(rng)}
    if op['model'] == 'default' and maybe(rng, 0.3):
        del op['model']
    return op


def s_transform(rng):
    m = rng.choice(['amr', 'amr', 'amr', 'default', gen.CUSTOM_MODELS[0], gen.CUSTOM_MODELS[1]])
    g = gen.gen_graph(rng, m, mode=rng.choice(['decoded', 'decoded', 'decoded', 'hand', 'corrupt']))
    if m == 'amr' and maybe(rng, 0.3):
        try:
            g = layout.interpret(Tree(gen.reified_tree(rng)), py_model(m))
            if maybe(rng, 0.4):
                g = penman.transform.dereify_edges(g, py_model(m))
            elif maybe(rng, 0.3):
                g = gen.corrupt_markers(rng, g)      # e.g. the node context pushed by the second edge
        except Exception:  # noqa: BLE001
            pass
    if maybe(rng, 0.08):
        # every variable already follows the reifier's own naming scheme (_ , _2, _3, ...)
        vs = sorted(g.variables(), key=str)
        ren = {v: ('_' if i == 0 else '_%d' % (i + 1)) for i, v in enumerate(vs)}
        if not (set(ren.values()) & {t[2] for t in g.triples if isinstance(t[2], str) and t[2] not in ren}):
            f = lambda x: ren.get(x, x) if isinstance(x, str) else x      # noqa: E731
            g = Graph([(f(a), r, f(b)) if r != ':instance' else (f(a), r, b) for a, r, b in g.triples], top=f(g._top),
                      epidata={((f(a), r, f(b)) if r != ':instance' else (f(a), r, b)):
                               [layout.Push(f(e.variable)) if isinstance(e, layout.Push) else e for e in es]
                               for (a, r, b), es in g.epidata.items()}, metadata=g.metadata)
    name = rng.choice(['reify_edges', 'dereify_edges', 'reify_attributes', 'indicate_branches'])
    if name == 'dereify_edges' and maybe(rng, 0.7):
        try:
            g = penman.transform.reify_edges(g, py_model(m))
        except Exception:  # noqa: BLE001
            pass
    op = {'op': name, 'graph': j_graph(g), 'model': m}
    if m == 'default' and maybe(rng, 0.4):
        del op['model']
    return op


def s_graph_new(rng):
    g = gen.gen_graph(rng)
    ts = [(s, r.lstrip(':') if maybe(rng, 0.2) else r, t) for s, r, t in g.triples]
    return {'op': 'graph_new', 'triples': [j_triple(t) for t in ts],
            'top': rng.choice([None, None, 'a', 'zz'] + sorted(g.variables())),
            'epidata': j_graph(g)['epidata'], 'metadata': [[k, v] for k, v in g.metadata.items()],
            'listTriples': maybe(rng, 0.25)}


def s_graph_filter(rng):
    g = gen.gen_graph(rng)
    op = {'op': 'graph_filter', 'graph': j_graph(g)}
    if g.triples:
        t = rng.choice(g.triples)
        if maybe(rng, 0.5):
            op['source'] = t[0]
        if maybe(rng, 0.5):
            op['role'] = t[1]
        if maybe(rng, 0.4) and t[2] is not None:
            op['target'] = j_atom(t[2])
    return op


def s_graph_ops(rng):
    gen.NUM_KIND = rng.choice(['int', 'float'])      # the graphs of one sequence meet in unions
    try:
        return _s_graph_ops(rng)
    finally:
        gen.NUM_KIND = None


def _s_graph_ops(rng):
    base = gen.gen_graph(rng)
    if maybe(rng, 0.12) and base.triples:
        # ask, remove one triple, add another one (same length, same top, other sources), ask again
        t = rng.choice(base.triples)
        new = (rng.choice(['n1', 'n2', t[0]]), rng.choice([':ARG0', ':instance', ':mod']), rng.choice(['n1', 'q', t[0]]))
        drop, add = Graph([t]), Graph([new])
        if maybe(rng, 0.5):
            oplist = [['isub', 0, 1], ['ior', 0, 2]]
        else:
            oplist = [['sub', 0, 1], ['or', 3, 2]]
        return {'op': 'graph_ops', 'graphs': [j_graph(base), j_graph(drop), j_graph(add)], 'ops': oplist,
                'queries': [1, rng.choice([0, 0, 1]), 1]}
    if maybe(rng, 0.1) and len(base.triples) > 1:
        # make the implicit top explicit (assign the top it already has), then remove the leading triple
        first = base.triples[0]
        g0 = Graph(list(base.triples), epidata=dict(base.epidata))        # no explicit top
        drop = Graph([first])
        return {'op': 'graph_ops', 'graphs': [j_graph(g0), j_graph(drop)],
                'ops': [['settop', 0, first[0]], [rng.choice(['isub', 'sub']), 0, 1]], 'queries': [0, 0, 0]}
    gs = [base]
    for _ in range(rng.randint(1, 2)):
        k = rng.random()
        if k < 0.5 and base.triples:
            sub = rng.sample(base.triples, rng.randint(0, len(base.triples)))
            h = Graph(sub, top=rng.choice([None] + [t[0] for t in sub]) if sub else None,
                      epidata={t: list(base.epidata.get(t, [])) + ([layout.POP] if maybe(rng, 0.3) else []) for t in sub if maybe(rng, 0.7)})
        else:
            h = gen.gen_graph(rng)
        gs.append(h)
    n = len(gs)
    oplist = []
    for _ in range(rng.randint(1, 5)):
        k = rng.choice(['or', 'sub', 'ior', 'isub', 'settop', 'eq'])
        x, y = rng.randrange(n), rng.randrange(n)
        if k in ('or', 'sub'):
            oplist.append([k, x, y]); n += 1
        elif k == 'settop':
            oplist.append([k, x, rng.choice([None, 'a', 'b', 'zz', 'c'])])
        elif k in ('ior', 'isub') and x == y:
            continue   # self-aliasing in-place forms are outside the register model
        else:
            oplist.append([k, x, y])
    return {'op': 'graph_ops', 'graphs': [j_graph(g) for g in gs], 'ops': oplist,
            'queries': [int(maybe(rng, 0.4)) for _ in range(len(oplist) + 1)]}


def s_quote(rng):
    k = rng.random()
    if k < 0.8:
        v = gen.gen_constant_string(rng)
    elif k < 0.9:
        v = rng.choice([0, 1, -5, 2.5, 0.0, 1e20, 10**20])
    else:
        v = None
    return {'op': 'quote', 'value': j_atom(v)}


def s_evaluate(rng):
    k = rng.random()
    if k < 0.5:
        s = gen.gen_atom_text(rng)
    elif k < 0.8:
        s = penman.constant.quote(gen.gen_constant_string(rng))
        if maybe(rng, 0.2):
            s = s[:-1] if maybe(rng, 0.5) else s[1:]
    elif k < 0.97:
        s = rng.choice(gen.CONSTS + gen.CONCEPTS)
    else:
        s = None
    return {'op': 'evaluate', 's': s}


def gen_opts(rng):
    o = {}
    if maybe(rng, 0.3):
        o['check'] = True
    o['indent'] = rng.choice([-1, -1, None, 0, 1, 3])
    if o['indent'] is None:
        o['indentSpelling'] = rng.choice(['no', 'no', 'none', 'false', 'No', 'NONE', 'False'])
    if maybe(rng, 0.3):
        o['compact'] = True
    if maybe(rng, 0.15):
        o['triples'] = True
    if maybe(rng, 0.25):
        o['makeVariables'] = rng.choice(gen.FMTS[:6])
    if maybe(rng, 0.3):
        keys = rng.choice([['canonical'], ['alphanumeric'], ['invertedLast'], ['invertedLast', 'alphanumeric'], []])
        o['rearrange'] = {'keys': keys, 'attributesFirst': maybe(rng, 0.4)}
    if maybe(rng, 0.2):
        o['reconfigure'] = rng.choice([['original'], ['canonical']])
    for k in ('canonicalizeRoles', 'reifyEdges', 'dereifyEdges', 'reifyAttributes', 'indicateBranches'):
        if maybe(rng, 0.25):
            o[k] = True
    return o


def gen_stream_text(rng, ngraphs=None, wf=True):
    n = ngraphs if ngraphs is not None else rng.choice([0, 1, 1, 2, 3] if rng.random() > 0.03 else [25, 40])
    parts = []
    for _ in range(n):
        t = gen.gen_tree(rng, wf=wf)
        md = gen.gen_metadata(rng) if maybe(rng, 0.4) else {}
        parts.append(penman.format(Tree(t, metadata=md), indent=rng.choice([None, -1, 2]), compact=maybe(rng, 0.2)))
    if maybe(rng, 0.1):
        # a blank (or blank-only) line between the metadata comments and their graph
        parts = [p.replace('\n(', rng.choice(['\n\n(', '\n \n(', '\n\t\n\n(']), 1) if p.startswith('#') else p for p in parts]
    if maybe(rng, 0.08):
        parts.insert(rng.randrange(len(parts) + 1), '()')      # the empty graph: graph-level errors only
    s = rng.choice(['\n\n', '\n\n', '\n', ' ']).join(parts)
    if maybe(rng, 0.5):
        s += '\n'
    return s


def s_main(rng):
    m = rng.choice(['default', 'amr', 'amr', 'noop', gen.CUSTOM_MODELS[1]])
    inputs = [gen_stream_text(rng, wf=maybe(rng, 0.85)) for _ in range(rng.choice([1, 1, 1, 2, 3]))]
    if m == 'amr' and maybe(rng, 0.2):
        # inputs that already contain written-out reified relations (collapsible nodes)
        inputs[0] = '\n\n'.join(penman.format(Tree(gen.reified_tree(rng)), indent=rng.choice([None, -1]))
                                 for _ in range(rng.randint(1, 2))) + '\n'
    if maybe(rng, 0.1):
        inputs[0] = gen.perturb(rng, inputs[0])
    inputs = [gen.newline_variant(rng, s) for s in inputs]
    return {'op': 'main', 'model': m, 'opts': gen_opts(rng), 'inputs': inputs}


def s_loads(rng):
    s = gen_stream_text(rng, wf=maybe(rng, 0.8))
    if maybe(rng, 0.25):
        s = gen.perturb(rng, s)
    if maybe(rng, 0.3):
        s = s.replace(' ', rng.choice(gen.EXOTIC + ['\x0b', '\x0c']), 1)
    s = gen.newline_variant(rng, s)
    op = {'op': 'loads', 'model': rng.choice(['default', 'amr', 'noop'])}
    drop_defaults(rng, op)
    k = rng.random()
    if k < 0.3:
        op.update({'s': s, 'container': 'str'})
    elif k < 0.5:
        op.update(gen.container_variants(rng, s))
        op['container'] = 'lines' if 'lines' in op else 'str'
    elif k < 0.75:
        op.update({'s': s, 'container': 'stringio'})
        op['container'] = 'file'       # StringIO(newline=None) and a real file share the model (fileLines)
        if maybe(rng, 0.5):
            op['real_container'] = 'stringio'
    else:
        op.update({'s': s, 'container': 'file'})
    return op


def s_dumps(rng):
    m = rng.choice(['default', 'amr'])
    gs = [gen.gen_graph(rng, m, mode=rng.choice(['decoded', 'decoded', 'hand'])) for _ in range(rng.choice([0, 1, 2, 3]))]
    op = {'op': 'dumps', 'graphs': [j_graph(g) for g in gs], 'model': m, 'indent': rng.choice([-1, None, 2]),
          'compact': maybe(rng, 0.3)}
    return drop_defaults(rng, op)


def s_dump(rng):
    op = s_dumps(rng)
    op['op'] = 'dump'
    op['container'] = rng.choice(['file', 'stringio'])
    return op


STREAMS = {
    'lex': s_lex_random, 'parse': s_parse_random, 'parse_triples': s_parse_triples, 'format': s_format,
    'format_triples': s_format_triples, 'interpret': s_interpret, 'decode': s_decode, 'configure': s_configure,
    'reconfigure': s_reconfigure, 'rearrange': s_rearrange, 'reset_variables': s_reset_variables,
    'diagnostics': s_diagnostics, 'model_role': s_model_role, 'model_triple': s_model_triple, 'dereify': s_dereify,
    'errors': s_errors, 'canonicalize_roles': s_canonicalize_roles, 'transform': s_transform,
    'graph_new': s_graph_new, 'graph_filter': s_graph_filter, 'graph_ops': s_graph_ops, 'quote': s_quote,
    'evaluate': s_evaluate, 'main': s_main, 'loads': s_loads, 'dumps': s_dumps, 'dump': s_dump,
}


# ---------------------------------------------------------------- exhaustive streams

def x_lex(alphabet, maxlen):
    for s in gen.exhaustive_strings(alphabet, maxlen):
        yield {'op': 'lex', 's': s, 'mode': 'penman'}
        yield {'op': 'lex', 's': s, 'mode': 'triples'}


def x_parse(alphabet, maxlen):
    for s in gen.exhaustive_strings(alphabet, maxlen):
        yield {'op': 'parse', 's': s}


TOKEN_CLASS = ['(', ')', '/', ':r', 'a', '"s"', '~1', '#c\n', '\\']


def x_blocks(maxk, mink=8):
    """streams whose token count reaches 2**k exactly at a graph boundary and goes on (buffer and block
    sizes are powers of two): graphs of 8 and of 16 tokens, read by loads and by iterparse"""
    g8 = '# ::id {i}\n(a / alpha :ARG0 b)\n\n'                                   # 1 + 7 tokens
    g16 = '# ::id {i}\n# ::snt x\n# ::k v\n(a / alpha :ARG0 (b / beta) :ARG1 b)\n\n'   # 3 + 13 tokens
    for k in range(mink, maxk + 1):
        for per, g in ((8, g8), (16, g16)):
            n = 2 ** k // per + 3
            if per == 16 and k > 14:
                continue
            s = ''.join(g.format(i=i) for i in range(n))
            yield {'op': 'loads', 's': s, 'model': 'default'}
            if k <= 13:
                yield {'op': 'iterparse', 's': s}


def x_token_seqs(maxlen, ops_=('parse', 'iterparse')):
    import itertools
    for n in range(0, maxlen + 1):
        for tup in itertools.product(TOKEN_CLASS, repeat=n):
            s = ' '.join(tup)
            for o in ops_:
                yield {'op': o, 's': s}


TRIPLE_TOKENS = ['(', ')', 'r', 'a', ',', 'a,b', ',b', 'a,', '^', '^r', '"s"', ':']


def x_triple_seqs(maxlen):
    import itertools
    for n in range(0, maxlen + 1):
        for tup in itertools.product(TRIPLE_TOKENS, repeat=n):
            yield {'op': 'parse_triples', 's': ' '.join(tup)}


# ---------------------------------------------------------------- runner

class Hang(BaseException):
    pass


def _on_alarm(signum, frame):
    raise Hang()


def with_alarm(f, seconds=10):
    """a real call that does not return within `seconds` of the process's own CPU time is reported as a
    hang (a loop that never ends burns CPU; a machine that is merely overloaded or swapping does not count
    against the call); a wall-clock backstop of 30 x `seconds` covers a call that blocks without computing"""
    import signal
    old = signal.signal(signal.SIGALRM, _on_alarm)
    oldv = signal.signal(signal.SIGVTALRM, _on_alarm)
    signal.alarm(30 * seconds)
    signal.setitimer(signal.ITIMER_VIRTUAL, seconds)
    try:
        return f()
    except Hang:
        return {'err': ['Hang']}
    finally:
        signal.setitimer(signal.ITIMER_VIRTUAL, 0)
        signal.alarm(0)
        signal.signal(signal.SIGVTALRM, oldv)
        signal.signal(signal.SIGALRM, old)


class Result:
    def __init__(self):
        self.evaluations = 0
        self.skipped_unrepresentable = 0
        self.skipped_unmodelled = 0
        self.mismatches = []      # (op, real, model)
        self.by_stream = collections.Counter()
        self.outcomes = collections.Counter()
        self.distinct = set()
        self.samples = []

    def merge(self, other):
        self.evaluations += other.evaluations
        self.skipped_unrepresentable += other.skipped_unrepresentable
        self.skipped_unmodelled += other.skipped_unmodelled
        self.mismatches += other.mismatches
        self.by_stream.update(other.by_stream)
        self.outcomes.update(other.outcomes)
        self.distinct |= other.distinct
        self.samples += other.samples[:2]


def outcome_of(real):
    if isinstance(real, dict):
        if 'err' in real and isinstance(real['err'], list):
            return 'err:' + str(real['err'][0])
        if 'exit' in real:
            return 'exit:' + outcome_of(real['exit'])
        if 'ok' in real:
            return 'ok'
    return 'value'


def run_ops(oplist, stream='?', result=None, batch=4000):
    """run real + model on the ops and compare"""
    result = result or Result()
    buf = []
    again = []

    def flush():
        if not buf:
            return
        answers = run_driver([o for o, _ in buf])
        for (op, real), ans in zip(buf, answers):
            if isinstance(ans, dict) and 'driver_error' in ans:
                result.mismatches.append((op, real, ans))
                continue
            c = ops.compare(op, real, ans)
            if c == 'skip':
                result.skipped_unmodelled += 1
            elif not c:
                result.mismatches.append((op, real, ans))
        buf.clear()

    hangs = 0
    for op in oplist:
        if hangs >= 3:
            break       # the real code keeps hanging: enough evidence, do not burn the time budget
        try:
            real = with_alarm(lambda: ops.run_real(op))
            if isinstance(real, dict) and real.get('err') == ['Hang']:
                hangs += 1
            json.dumps(real)
        except Unrepresentable:
            result.skipped_unrepresentable += 1
            continue
        except RecursionError:
            result.skipped_unrepresentable += 1
            continue
        except Exception as e:  # noqa: BLE001
            # the real call returned something the harness cannot even canonicalise (a result of
            # another shape than the modelled function returns): a disagreement, not a tool crash
            real = {'uncanonicalisable_result': f'{type(e).__name__}: {e}'}
        result.evaluations += 1
        result.by_stream[stream] += 1
        result.outcomes[stream + ':' + outcome_of(real)] += 1
        key = json.dumps(op, sort_keys=True)
        result.distinct.add(hash(key))
        if len(result.samples) < 3:
            result.samples.append(op)
        buf.append((op, real))
        if len(again) < 60 and (result.evaluations <= 30 or result.evaluations % 37 == 0):
            again.append((op, real))
        if len(buf) >= batch:
            flush()
    flush()
    # history independence: an operation run again at the end of the stream, after thousands of other
    # calls in the same process, returns what it returned the first time (no process-wide state)
    for op, first in again:
        try:
            second = with_alarm(lambda: ops.run_real(op))
            json.dumps(second)
        except Exception as e:  # noqa: BLE001
            second = {'uncanonicalisable_result': f'{type(e).__name__}: {e}'}
        if second != first:
            result.mismatches.append((op, first, {'second_run_differs': second}))
    return result


def still_disagrees(op):
    """does the real code still differ from the model on this op? (one driver call)"""
    try:
        real = with_alarm(lambda: ops.run_real(op))
        json.dumps(real)
        ans = run_driver([op])[0]
    except Exception:  # noqa: BLE001 - a candidate outside the transport / model is not a smaller witness
        return None
    if isinstance(ans, dict) and 'driver_error' in ans:
        return None
    c = ops.compare(op, real, ans)
    if c == 'skip' or c:
        return None
    return (real, ans)


def _candidates(v):
    """smaller variants of a JSON value, most aggressive first"""
    if isinstance(v, list):
        n = len(v)
        if n > 1:
            yield v[:n // 2]
            yield v[n // 2:]
        for i in range(n):
            yield v[:i] + v[i + 1:]
        for i in range(n):
            for c in _candidates(v[i]):
                yield v[:i] + [c] + v[i + 1:]
    elif isinstance(v, dict):
        for k in list(v):
            if k in ('op', 'mode', 'container', 'real_container', 'indentSpelling', 'via') or \
                    (k in ('model', 'key') and not isinstance(v[k], dict)):
                continue        # enumerations of the protocol, not data
            for c in _candidates(v[k]):
                d = dict(v)
                d[k] = c
                yield d
    elif isinstance(v, str):
        n = len(v)
        if n > 1:
            yield v[:n // 2]
            yield v[n // 2:]
            for i in range(n):
                yield v[:i] + v[i + 1:]


def _signature(both):
    real, ans = both

    def cls(x):
        if isinstance(x, dict) and 'err' in x:
            return 'err:' + str(x['err'][0])
        if isinstance(x, dict) and 'ok' in x:
            return 'ok'
        return 'value'
    return cls(real), cls(ans)


def shrink_op(op, budget_s=25.0):
    """greedy structural shrinking of an operation on which model and code disagree; every
    accepted step still disagrees (checked on the real code and the model), so the result is a
    smaller witness of the same broken correspondence, not necessarily of the same branch"""
    t0 = time.time()
    cur = op
    cur_size = len(json.dumps(cur))
    first = still_disagrees(op)
    if first is None:
        return op, 0
    sig = _signature(first)     # keep the kind of disagreement (ok vs error class on each side)
    progress = True
    steps = 0
    while progress and time.time() - t0 < budget_s:
        progress = False
        for cand in _candidates(cur):
            if time.time() - t0 >= budget_s:
                break
            size = len(json.dumps(cand))
            if size >= cur_size:
                continue
            both = still_disagrees(cand)
            if both is not None and _signature(both) == sig:
                cur, cur_size, progress = cand, size, True
                steps += 1
                break
    return cur, steps


def run_stream(name, n, seed, result=None):
    rng = random.Random(f'{seed}:{name}')
    f = STREAMS[name]

    def it():
        for _ in range(n):
            try:
                op = f(rng)
            except Unrepresentable:
                continue
            if rng.random() < 0.15 and op.get('op') not in ('main',):
                # documented-pure calls on the argument objects before the call under test
                op['warm'] = rng.randrange(1, 1 << 16)
            yield op
    return run_ops(it(), stream=name, result=result)


if __name__ == '__main__':
    names = sys.argv[1].split(',') if len(sys.argv) > 1 else list(STREAMS)
    n = int(sys.argv[2]) if len(sys.argv) > 2 else 300
    seed = int(sys.argv[3]) if len(sys.argv) > 3 else 0
    for name in names:
        t0 = time.time()
        r = run_stream(name, n, seed)
        print(f'{name}: {r.evaluations} ops, {len(r.mismatches)} mismatches, unmodelled {r.skipped_unmodelled}, '
              f'unrepresentable {r.skipped_unrepresentable}, {time.time()-t0:.1f}s  {dict(r.outcomes)}')
        for op, real, model in r.mismatches[:3]:
            print('  OP   ', json.dumps(op, ensure_ascii=False)[:1500])
            print('  REAL ', json.dumps(real, ensure_ascii=False)[:1500])
            print('  MODEL', json.dumps(model, ensure_ascii=False)[:1500])

/-
  Penman.Proofs.ConstantEval — `evaluate`/`ctype` on the output of `quote` (C18).
-/
import Penman.Proofs.Constant

namespace Penman
namespace C18

/-! ## 3. `scanJsonString` inverts `escapeChar` -/

theorem hex4Val_digits (n : Nat) (hn : n < 65536) (rest : Str) :
    hex4Val (hexDigit (n / 4096 % 16) :: hexDigit (n / 256 % 16) :: hexDigit (n / 16 % 16) ::
      hexDigit (n % 16) :: rest) = some (n, rest) := by
  have m4 : n / 4096 % 16 < 16 := Nat.mod_lt _ (by decide)
  have m3 : n / 256 % 16 < 16 := Nat.mod_lt _ (by decide)
  have m2 : n / 16 % 16 < 16 := Nat.mod_lt _ (by decide)
  have m1 : n % 16 < 16 := Nat.mod_lt _ (by decide)
  simp only [hex4Val, hexVal_hexDigit _ m4, hexVal_hexDigit _ m3, hexVal_hexDigit _ m2,
    hexVal_hexDigit _ m1, bind, Option.bind, pure]
  congr 2
  omega

theorem char_valid_nat (c : Char) : c.toNat < 0xd800 ∨ (0xdfff < c.toNat ∧ c.toNat < 0x110000) := by
  have := c.valid
  unfold UInt32.isValidChar Nat.isValidChar at this
  exact this

theorem scanJsonString_hex4 (n : Nat) (hn : n < 65536) (hs : ¬ (0xd800 ≤ n ∧ n ≤ 0xdfff))
    (f : Nat) (rest acc : Str) :
    scanJsonString (f+1) (hex4 n ++ rest) acc = scanJsonString f rest (Char.ofNat n :: acc) := by
  have h1 : ¬ (0xd800 ≤ n ∧ n ≤ 0xdbff) := by omega
  have h2 : ¬ (0xdc00 ≤ n ∧ n ≤ 0xdfff) := by omega
  simp only [hex4, List.cons_append, List.nil_append]
  rw [scanJsonString]
  simp only [show ('\\' : Char) ≠ '"' by decide, if_false, if_true]
  simp only [show ('u' : Char) ≠ '"' by decide, show ('u' : Char) ≠ '\\' by decide,
    show ('u' : Char) ≠ '/' by decide, show ('u' : Char) ≠ 'b' by decide,
    show ('u' : Char) ≠ 'f' by decide, show ('u' : Char) ≠ 'n' by decide,
    show ('u' : Char) ≠ 'r' by decide, show ('u' : Char) ≠ 't' by decide, if_false,
    hex4Val_digits n hn, h1, h2]

theorem scanJsonString_pair (hi lo : Nat) (hhi : 0xd800 ≤ hi ∧ hi ≤ 0xdbff) (hlo : 0xdc00 ≤ lo ∧ lo ≤ 0xdfff)
    (f : Nat) (rest acc : Str) :
    scanJsonString (f+1) (hex4 hi ++ hex4 lo ++ rest) acc =
      scanJsonString f rest (Char.ofNat (0x10000 + (hi - 0xd800) * 1024 + (lo - 0xdc00)) :: acc) := by
  have hn : hi < 65536 := by omega
  have hn' : lo < 65536 := by omega
  simp only [hex4, List.cons_append, List.nil_append]
  rw [scanJsonString]
  simp only [show ('\\' : Char) ≠ '"' by decide, if_false, if_true]
  simp only [show ('u' : Char) ≠ '"' by decide, show ('u' : Char) ≠ '\\' by decide,
    show ('u' : Char) ≠ '/' by decide, show ('u' : Char) ≠ 'b' by decide,
    show ('u' : Char) ≠ 'f' by decide, show ('u' : Char) ≠ 'n' by decide,
    show ('u' : Char) ≠ 'r' by decide, show ('u' : Char) ≠ 't' by decide, if_false, if_true,
    hex4Val_digits hi hn, hex4Val_digits lo hn', hhi, hlo, and_self]

theorem scanJsonString_escapeChar (c : Char) (f : Nat) (rest acc : Str) :
    scanJsonString (f+1) (escapeChar c ++ rest) acc = scanJsonString f rest (c :: acc) := by
  unfold escapeChar
  split; · rename_i h; subst h; simp [scanJsonString]
  split; · rename_i h; subst h; simp [scanJsonString]
  split; · rename_i h; subst h; simp [scanJsonString]
  split; · rename_i h; subst h; simp [scanJsonString]
  split; · rename_i h; subst h; simp [scanJsonString]
  split; · rename_i h; subst h; simp [scanJsonString]
  split; · rename_i h; subst h; simp [scanJsonString]
  rename_i h1 h2 _ _ _ _ _
  simp only []
  have hv := char_valid_nat c
  split
  · rename_i hr
    have : ¬ c.toNat < 32 := by omega
    simp [scanJsonString, h1, h2, this]
  split
  · rename_i hlt
    rw [scanJsonString_hex4 _ hlt (by omega), Char.ofNat_toNat]
  · rw [scanJsonString_pair _ _ (by omega) (by omega)]
    have : 0x10000 + (0xd800 + (c.toNat - 0x10000) / 1024 - 0xd800) * 1024 +
        (0xdc00 + (c.toNat - 0x10000) % 1024 - 0xdc00) = c.toNat := by omega
    rw [this, Char.ofNat_toNat]

theorem scanJsonString_body : ∀ (s : Str) (f : Nat) (acc r : Str), s.length < f →
    scanJsonString f (s.flatMap escapeChar ++ '"' :: r) acc = .ok (acc.reverse ++ s) r := by
  intro s
  induction s with
  | nil =>
    intro f acc r h
    cases f with
    | zero => simp at h
    | succ f => simp [scanJsonString]
  | cons c cs ih =>
    intro f acc r h
    cases f with
    | zero => simp at h
    | succ f =>
      rw [List.flatMap_cons, List.append_assoc, scanJsonString_escapeChar, ih _ _ _ (by simpa using h)]
      simp

theorem escapeChar_length_pos (c : Char) : 0 < (escapeChar c).length := by
  have h := isEscBlock_escapeChar c
  cases hc : escapeChar c with
  | nil => rw [hc] at h; simp [isEscBlock] at h
  | cons _ _ => simp

theorem length_le_flatMap_escapeChar (s : Str) : s.length ≤ (s.flatMap escapeChar).length := by
  induction s with
  | nil => simp
  | cons c cs ih =>
    have := escapeChar_length_pos c
    simp only [List.flatMap_cons, List.length_append, List.length_cons]
    omega

/-! ## 4. `evaluate` / `ctype` of a quoted string -/

theorem startsWith_quote (r : Str) : startsWith ['"'] ('"' :: r) = true := by
  simp [startsWith, List.isPrefixOf]

theorem endsWith_quote (r : Str) : endsWith ['"'] (r ++ ['"']) = true := by
  rw [endsWith, List.isSuffixOf_iff_suffix]
  exact List.suffix_append _ _

theorem jsonLoads_jsonDumpsStr (s : Str) : jsonLoads (jsonDumpsStr s) = .ok (some (.str s)) := by
  have hlen := length_le_flatMap_escapeChar s
  have hsk : ∀ r : Str, skipWs ('"' :: r) = '"' :: r := fun r => by
    rw [skipWs, List.dropWhile_cons_of_neg (by decide)]
  simp only [jsonLoads, jsonDumpsStr, List.cons_append, hsk]
  rw [scanJson]
  rw [show s.flatMap escapeChar ++ ['"'] = s.flatMap escapeChar ++ '"' :: [] from rfl,
    scanJsonString_body s _ [] [] (by rw [List.length_append]; simp only [List.length_cons, List.length_nil]; omega)]
  simp [skipWs]

theorem evaluate_jsonDumpsStr (s : Str) : evaluate (some (jsonDumpsStr s)) = .ok (.str s) := by
  have h1 : (jsonDumpsStr s).isEmpty = false := by simp [jsonDumpsStr]
  have h2 : startsWith ['"'] (jsonDumpsStr s) = true := startsWith_quote _
  have h3 : endsWith ['"'] (jsonDumpsStr s) = true := endsWith_quote _
  have h4 : ¬ (jsonDumpsStr s = "true".toList ∨ jsonDumpsStr s = "false".toList ∨
      jsonDumpsStr s = "null".toList) := by
    simp [jsonDumpsStr]
  simp only [evaluate, h1, h2, h3, h4, jsonLoads_jsonDumpsStr]
  rfl

theorem ctype_jsonDumpsStr (s : Str) : ctype (some (jsonDumpsStr s)) = .ok .string := by
  have h2 : startsWith ['"'] (jsonDumpsStr s) = true := startsWith_quote _
  have h3 : endsWith ['"'] (jsonDumpsStr s) = true := endsWith_quote _
  simp only [ctype, evaluate_jsonDumpsStr, h2, h3]
  rfl

end C18
end Penman

/-
  Penman.Proofs.TransformDecodeDereify — `dereify_edges` preserves the invariant `DecOK`,
  under the side condition `DerefSide` on the `Push` markers of its result.

  Why a side condition: `dereify_edges` REMOVES variables (the collapsed nodes) and moves the markers
  of the collapsed node's second relation onto the dereified triple.  A `Push(v)` that names a collapsed
  node `v` — left on some other triple, or on that second relation — then names no variable any more
  (`exDerefPush` in `Props/C12dec.lean`), and a `Push(s)` moved onto `(s :role 7)` names the source of a
  triple whose target is not a string.  Both are excluded by the hypotheses `PushVars` / `PushSrcOK` of
  C03 / C06.  `DerefSide` is decidable (`dereify_edges` is total and computable) and holds e.g. when
  the graph carries no `Push` marker (`derefSide_of_noPush`).  Alignments need no side condition:
  the result of a graph without alignments has none (`derFold_all`, `getAlignments_nil`).
-/
import Penman.Proofs.TransformDecodeBranches
namespace Penman.C12dec
open Penman Penman.Spec Penman.C03Text

/-- **side condition of `dereify_edges`**: in its result every `Push` marker still names a variable,
    and `Push(source)` only sits on triples with a string target -/
def DerefSide (m : Model) (g : Graph) : Prop :=
  match dereifyEdges m g with
  | .ok g' => PushAll g'
  | .error _ => True

instance (m : Model) (g : Graph) : Decidable (DerefSide m g) := by
  unfold DerefSide
  cases dereifyEdges m g with
  | ok g' => exact inferInstanceAs (Decidable (PushAll g'))
  | error e => exact isTrue trivial

theorem derefSide_ok {m : Model} {g g' : Graph} (hs : DerefSide m g) (h : dereifyEdges m g = .ok g') :
    PushAll g' := by
  unfold DerefSide at hs; rw [h] at hs; exact hs

/-! ### where the markers of the result come from -/

theorem collapseOf_epidata {m : Model} {g : Graph} {x : Str} {ag : Agenda}
    (h : collapseOf m g x = some ag) : ∃ i0 sec, ag.epidata = agendaEpis g i0 sec := by
  unfold collapseOf at h
  split at h
  · rename_i i0 hi0
    split at h
    · rename_i ag' he
      simp only [Option.some.injEq] at h
      subst h
      unfold entryRes at he
      split at he
      · rename_i a b hl
        split at he
        · simp only at he
          by_cases hp : getPushedVariable g b = some x
          · simp only [hp, if_true] at he
            cases hd : m.dereify i0 b a with
            | error e => rw [hd] at he; cases e <;> simp at he
            | ok r =>
              rw [hd] at he
              obtain ⟨s, role, tgt⟩ := r
              cases s with
              | str s =>
                simp only at he
                split at he
                case isFalse => simp at he
                simp only [EntryRes.add.injEq] at he
                subst he
                exact ⟨i0, a, rfl⟩
              | none => simp at he
              | num _ => simp at he
          · simp only [hp, if_false] at he
            cases hd : m.dereify i0 a b with
            | error e => rw [hd] at he; cases e <;> simp at he
            | ok r =>
              rw [hd] at he
              obtain ⟨s, role, tgt⟩ := r
              cases s with
              | str s =>
                simp only at he
                split at he
                case isFalse => simp at he
                simp only [EntryRes.add.injEq] at he
                subst he
                exact ⟨i0, b, rfl⟩
              | none => simp at he
              | num _ => simp at he
        · simp at he
      · simp at he
    · simp at h
  · simp at h

theorem mem_agendaEpis {g : Graph} {i0 sec : Triple} {e : Epi} (h : e ∈ agendaEpis g i0 sec) :
    (∃ p i, e = .roleAln p i ∧ AList.get? (getAlignments g false) i0 = some (.aln p i)) ∨
    e ∈ (AList.get? g.epidata sec).getD [] := by
  unfold agendaEpis at h
  rcases List.mem_append.mp h with h | h
  · left
    cases ha : AList.get? (getAlignments g false) i0 with
    | none => rw [ha] at h; simp [alnBack] at h
    | some a =>
      rw [ha] at h
      cases a with
      | aln p i =>
        simp only [alnBack, List.mem_singleton] at h
        exact ⟨p, i, h, rfl⟩
      | roleAln p i => simp [alnBack] at h
      | push v => simp [alnBack] at h
      | pop => simp [alnBack] at h
  · right; exact (List.mem_filter.mp h).1

theorem getAlignments_nil {g : Graph} (h : ∀ p ∈ g.epidata, ∀ e ∈ p.2, e.mode = 0) :
    getAlignments g false = [] := by
  unfold getAlignments
  rw [List.filterMap_eq_nil_iff]
  intro p hp
  obtain ⟨t, epis⟩ := p
  have : epis.filter (fun e => decide (e.mode = 2)) = [] := by
    rw [List.filter_eq_nil_iff]
    intro e he
    simp [h _ hp e he]
  simp only [Bool.false_eq_true, if_false, this, List.getLast?_nil]

/-- a property of markers that holds of every marker of `g` and of the markers the agenda builds
    holds of every marker of the result's table -/
theorem derFold_all (P : Epi → Prop) (look : Str → Option Agenda)
    (hag : ∀ x ag, look x = some ag → ∀ e ∈ ag.epidata, P e) :
    ∀ (l : List Triple) (ep : Epidata), (∀ p ∈ ep, ∀ e ∈ p.2, P e) →
      ∀ p ∈ l.foldl (fun ep t => derEp look t ep) ep, ∀ e ∈ p.2, P e
  | [], _, h => h
  | t :: r, ep, h => by
    rw [List.foldl_cons]
    apply derFold_all P look hag r
    intro p hp
    unfold derEp at hp
    cases hl : look t.src with
    | none => rw [hl] at hp; exact h p hp
    | some ag =>
      rw [hl] at hp
      have hp := mem_erase_imp hp
      split at hp
      · rcases mem_set_imp hp with hp | rfl
        · exact h p hp
        · exact hag _ _ hl
      · exact h p hp

section
variable {cfg : LexCfg} {isSpace : Char → Bool} {m : Model} {g : Graph}

theorem agenda_all (P : Epi → Prop) (hP : ∀ p ∈ g.epidata, ∀ e ∈ p.2, P e)
    (hra : ∀ p i, AList.get? (getAlignments g false) p = some i → ∀ q j, i = .aln q j → P (.roleAln q j)) :
    ∀ x ag, collapseOf m g x = some ag → ∀ e ∈ ag.epidata, P e := by
  intro x ag hx e he
  obtain ⟨i0, sec, hep⟩ := collapseOf_epidata hx
  rw [hep] at he
  rcases mem_agendaEpis he with ⟨p, i, rfl, hget⟩ | he
  · exact hra _ _ hget p i rfl
  · cases hk : AList.get? g.epidata sec with
    | none => rw [hk] at he; simp at he
    | some es =>
      rw [hk] at he
      exact hP (sec, es) (AList.mem_of_get? hk) e he

/-- the result of a graph without alignment markers has none -/
theorem dereify_modes (hP : ∀ p ∈ g.epidata, ∀ e ∈ p.2, e.mode = 0) {g' : Graph}
    (h : dereifyEdges m g = .ok g') : ∀ p ∈ g'.epidata, ∀ e ∈ p.2, e.mode = 0 := by
  intro p hp
  rw [(dereifyEdges_ok h).2.2.2] at hp
  refine derFold_all (fun e => e.mode = 0) (collapseOf m g) ?_ g.triples g.epidata hP p (mem_ofList_imp hp)
  apply agenda_all (fun e => e.mode = 0) hP
  intro p i hget
  rw [getAlignments_nil hP] at hget
  simp [AList.get?_nil] at hget

/-- a graph without `Push` markers satisfies the side condition -/
theorem derefSide_of_noPush (hP : ∀ p ∈ g.epidata, ∀ e ∈ p.2, e.isPush = false) : DerefSide m g := by
  unfold DerefSide
  cases h : dereifyEdges m g with
  | error e => trivial
  | ok g' =>
    have hno : ∀ p ∈ g'.epidata, ∀ e ∈ p.2, e.isPush = false := by
      intro p hp
      rw [(dereifyEdges_ok h).2.2.2] at hp
      refine derFold_all (fun e => e.isPush = false) (collapseOf m g) ?_ g.triples g.epidata hP p
        (mem_ofList_imp hp)
      apply agenda_all (fun e => e.isPush = false) hP
      intro _ _ _ q j _; rfl
    intro p hp
    refine ⟨fun e he => ?_, Or.inr (Or.inr fun hmem => ?_)⟩
    · have := hno p hp e he
      cases e <;> simp [Epi.isPush, Cfg.pushIn] at this ⊢
    · have := hno p hp _ hmem
      simp [Epi.isPush] at this

/-! ### the triples -/

theorem instSrcs_derOut (look : Str → Option Agenda)
    (hrole : ∀ x ag, look x = some ag → ag.dereified.role ≠ CONCEPT_ROLE) :
    ∀ (l : List Triple), (instSrcs (l.flatMap (derOut look))).Sublist (instSrcs l)
  | [] => by simp [instSrcs]
  | t :: r => by
    rw [List.flatMap_cons, instSrcs_append, instSrcs_cons t r]
    refine List.Sublist.append ?_ (instSrcs_derOut look hrole r)
    unfold derOut
    cases hl : look t.src with
    | none => exact List.Sublist.refl _
    | some ag =>
      simp only
      split
      · rw [instSrcs_single_not (hrole _ _ hl)]; exact List.nil_sublist _
      · exact List.nil_sublist _

theorem reifRole_ne_concept (hm : ReifWf m) {rf : Reif} (hrf : rf ∈ m.reifs) : rf.role ≠ CONCEPT_ROLE := by
  intro h
  have := hm.2
  unfold Model.isReifiable at this
  rw [List.any_eq_false] at this
  exact this rf hrf (by simp [h])

/-- **`dereify_edges` preserves the invariant**, under `DerefSide` -/
theorem dereifyEdges_decOK (hm : ReifWf m) (htab : TableOK cfg m) (hd : DecOK cfg isSpace m g)
    (hs : DerefSide m g) {g' : Graph} (h : dereifyEdges m g = .ok g') :
    DecOK cfg isSpace m g' ∧ g'.getTop = g.getTop := by
  obtain ⟨ht, htop, hmd, hep⟩ := dereifyEdges_ok h
  have hg := hd.rolesColon
  have hdrole : ∀ x ag, collapseOf m g x = some ag → ag.dereified.role ≠ CONCEPT_ROLE := by
    intro x ag hx
    obtain ⟨_, _, _, ⟨rf, hrf, hrole⟩, _⟩ := collapseOf_some hx
    rw [← hrole]; exact reifRole_ne_concept hm hrf
  have hall : ∀ t1 ∈ g.triples.flatMap (derOut (collapseOf m g)), TripleOK cfg m t1 := by
    intro t1 h1
    rw [List.mem_flatMap] at h1
    obtain ⟨t, htg, h1⟩ := h1
    unfold derOut at h1
    cases hcol : collapseOf m g t.src with
    | none =>
      rw [hcol] at h1
      simp only [List.mem_singleton] at h1
      subst h1; exact hd.triples _ htg
    | some ag =>
      rw [hcol] at h1
      simp only at h1
      split at h1
      · simp only [List.mem_singleton] at h1
        subst h1
        obtain ⟨_, _, ⟨a, b, hl, hab⟩, ⟨rf, hrf, hrole⟩, hsv⟩ := collapseOf_some hcol
        have ha := mem_otherOf (show a ∈ otherOf g.triples t.src by rw [hl]; simp)
        have hb := mem_otherOf (show b ∈ otherOf g.triples t.src by rw [hl]; simp)
        have htgt : AtomOK cfg ag.dereified.tgt := by
          rcases hab with ⟨_, h2⟩ | ⟨_, h2⟩
          · rw [h2]; exact (hd.triples b hb.1).2.2.1
          · rw [h2]; exact (hd.triples a ha.1).2.2.1
        exact ⟨hrole ▸ (htab.1 rf hrf).1, hd.varOK hsv, htgt, fun hc => absurd hc (hdrole _ _ hcol)⟩
      · simp at h1
  have htr' : g'.triples = g.triples.flatMap (derOut (collapseOf m g)) := by
    rw [ht]
    exact map_ensureColon_id (fun t1 h1 => startsWith_of_head (hall t1 h1).1.1)
  have hmodes : ∀ p ∈ g.epidata, ∀ e ∈ p.2, e.mode = 0 := fun p hp => (hd.epi p hp).1
  refine ⟨⟨?_, ?_, ?_, ?_, dereifyEdges_hasInst h hd.hasInst (dereified_src_node hd.hasInst hd.topSrc),
    dereifyEdges_connected h hm hg hd.conn⟩, dereifyEdges_getTop h⟩
  · rw [htr']; exact hall
  · show (instSrcs g'.triples).Nodup
    rw [htr']
    exact (instSrcs_derOut _ hdrole g.triples).nodup hd.oneLabel
  · rw [hmd, wfMeta_ofList hd.metaOK]; exact hd.metaOK
  · intro p hp
    exact ⟨dereify_modes hmodes h p hp, derefSide_ok hs h p hp⟩

end
end Penman.C12dec

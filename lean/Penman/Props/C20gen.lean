import Penman.Proofs.NormalFormGraphCli
import Penman.Props.C03Text
import Penman.Props.C20nf
/-!
# C20 (normal-form clause), GRAPH half — the encoder's output is a fixed point of decode-then-encode,
# and the command with `--reify-edges` / `--dereify-edges` / `--reify-attributes` reproduces its output

`Penman/Props/C20nf.lean` proves the normal-form clause of C20

  "… feeding the output back through the tool with the same options reproduces it byte for byte
   for every option set without --reconfigure, --indicate-branches or a random key …"

for the option sets `--canonicalize-roles`, `--rearrange`, `--indent`, `--compact`, where the graph
that is encoded is the graph that was decoded (C02).  This file covers the option sets in which the
graph is TRANSFORMED between decoding and encoding (`processIn` in Penman/Main.lean: the graph stages
`--reify-edges`, `--dereify-edges`, `--reify-attributes`, in this order), by proving that *everything
`configure` prints is again in the domain of C02*.

Model functions: `configure`, `interpret`, `format`, `parseTree`/`C01.parse`, `encode`/`decode`
(Proofs/EncodeDecode.lean), `processIn`, `processOut`, `processTree`, `processInput` (Penman/Main.lean),
`reifyEdges`, `dereifyEdges`, `reifyAttributes`, `rearrange`, `canonicalizeRoles`.
Vocabulary (Penman/Spec/NormalFormGraph.lean): `LayoutOK` (decidable; what a graph needs beyond
`Cfg.WfGraph` so that its encoding is a `WfLayout` tree), `PyGraph`, `NoReifiable`, `NoAttributes`,
`StagesIdle`, `StagesFixed`, `stageOpts`; `Cfg.WfGraph`, `deinvert1` (Spec/Encode.lean), `GraphTextOK`,
`writtenForm`, `writtenTriple`, `NumNotVar` (Spec/EncodeText.lean), `WfLayout`, `noNullN` (Spec/WfLayout.lean),
`nfTree`, `canonStep`, `streamOut` (Spec/NormalForm.lean), `NoCollapsible` (Spec/Transform.lean).
Proofs: `Penman/Proofs/NormalFormGraphLoop.lean` (new store invariant: no self-loop edge with an inverted
role), `…GraphLayout.lean` (cells → `WfLayout` tree), `…GraphStages.lean` (idle stages are the identity,
`interpret` returns `Graph.__init__`-shaped graphs), `…GraphCli.lean` (both passes, streams).

Clause ↦ theorem
* KEY LEMMA "everything `configure` prints is in the domain of C02" ↦ `configure_wfLayout`: for every model
  with `ModelWf`, not the no-op model, every `Cfg.WfGraph` + `LayoutOK` graph, every top, ANY layout markers
  (`Cfg.PushVars` only): if `configure` succeeds, the written form of its tree is `WfLayout` and has no empty
  concept slot; the metadata is the graph's.  Clause by clause of `WfLayout`: every node has a variable and
  `/` only first with atomic target (store invariant `SlashOK` + `LayoutOK.oneLabel`); role cores
  `:`-prefixed, not `:instance`, inversion-canonical (`WfGraph.roles`, `NoInstOf`, C13 `inv_involutive`);
  no alignment suffix (`NoAlign`); atoms read back as themselves (`TextOK`, non-empty); NO INVERTED
  SELF-LOOP (new invariant `Cfg.storeOf_sl`, needs `LayoutOK.selfLoop` — see the findings); variables
  defined once (C03); denoted triples pairwise distinct (`decode_written` + `LayoutOK.distinct`).
* COROLLARY "encode (decode (encode g)) = encode g" ↦ `encode_fixed_point` (trees: `interpret` then
  `configure` of the printed tree give the printed tree back) and `encode_normal_form` (texts, every
  indentation, compact or not): the text `s2 = encode (decode (encode g))` is always a fixed point of
  decode-then-encode, and `s2 = encode g` when `compact` is off or no NUMBER is spelled like a variable
  (`NumNotVar`); otherwise the two texts can differ in one line break
  (`encode_normal_form_needs_numNotVar`, C03Text finding 2).
* STAGES "each graph stage is the identity on the re-decoded graph" ↦ `stages_identity`, `interpret_is_pyGraph`
  (`reifyEdges`/`dereifyEdges`/`reifyAttributes` return their argument on a `PyGraph` with
  `NoReifiable`/`NoCollapsible`/`NoAttributes`), used in
* NORMAL FORM, command ↦ `cli_normal_form_graph_stages` (one graph) and
  `cli_normal_form_graph_stages_stream` (any number of graphs in one input): for the option sets
  `stageOpts canon re rE dE rA i c` (every subset of the three graph stages, with or without
  `--canonicalize-roles`, `--rearrange`, any `--indent`, `--compact`), the command prints
  `out1 = format R …` and feeding `out1` back prints `out1` again, byte for byte, status 0.
  Hypotheses, all decidable, on the first-pass graph `g1 = processIn o T` and the printed tree
  `R = nfTree m re (configure g1)`: `WfGraph`, `LayoutOK`, `GraphTextOK`, `PushVars`, `NoNum` for `g1`
  (all true of what the stages produce from ordinary input; stated, not derived), `canonStep R = R`
  (trivial without `--canonicalize-roles`) and `StagesFixed o R`: the graph decoded from `R` has no
  reifiable role (if `--reify-edges`), an empty dereification agenda (if `--dereify-edges`), no
  attribute (if `--reify-attributes`).  Sufficient conditions for `StagesFixed` in terms of `g1`
  (via C03, C11, C12) are in `Penman/Props/C20genStages.lean`.
  F18 (`--reify-edges --reify-attributes` on `(a / x :mod-of 7)`) violates `StagesFixed`:
  `F18_not_stagesFixed`, and is a true counterexample (`F18_counterexample`, Props/C20genEvalCli.lean).

FINDINGS (model and real code agree; replayed with /repo)
1. `selfloop_inverted_not_fixed`: a graph with a self-loop whose role is inverted, `(a :ARG0-of a)`, is
   encoded as `(a / x :ARG0-of a)`; decoding deinverts it, so `encode(decode(encode g))` is
   `(a / x :ARG0 a)` ≠ `encode g`.  The graph satisfies every hypothesis of C03 / C03Text.
2. `selfloop_push_not_fixed`: the same for a self-loop `(a :ARG0 a)` with a NON-inverted role that carries
   the layout marker `Push(a)`: `configure` then writes `:ARG0-of a`.  (`configure` CAN produce an inverted
   self-loop from a marker assignment.)  Hence `LayoutOK.selfLoop`.
3. `encode_normal_form_needs_numNotVar`: with `compact`, a number spelled like a variable makes the first
   and second encodings differ in a line break.
4. `dereify_edges` twice: it IS idempotent.  No counterexample on 80 000 random AMR graphs with reified nodes
   on /repo (the only non-reproduced output had a duplicated triple, excluded by `LayoutOK.distinct`), and
   PROVED for every model with a well-formed reification table: `dereify_edges_idempotent`,
   `noCollapsible_decoded` in `Penman/Props/C20genStages.lean` (a collapse only adds a relation whose role is
   reifiable, which is never the source/target role of a reification, so no new collapsible node arises).

Companion files: `Props/C20genEval.lean`, `Props/C20genEvalCli.lean`, `Props/C20genEvalCli2.lean` (non-vacuity and
findings evaluated on the model), `Props/C20genStages.lean` (`StagesFixed` derived from the first-pass graph;
C03 + C05a + C06 + C11 + C12; cannot be imported together with this file, see there), `Props/C20genVars.lean`
(`--make-variables`: `reset_variables_idempotent`, `make_variables_normal_form_partial`, and the UNPROVED
(stated) `make_variables_normal_form`).  Nothing is left unproved in THIS file.
-/
namespace Penman.C20gen
open Penman Penman.NF Penman.Cfg Penman.C03Text Penman.Framing

/-! ## 1. the key lemma -/

/-- **KEY LEMMA: everything `configure` prints is again in the domain of C02.** -/
theorem configure_wfLayout (isAlpha : Char → Bool) {m : Model} {g : Graph} {top : Option Str} {T : Tree}
    (hw : ModelWf m) (hnoop : m.noop = false) (hg : WfGraph m g) (hL : LayoutOK m g) (hpv : Cfg.PushVars g)
    (h : configure m g top = .ok T) :
    WfLayout isAlpha m (writtenForm T.node) ∧ noNullN (writtenForm T.node) = true ∧
    T.metadata = g.metadata :=
  configured_wfLayout isAlpha hw hnoop hg hL hpv h

/-- without numbers the written form is the tree itself -/
theorem configure_wfLayout_noNum (isAlpha : Char → Bool) {m : Model} {g : Graph} {top : Option Str} {T : Tree}
    (hw : ModelWf m) (hnoop : m.noop = false) (hg : WfGraph m g) (hL : LayoutOK m g) (hpv : Cfg.PushVars g)
    (hnum : NoNum g) (h : configure m g top = .ok T) :
    WfLayout isAlpha m T.node ∧ noNullN T.node = true := by
  have := configured_wfLayout isAlpha hw hnoop hg hL hpv h
  rw [configure_noNum hw hg hpv hnum h] at this
  exact ⟨this.1, this.2.1⟩

/-- the character-level hypothesis of C03Text gives the text clauses of `LayoutOK` -/
theorem layoutOK_of_text {cfg : LexCfg} (hcfg : Spec.FmtCfgWf cfg = true) {isSpace : Char → Bool} {m : Model}
    {g : Graph} (htx : GraphTextOK cfg isSpace m g)
    (hd : ((g.triples.map writtenTriple).map (deinvert1 m g)).Nodup)
    (hs : ∀ t ∈ g.triples, t.role ≠ CONCEPT_ROLE → writtenAtom t.tgt = .str t.src →
      m.isRoleInverted t.role = false ∧ hasPush t.src ((AList.get? g.epidata t).getD []) = false) :
    LayoutOK m g := by
  refine ⟨?_, ?_, ?_, htx.oneLabel, hd, hs⟩
  · intro t ht h
    have := htx.srcs t ht
    rw [h] at this; simp [Spec.symbolB] at this
  · intro t ht h
    have := htx.tgts t ht
    rw [h] at this
    simp [TgtTextOK, Spec.symbolB, Spec.stringB, scanString] at this
  · intro t ht
    have := htx.tgts t ht
    cases htg : t.tgt with
    | none => trivial
    | str s => trivial
    | num s =>
      rw [htg] at this
      simp only [TgtTextOK] at this
      refine ⟨?_, tilde_not_in_symbol hcfg this⟩
      intro h; rw [h] at this; simp [Spec.symbolB] at this

/-! ## 2. the encoder's output is a fixed point of decode-then-encode -/

/-- **COROLLARY, trees.**  With `T = configure g top` and `W` the written form of `T` (the tree parsing the
    text gives back): `interpret W = g'` and `configure g' = W` — `dropNullConcept` has nothing to drop. -/
theorem encode_fixed_point (isAlpha : Char → Bool) {m : Model} {g : Graph} {top : Option Str} {T : Tree}
    (hw : ModelWf m) (hnoop : m.noop = false) (hg : WfGraph m g) (hL : LayoutOK m g) (hpv : Cfg.PushVars g)
    (hmd : MetaDict g.metadata) (h : configure m g top = .ok T) :
    ∃ g', interpret isAlpha m ⟨writtenForm T.node, T.metadata⟩ = .ok g' ∧
      configure m g' none = .ok ⟨writtenForm T.node, T.metadata⟩ ∧
      dropNullConcept (writtenForm T.node) = writtenForm T.node := by
  obtain ⟨g', h1, h2⟩ := configured_fixed_point isAlpha hw hnoop hg hL hpv hmd h
  exact ⟨g', h1, h2, C02P.dropNull_id _ (configured_wfLayout isAlpha hw hnoop hg hL hpv h).2.1⟩

/-- **COROLLARY, texts: `encode (decode (encode g)) = encode g`.**  Let `s1 = encode g top` (any top, any
    indentation, compact or not).  Then `s1` decodes to some `g'`, `g'` encodes (from its own top) to some
    `s2`, `s2` decodes to the same `g'` — so `s2` is a fixed point of decode-then-encode — and `s2 = s1`
    whenever `compact` is off or no number of `g` is spelled like one of its variables. -/
theorem encode_normal_form {cfg : LexCfg} (hcfg : Spec.FmtCfgWf cfg = true) (isSpace isAlpha : Char → Bool)
    {m : Model} {g : Graph} {top : Option Str} (hw : ModelWf m) (hnoop : m.noop = false) (hg : WfGraph m g)
    (hL : LayoutOK m g) (htx : GraphTextOK cfg isSpace m g) (hpv : Cfg.PushVars g) (i : Indent) (c : Bool)
    (s1 : Str) (h1 : encode m g top i c = .ok s1) :
    ∃ g' s2, decode cfg isSpace isAlpha m s1 = .ok g' ∧ encode m g' none i c = .ok s2 ∧
      decode cfg isSpace isAlpha m s2 = .ok g' ∧ ((c = false ∨ NumNotVar g) → s2 = s1) := by
  obtain ⟨T, hT⟩ := encode_ok_iff.1 ⟨s1, h1⟩
  have hs1 : s1 = format T i c := by
    simp only [encode, hT, Except.map, Except.ok.injEq] at h1; exact h1.symm
  subst hs1
  obtain ⟨hwt, hwm⟩ := configured_tree_wf (cfg := cfg) hw hg htx hpv hT
  obtain ⟨g', i1, i2⟩ := configured_fixed_point isAlpha hw hnoop hg hL hpv (metaDict_of_wfMeta htx.metaOK) hT
  have hp1 := parse_format_num hcfg isSpace T.node T.metadata hwt hwm i c
  have hp2 := C01.C01_roundtrip hcfg isSpace (writtenForm T.node) T.metadata hwt hwm i c
  refine ⟨g', format ⟨writtenForm T.node, T.metadata⟩ i c, ?_, ?_, ?_, ?_⟩
  · simp only [decode]
    have : C01.parse cfg isSpace (format T i c) = .ok ⟨writtenForm T.node, T.metadata⟩ := hp1
    rw [this]; exact i1
  · simp [encode, i2, Except.map]
  · simp only [decode]; rw [hp2]; exact i1
  · intro hc
    exact C03Text.C03_text_format hw hg htx hpv hT i c hc

/-! ## 3. the graph stages on the re-decoded graph -/

/-- **each selected graph stage is the identity** on a graph shaped as `Graph.__init__` leaves it
    (`PyGraph`: every graph `interpret` returns) on which it has nothing to do -/
theorem stages_identity {m : Model} {g : Graph} (hp : PyGraph g) :
    (NoReifiable m g → reifyEdges m g = .ok g) ∧ (NoCollapsible m g → dereifyEdges m g = .ok g) ∧
    (NoAttributes g → reifyAttributes g = g) :=
  ⟨reifyEdges_idle hp, dereifyEdges_idle hp, reifyAttributes_idle hp⟩

/-- every graph `interpret` returns (for dictionary metadata) is a `PyGraph` -/
theorem interpret_is_pyGraph {isAlpha : Char → Bool} {m : Model} {t : Tree} {g : Graph}
    (h : interpret isAlpha m t = .ok g) (hmd : MetaDict t.metadata) : PyGraph g :=
  (interpret_pyGraph h hmd).1

/-- **normal-form clause with graph stages, one graph.**  The input parses completely as `T`; the first
    pass turns it into the graph `g1` and encodes `g1` as `T1`; `R = nfTree m re T1` is the printed tree.
    Under the decidable hypotheses on `g1` and `R` explained in the header, the command prints
    `out1 = format R ++ "\n"` with status 0, and feeding `out1` back prints `out1` again. -/
theorem cli_normal_form_graph_stages {cfg : LexCfg} (hwc : Spec.FmtCfgWf cfg = true) (hsep : SepChar cfg '\n')
    (u : UTables) (m : Model) (canon : Bool) (re : Option (List KeyFn × Bool)) (rE dE rA : Bool)
    (i : Indent) (c : Bool) (hw : ModelWf m) (hnoop : m.noop = false)
    (x : Str) (T : Tree) (g1 : Graph) (T1 : Tree)
    (hp : parseTree ⟨eofPos (lexStr cfg cfg.penmanOrder x)⟩ u.isSpace (lexStr cfg cfg.penmanOrder x)
      = .ok (T, []))
    (hin : processIn u m (stageOpts canon re rE dE rA i c) T = .ok g1)
    (hcf : configure m g1 none = .ok T1)
    (hg : WfGraph m g1) (hL : LayoutOK m g1) (htx : GraphTextOK cfg u.isSpace m g1) (hpv : Cfg.PushVars g1)
    (hnum : NoNum g1)
    (hcanon : canonStep m canon (nfTree m re T1) = .ok (nfTree m re T1))
    (hfix : StagesFixed u.isAlpha m (stageOpts canon re rE dE rA i c) (nfTree m re T1)) :
    let out1 := format (nfTree m re T1) i c ++ ['\n']
    processInput cfg u m (stageOpts canon re rE dE rA i c) x = (out1, .ok 0) ∧
    processInput cfg u m (stageOpts canon re rE dE rA i c) out1 = (out1, .ok 0) := by
  have key := tree_normal_form_stages (cfg := cfg) u m canon re rE dE rA i c hw hnoop T g1 T1 hin hcf hg hL htx
    hpv hnum hcanon hfix
  have := stream_fixed hwc hsep u m (stageOpts canon re rE dE rA i c) x [⟨x, T, nfTree m re T1⟩]
    (by intro g hgm; simp only [List.mem_singleton] at hgm; subst hgm; exact ⟨⟨_, hp⟩, key⟩)
    (by simpa using LSim.refl_nil u.isSpace _)
  simpa [streamOut, stageOpts] using this

/-- the hypotheses of `cli_normal_form_graph_stages` on one graph of a stream -/
structure StageRun (cfg : LexCfg) (u : UTables) (m : Model) (canon : Bool) (re : Option (List KeyFn × Bool))
    (rE dE rA : Bool) (i : Indent) (c : Bool) (s : Str) (T : Tree) (g1 : Graph) (T1 : Tree) : Prop where
  parse : ∃ c0, parseTree c0 u.isSpace (lexStr cfg cfg.penmanOrder s) = .ok (T, [])
  first : processIn u m (stageOpts canon re rE dE rA i c) T = .ok g1
  enc : configure m g1 none = .ok T1
  wf : WfGraph m g1
  lay : LayoutOK m g1
  text : GraphTextOK cfg u.isSpace m g1
  push : Cfg.PushVars g1
  noNum : NoNum g1
  canonFix : canonStep m canon (nfTree m re T1) = .ok (nfTree m re T1)
  fixed : StagesFixed u.isAlpha m (stageOpts canon re rE dE rA i c) (nfTree m re T1)

/-- **normal-form clause with graph stages, streams**: any number of graphs in one input (separated by
    anything that produces no tokens) -/
theorem cli_normal_form_graph_stages_stream {cfg : LexCfg} (hwc : Spec.FmtCfgWf cfg = true)
    (hsep : SepChar cfg '\n') (u : UTables) (m : Model) (canon : Bool) (re : Option (List KeyFn × Bool))
    (rE dE rA : Bool) (i : Indent) (c : Bool) (hw : ModelWf m) (hnoop : m.noop = false)
    (x : Str) (gs : List (Str × Tree × Graph × Tree))
    (hg : ∀ g ∈ gs, StageRun cfg u m canon re rE dE rA i c g.1 g.2.1 g.2.2.1 g.2.2.2)
    (hx : LSim u.isSpace [] (gs.map fun g => lexStr cfg cfg.penmanOrder g.1).flatten
      (lexStr cfg cfg.penmanOrder x)) :
    let out1 := streamOut true (gs.map fun g => format (nfTree m re g.2.2.2) i c)
    processInput cfg u m (stageOpts canon re rE dE rA i c) x = (out1, .ok 0) ∧
    processInput cfg u m (stageOpts canon re rE dE rA i c) out1 = (out1, .ok 0) := by
  have := stream_fixed hwc hsep u m (stageOpts canon re rE dE rA i c) x
    (gs.map fun g => ⟨g.1, g.2.1, nfTree m re g.2.2.2⟩)
    (by
      intro r hr; simp only [List.mem_map] at hr
      obtain ⟨g, hgm, rfl⟩ := hr
      have h := hg g hgm
      exact ⟨h.parse, tree_normal_form_stages (cfg := cfg) u m canon re rE dE rA i c hw hnoop g.2.1 g.2.2.1 g.2.2.2
        h.first h.enc h.wf h.lay h.text h.push h.noNum h.canonFix h.fixed⟩)
    (by simpa [List.map_map, Function.comp_def] using hx)
  simpa [List.map_map, Function.comp_def, stageOpts] using this

end Penman.C20gen

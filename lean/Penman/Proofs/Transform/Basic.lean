/-
  Penman.Proofs.Transform.Basic — helper lemmas shared by the transformation
  proofs: `natToStr` injectivity, pigeonhole, fresh variables, association
  lists, `dedup`, `ensureColon`, `Except`-folds.
-/
import Penman.Spec.Transform
namespace Penman

/-! ### `natToStr` -/

theorem natToStr_eq (n : Nat) : natToStr n = Nat.toDigits 10 n := by
  simp [natToStr]

theorem natToStr_inj {a b : Nat} (h : natToStr a = natToStr b) : a = b := by
  rw [natToStr_eq, natToStr_eq] at h
  have := congrArg (fun l => Nat.ofDigitChars 10 l 0) h
  simpa using this

theorem natToStr_ne_nil (n : Nat) : natToStr n ≠ [] := by
  rw [natToStr_eq]; exact Nat.toDigits_ne_nil

/-! ### pigeonhole -/

theorem nodup_subset_length_le {α : Type} [DecidableEq α] :
    ∀ (l vars : List α), l.Nodup → (∀ x ∈ l, x ∈ vars) → l.length ≤ vars.length
  | [], _, _, _ => by simp
  | x :: l, vars, hn, hs => by
    have hx : x ∈ vars := hs x (by simp)
    have hn' := List.nodup_cons.mp hn
    have ih := nodup_subset_length_le l (vars.erase x) hn'.2 (by
      intro y hy
      have hyx : y ≠ x := by rintro rfl; exact hn'.1 hy
      exact (List.mem_erase_of_ne hyx).mpr (hs y (by simp [hy])))
    rw [List.length_erase_of_mem hx] at ih
    have : 0 < vars.length := List.length_pos_of_mem hx
    simp only [List.length_cons]; omega

/-! ### fresh variables -/

/-- the candidate names `_i, _(i+1), …` -/
def uName (i : Nat) : Str := '_' :: natToStr i

theorem uName_inj {a b : Nat} (h : uName a = uName b) : a = b := by
  simp only [uName, List.cons.injEq, true_and] at h; exact natToStr_inj h

theorem uName_ne_underscore (i : Nat) : uName i ≠ ['_'] := by
  simp [uName, natToStr_ne_nil]

theorem freshVarLoop_spec (vars : List Str) : ∀ (f i : Nat),
    ∃ j, i ≤ j ∧ j ≤ i + f ∧ freshVarLoop vars f i = uName j ∧
      (∀ k, i ≤ k → k < j → uName k ∈ vars) ∧ (j < i + f → uName j ∉ vars)
  | 0, i => ⟨i, by omega, by omega, rfl, by intro k h1 h2; omega, by omega⟩
  | f+1, i => by
    by_cases h : uName i ∈ vars
    · obtain ⟨j, h1, h2, h3, h4, h5⟩ := freshVarLoop_spec vars f (i+1)
      refine ⟨j, by omega, by omega, ?_, ?_, ?_⟩
      · have h' : ('_' :: natToStr i) ∈ vars := h
        simp only [freshVarLoop]; rw [if_pos h']; exact h3
      · intro k hk1 hk2
        by_cases hk : k = i
        · subst hk; exact h
        · exact h4 k (by omega) hk2
      · intro hj; exact h5 (by omega)
    · refine ⟨i, by omega, by omega, ?_, by intro k h1 h2; omega, fun _ => h⟩
      have h' : ('_' :: natToStr i) ∉ vars := h
      simp only [freshVarLoop]; rw [if_neg h']; rfl

/-- the names `_i … _(i+n-1)` are pairwise distinct -/
theorem uNames_nodup (i n : Nat) : ((List.range n).map (fun k => uName (i + k))).Nodup := by
  unfold List.Nodup
  rw [List.pairwise_map]
  refine List.Pairwise.imp ?_ (List.nodup_range (n := n))
  intro a b hab h
  have := uName_inj h; omega

theorem freshVarLoop_fresh (vars : List Str) (i : Nat) :
    freshVarLoop vars (vars.length + 1) i ∉ vars := by
  obtain ⟨j, h1, h2, h3, h4, h5⟩ := freshVarLoop_spec vars (vars.length + 1) i
  rw [h3]
  by_cases hj : j < i + (vars.length + 1)
  · exact h5 hj
  · exfalso
    have hj' : j = i + (vars.length + 1) := by omega
    have := nodup_subset_length_le _ vars (uNames_nodup i (vars.length + 1)) (by
      intro x hx
      simp only [List.mem_map, List.mem_range] at hx
      obtain ⟨k, hk, rfl⟩ := hx
      exact h4 (i + k) (by omega) (by omega))
    simp only [List.length_map, List.length_range] at this; omega

/-- `freshVar vars` is not in `vars` (the fuel `vars.length + 1` suffices). -/
theorem freshVar_fresh (vars : List Str) : freshVar vars ∉ vars := by
  unfold freshVar
  split
  · exact freshVarLoop_fresh vars 2
  · assumption

/-- shape of the fresh variable: `_`, or `_N` with `2 ≤ N ≤ |vars| + 2` and all
    smaller candidates taken. -/
theorem freshVar_shape (vars : List Str) :
    (freshVar vars = ['_'] ∧ ['_'] ∉ vars) ∨
    (['_'] ∈ vars ∧ ∃ n, 2 ≤ n ∧ n ≤ vars.length + 2 ∧ freshVar vars = uName n ∧
      ∀ k, 2 ≤ k → k < n → uName k ∈ vars) := by
  unfold freshVar
  split
  · rename_i h
    right
    refine ⟨h, ?_⟩
    obtain ⟨j, h1, h2, h3, h4, h5⟩ := freshVarLoop_spec vars (vars.length + 1) 2
    refine ⟨j, h1, ?_, h3, h4⟩
    by_cases hj : j < 2 + (vars.length + 1)
    · omega
    · exfalso
      have hf := freshVarLoop_fresh vars 2
      have hj' : j = 2 + (vars.length + 1) := by omega
      have := nodup_subset_length_le _ vars (uNames_nodup 2 (vars.length + 1)) (by
        intro x hx
        simp only [List.mem_map, List.mem_range] at hx
        obtain ⟨k, hk, rfl⟩ := hx
        exact h4 (2 + k) (by omega) (by omega))
      simp only [List.length_map, List.length_range] at this; omega
  · left; exact ⟨rfl, by assumption⟩

/-- successive fresh variables are distinct -/
theorem freshVar_succ_ne (vars : List Str) (extra : List Str) :
    freshVar (extra ++ freshVar vars :: vars) ≠ freshVar vars := by
  intro h
  have := freshVar_fresh (extra ++ freshVar vars :: vars)
  rw [h] at this
  simp at this

/-! the shared-counter loop of `reify_attributes` -/

theorem attrVarLoop_spec (vars : List Str) : ∀ (f i : Nat),
    ∃ j, i ≤ j ∧ j ≤ i + f ∧ (attrVarLoop vars f i).1 = uName j ∧
      (j < i + f → uName j ∉ vars ∧ (attrVarLoop vars f i).2 = j + 1) ∧
      (∀ k, i ≤ k → k < j → uName k ∈ vars)
  | 0, i => ⟨i, by omega, by omega, rfl, by omega, by intro k h1 h2; omega⟩
  | f+1, i => by
    by_cases h : uName i ∈ vars
    · obtain ⟨j, h1, h2, h3, h4, h5⟩ := attrVarLoop_spec vars f (i+1)
      have e : attrVarLoop vars (f+1) i = attrVarLoop vars f (i+1) := by
        have h' : ('_' :: natToStr i) ∈ vars := h
        simp only [attrVarLoop]; rw [if_pos h']
      refine ⟨j, by omega, by omega, by rw [e]; exact h3, ?_, ?_⟩
      · intro hj; rw [e]; exact h4 (by omega)
      · intro k hk1 hk2
        by_cases hk : k = i
        · subst hk; exact h
        · exact h5 k (by omega) hk2
    · have e : attrVarLoop vars (f+1) i = (uName i, i+1) := by
        have h' : ('_' :: natToStr i) ∉ vars := h
        simp only [attrVarLoop]; rw [if_neg h']; rfl
      exact ⟨i, by omega, by omega, by rw [e], fun _ => ⟨h, by rw [e]⟩, by intro k h1 h2; omega⟩

theorem attrVarLoop_fresh (vars : List Str) (i : Nat) :
    (attrVarLoop vars (vars.length + 1) i).1 ∉ vars := by
  obtain ⟨j, h1, h2, h3, h4, h5⟩ := attrVarLoop_spec vars (vars.length + 1) i
  rw [h3]
  by_cases hj : j < i + (vars.length + 1)
  · exact (h4 hj).1
  · exfalso
    have := nodup_subset_length_le _ vars (uNames_nodup i (vars.length + 1)) (by
      intro x hx
      simp only [List.mem_map, List.mem_range] at hx
      obtain ⟨k, hk, rfl⟩ := hx
      exact h5 (i + k) (by omega) (by omega))
    simp only [List.length_map, List.length_range] at this; omega

/-! ### association lists -/

namespace AList
variable {α β : Type} [DecidableEq α]

theorem get?_nil (k : α) : get? ([] : AList α β) k = none := rfl

theorem get?_cons (p : α × β) (d : AList α β) (k : α) :
    get? (p :: d) k = if p.1 = k then some p.2 else get? d k := by
  simp only [get?, List.find?_cons]
  by_cases h : p.1 = k <;> simp [h]

theorem get?_set_self (d : AList α β) (k : α) (v : β) : get? (set d k v) k = some v := by
  induction d with
  | nil => simp [set, get?_cons]
  | cons p r ih =>
    obtain ⟨k', v'⟩ := p
    simp only [set]
    by_cases h : k' = k
    · simp [h, get?_cons]
    · simp [h, get?_cons, ih]

theorem get?_set_ne (d : AList α β) {k k' : α} (v : β) (h : k ≠ k') :
    get? (set d k v) k' = get? d k' := by
  induction d with
  | nil => simp [set, get?_cons, h, get?_nil]
  | cons p r ih =>
    obtain ⟨k0, v0⟩ := p
    simp only [set]
    by_cases h0 : k0 = k
    · subst h0; simp [get?_cons, h]
    · simp only [h0, if_false, get?_cons, ih]

theorem erase_cons (p : α × β) (d : AList α β) (k : α) :
    erase (p :: d) k = if p.1 = k then erase d k else p :: erase d k := by
  simp only [erase, List.filter_cons]
  by_cases h : p.1 = k <;> simp [h]

theorem get?_erase_self (d : AList α β) (k : α) : get? (erase d k) k = none := by
  induction d with
  | nil => rfl
  | cons p r ih =>
    rw [erase_cons]
    by_cases h : p.1 = k
    · simp [h, ih]
    · simp [h, get?_cons, ih]

theorem get?_erase_ne (d : AList α β) {k k' : α} (h : k ≠ k') :
    get? (erase d k) k' = get? d k' := by
  induction d with
  | nil => rfl
  | cons p r ih =>
    rw [erase_cons]
    by_cases h0 : p.1 = k
    · have : p.1 ≠ k' := by rw [h0]; exact h
      simp [h0, get?_cons, h, ih]
    · simp [h0, get?_cons, ih]

theorem keys_set (d : AList α β) (k : α) (v : β) :
    keys (set d k v) = if k ∈ keys d then keys d else keys d ++ [k] := by
  induction d with
  | nil => simp [set, keys]
  | cons p r ih =>
    obtain ⟨k0, v0⟩ := p
    simp only [set, keys] at ih ⊢
    by_cases h0 : k0 = k
    · simp [h0]
    · have : ¬ k = k0 := fun e => h0 e.symm
      simp only [h0, if_false, List.map_cons, ih, List.mem_cons, this, false_or]
      by_cases hk : k ∈ List.map (fun x => x.fst) r <;> simp [hk]

theorem mem_keys_set (d : AList α β) (k : α) (v : β) (x : α) :
    x ∈ keys (set d k v) ↔ x ∈ keys d ∨ x = k := by
  rw [keys_set]; split
  · constructor
    · exact Or.inl
    · rintro (h | rfl) <;> assumption
  · simp

theorem nodup_keys_set (d : AList α β) (k : α) (v : β) (h : (keys d).Nodup) :
    (keys (set d k v)).Nodup := by
  rw [keys_set]; split
  · exact h
  · rename_i hk
    rw [List.nodup_append]
    refine ⟨h, by simp, ?_⟩
    intro a ha b hb
    simp only [List.mem_singleton] at hb
    subst hb; rintro rfl; exact hk ha

theorem keys_erase (d : AList α β) (k : α) : keys (erase d k) = (keys d).filter (· ≠ k) := by
  induction d with
  | nil => rfl
  | cons p r ih =>
    rw [erase_cons]
    simp only [keys, List.map_cons, List.filter_cons] at ih ⊢
    by_cases h : p.1 = k <;> simp [h, ih]

theorem nodup_keys_erase (d : AList α β) (k : α) (h : (keys d).Nodup) :
    (keys (erase d k)).Nodup := by
  rw [keys_erase]; exact h.filter _

theorem mem_keys_erase (d : AList α β) (k x : α) :
    x ∈ keys (erase d k) ↔ x ∈ keys d ∧ x ≠ k := by
  rw [keys_erase]; simp

theorem get?_eq_none_iff (d : AList α β) (k : α) : get? d k = none ↔ k ∉ keys d := by
  induction d with
  | nil => simp [get?_nil, keys]
  | cons p r ih =>
    simp only [keys, List.map_cons, List.mem_cons, not_or] at ih ⊢
    rw [get?_cons]
    by_cases h : p.1 = k
    · simp [h]
    · have : ¬ k = p.1 := fun e => h e.symm
      simp [h, ih, this]

theorem mem_of_get? {d : AList α β} {k : α} {v : β} (h : get? d k = some v) : (k, v) ∈ d := by
  induction d with
  | nil => simp [get?_nil] at h
  | cons p r ih =>
    rw [get?_cons] at h
    by_cases h0 : p.1 = k
    · simp only [h0, if_true, Option.some.injEq] at h
      have : p = (k, v) := by rw [← h0, ← h]
      simp [this]
    · simp only [h0, if_false] at h
      exact List.mem_cons_of_mem _ (ih h)

theorem get?_of_mem {d : AList α β} {k : α} {v : β} (hn : (keys d).Nodup) (h : (k, v) ∈ d) :
    get? d k = some v := by
  induction d with
  | nil => simp at h
  | cons p r ih =>
    simp only [keys, List.map_cons, List.nodup_cons] at hn
    rw [get?_cons]
    rcases List.mem_cons.mp h with rfl | h'
    · simp
    · have : p.1 ≠ k := by
        rintro rfl; exact hn.1 (List.mem_map.mpr ⟨_, h', rfl⟩)
      simp only [this, if_false]
      exact ih hn.2 h'

theorem set_of_not_mem_xf (d : AList α β) (k : α) (v : β) (h : k ∉ keys d) :
    set d k v = d ++ [(k, v)] := by
  induction d with
  | nil => rfl
  | cons p r ih =>
    obtain ⟨k0, v0⟩ := p
    simp only [keys, List.map_cons, List.mem_cons, not_or] at h
    have : ¬ k0 = k := fun e => h.1 e.symm
    simp only [set, this, if_false, List.cons_append, List.cons.injEq, true_and]
    exact ih h.2

theorem foldl_set_of_nodup (l acc : AList α β) (h : (keys (acc ++ l)).Nodup) :
    l.foldl (fun d p => d.set p.1 p.2) acc = acc ++ l := by
  induction l generalizing acc with
  | nil => simp
  | cons p r ih =>
    simp only [List.foldl_cons]
    have hp : p.1 ∉ keys acc := by
      intro hm
      simp only [keys, List.map_append, List.map_cons] at h
      rw [List.nodup_append] at h
      exact h.2.2 _ (by simpa [keys] using hm) p.1 (by simp) rfl
    rw [set_of_not_mem_xf _ _ _ hp, ih]
    · simp
    · simpa using h

/-- `dict(pairs)` of pairs with distinct keys is the list itself -/
theorem ofList_of_nodup (l : AList α β) (h : (keys l).Nodup) : ofList l = l := by
  unfold ofList
  rw [foldl_set_of_nodup l [] (by simpa using h)]; rfl

end AList

/-! ### `dedup` -/

theorem mem_dedup {α : Type} [DecidableEq α] (l : List α) (x : α) : x ∈ dedup l ↔ x ∈ l := by
  induction l with
  | nil => simp [dedup]
  | cons y r ih =>
    simp only [dedup, List.mem_cons, List.mem_filter, ih]
    by_cases h : x = y <;> simp [h]

theorem nodup_dedup {α : Type} [DecidableEq α] (l : List α) : (dedup l).Nodup := by
  induction l with
  | nil => simp [dedup]
  | cons y r ih =>
    simp only [dedup, List.nodup_cons, List.mem_filter]
    exact ⟨by simp, ih.filter _⟩

/-! ### graph vocabulary -/

theorem mem_variables (g : Graph) (x : Str) :
    x ∈ g.variables ↔ (∃ t ∈ g.triples, t.src = x) ∨ g.top = some x := by
  unfold Graph.variables
  cases h : g.top with
  | none => simp [mem_dedup]
  | some t =>
    simp only [Option.some.injEq]
    split
    · rename_i ht
      rw [mem_dedup] at ht ⊢
      constructor
      · intro hx; left; simpa using hx
      · rintro (hx | rfl)
        · simpa using hx
        · exact ht
    · simp only [List.mem_append, mem_dedup, List.mem_map, List.mem_singleton]
      constructor
      · rintro (hx | rfl)
        · left; exact hx
        · right; rfl
      · rintro (hx | rfl)
        · left; exact hx
        · right; rfl

theorem nodup_variables (g : Graph) : g.variables.Nodup := by
  unfold Graph.variables
  cases g.top with
  | none => exact nodup_dedup _
  | some t =>
    simp only
    split
    · exact nodup_dedup _
    · rename_i h
      rw [List.nodup_append]
      refine ⟨nodup_dedup _, by simp, ?_⟩
      intro a ha b hb
      simp only [List.mem_singleton] at hb
      subst hb; rintro rfl; exact h ha

theorem src_mem_variables {g : Graph} {t : Triple} (h : t ∈ g.triples) : t.src ∈ g.variables :=
  (mem_variables g t.src).mpr (Or.inl ⟨t, h, rfl⟩)

theorem getTop_mem_variables {g : Graph} {x : Str} (h : g.getTop = some x) : x ∈ g.variables := by
  unfold Graph.getTop at h
  rw [mem_variables]
  cases ht : g.top with
  | some t => rw [ht] at h; simp only [Option.some.injEq] at h; right; rw [h]
  | none =>
    rw [ht] at h
    left
    cases hl : g.triples with
    | nil => rw [hl] at h; simp at h
    | cons t r =>
      rw [hl] at h; simp only [Option.some.injEq] at h
      exact ⟨t, by simp, h⟩

theorem ensureColon_of_colon {r : Str} (h : startsWith [':'] r = true) : ensureColon r = r := by
  simp [ensureColon, h]

theorem ensureColon_colon (r : Str) : startsWith [':'] (ensureColon r) = true := by
  unfold ensureColon
  split
  · assumption
  · simp [startsWith]

theorem ensureColon_idem (r : Str) : ensureColon (ensureColon r) = ensureColon r :=
  ensureColon_of_colon (ensureColon_colon r)

theorem ensureColon_concept : ensureColon CONCEPT_ROLE = CONCEPT_ROLE := by decide

theorem mk'_triples_of_colon (ts : List Triple) (top ep md)
    (h : ∀ t ∈ ts, startsWith [':'] t.role = true) : (Graph.mk' ts top ep md).triples = ts := by
  simp only [Graph.mk']
  conv => rhs; rw [← List.map_id ts]
  apply List.map_congr_left
  intro t ht
  rw [ensureColon_of_colon (h t ht)]; rfl

theorem mk'_rolesColon (ts : List Triple) (top ep md) : RolesColon (Graph.mk' ts top ep md) := by
  intro t ht
  simp only [Graph.mk', List.mem_map] at ht
  obtain ⟨t', _, rfl⟩ := ht
  exact ensureColon_colon _

/-- `getTop` of a rebuilt graph whose explicit top is the old `getTop` -/
theorem mk'_getTop (g : Graph) (ts : List Triple) (ep md)
    (h : g.triples = [] → ts = []) : (Graph.mk' ts g.getTop ep md).getTop = g.getTop := by
  simp only [Graph.getTop, Graph.mk']
  cases ht : g.top with
  | some t => rfl
  | none =>
    cases hl : g.triples with
    | nil => simp [h hl]
    | cons t r => rfl

/-! ### folds in `Except` -/

theorem foldlM_except_inv {σ α ε : Type} (f : σ → α → Except ε σ) (P : List α → σ → Prop) :
    ∀ (l pre : List α) (s s' : σ), P pre s →
      (∀ pre x s s', P pre s → x ∈ l → f s x = .ok s' → P (pre ++ [x]) s') →
      l.foldlM f s = .ok s' → P (pre ++ l) s'
  | [], pre, s, s', h0, _, h => by
    simp only [List.foldlM, pure, Except.pure, Except.ok.injEq] at h
    subst h; simpa using h0
  | x :: l, pre, s, s', h0, hstep, h => by
    simp only [List.foldlM, bind, Except.bind] at h
    cases hx : f s x with
    | error e => rw [hx] at h; simp at h
    | ok s1 =>
      rw [hx] at h
      have := foldlM_except_inv f P l (pre ++ [x]) s1 s' (hstep pre x s s1 h0 (by simp) hx)
        (fun pre y s s' hp hy hf => hstep pre y s s' hp (by simp [hy]) hf) h
      simpa using this

end Penman

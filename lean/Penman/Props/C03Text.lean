import Penman.Proofs.EncodeDecode
import Penman.Props.C03
import Penman.Generated
/-!
# C03 / C06 at the level of TEXT — `decode(encode(g, top))` gives `g` back, for every top and marker history

`encode m g top indent compact = format (configure m g top) indent compact` and
`decode cfg isSpace isAlpha m s = interpret (parse s) m` (Python: `penman/codec.py`,
`PENMANCodec.encode` / `decode`).  This file composes the finished developments
* C03 / C06 (`Props/C03.lean`, `Props/C06.lean`, `Proofs/Configure1…18.lean`): `configure`, `interpret`;
* C01 (`Props/C01.lean`): `format`, `parse`;
with three new pieces (`Proofs/EncodeDecodeA/B/C.lean`, glued in `Proofs/EncodeDecode.lean`):
A. `parse (format T) = writtenForm T` for trees WITH numbers (`C03Text.parse_format_num`);
B. the configured tree of a character-level well-formed graph is grammar-valid
   (`Cfg.encoded_tree_wf`, through a new store invariant "node labels first", `Cfg.storeOf_sq`);
C. `interpret` of the written form of the configured tree (`Cfg.decode_written`: the last step of C03
   redone on `writtenForm T`, so that numbers are covered).
Vocabulary: `Penman/Spec/EncodeText.lean` (`writtenAtom`, `writtenForm`, `writtenTriple`,
`GraphTextOK`, `NumNotVar`, `OfOK`), `Spec/Encode.lean`, `Spec/Configure.lean`, `Spec/TextWf.lean`.

Clause of the property text ↦ theorem(s)

* C03 *"Any graph survives encode then decode with its content intact, from any top"* ↦ `C03_text`
  (for EVERY variable `t` of a connected graph, every indentation and compactness setting, any layout
  markers satisfying the decidable side conditions; numbers allowed): same top, same variables (hence
  same edge/attribute status, `C03_edge_status`), same triples as multisets after one de-inversion —
  constants *compared by their written form* (`writtenTriple`: the number `0` comes back as the
  string `0`; this is inherent, `decode` has no numbers) —, same metadata (keys, values, order).
  `C03_text_generated` is the instance at the generated lexer tables; `C03_text_noNum`: without numbers
  the comparison is literally the one of C03.
* *"Every triple is expressed exactly once …"* ↦ the permutation (a multiset equality) and the 6th
  clause of `C03_text` (every decoded triple is the written form of an input triple or its inversion).
* the text half on its own ↦ `C03_text_tree_wf` (= `configured_tree_wf`: whenever `configure`
  succeeds, `writtenForm T` is `WfTreeText` and the metadata `WfMeta`), `C03_text_parse`
  (`parse (format T i c) = writtenForm T`), `C03_text_format` (`format T = format (writtenForm T)`
  literally, when `compact = false` or no number is spelled like a variable — see the finding below).
* C06 *"Whatever layout markers a graph carries … decodes to the same graph; encoding fails, and
  then only with the layout error, exactly when some variable is not reachable from the top or the
  top is not a variable; no other exception for any list of triples"* ↦ `C06_text` (quantified over
  ALL epidata `e` put on the graph, subject to the decidable conditions `NoAlign`, `PushVars`,
  `PushSrcOK` on `{g with epidata := e}`: success clause = the conclusion of `C03_text`, against the
  SAME `g` whatever `e` is; error clause `↔`; "a text or a LayoutError, nothing else"),
  `encode_ne_other` (no hypothesis at all: any triples, top, model, markers).

Hypotheses (all decidable except connectivity)
* `FmtCfgWf cfg = true` (C01; holds for the generated tables: `C01.fmt_cfg_wf`).
* `ModelWf m`, `m.noop = false`, `WfGraph m g`, `PushVars`, `PushSrcOK`, `Reach`: as in C03 / C06.
* `GraphTextOK cfg isSpace m g` (new): sources are SYMBOL texts; non-instance roles and their
  inversions are ROLE texts (`C03_text_roles_auto` / `roleB_invertRole`: the inversion is automatic when `-of` consists of
  role characters, `OfOK cfg`, true of the generated tables); targets are missing, SYMBOL / STRING
  texts, or numbers whose text is a SYMBOL text; **no variable has two node labels**; metadata `WfMeta`.

FINDINGS
1. (needed hypothesis, real behaviour) A graph with two node labels for one variable, e.g.
   `[(a, :instance, x), (a, :instance, y)]`, satisfies every hypothesis of C03 (tree level: `configure`
   then `interpret` gives it back), but is ENCODED to `(a / y / x)`, which `decode` REJECTS (the
   grammar allows `/` only directly after the variable): `two_labels_encode`, `two_labels_decode_fails`.
   Hence `GraphTextOK.oneLabel`.
2. (the task's `format T = format (writtenForm T)` is false in general) With `compact = true` the
   formatter breaks the attribute line at the first target that is a variable; a NUMBER spelled like a
   variable (`:q 0` next to a node `(0 / y)`) is not a variable for `format T` but is one for
   `format (writtenForm T)`: the two texts differ in whitespace (`compact_number_differs`). The round
   trip is not affected: `parse_format_num` is proved on the token level for every option;
   `C03_text_format` gives the literal equality under `compact = false ∨ NumNotVar g`.
Nothing is left unproved.
-/
namespace Penman.C03Text
open Penman Penman.Spec Penman.Cfg

/-- **C03, text level.** Encoding a well-formed connected graph from any of its variables, with any
    indentation and compactness, and decoding the text gives a graph with the same top, the same
    variables, the same triples (as a multiset, constants by their written form, after one
    de-inversion) and the same metadata. -/
theorem C03_text {cfg : LexCfg} (hcfg : FmtCfgWf cfg = true) (isSpace isAlpha : Char → Bool) {m : Model}
    {g : Graph} {top : Option Str} {t : Str} (hw : ModelWf m) (hnoop : m.noop = false) (hg : WfGraph m g)
    (htx : GraphTextOK cfg isSpace m g) (hpv : PushVars g) (hps : PushSrcOK g) (ht : topOf g top = some t)
    (htv : t ∈ g.variables) (hreach : ∀ v ∈ g.variables, Reach g t v) (i : Indent) (c : Bool) :
    ∃ s g', encode m g top i c = .ok s ∧ decode cfg isSpace isAlpha m s = .ok g' ∧
      g'.getTop = some t ∧ (∀ x, x ∈ g'.variables ↔ x ∈ g.variables) ∧
      (g'.triples.map (deinvert1 m g)).Perm ((g.triples.map writtenTriple).map (deinvert1 m g)) ∧
      (∀ x ∈ g'.triples, ∃ t0 ∈ g.triples, x = writtenTriple t0 ∨ x = m.invert (writtenTriple t0)) ∧
      g'.metadata = g.metadata :=
  encode_decode_text hcfg isSpace isAlpha hw hnoop hg htx hpv hps ht htv hreach i c

/-- `C03_text` at the generated lexer tables -/
theorem C03_text_generated (isSpace isAlpha : Char → Bool) {m : Model}
    {g : Graph} {top : Option Str} {t : Str} (hw : ModelWf m) (hnoop : m.noop = false) (hg : WfGraph m g)
    (htx : GraphTextOK Generated.lexCfg isSpace m g) (hpv : PushVars g) (hps : PushSrcOK g)
    (ht : topOf g top = some t) (htv : t ∈ g.variables) (hreach : ∀ v ∈ g.variables, Reach g t v)
    (i : Indent) (c : Bool) :
    ∃ s g', encode m g top i c = .ok s ∧ decode Generated.lexCfg isSpace isAlpha m s = .ok g' ∧
      g'.getTop = some t ∧ (∀ x, x ∈ g'.variables ↔ x ∈ g.variables) ∧
      (g'.triples.map (deinvert1 m g)).Perm ((g.triples.map writtenTriple).map (deinvert1 m g)) ∧
      g'.metadata = g.metadata := by
  obtain ⟨s, g', h1, h2, h3, h4, h5, _, h7⟩ :=
    C03_text C01.fmt_cfg_wf isSpace isAlpha hw hnoop hg htx hpv hps ht htv hreach i c
  exact ⟨s, g', h1, h2, h3, h4, h5, h7⟩

/-- a graph without numbers is compared as it is -/
theorem writtenTriple_of_noNum {g : Graph} (h : NoNum g) : g.triples.map writtenTriple = g.triples := by
  conv => rhs; rw [← List.map_id g.triples]
  exact List.map_congr_left (fun x hx => written_of_notNum (h x hx))

/-- for a graph without numbers the comparison is the one of C03 -/
theorem C03_text_noNum {cfg : LexCfg} (hcfg : FmtCfgWf cfg = true) (isSpace isAlpha : Char → Bool) {m : Model}
    {g : Graph} {top : Option Str} {t : Str} (hw : ModelWf m) (hnoop : m.noop = false) (hg : WfGraph m g)
    (htx : GraphTextOK cfg isSpace m g) (hnum : NoNum g) (hpv : PushVars g) (hps : PushSrcOK g)
    (ht : topOf g top = some t) (htv : t ∈ g.variables) (hreach : ∀ v ∈ g.variables, Reach g t v)
    (i : Indent) (c : Bool) :
    ∃ s g', encode m g top i c = .ok s ∧ decode cfg isSpace isAlpha m s = .ok g' ∧
      g'.getTop = some t ∧ (∀ x, x ∈ g'.variables ↔ x ∈ g.variables) ∧
      (g'.triples.map (deinvert1 m g)).Perm (g.triples.map (deinvert1 m g)) ∧
      g'.metadata = g.metadata := by
  obtain ⟨s, g', h1, h2, h3, h4, h5, _, h7⟩ :=
    C03_text hcfg isSpace isAlpha hw hnoop hg htx hpv hps ht htv hreach i c
  rw [writtenTriple_of_noNum hnum] at h5
  exact ⟨s, g', h1, h2, h3, h4, h5, h7⟩

/-- when `-of` consists of role characters (`OfOK`, true of the generated tables) the second half of
    `GraphTextOK.roles` is automatic -/
theorem C03_text_roles_auto {cfg : LexCfg} (hof : OfOK cfg = true) (m : Model) (g : Graph)
    (h : ∀ t ∈ g.triples, t.role ≠ CONCEPT_ROLE → roleB cfg t.role = true) :
    ∀ t ∈ g.triples, t.role ≠ CONCEPT_ROLE →
      roleB cfg t.role = true ∧ roleB cfg (m.invertRole t.role) = true :=
  fun t ht hr => ⟨h t ht hr, roleB_invertRole hof m (h t ht hr)⟩

/-- **the configured tree is grammar-valid** (whenever `configure` succeeds) -/
theorem C03_text_tree_wf {cfg : LexCfg} {isSpace : Char → Bool} {m : Model} {g : Graph} {top : Option Str}
    {T : Tree} (hw : ModelWf m) (hg : WfGraph m g) (htx : GraphTextOK cfg isSpace m g) (hpv : PushVars g)
    (h : configure m g top = .ok T) :
    WfTreeText cfg (writtenForm T.node) ∧ WfMeta isSpace T.metadata :=
  configured_tree_wf hw hg htx hpv h

/-- **the text parses back to the written form of the configured tree**, under every option -/
theorem C03_text_parse {cfg : LexCfg} (hcfg : FmtCfgWf cfg = true) (isSpace : Char → Bool) {m : Model}
    {g : Graph} {top : Option Str} {T : Tree} (hw : ModelWf m) (hg : WfGraph m g)
    (htx : GraphTextOK cfg isSpace m g) (hpv : PushVars g) (h : configure m g top = .ok T)
    (i : Indent) (c : Bool) :
    encode m g top i c = .ok (format T i c) ∧
    C01.parse cfg isSpace (format T i c) = .ok ⟨writtenForm T.node, T.metadata⟩ :=
  encode_parse_text hcfg isSpace hw hg htx hpv h i c

/-- `format T = format (writtenForm T)` literally, when `compact` is off or no number is spelled like a
    variable (otherwise the two texts may differ in whitespace: `compact_number_differs`) -/
theorem C03_text_format {cfg : LexCfg} {isSpace : Char → Bool} {m : Model} {g : Graph} {top : Option Str}
    {T : Tree} (hw : ModelWf m) (hg : WfGraph m g) (htx : GraphTextOK cfg isSpace m g) (hpv : PushVars g)
    (h : configure m g top = .ok T) (i : Indent) (c : Bool) (hc : c = false ∨ NumNotVar g) :
    format ⟨writtenForm T.node, T.metadata⟩ i c = format T i c := by
  obtain ⟨t, st, l, _, _, E⟩ := encoded_of_ok hw hg hpv h
  have hr2 : ∀ x ∈ g.triples, RoleOK2 m x := fun x hx => roleOK2_of_colon m x (hg.roles x hx).1
  obtain ⟨_, hvars, _, _, _⟩ := storeOf_tree hr2 E.store E.build
  have htt := storeOf_tree_triples hr2 hg.noAlign E.store E.build
  apply format_written_eq
  apply numsOKN_of_triples
  intro x hx s hs
  obtain ⟨t0, ht0, hv⟩ := E.version x (E.perm.symm.subset (htt.subset hx))
  have hx0 : x = t0 := by
    rcases hv with hv | ⟨hv, _, _⟩
    · exact hv
    · rw [hv, invert_tgt] at hs; cases hs
  subst hx0
  have hsym := htx.tgts x ht0
  rw [hs] at hsym
  refine ⟨((FL.symbolB_iff s).1 hsym).1.1, ?_⟩
  rcases hc with rfl | hc
  · simp
  · have := hc x ht0
    rw [hs] at this
    simp only [numNotIn, Bool.not_eq_true', List.contains_eq_mem, decide_eq_false_iff_not] at this
    split
    · intro hm; exact this ((E.keys s).1 (hvars.subset hm))
    · simp

/-- no exception other than a LayoutError (or leaving the modelled domain: `Push(source)` on a
    non-string target) escapes `encode`, for any triples, top, model and markers -/
theorem encode_ne_other (m : Model) (g : Graph) (top : Option Str) (i : Indent) (c : Bool) (s : String) :
    encode m g top i c ≠ .error (.other s) := by
  rw [Ne, encode_error_iff]
  exact configure_ne_other m g top s

/-- **C06, text level.** Fix the content of a graph (triples, top, metadata). For EVERY assignment
    `e` of layout markers to its triples (no alignments; `Push` only of variables; `Push(source)` only
    towards a string):
    * if the top is a variable and every variable is reachable from it, encoding succeeds and the
      text decodes to the same content — the conclusion does not mention `e`;
    * encoding fails with a LayoutError exactly when that condition fails;
    * it yields a text or a LayoutError, nothing else. -/
theorem C06_text {cfg : LexCfg} (hcfg : FmtCfgWf cfg = true) (isSpace isAlpha : Char → Bool) {m : Model}
    {g : Graph} {top : Option Str} {t : Str} (hw : ModelWf m) (hnoop : m.noop = false) (hg : WfGraph m g)
    (htx : GraphTextOK cfg isSpace m g) (ht : topOf g top = some t) (htop : TopOK g t)
    (i : Indent) (c : Bool) :
    ∀ e : Epidata, NoAlign { g with epidata := e } → PushVars { g with epidata := e } →
      PushSrcOK { g with epidata := e } →
      ((t ∈ g.variables ∧ ∀ v ∈ g.variables, Reach g t v) →
        ∃ s g', encode m { g with epidata := e } top i c = .ok s ∧
          decode cfg isSpace isAlpha m s = .ok g' ∧
          g'.getTop = some t ∧ (∀ x, x ∈ g'.variables ↔ x ∈ g.variables) ∧
          (g'.triples.map (deinvert1 m g)).Perm ((g.triples.map writtenTriple).map (deinvert1 m g)) ∧
          g'.metadata = g.metadata) ∧
      ((∃ k, encode m { g with epidata := e } top i c = .error (.layout k)) ↔
        ¬ (t ∈ g.variables ∧ ∀ v ∈ g.variables, Reach g t v)) ∧
      ((∃ s, encode m { g with epidata := e } top i c = .ok s) ∨
        (∃ k, encode m { g with epidata := e } top i c = .error (.layout k))) := by
  intro e hna hpv hps
  have hge := wfGraph_epidata hg hna
  have htxe := graphTextOK_epidata htx e
  have hiff := configure_error_iff (m := m) (g := { g with epidata := e }) (top := top) (t := t)
    hge.noInstOf hps hpv hge.nonempty ht htop
  have hok := configure_ok_iff (m := m) (g := { g with epidata := e }) (top := top) (t := t)
    hge.noInstOf hps hpv hge.nonempty ht htop
  have hcond : (t ∈ ({ g with epidata := e } : Graph).variables ∧
      ∀ v ∈ ({ g with epidata := e } : Graph).variables, Reach { g with epidata := e } t v) ↔
      (t ∈ g.variables ∧ ∀ v ∈ g.variables, Reach g t v) :=
    ⟨fun ⟨a, b⟩ => ⟨a, fun v hv => (reach_epidata e).1 (b v hv)⟩,
     fun ⟨a, b⟩ => ⟨a, fun v hv => (reach_epidata e).2 (b v hv)⟩⟩
  refine ⟨?_, ?_, ?_⟩
  · rintro ⟨htv, hreach⟩
    obtain ⟨s, g', h1, h2, h3, h4, h5, _, h7⟩ := C03_text hcfg isSpace isAlpha (g := { g with epidata := e })
      (top := top) (t := t) hw hnoop hge htxe hpv hps ht htv
      (fun v hv => (reach_epidata e).2 (hreach v hv)) i c
    exact ⟨s, g', h1, h2, h3, h4, h5, h7⟩
  · rw [← hcond, ← hiff]
    constructor
    · rintro ⟨k, hk⟩; exact ⟨k, (encode_error_iff _).1 hk⟩
    · rintro ⟨k, hk⟩; exact ⟨k, (encode_error_iff _).2 hk⟩
  · by_cases hc : t ∈ g.variables ∧ ∀ v ∈ g.variables, Reach g t v
    · left
      exact encode_ok_iff.2 (hok.2 (hcond.2 hc))
    · right
      obtain ⟨k, hk⟩ := hiff.2 (fun h => hc (hcond.1 h))
      exact ⟨k, (encode_error_iff _).2 hk⟩

/-! ## non-vacuity -/

namespace Examples

def T (s r : String) (t : Atom) : Triple := ⟨s.toList, r.toList, t⟩
def S (s : String) : Atom := .str s.toList
def isSp (c : Char) : Bool := Generated.spaceChars.contains c

/-- `(b / bark-01 :ARG0 (d / dog :quant 0 :name "a b" :ARG1-of b) :mod-of 7)`, its triples
    shuffled (so the implicit top is `d`): a re-entrancy, an inverted edge, an inverted attribute,
    a string with a space, the number `0`; metadata; stale layout markers (a `Push(b)` on a triple
    whose source is `b`, surplus `POP`s). -/
def gx : Graph :=
  { triples := [T "d" ":quant" (.num "0".toList), T "b" ":instance" (S "bark-01"),
                T "d" ":ARG1-of" (S "b"), T "d" ":instance" (S "dog"), T "b" ":ARG0" (S "d"),
                T "d" ":name" (S "\"a b\""), T "b" ":mod-of" (S "7")],
    epidata := [(T "b" ":ARG0" (S "d"), [.push "b".toList, .pop]),
                (T "d" ":instance" (S "dog"), [.pop, .push "d".toList, .pop])],
    metadata := [("id".toList, "1".toList), ("snt".toList, "a b".toList)] }

example : ModelWf Generated.defaultModel := C13.modelWf_default
example : Generated.defaultModel.noop = false := by decide
example : OfOK Generated.lexCfg = true := by decide
example : WfGraph Generated.defaultModel gx := by decide
example : WfGraph Generated.amrModel gx := by decide +kernel
example : GraphTextOK Generated.lexCfg isSp Generated.defaultModel gx := by decide
example : GraphTextOK Generated.lexCfg isSp Generated.amrModel gx := by decide +kernel
example : PushVars gx ∧ PushSrcOK gx ∧ NumNotVar gx := by decide
example : gx.variables = ["d".toList, "b".toList] ∧ gx.getTop = some "d".toList := by decide
example : ¬ NoNum gx := by decide

theorem gx_conn (t : Str) (ht : t ∈ gx.variables) : ∀ v ∈ gx.variables, Reach gx t v := by
  have hv : gx.variables = ["d".toList, "b".toList] := by decide
  have a1 : Adj gx "b".toList "d".toList :=
    ⟨T "b" ":ARG0" (S "d"), by decide, by decide, by decide, by decide, Or.inl ⟨rfl, rfl⟩⟩
  have a2 : Adj gx "d".toList "b".toList :=
    ⟨T "b" ":ARG0" (S "d"), by decide, by decide, by decide, by decide, Or.inr ⟨rfl, rfl⟩⟩
  intro v hvm
  rw [hv] at ht hvm
  simp only [List.mem_cons, List.mem_nil_iff, or_false] at ht hvm
  rcases ht with rfl | rfl <;> rcases hvm with rfl | rfl
  · exact Reach.refl
  · exact Reach.step Reach.refl a2
  · exact Reach.step Reach.refl a1
  · exact Reach.refl

/-- `C03_text` applies to `gx` from both tops, every indentation, both compactness settings -/
example (t : Str) (ht : t ∈ gx.variables) (i : Indent) (c : Bool) :
    ∃ s g', encode Generated.defaultModel gx (some t) i c = .ok s ∧
      decode Generated.lexCfg isSp isAsciiAlpha Generated.defaultModel s = .ok g' ∧ g'.getTop = some t ∧
      (g'.triples.map (deinvert1 Generated.defaultModel gx)).Perm
        ((gx.triples.map writtenTriple).map (deinvert1 Generated.defaultModel gx)) ∧
      g'.metadata = gx.metadata := by
  obtain ⟨s, g', h1, h2, h3, _, h5, h6⟩ := C03_text_generated isSp isAsciiAlpha (top := some t)
    C13.modelWf_default (by decide) (by decide) (by decide) (by decide) (by decide) rfl ht (gx_conn t ht) i c
  exact ⟨s, g', h1, h2, h3, h5, h6⟩

/-- … and under the AMR model -/
example (t : Str) (ht : t ∈ gx.variables) (i : Indent) (c : Bool) :
    ∃ s g', encode Generated.amrModel gx (some t) i c = .ok s ∧
      decode Generated.lexCfg isSp isAsciiAlpha Generated.amrModel s = .ok g' ∧ g'.getTop = some t := by
  obtain ⟨s, g', h1, h2, h3, _⟩ := C03_text_generated isSp isAsciiAlpha (top := some t)
    C13.modelWf_amr (by decide) (by decide +kernel) (by decide +kernel) (by decide) (by decide) rfl ht
    (gx_conn t ht) i c
  exact ⟨s, g', h1, h2, h3⟩

/-- the error side of `C06_text` is inhabited: two unconnected nodes, a top that is no variable -/
def gdis : Graph := { triples := [T "a" ":instance" (S "x"), T "b" ":instance" (S "y")] }
example : (encode Generated.defaultModel gdis none none false).toOption = none := by decide +kernel
example : C06Examples.errOf (encode Generated.defaultModel gdis none none false) = some (.layout 1) := by
  decide +kernel
example : C06Examples.errOf (encode Generated.defaultModel gdis (some "q".toList) none false) = some (.layout 0) := by
  decide +kernel

/-- `C06_text` applies to `gx` with ANY admissible marker assignment (here: from the top `b`) -/
example (e : Epidata) (h1 : NoAlign { gx with epidata := e }) (h2 : PushVars { gx with epidata := e })
    (h3 : PushSrcOK { gx with epidata := e }) (i : Indent) (c : Bool) :
    ∃ s g', encode Generated.defaultModel { gx with epidata := e } (some "b".toList) i c = .ok s ∧
      decode Generated.lexCfg isSp isAsciiAlpha Generated.defaultModel s = .ok g' ∧
      (g'.triples.map (deinvert1 Generated.defaultModel gx)).Perm
        ((gx.triples.map writtenTriple).map (deinvert1 Generated.defaultModel gx)) := by
  obtain ⟨hs, _, _⟩ := C06_text C01.fmt_cfg_wf isSp isAsciiAlpha (g := gx) (top := some "b".toList)
    (t := "b".toList) C13.modelWf_default (by decide) (by decide) (by decide) rfl (by decide) i c e h1 h2 h3
  obtain ⟨s, g', a1, a2, _, _, a5, _⟩ := hs ⟨by decide, gx_conn _ (by decide)⟩
  exact ⟨s, g', a1, a2, a5⟩

/-! ### through the real functions -/

def E (r : String) (t : ETgt) : Edge := ⟨r.toList, t, []⟩

/-- the tree of `gx` from its implicit top `d` -/
def gxNode : Node :=
  .mk (some "d".toList) (.atom "/".toList (S "dog") (.atom ":quant".toList (.num "0".toList)
    (.atom ":ARG1-of".toList (S "b") (.sub ":ARG0-of".toList
      (.mk (some "b".toList) (.atom "/".toList (S "bark-01") (.atom ":mod-of".toList (S "7") .nil)))
      (.atom ":name".toList (S "\"a b\"") .nil)))))

theorem gx_configure : configure Generated.defaultModel gx none = .ok ⟨gxNode, gx.metadata⟩ :=
  configure_of_store (t := "d".toList) (by decide) rfl (by decide)
    (cells := [("d".toList, [E "/" (.atom (S "dog")), E ":quant" (.atom (.num "0".toList)),
                  E ":ARG1-of" (.atom (S "b")), E ":ARG0-of" (.node "b".toList), E ":name" (.atom (S "\"a b\""))]),
               ("b".toList, [E "/" (.atom (S "bark-01")), E ":mod-of" (.atom (S "7"))])])
    (by decide +kernel)
    (by simp [buildNode, buildBranches, AList.get?, applyEpis, bind, Except.bind, pure, Except.pure, E, gxNode, S])

/-- its text (adaptive indentation) … -/
def gxText : Str :=
  "# ::id 1\n# ::snt a b\n(d / dog\n   :quant 0\n   :ARG1-of b\n   :ARG0-of (b / bark-01\n               :mod-of 7)\n   :name \"a b\")".toList

theorem gx_encode : encode Generated.defaultModel gx none (some (-1)) false = .ok gxText :=
  encode_of_configure gx_configure (by decide +kernel)

/-- … and what it decodes to: `0` and `7` are strings, both inverted edges are de-inverted, the
    inverted attribute `:mod-of 7` stays as written -/
example : (decode Generated.lexCfg isSp isAsciiAlpha Generated.defaultModel gxText).toOption.map
      (fun g => (g.triples, g.top, g.metadata)) =
    some ([T "d" ":instance" (S "dog"), T "d" ":quant" (S "0"), T "b" ":ARG1" (S "d"), T "b" ":ARG0" (S "d"),
           T "b" ":instance" (S "bark-01"), T "b" ":mod-of" (S "7"), T "d" ":name" (S "\"a b\"")],
          some "d".toList, gx.metadata) := by decide +kernel

/-! ### FINDING 1: two node labels for one variable are encoded to text that is not decodable -/

def g2l : Graph := { triples := [T "a" ":instance" (S "x"), T "a" ":instance" (S "y")] }

example : WfGraph Generated.defaultModel g2l ∧ NoNum g2l ∧ PushVars g2l ∧ PushSrcOK g2l := by decide
/-- … so the tree-level round trip C03 holds for it … -/
example : ∃ T g', configure Generated.defaultModel g2l none = .ok T ∧
    interpret isAsciiAlpha Generated.defaultModel T = .ok g' ∧ g'.getTop = some "a".toList := by
  obtain ⟨T, g', h1, h2, h3, _⟩ := C03 isAsciiAlpha (g := g2l) (top := none) (t := "a".toList)
    C13.modelWf_default (by decide) (by decide) (by decide) (by decide) (by decide) rfl (by decide)
    (by
      intro v hv
      have : g2l.variables = ["a".toList] := by decide
      rw [this] at hv; simp only [List.mem_singleton] at hv; subst hv; exact Reach.refl)
  exact ⟨T, g', h1, h2, h3⟩
/-- … but its text is `(a / y / x)` … -/
theorem two_labels_configure : configure Generated.defaultModel g2l none =
    .ok ⟨.mk (some "a".toList) (.atom "/".toList (S "y") (.atom "/".toList (S "x") .nil)), []⟩ :=
  configure_of_store (t := "a".toList) (by decide) rfl (by decide)
    (cells := [("a".toList, [E "/" (.atom (S "y")), E "/" (.atom (S "x"))])]) (by decide +kernel)
    (by simp [buildNode, buildBranches, AList.get?, applyEpis, bind, Except.bind, pure, Except.pure, E, S])
theorem two_labels_encode : encode Generated.defaultModel g2l none none false = .ok "(a / y / x)".toList :=
  encode_of_configure two_labels_configure (by decide)
/-- … which is not in the grammar (`/` only directly after the variable): DecodeError "expected ROLE" -/
theorem two_labels_decode_fails :
    C06Examples.errOf (decode Generated.lexCfg isSp isAsciiAlpha Generated.defaultModel "(a / y / x)".toList) =
      some (.decode 1 7 1) := by decide +kernel
/-- the hypothesis that excludes it -/
example : ¬ GraphTextOK Generated.lexCfg isSp Generated.defaultModel g2l := by decide

/-! ### FINDING 2: `format T` and `format (writtenForm T)` may differ in whitespace under `compact` -/

/-- the number `0` next to a node whose variable is spelled `0` -/
def gnv : Graph :=
  { triples := [T "a" ":instance" (S "x"), T "a" ":q" (.num "0".toList), T "a" ":r" (S "0"),
                T "0" ":instance" (S "y")] }

example : WfGraph Generated.defaultModel gnv ∧ GraphTextOK Generated.lexCfg isSp Generated.defaultModel gnv ∧
    PushVars gnv ∧ PushSrcOK gnv ∧ ¬ NumNotVar gnv := by decide

def gnvNode : Node :=
  .mk (some "a".toList) (.atom "/".toList (S "x") (.atom ":q".toList (.num "0".toList)
    (.sub ":r".toList (.mk (some "0".toList) (.atom "/".toList (S "y") .nil)) .nil)))

theorem gnv_configure : configure Generated.defaultModel gnv none = .ok ⟨gnvNode, []⟩ :=
  configure_of_store (t := "a".toList) (by decide) rfl (by decide)
    (cells := [("a".toList, [E "/" (.atom (S "x")), E ":q" (.atom (.num "0".toList)), E ":r" (.node "0".toList)]),
               ("0".toList, [E "/" (.atom (S "y"))])]) (by decide +kernel)
    (by simp [buildNode, buildBranches, AList.get?, applyEpis, bind, Except.bind, pure, Except.pure, E, gnvNode, S])

theorem compact_number_differs :
    encode Generated.defaultModel gnv none (some (-1)) true = .ok "(a / x :q 0\n   :r (0 / y))".toList ∧
    format ⟨writtenForm gnvNode, []⟩ (some (-1)) true = "(a / x\n   :q 0\n   :r (0 / y))".toList :=
  ⟨encode_of_configure gnv_configure (by decide), by decide⟩

/-- the round trip holds all the same (`C03_text` has no `NumNotVar` hypothesis) -/
example (i : Indent) (c : Bool) :
    ∃ s g', encode Generated.defaultModel gnv none i c = .ok s ∧
      decode Generated.lexCfg isSp isAsciiAlpha Generated.defaultModel s = .ok g' ∧
      (g'.triples.map (deinvert1 Generated.defaultModel gnv)).Perm
        ((gnv.triples.map writtenTriple).map (deinvert1 Generated.defaultModel gnv)) := by
  have hv : gnv.variables = ["a".toList, "0".toList] := by decide
  obtain ⟨s, g', h1, h2, _, _, h5, _⟩ := C03_text_generated isSp isAsciiAlpha (g := gnv) (top := none)
    (t := "a".toList) C13.modelWf_default (by decide) (by decide) (by decide) (by decide) (by decide) rfl
    (by decide) (by
      intro v hvm
      rw [hv] at hvm
      simp only [List.mem_cons, List.mem_nil_iff, or_false] at hvm
      rcases hvm with rfl | rfl
      · exact Reach.refl
      · exact Reach.step Reach.refl
          ⟨T "a" ":r" (S "0"), by decide, by decide, by decide, by decide, Or.inl ⟨rfl, rfl⟩⟩) i c
  exact ⟨s, g', h1, h2, h5⟩

/-! ### the other hypotheses of `GraphTextOK` exclude something -/

/-- a variable with a space, a role with a space, a target that is neither SYMBOL nor STRING,
    a line feed in a string, metadata with a key containing a space -/
example : ¬ GraphTextOK Generated.lexCfg isSp Generated.defaultModel { triples := [T "a b" ":instance" (S "x")] } := by
  decide
example : ¬ GraphTextOK Generated.lexCfg isSp Generated.defaultModel
    { triples := [T "a" ":instance" (S "x"), T "a" ":r s" (S "y")] } := by decide
example : ¬ GraphTextOK Generated.lexCfg isSp Generated.defaultModel
    { triples := [T "a" ":instance" (S "x"), T "a" ":r" (S "y z")] } := by decide
example : ¬ GraphTextOK Generated.lexCfg isSp Generated.defaultModel
    { triples := [T "a" ":instance" (S "x"), T "a" ":r" (S "\"y\nz\"")] } := by decide
example : ¬ GraphTextOK Generated.lexCfg isSp Generated.defaultModel
    { triples := [T "a" ":instance" (S "x")], metadata := [("i d".toList, "1".toList)] } := by decide

end Examples

end Penman.C03Text

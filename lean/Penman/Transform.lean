/-
  Penman.Transform — `penman.transform`: canonicalize_roles, reify_edges,
  dereify_edges, reify_attributes, indicate_branches; `Model.errors`/`_dfs`.
-/
import Penman.Layout
namespace Penman

/-! ### canonicalize_roles -/

mutual
/-- `_canonicalize_node` -/
def canonNode (m : Model) : Node → Except PyErr Node
  | .mk v bs => do pure (.mk v (← canonBranches m bs))
def canonBranches (m : Model) : Branches → Except PyErr Branches
  | .nil => pure .nil
  | .atom role a rest => do
    let r ← canonRoleText m role
    pure (.atom r a (← canonBranches m rest))
  | .sub role n rest => do
    let r ← canonRoleText m role
    let n' ← canonNode m n
    pure (.sub r n' (← canonBranches m rest))
where
  canonRoleText (m : Model) (role : Str) : Except PyErr Str :=
    let p := partitionStr ['~'] role
    match m.canonRole p.1 with
    | some r => .ok (r ++ (if p.2.1 then ['~'] else []) ++ p.2.2)
    | none => .error (.unmodelled "canonicalize_role does not terminate")
end

def canonicalizeRoles (m : Model) (t : Tree) : Except PyErr Tree := do
  pure { t with node := ← canonNode m t.node }

/-! ### marker migration -/

/-- `_reified_markers` : `(push, pops, role_epis, other_epis)` (last Push wins) -/
def reifiedMarkers (epis : List Epi) : Option Epi × List Epi × List Epi × List Epi :=
  ( (epis.filter (·.isPush)).getLast?,
    epis.filter (·.isPop),
    epis.filter (fun e => !e.isPush && !e.isPop && e.mode = 1),
    epis.filter (fun e => !e.isPush && !e.isPop && e.mode ≠ 1) )

/-- `_edge_markers` : `(node_epis, out_epis)` -/
def edgeMarkers (epis : List Epi) : List Epi × List Epi :=
  let (push, pops, roleEpis, otherEpis) := reifiedMarkers epis
  let nodeEpis := roleEpis.filterMap fun | .roleAln p i => some (Epi.aln p i) | _ => none
  (nodeEpis, otherEpis ++ (match push with | some p => [p] | none => []) ++ pops)

/-- `_attr_markers` : `(role_epis, node_epis)` -/
def attrMarkers (epis : List Epi) : List Epi × List Epi :=
  let (_, pops, roleEpis, otherEpis) := reifiedMarkers epis
  (roleEpis, otherEpis ++ pops)

/-! ### reify_edges -/

structure RState where
  vars : List Str
  epidata : Epidata
  triples : List Triple   -- reversed

/-- `reify_edges(g, model)` (after fixes F9, F12) -/
def reifyEdges (m : Model) (g : Graph) : Except PyErr Graph := do
  let step (st : RState) (t : Triple) : Except PyErr RState :=
    if m.isReifiable t.role then do
      let (inT, nodeT, outT) ← m.reify t st.vars
      let inv ← appearsInverted g t
      let (inT, outT) := if inv then (outT, inT) else (inT, outT)
      let var := nodeT.src
      let ep := st.epidata.set inT [.push var]
      let old := (AList.get? ep t).getD []
      let ep := ep.erase t
      let (nodeEpis, outEpis) := edgeMarkers old
      let ep := (ep.set nodeT nodeEpis).set outT outEpis
      pure { vars := var :: st.vars, epidata := ep, triples := outT :: nodeT :: inT :: st.triples }
    else pure { st with triples := t :: st.triples }
  let st ← g.triples.foldlM step { vars := g.variables, epidata := g.epidata, triples := [] }
  pure (Graph.mk' st.triples.reverse g.getTop st.epidata g.metadata)

/-! ### dereify_edges -/

structure Agenda where
  var : Str
  first : Triple
  dereified : Triple
  epidata : List Epi

/-- the first loop of `_dereify_agenda` : `(fixed, inst, other)` -/
def agendaScan (g : Graph) : List Atom × AList Str Triple × AList Str (List Triple) :=
  g.triples.foldl (fun (acc : List Atom × AList Str Triple × AList Str (List Triple)) t =>
    let (fixed, inst, other) := acc
    if t.role = CONCEPT_ROLE then (fixed, inst.set t.src t, other)
    else (t.tgt :: fixed, inst, other.set t.src ((AList.get? other t.src).getD [] ++ [t])))
    ((match g.getTop with | some t => [Atom.str t] | none => [Atom.none]), [], [])

/-- `_dereify_agenda(g, model)` -/
def dereifyAgenda (m : Model) (g : Graph) : Except PyErr (List Agenda) := do
  let alns := getAlignments g false
  let (fixed, inst, other) := agendaScan g
  let step (acc : List Agenda) (p : Str × Triple) : Except PyErr (List Agenda) :=
    let (var, inst0) := p
    match (AList.get? other var).getD [] with
    | [a, b] =>
      if Atom.str var ∉ fixed ∧ m.isDereifiable inst0.tgt then
        let (tFirst, tSecond) := if getPushedVariable g b = some var then (b, a) else (a, b)
        match m.dereify inst0 tFirst tSecond with
        | .error .model => pure acc
        | .error e => throw e
        | .ok (src, role, tgt) =>
          match src with
          | .str s =>
            -- fix F20: `if dereified[0] not in variables: continue`
            if s ∈ g.variables then
              let e1 : List Epi := match AList.get? alns inst0 with
                | some (.aln p i) => [.roleAln p i]
                | _ => []
              let e2 := ((AList.get? g.epidata tSecond).getD []).filter fun | .roleAln _ _ => false | _ => true
              pure (acc ++ [⟨var, tFirst, ⟨s, role, tgt⟩, e1 ++ e2⟩])
            else pure acc
          | _ => pure acc     -- a non-string source is never a variable
      else pure acc
    | _ => pure acc
  inst.foldlM step []

/-- `dereify_edges(g, model)` (after fixes F9, F12) -/
def dereifyEdges (m : Model) (g : Graph) : Except PyErr Graph := do
  let agenda ← dereifyAgenda m g
  let step (acc : List Triple × Epidata) (t : Triple) : List Triple × Epidata :=
    let (ts, ep) := acc
    match agenda.find? (·.var = t.src) with
    | some ag =>
      let (ts, ep) := if t = ag.first then (ag.dereified :: ts, ep.set ag.dereified ag.epidata) else (ts, ep)
      (ts, ep.erase t)
    | none => (t :: ts, ep)
  let (ts, ep) := g.triples.foldl step ([], g.epidata)
  pure (Graph.mk' ts.reverse g.getTop ep g.metadata)

/-! ### reify_attributes -/

/-- the `while var in variables` loop with the shared counter `i` -/
def attrVarLoop (vars : List Str) : Nat → Nat → Str × Nat
  | 0, i => ('_' :: natToStr i, i)
  | f+1, i => let v := '_' :: natToStr i; if v ∈ vars then attrVarLoop vars f (i+1) else (v, i+1)

/-- `reify_attributes(g)` -/
def reifyAttributes (g : Graph) : Graph :=
  let vars0 := g.variables
  let step (acc : List Str × Nat × Epidata × List Triple) (t : Triple) :=
    let (vars, i, ep, ts) := acc
    if t.role ≠ CONCEPT_ROLE ∧ !atomInVars vars t.tgt then
      let (var, i') := if ['_'] ∈ vars then attrVarLoop vars (vars.length + 1) i else (['_'], i)
      let roleT : Triple := ⟨t.src, t.role, .str var⟩
      let nodeT : Triple := ⟨var, CONCEPT_ROLE, t.tgt⟩
      let old := (AList.get? ep t).getD []
      let ep := ep.erase t
      let (roleEpis, nodeEpis) := attrMarkers old
      let ep := (ep.set roleT (roleEpis ++ [.push var])).set nodeT (nodeEpis ++ [.pop])
      (var :: vars, i', ep, nodeT :: roleT :: ts)
    else (vars, i, ep, t :: ts)
  let (_, _, ep, ts) := g.triples.foldl step (vars0, 2, g.epidata, [])
  Graph.mk' ts.reverse g.getTop ep g.metadata

/-! ### indicate_branches -/

/-- `indicate_branches(g, model)` -/
def indicateBranches (m : Model) (g : Graph) : Except PyErr Graph := do
  let step (acc : List Triple) (t : Triple) : Except PyErr (List Triple) :=
    match ((AList.get? g.epidata t).getD []).findSome? (fun | .push v => some v | _ => none) with
    | some pv =>
      if Atom.str pv = t.tgt then pure (t :: ⟨t.src, m.topRole, t.tgt⟩ :: acc)
      else if pv = t.src then
        match t.tgt with
        | .str s => pure (t :: ⟨s, m.topRole, .str t.src⟩ :: acc)
        | _ => throw (.other "AssertionError")
      else pure (t :: acc)
    | none => pure (t :: acc)
  let ts ← g.triples.foldlM step []
  pure (Graph.mk' ts.reverse g.getTop g.epidata g.metadata)

/-! ### Model.errors -/

/-- undirected neighbours used by `_dfs` (after fix F16: inst0 triples are
    not edges): targets of non-inst0 triples of `v` that are sources, and
    sources of such triples targeting `v`. -/
def neighbours (g : Graph) (srcs : List Str) (v : Str) : List Str :=
  g.triples.filterMap fun t =>
    if t.role = CONCEPT_ROLE then none
    else match t.tgt with
      | .str s =>
        if t.src = v ∧ s ∈ srcs then some s
        else if s = v ∧ t.src ∈ srcs then some t.src   -- `target in g` holds: v ∈ srcs
        else none
      | _ => none

/-- `_dfs(g, top)` : the visited set, by worklist with fuel -/
def dfsLoop (g : Graph) (srcs : List Str) : Nat → List Str → List Str → List Str
  | 0, _, visited => visited
  | _+1, [], visited => visited
  | f+1, cur :: agenda, visited =>
    if cur ∈ visited then dfsLoop g srcs f agenda visited
    else dfsLoop g srcs f ((neighbours g srcs cur).filter (· ∉ cur :: visited) ++ agenda) (cur :: visited)

def reachable (g : Graph) (top : Str) : List Str :=
  let srcs := dedup (g.triples.map (·.src))
  dfsLoop g srcs (g.triples.length * g.triples.length + g.triples.length + 2) [top] []

/-- sort strings like Python's `sorted` (code-point order) -/
def sortStrs (l : List Str) : List Str := l.mergeSort fun a b => !strLt b a

/-- `Model.errors(graph)` as an association list in dict insertion order;
    key `none` = general graph errors. Messages: 0 invalid role,
    1 unreachable, 2 graph is empty, 3 top is not set, 4 top is not a variable. -/
def Model.errors (m : Model) (g : Graph) : AList (Option Triple) (List Nat) :=
  let add (d : AList (Option Triple) (List Nat)) (k : Option Triple) (msg : Nat) :=
    d.set k ((AList.get? d k).getD [] ++ [msg])
  if g.triples.isEmpty then [(none, [2])]
  else
    let d1 := g.triples.foldl (fun d t => if m.hasRole t.role then d else add d (some t) 0) []
    let srcs := dedup (g.triples.map (·.src))
    match g.getTop with
    | none => add d1 none 3
    | some top =>
      if top.isEmpty then add d1 none 3
      else if top ∉ srcs then add d1 none 4
      else
        let reach := reachable g top
        let unreach := sortStrs (srcs.filter (· ∉ reach))
        unreach.foldl (fun d u => (g.triples.filter (·.src = u)).foldl (fun d t => add d (some t) 1) d) d1

end Penman

/-
  Penman.Props.C15 — "Graph queries partition the triples; graph set operations
  are set algebra" for the model of `penman/graph.py` in `Penman/Graph.lean`.

  All theorems hold for EVERY `Graph` value (no well-formedness hypothesis), with one
  exception that is forced and stated explicitly:

  * `EpiDict h` (= the keys of `h.epidata` are duplicate-free) is needed for the
    marker statement in the form "`h`'s entry wins" (`union_markers`,
    `union_markers_added`).  The model stores the Python `dict` `epidata` as an
    association list; a list with a repeated key is not the image of any `dict`.
    `dict.update` lets the LAST entry win while a lookup finds the FIRST, so for a
    non-dict list the statement is false (`union_markers_needs_dict`, by `decide`).
    The unconditional form is `union_markers_general` (last entry of `h` wins).
    `EpiDict` is decidable, holds for every graph built by `Graph.mk'`
    (`epiDict_mk'`) and is preserved by all four operators (`epiDict_preserved`).

  Map from the clauses of the property text to theorems
  ------------------------------------------------------
  "instances, edges and attributes partition the triples (each triple in exactly
   one, original order kept)"          → `partition` (filters by three pairwise
                                          exclusive, jointly exhaustive classes;
                                          sublists; lengths and per-triple
                                          occurrence counts add up; membership in
                                          exactly one)
  "edges are exactly the non-instance triples whose target is a variable"
                                        → `edges_char`, `edges_char'`,
                                          `attributes_char`, `instances_char`,
                                          `mem_variables`, `variables_nodup`
  "filters select sub-lists"            → `filters_sublist`
  "the implicit top is the first triple's source"
                                        → `implicit_top`, `explicit_top`
  "assigning a top that is not a variable is refused"
                                        → `setTop_refuses`, `setTop_accepts`,
                                          `setTop_none`
  "re-entrancy counts equal in-degree (plus one for the top) minus one"
                                        → `reentrancies_spec`
  "Union ... order-preserving set operations on triples that carry each added
   triple's markers along"              → `union_triples`, `union_mem`,
                                          `union_markers_general`, `union_markers`,
                                          `union_markers_added`, `union_top_metadata`
  "difference"                          → `difference_triples`, `difference_markers`
  "drop an explicit top once it no longer occurs in any remaining triple"
                                        → `difference_top`
  "leave operands untouched (except in-place forms)"
                                        → `operands_untouched` (+ remark there: the
                                          model is purely functional, so this is by
                                          construction)
  set algebra, all finite operation sequences
                                        → `or_idem`, `or_sub_cancel`, `or_comm_mem`,
                                          `or_assoc`, `sub_or_mem`, `sub_sub`,
                                          `ops_mem` (general, by induction over the
                                          sequence), `ops_triples` (order-preserving
                                          list form), `ops_nodup`, `eqv_equivalence`
  `Graph.__init__`                      → `mk'_facts`

  Every theorem is followed by `example`s on the nine-triple graph `exG`
  (`(w / want-01 :ARG0 (b / boy :quant 2) :ARG1 (g / go-02 :ARG0 b :polarity - :time 10))`,
  re-entrancy on `b`) and a second graph `exH`.
-/
import Penman.Proofs.GraphLemmas
namespace Penman.C15
open Penman

/-! ## the concrete graphs used in the non-vacuity examples -/

private def s (x : String) : Str := x.toList
def tI (v c : String) : Triple := ⟨s v, s ":instance", .str (s c)⟩
def tE (v r w : String) : Triple := ⟨s v, s r, .str (s w)⟩
def tN (v r n : String) : Triple := ⟨s v, s r, .num (s n)⟩

/-- nine triples; the role of the second one is given without its colon -/
def exTriples : List Triple :=
  [tI "w" "want-01", tE "w" "ARG0" "b", tI "b" "boy", tE "w" ":ARG1" "g", tI "g" "go-02",
   tE "g" ":ARG0" "b", tE "g" ":polarity" "-", tN "g" ":time" "10", tN "b" ":quant" "2"]

/-- the graph, built through `Graph.__init__`; the epidata list has a repeated key -/
def exG : Graph :=
  Graph.mk' exTriples none
    [(tE "w" ":ARG0" "b", [.push (s "b")]), (tN "b" ":quant" "2", []),
     (tN "b" ":quant" "2", [.pop])]
    [(s "snt", s "The boy wants to go.")]

/-- a second operand: shares one triple with `exG`, adds two, has markers for all three -/
def exH : Graph :=
  Graph.mk' [tE "g" ":ARG0" "b", tE "b" ":mod" "y", tI "y" "young"] (some (s "b"))
    [(tE "g" ":ARG0" "b", [.aln none [3]]), (tE "b" ":mod" "y", [.push (s "y")]),
     (tI "y" "young", [.pop])]
    [(s "id", s "2")]

/-! ## partition -/

/-- `instances`, `edges`, `attributes` are the filters of `g.triples` by three classes
    (`isInstT`, `g.isEdgeT`, `g.isAttrT`) of which exactly one holds for every triple;
    hence each is a sublist (order kept), lengths and per-triple occurrence counts add
    up, and every triple of the graph is in exactly one of the three lists. -/
theorem partition (g : Graph) :
    (g.triples.filter isInstT = g.instances ∧ g.triples.filter g.isEdgeT = g.edges ∧
      g.triples.filter g.isAttrT = g.attributes) ∧
    (∀ t, (isInstT t = true ∧ g.isEdgeT t = false ∧ g.isAttrT t = false) ∨
          (isInstT t = false ∧ g.isEdgeT t = true ∧ g.isAttrT t = false) ∨
          (isInstT t = false ∧ g.isEdgeT t = false ∧ g.isAttrT t = true)) ∧
    (g.instances.Sublist g.triples ∧ g.edges.Sublist g.triples ∧
      g.attributes.Sublist g.triples) ∧
    g.triples.length = g.instances.length + g.edges.length + g.attributes.length ∧
    (∀ t, g.triples.count t = g.instances.count t + g.edges.count t + g.attributes.count t) ∧
    (∀ t ∈ g.triples,
      (t ∈ g.instances ∧ t ∉ g.edges ∧ t ∉ g.attributes) ∨
      (t ∉ g.instances ∧ t ∈ g.edges ∧ t ∉ g.attributes) ∨
      (t ∉ g.instances ∧ t ∉ g.edges ∧ t ∈ g.attributes)) := by
  refine ⟨⟨(instances_eq_filter g).symm, (edges_eq_filter g).symm,
      (attributes_eq_filter g).symm⟩, class_exclusive_exhaustive g, ?_, ?_, ?_, ?_⟩
  · rw [instances_eq_filter, edges_eq_filter, attributes_eq_filter]
    exact ⟨List.filter_sublist, List.filter_sublist, List.filter_sublist⟩
  · rw [instances_eq_filter, edges_eq_filter, attributes_eq_filter]
    exact length_partition g g.triples
  · intro t
    rw [instances_eq_filter, edges_eq_filter, attributes_eq_filter]
    exact count_partition g g.triples t
  · intro t ht
    rw [instances_eq_filter, edges_eq_filter, attributes_eq_filter]
    simp only [List.mem_filter, ht, true_and]
    rcases class_exclusive_exhaustive g t with h | h | h <;> simp [h.1, h.2.1, h.2.2]

example : exG.triples.length = 9 ∧
    exG.instances = [tI "w" "want-01", tI "b" "boy", tI "g" "go-02"] ∧
    exG.edges = [tE "w" ":ARG0" "b", tE "w" ":ARG1" "g", tE "g" ":ARG0" "b"] ∧
    exG.attributes = [tE "g" ":polarity" "-", tN "g" ":time" "10", tN "b" ":quant" "2"] := by
  decide

/-! ## characterisations -/

theorem instances_char (g : Graph) (t : Triple) :
    t ∈ g.instances ↔ t ∈ g.triples ∧ t.role = CONCEPT_ROLE := by
  simp [instances_eq_filter, isInstT]

theorem edges_char (g : Graph) (t : Triple) :
    t ∈ g.edges ↔ t ∈ g.triples ∧ t.role ≠ CONCEPT_ROLE ∧ g.isVar t.tgt = true := by
  simp [edges_eq_filter, Graph.isEdgeT]

theorem attributes_char (g : Graph) (t : Triple) :
    t ∈ g.attributes ↔ t ∈ g.triples ∧ t.role ≠ CONCEPT_ROLE ∧ g.isVar t.tgt = false := by
  simp [attributes_eq_filter, Graph.isAttrT]

/-- a variable is a source of some triple, or the explicit top -/
theorem mem_variables (g : Graph) (v : Str) :
    v ∈ g.variables ↔ (∃ t ∈ g.triples, t.src = v) ∨ g.top = some v :=
  Penman.mem_variables g v

theorem variables_nodup (g : Graph) : g.variables.Nodup := Penman.variables_nodup g

/-- `edges_char` with "is a variable" spelled out -/
theorem edges_char' (g : Graph) (t : Triple) :
    t ∈ g.edges ↔ t ∈ g.triples ∧ t.role ≠ CONCEPT_ROLE ∧
      ∃ v, t.tgt = .str v ∧ ((∃ u ∈ g.triples, u.src = v) ∨ g.top = some v) := by
  rw [edges_char, isVar_iff]
  simp only [Penman.mem_variables]

example : tE "g" ":ARG0" "b" ∈ exG.edges ∧ tE "g" ":polarity" "-" ∉ exG.edges ∧
    exG.variables = [s "w", s "b", s "g"] ∧
    ({ exG with top := some (s "zz") }).variables = [s "w", s "b", s "g", s "zz"] := by
  decide

/-! ## filters -/

/-- `edges(source, role, target)` / `attributes(...)` / `_filter_triples(...)` select, in
    order, exactly the entries matching the pattern (`none` = wildcard). -/
theorem filters_sublist (g : Graph) (src role : Option Str) (tgt : Option Atom) :
    (g.edges src role tgt = g.edges.filter (matchT src role tgt) ∧
      (g.edges src role tgt).Sublist g.edges ∧
      ∀ x, x ∈ g.edges src role tgt ↔ x ∈ g.edges ∧
        (∀ a, src = some a → a = x.src) ∧ (∀ r, role = some r → r = x.role) ∧
        (∀ a, tgt = some a → a = x.tgt)) ∧
    (g.attributes src role tgt = g.attributes.filter (matchT src role tgt) ∧
      (g.attributes src role tgt).Sublist g.attributes ∧
      ∀ x, x ∈ g.attributes src role tgt ↔ x ∈ g.attributes ∧
        (∀ a, src = some a → a = x.src) ∧ (∀ r, role = some r → r = x.role) ∧
        (∀ a, tgt = some a → a = x.tgt)) ∧
    (g.filterTriples src role tgt = g.triples.filter (matchT src role tgt) ∧
      (g.filterTriples src role tgt).Sublist g.triples) := by
  refine ⟨⟨edges_filtered g _ _ _, ?_, ?_⟩, ⟨attributes_filtered g _ _ _, ?_, ?_⟩,
    filterTriples_eq g _ _ _, ?_⟩
  · rw [edges_filtered]; exact List.filter_sublist
  · intro x; rw [edges_filtered, List.mem_filter, matchT_iff]
  · rw [attributes_filtered]; exact List.filter_sublist
  · intro x; rw [attributes_filtered, List.mem_filter, matchT_iff]
  · rw [filterTriples_eq]; exact List.filter_sublist

example : exG.edges none none (some (.str (s "b"))) = [tE "w" ":ARG0" "b", tE "g" ":ARG0" "b"] ∧
    exG.edges (some (s "w")) none none = [tE "w" ":ARG0" "b", tE "w" ":ARG1" "g"] ∧
    exG.attributes (some (s "g")) (some (s ":time")) none = [tN "g" ":time" "10"] := by
  decide

/-! ## top -/

theorem implicit_top (g : Graph) (h : g.top = none) :
    g.getTop = g.triples.head?.map (·.src) := getTop_of_top_none h

theorem explicit_top (g : Graph) (t : Str) (h : g.top = some t) : g.getTop = some t :=
  getTop_of_top_some h

example : exG.top = none ∧ exG.getTop = some (s "w") ∧ exH.getTop = some (s "b") ∧
    (Graph.mk' [] none [] []).getTop = none := by decide

theorem setTop_refuses (g : Graph) (t : Str) (h : t ∉ g.variables) :
    g.setTop (some t) = .error .graph := by
  simp [Graph.setTop, h]

theorem setTop_accepts (g : Graph) (t : Str) (h : t ∈ g.variables) :
    g.setTop (some t) = .ok { g with top := some t } ∧
    ({ g with top := some t } : Graph).getTop = some t := by
  simp [Graph.setTop, h, Graph.getTop]

theorem setTop_none (g : Graph) : g.setTop none = .ok { g with top := none } := rfl

example : exG.setTop (some (s "boy")) = .error .graph :=
  setTop_refuses exG _ (by decide)
example : exG.setTop (some (s "g")) = .ok { exG with top := some (s "g") } :=
  (setTop_accepts exG _ (by decide)).1

/-! ## re-entrancies -/

/-- With `count v := (number of edges whose target is v) + (1 if v is the top)`
    (`Graph.reentCount`): `v` is listed iff `count v ≥ 2`, its value is `count v − 1`,
    and no key is listed twice. -/
theorem reentrancies_spec (g : Graph) :
    (∀ v, g.reentCount v =
        g.edges.countP (fun t => t.tgt = Atom.str v) + (if g.getTop = some v then 1 else 0)) ∧
    (∀ v, AList.get? g.reentrancies v =
        if 2 ≤ g.reentCount v then some (g.reentCount v - 1) else none) ∧
    (∀ v n, AList.get? g.reentrancies v = some n ↔ g.reentCount v = n + 1 ∧ 1 ≤ n) ∧
    (∀ v n, (v, n) ∈ g.reentrancies ↔ 2 ≤ g.reentCount v ∧ n = g.reentCount v - 1) ∧
    (AList.keys g.reentrancies).Nodup := by
  refine ⟨fun _ => rfl, reentrancies_get? g, ?_, mem_reentrancies g, reentrancies_keys_nodup g⟩
  intro v n
  rw [reentrancies_get?]
  by_cases h : 2 ≤ g.reentCount v
  · simp only [h, if_true, Option.some.injEq]; omega
  · simp only [h, if_false]
    constructor
    · intro h'; cases h'
    · intro h'; omega

example : exG.reentrancies = [(s "b", 1)] ∧ exG.reentCount (s "b") = 2 ∧
    exG.reentCount (s "w") = 1 ∧ exG.reentCount (s "g") = 1 ∧
    ({ exG with top := some (s "b") }).reentrancies = [(s "b", 2)] := by
  decide

/-! ## union -/

/-- the `epidata` association list is the image of a Python `dict` -/
def EpiDict (g : Graph) : Prop := (AList.keys g.epidata).Nodup
instance (g : Graph) : Decidable (EpiDict g) := by unfold EpiDict; infer_instance

theorem union_triples (g h : Graph) :
    (g.ior h).triples = g.triples ++ h.triples.filter (fun t => t ∉ g.triples) ∧
    (g.or h).triples = g.triples ++ h.triples.filter (fun t => t ∉ g.triples) :=
  ⟨rfl, rfl⟩

theorem union_mem (g h : Graph) (t : Triple) :
    (t ∈ (g.ior h).triples ↔ t ∈ g.triples ∨ t ∈ h.triples) ∧
    (t ∈ (g.or h).triples ↔ t ∈ g.triples ∨ t ∈ h.triples) ∧
    g.triples.Sublist (g.or h).triples ∧
    (g.triples.Nodup → h.triples.Nodup → (g.or h).triples.Nodup) := by
  refine ⟨mem_ior_triples g h t, mem_or_triples g h t, ?_, ?_⟩
  · rw [or_triples, ior_triples]; exact List.sublist_append_left _ _
  · intro hg hh; exact ior_triples_nodup hg hh

/-- markers after a union, no hypothesis: the LAST entry of `h.epidata` for the triple,
    else `g`'s entry -/
theorem union_markers_general (g h : Graph) (t : Triple) :
    AList.get? (g.ior h).epidata t =
      (AList.get? h.epidata.reverse t).or (AList.get? g.epidata t) ∧
    (g.or h).epidata = (g.ior h).epidata ∧
    (t ∈ AList.keys (g.ior h).epidata ↔ t ∈ AList.keys g.epidata ∨ t ∈ AList.keys h.epidata) :=
  ⟨ior_epidata_get? g h t, rfl, mem_keys_ior_epidata g h t⟩

/-- markers after a union when `h.epidata` is a dict: `h`'s entry, else `g`'s -/
theorem union_markers (g h : Graph) (hh : EpiDict h) (t : Triple) :
    AList.get? (g.ior h).epidata t = (AList.get? h.epidata t).or (AList.get? g.epidata t) ∧
    AList.get? (g.or h).epidata t = (AList.get? h.epidata t).or (AList.get? g.epidata t) :=
  ⟨ior_epidata_get?_of_nodup g hh t, ior_epidata_get?_of_nodup g hh t⟩

/-- every triple for which `h` has markers — in particular every triple added from `h` —
    carries `h`'s markers along (no "is added" hypothesis is needed: `dict.update` also
    overwrites the markers of triples the operands share) -/
theorem union_markers_added (g h : Graph) (hh : EpiDict h) (t : Triple) (e : List Epi)
    (he : AList.get? h.epidata t = some e) :
    AList.get? (g.ior h).epidata t = some e ∧ AList.get? (g.or h).epidata t = some e := by
  have := union_markers g h hh t
  simp only [he, Option.some_or] at this
  exact this

/-- `EpiDict` cannot be dropped from `union_markers`: with a repeated key, `dict.update`
    semantics (last wins) and lookup (first found) disagree. -/
theorem union_markers_needs_dict :
    ∃ g h t, AList.get? (Graph.ior g h).epidata t ≠
      (AList.get? h.epidata t).or (AList.get? g.epidata t) :=
  ⟨{}, { triples := [tI "a" "x"], epidata := [(tI "a" "x", [.pop]), (tI "a" "x", [])] },
    tI "a" "x", by decide⟩

theorem union_top_metadata (g h : Graph) :
    (g.ior h).top = g.top ∧ (g.ior h).metadata = g.metadata ∧
    (g.or h).top = g.top ∧ (g.or h).metadata = [] ∧
    (g.ior h).getTop = g.getTop.or (h.triples.head?.map (·.src)) :=
  ⟨rfl, rfl, rfl, rfl, ior_getTop g h⟩

theorem epiDict_mk' (ts : List Triple) (top : Option Str) (e : List (Triple × List Epi))
    (m : List (Str × Str)) : EpiDict (Graph.mk' ts top e m) :=
  AList.nodup_keys_ofList e

theorem epiDict_preserved (g h : Graph) (hg : EpiDict g) :
    EpiDict (g.ior h) ∧ EpiDict (g.or h) ∧ EpiDict (g.isub h) ∧ EpiDict (g.sub h) :=
  ⟨ior_epidata_keys_nodup hg h, ior_epidata_keys_nodup (g := { g with metadata := [] }) hg h,
   isub_epidata_keys_nodup hg h, isub_epidata_keys_nodup (g := { g with metadata := [] }) hg h⟩

example : EpiDict exG ∧ EpiDict exH ∧
    (exG.or exH).triples = exG.triples ++ [tE "b" ":mod" "y", tI "y" "young"] ∧
    (exG.or exH).triples.length = 11 ∧
    AList.get? (exG.or exH).epidata (tE "b" ":mod" "y") = some [.push (s "y")] ∧
    AList.get? (exG.or exH).epidata (tE "g" ":ARG0" "b") = some [.aln none [3]] ∧
    AList.get? (exG.or exH).epidata (tE "w" ":ARG0" "b") = some [.push (s "b")] ∧
    (exG.or exH).metadata = [] ∧ (exG.ior exH).metadata = exG.metadata ∧
    (exG.or exH).getTop = some (s "w") := by
  decide

/-- an added triple (`b :mod y`) keeps its `Push(y)`; instantiates the hypotheses -/
example : (tE "b" ":mod" "y" ∈ exH.triples ∧ tE "b" ":mod" "y" ∉ exG.triples) ∧
    AList.get? (exG.ior exH).epidata (tE "b" ":mod" "y") = some [.push (s "y")] :=
  ⟨by decide, (union_markers_added exG exH (by decide) _ _ (by decide)).1⟩

example : EpiDict ((exG.or exH).sub exK) :=
  (epiDict_preserved _ exK (epiDict_preserved exG exH (epiDict_mk' _ _ _ _)).2.1).2.2.2

/-! ## difference -/

theorem difference_triples (g h : Graph) (t : Triple) :
    (g.isub h).triples = g.triples.filter (fun t => t ∉ h.triples) ∧
    (g.sub h).triples = g.triples.filter (fun t => t ∉ h.triples) ∧
    (t ∈ (g.sub h).triples ↔ t ∈ g.triples ∧ t ∉ h.triples) ∧
    (g.sub h).triples.Sublist g.triples ∧
    (g.isub h).metadata = g.metadata ∧ (g.sub h).metadata = [] :=
  ⟨rfl, rfl, mem_sub_triples g h t, List.filter_sublist, rfl, rfl⟩

/-- marker entries are removed exactly for the triples of `h` -/
theorem difference_markers (g h : Graph) (t : Triple) :
    (g.isub h).epidata = g.epidata.filter (fun p => p.1 ∉ h.triples) ∧
    (g.sub h).epidata = (g.isub h).epidata ∧
    AList.get? (g.isub h).epidata t = (if t ∈ h.triples then none else AList.get? g.epidata t) ∧
    AList.keys (g.isub h).epidata = (AList.keys g.epidata).filter (fun t => t ∉ h.triples) :=
  ⟨rfl, rfl, isub_epidata_get? g h t, isub_epidata_keys g h⟩

/-- the explicit top survives iff it still occurs as a source or a (string) target of a
    remaining triple; an implicit top stays implicit -/
theorem difference_top (g h : Graph) :
    (g.isub h).top = g.top.filter (fun v => decide (occursIn v (g.isub h).triples)) ∧
    (g.sub h).top = (g.isub h).top ∧
    (∀ v, (g.isub h).top = some v ↔
      g.top = some v ∧ ∃ t ∈ g.triples, t ∉ h.triples ∧ (t.src = v ∨ t.tgt = Atom.str v)) ∧
    ((g.isub h).top = none ↔
      g.top = none ∨ ∃ v, g.top = some v ∧
        ∀ t ∈ g.triples, t ∉ h.triples → t.src ≠ v ∧ t.tgt ≠ Atom.str v) := by
  refine ⟨isub_top g h, rfl, ?_, ?_⟩
  · intro v
    rw [isub_top, Option.filter_eq_some_iff, decide_eq_true_eq]
    apply and_congr_right'
    unfold occursIn
    constructor
    · rintro ⟨t, ht, h3⟩
      rw [mem_isub_triples] at ht
      exact ⟨t, ht.1, ht.2, h3⟩
    · rintro ⟨t, h1, h2, h3⟩
      exact ⟨t, (mem_isub_triples _ _ _).2 ⟨h1, h2⟩, h3⟩
  · rw [isub_top, Option.filter_eq_none_iff]
    cases g.top with
    | none => simp
    | some w =>
      simp only [Option.some.injEq, reduceCtorEq, false_or, exists_eq_left', decide_eq_true_eq,
        forall_eq']
      unfold occursIn
      constructor
      · intro hw t h1 h2
        have ht := (mem_isub_triples g h t).2 ⟨h1, h2⟩
        exact ⟨fun e => hw ⟨t, ht, Or.inl e⟩, fun e => hw ⟨t, ht, Or.inr e⟩⟩
      · rintro hw ⟨t, ht, h3⟩
        rw [mem_isub_triples] at ht
        rcases h3 with h3 | h3
        · exact (hw t ht.1 ht.2).1 h3
        · exact (hw t ht.1 ht.2).2 h3

/-- `exK` removes everything that mentions `g`; `exG2` is `exG` with explicit top `g` -/
def exK : Graph := { triples := exG.triples.filter (fun t => t.src = s "g" || t.tgt = .str (s "g")) }
def exG2 : Graph := { exG with top := some (s "g") }

example : (exG.sub exH).triples.length = 8 ∧ tE "g" ":ARG0" "b" ∉ (exG.sub exH).triples ∧
    (exG2.sub exK).triples =
      [tI "w" "want-01", tE "w" ":ARG0" "b", tI "b" "boy", tN "b" ":quant" "2"] ∧
    (exG2.sub exK).top = none ∧ (exG2.sub exK).getTop = some (s "w") ∧
    (exG2.sub exH).top = some (s "g") ∧
    AList.keys (exG.sub (exG)).epidata = [] ∧
    AList.keys ((exG.or exH).sub exG).epidata = [tE "b" ":mod" "y", tI "y" "young"] := by
  decide

/-! ## operands untouched -/

/-- `g | h` is `g |= h` run on a copy of `g` whose metadata is cleared, likewise `-`.
    Remark: the model is purely functional — `Graph.or g h` returns a new value and `g`, `h`
    are immutable Lean values, so "operands are left untouched" holds by construction;
    the in-place forms `ior`/`isub` return the new state of `self` (the `Graph` that the
    Python name is rebound to), and `h` is never changed by any of the four. -/
theorem operands_untouched (g h : Graph) :
    g.or h = Graph.ior { g with metadata := [] } h ∧
    g.sub h = Graph.isub { g with metadata := [] } h := ⟨rfl, rfl⟩

/-! ## set algebra -/

/-- idempotence, even as lists -/
theorem or_idem (g : Graph) :
    (g.or g).triples = g.triples ∧ (∀ t, t ∈ (g.or g).triples ↔ t ∈ g.triples) ∧
    (g.or g).eqv g = true := by
  refine ⟨or_self_triples g, fun t => by rw [or_self_triples], ?_⟩
  rw [eqv_iff, or_self_triples]
  refine ⟨?_, rfl, fun _ => Iff.rfl⟩
  simp only [Graph.getTop, or_top, or_self_triples]

/-- `(g ∪ h) − h = g − h ⊆ g`, as an order-preserving sublist -/
theorem or_sub_cancel (g h : Graph) :
    ((g.or h).sub h).triples = g.triples.filter (fun t => t ∉ h.triples) ∧
    ((g.or h).sub h).triples.Sublist g.triples ∧
    (∀ t, t ∈ ((g.or h).sub h).triples → t ∈ g.triples) ∧
    (∀ t, t ∈ ((g.or h).sub h).triples ↔ t ∈ g.triples ∧ t ∉ h.triples) := by
  refine ⟨or_sub_cancel_triples g h, ?_, ?_, ?_⟩
  · rw [or_sub_cancel_triples]; exact List.filter_sublist
  · intro t ht; rw [or_sub_cancel_triples] at ht; exact (List.mem_filter.1 ht).1
  · intro t; rw [or_sub_cancel_triples]; simp

theorem or_comm_mem (g h : Graph) (t : Triple) :
    t ∈ (g.or h).triples ↔ t ∈ (h.or g).triples := by
  rw [mem_or_triples, mem_or_triples, or_comm]

/-- associativity holds even for the ordered lists, and for the whole `__eq__` relation -/
theorem or_assoc (g h k : Graph) :
    ((g.or h).or k).triples = (g.or (h.or k)).triples ∧
    (∀ t, t ∈ ((g.or h).or k).triples ↔ t ∈ g.triples ∨ t ∈ h.triples ∨ t ∈ k.triples) ∧
    ((g.or h).or k).eqv (g.or (h.or k)) = true := by
  refine ⟨or_assoc_triples g h k, fun t => ?_, ?_⟩
  · rw [mem_or_triples, mem_or_triples, _root_.or_assoc]
  · rw [eqv_iff]
    refine ⟨?_, by rw [or_assoc_triples], fun t => by rw [or_assoc_triples]⟩
    simp only [Graph.getTop, or_top, or_assoc_triples]

/-- removing then adding back: `(g − h) ∪ h = g ∪ h` as sets -/
theorem sub_or_mem (g h : Graph) (t : Triple) :
    t ∈ ((g.sub h).or h).triples ↔ t ∈ g.triples ∨ t ∈ h.triples := by
  rw [mem_or_triples, mem_sub_triples]
  by_cases hh : t ∈ h.triples <;> simp [hh]

/-- `(g − h) − k = g − (h ∪ k)` as lists -/
theorem sub_sub (g h k : Graph) :
    ((g.sub h).sub k).triples = (g.sub (h.or k)).triples ∧
    (∀ t, t ∈ ((g.sub h).sub k).triples ↔ t ∈ g.triples ∧ t ∉ h.triples ∧ t ∉ k.triples) := by
  refine ⟨sub_sub_triples g h k, fun t => ?_⟩
  rw [mem_sub_triples, mem_sub_triples, and_assoc]

/-- General statement for every finite sequence of operations `| h`, `- h`, `|= h`, `-= h`
    applied left to right to a start graph: membership in the result is membership in the
    corresponding set expression (`denoteOps` folds `S ↦ S ∪ h` / `S ↦ S \ h`). -/
theorem ops_mem (g : Graph) (ops : List GOp) (t : Triple) :
    t ∈ (applyOps g ops).triples ↔ denoteOps (fun x => x ∈ g.triples) ops t :=
  mem_applyOps g ops t

/-- ... and the result list itself is the fold of the two order-preserving list operations
    `l ↦ l ++ h.filter (∉ l)` and `l ↦ l.filter (∉ h)`. -/
theorem ops_triples (g : Graph) (ops : List GOp) :
    (applyOps g ops).triples = ops.foldl GOp.onList g.triples := applyOps_triples g ops

/-- duplicate-freeness (being a *set*) is preserved along any sequence -/
theorem ops_nodup (g : Graph) (ops : List GOp) (hg : g.triples.Nodup)
    (hops : ∀ op ∈ ops, op.arg.triples.Nodup) : (applyOps g ops).triples.Nodup := by
  induction ops generalizing g with
  | nil => exact hg
  | cons op r ih =>
    simp only [applyOps, List.foldl_cons] at ih ⊢
    apply ih
    · have h1 := hops op (List.mem_cons_self)
      cases op with
      | or h => exact ior_triples_nodup (g := { g with metadata := [] }) hg h1
      | ior h => exact ior_triples_nodup hg h1
      | sub h => exact isub_triples_nodup (g := { g with metadata := [] }) hg h
      | isub h => exact isub_triples_nodup hg h
    · intro op' hop'; exact hops op' (List.mem_cons_of_mem _ hop')

example : (applyOps exG [.or exH, .sub exK, .ior exK, .isub exH]).triples.Nodup :=
  ops_nodup exG _ (by decide) (by decide)

/-- `__eq__` is an equivalence relation whose triple part is set equality -/
theorem eqv_equivalence :
    (∀ g h : Graph, g.eqv h = true ↔ g.getTop = h.getTop ∧
        g.triples.length = h.triples.length ∧ ∀ t, t ∈ g.triples ↔ t ∈ h.triples) ∧
    (∀ g : Graph, g.eqv g = true) ∧
    (∀ g h : Graph, g.eqv h = true → h.eqv g = true) ∧
    (∀ g h k : Graph, g.eqv h = true → h.eqv k = true → g.eqv k = true) :=
  ⟨eqv_iff, eqv_refl, fun _ _ => eqv_symm, fun _ _ _ => eqv_trans⟩

example : (exG.or exG).eqv exG = true ∧
    ((exG.or exH).sub exH).triples.length = 8 ∧
    (applyOps exG [.or exH, .sub exK, .ior exK, .isub exH]).triples.length = 8 ∧
    tE "w" ":ARG1" "g" ∈ (applyOps exG [.or exH, .sub exK, .ior exK, .isub exH]).triples ∧
    tE "g" ":ARG0" "b" ∉ (applyOps exG [.or exH, .sub exK, .ior exK, .isub exH]).triples ∧
    exG.triples.Nodup ∧ exH.triples.Nodup ∧ exK.triples.Nodup ∧
    (exG.or exH).eqv (exH.or exG) = false := by
  decide

/-- the general statement specialises to a readable set expression -/
example (g h k : Graph) (t : Triple) :
    t ∈ (applyOps g [.or h, .sub k, .or k, .isub h]).triples ↔
      (((t ∈ g.triples ∨ t ∈ h.triples) ∧ t ∉ k.triples) ∨ t ∈ k.triples) ∧ t ∉ h.triples :=
  ops_mem g _ t

/-! ## `Graph.__init__` -/

/-- every role gets a colon; a role that has one is unchanged; the constructor is
    idempotent (also on the epidata/metadata dict conversion); sources and targets and the
    number and order of triples are untouched -/
theorem mk'_facts (ts : List Triple) (top : Option Str) (e : List (Triple × List Epi))
    (m : List (Str × Str)) :
    (Graph.mk' ts top e m).triples = ts.map (fun t => { t with role := ensureColon t.role }) ∧
    (∀ r, ensureColon r = if r.head? = some ':' then r else ':' :: r) ∧
    (∀ t ∈ (Graph.mk' ts top e m).triples, startsWith [':'] t.role = true) ∧
    ((∀ t ∈ ts, startsWith [':'] t.role = true) → (Graph.mk' ts top e m).triples = ts) ∧
    (∀ r, ensureColon (ensureColon r) = ensureColon r) ∧
    (let g := Graph.mk' ts top e m; Graph.mk' g.triples g.top g.epidata g.metadata = g) ∧
    (Graph.mk' ts top e m).top = top ∧
    (∀ k, AList.get? (Graph.mk' ts top e m).epidata k = AList.get? e.reverse k) := by
  refine ⟨rfl, ensureColon_eq, ?_, ?_, ensureColon_idem, mk'_idem ts top e m, rfl, ?_⟩
  · intro t ht
    rw [mk'_triples, List.mem_map] at ht
    obtain ⟨u, _, rfl⟩ := ht
    exact ensureColon_startsWith u.role
  · intro hall
    rw [mk'_triples]
    conv => rhs; rw [← List.map_id ts]
    apply List.map_congr_left
    intro t ht
    simp [colonT, ensureColon_of_startsWith (hall t ht)]
  · intro k; rw [mk'_epidata, AList.get?_ofList]

example : exG.triples[1]? = some (tE "w" ":ARG0" "b") ∧ exTriples[1]? = some (tE "w" "ARG0" "b") ∧
    exG.epidata = [(tE "w" ":ARG0" "b", [.push (s "b")]), (tN "b" ":quant" "2", [.pop])] ∧
    ensureColon (s "ARG0") = s ":ARG0" ∧ ensureColon (s ":ARG0") = s ":ARG0" ∧
    ensureColon [] = [':'] := by
  decide

end Penman.C15

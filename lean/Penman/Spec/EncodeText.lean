/-
  Penman.Spec.EncodeText — vocabulary of the text-level round trip (C03 / C06 at the level of
  strings): the *written form* of atoms, trees and triples (a number is written as its text and
  read back as a string), and the character-level well-formedness of a graph.
-/
import Penman.Spec.TextWf
import Penman.Spec.Encode
namespace Penman
namespace C03Text
open Penman.Spec Penman.Cfg

/-- a constant as its text shows it: the number `0` is written `0` and read back as the string `0` -/
def writtenAtom : Atom → Atom
  | .num t => .str t
  | a => a

mutual
/-- the tree the text of `n` denotes: every numeric atom replaced by its text -/
def writtenForm : Node → Node
  | .mk v bs => .mk v (writtenBs bs)
def writtenBs : Branches → Branches
  | .nil => .nil
  | .atom r a rest => .atom r (writtenAtom a) (writtenBs rest)
  | .sub r n rest => .sub r (writtenForm n) (writtenBs rest)
end

/-- a triple with its constant compared by its written form -/
def writtenTriple (t : Triple) : Triple := { t with tgt := writtenAtom t.tgt }

/-- a target that is grammar-valid text: missing, a SYMBOL or STRING text (hence non-empty), or a
    number whose text is a SYMBOL text -/
def TgtTextOK (cfg : LexCfg) : Atom → Prop
  | .none => True
  | .str s => (symbolB cfg s || stringB cfg s) = true
  | .num s => symbolB cfg s = true

instance (cfg : LexCfg) (a : Atom) : Decidable (TgtTextOK cfg a) := by
  cases a <;> unfold TgtTextOK <;> infer_instance

/-- **character-level well-formedness of a graph** (what makes the configured tree grammar-valid):
    * every source (hence every variable of a labelled graph) is a SYMBOL text;
    * every non-instance role is a ROLE text, and so is its inversion (a relation may be written
      in either direction);
    * every target is missing, a SYMBOL / STRING text, or a number whose text is a SYMBOL text;
    * no variable has two node labels (`/` may only be written once, directly after the
      variable: `(a / x / y)` is not in the grammar);
    * the metadata is `WfMeta`.
    None of the texts contains a raw line break (part of `symbolB`, `roleB`, `stringB`). -/
structure GraphTextOK (cfg : LexCfg) (isSpace : Char → Bool) (m : Model) (g : Graph) : Prop where
  srcs : ∀ t ∈ g.triples, symbolB cfg t.src = true
  roles : ∀ t ∈ g.triples, t.role ≠ CONCEPT_ROLE →
    roleB cfg t.role = true ∧ roleB cfg (m.invertRole t.role) = true
  tgts : ∀ t ∈ g.triples, TgtTextOK cfg t.tgt
  oneLabel : ((g.triples.filter (fun t => t.role = CONCEPT_ROLE)).map (·.src)).Nodup
  metaOK : WfMeta isSpace g.metadata

instance (cfg : LexCfg) (isSpace : Char → Bool) (m : Model) (g : Graph) :
    Decidable (GraphTextOK cfg isSpace m g) :=
  decidable_of_iff
    ((∀ t ∈ g.triples, symbolB cfg t.src = true) ∧
     (∀ t ∈ g.triples, t.role ≠ CONCEPT_ROLE →
        roleB cfg t.role = true ∧ roleB cfg (m.invertRole t.role) = true) ∧
     (∀ t ∈ g.triples, TgtTextOK cfg t.tgt) ∧
     ((g.triples.filter (fun t => t.role = CONCEPT_ROLE)).map (·.src)).Nodup ∧
     WfMeta isSpace g.metadata)
    ⟨fun ⟨a, b, c, d, e⟩ => ⟨a, b, c, d, e⟩, fun ⟨a, b, c, d, e⟩ => ⟨a, b, c, d, e⟩⟩

/-- no number is spelled like a variable of the graph (only then is the text of the configured tree
    literally the text of its written form under `compact`; see `C03_text_format`) -/
def numNotIn (vars : List Str) : Atom → Bool
  | .num s => !vars.contains s
  | _ => true

def NumNotVar (g : Graph) : Prop := ∀ t ∈ g.triples, numNotIn g.variables t.tgt = true

instance (g : Graph) : Decidable (NumNotVar g) := by unfold NumNotVar; infer_instance

/-- the lexer tables let `-of` be appended to a role (then the inversion of a ROLE text is
    automatically a ROLE text: `roleB_invertRole`) -/
def OfOK (cfg : LexCfg) : Bool := "-of".toList.all fun c => !cfg.roleExcl.contains c

end C03Text
end Penman

/-
  Penman.Proofs.Layout6 — C02: `buildNode` on the store `storeN` reproduces the
  tree (alignment markers are re-appended to the role and target texts), with
  the fuel `configure` provides; every denoted role starts with `:`.
-/
import Penman.Proofs.Layout5
namespace Penman
namespace C02

variable (isAlpha : Char → Bool) (m : Model)

/-! ### re-appending markers -/

theorem applyEpis_role (R rest : List Epi) (hR : ∀ e ∈ R, e.mode = 1) (r : Str) (t : Option Str) :
    applyEpis r t (R ++ rest) = applyEpis (r ++ episText R) t rest := by
  induction R generalizing r with
  | nil => simp [episText]
  | cons e R ih =>
    have he := hR e (by simp)
    simp only [List.cons_append, applyEpis, he, if_true]
    rw [ih (fun x hx => hR x (List.mem_cons_of_mem _ hx))]
    simp [episText]

theorem applyEpis_tgt (T rest : List Epi) (hT : ∀ e ∈ T, e.mode = 2) (r : Str) (t : Str) :
    applyEpis r (some t) (T ++ rest) = applyEpis r (some (t ++ episText T)) rest := by
  induction T generalizing t with
  | nil => simp [episText]
  | cons e T ih =>
    have he := hT e (by simp)
    simp only [List.cons_append, applyEpis, he]
    rw [ih (fun x hx => hT x (List.mem_cons_of_mem _ hx))]
    simp [episText]

theorem atomEpis_mode {a : Atom} (h : AtomFacts isAlpha a) : ∀ e ∈ atomEpis isAlpha a, e.mode = 2 := by
  intro e he
  rcases h.text with ⟨h, _⟩ | ⟨p, i, c, h, _⟩
  · simp [h] at he
  · simp [h] at he; subst he; rfl

theorem build_atom_edge (cells : AList Str (List Edge)) (F : Nat) (r0 : Str) (R : List Epi) (a : Atom)
    (es : List Edge) (rest' : Branches) (hR : ∀ e ∈ R, e.mode = 1) (ha : AtomFacts isAlpha a)
    (hes : buildBranches cells F es = .ok rest') :
    buildBranches cells F (⟨r0, .atom (atomCore isAlpha a), R ++ atomEpis isAlpha a⟩ :: es) =
      .ok (.atom (r0 ++ episText R) a rest') := by
  have h1 := applyEpis_role R (atomEpis isAlpha a) hR r0 (some (atomStr (atomCore isAlpha a)))
  have h2 := applyEpis_tgt (atomEpis isAlpha a) [] (atomEpis_mode isAlpha ha) (r0 ++ episText R)
    (atomStr (atomCore isAlpha a))
  simp only [List.append_nil] at h2
  rw [h2] at h1
  have hany : (R ++ atomEpis isAlpha a).any (·.mode = 2) = (atomEpis isAlpha a).any (·.mode = 2) := by
    rw [List.any_append]
    have : R.any (·.mode = 2) = false := by
      rw [List.any_eq_false]; intro x hx; simp [hR x hx]
    simp [this]
  rw [buildBranches]
  simp only [hes, bind, Except.bind, h1, applyEpis, hany, pure, Except.pure, Option.getD_some]
  congr 2
  rcases ha.text with ⟨h, hc⟩ | ⟨p, i, c, h, hc, hat⟩
  · simp [h, hc]
  · rw [h, hc, hat]
    simp [Epi.mode, episText, Epi.toStr, atomStr]

theorem build_sub_edge (cells : AList Str (List Edge)) (f : Nat) (r0 : Str) (R : List Epi) (w : Str)
    (es : List Edge) (rest' : Branches) (n' : Node) (hR : ∀ e ∈ R, e.mode = 1)
    (hes : buildBranches cells (f+1) es = .ok rest') (hn : buildNode cells f w = .ok n') :
    buildBranches cells (f+1) (⟨r0, .node w, R⟩ :: es) = .ok (.sub (r0 ++ episText R) n' rest') := by
  have h1 := applyEpis_role R [] hR r0 none
  simp only [List.append_nil, applyEpis] at h1
  rw [buildBranches]
  simp only [hes, hn, bind, Except.bind, h1, pure, Except.pure]

/-! ### fuel -/

mutual
def needN : Node → Nat
  | .mk _ bs => needB bs + 1
def needB : Branches → Nat
  | .nil => 0
  | .atom _ _ rest => needB rest
  | .sub _ n rest => max (needN n + 1) (needB rest)
end

mutual
theorem need_node : ∀ (n : Node), LNode isAlpha m n → needN n + 1 ≤ 2 * n.vars.length
  | .mk v bs => by
    intro h
    obtain ⟨var, rfl, hb, _⟩ := h
    have := need_branches var bs hb
    simp only [needN, vars_mk, List.length_cons]; omega
theorem need_branches (var : Str) : ∀ (bs : Branches), LB isAlpha m var bs → needB bs ≤ 2 * (nvB bs).length
  | .nil => by intro _; simp [needB]
  | .atom role a rest => by intro h; simpa [needB] using need_branches var rest h.2.2
  | .sub role n rest => by
    intro h
    have h1 := need_node n h.2.1
    have h2 := need_branches var rest h.2.2
    simp only [needB, nvB_sub, List.length_append]; omega
end

/-! ### the tree is reproduced -/

theorem missing_iff {a : Atom} (ha : AtomFacts isAlpha a) : (atomCore isAlpha a).isMissing = true ↔ a = .none := by
  rcases ha.core with hc | ⟨c, hc, hne⟩
  · rw [hc]
    rcases ha.text with ⟨_, h⟩ | ⟨p, i, c, _, h, _⟩
    · rw [← h, hc]; simp [Atom.isMissing]
    · rw [hc] at h; cases h
  · rw [hc]
    have : c.isEmpty = false := by cases c <;> simp_all
    rcases ha.text with ⟨_, h⟩ | ⟨p, i, c', _, _, h⟩
    · rw [← h, hc]; simp [Atom.isMissing, this]
    · rw [h]; simp [Atom.isMissing, this]

mutual
theorem build_node : ∀ (n : Node), LNode isAlpha m n → ∀ (cells : AList Str (List Edge)) (F : Nat),
    (∀ p ∈ storeN isAlpha n, AList.get? cells p.1 = some p.2) → needN n ≤ F →
    buildNode cells F (n.var.getD []) = .ok (dropNullConcept n)
  | .mk v bs => by
    intro h cells F hc hF
    obtain ⟨var, rfl, hb, _⟩ := h
    simp only [needN] at hF
    obtain ⟨f, rfl⟩ : ∃ f, F = f + 1 := ⟨F - 1, by omega⟩
    have h0 := hc (var, edgesB isAlpha bs) (by simp [storeN])
    simp only at h0
    have hb' := build_branches var bs hb cells f
      (fun p hp => hc p (by simp only [storeN, List.mem_cons]; exact Or.inr hp)) (by omega)
    simp only [Node.var, Option.getD_some, buildNode, h0, hb', bind, Except.bind, pure, Except.pure,
      dropNullConcept]
theorem build_branches (var : Str) : ∀ (bs : Branches), LB isAlpha m var bs →
    ∀ (cells : AList Str (List Edge)) (F : Nat),
    (∀ p ∈ storeB isAlpha bs, AList.get? cells p.1 = some p.2) → needB bs ≤ F →
    buildBranches cells F (edgesB isAlpha bs) = .ok (dropNullBranches bs)
  | .nil => by intro _ cells F _ _; simp [edgesB, buildBranches, dropNullBranches]
  | .atom role a rest => by
    intro h cells F hc hF
    obtain ⟨hs, ha, hb⟩ := h
    have af := atomFacts isAlpha ha
    simp only [needB] at hF
    simp only [storeB] at hc
    have ih := build_branches var rest hb cells F hc hF
    simp only [edgesB, branchEdges, dropNullBranches]
    by_cases hr : role = ['/']
    · subst hr
      simp only [if_true, true_and, slash_epis]
      cases hm : (atomCore isAlpha a).isMissing with
      | true =>
        have : a = .none := (missing_iff isAlpha af).1 hm
        simp only [if_true, List.nil_append, this, ih]
      | false =>
        have hne : a ≠ .none := by
          intro e; have := (missing_iff isAlpha af).2 e; rw [hm] at this; cases this
        simp only [Bool.false_eq_true, if_false, hne, List.cons_append, List.nil_append]
        have := build_atom_edge isAlpha cells F ['/'] [] a _ _ (by simp) af ih
        simpa [episText] using this
    · have rf := slot_ne_slash isAlpha m hs hr
      simp only [hr, if_false, false_and, List.cons_append, List.nil_append]
      have := build_atom_edge isAlpha cells F (roleCore isAlpha role) (roleEpis isAlpha role) a _ _
        (roleEpis_mode isAlpha m rf) af ih
      rw [rf.text] at this
      exact this
  | .sub role n rest => by
    intro h cells F hc hF
    obtain ⟨hr, hn, hb⟩ := h
    have rf := roleFacts isAlpha m hr
    obtain ⟨nv, nbs, rfl⟩ := LNode_var isAlpha m hn
    simp only [needB] at hF
    obtain ⟨f, rfl⟩ : ∃ f, F = f + 1 := ⟨F - 1, by omega⟩
    simp only [storeB, List.mem_append] at hc
    have ih := build_branches var rest hb cells (f+1) (fun p hp => hc p (Or.inr hp)) (by omega)
    have ihn := build_node (.mk (some nv) nbs) hn cells f (fun p hp => hc p (Or.inl hp)) (by omega)
    simp only [Node.var, Option.getD_some] at ihn
    simp only [edgesB, dropNullBranches, Node.var, Option.getD_some]
    have := build_sub_edge cells f (roleCore isAlpha role) (roleEpis isAlpha role) nv _ _ _
      (roleEpis_mode isAlpha m rf) ih ihn
    rw [rf.text] at this
    exact this
end

/-! ### every denoted role starts with a colon -/

theorem startsWith_colon_iff (r : Str) : startsWith [':'] r = true ↔ ∃ r', r = ':' :: r' := by
  cases r with
  | nil => simp [startsWith]
  | cons c r => simp [startsWith, List.isPrefixOf]; exact eq_comm

theorem invertRole_colon {r : Str} (h : startsWith [':'] r = true) : startsWith [':'] (m.invertRole r) = true := by
  obtain ⟨r', rfl⟩ := (startsWith_colon_iff r).1 h
  unfold Model.invertRole
  split
  · rename_i hc
    simp only [Bool.and_eq_true] at hc
    obtain ⟨b, hb⟩ := Role.endsWith_iff.1 hc.2
    rw [hb, Role.dropEnd_of]
    cases b with
    | nil => simp [ofStr] at hb
    | cons c b =>
      simp only [List.cons_append, List.cons.injEq] at hb
      rw [← hb.1]; simp [startsWith, List.isPrefixOf]
  · simp [startsWith, List.isPrefixOf]

theorem inst_colon : startsWith [':'] CONCEPT_ROLE = true := by decide

mutual
theorem colon_node (vars : List Str) : ∀ (n : Node), LNode isAlpha m n →
    ∀ t ∈ (spNode isAlpha m vars n).map (·.1), startsWith [':'] t.role = true
  | .mk v bs => by
    intro h t ht
    obtain ⟨var, rfl, hb, _⟩ := h
    simp only [spNode, Option.getD_some, List.map_append, List.mem_append] at ht
    rcases ht with ht | ht
    · unfold instEntry at ht
      split at ht
      · simp at ht
      · simp at ht; subst ht; exact inst_colon
    · exact colon_branches vars var bs hb t ht
theorem colon_branches (vars : List Str) (var : Str) : ∀ (bs : Branches), LB isAlpha m var bs →
    ∀ t ∈ (spBranches isAlpha m vars var bs).map (·.1), startsWith [':'] t.role = true
  | .nil => by intro _ t ht; simp [spBranches] at ht
  | .atom role a rest => by
    intro h t ht
    obtain ⟨hs, ha, hb⟩ := h
    simp only [spBranches, List.map_cons, List.mem_cons] at ht
    rcases ht with rfl | ht
    · have hc : startsWith [':'] (roleCore isAlpha role) = true := by
        rcases hs with rfl | ⟨hr, _⟩
        · rw [slash_core]; exact inst_colon
        · exact (roleFacts isAlpha m hr).colon
      unfold brTriple
      split
      · unfold Model.invert
        split <;> exact invertRole_colon m hc
      · exact hc
    · exact colon_branches vars var rest hb t ht
  | .sub role n rest => by
    intro h t ht
    obtain ⟨hr, hn, hb⟩ := h
    have rf := roleFacts isAlpha m hr
    simp only [spBranches, List.map_cons, List.map_append, appendPopLast_map_fst, List.mem_cons,
      List.mem_append] at ht
    rcases ht with rfl | ht | ht
    · unfold subTriple
      split
      · exact invertRole_colon m rf.colon
      · exact rf.colon
    · exact colon_node vars n hn t ht
    · exact colon_branches vars var rest hb t ht
end

end C02
end Penman

import Penman.Proofs.OrderIndepCli
import Penman.Generated
/-!
# C17 — calls are pure and deterministic

Property text: "Every library call documented as returning a new object … leaves its arguments
observably unchanged. Its result depends only on its arguments: it is identical across repeated
calls, interleavings with other calls, processes and hash seeds, and the command-line output is
byte-identical across hash seeds (random ordering keys excepted)."

## What a theorem about the model can and cannot carry

* **Purity / repeated calls / interleavings / processes.** The model is a collection of Lean
  functions on immutable values. A Lean function cannot change its argument and `f x = f x`
  holds by reflexivity, so these clauses are true of the model *by construction* and there is
  nothing to prove: no theorem below pretends otherwise. Whether the PYTHON functions have these
  properties (no aliasing of marker lists between graphs, no mutation of arguments, no global
  state) is checked by the correspondence harness and the C17 oracles (argument snapshots before
  and after every call, worker processes, two hash seeds), not here.
* **Hash seeds.** This is the clause with theorem-level content. Python iterates a `set` in an
  order that depends on `PYTHONHASHSEED`; the model represents every set by a list in one fixed
  order (`Graph.variables`, `Node.vars`, `dedup …`, `neighbours`). For every place where the
  Python code builds or iterates a set we define a variant `…With` of the model function that
  takes the ENUMERATION of that set as an explicit parameter, prove that the model function is
  the variant at the model's own enumeration (by `rfl`), and prove that the variant returns the
  same result for any two enumerations of the same set. Where only membership is tested the
  hypothesis is `SameMembers l l'` (`∀ a, a ∈ l ↔ a ∈ l'`: order AND duplicates irrelevant);
  `List.Perm` implies it (`SameMembers.of_perm`).

Python site (set)                                   ↦ model function ↦ theorems
--------------------------------------------------------------------------------------------------
1 `layout._configure`: `nodemap = {var: None for    ↦ `configure`  ↦ `configure_eq_with`,
  var in g.variables()}` (dict built by iterating                    `configure_order_indep`,
  a set; later only lookups/updates by key)                          `configure_enum_indep`,
                                                                     `variables_nodup`;
  `layout.reconfigure` (calls `configure`)          ↦ `reconfigure` ↦ `reconfigure_order_indep`
2 `layout.interpret`: `variables = {v for v, _ in   ↦ `interpret`  ↦ `interpret_eq_with`,
  t.nodes()}` (membership)                                           `interpret_order_indep`
3 `Graph.__ior__` (fix F17: iterate `other.triples`, ↦ `Graph.ior` ↦ `ior_uses_no_set_order`,
  `new` is used for membership only)                                 `ior_mapping_indep`,
                                                                     `ior_prefix_order_dependent`
                                                                     (why the fix matters)
4 `Graph.__isub__`: `for t in removed: del epidata[t]` ↦ `Graph.isub` ↦ `erase_order_indep`,
                                                                     `erase_fold_eq_filter`,
                                                                     `isub_order_indep`
5 `model._dfs` (neighbour sets `q[cur]`),            ↦ `dfsLoop`, `reachable`, `Model.errors`
  `Model.errors` (`sorted(unreachable)`)               ↦ `reachable_eq_with`, `dfs_visits_component`
                                                        (also: the model's fuel suffices for EVERY
                                                        push order), `dfs_order_indep`,
                                                        `sorted_order_indep`, `errors_eq_with`,
                                                        `errors_order_indep`
6 `transform.reify_edges`, `reify_attributes`:       ↦ `freshVar`, `attrVarLoop`, `reifyEdges`,
  `vars = g.variables()` used for membership and       `reifyAttributes` ↦ `freshVar_order_indep`,
  for the fresh variable `_`, `_2`, `_3`, …            `freshVar_least` (fuel `|vars|+1` always
                                                        suffices; result = least free `_N`),
                                                        `reifyEdges_order_indep`,
                                                        `reifyAttributes_order_indep`
7 other membership-only uses: `rearrange`            ↦ `rearrange_order_indep`,
  (`attributes_first`), `node_contexts`                `nodeContexts_order_indep`
  (`Graph.edges/attributes`, `appears_inverted` test `x ∈ g.variables` directly: no enumeration)
"the command-line output is byte-identical across    ↦ `cli_seed_indep`: the per-graph function of
  hash seeds"                                           `cli_output_seed_indep` (whole command:
                                                        stdout and exit status), via the per-graph
                                                        `cli_seed_indep`: the per-graph function of
                                                        the command with EVERY set iteration above
                                                        routed through an arbitrary `Seed`
                                                        (a permutation of each set) equals
                                                        `processTree`. By C20 (`cli_eq_pipeline`)
                                                        the output is a function of the per-graph
                                                        results. "Random ordering keys excepted":
                                                        the model has no random key (`KeyFn`).

Nothing is left unproved. No counterexample was found for the fixed code; the pre-fix behaviour
of `Graph.__ior__` IS order dependent (`ior_prefix_order_dependent`), which is finding F17.
-/
namespace Penman.C17
open Penman Penman.OrderIndep

/-! ## example data -/

private def s (x : String) : Str := x.toList

/-- `(a / A :ARG0 (b / B) :ARG1-of (c / C))` as triples, three variables -/
def exG : Graph :=
  { triples := [⟨s "a", s ":instance", .str (s "A")⟩, ⟨s "a", s ":ARG0", .str (s "b")⟩,
                ⟨s "b", s ":instance", .str (s "B")⟩, ⟨s "c", s ":instance", .str (s "C")⟩,
                ⟨s "c", s ":ARG1", .str (s "a")⟩],
    top := none, epidata := [] }

/-- another enumeration of `exG.variables()` -/
def exVars : List Str := [s "c", s "a", s "b"]

theorem exVars_perm : exVars.Perm exG.variables := by decide

/-- `(a / A :ARG0-of (b / B :ARG1 a))` -/
def exT : Tree :=
  { node := .mk (some (s "a")) (.atom ['/'] (.str (s "A"))
      (.sub (s ":ARG0-of") (.mk (some (s "b")) (.atom ['/'] (.str (s "B"))
        (.atom (s ":ARG1-of") (.str (s "a")) .nil))) .nil)) }

/-! ## 1. `configure` / `reconfigure` -/

/-- the model function is the variant at the model's enumeration of `g.variables()` -/
theorem configure_eq_with (m : Model) (g : Graph) (top : Option Str) :
    configure m g top = configureWith m g.variables g top := rfl

/-- the model's enumeration is duplicate-free, like the Python set -/
theorem variables_nodup (g : Graph) : g.variables.Nodup := OrderIndep.variables_nodup g

/-- `configure` gives the same tree (or the same error) whatever order the set
    `g.variables()` is iterated in when `nodemap` is built (even duplicates in the
    enumeration would not matter: all initial values are `None`) -/
theorem configure_order_indep (m : Model) (g : Graph) (top : Option Str) {vars vars' : List Str}
    (h : SameMembers vars vars') : configureWith m vars g top = configureWith m vars' g top :=
  configureWith_congr m h g top

/-- every permutation of the model's enumeration gives the model's result -/
theorem configure_enum_indep (m : Model) (g : Graph) (top : Option Str) {vars : List Str}
    (h : vars.Perm g.variables) : configureWith m vars g top = configure m g top :=
  configure_order_indep m g top (SameMembers.of_perm h)

/-- non-vacuity: a different enumeration exists, the two initial `nodemap`s really differ as
    insertion-ordered dicts, and the theorem applies -/
example : exVars ≠ exG.variables ∧
    AList.set (exVars.map (·, NM.unset)) (s "a") NM.own ≠
      AList.set (exG.variables.map (·, NM.unset)) (s "a") NM.own := by decide
example : configureWith Generated.defaultModel exVars exG none = configure Generated.defaultModel exG none :=
  configure_enum_indep _ _ _ exVars_perm

theorem reconfigure_order_indep (sd : Seed) (m : Model) (g : Graph) (top : Option Str)
    (key : Option (List KeyFn)) : reconfigureWith sd m g top key = reconfigure m g top key :=
  reconfigureWith_seed sd m g top key

example : reconfigureWith Seed.rev Generated.defaultModel exG none (some [.canonical]) =
    reconfigure Generated.defaultModel exG none (some [.canonical]) := reconfigure_order_indep _ _ _ _ _

/-! ## 2. `interpret` -/

theorem interpret_eq_with (isAlpha : Char → Bool) (m : Model) (t : Tree) :
    interpret isAlpha m t = interpretWith isAlpha m t.node.vars t := rfl

/-- `interpret` depends on the variable set through membership only -/
theorem interpret_order_indep (isAlpha : Char → Bool) (m : Model) (t : Tree) {vars : List Str}
    (h : SameMembers vars t.node.vars) : interpretWith isAlpha m vars t = interpret isAlpha m t :=
  interpretWith_congr isAlpha m h t

/-- non-vacuity: another enumeration (reversed, with a duplicate) of the two variables of `exT`;
    the set does matter: with the empty set the inverted re-entrancy is not deinverted -/
example : SameMembers [s "b", s "a", s "b"] exT.node.vars :=
  SameMembers.of_subsets (by decide) (by decide)
example :
    (interpretWith isAsciiAlpha Generated.defaultModel [] exT).toOption.map (·.triples) ≠
    (interpret isAsciiAlpha Generated.defaultModel exT).toOption.map (·.triples) := by decide

/-! ## 3. `Graph.__ior__` -/

/-- the model of the fixed `__ior__` enumerates no set: the insertion order of the markers
    is the list order of `other.triples` (filtered by membership in `new`) -/
theorem ior_uses_no_set_order (g h : Graph) :
    g.ior h = iorWith (h.triples.filter (· ∉ g.triples)) g h := rfl

/-- as a mapping the marker dict of the union never depended on the order … -/
theorem ior_mapping_indep (g h : Graph) {o o' : List Triple} (ho : o.Perm o') (k : Triple) :
    AList.get? (iorWith o g h).epidata k = AList.get? (iorWith o' g h).epidata k :=
  iorWith_get?_congr (SameMembers.of_perm ho) g h k

/-- … but its KEY ORDER did: before fix F17 (`for t in new:` over a set) two iteration
    orders of the same set `new` gave different `epidata` (finding F17) -/
theorem ior_prefix_order_dependent :
    ∃ (g h : Graph) (o o' : List Triple), o.Perm (h.triples.filter (· ∉ g.triples)) ∧ o.Perm o' ∧
      (iorWith o g h).epidata ≠ (iorWith o' g h).epidata := by
  let t1 : Triple := ⟨s "a", s ":ARG0", .str (s "b")⟩
  let t2 : Triple := ⟨s "a", s ":ARG1", .str (s "c")⟩
  exact ⟨{}, { triples := [t1, t2], epidata := [(t1, [.push (s "b")]), (t2, [.push (s "c")])] },
    [t1, t2], [t2, t1], by decide, by decide, by decide⟩

/-! ## 4. `Graph.__isub__` -/

/-- deleting a set of keys one by one equals one filter … -/
theorem erase_fold_eq_filter (order : List Triple) (d : Epidata) :
    order.foldl (fun d t => AList.erase d t) d = d.filter (fun p => p.1 ∉ order) :=
  foldl_erase_eq_filter order d

/-- … hence does not depend on the order of deletion -/
theorem erase_order_indep (d : Epidata) {o o' : List Triple} (h : o.Perm o') :
    o.foldl (fun d t => AList.erase d t) d = o'.foldl (fun d t => AList.erase d t) d := by
  rw [foldl_erase_eq_filter, foldl_erase_eq_filter, filter_notMem_congr (SameMembers.of_perm h)]

/-- `__isub__` with `removed = set(other.triples)` iterated in any order is the model's `isub` -/
theorem isub_order_indep (g h : Graph) {order : List Triple} (ho : SameMembers order h.triples) :
    isubWith order g h = g.isub h := isubWith_eq order g h ho

example : let t1 : Triple := ⟨s "a", s ":ARG0", .str (s "b")⟩
          let t2 : Triple := ⟨s "a", s ":ARG1", .str (s "c")⟩
          [t2, t1, t2].foldl (fun d t => AList.erase d t) [(t1, [Epi.pop]), (⟨s "x", s ":r", .none⟩, []), (t2, [])]
            = [(⟨s "x", s ":r", .none⟩, [])] := by decide

/-! ## 5. `_dfs`, `Model.errors` -/

theorem reachable_eq_with (g : Graph) (top : Str) :
    reachable g top = reachableWith (neighbours g (dedup (g.triples.map (·.src)))) g top :=
  OrderIndep.reachable_eq_with g top

/-- for EVERY order in which the neighbours of each variable are pushed, the model's fuel
    suffices and `_dfs` visits exactly the connected component of the top -/
theorem dfs_visits_component (g : Graph) (nb : Str → List Str) (hnb : NbPerm g nb) (top : Str)
    (htop : top ∈ dedup (g.triples.map (·.src))) (v : Str) :
    v ∈ reachableWith nb g top ↔ Conn nb top v :=
  mem_reachableWith_iff g nb hnb top htop v

/-- the visited SET is independent of the order in which neighbours are pushed -/
theorem dfs_order_indep (g : Graph) (nb nb' : Str → List Str) (hnb : NbPerm g nb)
    (hnb' : NbPerm g nb') (top : Str) (htop : top ∈ dedup (g.triples.map (·.src))) (v : Str) :
    v ∈ reachableWith nb g top ↔ v ∈ reachableWith nb' g top :=
  reachableWith_members g nb nb' hnb hnb' top htop v

/-- `sorted(s)` is a function of the set `s` -/
theorem sorted_order_indep {l l' : List Str} (h : l.Perm l') : sortStrs l = sortStrs l' :=
  sortStrs_perm h

theorem errors_eq_with (m : Model) (g : Graph) :
    m.errors g = errorsWith m (neighbours g (dedup (g.triples.map (·.src)))) id g :=
  OrderIndep.errors_eq_with m g

/-- `Model.errors` (the dict, INCLUDING its key order) does not depend on the order in which
    `_dfs` iterates neighbour sets nor on how `sorted` receives the unreachable set -/
theorem errors_order_indep (m : Model) (g : Graph) (nb : Str → List Str)
    (enum : List Str → List Str) (hnb : NbPerm g nb) (he : ∀ l, (enum l).Perm l) :
    errorsWith m nb enum g = m.errors g := by
  rw [errors_eq_with]
  exact errorsWith_congr m g _ _ _ _ hnb (fun _ => List.Perm.refl _) he (fun _ => List.Perm.refl _)

/-- non-vacuity: pushing neighbours in reverse order visits the variables of `exG` in a
    different ORDER (the lists differ) but, by the theorem, the same set -/
example : NbPerm exG (fun v => (neighbours exG (dedup (exG.triples.map (·.src))) v).reverse) :=
  fun _ => List.reverse_perm _
example : reachableWith (fun v => (neighbours exG (dedup (exG.triples.map (·.src))) v).reverse) exG (s "a")
    ≠ reachable exG (s "a") := by decide
example : s "a" ∈ dedup (exG.triples.map (·.src)) := by decide
example : sortStrs [s "b", s "c", s "a"] = sortStrs [s "a", s "b", s "c"] :=
  sorted_order_indep (by decide)

/-! ## 6. fresh variables, `reify_edges`, `reify_attributes` -/

/-- the fresh variable is a function of the SET `vars`: neither order nor duplicates of the
    enumeration matter (although the loop's fuel is `vars.length + 1`) -/
theorem freshVar_order_indep {vars vars' : List Str} (h : SameMembers vars vars') :
    freshVar vars = freshVar vars' := freshVar_congr h

/-- the fuel always suffices: `freshVar vars` is not in `vars`, and it is `_` if that is free,
    else `_N` for the least `N ≥ 2` with `_N` free -/
theorem freshVar_least (vars : List Str) :
    freshVar vars ∉ vars ∧
    ((['_'] ∉ vars ∧ freshVar vars = ['_']) ∨
     (['_'] ∈ vars ∧ ∃ k, 2 ≤ k ∧ freshVar vars = '_' :: natToStr k ∧
        ∀ k', 2 ≤ k' → k' < k → '_' :: natToStr k' ∈ vars)) := freshVar_spec vars

example : freshVar [s "_3", s "_", s "a", s "_2", s "_"] = s "_4" := by decide

theorem reifyEdges_order_indep (m : Model) (g : Graph) {vars : List Str}
    (h : SameMembers vars g.variables) : reifyEdgesWith m vars g = reifyEdges m g :=
  reifyEdgesWith_congr m h g

theorem reifyAttributes_order_indep (g : Graph) {vars : List Str}
    (h : SameMembers vars g.variables) : reifyAttributesWith vars g = reifyAttributes g :=
  reifyAttributesWith_congr h g

example : reifyAttributesWith exVars exG = reifyAttributes exG :=
  reifyAttributes_order_indep _ (SameMembers.of_perm exVars_perm)
/-- the transformation is not the identity on a graph with a constant attribute -/
example : (reifyAttributes { exG with triples := exG.triples ++ [⟨s "b", s ":mod", .str (s "x")⟩] }).triples.length = 7 := by
  decide

/-! ## 7. other membership-only consumers -/

theorem rearrange_order_indep (m : Model) (key : Option (List KeyFn)) (af : Bool) (t : Tree)
    {vars : List Str} (h : SameMembers vars t.node.vars) :
    rearrangeWith m vars key af t = rearrange m key af t :=
  rearrangeWith_congr m h key af t

theorem nodeContexts_order_indep (g : Graph) {vars : List Str} (h : SameMembers vars g.variables) :
    nodeContextsLoop g vars g.triples [g.getTop] = nodeContexts g :=
  nodeContextsLoop_congr g h _ _

/-! ## the command line -/

/-- **The per-graph output and status of the `penman` command are the same for every hash
    seed**: route every set iteration of the pipeline (`interpret`, `reify_edges`,
    `reify_attributes`, `configure`/`reconfigure`, `rearrange`, `_dfs`, `sorted(unreachable)`)
    through an arbitrary permutation `sd`; the result is `processTree`. -/
theorem cli_seed_indep (sd : Seed) (u : UTables) (m : Model) (o : Opts) (t : Tree) :
    processTreeWith sd u m o t = processTree u m o t := processTreeWith_seed sd u m o t

/-- **The standard output and the exit status of the whole command are the same for every
    hash seed**, for every list of inputs and every option set. -/
theorem cli_output_seed_indep (sd : Seed) (cfg : LexCfg) (u : UTables) (m : Model) (o : Opts)
    (inputs : List Str) : mainRunWith sd cfg u m o inputs [] 0 = mainRun cfg u m o inputs [] 0 :=
  mainRunWith_seed sd cfg u m o inputs [] 0

/-- non-vacuity: `Seed.rev` really permutes (it is not the identity seed) -/
example : Seed.rev.enum exG.variables ≠ Seed.id.enum exG.variables := by decide
example (u : UTables) (o : Opts) :
    processTreeWith Seed.rev u Generated.amrModel o exT = processTreeWith Seed.id u Generated.amrModel o exT := by
  rw [cli_seed_indep, cli_seed_indep]

end Penman.C17

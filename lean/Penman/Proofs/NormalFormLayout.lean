/-
  Penman.Proofs.NormalFormLayout — `WfLayout` (the hypothesis of C02) is preserved by
  `dropNullConcept` and by `rearrangeNode`, and an empty concept slot is invisible to
  `interpret`: `(a / …)` with a missing concept and `(a …)` denote the same graph.
-/
import Penman.Proofs.NormalFormTree
namespace Penman.NF
open Penman Penman.RA

variable (isAlpha : Char → Bool) (m : Model)

theorem roleOk_slash : roleOk isAlpha m ['/'] = false := by
  simp [roleOk, processRole]

/-- the condition `wfBranchesB` puts on one branch of the node `var` -/
def layEdge (var : Str) : Branch → Bool
  | (r, .atom a) => roleOk isAlpha m r && atomOk isAlpha a
      && !(deinverts m (roleCore isAlpha r) && decide (atomCore isAlpha a = .str var))
  | (r, .node n) => roleOk isAlpha m r && wfNodeB isAlpha m n

theorem wfBranchesB_iff (var : Str) : ∀ bs : Branches,
    wfBranchesB isAlpha m var bs = true ↔ ∀ b ∈ bs.toList, layEdge isAlpha m var b = true
  | .nil => by simp [wfBranchesB, Branches.toList]
  | .atom r a rest => by
    simp only [wfBranchesB, Branches.toList, List.mem_cons, forall_eq_or_imp, layEdge,
      wfBranchesB_iff var rest, Bool.and_eq_true]
  | .sub r n rest => by
    simp only [wfBranchesB, Branches.toList, List.mem_cons, forall_eq_or_imp, layEdge,
      wfBranchesB_iff var rest, Bool.and_eq_true]

theorem layEdge_not_slash {var : Str} {b : Branch} (h : layEdge isAlpha m var b = true) : b.1 ≠ ['/'] := by
  intro e
  obtain ⟨r, t⟩ := b
  simp only at e; subst e
  cases t <;> simp [layEdge, roleOk_slash] at h

theorem wfNodeB_slash (var : Str) (a : Atom) (x : Branches) :
    wfNodeB isAlpha m (.mk (some var) (.atom ['/'] a x)) = (atomOk isAlpha a && wfBranchesB isAlpha m var x) := by
  simp [wfNodeB]

/-- a branch list without `/` whose branches are all fine is the branch list of a fine node -/
theorem wfNodeB_of_branches (var : Str) (x : Branches) (h : wfBranchesB isAlpha m var x = true) :
    wfNodeB isAlpha m (.mk (some var) x) = true := by
  cases x with
  | nil => simp [wfNodeB]
  | atom role a rest =>
    have hr : role ≠ ['/'] :=
      layEdge_not_slash isAlpha m ((wfBranchesB_iff isAlpha m var _).1 h (role, .atom a) (by simp [Branches.toList]))
    simp only [wfNodeB, hr, if_false, h]
  | sub role n rest => simpa only [wfNodeB] using h

theorem wfNodeB_edges (var : Str) (bs : Branches) (h : wfNodeB isAlpha m (.mk (some var) bs) = true) :
    ∀ b ∈ bs.sortedPart.toList, layEdge isAlpha m var b = true := by
  cases bs with
  | nil => simp [Branches.sortedPart, Branches.toList]
  | atom role a rest =>
    by_cases hr : role = ['/']
    · simp only [wfNodeB, hr, if_true, Bool.and_eq_true] at h
      simp only [Branches.sortedPart, hr, if_true]
      exact (wfBranchesB_iff isAlpha m var rest).1 h.2
    · simp only [wfNodeB, hr, if_false] at h
      simp only [Branches.sortedPart, hr, if_false]
      exact (wfBranchesB_iff isAlpha m var _).1 h
  | sub role n rest =>
    simp only [wfNodeB] at h
    intro b hb
    exact (wfBranchesB_iff isAlpha m var _).1 h b (mem_of_mem_sortedPart hb)

theorem layout_stable : RearrStable (fun n => wfNodeB isAlpha m n = true)
    (fun v b => ∃ var, v = some var ∧ layEdge isAlpha m var b = true) where
  decomp := fun v bs hp b hb => by
    cases v with
    | none => simp [wfNodeB] at hp
    | some var => exact ⟨var, rfl, wfNodeB_edges isAlpha m var bs hp b hb⟩
  rebuild := fun v bs x hp _ hx => by
    cases v with
    | none => simp [wfNodeB] at hp
    | some var =>
      have hx' : wfBranchesB isAlpha m var x = true := by
        rw [wfBranchesB_iff]
        intro b hb
        obtain ⟨var', e, h⟩ := hx b hb
        cases e; exact h
      cases bs with
      | nil => exact wfNodeB_of_branches isAlpha m var x hx'
      | atom role a rest =>
        by_cases hr : role = ['/']
        · subst hr
          rw [wfNodeB_slash] at hp
          have key : (Branches.atom ['/'] a rest).leading.append x = .atom ['/'] a x := by
            simp [Branches.leading, Branches.append]
          rw [key, wfNodeB_slash, Bool.and_eq_true]
          exact ⟨(Bool.and_eq_true _ _ ▸ hp).1, hx'⟩
        · have key : (Branches.atom role a rest).leading.append x = x := by
            simp [Branches.leading, hr, Branches.append]
          rw [key]
          exact wfNodeB_of_branches isAlpha m var x hx'
      | sub role n rest =>
        by_cases hr : role = ['/']
        · simp only [wfNodeB, wfBranchesB, hr, roleOk_slash, Bool.false_and] at hp
          exact absurd hp (by simp)
        · have key : (Branches.sub role n rest).leading.append x = x := by
            simp [Branches.leading, hr, Branches.append]
          rw [key]
          exact wfNodeB_of_branches isAlpha m var x hx'
  sub := fun v r n h => by
    obtain ⟨var, _, h⟩ := h
    simp only [layEdge, Bool.and_eq_true] at h
    exact h.2
  resub := fun v r n n' h h' => by
    obtain ⟨var, e, h⟩ := h
    simp only [layEdge, Bool.and_eq_true] at h
    exact ⟨var, e, by simp only [layEdge, Bool.and_eq_true]; exact ⟨h.1, h'⟩⟩

theorem wfNodeB_rearrange (mm : Model) (vars : List Str) (key : Option (List KeyFn)) (n : Node)
    (h : wfNodeB isAlpha m n = true) : wfNodeB isAlpha m (rearrangeNode mm vars key n) = true :=
  rearrangeNode_stable (layout_stable isAlpha m) mm vars key n h

/-! ### `dropNullConcept` -/

mutual
theorem wfNodeB_dropNull : ∀ n : Node, wfNodeB isAlpha m n = true → wfNodeB isAlpha m (dropNullConcept n) = true
  | .mk none bs, h => by simp [wfNodeB] at h
  | .mk (some var) .nil, _ => by simp [dropNullConcept, dropNullBranches, wfNodeB]
  | .mk (some var) (.atom role a rest), h => by
    by_cases hr : role = ['/']
    · simp only [wfNodeB, hr, if_true, Bool.and_eq_true] at h
      have ih := wfBranchesB_dropNull var rest h.2
      subst hr
      by_cases ha : a = .none
      · simp only [dropNullConcept, dropNullBranches, ha, and_self, if_true]
        exact wfNodeB_of_branches isAlpha m var _ ih
      · simp only [dropNullConcept, dropNullBranches, ha, and_false, if_false, wfNodeB, if_true,
          Bool.and_eq_true]
        exact ⟨h.1, ih⟩
    · simp only [wfNodeB, hr, if_false] at h
      have ih := wfBranchesB_dropNull var (.atom role a rest) h
      simp only [dropNullConcept]
      exact wfNodeB_of_branches isAlpha m var _ ih
  | .mk (some var) (.sub role n rest), h => by
    simp only [wfNodeB] at h
    have ih := wfBranchesB_dropNull var (.sub role n rest) h
    simp only [dropNullConcept]
    exact wfNodeB_of_branches isAlpha m var _ ih
theorem wfBranchesB_dropNull (var : Str) : ∀ bs : Branches, wfBranchesB isAlpha m var bs = true →
    wfBranchesB isAlpha m var (dropNullBranches bs) = true
  | .nil, _ => by simp [dropNullBranches, wfBranchesB]
  | .atom role a rest, h => by
    simp only [wfBranchesB, Bool.and_eq_true] at h
    have ih := wfBranchesB_dropNull var rest h.2
    simp only [dropNullBranches]
    split
    · exact ih
    · simp only [wfBranchesB, Bool.and_eq_true]; exact ⟨h.1, ih⟩
  | .sub role n rest, h => by
    simp only [wfBranchesB, Bool.and_eq_true] at h
    simp only [dropNullBranches, wfBranchesB, Bool.and_eq_true]
    exact ⟨⟨h.1.1, wfNodeB_dropNull n h.1.2⟩, wfBranchesB_dropNull var rest h.2⟩
end

/-! ### an empty concept slot is invisible to `interpret` -/

theorem processRole_ne_concept {role : Str} (h : roleOk isAlpha m role = true) {core : Str} {es : List Epi}
    (hp : processRole isAlpha role = .ok (core, es)) : core ≠ CONCEPT_ROLE := by
  simp only [roleOk, hp, Bool.and_eq_true, decide_eq_true_eq] at h
  exact h.1.1.1.2

theorem branchOut_hasConcept (vs : List Str) (var : Str) (b : Branch) (o : InterpOut)
    (hb : layEdge isAlpha m var b = true) (h : branchOut isAlpha m vs var b = .ok o) : o.hasConcept = false := by
  obtain ⟨r, t⟩ := b
  cases t with
  | atom a =>
    simp only [layEdge, Bool.and_eq_true] at hb
    simp only [branchOut] at h
    cases hp : processRole isAlpha r with
    | error e => simp [hp, bind, Except.bind] at h
    | ok p =>
      obtain ⟨core, es⟩ := p
      have hne := processRole_ne_concept isAlpha m hb.1.1 hp
      cases hq : processAtomic isAlpha a with
      | error e => simp [hp, hq, bind, Except.bind] at h
      | ok q =>
        simp only [hp, hq, bind, Except.bind, pure, Except.pure, Except.ok.injEq] at h
        subst h; simp [hne]
  | node n =>
    simp only [layEdge, Bool.and_eq_true] at hb
    simp only [branchOut] at h
    cases hp : processRole isAlpha r with
    | error e => simp [hp, bind, Except.bind] at h
    | ok p =>
      obtain ⟨core, es⟩ := p
      have hne := processRole_ne_concept isAlpha m hb.1 hp
      cases hv : n.var with
      | none => simp [hp, hv, bind, Except.bind, throw, throwThe, MonadExceptOf.throw] at h
      | some nv =>
        cases hq : interpretNode isAlpha m vs n with
        | error e => simp [hp, hv, hq, bind, Except.bind] at h
        | ok q =>
          simp only [hp, hv, hq, bind, Except.bind, pure, Except.pure, Except.ok.injEq] at h
          subst h; simp [hne]

/-- the non-concept branches of a well-formed node never set the concept flag -/
theorem hasConcept_false (vs : List Str) (var : Str) : ∀ (bs : Branches) (out : InterpOut),
    wfBranchesB isAlpha m var bs = true → interpretBranches isAlpha m vs var bs = .ok out →
    out.hasConcept = false
  | .nil, out, _, h => by
    simp only [interpretBranches, Except.ok.injEq] at h; subst h; rfl
  | .atom role a rest, out, hw, h => by
    have hw' := (wfBranchesB_iff isAlpha m var _).1 hw
    rw [interpretBranches_atom, Except.bind_eq_ok_iff] at h
    obtain ⟨o, ho, h⟩ := h
    rw [Except.bind_eq_ok_iff] at h
    obtain ⟨out', hout', h⟩ := h
    simp only [pure, Except.pure, Except.ok.injEq] at h
    subst h
    have h1 := branchOut_hasConcept isAlpha m vs var _ o (hw' _ (by simp [Branches.toList])) ho
    have h2 := hasConcept_false vs var rest out'
      ((wfBranchesB_iff isAlpha m var rest).2 fun b hb => hw' b (by simp [Branches.toList, hb])) hout'
    simp [InterpOut.combine, h1, h2]
  | .sub role n rest, out, hw, h => by
    have hw' := (wfBranchesB_iff isAlpha m var _).1 hw
    rw [interpretBranches_sub, Except.bind_eq_ok_iff] at h
    obtain ⟨o, ho, h⟩ := h
    rw [Except.bind_eq_ok_iff] at h
    obtain ⟨out', hout', h⟩ := h
    simp only [pure, Except.pure, Except.ok.injEq] at h
    subst h
    have h1 := branchOut_hasConcept isAlpha m vs var _ o (hw' _ (by simp [Branches.toList])) ho
    have h2 := hasConcept_false vs var rest out'
      ((wfBranchesB_iff isAlpha m var rest).2 fun b hb => hw' b (by simp [Branches.toList, hb])) hout'
    simp [InterpOut.combine, h1, h2]

/-- with the concept slot empty, `_interpret_node` adds the very triple `(var :instance None)`
    the slot would have produced -/
theorem interpretNode_null (vs : List Str) (var : Str) (rest : Branches)
    (hw : wfBranchesB isAlpha m var rest = true) :
    interpretNode isAlpha m vs (.mk (some var) (.atom ['/'] .none rest)) =
      interpretNode isAlpha m vs (.mk (some var) rest) := by
  simp only [interpretNode, interpretBranches, processRole, processAtomic, if_true, atomInVars]
  cases hr : interpretBranches isAlpha m vs var rest with
  | error e => rfl
  | ok out =>
    have := hasConcept_false isAlpha m vs var rest out hw hr
    simp [bind, Except.bind, pure, Except.pure, this]

mutual
theorem interpretNode_dropNull (vs : List Str) : ∀ n : Node, wfNodeB isAlpha m n = true →
    interpretNode isAlpha m vs (dropNullConcept n) = interpretNode isAlpha m vs n
  | .mk none bs, h => by simp [wfNodeB] at h
  | .mk (some var) .nil, _ => by simp [dropNullConcept, dropNullBranches]
  | .mk (some var) (.atom role a rest), h => by
    by_cases hr : role = ['/']
    · subst hr
      rw [wfNodeB_slash, Bool.and_eq_true] at h
      have ih := interpretBranches_dropNull vs var rest h.2
      by_cases ha : a = .none
      · subst ha
        rw [interpretNode_null isAlpha m vs var rest h.2]
        simp only [dropNullConcept, dropNullBranches, and_self, if_true, interpretNode, ih]
      · simp only [dropNullConcept, dropNullBranches, ha, and_false, if_false, interpretNode,
          interpretBranches, ih]
    · simp only [wfNodeB, hr, if_false] at h
      have ih := interpretBranches_dropNull vs var (.atom role a rest) h
      simp only [dropNullConcept, interpretNode, ih]
  | .mk (some var) (.sub role n rest), h => by
    simp only [wfNodeB] at h
    have ih := interpretBranches_dropNull vs var (.sub role n rest) h
    simp only [dropNullConcept, interpretNode, ih]
theorem interpretBranches_dropNull (vs : List Str) (var : Str) : ∀ bs : Branches,
    wfBranchesB isAlpha m var bs = true →
    interpretBranches isAlpha m vs var (dropNullBranches bs) = interpretBranches isAlpha m vs var bs
  | .nil, _ => by simp [dropNullBranches]
  | .atom role a rest, h => by
    simp only [wfBranchesB, Bool.and_eq_true] at h
    have hr : role ≠ ['/'] := fun e => by
      have := h.1.1.1; rw [e, roleOk_slash] at this; exact absurd this (by simp)
    have ih := interpretBranches_dropNull vs var rest h.2
    simp only [dropNullBranches, hr, false_and, if_false, interpretBranches, ih]
  | .sub role n rest, h => by
    simp only [wfBranchesB, Bool.and_eq_true] at h
    have ih := interpretBranches_dropNull vs var rest h.2
    have ihn := interpretNode_dropNull vs n h.1.2
    have hv : (dropNullConcept n).var = n.var := dropNull_var n
    simp only [dropNullBranches, interpretBranches, ih, ihn, hv]
end

/-- **an empty concept slot is invisible to `interpret`**: on a tree that satisfies the per-node
    conditions of `WfLayout`, `(a / …)` with missing concept and `(a …)` give the same result
    (same graph: triples, top, epidata, metadata; or the same error) -/
theorem interpret_dropNull (n : Node) (md : AList Str Str) (h : wfNodeB isAlpha m n = true) :
    interpret isAlpha m ⟨dropNullConcept n, md⟩ = interpret isAlpha m ⟨n, md⟩ := by
  simp only [interpret, dropNull_vars, dropNull_var, interpretNode_dropNull isAlpha m _ n h]

/-! ### `WfLayout` is preserved -/

theorem wfLayout_dropNull (n : Node) (h : WfLayout isAlpha m n) : WfLayout isAlpha m (dropNullConcept n) := by
  obtain ⟨h1, h2, h3⟩ := h
  refine ⟨wfNodeB_dropNull isAlpha m n h1, by rwa [dropNull_vars], ?_⟩
  simp only [distinctTriplesB, dropNull_vars, interpretNode_dropNull isAlpha m _ n h1] at h3 ⊢
  exact h3

theorem wfLayout_rearrange (mm : Model) (vars : List Str) (key : Option (List KeyFn)) (n : Node)
    (h : WfLayout isAlpha m n) : WfLayout isAlpha m (rearrangeNode mm vars key n) := by
  obtain ⟨h1, h2, h3⟩ := h
  have hp := rearrangeNode_vars_perm mm vars key n
  refine ⟨wfNodeB_rearrange isAlpha m mm vars key n h1, hp.nodup_iff.2 h2, ?_⟩
  simp only [distinctTriplesB] at h3 ⊢
  cases hi : interpretNode isAlpha m n.vars n with
  | error e => simp [hi] at h3
  | ok p =>
    obtain ⟨ts, es⟩ := p
    simp only [hi, decide_eq_true_eq] at h3
    obtain ⟨ts', es', h4, hts, _⟩ := NodePerm.interp isAlpha m n.vars n (rearrangeNode_perm mm vars key n) ts es hi
    rw [interpretNode_congr isAlpha m (fun x => hp.mem_iff) _, h4]
    simp only [decide_eq_true_eq]
    exact hts.nodup_iff.2 h3

end Penman.NF

/-
  Penman.Proofs.SubRoles — a readable sufficient condition for `subRoleOk`
  (the hypothesis of `interpret_all_reach`): the role text of a nested-node
  branch, with its alignment stripped, is none of `:instance`, `instance`,
  `:instance-of`, `instance-of`.
-/
import Penman.Proofs.InterpReach
namespace Penman

/-- the four role texts that end up as the instance role on a nested-node branch -/
def instanceLike : List Str :=
  [":instance".toList, "instance".toList, ":instance-of".toList, "instance-of".toList]

theorem ensureColon_eq_concept (x : Str) (h : ensureColon x = CONCEPT_ROLE) :
    x = ":instance".toList ∨ x = "instance".toList := by
  unfold ensureColon at h
  split at h
  · exact Or.inl h
  · right
    have : ':' :: x = ':' :: "instance".toList := h
    exact List.tail_eq_of_cons_eq this

theorem eq_dropEnd_append_of (r : Str) (h : endsWith ofStr r = true) : r = dropEnd 3 r ++ ofStr := by
  unfold endsWith at h
  rw [List.isSuffixOf_iff_suffix] at h
  obtain ⟨t, ht⟩ := h
  subst ht
  have : dropEnd 3 (t ++ ofStr) = t := by
    unfold dropEnd
    have hl : (t ++ ofStr).length - 3 = t.length := by
      simp [ofStr]
    rw [hl, List.take_left']
    rfl
  rw [this]

theorem deinvRole_cases (m : Model) (r : Str) :
    deinvRole m r = r ∨ (endsWith ofStr r = true ∧ deinvRole m r = dropEnd 3 r) := by
  unfold deinvRole
  by_cases hn : m.noop = true
  · simp [hn]
  · simp only [hn, Bool.false_eq_true, if_false]
    by_cases hi : m.isRoleInverted r = true
    · simp only [hi, if_true]
      right
      unfold Model.isRoleInverted at hi
      simp only [Bool.and_eq_true] at hi
      refine ⟨hi.2, ?_⟩
      unfold Model.invertRole
      simp [hi.1, hi.2]
    · simp [hi]

/-- if the processed role is not instance-like, the branch is fine for every model -/
theorem subRoleOk_of_not_instanceLike (isAlpha : Char → Bool) (m : Model) (role : Str)
    (h : ∀ r e, processRole isAlpha role = .ok (r, e) → r ∉ instanceLike) :
    subRoleOk isAlpha m role = true := by
  unfold subRoleOk
  split
  · rename_i r e hp
    have hr := h r e hp
    simp only [bne_iff_ne, ne_eq]
    intro hc
    rcases ensureColon_eq_concept _ hc with hx | hx
    · rcases deinvRole_cases m r with h1 | ⟨h1, h2⟩
      · rw [h1] at hx
        exact hr (by rw [hx]; simp [instanceLike])
      · rw [h2] at hx
        have := eq_dropEnd_append_of r h1
        rw [hx] at this
        exact hr (by rw [this]; simp [instanceLike, ofStr])
    · rcases deinvRole_cases m r with h1 | ⟨h1, h2⟩
      · rw [h1] at hx
        exact hr (by rw [hx]; simp [instanceLike])
      · rw [h2] at hx
        have := eq_dropEnd_append_of r h1
        rw [hx] at this
        exact hr (by rw [this]; simp [instanceLike, ofStr])
  · rfl

end Penman

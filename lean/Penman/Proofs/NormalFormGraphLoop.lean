/-
  Penman.Proofs.NormalFormGraphLoop — a new invariant of the cell store of `configure`:
  an atomic edge of the cell of `v` whose target is `v` itself (a self-loop `(v :R v)`) is written
  with a role that is not inverted, provided the self-loop triples of the graph have non-inverted
  roles and carry no `Push(source)` marker.
  1. `preconfigure` inverts a triple only for a `Push(source)` marker it really carries
     (`preconfigure_origin`);
  2. `configureNode` / `findNext` / `configureLoop` never create a self-loop edge from a triple that
     is not one (`sl_cn`, `sl_loop`);
  3. `storeOf_sl`.
-/
import Penman.Proofs.EncodeDecodeB
import Penman.Spec.NormalFormGraph

namespace Penman
namespace Cfg
open Penman.C20gen Penman.C03Text

/-! ### 1. what `preconfigure` does to one triple, with the marker that caused it -/

/-- the datum triple `tr` made from the graph triple `orig` with marker list `all` -/
def Origin (m : Model) (orig : Triple) (all : List Epi) (tr : Triple) : Prop :=
  tr = orig ∨ (Epi.push orig.src ∈ all ∧ (∃ b, orig.tgt = .str b) ∧ orig.role ≠ CONCEPT_ROLE ∧ tr = m.invert orig)

theorem preconfEpis_origin (m : Model) (orig : Triple) (all : List Epi) : ∀ es tr push epis pops pushed r,
    (∀ e ∈ es, e ∈ all) → (tr = orig ∨ (orig.src ∈ pushed ∧ Origin m orig all tr)) →
    preconfEpis m orig es tr push epis pops pushed = .ok r → Origin m orig all r.1 := by
  intro es tr push epis pops pushed
  fun_induction preconfEpis m orig es tr push epis pops pushed <;> intro r hall hinv h
  · simp only [Except.ok.injEq] at h; subst h
    rcases hinv with rfl | ⟨_, h⟩
    · exact Or.inl rfl
    · exact h
  · rename_i ih; exact ih r (fun e he => hall e (List.mem_cons_of_mem _ he)) hinv h
  · rename_i ih; exact ih r (fun e he => hall e (List.mem_cons_of_mem _ he)) hinv h
  · rename_i rest tr push epis pops pushed s htg hnp hcond ih
    apply ih r (fun e he => hall e (List.mem_cons_of_mem _ he)) _ h
    right
    have htr : tr = orig := by
      rcases hinv with h | ⟨h, _⟩
      · exact h
      · exact absurd h hnp
    subst htr
    refine ⟨by simp, Or.inr ⟨?_, ⟨s, htg⟩, ?_, rfl⟩⟩
    · exact hall _ List.mem_cons_self
    · intro hc; exact hcond (Or.inr hc)
  · simp at h
  · rename_i ih
    apply ih r (fun e he => hall e (List.mem_cons_of_mem _ he)) _ h
    rcases hinv with h | ⟨h1, h2⟩
    · exact Or.inl h
    · exact Or.inr ⟨List.mem_cons_of_mem _ h1, h2⟩
  · rename_i ih; exact ih r (fun e he => hall e (List.mem_cons_of_mem _ he)) hinv h
  · rename_i ih; exact ih r (fun e he => hall e (List.mem_cons_of_mem _ he)) hinv h

/-- every triple datum comes from a graph triple, inverted only for a `Push(source)` it carries -/
theorem preconfigure_origin (m : Model) (ep : Epidata) : ∀ ts pushed data,
    preconfigure m ep ts pushed = .ok data →
    ∀ tr p es, Datum.t tr p es ∈ data → ∃ orig ∈ ts, Origin m orig ((AList.get? ep orig).getD []) tr := by
  intro ts
  induction ts with
  | nil => intro pushed data h tr p es hm; simp [preconfigure] at h; subst h; simp at hm
  | cons t ts ih =>
    intro pushed data h tr p es hm
    simp only [preconfigure] at h
    cases h1 : preconfEpis m t ((AList.get? ep t).getD []) t false [] 0 pushed with
    | error e1 => rw [h1] at h; simp [bind, Except.bind] at h
    | ok r =>
      obtain ⟨tr', push, epis, pops, pushed'⟩ := r
      rw [h1] at h
      simp only [bind, Except.bind] at h
      cases h2 : preconfigure m ep ts pushed' with
      | error e2 => rw [h2] at h; simp at h
      | ok more =>
        rw [h2] at h
        simp only [pure, Except.pure, Except.ok.injEq] at h
        subst h
        rcases List.mem_cons.1 hm with hm | hm
        · cases hm
          exact ⟨t, List.mem_cons_self,
            preconfEpis_origin m t _ _ _ _ _ _ _ _ (fun _ he => he) (Or.inl rfl) h1⟩
        rcases List.mem_append.1 hm with hm | hm
        · have := (List.mem_replicate.1 hm).2; cases this
        · obtain ⟨o, ho, hO⟩ := ih _ _ h2 tr p es hm
          exact ⟨o, List.mem_cons_of_mem _ ho, hO⟩

/-! ### 2. the invariant -/

/-- a self-loop datum has a role that is not inverted -/
def LoopData (m : Model) (l : List Datum) : Prop :=
  ∀ tr p es, Datum.t tr p es ∈ l → writtenAtom tr.tgt = .str tr.src → m.isRoleInverted tr.role = false

/-- a self-loop edge (atomic target = the variable of its own cell) has a role that is not inverted -/
def SLes (m : Model) (v : Str) (es : List Edge) : Prop :=
  ∀ e ∈ es, ∀ a, e.tgt = .atom a → writtenAtom a = .str v → m.isRoleInverted e.role = false

def SL (m : Model) (c : Cells) : Prop := ∀ p ∈ c, SLes m p.1 p.2

theorem slash_not_inverted (m : Model) : m.isRoleInverted ['/'] = false := by
  unfold Model.isRoleInverted
  have : endsWith ofStr ['/'] = false := by decide
  simp [this]

theorem sl_set {m : Model} {c : Cells} {k : Str} {es : List Edge} (h : SL m c) (hes : SLes m k es) :
    SL m (AList.set c k es) := by
  intro p hp
  rcases mem_set hp with h1 | h1
  · exact h p h1
  · subst h1; exact hes

theorem sl_cell {m : Model} {st : St} (h : SL m st.cells) (v : Str) : SLes m v (st.cell v) := by
  rcases cell_cases st v with h1 | h1
  · rw [h1]; intro e he; simp at he
  · exact h _ h1

theorem sl_addBack {m : Model} {st : St} {var : Str} {e : Edge} (h : SL m st.cells)
    (he : ∀ a, e.tgt = .atom a → writtenAtom a = .str var → m.isRoleInverted e.role = false) :
    SL m (st.addBack var e).cells := by
  apply sl_set h
  intro x hx
  rcases List.mem_append.1 hx with hx | hx
  · exact sl_cell h var x hx
  · simp only [List.mem_singleton] at hx; subst hx; exact he

theorem sl_addFront {m : Model} {st : St} {var : Str} {a : Atom} {epis : List Epi} (h : SL m st.cells) :
    SL m (st.addFront var ⟨['/'], .atom a, epis⟩).cells := by
  apply sl_set h
  intro x hx
  rcases List.mem_cons.1 hx with hx | hx
  · subst hx; intro _ _ _; exact slash_not_inverted m
  · exact sl_cell h var x hx

theorem sl_getOrEstablish {m : Model} {st : St} {v : Str} (h : SL m st.cells) : SL m (getOrEstablish st v).2.cells := by
  unfold getOrEstablish
  split
  · exact h
  · rename_i u _
    simp only []
    apply sl_set
    · apply sl_set h
      intro x hx a hxt hxa
      rcases establishIn_mem hx with hx' | hx'
      · exact sl_cell h u x hx' a hxt hxa
      · rw [hx'] at hxt; cases hxt
    · intro e he; simp at he
  · exact h

theorem sl_findNext {m : Model} : ∀ data rev st, SL m st.cells → SL m (findNext data rev st).2.2.2.cells := by
  intro data rev st
  fun_induction findNext data rev st <;> intro h
  · exact h
  · exact h
  · rename_i ih; exact ih h
  · rename_i tr push epis rest rev st d trySrc h1
    simp only [trySrc]; split
    · exact sl_getOrEstablish h
    · exact h
  · rename_i tr push epis rest rev st d trySrc h1 tv htv tryTgt h2
    have hT : SL m trySrc.2.cells := by
      simp only [trySrc]; split
      · exact sl_getOrEstablish h
      · exact h
    simp only [tryTgt]; split
    · exact sl_getOrEstablish hT
    · exact hT
  · rename_i tr push epis rest rev st d trySrc h1 tv htv tryTgt h2 ih
    have hT : SL m trySrc.2.cells := by
      simp only [trySrc]; split
      · exact sl_getOrEstablish h
      · exact h
    have hU : SL m tryTgt.2.cells := by
      simp only [tryTgt]; split
      · exact sl_getOrEstablish hT
      · exact hT
    exact ih hU
  · rename_i tr push epis rest rev st d trySrc h1 hnt ih
    have hT : SL m trySrc.2.cells := by
      simp only [trySrc]; split
      · exact sl_getOrEstablish h
      · exact h
    exact ih hT

/-- the orientation step never makes a self-loop out of a triple that is not one -/
theorem orient_loop {m : Model} {var : Str} {tr : Triple} {push s : Bool} {role : Str} {target : Atom}
    {push' s' : Bool} (h : orient m var tr push s = some (role, target, push', s'))
    (ht : writtenAtom target = .str var) : role = tr.role ∧ writtenAtom tr.tgt = .str tr.src := by
  unfold orient at h
  split at h
  · rename_i h1
    simp only [Option.some.injEq, Prod.mk.injEq] at h
    obtain ⟨rfl, rfl, _, _⟩ := h
    exact ⟨rfl, by rw [ht, h1]⟩
  · rename_i hne
    split at h
    · rename_i h2
      simp only [Option.some.injEq, Prod.mk.injEq] at h
      obtain ⟨_, h3, _, _⟩ := h
      exfalso
      rw [invert_tgt] at h3
      rw [← h3] at ht
      simp only [writtenAtom, Atom.str.injEq] at ht
      exact hne ht
    · simp at h

theorem sl_cn (m : Model) : ∀ f var data st s, SL m st.cells → LoopData m data →
    SL m (configureNode m f var data st s).2.1.cells := by
  intro f
  induction f with
  | zero => intro var data st s h _; exact h
  | succ f ih =>
    intro var data st s h hd
    cases data with
    | nil => exact h
    | cons d data =>
      cases d with
      | pop => exact h
      | t tr push epis =>
        have hd' : LoopData m data := fun tr p es hm => hd tr p es (List.mem_cons_of_mem _ hm)
        have hrt := hd tr push epis List.mem_cons_self
        simp only [configureNode]
        split
        · exact h
        · rename_i role target push' s' hor
          split
          · split
            · exact ih _ _ _ _ h hd'
            · exact ih _ _ _ _ (sl_addFront h) hd'
          · split
            · rename_i v hp
              have h1 : SL m (st.newCell v).cells := sl_set h (fun e he => by simp at he)
              have h2 := ih v data (st.newCell v) false h1 hd'
              have hd2 : LoopData m (configureNode m f v data (st.newCell v) false).1 :=
                fun tr p es hm => hd' tr p es ((cn_suffix m f v data (st.newCell v) false).subset hm)
              exact ih _ _ _ _ (sl_addBack h2 (fun a he => by cases he)) hd2
            · have h1 : SL m (st.noteSite var target).cells := by rw [cells_noteSite]; exact h
              refine ih _ _ _ _ (sl_addBack h1 ?_) hd'
              intro a he ha
              simp only [ETgt.atom.injEq] at he
              subst he
              obtain ⟨e1, e2⟩ := orient_loop hor ha
              rw [e1]; exact hrt e2

theorem sl_round {m : Model} {a b} (h : Round m a b) (hp : SL m a.2.2.cells)
    (hd : LoopData m a.1) (hs : LoopData m a.2.1) : SL m b.2.2.cells ∧ LoopData m b.1 ∧ LoopData m b.2.1 := by
  cases h with
  | @skip data skipped st sk v st1 tr push epis rest hfn ho =>
    obtain ⟨hcat, _⟩ := findNext_some _ _ _ hfn
    simp only [List.reverse_nil, List.nil_append] at hcat
    have := sl_findNext data [] st hp
    rw [hfn] at this
    refine ⟨this, ?_, ?_⟩
    · intro tr' p es hm
      apply hd tr' p es; rw [← hcat]
      exact List.mem_append_right _ (List.mem_cons_of_mem _ ((stripPops_suffix rest).subset hm))
    · intro tr' p es hm
      simp only [List.mem_append, List.mem_singleton] at hm
      rcases hm with (hm | hm) | hm
      · apply hd tr' p es; rw [← hcat]; exact List.mem_append_left _ hm
      · exact hs tr' p es hm
      · apply hd tr' p es; rw [← hcat, hm]; simp
  | @prog data skipped st sk v st1 tr push epis rest hfn ho =>
    obtain ⟨hcat, _⟩ := findNext_some _ _ _ hfn
    simp only [List.reverse_nil, List.nil_append] at hcat
    have h1 := sl_findNext data [] st hp
    rw [hfn] at h1
    have hd1 : LoopData m (.t tr push epis :: rest) := by
      intro tr' p es hm; apply hd tr' p es; rw [← hcat]; exact List.mem_append_right _ hm
    refine ⟨sl_cn m _ v _ st1 false h1 hd1, ?_, fun _ _ _ hm => by simp at hm⟩
    intro tr' p es hm
    have := (stripPops_suffix _).subset hm
    simp only [List.mem_append] at this
    rcases this with h | h | h
    · exact hd1 tr' p es ((cn_suffix _ _ _ _ _ _).subset h)
    · apply hd tr' p es; rw [← hcat]; exact List.mem_append_left _ h
    · exact hs tr' p es h

theorem sl_loop (m : Model) : ∀ fuel data skipped st st', SL m st.cells → LoopData m data → LoopData m skipped →
    configureLoop m fuel data skipped st = .ok st' → SL m st'.cells := by
  intro fuel
  induction fuel with
  | zero => intro data skipped st st' _ _ _ h; simp [configureLoop] at h
  | succ fuel ih =>
    intro data skipped st st' hp hd hs h
    cases data with
    | nil =>
      simp only [configureLoop] at h
      split at h
      · simp only [Except.ok.injEq] at h; subst h; exact hp
      · simp at h
    | cons d data =>
      rcases loop_cases m d data skipped st with ⟨_, e⟩ | ⟨nx, hround, e⟩
      · rw [e] at h; simp at h
      · rw [e] at h
        obtain ⟨p1, d1, s1⟩ := sl_round hround hp hd hs
        exact ih _ _ _ _ p1 d1 s1 h

/-! ### 3. the final store -/

theorem concept_not_inverted (m : Model) : m.isRoleInverted CONCEPT_ROLE = false := by
  unfold Model.isRoleInverted
  have : endsWith ofStr CONCEPT_ROLE = false := by decide
  simp [this]

/-- in the final store, no self-loop edge has an inverted role -/
theorem storeOf_sl {m : Model} {g : Graph} {top : Str} {st : St}
    (hloop : ∀ t ∈ g.triples, t.role ≠ CONCEPT_ROLE → writtenAtom t.tgt = .str t.src →
      m.isRoleInverted t.role = false ∧ hasPush t.src ((AList.get? g.epidata t).getD []) = false)
    (h : storeOf m g top = .ok st) : SL m st.cells := by
  unfold storeOf at h
  cases hp : preconfigure m g.epidata g.triples [] with
  | error e1 => rw [hp] at h; simp [Except.bind] at h
  | ok data =>
    rw [hp] at h
    simp only [Except.bind] at h
    have horg := preconfigure_origin m _ _ _ _ hp
    have hd : LoopData m data := by
      intro tr p es hm hself
      obtain ⟨orig, ho, hO⟩ := horg tr p es hm
      rcases hO with rfl | ⟨hpush, ⟨b, hb⟩, hr, rfl⟩
      · by_cases hc : tr.role = CONCEPT_ROLE
        · rw [hc]; exact concept_not_inverted m
        · exact (hloop tr ho hc hself).1
      · exfalso
        rw [invert_tgt, invert_src m orig b hb] at hself
        have hbs : orig.src = b := by simpa [writtenAtom] using hself
        have := (hloop orig ho hr (by rw [hb, hbs]; rfl)).2
        simp only [hasPush, List.contains_eq_mem, decide_eq_false_iff_not] at this
        exact this hpush
    have h0 : SL m (st0 g top).cells := by
      intro p hp; simp [st0] at hp; subst hp; intro e he; simp at he
    have h1 := sl_cn m (data.length + 1) top data (st0 g top) false h0 hd
    have hd1 : LoopData m (stripPops (configureNode m (data.length + 1) top data (st0 g top) false).1) :=
      fun tr p es hm => hd tr p es ((cn_suffix _ _ _ _ _ _).subset ((stripPops_suffix _).subset hm))
    exact sl_loop m _ _ _ _ _ h1 hd1 (fun _ _ _ hm => by simp at hm) h

end Cfg
end Penman

/-
  Penman.Proofs.CheckCli — the command-line part of property C16:
  "The command-line tool with --check exits non-zero exactly when at least
  one graph in any of its inputs has an error, and records every offending
  triple in that graph's metadata."

  `m.errors g` is kept opaque throughout.
-/
import Penman.Spec.Reach
import Std.Data.String.ToNat
namespace Penman

/-! ### `natToStr` is injective -/

theorem natToStr_inj {a b : Nat} (h : natToStr a = natToStr b) : a = b := by
  unfold natToStr at h
  exact Nat.repr_inj.1 (String.toList_inj.1 h)

/-- the metadata key `error-i` -/
def errKey (i : Nat) : Str := "error-".toList ++ natToStr i

theorem errKey_inj {a b : Nat} (h : errKey a = errKey b) : a = b :=
  natToStr_inj (List.append_cancel_left h)

/-! ### association lists -/

theorem AList.get?_set {α β : Type} [DecidableEq α] (d : AList α β) (k k' : α) (v : β) :
    AList.get? (AList.set d k v) k' = if k = k' then some v else AList.get? d k' := by
  induction d with
  | nil =>
    by_cases h : k = k' <;> simp [AList.set, AList.get?, h]
  | cons p r ih =>
    obtain ⟨a, b⟩ := p
    unfold AList.set
    by_cases hak : a = k
    · subst hak
      by_cases h : a = k' <;> simp [AList.get?, h]
    · simp only [hak, if_false]
      by_cases hak' : a = k'
      · subst hak'
        have : ¬ k = a := fun h => hak h.symm
        simp [AList.get?, this]
      · have e1 : AList.get? ((a, b) :: AList.set r k v) k' = AList.get? (AList.set r k v) k' := by
          simp [AList.get?, hak']
        have e2 : AList.get? ((a, b) :: r) k' = AList.get? r k' := by
          simp [AList.get?, hak']
        rw [e1, e2, ih]

/-! ### `checkGraph` -/

/-- the text `checkGraph` puts in front of the message: the offending triple -/
def errCtx : Option Triple → Str
  | some t => '(' :: t.src ++ [' '] ++ t.role ++ [' '] ++ atomStr t.tgt ++ ") ".toList
  | none => []

/-- one iteration of the `for i, (triple, msgs) in enumerate(...)` loop of `_check` -/
def checkStep (acc : AList Str Str × Nat) (p : Option Triple × List Nat) : AList Str Str × Nat :=
  (p.2.foldl (fun md e => AList.set md (errKey acc.2) (errCtx p.1 ++ errMsg e)) acc.1, acc.2 + 1)

theorem checkGraph_eq (m : Model) (g : Graph) :
    checkGraph m g = if m.errors g = [] then (g, 0)
      else ({ g with metadata := ((m.errors g).foldl checkStep (g.metadata, 1)).1 }, 1) := by
  unfold checkGraph
  simp only [List.isEmpty_iff]
  split
  · rfl
  · congr 2

theorem checkGraph_code (m : Model) (g : Graph) :
    (checkGraph m g).2 = if m.errors g = [] then 0 else 1 := by
  rw [checkGraph_eq]; split <;> rfl

theorem checkGraph_triples (m : Model) (g : Graph) : (checkGraph m g).1.triples = g.triples := by
  rw [checkGraph_eq]; split <;> rfl

theorem checkGraph_top (m : Model) (g : Graph) : (checkGraph m g).1.top = g.top := by
  rw [checkGraph_eq]; split <;> rfl

theorem checkGraph_epidata (m : Model) (g : Graph) : (checkGraph m g).1.epidata = g.epidata := by
  rw [checkGraph_eq]; split <;> rfl

theorem checkGraph_metadata (m : Model) (g : Graph) (h : m.errors g ≠ []) :
    (checkGraph m g).1.metadata = ((m.errors g).foldl checkStep (g.metadata, 1)).1 := by
  rw [checkGraph_eq, if_neg h]

theorem checkGraph_noerr (m : Model) (g : Graph) (h : m.errors g = []) : checkGraph m g = (g, 0) := by
  rw [checkGraph_eq, if_pos h]

/-- inner loop: another key is untouched -/
theorem get?_msgs_ne (key key' : Str) (c : Str) (cs : List Nat) (md : AList Str Str) (h : key ≠ key') :
    AList.get? (cs.foldl (fun md e => AList.set md key (c ++ errMsg e)) md) key' = AList.get? md key' := by
  induction cs generalizing md with
  | nil => rfl
  | cons e r ih => simp only [List.foldl_cons]; rw [ih, AList.get?_set, if_neg h]

/-- inner loop: the last message wins -/
theorem get?_msgs_eq (key : Str) (c : Str) (cs : List Nat) (md : AList Str Str) (hcs : cs ≠ []) :
    AList.get? (cs.foldl (fun md e => AList.set md key (c ++ errMsg e)) md) key
      = some (c ++ errMsg (cs.getLast hcs)) := by
  induction cs generalizing md with
  | nil => exact absurd rfl hcs
  | cons e r ih =>
    simp only [List.foldl_cons]
    cases r with
    | nil => simp [AList.get?_set]
    | cons e' r' =>
      rw [ih _ (by simp)]
      simp

theorem checkStep_eq (md : AList Str Str) (i : Nat) (p : Option Triple × List Nat) :
    checkStep (md, i) p
      = (p.2.foldl (fun md e => AList.set md (errKey i) (errCtx p.1 ++ errMsg e)) md, i + 1) := rfl

theorem checkStep_snd (errs : List (Option Triple × List Nat)) (md0 : AList Str Str) (i0 : Nat) :
    (errs.foldl checkStep (md0, i0)).2 = i0 + errs.length := by
  induction errs generalizing md0 i0 with
  | nil => rfl
  | cons p r ih =>
    simp only [List.foldl_cons, List.length_cons]; rw [checkStep_eq, ih]; omega

/-- keys with a smaller number than the running counter are not written any more -/
theorem get?_checkFold_lt (errs : List (Option Triple × List Nat)) (md0 : AList Str Str) (i0 i : Nat)
    (h : i < i0) :
    AList.get? (errs.foldl checkStep (md0, i0)).1 (errKey i) = AList.get? md0 (errKey i) := by
  induction errs generalizing md0 i0 with
  | nil => rfl
  | cons p r ih =>
    simp only [List.foldl_cons]
    rw [checkStep_eq, ih _ _ (by omega)]
    apply get?_msgs_ne
    intro e; have := errKey_inj e; omega

theorem get?_checkFold (errs : List (Option Triple × List Nat)) (md0 : AList Str Str) (i0 j : Nat)
    (k : Option Triple) (cs : List Nat) (hj : errs[j]? = some (k, cs)) (hcs : cs ≠ []) :
    AList.get? (errs.foldl checkStep (md0, i0)).1 (errKey (i0 + j))
      = some (errCtx k ++ errMsg (cs.getLast hcs)) := by
  induction errs generalizing md0 i0 j with
  | nil => simp at hj
  | cons p r ih =>
    simp only [List.foldl_cons]
    rw [checkStep_eq]
    cases j with
    | zero =>
      simp at hj; subst hj
      rw [get?_checkFold_lt _ _ _ _ (by omega)]
      exact get?_msgs_eq _ _ _ _ hcs
    | succ j =>
      simp at hj
      have := ih (p.2.foldl (fun md e => AList.set md (errKey i0) (errCtx p.1 ++ errMsg e)) md0)
        (i0 + 1) j hj
      rw [show i0 + (j + 1) = i0 + 1 + j by omega]
      exact this

/-- C16 (metadata): the `j`-th entry of `m.errors g` is recorded under `error-(j+1)` -/
theorem check_metadata_entry (m : Model) (g : Graph) (j : Nat) (k : Option Triple) (cs : List Nat)
    (hj : (m.errors g)[j]? = some (k, cs)) (hcs : cs ≠ []) :
    AList.get? (checkGraph m g).1.metadata ("error-".toList ++ natToStr (j+1))
      = some (errCtx k ++ errMsg (cs.getLast hcs)) := by
  have hne : m.errors g ≠ [] := by intro h; rw [h] at hj; simp at hj
  rw [checkGraph_metadata m g hne]
  have := get?_checkFold (m.errors g) g.metadata 1 j k cs hj hcs
  rw [Nat.add_comm 1 j] at this
  exact this

theorem check_metadata (m : Model) (g : Graph) (t : Triple) (cs : List Nat)
    (hmem : (some t, cs) ∈ m.errors g) (hcs : cs ≠ []) :
    ∃ i, 1 ≤ i ∧ i ≤ (m.errors g).length ∧ ∃ v,
      AList.get? (checkGraph m g).1.metadata ("error-".toList ++ natToStr i) = some v ∧
      (errCtx (some t)).isPrefixOf v = true ∧ errCtx (some t) <+: v := by
  obtain ⟨j, hlt, hj⟩ := List.getElem_of_mem hmem
  refine ⟨j + 1, by omega, by omega, _, check_metadata_entry m g j (some t) cs ?_ hcs, ?_, ?_⟩
  · rw [List.getElem?_eq_getElem hlt, hj]
  · simp
  · simp

/-! #### non-vacuity: the docstring graph of `Model.errors` -/

/-- `(a :instance alpha) (a :foo bar) (b :instance beta)` under the default model:
    `:foo` is an invalid role and `b` is unreachable -/
def exCheckGraph : Graph :=
  { triples := [⟨"a".toList, ":instance".toList, .str "alpha".toList⟩,
      ⟨"a".toList, ":foo".toList, .str "bar".toList⟩,
      ⟨"b".toList, ":instance".toList, .str "beta".toList⟩] }

example : ({} : Model).errors exCheckGraph
    = [(some ⟨"a".toList, ":foo".toList, .str "bar".toList⟩, [0]),
       (some ⟨"b".toList, ":instance".toList, .str "beta".toList⟩, [1])] := by decide +kernel

example : (checkGraph {} exCheckGraph).2 = 1 := by decide +kernel

example : (checkGraph {} exCheckGraph).1.metadata
    = [("error-1".toList, "(a :foo bar) invalid role".toList),
       ("error-2".toList, "(b :instance beta) unreachable".toList)] := by decide +kernel

/-! ### `processTree` : the status of one graph -/

theorem processTree_code {u : UTables} {m : Model} {o : Opts} {t : Tree} {s : Str} {code : Nat}
    (h : processTree u m o t = .ok (s, code)) :
    ∃ g, processIn u m o t = .ok g ∧
      code = (if o.check = true ∧ m.errors g ≠ [] then 1 else 0) := by
  unfold processTree at h
  cases hp : processIn u m o t with
  | error e => rw [hp] at h; cases h
  | ok g =>
    refine ⟨g, rfl, ?_⟩
    rw [hp] at h
    have key : ∀ (r : Graph × Nat) (X : Except PyErr (Str × Nat)),
        X = .ok (s, code) →
        (X = (if o.triples = true then
            pure (formatTriples r.1.triples (match o.indent with | none => false | some i => i != 0), r.2)
          else (processOut u m o r.1).bind fun t => pure (format t o.indent o.compact, r.2))) →
        code = r.2 := by
      intro r X hX hdef
      rw [hX] at hdef
      split at hdef
      · cases hdef; rfl
      · cases hq : processOut u m o r.1 with
        | error e => rw [hq] at hdef; cases hdef
        | ok t' => rw [hq] at hdef; cases hdef; rfl
    have := key (if o.check = true then checkGraph m g else (g, 0)) _ h rfl
    rw [this]
    cases hc : o.check
    · simp
    · simp [checkGraph_code]

/-! ### `processLoop` : the status of one input -/

/-- some tree of the list yields a graph with a model error -/
def HasErr (u : UTables) (m : Model) (o : Opts) (trees : List Tree) : Prop :=
  ∃ tree ∈ trees, ∃ g, processIn u m o tree = .ok g ∧ m.errors g ≠ []

theorem or_bit (a b : Nat) (ha : a ≤ 1) (hb : b ≤ 1) : (a ||| b) ≤ 1 ∧ ((a ||| b) = 1 ↔ a = 1 ∨ b = 1) := by
  have : a = 0 ∨ a = 1 := by omega
  have : b = 0 ∨ b = 1 := by omega
  rcases ‹a = 0 ∨ a = 1› with rfl | rfl <;> rcases ‹b = 0 ∨ b = 1› with rfl | rfl <;> decide

theorem processLoop_code {u : UTables} {m : Model} {o : Opts} {c : PCtx} (f : Nat) (toks : List Tok)
    (first : Bool) (out : Str) (code0 : Nat) (out' : Str) (code : Nat)
    (h : processLoop u m o c f toks first out code0 = (out', .ok code)) :
    ∃ trees, ParsedTrees c u.isSpace toks trees ∧
      (∀ tree ∈ trees, ∃ r, processTree u m o tree = .ok r) ∧
      ∃ b, b ≤ 1 ∧ code = code0 ||| b ∧ (b = 1 ↔ o.check = true ∧ HasErr u m o trees) := by
  induction f generalizing toks first out code0 with
  | zero => simp [processLoop] at h
  | succ f ih =>
    cases toks with
    | nil =>
      simp only [processLoop, Prod.mk.injEq, Except.ok.injEq] at h
      refine ⟨[], .nil, by simp, 0, by omega, by simp [h.2], ?_⟩
      simp [HasErr]
    | cons t ts =>
      simp only [processLoop] at h
      split at h
      · rename_i hty
        split at h
        · simp at h
        · rename_i tree rest hparse
          split at h
          · simp at h
          · rename_i s code' hproc
            obtain ⟨trees, hpt, hall, b, hb, hcode, hiff⟩ := ih _ _ _ _ h
            obtain ⟨g, hg, hc'⟩ := processTree_code hproc
            have hc'1 : code' ≤ 1 := by rw [hc']; split <;> omega
            obtain ⟨hle, hor⟩ := or_bit code' b hc'1 hb
            refine ⟨tree :: trees, .cons hty hparse hpt, ?_, code' ||| b, hle, ?_, ?_⟩
            · intro tr htr
              rcases List.mem_cons.1 htr with rfl | h'
              · exact ⟨_, hproc⟩
              · exact hall _ h'
            · rw [hcode, Nat.or_assoc]
            · rw [hor, hiff]
              constructor
              · rintro (h1 | ⟨hck, tr, htr, hh⟩)
                · rw [hc'] at h1
                  split at h1
                  · rename_i hh; exact ⟨hh.1, tree, by simp, g, hg, hh.2⟩
                  · cases h1
                · exact ⟨hck, tr, by simp [htr], hh⟩
              · rintro ⟨hck, tr, htr, g', hg', he⟩
                rcases List.mem_cons.1 htr with rfl | h'
                · left
                  rw [hg] at hg'; cases hg'
                  rw [hc', if_pos ⟨hck, he⟩]
                · exact Or.inr ⟨hck, tr, h', g', hg', he⟩
      · rename_i hty
        simp only [Prod.mk.injEq, Except.ok.injEq] at h
        refine ⟨[], .stop hty, by simp, 0, by omega, by simp [h.2], ?_⟩
        simp [HasErr]

theorem ParsedTrees_unique {c : PCtx} {sp : Char → Bool} {toks : List Tok} {l₁ l₂ : List Tree}
    (h₁ : ParsedTrees c sp toks l₁) (h₂ : ParsedTrees c sp toks l₂) : l₁ = l₂ := by
  induction h₁ generalizing l₂ with
  | nil => cases h₂; rfl
  | stop hn =>
    cases h₂ with
    | stop _ => rfl
    | cons hy _ _ => exact absurd hy hn
  | cons hy hp _ ih =>
    cases h₂ with
    | stop hn => exact absurd hy hn
    | cons _ hp' ht' =>
      rw [hp] at hp'; cases hp'
      rw [ih ht']

/-! ### `mainRun` : the exit status of the command -/

theorem InputTrees_unique {cfg : LexCfg} {u : UTables} {input : Str} {l₁ l₂ : List Tree}
    (h₁ : InputTrees cfg u input l₁) (h₂ : InputTrees cfg u input l₂) : l₁ = l₂ :=
  ParsedTrees_unique h₁ h₂

theorem processInput_code {cfg : LexCfg} {u : UTables} {m : Model} {o : Opts} {input s : Str} {code : Nat}
    (h : processInput cfg u m o input = (s, .ok code)) :
    ∃ trees, InputTrees cfg u input trees ∧
      (∀ tree ∈ trees, ∃ r, processTree u m o tree = .ok r) ∧
      code ≤ 1 ∧ (code = 1 ↔ o.check = true ∧ HasErr u m o trees) := by
  obtain ⟨trees, hpt, hall, b, hb, hcode, hiff⟩ := processLoop_code _ _ _ _ _ _ _ h
  rw [Nat.zero_or] at hcode; subst hcode
  exact ⟨trees, hpt, hall, hb, hiff⟩

theorem mainRun_code {cfg : LexCfg} {u : UTables} {m : Model} {o : Opts} (inputs : List Str)
    (out0 : Str) (code0 : Nat) (out : Str) (code : Nat)
    (h : mainRun cfg u m o inputs out0 code0 = (out, .ok code)) :
    (∀ input ∈ inputs, ∃ trees, InputTrees cfg u input trees ∧
        ∀ tree ∈ trees, ∃ r, processTree u m o tree = .ok r) ∧
    ∃ b, b ≤ 1 ∧ code = code0 ||| b ∧
      (b = 1 ↔ o.check = true ∧ ∃ input ∈ inputs, ∃ trees, InputTrees cfg u input trees ∧ HasErr u m o trees) := by
  induction inputs generalizing out0 code0 with
  | nil =>
    simp only [mainRun, Prod.mk.injEq, Except.ok.injEq] at h
    exact ⟨by simp, 0, by omega, by simp [h.2], by simp⟩
  | cons inp rest ih =>
    simp only [mainRun] at h
    split at h
    · rename_i s c hpi
      obtain ⟨hall, b, hb, hcode, hiff⟩ := ih _ _ h
      obtain ⟨trees, hit, hproc, hc1, hciff⟩ := processInput_code hpi
      obtain ⟨hle, hor⟩ := or_bit c b hc1 hb
      refine ⟨?_, c ||| b, hle, by rw [hcode, Nat.or_assoc], ?_⟩
      · intro input hin
        rcases List.mem_cons.1 hin with rfl | h'
        · exact ⟨trees, hit, hproc⟩
        · exact hall _ h'
      · rw [hor, hiff, hciff]
        constructor
        · rintro (⟨hck, he⟩ | ⟨hck, input, hin, hh⟩)
          · exact ⟨hck, inp, by simp, trees, hit, he⟩
          · exact ⟨hck, input, by simp [hin], hh⟩
        · rintro ⟨hck, input, hin, trees', hit', he⟩
          rcases List.mem_cons.1 hin with rfl | h'
          · rw [InputTrees_unique hit' hit] at he
            exact Or.inl ⟨hck, he⟩
          · exact Or.inr ⟨hck, input, h', trees', hit', he⟩
    · simp at h

theorem exit_status (cfg : LexCfg) (u : UTables) (m : Model) (o : Opts) (inputs : List Str) (out : Str) (code : Nat)
    (h : mainRun cfg u m o inputs [] 0 = (out, .ok code)) :
    (code ≠ 0 ↔ o.check = true ∧ ∃ input ∈ inputs, ∃ trees, InputTrees cfg u input trees ∧
        ∃ tree ∈ trees, ∃ g, processIn u m o tree = .ok g ∧ m.errors g ≠ [])
    ∧ code ≤ 1 := by
  obtain ⟨_, b, hb, hcode, hiff⟩ := mainRun_code _ _ _ _ _ h
  rw [Nat.zero_or] at hcode; subst hcode
  refine ⟨?_, hb⟩
  rw [show (code ≠ 0 ↔ code = 1) by omega]
  exact hiff

theorem exit_status_all_ok (cfg : LexCfg) (u : UTables) (m : Model) (o : Opts) (inputs : List Str) (out : Str) (code : Nat)
    (h : mainRun cfg u m o inputs [] 0 = (out, .ok code)) :
    ∀ input ∈ inputs, ∃ trees, InputTrees cfg u input trees ∧
      ∀ tree ∈ trees, ∃ r, processTree u m o tree = .ok r :=
  (mainRun_code _ _ _ _ _ h).1

/-! ### the fuel of `processLoop` / `processInput` always suffices -/

theorem bind_ok {ε α β : Type} {x : Except ε α} {f : α → Except ε β} {r : β}
    (h : x >>= f = .ok r) : ∃ a, x = .ok a ∧ f a = .ok r := by
  cases x with
  | error e => cases h
  | ok a => exact ⟨a, rfl, h⟩

theorem takeAln_len {c : PCtx} {text : Str} {ts : List Tok} {s : Str} {rest : List Tok}
    (h : takeAln c text ts = .ok (s, rest)) : rest.length ≤ ts.length := by
  cases ts with
  | nil => cases h
  | cons t ts =>
    simp only [takeAln] at h
    split at h <;> cases h <;> simp

theorem expectTy_len {c : PCtx} {ty : TokTy} {ts : List Tok} {t : Tok} {rest : List Tok}
    (h : expectTy c ty ts = .ok (t, rest)) : rest.length < ts.length := by
  cases ts with
  | nil => cases h
  | cons t ts =>
    simp only [expectTy] at h
    split at h <;> cases h; simp

theorem parseComments_len {c : PCtx} {sp : Char → Bool} {ts : List Tok} {md md' : AList Str Str}
    {rest : List Tok} (h : parseComments c sp ts md = .ok (md', rest)) : rest.length ≤ ts.length := by
  induction ts generalizing md with
  | nil => cases h
  | cons t ts ih =>
    simp only [parseComments] at h
    split at h
    · have := ih h; simp; omega
    · cases h; simp

theorem parse_len (c : PCtx) (f : Nat) :
    (∀ toks n rest, parseNode c f toks = .ok (n, rest) → rest.length < toks.length) ∧
    (∀ toks bs rest, parseEdges c f toks = .ok (bs, rest) → rest.length < toks.length) := by
  induction f with
  | zero => constructor <;> intro toks _ _ h <;> simp [parseNode, parseEdges] at h
  | succ f ih =>
    obtain ⟨ihN, ihE⟩ := ih
    constructor
    · intro toks n rest h
      simp only [parseNode] at h
      obtain ⟨⟨lp, ts⟩, h1, h⟩ := bind_ok h
      have l1 := expectTy_len h1
      simp only at h
      split at h
      · cases h
      · rename_i t ts1
        simp only [List.length_cons] at l1
        split at h
        · cases h; omega
        · obtain ⟨⟨vt, ts2⟩, h2, h⟩ := bind_ok h
          have l2 := expectTy_len h2
          simp only [List.length_cons] at l2
          simp only at h
          split at h
          · cases h
          · rename_i s ts3
            simp only [List.length_cons] at l2
            split at h
            · split at h
              · cases h
              · rename_i k ts4
                simp only [List.length_cons] at l2
                split at h
                · obtain ⟨⟨cpt, ts5⟩, h3, h⟩ := bind_ok h
                  have l3 := takeAln_len h3
                  obtain ⟨⟨bs, ts6⟩, h4, h⟩ := bind_ok h
                  have l4 := ihE _ _ _ h4
                  cases h
                  simp only at *
                  omega
                · obtain ⟨⟨bs, ts6⟩, h4, h⟩ := bind_ok h
                  have l4 := ihE _ _ _ h4
                  cases h
                  simp only [List.length_cons] at *
                  omega
            · obtain ⟨⟨bs, ts6⟩, h4, h⟩ := bind_ok h
              have l4 := ihE _ _ _ h4
              cases h
              simp only [List.length_cons] at *
              omega
    · intro toks bs rest h
      cases toks with
      | nil => simp [parseEdges] at h
      | cons t ts =>
        simp only [parseEdges] at h
        simp only [List.length_cons]
        split at h
        · cases h; omega
        · split at h
          · cases h
          · obtain ⟨⟨role, ts1⟩, h1, h⟩ := bind_ok h
            have l1 := takeAln_len h1
            simp only at h
            split at h
            · cases h
            · rename_i n ts2
              simp only [List.length_cons] at l1
              split at h
              · obtain ⟨⟨tg, ts3⟩, h2, h⟩ := bind_ok h
                have l2 := takeAln_len h2
                obtain ⟨⟨rs, ts4⟩, h3, h⟩ := bind_ok h
                have l3 := ihE _ _ _ h3
                cases h
                simp only at *
                omega
              · split at h
                · obtain ⟨⟨nd, ts3⟩, h2, h⟩ := bind_ok h
                  have l2 := ihN _ _ _ h2
                  obtain ⟨⟨rs, ts4⟩, h3, h⟩ := bind_ok h
                  have l3 := ihE _ _ _ h3
                  cases h
                  simp only [List.length_cons] at *
                  omega
                · split at h
                  · obtain ⟨⟨rs, ts4⟩, h3, h⟩ := bind_ok h
                    have l3 := ihE _ _ _ h3
                    cases h
                    simp only [List.length_cons] at *
                    omega
                  · cases h

theorem parseTree_len {c : PCtx} {sp : Char → Bool} {toks : List Tok} {tree : Tree} {rest : List Tok}
    (h : parseTree c sp toks = .ok (tree, rest)) : rest.length < toks.length := by
  unfold parseTree at h
  obtain ⟨⟨md, ts⟩, h1, h⟩ := bind_ok h
  have l1 := parseComments_len h1
  obtain ⟨⟨nd, ts'⟩, h2, h⟩ := bind_ok h
  have l2 := (parse_len c _).1 _ _ _ h2
  cases h
  simp only at *
  omega

/-- the fuel of `processLoop` is irrelevant once it exceeds the number of tokens -/
theorem processLoop_fuel {u : UTables} {m : Model} {o : Opts} {c : PCtx} (f₁ f₂ : Nat) (toks : List Tok)
    (first : Bool) (out : Str) (code : Nat) (h₁ : toks.length < f₁) (h₂ : toks.length < f₂) :
    processLoop u m o c f₁ toks first out code = processLoop u m o c f₂ toks first out code := by
  induction f₁ generalizing f₂ toks first out code with
  | zero => omega
  | succ f₁ ih =>
    cases f₂ with
    | zero => omega
    | succ f₂ =>
      cases toks with
      | nil => simp [processLoop]
      | cons t ts =>
        simp only [processLoop]
        split
        · split
          · rfl
          · rename_i tree rest hp
            have := parseTree_len hp
            simp only [List.length_cons] at this h₁ h₂
            split
            · rfl
            · exact ih _ _ _ _ _ (by omega) (by omega)
        · rfl

/-- `processInput` never runs out of fuel: any larger fuel gives the same result -/
theorem processInput_fuel (cfg : LexCfg) (u : UTables) (m : Model) (o : Opts) (input : Str) (f : Nat)
    (hf : (lexLines cfg cfg.penmanOrder (fileLines input)).length < f) :
    processInput cfg u m o input
      = processLoop u m o ⟨eofPos (lexLines cfg cfg.penmanOrder (fileLines input))⟩ f
          (lexLines cfg cfg.penmanOrder (fileLines input)) true [] 0 :=
  processLoop_fuel _ _ _ _ _ _ (by omega) hf

/-- with enough fuel, an exception escaping `processLoop` is the exception of a `parseTree` or
    `processTree` call (never the loop's own "fuel" marker) -/
theorem processLoop_error_source {u : UTables} {m : Model} {o : Opts} {c : PCtx} (f : Nat) (toks : List Tok)
    (first : Bool) (out : Str) (code0 : Nat) (out' : Str) (e : PyErr) (hf : toks.length < f)
    (h : processLoop u m o c f toks first out code0 = (out', .error e)) :
    ∃ toks', parseTree c u.isSpace toks' = .error e ∨
      ∃ tree rest, parseTree c u.isSpace toks' = .ok (tree, rest) ∧ processTree u m o tree = .error e := by
  induction f generalizing toks first out code0 with
  | zero => omega
  | succ f ih =>
    cases toks with
    | nil => simp [processLoop] at h
    | cons t ts =>
      simp only [processLoop] at h
      split at h
      · split at h
        · rename_i e' hp
          simp only [Prod.mk.injEq, Except.error.injEq] at h
          exact ⟨_, Or.inl (h.2 ▸ hp)⟩
        · rename_i tree rest hp
          have := parseTree_len hp
          simp only [List.length_cons] at this hf
          split at h
          · rename_i e' hq
            simp only [Prod.mk.injEq, Except.error.injEq] at h
            exact ⟨_, Or.inr ⟨tree, rest, hp, h.2 ▸ hq⟩⟩
          · exact ih _ _ _ _ (by omega) h
      · simp at h

theorem processLoop_ok_of_trees {u : UTables} {m : Model} {o : Opts} {c : PCtx} {toks : List Tok}
    {trees : List Tree} (hpt : ParsedTrees c u.isSpace toks trees)
    (hall : ∀ tree ∈ trees, ∃ r, processTree u m o tree = .ok r)
    (f : Nat) (first : Bool) (out : Str) (code0 : Nat) (hf : toks.length < f) :
    ∃ out' code, processLoop u m o c f toks first out code0 = (out', .ok code) := by
  induction hpt generalizing f first out code0 with
  | nil =>
    cases f with
    | zero => omega
    | succ f => exact ⟨out, code0, by simp [processLoop]⟩
  | stop hn =>
    cases f with
    | zero => omega
    | succ f => exact ⟨out, code0, by simp only [processLoop, if_neg hn]⟩
  | cons hy hp _ ih =>
    cases f with
    | zero => omega
    | succ f =>
      have hl := parseTree_len hp
      simp only [List.length_cons] at hl hf
      obtain ⟨⟨s, code'⟩, hr⟩ := hall _ (List.mem_cons_self)
      simp only [processLoop, if_pos hy, hp, hr]
      exact ih (fun tr htr => hall tr (List.mem_cons_of_mem _ htr)) _ _ _ _ (by omega)

theorem processInput_ok_of_trees {cfg : LexCfg} {u : UTables} {m : Model} {o : Opts} {input : Str}
    {trees : List Tree} (hit : InputTrees cfg u input trees)
    (hall : ∀ tree ∈ trees, ∃ r, processTree u m o tree = .ok r) :
    ∃ s code, processInput cfg u m o input = (s, .ok code) :=
  processLoop_ok_of_trees hit hall _ _ _ _ (Nat.lt_succ_self _)

/-- an exception escaping `processInput` is the exception of a `parseTree` or `processTree`
    call: the loop's own fuel never runs out -/
theorem processInput_error_source {cfg : LexCfg} {u : UTables} {m : Model} {o : Opts} {input s : Str}
    {e : PyErr} (h : processInput cfg u m o input = (s, .error e)) :
    ∃ toks', parseTree ⟨eofPos (lexLines cfg cfg.penmanOrder (fileLines input))⟩ u.isSpace toks' = .error e ∨
      ∃ tree rest, parseTree ⟨eofPos (lexLines cfg cfg.penmanOrder (fileLines input))⟩ u.isSpace toks'
          = .ok (tree, rest) ∧ processTree u m o tree = .error e :=
  processLoop_error_source _ _ _ _ _ _ _ (Nat.lt_succ_self _) h

/-- completeness: when every input parses into trees that are all processed without an
    exception, the command terminates normally with an exit status -/
theorem mainRun_ok_of_trees {cfg : LexCfg} {u : UTables} {m : Model} {o : Opts} (inputs : List Str)
    (hall : ∀ input ∈ inputs, ∃ trees, InputTrees cfg u input trees ∧
        ∀ tree ∈ trees, ∃ r, processTree u m o tree = .ok r)
    (out0 : Str) (code0 : Nat) :
    ∃ out code, mainRun cfg u m o inputs out0 code0 = (out, .ok code) := by
  induction inputs generalizing out0 code0 with
  | nil => exact ⟨out0, code0, rfl⟩
  | cons inp rest ih =>
    obtain ⟨trees, hit, hproc⟩ := hall inp List.mem_cons_self
    obtain ⟨s, c, hpi⟩ := processInput_ok_of_trees hit hproc
    simp only [mainRun, hpi]
    exact ih (fun i hi => hall i (List.mem_cons_of_mem _ hi)) _ _

/-- the command exits with a status (no exception escapes) exactly when every input
    parses into trees that are all processed without an exception -/
theorem mainRun_ok_iff (cfg : LexCfg) (u : UTables) (m : Model) (o : Opts) (inputs : List Str) :
    (∃ out code, mainRun cfg u m o inputs [] 0 = (out, .ok code)) ↔
    ∀ input ∈ inputs, ∃ trees, InputTrees cfg u input trees ∧
      ∀ tree ∈ trees, ∃ r, processTree u m o tree = .ok r :=
  ⟨fun ⟨_, _, h⟩ => exit_status_all_ok cfg u m o inputs _ _ h,
   fun h => mainRun_ok_of_trees inputs h [] 0⟩

/-- without `--check` the exit status is `0` -/
theorem exit_status_nocheck (cfg : LexCfg) (u : UTables) (m : Model) (o : Opts) (inputs : List Str)
    (out : Str) (code : Nat) (hc : o.check = false)
    (h : mainRun cfg u m o inputs [] 0 = (out, .ok code)) : code = 0 := by
  have := (exit_status cfg u m o inputs out code h).1
  rw [hc] at this
  simp at this
  exact this


/-! ### axiom audit -/
#print axioms natToStr_inj
#print axioms AList.get?_set
#print axioms checkGraph_code
#print axioms checkGraph_triples
#print axioms check_metadata_entry
#print axioms check_metadata
#print axioms processTree_code
#print axioms processLoop_code
#print axioms ParsedTrees_unique
#print axioms exit_status
#print axioms exit_status_all_ok
#print axioms exit_status_nocheck
#print axioms parseTree_len
#print axioms processLoop_fuel
#print axioms processInput_fuel
#print axioms processInput_error_source
#print axioms mainRun_ok_iff

end Penman

/-
  Penman.Spec.NormalFormGraph — specification vocabulary for the GRAPH half of the normal-form
  clause of property C20 (`Penman/Props/C20gen.lean`): what a graph has to satisfy so that the
  tree `configure` prints is again in the domain of C02 (`WfLayout`), the shape of a graph as
  Python's `Graph.__init__` builds it, and the hypotheses under which the graph stages of the
  command (`--reify-edges`, `--dereify-edges`, `--reify-attributes`) are the identity.
-/
import Penman.Spec.Encode
import Penman.Spec.EncodeText
import Penman.Spec.Transform
import Penman.Spec.WfLayout
import Penman.Spec.NormalForm
namespace Penman
namespace C20gen
open Penman.Cfg Penman.C03Text

/-- does a marker list hold `Push(v)`? -/
def hasPush (v : Str) (es : List Epi) : Bool := es.contains (Epi.push v)

/-- a number has a non-empty text without `~` (it is read back as that string) -/
def NumTextOK : Atom → Prop
  | .num s => s ≠ [] ∧ '~' ∉ s
  | _ => True

instance (a : Atom) : Decidable (NumTextOK a) := by cases a <;> unfold NumTextOK <;> infer_instance

/-- **layout-level well-formedness of a graph** (beyond `Cfg.WfGraph`): what makes the tree that
    `configure` prints a `WfLayout` tree, i.e. a tree on which decode-then-encode is the identity.
    * sources are non-empty; string targets are non-empty; a number has a non-empty text without `~`
      (it is read back as a string);
    * no variable has two node labels (`(a / x / y)` is not in the domain of C02);
    * the triples are pairwise distinct *as decoding sees them*: constants by their written form,
      a relation with an inverted role towards a variable deinverted once
      (`(a :ARG0 b)` and `(b :ARG0-of a)` are the same relation);
    * a self-loop `(a :R a)` (also one whose target is a NUMBER spelled like `a`) is not written with
      an inverted role: its role is not inverted and it
      carries no `Push(a)` marker (which makes `configure` write `:R-of a`) — decoding deinverts
      `(a :R-of a)` to `(a :R a)`, so the second encoding would differ (findings
      `selfloop_inverted_not_fixed`, `selfloop_push_not_fixed` in Props/C20gen.lean). -/
structure LayoutOK (m : Model) (g : Graph) : Prop where
  srcNonEmpty : ∀ t ∈ g.triples, t.src ≠ []
  tgtNonEmpty : ∀ t ∈ g.triples, t.tgt ≠ .str []
  numOK : ∀ t ∈ g.triples, NumTextOK t.tgt
  oneLabel : ((g.triples.filter (fun t => t.role = CONCEPT_ROLE)).map (·.src)).Nodup
  distinct : ((g.triples.map writtenTriple).map (deinvert1 m g)).Nodup
  selfLoop : ∀ t ∈ g.triples, t.role ≠ CONCEPT_ROLE → writtenAtom t.tgt = .str t.src →
    m.isRoleInverted t.role = false ∧ hasPush t.src ((AList.get? g.epidata t).getD []) = false

instance (m : Model) (g : Graph) : Decidable (LayoutOK m g) :=
  decidable_of_iff
    ((∀ t ∈ g.triples, t.src ≠ []) ∧ (∀ t ∈ g.triples, t.tgt ≠ .str []) ∧
     (∀ t ∈ g.triples, NumTextOK t.tgt) ∧
     ((g.triples.filter (fun t => t.role = CONCEPT_ROLE)).map (·.src)).Nodup ∧
     ((g.triples.map writtenTriple).map (deinvert1 m g)).Nodup ∧
     (∀ t ∈ g.triples, t.role ≠ CONCEPT_ROLE → writtenAtom t.tgt = .str t.src →
        m.isRoleInverted t.role = false ∧ hasPush t.src ((AList.get? g.epidata t).getD []) = false))
    ⟨fun ⟨a, b, c, d, e, f⟩ => ⟨a, b, c, d, e, f⟩, fun ⟨a, b, c, d, e, f⟩ => ⟨a, b, c, d, e, f⟩⟩

/-- a graph as `Graph.__init__` (`Graph.mk'`) leaves it: roles with their colon, an explicit top
    whenever there is one, marker table and metadata are dictionaries.  Every graph returned by
    `interpret` on a node with a variable is of this shape. -/
structure PyGraph (g : Graph) : Prop where
  colon : RolesColon g
  top : g.top = g.getTop
  epiKeys : (AList.keys g.epidata).Nodup
  metaKeys : (AList.keys g.metadata).Nodup

instance (g : Graph) : Decidable (PyGraph g) :=
  decidable_of_iff (RolesColon g ∧ g.top = g.getTop ∧ (AList.keys g.epidata).Nodup ∧
      (AList.keys g.metadata).Nodup)
    ⟨fun ⟨a, b, c, d⟩ => ⟨a, b, c, d⟩, fun ⟨a, b, c, d⟩ => ⟨a, b, c, d⟩⟩

/-- no triple has a reifiable role: `reify_edges` has nothing to do -/
def NoReifiable (m : Model) (g : Graph) : Prop := ∀ t ∈ g.triples, m.isReifiable t.role = false

instance (m : Model) (g : Graph) : Decidable (NoReifiable m g) := by unfold NoReifiable; infer_instance

/-- every relation points to a variable: `reify_attributes` has nothing to do -/
def NoAttributes (g : Graph) : Prop :=
  ∀ t ∈ g.triples, t.role = CONCEPT_ROLE ∨ atomInVars g.variables t.tgt = true

instance (g : Graph) : Decidable (NoAttributes g) := by unfold NoAttributes; infer_instance

/-- the graph stages selected by `o` have nothing to do on `g` -/
structure StagesIdle (m : Model) (o : Opts) (g : Graph) : Prop where
  reify : o.reifyEdges = true → NoReifiable m g
  dereify : o.dereifyEdges = true → NoCollapsible m g
  attrs : o.reifyAttributes = true → NoAttributes g

instance (m : Model) (o : Opts) (g : Graph) : Decidable (StagesIdle m o g) :=
  decidable_of_iff ((o.reifyEdges = true → NoReifiable m g) ∧ (o.dereifyEdges = true → NoCollapsible m g) ∧
      (o.reifyAttributes = true → NoAttributes g))
    ⟨fun ⟨a, b, c⟩ => ⟨a, b, c⟩, fun ⟨a, b, c⟩ => ⟨a, b, c⟩⟩

/-- **the graph decoded from the printed tree `R` is a fixed point of the selected graph stages**
    (decidable: evaluate `interpret` on `R`) -/
def StagesFixed (isAlpha : Char → Bool) (m : Model) (o : Opts) (R : Tree) : Prop :=
  ∀ g', interpret isAlpha m R = .ok g' → StagesIdle m o g'

instance (isAlpha : Char → Bool) (m : Model) (o : Opts) (R : Tree) : Decidable (StagesFixed isAlpha m o R) := by
  unfold StagesFixed
  cases h : interpret isAlpha m R with
  | error e => exact isTrue (fun g' hg => by cases hg)
  | ok g =>
    by_cases hs : StagesIdle m o g
    · exact isTrue (fun g' hg => by cases hg; exact hs)
    · exact isFalse (fun hall => hs (hall g rfl))

/-- `StagesFixed` depends on the three stage switches only -/
theorem stagesFixed_congr {isAlpha : Char → Bool} {m : Model} {o o' : Opts} {R : Tree}
    (h1 : o.reifyEdges = o'.reifyEdges) (h2 : o.dereifyEdges = o'.dereifyEdges)
    (h3 : o.reifyAttributes = o'.reifyAttributes) (h : StagesFixed isAlpha m o R) : StagesFixed isAlpha m o' R :=
  fun g' hg' => ⟨fun hc => (h g' hg').reify (h1 ▸ hc), fun hc => (h g' hg').dereify (h2 ▸ hc),
    fun hc => (h g' hg').attrs (h3 ▸ hc)⟩

/-- the option sets of `cli_normal_form_graph_stages`: everything but `--check`, `--triples`,
    `--make-variables`, `--reconfigure`, `--indicate-branches` -/
def stageOpts (canon : Bool) (re : Option (List KeyFn × Bool)) (rE dE rA : Bool) (i : Indent) (c : Bool) : Opts :=
  { canonicalizeRoles := canon, rearrange := re, reifyEdges := rE, dereifyEdges := dE, reifyAttributes := rA,
    indent := i, compact := c }

/-- the same with `--make-variables FMT` -/
def varOpts (canon : Bool) (re : Option (List KeyFn × Bool)) (rE dE rA : Bool) (fmt : Fmt) (i : Indent) (c : Bool) :
    Opts :=
  { stageOpts canon re rE dE rA i c with makeVariables := some fmt }

end C20gen
end Penman

"""op -> call of the real penman function, canonical JSON result
(the same shape the Lean driver answers with)."""
import copy
import io
import json
import sys

from common import (  # noqa: F401
    penman, layout, surface, transform, constant, Graph, Model, Tree,
    j_atom, j_node, j_tree, j_triple, j_epi, j_graph, j_err, res,
    py_atom, py_node, py_tree, py_triple, py_epi, py_graph, py_model,
    Unrepresentable,
)
from penman import _lexer, _parse, _format  # noqa: E402
from penman import __main__ as pmain  # noqa: E402

ERRMSG = {'invalid role': 0, 'unreachable': 1, 'graph is empty': 2,
          'top is not set': 3, 'top is not a variable in the graph': 4}


def model_arg(op):
    """the model argument of the real call: None when the op omits it (the library's own default)"""
    return py_model(op['model']) if op.get('model') is not None else None


def fmt_kw(op, keys=('indent', 'compact')):
    """formatting keyword arguments of the real call: a key the op omits is omitted from the call,
    so the library's own default value is what gets compared with the model's default"""
    return {k: op[k] for k in keys if k in op}


def _input(op):
    return op['lines'] if op.get('lines') is not None else op['s']


def _toks(it):
    return [[t.type, t.text, t.lineno, t.offset] for t in it]


def key_fn(model, names):
    """the command's sort_key for a list of ordering-function names"""
    if names is None:
        return None
    attr = {'original': 'original_order', 'alphanumeric': 'alphanumeric_order',
            'canonical': 'canonical_order', 'invertedLast': 'is_role_inverted'}
    funcs = [getattr(model, attr[n]) for n in names]

    def sort_key(role, funcs=funcs):
        return [func(role) for func in funcs]
    return sort_key


def _list_nodes(node):
    var, bs = node
    return [var, [(r, _list_nodes(t) if isinstance(t, tuple) else t) for r, t in bs]]


def fmt_string(pieces):
    if isinstance(pieces, str):
        return pieces          # a raw format string (oracles only: format specs such as {i:02d})
    out = ''
    for p in pieces:
        if p == 'pre':
            out += '{prefix}'
        elif p == 'i':
            out += '{i}'
        elif p == 'j':
            out += '{j}'
        else:
            out += p[1].replace('{', '{{').replace('}', '}}')
    return out


def graph_full(g):
    return {'graph': j_graph(g), 'gettop': g.top,
            'variables': sorted(g.variables()),
            'instances': [j_triple(t) for t in g.instances()],
            'edges': [j_triple(t) for t in g.edges()],
            'attributes': [j_triple(t) for t in g.attributes()],
            'reentrancies': [[k, v] for k, v in g.reentrancies().items()]}


def cli_argv(model_spec, opts, tmpdir):
    """argv for the real command, or None if the option set cannot be written on a command line"""
    import os
    argv = ['penman']
    if model_spec == 'amr':
        argv.append('--amr')
    elif model_spec == 'noop':
        argv.append('--noop')
    elif isinstance(model_spec, dict):
        if model_spec.get('noop'):
            return None
        from common import pat_regex
        d = {'top_variable': model_spec.get('topVariable', 'top'), 'top_role': model_spec.get('topRole', ':TOP'),
             'concept_role': model_spec.get('conceptRole', ':instance'),
             'roles': {pat_regex(p): {} for p in model_spec.get('roles', [])},
             'normalizations': dict((k, v) for k, v in model_spec.get('norm', [])),
             'reifications': [[r, py_atom(c), s_, t] for r, c, s_, t in model_spec.get('reifs', [])]}
        path = os.path.join(tmpdir, 'model.json')
        json.dump(d, open(path, 'w'))
        argv += ['--model', path]
    if opts.get('check'):
        argv.append('--check')
    ind = opts.get('indent', -1)
    if ind is None:
        argv += ['--indent', opts.get('indentSpelling', 'no')]
    elif ind != -1:
        argv += ['--indent', str(ind)]
    if opts.get('compact'):
        argv.append('--compact')
    if opts.get('triples'):
        argv.append('--triples')
    if opts.get('makeVariables') is not None:
        argv += ['--make-variables', fmt_string(opts['makeVariables'])]
    inv = {'original': 'original', 'alphanumeric': 'alphanumeric', 'canonical': 'canonical', 'invertedLast': 'inverted-last'}
    if opts.get('rearrange') is not None:
        keys = [inv[k] for k in opts['rearrange']['keys']]
        if opts['rearrange'].get('attributesFirst'):
            keys.append('attributes-first')
        if not keys:
            return None
        argv += ['--rearrange', ','.join(keys)]
    if opts.get('reconfigure') is not None:
        if not opts['reconfigure']:
            return None
        argv += ['--reconfigure', ','.join(inv[k] for k in opts['reconfigure'])]
    for k, flag in (('canonicalizeRoles', '--canonicalize-roles'), ('reifyEdges', '--reify-edges'),
                    ('dereifyEdges', '--dereify-edges'), ('reifyAttributes', '--reify-attributes'),
                    ('indicateBranches', '--indicate-branches')):
        if opts.get(k):
            argv.append(flag)
    return argv


def run_main_cli(model_spec, opts, inputs):
    """the real `main()` in-process: argparse, option decoding, model loading, file opening"""
    import os
    import shutil
    import tempfile
    tmpdir = tempfile.mkdtemp(prefix='penman_cli_')
    old = (sys.argv, sys.stdin, sys.stdout)
    out = io.StringIO()
    try:
        argv = cli_argv(model_spec, opts, tmpdir)
        if argv is None:
            return None
        size = sum(len(t) for t in inputs)
        if len(inputs) == 1 and size % 3:
            sys.stdin = io.StringIO(inputs[0], newline=None)
        else:
            # a quarter of the file runs each: files in UTF-16 with "--encoding utf-16" AFTER the FILE
            # arguments, files with a UTF-8 signature and "--encoding utf-8-sig" BEFORE them
            enc, after = [('utf-8', None), ('utf-8', None), ('utf-16', True), ('utf-8-sig', False)][(size // 3) % 4]
            try:
                for text in inputs:
                    text.encode(enc)
            except UnicodeError:
                enc, after = 'utf-8', None
            if after is False:
                argv += ['--encoding', enc]
            # FILE arguments are told apart by position, not by name: half of the runs give every
            # input the same base name in a directory of its own (dev/amr.txt test/amr.txt)
            same_names = sum(len(t) for t in inputs) % 2 == 0
            for k, text in enumerate(inputs):
                if same_names:
                    os.makedirs(os.path.join(tmpdir, f'd{k}'), exist_ok=True)
                    path = os.path.join(tmpdir, f'd{k}', 'amr.txt')
                else:
                    # a FILE argument is a file name, not a pattern: "in[0].txt" beside a decoy "in0.txt"
                    path = os.path.join(tmpdir, f'in[{k}].txt')
                    with open(os.path.join(tmpdir, f'in{k}.txt'), 'w', encoding='utf-8') as fh:
                        fh.write('(decoy / decoy)\n')
                with open(path, 'w', encoding=enc, newline='') as fh:
                    fh.write(text)
                argv.append(path)
            if after:
                argv += ['--encoding', enc]
            sys.stdin = io.StringIO('')
        sys.argv = argv
        sys.stdout = out
        try:
            pmain.main()
            code = {'ok': 0}
        except SystemExit as e:
            code = {'ok': e.code if isinstance(e.code, int) else (0 if e.code is None else 2)}
        except Exception as e:  # noqa: BLE001
            code = {'err': j_err(e)}
    finally:
        sys.argv, sys.stdin, sys.stdout = old
        shutil.rmtree(tmpdir, ignore_errors=True)
    return {'out': out.getvalue(), 'exit': code}


def run_main(model_spec, opts, inputs):
    """the real command: through `main()` whenever the options can be written on a command line
    (PENMAN_VERIF_PROCESS_ONLY=1 or an inexpressible option set: `process()` wired as main() does)"""
    import os
    if not os.environ.get('PENMAN_VERIF_PROCESS_ONLY'):
        r = run_main_cli(model_spec, opts, inputs)
        if r is not None:
            return r
    return run_main_process(model_spec, opts, inputs)


def run_main_process(model_spec, opts, inputs):
    """run the real `process` pipeline in-process exactly as `main()` wires it"""
    model = py_model(model_spec)
    normalize_options = {
        'make_variables': fmt_string(opts['makeVariables']) if opts.get('makeVariables') is not None else None,
        'rearrange': None, 'reconfigure': None,
        'canonicalize_roles': opts.get('canonicalizeRoles', False),
        'reify_edges': opts.get('reifyEdges', False),
        'dereify_edges': opts.get('dereifyEdges', False),
        'reify_attributes': opts.get('reifyAttributes', False),
        'indicate_branches': opts.get('indicateBranches', False),
    }
    inv = {'original': 'original', 'alphanumeric': 'alphanumeric', 'canonical': 'canonical',
           'invertedLast': 'inverted-last'}
    if opts.get('rearrange') is not None:
        keys = [inv[k] for k in opts['rearrange']['keys']]
        if opts['rearrange'].get('attributesFirst'):
            keys.append('attributes-first')
        normalize_options['rearrange'] = pmain._make_sort_key(keys, model, pmain.REARRANGE_KEYS)
    if opts.get('reconfigure') is not None:
        keys = [inv[k] for k in opts['reconfigure']]
        normalize_options['reconfigure'] = pmain._make_sort_key(keys, model, pmain.RECONFIGURE_KEYS)
    format_options = {'indent': opts.get('indent', -1), 'compact': opts.get('compact', False)}
    out = io.StringIO()
    exitcode = 0
    try:
        for text in inputs:
            f = io.StringIO(text, newline=None)
            exitcode |= pmain.process(f, model, out, sys.stderr, opts.get('check', False),
                                      normalize_options, format_options, opts.get('triples', False))
    except Exception as e:  # noqa: BLE001
        return {'out': out.getvalue(), 'exit': {'err': j_err(e)}}
    return {'out': out.getvalue(), 'exit': {'ok': exitcode}}


INPLACE_OPS = {'rearrange', 'reset_variables', 'graph_ops'}     # mutate by design / observed through registers


def warm_up(kind, x, bits):
    """call a selection (the bits) of documented-pure functions on an argument before the call under
    test: they may neither change the argument (snapshots) nor leave state behind that changes a
    later answer (caches, lazily stored values); results and exceptions are ignored"""
    dm = Model()
    if kind == 'graph':
        fs = [lambda: x.top, lambda: x.variables(), lambda: x.instances(), lambda: x.edges(),
              lambda: x.attributes(), lambda: x.reentrancies(), lambda: repr(x), lambda: x == x,
              lambda: penman.encode(x), lambda: layout.configure(x),
              lambda: layout.reconfigure(x, key=dm.canonical_order), lambda: dm.errors(x),
              lambda: layout.node_contexts(x), lambda: surface.alignments(x),
              lambda: transform.reify_attributes(x), lambda: x | x]
    else:
        fs = [lambda: x.nodes(), lambda: list(x.walk()), lambda: repr(x), lambda: str(x),
              lambda: penman.format(x), lambda: penman.format(x, indent=None, compact=True),
              lambda: layout.interpret(x), lambda: x == x,
              lambda: transform.canonicalize_roles(x, dm), lambda: x.nodes()]
    for i, f in enumerate(fs):
        if (bits >> i) & 1:
            try:
                f()
            except Exception:  # noqa: BLE001
                pass


def run_real(op):
    """call the real function; also snapshot every graph/tree argument built from the op before and
    after the call: a documented-pure call that changes an argument yields a result the model
    (which cannot mutate) will not match (C17's purity clause)."""
    made = []
    g = globals()
    orig_graph, orig_tree = g['py_graph'], g['py_tree']

    warm = op.get('warm')

    def rec_graph(j):
        x = orig_graph(j)
        made.append(('graph', x, json.dumps(j_graph(x), sort_keys=True)))
        if warm:
            warm_up('graph', x, warm)
        return x

    def rec_tree(j):
        x = orig_tree(j)
        made.append(('tree', x, json.dumps(j_tree(x), sort_keys=True)))
        if warm:
            warm_up('tree', x, warm)
        return x
    g['py_graph'], g['py_tree'] = rec_graph, rec_tree
    try:
        out = _run_real(op)
    finally:
        g['py_graph'], g['py_tree'] = orig_graph, orig_tree
    if op['op'] not in INPLACE_OPS:
        for kind, x, before in made:
            try:
                after = json.dumps(j_graph(x) if kind == 'graph' else j_tree(x), sort_keys=True)
            except Unrepresentable:
                after = 'unrepresentable'
            if after != before:
                return {'argument_mutated': kind, 'result': out}
    return out


def _edited_in_place(op, g):
    """`editedFrom: [i, v]`: the graph object first spelled the source variable of triple i as v (and was
    looked at and encoded in that state); the triple list was then edited in place, without changing
    its length, into the graph of the operation.  What is encoded now is the graph as it is now."""
    e = op.get('editedFrom')
    if not e or not g.triples or e[0] >= len(g.triples):
        return g
    i, v = e
    now = list(g.triples)
    x = now[i][0]
    if any(v in (t[0], t[2]) for t in now if isinstance(t[2], str)) or any(t[0] == v for t in now):
        return g
    # every occurrence of the variable x (the source of triple i) was spelled v at first
    for k, t in enumerate(now):
        g.triples[k] = (v if t[0] == x else t[0], t[1], v if (t[1] != ':instance' and t[2] == x) else t[2])
    for f in (g.variables, g.edges, g.attributes, g.reentrancies, lambda: penman.encode(g), lambda: g.top):
        try:
            f()
        except Exception:  # noqa: BLE001
            pass
    for k, t in enumerate(now):
        g.triples[k] = t
    return g


def _beside(iterable):
    """an endless, never-raising stepper over another iterator (used to keep a second lexer alive)"""
    it = iter(iterable)
    while True:
        try:
            yield next(it)
        except Exception:  # noqa: BLE001
            while True:
                yield None


def _run_real(op):
    name = op['op']
    if name == 'lex':
        pat = _lexer.TRIPLE_RE if op.get('mode') == 'triples' else _lexer.PENMAN_RE
        k = op.get('consume')
        if op.get('beside') is not None:
            # a second lexer, on another input, is alive and advanced token by token while this one is
            # consumed (zip(iterparse(gold), iterparse(system)) does this): the tokens are still this input's
            it, other, toks = iter(_lexer.lex(_input(op), pattern=pat)), _beside(_lexer.lex(op['beside'], pattern=pat)), []
            next(other)
            for tok in it:
                toks.append(tok)
                next(other)
            return _toks(toks)
        if k is None:
            return _toks(_lexer.lex(_input(op), pattern=pat))
        # the same tokens through a mixed use of the iterator protocol: a for-loop left after k
        # tokens, then peek()/next()/bool(), then a second for-loop
        it = _lexer.lex(_input(op), pattern=pat)
        toks = []
        if k > 0:
            for tok in it:
                toks.append(tok)
                if len(toks) >= k:
                    break
        if it:
            it.peek()
            toks.append(it.next())
        for tok in it:
            toks.append(tok)
        return _toks(toks)
    via = op.get('via') if op.get('lines') is None else None     # public wrappers take a str
    if name == 'parse':
        if via == 'public':
            return res(lambda: penman.parse(op['s']), j_tree)
        if via == 'codec':
            return res(lambda: penman.PENMANCodec().parse(op['s']), j_tree)
        return res(lambda: _parse._parse(_lexer.lex(_input(op), pattern=_lexer.PENMAN_RE)), j_tree)
    if name == 'iterparse':
        trees, err = [], None
        try:
            it = penman.PENMANCodec().iterparse(_input(op)) if op.get('via') == 'codec' else penman.iterparse(_input(op))
            it = iter(it)
            if op.get('beside') is not None:
                other = _beside(penman.iterparse(op['beside']))
                next(other)
                for t in it:
                    trees.append(j_tree(t))
                    next(other)
            for _ in range(op.get('consume') or 0):      # next() a few times, then a for-loop over the rest
                try:
                    trees.append(j_tree(next(it)))
                except StopIteration:
                    break
            for t in it:
                trees.append(j_tree(t))
        except Exception as e:  # noqa: BLE001
            err = j_err(e)
        return {'trees': trees, 'err': err}
    if name == 'parse_triples' and via == 'public':
        return res(lambda: penman.parse_triples(op['s']), lambda ts: [j_triple(t) for t in ts])
    if name == 'parse_triples' and via == 'codec':
        return res(lambda: penman.PENMANCodec().parse_triples(op['s']), lambda ts: [j_triple(t) for t in ts])
    if name == 'parse_triples':
        return res(lambda: _parse._parse_triples(_lexer.lex(_input(op), pattern=_lexer.TRIPLE_RE)),
                   lambda ts: [j_triple(t) for t in ts])
    if name == 'format':
        if op.get('viaCodec'):
            return penman.PENMANCodec().format(py_tree(op['tree']), **fmt_kw(op))
        return penman.format(py_tree(op['tree']), **fmt_kw(op))
    if name == 'format_triples':
        if op.get('viaCodec'):
            return penman.PENMANCodec().format_triples([py_triple(t) for t in op['triples']], **fmt_kw(op, ('indent',)))
        return penman.format_triples([py_triple(t) for t in op['triples']], **fmt_kw(op, ('indent',)))
    if name == 'interpret':
        if op.get('via') == 'public':
            return res(lambda: penman.interpret(py_tree(op['tree']), model=model_arg(op)), j_graph)
        return res(lambda: layout.interpret(py_tree(op['tree']), model_arg(op)), j_graph)
    if name == 'decode':
        m = py_model(op.get('model'))
        if op.get('via') == 'penman.decode' and op.get('lines') is None:
            return res(lambda: penman.decode(op['s'], model=m), j_graph)
        if op.get('via') == 'codec.decode' and op.get('lines') is None:
            return res(lambda: penman.PENMANCodec(model=m).decode(op['s']), j_graph)
        return res(lambda: layout.interpret(_parse._parse(_lexer.lex(_input(op), pattern=_lexer.PENMAN_RE)), m), j_graph)
    if name == 'configure':
        g = _edited_in_place(op, py_graph(op['graph']))
        if op.get('via') == 'public':
            return res(lambda: penman.configure(g, top=op.get('top'), model=model_arg(op)), j_tree)
        return res(lambda: layout.configure(g, top=op.get('top'), model=model_arg(op)), j_tree)
    if name == 'encode':
        g = _edited_in_place(op, py_graph(op['graph']))
        if op.get('viaCodec'):
            return res(lambda: penman.PENMANCodec(model=model_arg(op)).encode(g, top=op.get('top'), **fmt_kw(op)))
        return res(lambda: penman.encode(g, top=op.get('top'), model=model_arg(op), **fmt_kw(op)))
    if name == 'reconfigure':
        g = py_graph(op['graph'])
        m = py_model(op.get('model'))
        return res(lambda: layout.reconfigure(g, top=op.get('top'), model=m, key=key_fn(m, op.get('key'))), j_tree)
    if name == 'rearrange':
        t = py_tree(op['tree'])
        m = py_model(op.get('model'))
        layout.rearrange(t, key=key_fn(m, op.get('key')), attributes_first=op.get('attributesFirst', False))
        return j_tree(t)
    if name == 'reset_variables':
        t = py_tree(op['tree'])
        if op.get('listNodes'):
            t.node = (t.node[0], _list_nodes(t.node)[1])     # nested nodes spelled as lists


        def f():
            t.reset_variables(fmt_string(op['fmt']))
            return t.node
        return res(f, j_node)
    if name == 'node_contexts':
        return res(lambda: layout.node_contexts(py_graph(op['graph'])))
    if name == 'appears_inverted':
        return res(lambda: layout.appears_inverted(py_graph(op['graph']), py_triple(op['triple'])))
    if name == 'get_pushed_variable':
        return layout.get_pushed_variable(py_graph(op['graph']), py_triple(op['triple']))
    if name == 'alignments':
        g = py_graph(op['graph'])
        d = surface.role_alignments(g) if op.get('role') else surface.alignments(g)
        return [[j_triple(t), j_epi(e)] for t, e in d.items()]
    if name == 'model':
        m = py_model(op.get('model'))
        r = op['role']
        an = m.alphanumeric_order(r)
        co = m.canonical_order(r)
        return {'has_role': m.has_role(r), 'is_role_inverted': m.is_role_inverted(r),
                'invert_role': m.invert_role(r), 'canonicalize_role': m.canonicalize_role(r),
                'is_role_reifiable': m.is_role_reifiable(r),
                'alphanumeric_order': [an[0], an[1]], 'canonical_order': [co[0], co[1][0], co[1][1]]}
    if name == 'model_triple':
        m = py_model(op.get('model'))
        t = py_triple(op['triple'])
        strtgt = isinstance(t[2], str)
        inv = j_triple(m.invert(t)) if strtgt else 'unmodelled'
        if strtgt or getattr(m, 'deinvert').__func__ is not Model.deinvert or not m.is_role_inverted(t[1]):
            dei = j_triple(m.deinvert(t))
        else:
            dei = 'unmodelled'
        return {'invert': inv, 'deinvert': dei, 'canonicalize': j_triple(m.canonicalize(t)),
                'reify': res(lambda: m.reify(t, set(op.get('vars', []))), lambda r: [j_triple(x) for x in r]),
                'is_concept_dereifiable': m.is_concept_dereifiable(t[2])}
    if name == 'dereify':
        m = py_model(op.get('model'))
        return res(lambda: m.dereify(py_triple(op['inst']), py_triple(op['src']), py_triple(op['tgt'])),
                   lambda r: [j_atom(r[0]), r[1], j_atom(r[2])])
    if name == 'errors':
        m = py_model(op.get('model'))
        e = m.errors(py_graph(op['graph']))
        return [[None if k is None else j_triple(k), [ERRMSG[x] for x in v]] for k, v in e.items()]
    if name == 'canonicalize_roles':
        return res(lambda: transform.canonicalize_roles(py_tree(op['tree']), model_arg(op)), j_tree)
    if name == 'reify_edges':
        return res(lambda: transform.reify_edges(py_graph(op['graph']), model_arg(op)), j_graph)
    if name == 'dereify_edges':
        return res(lambda: transform.dereify_edges(py_graph(op['graph']), model_arg(op)), j_graph)
    if name == 'reify_attributes':
        return j_graph(transform.reify_attributes(py_graph(op['graph'])))
    if name == 'indicate_branches':
        # indicate_branches has no None fallback for its model (signature: model: Model): always explicit
        return res(lambda: transform.indicate_branches(py_graph(op['graph']), py_model(op.get('model'))), j_graph)
    if name == 'graph_new':
        trs = [py_triple(t) for t in op['triples']]
        if op.get('listTriples'):
            trs = [list(t) for t in trs]     # rows as loaded from JSON: the constructor makes tuples of them
        g = Graph(trs, top=op.get('top'),
                  epidata={py_triple(t): [py_epi(e) for e in es] for t, es in op.get('epidata', [])},
                  metadata=dict((k, v) for k, v in op.get('metadata', [])))
        if op.get('listTriples'):
            # the graph owns plain tuples: set operations work and later edits of the rows do not show
            _ = (g | g, g - g)
            for row in trs:
                row[1] = ':edited'
        return graph_full(g)
    if name == 'graph_filter':
        g = py_graph(op['graph'])
        kw = {}
        if op.get('source') is not None:
            kw['source'] = op['source']
        if op.get('role') is not None:
            kw['role'] = op['role']
        if op.get('target', '__none__') != '__none__':
            if op['target'] is None:
                raise Unrepresentable('target=None filter means no filter in python')
            kw['target'] = py_atom(op['target'])
        return {'edges': [j_triple(t) for t in g.edges(**kw)],
                'attributes': [j_triple(t) for t in g.attributes(**kw)]}
    if name == 'graph_ops':
        regs = [py_graph(g) for g in op['graphs']]
        outs = []

        def ask(rs):
            # queries are pure: asking every register at some points of the sequence must not
            # change what the final queries say (no state may survive from an earlier answer)
            for g_ in rs:
                try:
                    graph_full(g_)
                except Exception:  # noqa: BLE001
                    pass
        if (op.get('queries') or [0])[0]:
            ask(regs)
        for o in op['ops']:
            k = o[0]
            if k == 'or':
                regs.append(regs[o[1]] | regs[o[2]]); outs.append(None)
            elif k == 'sub':
                regs.append(regs[o[1]] - regs[o[2]]); outs.append(None)
            elif k == 'ior':
                x = regs[o[1]]
                if o[1] == o[2]:
                    y = x
                else:
                    y = regs[o[2]]
                x |= y
                outs.append(None)
            elif k == 'isub':
                x = regs[o[1]]
                x -= regs[o[2]]
                outs.append(None)
            elif k == 'settop':
                try:
                    regs[o[1]].top = o[2]
                    outs.append('ok')
                except Exception as e:  # noqa: BLE001
                    outs.append(j_err(e))
            elif k == 'eq':
                outs.append(regs[o[1]] == regs[o[2]])
            if (op.get('queries') or [0] * (len(op['ops']) + 1))[len(outs)]:
                ask(regs)
        return {'outs': outs, 'regs': [graph_full(g) for g in regs]}
    if name == 'quote':
        return constant.quote(py_atom(op['value']))
    if name == 'evaluate':
        s = op['s']

        def ev():
            v = constant.evaluate(s)
            if v is None:
                return None
            if isinstance(v, bool):
                return ['bool']
            if isinstance(v, str):
                return ['str', v]
            if isinstance(v, int):
                return ['int', v]
            if isinstance(v, float):
                return ['float', v]
            return ['?', repr(v)]
        return {'evaluate': res(ev), 'type': res(lambda: constant.type(s).value)}
    if name == 'loads':
        m = model_arg(op)
        cont = op.get('container', 'str')

        def f():
            if cont == 'file' and op.get('real_container') != 'stringio':
                import os
                import tempfile
                fd, path = tempfile.mkstemp(prefix='penman_loads_')
                try:
                    with os.fdopen(fd, 'w', encoding='utf-8', newline='') as fh:
                        fh.write(op['s'])
                    return penman.load(path, model=m, encoding='utf-8')
                finally:
                    os.remove(path)
            if cont == 'stringio' or op.get('real_container') == 'stringio':
                return penman.load(io.StringIO(op['s'], newline=None), model=m)
            if op.get('lines') is not None:
                return list(penman.iterdecode(op['lines'], model=m))
            return penman.loads(op['s'], model=m)
        return res(f, lambda gs: [j_graph(g) for g in gs])
    if name == 'dump':
        m = model_arg(op)
        gs = [py_graph(g) for g in op['graphs']]

        def f():
            if op.get('container') == 'file':
                import os
                import tempfile
                fd, path = tempfile.mkstemp(prefix='penman_dump_')
                os.close(fd)
                try:
                    penman.dump(gs, path, model=m, encoding='utf-8', **fmt_kw(op))
                    return open(path, encoding='utf-8', newline='').read()
                finally:
                    os.remove(path)
            buf = io.StringIO()
            penman.dump(gs, buf, model=m, **fmt_kw(op))
            return buf.getvalue()
        return res(f)
    if name == 'dumps':
        m = model_arg(op)
        return res(lambda: penman.dumps([py_graph(g) for g in op['graphs']], model=m, **fmt_kw(op)))
    if name == 'main':
        return run_main(op.get('model'), op.get('opts', {}), op['inputs'])
    raise KeyError(name)


def _drop_kinds(x):
    """error *wording* is not part of any property: compare exception class and, for decode errors,
    the reported position; drop the message kinds"""
    if isinstance(x, dict):
        return {k: _drop_kinds(v) for k, v in x.items()}
    if isinstance(x, list):
        if x and x[0] == 'DecodeError' and len(x) == 4:
            return x[:3]
        if x and x[0] == 'LayoutError':
            return x[:1]
        return [_drop_kinds(v) for v in x]
    return x


def compare(op, real, model):
    """True if the model's answer agrees with the real one (after the
    op-specific canonicalisation); 'skip' if the model declares the input
    outside its domain."""
    if isinstance(real, dict) and 'uncanonicalisable_result' in real:
        return False
    if _has_unmodelled(model):
        return 'skip'
    real, model = _drop_kinds(real), _drop_kinds(model)
    name = op['op']
    if name == 'evaluate':
        # numbers: the model returns the JSON number text; compare by value
        r, m = copy.deepcopy(real), copy.deepcopy(model)
        ev_r, ev_m = r['evaluate'], m['evaluate']
        if 'ok' in ev_r and 'ok' in ev_m and isinstance(ev_r['ok'], list) and isinstance(ev_m['ok'], list) \
                and ev_r['ok'][0] == ev_m['ok'][0] and ev_r['ok'][0] in ('int', 'float'):
            conv = int if ev_r['ok'][0] == 'int' else float
            try:
                same = conv(ev_m['ok'][1]) == ev_r['ok'][1]
            except ValueError:
                same = False
            return same and r['type'] == m['type']
        return r == m
    if name == 'model':
        if model.get('canonicalize_role') is None:
            return 'skip'
    if name == 'model_triple':
        r, m = dict(real), dict(model)
        for k in ('invert', 'deinvert'):
            if m.get(k) == 'unmodelled' or r.get(k) == 'unmodelled':
                r.pop(k, None); m.pop(k, None)
        if m.get('canonicalize') is None:
            return 'skip'
        return r == m
    return real == model


def _has_unmodelled(x):
    if isinstance(x, dict):
        e = x.get('err')
        if isinstance(e, list) and e and e[0] == 'Unmodelled':
            return True
        return any(_has_unmodelled(v) for v in x.values())
    if isinstance(x, list):
        if x and x[0] == 'Unmodelled':
            return True
        return any(_has_unmodelled(v) for v in x)
    return False

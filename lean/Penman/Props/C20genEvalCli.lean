import Penman.Props.C20genEval
/-!
# C20 (normal-form clause), GRAPH half — the command with graph stages, evaluated on the model

Second companion of `Penman/Props/C20gen.lean`: `cli_normal_form_graph_stages` instantiated for
`penman --amr --reify-edges` and `penman --amr --dereify-edges` on a concrete input (every indentation,
compact or not), and finding F18 as a violation of `StagesFixed`.  Replayed on /repo with the same texts.
-/
namespace Penman.C20gen
open Penman Penman.NF Penman.Cfg Penman.C03Text Penman.Framing Penman.C20nf

/-! ## the command with `--amr --reify-edges`, and back with `--amr --dereify-edges` -/

def inText : Str := s "# ::id 1\n(a / alpha :mod (b / beta) :ARG0 b :polarity -)"
def inTree : Tree :=
  ⟨.mk (some (s "a")) (.atom (s "/") (.str (s "alpha"))
    (.sub (s ":mod") (.mk (some (s "b")) (.atom (s "/") (.str (s "beta")) .nil))
    (.atom (s ":ARG0") (.str (s "b"))
    (.atom (s ":polarity") (.str (s "-")) .nil)))), [(s "id", s "1")]⟩

/-- the graph after `--reify-edges` (AMR): two reified relations, fresh variables `_`, `_2` -/
def exG1 : Graph :=
  { triples := [T3 "a" ":instance" (S3 "alpha"), T3 "_" ":ARG1" (S3 "a"), T3 "_" ":instance" (S3 "have-mod-91"),
      T3 "_" ":ARG2" (S3 "b"), T3 "b" ":instance" (S3 "beta"), T3 "a" ":ARG0" (S3 "b"), T3 "_2" ":ARG1" (S3 "a"),
      T3 "_2" ":instance" (S3 "have-polarity-91"), T3 "_2" ":ARG2" (S3 "-")],
    top := some (s "a"),
    epidata := [(T3 "a" ":instance" (S3 "alpha"), []), (T3 "b" ":instance" (S3 "beta"), [.pop]),
      (T3 "a" ":ARG0" (S3 "b"), []), (T3 "_" ":ARG1" (S3 "a"), [.push (s "_")]),
      (T3 "_" ":instance" (S3 "have-mod-91"), []), (T3 "_" ":ARG2" (S3 "b"), [.push (s "b")]),
      (T3 "_2" ":ARG1" (S3 "a"), [.push (s "_2")]), (T3 "_2" ":instance" (S3 "have-polarity-91"), []),
      (T3 "_2" ":ARG2" (S3 "-"), [])],
    metadata := [(s "id", s "1")] }

/-- its encoding `(a / alpha :ARG1-of (_ / have-mod-91 :ARG2 (b / beta)) :ARG0 b :ARG1-of (_2 / … :ARG2 -))` -/
def exT1 : Tree :=
  ⟨.mk (some (s "a")) (.atom (s "/") (.str (s "alpha"))
    (.sub (s ":ARG1-of") (.mk (some (s "_")) (.atom (s "/") (.str (s "have-mod-91"))
      (.sub (s ":ARG2") (.mk (some (s "b")) (.atom (s "/") (.str (s "beta")) .nil)) .nil)))
    (.atom (s ":ARG0") (.str (s "b"))
    (.sub (s ":ARG1-of") (.mk (some (s "_2")) (.atom (s "/") (.str (s "have-polarity-91"))
      (.atom (s ":ARG2") (.str (s "-")) .nil))) .nil)))), [(s "id", s "1")]⟩

abbrev optRE (i : Indent) (c : Bool) : Opts := stageOpts false none true false false i c
abbrev optDE (i : Indent) (c : Bool) : Opts := stageOpts false none false true false i c

theorem ex_parse3 : parseTree ⟨eofPos (lexStr gcfg gcfg.penmanOrder inText)⟩ uT.isSpace
    (lexStr gcfg gcfg.penmanOrder inText) = .ok (inTree, []) := by decide +kernel
theorem ex_in (i : Indent) (c : Bool) : processIn uT amr (optRE i c) inTree = .ok exG1 := by
  have : processIn uT amr (optRE i c) inTree = processIn uT amr (optRE none false) inTree := rfl
  rw [this]; decide +kernel
theorem ex_cf : configure amr exG1 none = .ok exT1 := by rw [C02.configure_eq]; decide +kernel
theorem ex_wf : WfGraph amr exG1 ∧ LayoutOK amr exG1 ∧ GraphTextOK gcfg uT.isSpace amr exG1 ∧
    Cfg.PushVars exG1 ∧ NoNum exG1 := by decide +kernel
theorem ex_fix (i : Indent) (c : Bool) : StagesFixed uT.isAlpha amr (optRE i c) (nfTree amr none exT1) :=
  stagesFixed_congr (o := optRE none false) rfl rfl rfl (by decide +kernel)

/-- `cli_normal_form_graph_stages` instantiated: `penman --amr --reify-edges`, every indentation, compact or not -/
theorem ex_reify_normal_form (i : Indent) (c : Bool) :
    let out1 := format (nfTree amr none exT1) i c ++ ['\n']
    processInput gcfg uT amr (optRE i c) inText = (out1, .ok 0) ∧
    processInput gcfg uT amr (optRE i c) out1 = (out1, .ok 0) :=
  cli_normal_form_graph_stages C01.fmt_cfg_wf sepChar_generated uT amr false none true false false i c
    C13.modelWf_amr (by decide) inText inTree exG1 exT1 ex_parse3 (ex_in i c) ex_cf ex_wf.1 ex_wf.2.1 ex_wf.2.2.1
    ex_wf.2.2.2.1 ex_wf.2.2.2.2 rfl (ex_fix i c)

/-- the text that is printed (adaptive indentation) -/
def outText : Str :=
  s "# ::id 1\n(a / alpha\n   :ARG1-of (_ / have-mod-91\n               :ARG2 (b / beta))\n   :ARG0 b\n   :ARG1-of (_2 / have-polarity-91\n                :ARG2 -))"

theorem ex_out : format (nfTree amr none exT1) (some (-1)) false = outText := by decide +kernel

/-! ## F18 violates `StagesFixed` -/

/-- what `--amr --reify-edges --reify-attributes` prints for `(a / x :mod-of 7)`: `(a / x :mod-of (_ / 7))`.
    Decoding it gives the relation `(_ :mod a)`, which IS reifiable: `StagesFixed` fails, and the second
    pass prints something else (the `example` in Props/C20nfEval.lean). -/
theorem F18_not_stagesFixed :
    ¬ StagesFixed uT.isAlpha amr (stageOpts false none true false true (some (-1)) false)
      ⟨.mk (some (s "a")) (.atom (s "/") (.str (s "x"))
        (.sub (s ":mod-of") (.mk (some (s "_")) (.atom (s "/") (.str (s "7")) .nil)) .nil)), []⟩ := by
  decide +kernel

/-- … and the command is really not idempotent there (finding F18, as in Props/C20nfEval.lean): the second
    pass reifies the relation that the first pass created from the inverted attribute -/
theorem F18_counterexample :
    processInput gcfg uT amr (stageOpts false none true false true (some (-1)) false) (s "(a / x :mod-of 7)") =
      (s "(a / x\n   :mod-of (_ / 7))\n", .ok 0) ∧
    processInput gcfg uT amr (stageOpts false none true false true (some (-1)) false)
        (s "(a / x\n   :mod-of (_ / 7))\n") =
      (s "(a / x\n   :ARG2-of (_2 / have-mod-91\n                :ARG1 (_ / 7)))\n", .ok 0) := by
  cli_decide

end Penman.C20gen

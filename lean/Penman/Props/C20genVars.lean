import Penman.Proofs.NormalFormGraphVars
import Penman.Props.C20nf
/-!
# C20 (normal-form clause) — `--make-variables FMT`

The relabelling stage of the command (`processOut` in Penman/Main.lean: after `configure` and
`--rearrange`, `Tree.reset_variables(FMT)`).  Model functions: `Node.resetVariables`, `buildVarmap`,
`pickVar`, `Node.mapVars` (Penman/Tree.lean), `processOut`, `processTree`, `processInput`.
Vocabulary: `varOpts` (Spec/NormalFormGraph.lean: `stageOpts` plus `--make-variables`), `StagesFixed`,
`WfLayout`, `noNullN`, `WfTreeText`, `canonStep`, `rearrangeOpt`.

Clause ↦ theorem
* "the second pass relabels the already relabelled tree; the new names depend only on the concept prefixes
  in depth-first order and the template, which relabelling does not change" ↦ `reset_variables_idempotent`
  (PROVED, for every template, every lower-casing/alphabet table, every tree whose variables are defined
  once): `reset_variables(FMT)` of the relabelled tree returns it unchanged.  Proof
  (Proofs/NormalFormGraphReset.lean): C10 `reset_shape` (the result is the renaming `renNode vm`),
  `varmap_injective` (new names pairwise distinct), `renBranches_prefix` (concept prefixes untouched),
  `buildVarmap_renamed` (the map built for the relabelled tree is the diagonal on the new names),
  `renNode_diag` (the diagonal renaming is the identity, alignment suffixes included).
* normal form of the command with `--make-variables` ↦ `make_variables_normal_form_partial`: both passes
  print `format R'`, `R'` the relabelled tree, PROVIDED the printed tree `R'` itself is in the domain of the
  second pass — decidable hypotheses on `R'`: `WfLayout`, no empty concept slot, grammar-valid, fixed point
  of the canonicalisation / graph-stage / rearrangement steps.

UNPROVED (stated): `make_variables_normal_form` at the end of the file — the same WITHOUT the hypotheses on
`R'`, from the hypotheses of `Penman.C20gen.cli_normal_form_graph_stages` on the first-pass graph plus C10's
`WfReset` (no constant spelled like a new name) and new names that are SYMBOL texts.  MISSING: that
`WfLayout`, `WfTreeText`, sortedness under the `--rearrange` key and `StagesFixed` are preserved by the
renaming `renNode vm` (from C10 `reset_iso`: interpreting the relabelled tree is renaming the interpretation;
a new name equal to a constant of the tree would turn an attribute into a reference — C10's proviso).
-/
namespace Penman.C20gen
open Penman Penman.NF Penman.Cfg Penman.C03Text Penman.Framing

/-- **`reset_variables` is idempotent.**  For every template `fmt` (progressive or not), every
    alphabet / lower-casing table and every tree whose variables are defined once: if relabelling `n`
    succeeds with `n'`, relabelling `n'` succeeds and returns `n'`. -/
theorem reset_variables_idempotent (isAlpha : Char → Bool) (lower : Char → Str) (fmt : Fmt) (n n' : Node)
    (hnd : n.vars.Nodup) (h : n.resetVariables isAlpha lower fmt = .ok n') :
    n'.resetVariables isAlpha lower fmt = .ok n' :=
  RV.reset_idem isAlpha lower fmt n n' hnd h

/-- **normal-form clause with `--make-variables`, one graph** (`_partial`: hypotheses on the printed tree). -/
theorem make_variables_normal_form_partial {cfg : LexCfg} (hwc : Spec.FmtCfgWf cfg = true) (hsep : SepChar cfg '\n')
    (u : UTables) (m : Model) (canon : Bool) (re : Option (List KeyFn × Bool)) (rE dE rA : Bool) (fmt : Fmt)
    (i : Indent) (c : Bool) (x : Str) (T : Tree) (g1 : Graph) (T1 : Tree) (N' : Node)
    (hp : parseTree ⟨eofPos (lexStr cfg cfg.penmanOrder x)⟩ u.isSpace (lexStr cfg cfg.penmanOrder x)
      = .ok (T, []))
    (hin : processIn u m (varOpts canon re rE dE rA fmt i c) T = .ok g1)
    (hcf : configure m g1 none = .ok T1)
    (hnd : (rearrangeOpt m re T1).node.vars.Nodup)
    (hrv : (rearrangeOpt m re T1).node.resetVariables u.isAlpha u.lower fmt = .ok N')
    (hl : WfLayout u.isAlpha m N') (hnn : noNullN N' = true)
    (hwt : Spec.WfTreeText cfg N') (hwm : Spec.WfMeta u.isSpace T1.metadata)
    (hcanon : canonStep m canon ⟨N', T1.metadata⟩ = .ok ⟨N', T1.metadata⟩)
    (hfix : StagesFixed u.isAlpha m (varOpts canon re rE dE rA fmt i c) ⟨N', T1.metadata⟩)
    (hre : rearrangeOpt m re ⟨N', T1.metadata⟩ = ⟨N', T1.metadata⟩) :
    let out1 := format ⟨N', T1.metadata⟩ i c ++ ['\n']
    processInput cfg u m (varOpts canon re rE dE rA fmt i c) x = (out1, .ok 0) ∧
    processInput cfg u m (varOpts canon re rE dE rA fmt i c) out1 = (out1, .ok 0) := by
  have key := tree_normal_form_vars (cfg := cfg) u m canon re rE dE rA fmt i c T g1 T1 N' hin hcf hnd hrv hl hnn
    hwt hwm hcanon hfix hre
  have := stream_fixed hwc hsep u m (varOpts canon re rE dE rA fmt i c) x [⟨x, T, ⟨N', T1.metadata⟩⟩]
    (by intro g hgm; simp only [List.mem_singleton] at hgm; subst hgm; exact ⟨⟨_, hp⟩, key⟩)
    (by simpa using LSim.refl_nil u.isSpace _)
  simpa [streamOut, varOpts, stageOpts] using this

/-! ## non-vacuity -/

open Penman.C20nf in
/-- relabelling `(a / alpha :ARG0-of (b / beta) :mod 5 :ARG1 b)` with `{prefix}{j}` gives
    `(a / alpha :ARG0-of (b / beta) …)` again (the names already are the default ones); with `x{i}` it gives
    `(x0 / alpha :ARG0-of (x1 / beta) :mod 5 :ARG1 x1)`, and relabelling that changes nothing -/
example :
    exTree.node.resetVariables uT.isAlpha uT.lower [.lit (s "x"), .i] =
      .ok (.mk (some (s "x0")) (.atom (s "/") (.str (s "alpha"))
        (.sub (s ":ARG0-of") (.mk (some (s "x1")) (.atom (s "/") (.str (s "beta")) .nil))
        (.atom (s ":mod") (.str (s "5"))
        (.atom (s ":ARG1") (.str (s "x1")) .nil))))) ∧
    exTree.node.vars.Nodup := by decide +kernel

open Penman.C20nf in
example (n' : Node) (h : exTree.node.resetVariables uT.isAlpha uT.lower [.lit (s "x"), .i] = .ok n') :
    n'.resetVariables uT.isAlpha uT.lower [.lit (s "x"), .i] = .ok n' :=
  reset_variables_idempotent _ _ _ _ _ (by decide +kernel) h

/- UNPROVED (stated): the normal-form clause with `--make-variables` from hypotheses on the first pass only.

   theorem make_variables_normal_form {cfg : LexCfg} (hwc : Spec.FmtCfgWf cfg = true) (hsep : SepChar cfg '\n')
       (u : UTables) (m : Model) (canon : Bool) (re : Option (List KeyFn × Bool)) (rE dE rA : Bool) (fmt : Fmt)
       (hfmt : fmt.progressive = true) (i : Indent) (c : Bool) (hw : ModelWf m) (hnoop : m.noop = false)
       (x : Str) (T : Tree) (g1 : Graph) (T1 : Tree) (N' : Node)
       (hp : parseTree ⟨eofPos (lexStr cfg cfg.penmanOrder x)⟩ u.isSpace (lexStr cfg cfg.penmanOrder x) = .ok (T, []))
       (hin : processIn u m (varOpts canon re rE dE rA fmt i c) T = .ok g1)
       (hcf : configure m g1 none = .ok T1)
       (hg : WfGraph m g1) (hL : LayoutOK m g1) (htx : GraphTextOK cfg u.isSpace m g1) (hpv : Cfg.PushVars g1)
       (hnum : NoNum g1)
       (hcanon : canonStep m canon (nfTree m re T1) = .ok (nfTree m re T1))
       (hfix : StagesFixed u.isAlpha m (stageOpts canon re rE dE rA i c) (nfTree m re T1))
       (hrv : (nfTree m re T1).node.resetVariables u.isAlpha u.lower fmt = .ok N')
       (hreset : WfReset … (nfTree m re T1).node)            -- C10: no constant is spelled like a new name
       (hnames : ∀ v ∈ N'.vars, Spec.symbolB cfg v = true) :  -- the new names are SYMBOL texts
       let out1 := format ⟨N', T1.metadata⟩ i c ++ ['\n']
       processInput cfg u m (varOpts canon re rE dE rA fmt i c) x = (out1, .ok 0) ∧
       processInput cfg u m (varOpts canon re rE dE rA fmt i c) out1 = (out1, .ok 0)

   PROVED: `reset_variables_idempotent` (the relabelling step of the second pass is the identity) and
   `make_variables_normal_form_partial` (the composition, given that the relabelled tree `⟨N', _⟩` is `WfLayout`,
   without empty concept slot, grammar-valid, and a fixed point of the canonicalisation / stage /
   rearrangement steps; `Penman.C20gen.configure_wfLayout` gives these facts for the tree BEFORE relabelling).
   MISSING: the four preservation lemmas under the injective renaming `RV.renNode vm`
   (`WfLayout` — variables stay distinct by `varmap_injective`, denoted triples stay distinct and no new
   inverted self-loop arises by C10 `reset_iso` under `WfReset`; `WfTreeText` under `hnames`; sortedness —
   `rearrange` keys look at roles and at "target is a variable", both invariant under `WfReset`;
   `StagesFixed` — roles are untouched, attribute status is invariant under `WfReset`, the dereification
   agenda is invariant under a bijective renaming of variables). -/

end Penman.C20gen

/-
  Penman.Proofs.EncodeDecode — `encode` / `decode` (graph ↔ text) and the composition of
  * graph → tree   (`configure`: C03 / C06, `Proofs/Configure1…18`),
  * tree → text → tree (`format`, `parse`: C01; with numbers: `Proofs/EncodeDecodeA`),
  * the configured tree is grammar-valid (`Proofs/EncodeDecodeB`),
  * tree → graph   (`interpret` on the written form: `Proofs/EncodeDecodeC`).
-/
import Penman.Proofs.EncodeDecodeB
import Penman.Proofs.EncodeDecodeC
import Penman.Props.C06

namespace Penman.C03Text
open Penman Penman.Spec Penman.Cfg

/-- `penman.codec.PENMANCodec.encode(g, top, indent, compact)` =
    `format(configure(g, top, model), indent, compact)` -/
def encode (m : Model) (g : Graph) (top : Option Str) (i : Indent) (c : Bool) : Except PyErr Str :=
  (configure m g top).map (fun T => format T i c)

/-- `penman.codec.PENMANCodec.decode(s)` = `interpret(parse(s), model)` -/
def decode (cfg : LexCfg) (isSpace isAlpha : Char → Bool) (m : Model) (s : Str) : Except PyErr Graph :=
  C01.parse cfg isSpace s >>= interpret isAlpha m

variable {cfg : LexCfg}

/-! ### epidata-independence of the vocabulary -/

theorem reach_epidata {g : Graph} (e : Epidata) {a b : Str} :
    Reach { g with epidata := e } a b ↔ Reach g a b := by
  constructor
  · intro h
    induction h with
    | refl => exact Reach.refl
    | step _ hadj ih => exact Reach.step ih hadj
  · intro h
    induction h with
    | refl => exact Reach.refl
    | step _ hadj ih => exact Reach.step ih hadj

theorem wfGraph_epidata {m : Model} {g : Graph} (hg : WfGraph m g) {e : Epidata}
    (hna : NoAlign { g with epidata := e }) : WfGraph m { g with epidata := e } :=
  ⟨hg.nonempty, hg.labelled, hg.nullNodup, hg.nullAlone, hg.instNotEmpty, hg.roles, hg.srcs, hg.tgts,
    hg.noInstOf, hna⟩

theorem graphTextOK_epidata {isSpace : Char → Bool} {m : Model} {g : Graph}
    (h : GraphTextOK cfg isSpace m g) (e : Epidata) : GraphTextOK cfg isSpace m { g with epidata := e } :=
  ⟨h.srcs, h.roles, h.tgts, h.oneLabel, h.metaOK⟩

/-! ### the inversion of a ROLE text is a ROLE text -/

theorem noBreakB_append (a b : Str) : noBreakB (a ++ b) = (noBreakB a && noBreakB b) := by
  simp only [noBreakB, List.contains_eq_mem, List.mem_append, Bool.decide_or, Bool.not_or]
  cases decide ('\n' ∈ a) <;> cases decide ('\r' ∈ a) <;> cases decide ('\n' ∈ b) <;> cases decide ('\r' ∈ b) <;> rfl

/-- if `-`, `o`, `f` are role characters (`OfOK`), the inversion of a ROLE text is a ROLE text:
    the second half of `GraphTextOK.roles` is then automatic -/
theorem roleB_invertRole (hof : OfOK cfg = true) (m : Model) {r : Str} (h : roleB cfg r = true) :
    roleB cfg (m.invertRole r) = true := by
  cases r with
  | nil => simp [roleB] at h
  | cons c b =>
    have hc : c = ':' := by
      unfold roleB at h; split at h
      · rename_i heq; simp only [List.cons.injEq] at heq; exact heq.1
      · cases h
    subst hc
    simp only [roleB, Bool.and_eq_true] at h
    obtain ⟨h1, h2⟩ := h
    unfold Model.invertRole
    split
    · rename_i hcond
      simp only [Bool.and_eq_true] at hcond
      have hsuf : ofStr <:+ (':' :: b) := List.isSuffixOf_iff_suffix.1 hcond.2
      obtain ⟨pre, hpre⟩ := hsuf
      have hde : dropEnd 3 (':' :: b) = pre := by
        unfold dropEnd
        rw [← hpre]
        simp [ofStr]
      rw [hde]
      cases pre with
      | nil => simp [ofStr] at hpre
      | cons p pre' =>
        simp only [List.cons_append, List.cons.injEq] at hpre
        obtain ⟨rfl, hb⟩ := hpre
        subst hb
        rw [List.all_append, Bool.and_eq_true] at h1
        rw [noBreakB_append, Bool.and_eq_true] at h2
        simp only [roleB, Bool.and_eq_true]
        exact ⟨h1.1, h2.1⟩
    · have ho : ofStr.all (fun c => !cfg.roleExcl.contains c) = true := hof
      have hn : noBreakB ofStr = true := by decide
      simp only [List.cons_append, roleB, List.all_append, noBreakB_append, Bool.and_eq_true]
      exact ⟨⟨h1, ho⟩, h2, hn⟩

/-! ### from a successful `configure` to `Encoded` -/

/-- `Cfg.encoded` for a `configure` that is known to have succeeded (no connectivity hypothesis) -/
theorem encoded_of_ok {m : Model} {g : Graph} {top : Option Str} {T : Tree} (hw : ModelWf m) (hg : WfGraph m g)
    (hpv : PushVars g) (h : configure m g top = .ok T) :
    ∃ t st l, topOf g top = some t ∧ t ∈ g.variables ∧ Encoded m g t T st l := by
  have hr2 : ∀ x ∈ g.triples, RoleOK2 m x := fun x hx => roleOK2_of_colon m x (hg.roles x hx).1
  rcases configure_cases m g top with ⟨he, _⟩ | ⟨_, _, h'⟩ | ⟨t, _, ht, htv, ⟨e, _, h'⟩ | ⟨st, node, hs, _, hb, h'⟩⟩
  · rw [hg.nonempty] at he; simp at he
  · rw [h'] at h; simp at h
  · rw [h'] at h; simp at h
  · rw [h'] at h; simp only [Except.ok.injEq] at h; subst h
    obtain ⟨l1, hpre, l, hcorr, hperm⟩ := storeOf_sound hs hr2
    have hsub := keys_subset_variables hg.noInstOf hpv htv hs
    have hnd : ∀ x ∈ g.triples, nullB x = false → ∀ t1, PreStep m x t1 → ¬ Step m t1 none :=
      fun x hx hn t1 h1 => no_drop hg.noInstOf hx hn h1
    have hsrc : ∀ x ∈ l, x.src ∈ g.variables :=
      fun x hx => hsub _ (placed_src_key (hperm.subset hx))
    have hver : ∀ x ∈ l, ∃ t0 ∈ g.triples, x = t0 ∨ (x = m.invert t0 ∧ (∃ b, t0.tgt = .str b) ∧ t0.role ≠ CONCEPT_ROLE) := by
      intro x hx
      obtain ⟨t0, ht0, t1, h1, h2⟩ := chain_back hpre hcorr x hx
      exact ⟨t0, ht0, two_steps hw (hg.roles t0 ht0).2.2 h1 h2⟩
    have hnn : ∀ x ∈ l, ¬ NullInst x := by
      intro x hx
      obtain ⟨t0, _, t1, _, h2⟩ := chain_back hpre hcorr x hx
      cases h2 with
      | keep h => exact h
      | inv _ _ _ h => exact h
    have hinst : ∀ t0 ∈ g.triples, t0.role = CONCEPT_ROLE → nullB t0 = false → t0 ∈ l := by
      intro t0 ht0 hr0 hn0
      obtain ⟨t1, h1, h2⟩ := chain_fwd hpre hcorr t0 ht0
      rcases h2 with h2 | ⟨x, hx, h2⟩
      · exact absurd h2 (hnd t0 ht0 hn0 t1 h1)
      · have hx0 : x = t0 := by
          cases h1 with
          | same =>
            cases h2 with
            | keep => rfl
            | inv v hv hr => exact absurd hr0 hr
          | inv v hv hr => exact absurd hr0 hr
        subst hx0; exact hx
    refine ⟨t, st, l, ht, htv, ⟨hs, hb, rfl, hperm, hver, hnn, ?_, ?_, storeOf_plain hg.noAlign hs, hinst⟩⟩
    · apply chain_map (deinvert1 m g) (deinvert1 m g) (fun x => x.src ∈ g.variables) hpre hcorr hnd _ hsrc
      intro t0 ht0 t1 t2 h1 h2 hq
      exact deinvert1_version hw ht0 (hg.roles t0 ht0).2.2 (two_steps hw (hg.roles t0 ht0).2.2 h1 h2) hq
    · intro k
      refine ⟨hsub k, ?_⟩
      intro hk
      obtain ⟨t0, ht0, hs0, hr0⟩ := hg.labelled k hk
      rw [← hs0]
      exact storeOf_ownInst hs t0 ht0 hr0

/-- **the configured tree is grammar-valid**: whenever `configure` succeeds on a well-formed,
    character-level well-formed graph, the written form of the tree (numbers as their text) is
    `WfTreeText` and its metadata is `WfMeta` -/
theorem configured_tree_wf {isSpace : Char → Bool} {m : Model} {g : Graph} {top : Option Str} {T : Tree}
    (hw : ModelWf m) (hg : WfGraph m g) (htx : GraphTextOK cfg isSpace m g) (hpv : PushVars g)
    (h : configure m g top = .ok T) :
    WfTreeText cfg (writtenForm T.node) ∧ WfMeta isSpace T.metadata := by
  obtain ⟨t, st, l, _, htv, E⟩ := encoded_of_ok hw hg hpv h
  exact ⟨encoded_tree_wf hg htx htv E, E.metaEq ▸ htx.metaOK⟩

/-! ### `format` of a tree and of its written form -/

mutual
/-- every number of the tree has a non-empty text that is not in `vars` -/
def numsOKN (vars : List Str) : Node → Prop
  | .mk _ bs => numsOKB vars bs
def numsOKB (vars : List Str) : Branches → Prop
  | .nil => True
  | .atom _ a rest => (∀ s, a = .num s → s ≠ [] ∧ s ∉ vars) ∧ numsOKB vars rest
  | .sub _ n rest => numsOKN vars n ∧ numsOKB vars rest
end

mutual
theorem formatNode_written (indent : Indent) (vars : List Str) : (n : Node) → numsOKN vars n → ∀ col,
    formatNode indent vars (writtenForm n) col = formatNode indent vars n col
  | .mk none bs, _, col => by simp [writtenForm, formatNode]
  | .mk (some v) bs, h, col => by
    simp only [numsOKN] at h
    cases bs with
    | nil => simp [writtenForm, writtenBs, formatNode]
    | atom r a rest =>
      have := formatEdges_written indent vars (.atom r a rest) h
      simp only [writtenBs] at this
      simp only [writtenForm, writtenBs, formatNode, this]
    | sub r n rest =>
      have := formatEdges_written indent vars (.sub r n rest) h
      simp only [writtenBs] at this
      simp only [writtenForm, writtenBs, formatNode, this]
theorem formatEdges_written (indent : Indent) (vars : List Str) : (bs : Branches) → numsOKB vars bs → ∀ col,
    formatEdges indent vars (writtenBs bs) col = formatEdges indent vars bs col
  | .nil, _, col => rfl
  | .atom r a rest, h, col => by
    simp only [numsOKB] at h
    simp only [writtenBs, formatEdges, formatEdges_written indent vars rest h.2 col]
    cases a with
    | none => rfl
    | str s => rfl
    | num s =>
      obtain ⟨h1, h2⟩ := h.1 s rfl
      have : s.isEmpty = false := by cases s <;> simp_all
      simp [writtenAtom, atomInVars, Atom.isMissing, atomText, h2, this]
  | .sub r n rest, h, col => by
    simp only [numsOKB] at h
    simp only [writtenBs, formatEdges, formatEdges_written indent vars rest h.2 col,
      formatNode_written indent vars n h.1]
end

mutual
theorem numsOKN_of_triples (vars : List Str) : (n : Node) →
    (∀ x ∈ n.edgeTriples, ∀ s, x.tgt = .num s → s ≠ [] ∧ s ∉ vars) → numsOKN vars n
  | .mk v bs, h => by
    simp only [numsOKN]
    exact numsOKB_of_triples vars (v.getD []) bs (by simpa [Node.edgeTriples] using h)
theorem numsOKB_of_triples (vars : List Str) (v : Str) : (bs : Branches) →
    (∀ x ∈ Branches.edgeTriples v bs, ∀ s, x.tgt = .num s → s ≠ [] ∧ s ∉ vars) → numsOKB vars bs
  | .nil, _ => trivial
  | .atom r a rest, h => by
    simp only [Branches.edgeTriples, List.mem_cons, forall_eq_or_imp] at h
    exact ⟨fun s hs => h.1 s hs, numsOKB_of_triples vars v rest h.2⟩
  | .sub r n rest, h => by
    simp only [Branches.edgeTriples, List.mem_cons, List.mem_append, forall_eq_or_imp] at h
    exact ⟨numsOKN_of_triples vars n (fun x hx => h.2 x (Or.inl hx)),
      numsOKB_of_triples vars v rest (fun x hx => h.2 x (Or.inr hx))⟩
end

/-- a tree without numbers is its own written form -/
theorem format_written_eq (T : Tree) (i : Indent) (c : Bool)
    (h : numsOKN (if c = true then T.node.vars else []) T.node) :
    format ⟨writtenForm T.node, T.metadata⟩ i c = format T i c := by
  simp only [format, writtenForm_vars]
  rw [formatNode_written i _ T.node h 0]

/-! ### the text-level round trip -/

theorem tilde_not_in_symbol (hcfg : FmtCfgWf cfg = true) {s : Str} (h : symbolB cfg s = true) : '~' ∉ s := by
  have h1 := ((FL.symbolB_iff s).1 h).1.2
  intro hm
  exact h1 _ hm (FL.tilde_ends (FL.FmtCfgWf.toP hcfg)).1

/-- **C03 at the level of text.** -/
theorem encode_decode_text (hcfg : FmtCfgWf cfg = true) (isSpace isAlpha : Char → Bool) {m : Model} {g : Graph}
    {top : Option Str} {t : Str} (hw : ModelWf m) (hnoop : m.noop = false) (hg : WfGraph m g)
    (htx : GraphTextOK cfg isSpace m g) (hpv : PushVars g) (hps : PushSrcOK g) (ht : topOf g top = some t)
    (htv : t ∈ g.variables) (hreach : ∀ v ∈ g.variables, Reach g t v) (i : Indent) (c : Bool) :
    ∃ s g', encode m g top i c = .ok s ∧ decode cfg isSpace isAlpha m s = .ok g' ∧
      g'.getTop = some t ∧ (∀ x, x ∈ g'.variables ↔ x ∈ g.variables) ∧
      (g'.triples.map (deinvert1 m g)).Perm ((g.triples.map writtenTriple).map (deinvert1 m g)) ∧
      (∀ x ∈ g'.triples, ∃ t0 ∈ g.triples, x = writtenTriple t0 ∨ x = m.invert (writtenTriple t0)) ∧
      g'.metadata = g.metadata := by
  obtain ⟨T, st, l, hT, E⟩ := encoded hw hg hpv hps ht htv hreach
  have hwf := encoded_tree_wf hg htx htv E
  have hmeta : WfMeta isSpace T.metadata := E.metaEq ▸ htx.metaOK
  have hparse := parse_format_num hcfg isSpace T.node T.metadata hwf hmeta i c
  have hnumok : ∀ x ∈ g.triples, ∀ s, x.tgt = .num s → '~' ∉ s := by
    intro x hx s hs
    have := htx.tgts x hx
    rw [hs] at this
    exact tilde_not_in_symbol hcfg this
  obtain ⟨g', h1, h2, h3, h4, h5, h6⟩ := decode_written isAlpha hw hnoop hg hnumok E
  refine ⟨format T i c, g', by simp [encode, hT, Except.map], ?_, h2, h3, h4, h5, ?_⟩
  · simp only [decode]
    have : C01.parse cfg isSpace (format T i c) = .ok ⟨writtenForm T.node, T.metadata⟩ := hparse
    rw [this]
    exact h1
  · rw [h6]
    exact Interp.ofList_of_nodup _ htx.metaOK.1

/-- the `encode`/`parse` half on its own: the text parses back to the written form of the configured
    tree (with the same metadata) -/
theorem encode_parse_text (hcfg : FmtCfgWf cfg = true) (isSpace : Char → Bool) {m : Model} {g : Graph}
    {top : Option Str} {T : Tree} (hw : ModelWf m) (hg : WfGraph m g) (htx : GraphTextOK cfg isSpace m g)
    (hpv : PushVars g) (h : configure m g top = .ok T) (i : Indent) (c : Bool) :
    encode m g top i c = .ok (format T i c) ∧
    C01.parse cfg isSpace (format T i c) = .ok ⟨writtenForm T.node, T.metadata⟩ := by
  obtain ⟨h1, h2⟩ := configured_tree_wf hw hg htx hpv h
  exact ⟨by simp [encode, h, Except.map], parse_format_num hcfg isSpace T.node T.metadata h1 h2 i c⟩

/-! ### totality and the error clause -/

theorem encode_ok_iff {m : Model} {g : Graph} {top : Option Str} {i : Indent} {c : Bool} :
    (∃ s, encode m g top i c = .ok s) ↔ ∃ T, configure m g top = .ok T := by
  unfold encode
  cases configure m g top with
  | error e => simp [Except.map]
  | ok T => simp [Except.map]

theorem encode_error_iff {m : Model} {g : Graph} {top : Option Str} {i : Indent} {c : Bool} (e : PyErr) :
    encode m g top i c = .error e ↔ configure m g top = .error e := by
  unfold encode
  cases configure m g top with
  | error e' => simp [Except.map]
  | ok T => simp [Except.map]

/-! ### evaluating `configure` on concrete graphs
    (`buildNode` is defined by well-founded recursion and does not reduce in the kernel: the store is
    computed by `decide +kernel`, the tree by `simp` with the equations of `buildNode`) -/

theorem configure_of_store {m : Model} {g : Graph} {top : Option Str} {t : Str} {cells : Cells} {node : Node}
    (hne : g.triples.isEmpty = false) (ht : topOf g top = some t) (htv : t ∈ g.variables)
    (hs : (storeOf m g t).toOption.map (·.cells) = some cells)
    (hb : buildNode cells (2 * cells.length + 2) t = .ok node) :
    configure m g top = .ok ⟨node, g.metadata⟩ := by
  rw [configure_pipeline, hne, ht]
  simp only [Bool.false_eq_true, if_false, htv, not_true_eq_false]
  cases hst : storeOf m g t with
  | error e => rw [hst] at hs; simp [Except.toOption] at hs
  | ok st =>
    rw [hst] at hs
    simp only [Except.toOption, Option.map_some, Option.some.injEq] at hs
    subst hs
    simp [Except.bind, hb]

theorem encode_of_configure {m : Model} {g : Graph} {top : Option Str} {T : Tree} {i : Indent} {c : Bool} {s : Str}
    (h : configure m g top = .ok T) (hf : format T i c = s) : encode m g top i c = .ok s := by
  simp [encode, h, Except.map, hf]

end Penman.C03Text

/-
  Penman.Proofs.Interpret — helper lemmas for C04/C14:
  string-level characterisations of `_process_role`/`_process_atomic`,
  inversion lemmas for `interpretNode`/`interpretBranches`, the event view of
  Push/POP markers and the stack simulation of `node_contexts`, the
  correspondence `interpretNode` ↔ `Spec.Reading`, `epimapOf`/`AList.ofList`.
-/
import Penman.Spec.Reading
namespace Penman.Interp
open Penman Penman.Spec.Reading

/-! ### strings -/

theorem takeWhile_all {α} (p : α → Bool) (l : List α) (h : ∀ x ∈ l, p x = true) : l.takeWhile p = l := by
  induction l with
  | nil => rfl
  | cons a l ih =>
    rw [List.takeWhile_cons, h a (by simp), if_pos rfl, ih (fun x hx => h x (List.mem_cons_of_mem _ hx))]

theorem dropWhile_all {α} (p : α → Bool) (l : List α) (h : ∀ x ∈ l, p x = true) : l.dropWhile p = [] := by
  induction l with
  | nil => rfl
  | cons a l ih =>
    rw [List.dropWhile_cons, h a (by simp), if_pos rfl, ih (fun x hx => h x (List.mem_cons_of_mem _ hx))]

theorem partition_tilde (s : Str) :
    partitionStr ['~'] s = (beforeTilde s, decide ('~' ∈ s), afterTilde s) := by
  induction s with
  | nil => simp [partitionStr, beforeTilde, afterTilde]
  | cons c cs ih =>
    unfold partitionStr
    by_cases hc : c = '~'
    · subst hc; simp [beforeTilde, afterTilde]
    · have : (['~'].isPrefixOf (c :: cs)) = false := by simp [List.isPrefixOf]; exact fun h => hc h.symm
      have hc' : ¬ '~' = c := fun h => hc h.symm
      simp only [this, ih]
      by_cases hm : '~' ∈ cs
      · simp [beforeTilde, afterTilde, hc, hm]
      · have h1 : List.takeWhile (fun x => !decide (x = '~')) cs = cs := by
          apply takeWhile_all; intro x hx; simp; rintro rfl; exact hm hx
        have h2 : List.dropWhile (fun x => !decide (x = '~')) cs = [] := by
          apply dropWhile_all; intro x hx; simp; rintro rfl; exact hm hx
        simp [beforeTilde, afterTilde, hc, hm, h1, h2, hc']

theorem processRole_eq (isAlpha : Char → Bool) (raw : Str) :
    processRole isAlpha raw =
      (parseAln? isAlpha (roleAlnText raw)).map fun ra =>
        (roleName raw, match ra with | none => [] | some a => [Epi.roleAln a.1 a.2]) := by
  unfold processRole roleName roleAlnText
  by_cases h : raw = ['/']
  · simp [h, parseAln?, Except.map]
  · simp only [h, if_false, partition_tilde]
    by_cases hm : '~' ∈ raw
    · simp only [hm, decide_true, if_true, parseAln?]
      cases alnFromString isAlpha (afterTilde raw) with
      | error e => rfl
      | ok v => rfl
    · have : beforeTilde raw = raw := by
        apply takeWhile_all; intro x hx; simp; rintro rfl; exact hm hx
      simp [hm, parseAln?, Except.map, this]

theorem mem_takeWhile_imp {α} {p : α → Bool} {l : List α} {x : α} (h : x ∈ l.takeWhile p) : p x = true :=
  List.all_eq_true.1 (List.all_takeWhile (l := l) (p := p)) x h

theorem rfindAux_noquote (b : Str) (hb : '"' ∉ b) (i : Nat) (acc : Option Nat) :
    rfindAux ['"'] b i acc = acc := by
  induction b generalizing i acc with
  | nil => rfl
  | cons c cs ih =>
    have hc : ¬ '"' = c := fun h => hb (by rw [h]; exact List.mem_cons_self)
    have : (['"'].isPrefixOf (c :: cs)) = false := by simp [List.isPrefixOf, hc]
    rw [rfindAux, this, ih (fun h => hb (List.mem_cons_of_mem _ h))]; rfl

theorem rfindAux_split (a b : Str) (hb : '"' ∉ b) (i : Nat) (acc : Option Nat) :
    rfindAux ['"'] (a ++ '"' :: b) i acc = some (i + a.length) := by
  induction a generalizing i acc with
  | nil =>
    have : (['"'].isPrefixOf ('"' :: b)) = true := by simp [List.isPrefixOf]
    simp only [List.nil_append, rfindAux, this, if_true, rfindAux_noquote b hb]; simp
  | cons c cs ih => simp only [List.cons_append, rfindAux, ih, List.length_cons]; congr 1; omega

theorem quote_split (s : Str) (h : '"' ∈ s) :
    ∃ a, throughLastQuote s = a ++ ['"'] ∧ s = a ++ '"' :: afterLastQuoteText s ∧
      '"' ∉ afterLastQuoteText s := by
  have hs : s = throughLastQuote s ++ afterLastQuoteText s := by
    have := List.takeWhile_append_dropWhile (p := (· ≠ '"')) (l := s.reverse)
    have := congrArg List.reverse this
    simp only [List.reverse_append, List.reverse_reverse] at this
    exact this.symm
  have hno : '"' ∉ afterLastQuoteText s := by
    intro hm
    have : '"' ∈ s.reverse.takeWhile (· ≠ '"') := by simpa [afterLastQuoteText] using hm
    have := mem_takeWhile_imp this
    simp at this
  have hne : s.reverse.dropWhile (· ≠ '"') ≠ [] := by
    intro h0
    have h1 : s.reverse.takeWhile (· ≠ '"') = s.reverse := by
      have := List.takeWhile_append_dropWhile (p := (· ≠ '"')) (l := s.reverse)
      rw [h0, List.append_nil] at this; exact this
    have : '"' ∈ s.reverse.takeWhile (· ≠ '"') := by rw [h1]; simpa using h
    have := mem_takeWhile_imp this
    simp at this
  have hhead := List.head_dropWhile_not (· ≠ '"') hne
  obtain ⟨x, xs, hx⟩ := List.exists_cons_of_ne_nil hne
  simp only [hx, List.head_cons] at hhead
  have hx' : x = '"' := by simpa using hhead
  subst hx'
  refine ⟨xs.reverse, ?_, ?_, hno⟩
  · unfold throughLastQuote; rw [hx]; simp
  · have : throughLastQuote s = xs.reverse ++ ['"'] := by unfold throughLastQuote; rw [hx]; simp
    rw [this] at hs
    simpa using hs

def tgtEpis : Option Marker → List Epi
  | none => []
  | some a => [Epi.aln a.1 a.2]
def roleEpis : Option Marker → List Epi
  | none => []
  | some a => [Epi.roleAln a.1 a.2]

theorem processAtomic_str (isAlpha : Char → Bool) (s : Str) :
    processAtomic isAlpha (.str s) =
      (parseAln? isAlpha (splitTarget s).2).map fun ta => (Atom.str (splitTarget s).1, tgtEpis ta) := by
  unfold processAtomic splitTarget
  by_cases hm : '~' ∈ s
  · have hne : s.isEmpty = false := by cases s <;> simp_all
    have hc : s.contains '~' = true := by simpa using hm
    simp only [hne, hc, Bool.not_true, Bool.or_self, Bool.false_eq_true, if_false, hm, if_true]
    by_cases hq : s.head? = some '"'
    · have hsw : startsWith ['"'] s = true := by
        cases s with
        | nil => simp at hq
        | cons c cs => simp at hq; subst hq; simp [startsWith, List.isPrefixOf]
      have hmem : '"' ∈ s := by
        cases s with
        | nil => simp at hq
        | cons c cs => simp at hq; subst hq; simp
      obtain ⟨a, h1, h2, h3⟩ := quote_split s hmem
      have hpiv : afterLastQuote s = a.length + 1 := by
        unfold afterLastQuote
        conv => lhs; rw [h2]
        rw [rfindAux_split a _ h3]; simp
      have hlen : s.length = a.length + 1 + (afterLastQuoteText s).length := by
        conv => lhs; rw [h2]
        simp; omega
      have htake : s.take (a.length + 1) = throughLastQuote s := by
        rw [h1]; conv => lhs; rw [h2]
        rw [show a ++ '"' :: afterLastQuoteText s = (a ++ ['"']) ++ afterLastQuoteText s by simp]
        rw [List.take_left' (by simp)]
      have hdrop : s.drop (a.length + 1) = afterLastQuoteText s := by
        conv => lhs; rw [h2]
        rw [show a ++ '"' :: afterLastQuoteText s = (a ++ ['"']) ++ afterLastQuoteText s by simp]
        rw [List.drop_left' (by simp)]
      simp only [hsw, hq, if_true, hpiv, htake, hdrop]
      by_cases ht : afterLastQuoteText s = []
      · have : ¬ (a.length + 1 < s.length) := by rw [hlen, ht]; simp
        simp [this, ht, parseAln?, Except.map, tgtEpis]
      · have : a.length + 1 < s.length := by
          rw [hlen]; have := List.length_pos_iff.2 ht; omega
        simp only [this, if_true, ht, if_false, parseAln?]
        cases alnFromString isAlpha (afterLastQuoteText s) with
        | error e => rfl
        | ok v => rfl
    · have hsw : startsWith ['"'] s = false := by
        cases s with
        | nil => simp [startsWith, List.isPrefixOf]
        | cons c cs =>
          simp at hq; simp [startsWith, List.isPrefixOf]; exact fun h => hq h.symm
      simp only [hsw, hq, Bool.false_eq_true, if_false, partition_tilde, parseAln?]
      cases alnFromString isAlpha (afterTilde s) with
      | error e => rfl
      | ok v => rfl
  · have hc : s.contains '~' = false := by simpa using hm
    simp [hm, parseAln?, Except.map, tgtEpis]

/-! ### inversion lemmas for the interpreter -/

theorem interpretBranches_atom_ok {isAlpha m vars v r a rest out}
    (h : interpretBranches isAlpha m vars v (.atom r a rest) = .ok out) :
    ∃ role repis tgt tepis out', processRole isAlpha r = .ok (role, repis) ∧
      processAtomic isAlpha a = .ok (tgt, tepis) ∧
      interpretBranches isAlpha m vars v rest = .ok out' ∧
      out = ⟨out'.hasConcept || decide (role = CONCEPT_ROLE),
        (if m.isRoleInverted role && atomInVars vars tgt then m.deinvert ⟨v, role, tgt⟩ else ⟨v, role, tgt⟩) :: out'.triples,
        ((if m.isRoleInverted role && atomInVars vars tgt then m.deinvert ⟨v, role, tgt⟩ else ⟨v, role, tgt⟩), repis ++ tepis) :: out'.epidata⟩ := by
  rw [interpretBranches] at h
  cases h1 : processRole isAlpha r with
  | error e => simp [h1, bind, Except.bind] at h
  | ok p1 =>
    obtain ⟨role, repis⟩ := p1
    cases h2 : processAtomic isAlpha a with
    | error e => simp [h1, h2, bind, Except.bind] at h
    | ok p2 =>
      obtain ⟨tgt, tepis⟩ := p2
      cases h3 : interpretBranches isAlpha m vars v rest with
      | error e => simp [h1, h2, h3, bind, Except.bind] at h
      | ok out' =>
        simp only [h1, h2, h3, bind, Except.bind, pure, Except.pure, Except.ok.injEq] at h
        exact ⟨role, repis, tgt, tepis, out', rfl, rfl, rfl, h.symm⟩

theorem interpretBranches_sub_ok {isAlpha m vars v r n rest out}
    (h : interpretBranches isAlpha m vars v (.sub r n rest) = .ok out) :
    ∃ role repis nv nts nes out', processRole isAlpha r = .ok (role, repis) ∧
      n.var = some nv ∧ interpretNode isAlpha m vars n = .ok (nts, nes) ∧
      interpretBranches isAlpha m vars v rest = .ok out' ∧
      out = ⟨out'.hasConcept || decide (role = CONCEPT_ROLE),
        m.deinvert ⟨v, role, .str nv⟩ :: nts ++ out'.triples,
        (m.deinvert ⟨v, role, .str nv⟩, repis ++ [.push nv]) :: appendPopLast nes ++ out'.epidata⟩ := by
  rw [interpretBranches] at h
  cases h1 : processRole isAlpha r with
  | error e => simp [h1, bind, Except.bind] at h
  | ok p1 =>
    obtain ⟨role, repis⟩ := p1
    cases h0 : n.var with
    | none => simp [h1, h0, bind, Except.bind, throw, throwThe, MonadExceptOf.throw] at h
    | some nv =>
      cases h2 : interpretNode isAlpha m vars n with
      | error e => simp [h1, h0, h2, bind, Except.bind] at h
      | ok p2 =>
        obtain ⟨nts, nes⟩ := p2
        cases h3 : interpretBranches isAlpha m vars v rest with
        | error e => simp [h1, h0, h2, h3, bind, Except.bind] at h
        | ok out' =>
          simp only [h1, h0, h2, h3, bind, Except.bind, pure, Except.pure, Except.ok.injEq] at h
          exact ⟨role, repis, nv, nts, nes, out', rfl, rfl, rfl, rfl, h.symm⟩

theorem interpretNode_ok {isAlpha m vars v bs ts es}
    (h : interpretNode isAlpha m vars (.mk v bs) = .ok (ts, es)) :
    ∃ var out, v = some var ∧ interpretBranches isAlpha m vars var bs = .ok out ∧
      ((out.hasConcept = true ∧ ts = out.triples ∧ es = out.epidata) ∨
       (out.hasConcept = false ∧ ts = ⟨var, CONCEPT_ROLE, .none⟩ :: out.triples ∧
          es = (⟨var, CONCEPT_ROLE, .none⟩, []) :: out.epidata)) := by
  cases v with
  | none => simp [interpretNode] at h
  | some var =>
    simp only [interpretNode] at h
    cases h1 : interpretBranches isAlpha m vars var bs with
    | error e => simp [h1, bind, Except.bind] at h
    | ok out =>
      simp only [h1, bind, Except.bind] at h
      cases hc : out.hasConcept with
      | true =>
        simp only [hc, if_true, pure, Except.pure, Except.ok.injEq, Prod.mk.injEq] at h
        exact ⟨var, out, rfl, h1, .inl ⟨hc, h.1.symm, h.2.symm⟩⟩
      | false =>
        simp only [hc, Bool.false_eq_true, if_false, pure, Except.pure, Except.ok.injEq, Prod.mk.injEq] at h
        exact ⟨var, out, rfl, h1, .inr ⟨hc, h.1.symm, h.2.symm⟩⟩

/-! ### events and the stack simulation -/


def firstPush (e : List Epi) : Option Str := e.findSome? fun | .push v => some v | _ => none
def countPop (e : List Epi) : Nat := (e.filter (·.isPop)).length

inductive Ev where
  | t (tr : Triple) (push : Option Str)
  | p

def countT : List Ev → Nat
  | [] => 0
  | .t _ _ :: r => countT r + 1
  | .p :: r => countT r

def evOf (x : Triple × List Epi) : List Ev := .t x.1 (firstPush x.2) :: List.replicate (countPop x.2) .p
def events (l : List (Triple × List Epi)) : List Ev := l.flatMap evOf
def eventsG (g : Graph) (ts : List Triple) : List Ev :=
  ts.flatMap fun t => evOf (t, (AList.get? g.epidata t).getD [])

def eligible (vars : List Str) (t : Triple) : List Str :=
  t.src :: (if t.role ≠ CONCEPT_ROLE then (match t.tgt with | .str s => if s ∈ vars then [s] else [] | _ => []) else [])

def pushOn (push : Option Str) (st : List (Option Str)) : List (Option Str) :=
  match push with
  | some p => if p.isEmpty then st else some p :: st
  | none => st

def run (vars : List Str) : List Ev → List (Option Str) → List (Option Str)
  | [], _ => []
  | .p :: r, [] => List.replicate (countT r) none
  | .p :: r, _ :: st => run vars r st
  | .t _ _ :: r, [] => List.replicate (countT r + 1) none
  | .t _ _ :: r, none :: _ => List.replicate (countT r + 1) none
  | .t tr push :: r, some cur :: st =>
    if cur ∉ eligible vars tr then List.replicate (countT r + 1) none
    else some cur :: run vars r (pushOn push (some cur :: st))

theorem countT_append (a b : List Ev) : countT (a ++ b) = countT a + countT b := by
  induction a with
  | nil => simp [countT]
  | cons x a ih => cases x <;> simp [countT, ih] <;> omega

theorem countT_replicate_p (n : Nat) : countT (List.replicate n .p) = 0 := by
  induction n with
  | zero => rfl
  | succ n ih => simp [List.replicate_succ, countT, ih]

theorem countT_evOf (x) : countT (evOf x) = 1 := by
  simp [evOf, countT, countT_replicate_p]

theorem countT_events (l) : countT (events l) = l.length := by
  induction l with
  | nil => rfl
  | cons x l ih => simp [events, List.flatMap_cons, countT_append, countT_evOf] at *; omega

theorem countT_eventsG (g ts) : countT (eventsG g ts) = ts.length := by
  induction ts with
  | nil => rfl
  | cons x l ih => simp [eventsG, List.flatMap_cons, countT_append, countT_evOf] at *; omega

theorem run_pops (vars : List Str) (n : Nat) (evs : List Ev) (st : List (Option Str)) :
    run vars (List.replicate n .p ++ evs) st =
      if n > st.length then List.replicate (countT evs) none else run vars evs (st.drop n) := by
  induction n generalizing st with
  | zero => simp
  | succ n ih =>
    cases st with
    | nil => simp [List.replicate_succ, run, countT_append, countT_replicate_p]
    | cons x st => simp [List.replicate_succ, run, ih]

theorem loop_step (g : Graph) (vars : List Str) (t : Triple) (rest : List Triple) (cur : Str)
    (stack : List (Option Str)) :
    nodeContextsLoop g vars (t :: rest) (some cur :: stack) =
      if cur ∉ eligible vars t then .ok (List.replicate (rest.length + 1) none)
      else if countPop ((AList.get? g.epidata t).getD []) >
          (pushOn (firstPush ((AList.get? g.epidata t).getD [])) (some cur :: stack)).length then
        .ok (some cur :: List.replicate rest.length none)
      else (nodeContextsLoop g vars rest
          ((pushOn (firstPush ((AList.get? g.epidata t).getD [])) (some cur :: stack)).drop
            (countPop ((AList.get? g.epidata t).getD [])))).map (some cur :: ·) := by
  simp only [nodeContextsLoop]
  rfl

theorem loop_eq_run (g : Graph) (vars : List Str) (ts : List Triple) (st : List (Option Str)) :
    nodeContextsLoop g vars ts st = .ok (run vars (eventsG g ts) st) := by
  induction ts generalizing st with
  | nil => simp [nodeContextsLoop, eventsG, run]
  | cons t rest ih =>
    have hev : eventsG g (t :: rest) =
        .t t (firstPush ((AList.get? g.epidata t).getD [])) ::
          (List.replicate (countPop ((AList.get? g.epidata t).getD [])) .p ++ eventsG g rest) := by
      simp [eventsG, List.flatMap_cons, evOf]
    rw [hev]
    cases st with
    | nil => simp [nodeContextsLoop, run, countT_append, countT_replicate_p, countT_eventsG]
    | cons top stack =>
      cases top with
      | none => simp [nodeContextsLoop, run, countT_append, countT_replicate_p, countT_eventsG]
      | some cur =>
        rw [loop_step]
        simp only [run]
        by_cases hel : cur ∈ eligible vars t
        · simp only [hel, not_true_eq_false, if_false, run_pops, ih]
          by_cases hp : countPop ((AList.get? g.epidata t).getD []) >
              (pushOn (firstPush ((AList.get? g.epidata t).getD [])) (some cur :: stack)).length
          · simp only [hp, if_true, countT_eventsG]
          · simp only [hp, if_false]; rfl
        · simp only [hel, not_false_eq_true, if_true, countT_append, countT_replicate_p, countT_eventsG]
          simp



/-! ### entries vs denoted relations -/

def roleProj (e : List Epi) : Option Epi := (e.filter fun x => x.mode = 1).getLast?
def tgtProj (e : List Epi) : Option Epi := (e.filter fun x => x.mode = 2).getLast?

structure EntryOk (x : Triple × List Epi) (d : Denoted) : Prop where
  key : x.1 = d.triple
  ra : roleProj x.2 = d.roleAln.map fun a => Epi.roleAln a.1 a.2
  ta : tgtProj x.2 = d.tgtAln.map fun a => Epi.aln a.1 a.2
  push : firstPush x.2 = d.opens

theorem EntryOk.pop {t e d} (h : EntryOk (t, e) d) : EntryOk (t, e ++ [.pop]) d := by
  obtain ⟨h1, h2, h3, h4⟩ := h
  refine ⟨h1, ?_, ?_, ?_⟩
  · simpa [roleProj, List.filter_append, Epi.mode] using h2
  · simpa [tgtProj, List.filter_append, Epi.mode] using h3
  · simpa [firstPush, List.findSome?_append] using h4

/-- pointwise relation of two lists (core has no `Forall₂`) -/
inductive All2 {α β : Type} (R : α → β → Prop) : List α → List β → Prop where
  | nil : All2 R [] []
  | cons {a b l₁ l₂} : R a b → All2 R l₁ l₂ → All2 R (a :: l₁) (b :: l₂)

theorem All2.append {α β : Type} {R : α → β → Prop} {a₁ a₂ b₁ b₂} (h₁ : All2 R a₁ b₁) (h₂ : All2 R a₂ b₂) :
    All2 R (a₁ ++ a₂) (b₁ ++ b₂) := by
  induction h₁ with
  | nil => exact h₂
  | cons h _ ih => exact .cons h ih

theorem All2.map_eq {α β γ : Type} {R : α → β → Prop} {f : α → γ} {g : β → γ} {l₁ l₂}
    (h : All2 R l₁ l₂) (hfg : ∀ a b, R a b → f a = g b) : l₁.map f = l₂.map g := by
  induction h with
  | nil => rfl
  | cons h _ ih => simp [hfg _ _ h, ih]

theorem forall2_appendPopLast {es ds} (h : All2 EntryOk es ds) :
    All2 EntryOk (appendPopLast es) ds := by
  induction h with
  | nil => exact .nil
  | @cons x d es ds hx hrest ih =>
    cases es with
    | nil => cases hrest; obtain ⟨t, e⟩ := x; exact .cons hx.pop .nil
    | cons y r => exact .cons hx ih

theorem events_appendPopLast {es : List (Triple × List Epi)} (h : es ≠ []) :
    events (appendPopLast es) = events es ++ [.p] := by
  induction es with
  | nil => exact absurd rfl h
  | cons x es ih =>
    cases es with
    | nil =>
      obtain ⟨t, e⟩ := x
      simp [appendPopLast, events, evOf, firstPush, countPop, List.findSome?_append, List.filter_append,
        Epi.isPop, List.replicate_succ']
    | cons y r =>
      have := ih (by simp)
      simp only [appendPopLast, events, List.flatMap_cons] at this ⊢
      rw [this]; simp

/-! ### the run invariant -/

def RunInv (vars : List Str) (v : Str) (es : List (Triple × List Epi)) (cs : List (Option Str)) : Prop :=
  ∀ k st, run vars (events es ++ k) (some v :: st) = cs ++ run vars k (some v :: st)

theorem RunInv.nil (vars v) : RunInv vars v [] [] := by intro k st; simp [events]

theorem RunInv.flat {vars v tr e es cs} (hp : firstPush e = none) (hc : countPop e = 0)
    (hel : v ∈ eligible vars tr) (h : RunInv vars v es cs) :
    RunInv vars v ((tr, e) :: es) (some v :: cs) := by
  intro k st
  simp only [events, List.flatMap_cons, evOf, hp, hc, List.replicate_zero, List.cons_append,
    List.nil_append, run, hel, not_true_eq_false, if_false, pushOn]
  have := h k st
  simp only [events] at this
  rw [this]

theorem RunInv.sub {vars v nv tr e nes ncs es cs} (hp : firstPush e = some nv) (hnv : nv ≠ [])
    (hc : countPop e = 0) (hel : v ∈ eligible vars tr) (hn : RunInv vars nv nes ncs) (hne : nes ≠ [])
    (h : RunInv vars v es cs) :
    RunInv vars v ((tr, e) :: appendPopLast nes ++ es) (some v :: ncs ++ cs) := by
  intro k st
  have he : events ((tr, e) :: appendPopLast nes ++ es) ++ k =
      .t tr (some nv) :: (events nes ++ (.p :: (events es ++ k))) := by
    have := events_appendPopLast hne
    simp only [events] at this
    simp only [events, List.flatMap_cons, List.flatMap_append, evOf, hp, hc, List.replicate_zero, this]
    simp
  have hemp : nv.isEmpty = false := by cases nv <;> simp_all
  rw [he]
  simp only [run, hel, not_true_eq_false, if_false, pushOn, hemp, Bool.false_eq_true]
  rw [hn, run, h]; simp


/-! ### interpretNode vs the reading -/

theorem mapM_cons_ok {α β ε : Type} {f : α → Except ε β} {a l b bs} (h1 : f a = .ok b)
    (h2 : List.mapM f l = .ok bs) : List.mapM f (a :: l) = .ok (b :: bs) := by
  simp [List.mapM_cons, h1, h2, bind, Except.bind, pure, Except.pure]

theorem mapM_append_ok {α β ε : Type} {f : α → Except ε β} {l1 l2 b1 b2} (h1 : List.mapM f l1 = .ok b1)
    (h2 : List.mapM f l2 = .ok b2) : List.mapM f (l1 ++ l2) = .ok (b1 ++ b2) := by
  simp [List.mapM_append, h1, h2, bind, Except.bind, pure, Except.pure]

/-- what the stack simulation needs of a denoted relation -/
def GoodD (vars : List Str) (d : Denoted) : Prop :=
  d.ctx ∈ vars ∧ d.opens ≠ some [] ∧ (d.swapped = true → d.triple.role ≠ CONCEPT_ROLE)

def Good (vars : List Str) (ds : List Denoted) : Prop := ∀ d ∈ ds, GoodD vars d

theorem eligible_orient {vars : List Str} {m : Model} {sw : Bool} {v role x}
    (hv : v ∈ vars) (hr : sw = true → (orientTriple m sw ⟨v, role, .str x⟩).role ≠ CONCEPT_ROLE) :
    v ∈ eligible vars (orientTriple m sw ⟨v, role, .str x⟩) := by
  cases sw with
  | false => simp [orientTriple, eligible]
  | true =>
    have := hr rfl
    simp only [orientTriple, if_true, Model.invert] at this ⊢
    simp [eligible, this, hv]

theorem labelled_atom (r a rest) : labelled (.atom r a rest) = (decide (roleName r = CONCEPT_ROLE) || labelled rest) := by
  simp [labelled, Branches.toList]
theorem labelled_sub (r n rest) : labelled (.sub r n rest) = (decide (roleName r = CONCEPT_ROLE) || labelled rest) := by
  simp [labelled, Branches.toList]

theorem processRole_ok {isAlpha raw role repis} (h : processRole isAlpha raw = .ok (role, repis)) :
    ∃ ra, parseAln? isAlpha (roleAlnText raw) = .ok ra ∧ role = roleName raw ∧ repis = roleEpis ra := by
  rw [processRole_eq] at h
  cases hp : parseAln? isAlpha (roleAlnText raw) with
  | error e => simp [hp, Except.map] at h
  | ok ra =>
    simp only [hp, Except.map, Except.ok.injEq, Prod.mk.injEq] at h
    refine ⟨ra, rfl, h.1.symm, ?_⟩
    rw [← h.2]; cases ra <;> rfl

theorem atom_triple_str (m : Model) (vars : List Str) (c role s) :
    (if m.isRoleInverted role && atomInVars vars (.str s) then m.deinvert ⟨c, role, .str s⟩ else ⟨c, role, .str s⟩) =
      orientTriple m (!m.noop && m.isRoleInverted role && decide (s ∈ vars)) ⟨c, role, .str s⟩ := by
  unfold orientTriple Model.deinvert atomInVars
  cases m.noop <;> cases m.isRoleInverted role <;> by_cases h : s ∈ vars <;> simp [h]

theorem sub_triple (m : Model) (c role nv) :
    m.deinvert ⟨c, role, .str nv⟩ = orientTriple m (!m.noop && m.isRoleInverted role) ⟨c, role, .str nv⟩ := by
  unfold orientTriple Model.deinvert
  cases m.noop <;> cases m.isRoleInverted role <;> simp


theorem entryOk_atom (tr : Triple) (ra ta : Option Marker) (c : Str) (sw : Bool) :
    EntryOk (tr, roleEpis ra ++ tgtEpis ta) ⟨tr, ra, ta, c, none, sw⟩ := by
  cases ra <;> cases ta <;>
    exact ⟨rfl, by simp [roleProj, roleEpis, tgtEpis, Epi.mode], by simp [tgtProj, roleEpis, tgtEpis, Epi.mode],
      by simp [firstPush, roleEpis, tgtEpis]⟩

theorem entryOk_sub (tr : Triple) (ra : Option Marker) (c nv : Str) (sw : Bool) :
    EntryOk (tr, roleEpis ra ++ [.push nv]) ⟨tr, ra, none, c, some nv, sw⟩ := by
  cases ra <;>
    exact ⟨rfl, by simp [roleProj, roleEpis, Epi.mode], by simp [tgtProj, roleEpis, Epi.mode],
      by simp [firstPush, roleEpis]⟩

theorem atom_epis_flat (ra ta : Option Marker) :
    firstPush (roleEpis ra ++ tgtEpis ta) = none ∧ countPop (roleEpis ra ++ tgtEpis ta) = 0 := by
  cases ra <;> cases ta <;> simp [firstPush, countPop, roleEpis, tgtEpis, Epi.isPop]

theorem sub_epis (ra : Option Marker) (nv : Str) :
    firstPush (roleEpis ra ++ [.push nv]) = some nv ∧ countPop (roleEpis ra ++ [.push nv]) = 0 := by
  cases ra <;> simp [firstPush, countPop, roleEpis, Epi.isPop]

mutual
theorem node_spec (isAlpha : Char → Bool) (m : Model) (vars : List Str) :
    (n : Node) → ∀ ts es, interpretNode isAlpha m vars n = .ok (ts, es) →
      ∃ v ds, n.var = some v ∧ (Node.written n).mapM (denote isAlpha m vars) = .ok ds ∧
        ts = ds.map (·.triple) ∧ All2 EntryOk es ds ∧ es ≠ [] ∧
        (∀ vars', Good vars' ds → RunInv vars' v es (ds.map fun d => some d.ctx))
  | .mk v bs => by
    intro ts es h
    obtain ⟨var, out, hv, hb, hcase⟩ := interpretNode_ok h
    obtain ⟨ds, hds, htr, hlab, hall, hne, hrun⟩ := branches_spec isAlpha m vars bs var out hb
    subst hv
    rcases hcase with ⟨hc, rfl, rfl⟩ | ⟨hc, rfl, rfl⟩
    · refine ⟨var, ds, rfl, ?_, htr, hall, hne hc, hrun⟩
      simp only [Node.written, ← hlab, hc, if_true, List.nil_append]; exact hds
    · obtain ⟨d, hd, hdef⟩ : ∃ d, denote isAlpha m vars ⟨some var, ['/'], .atom .none⟩ = .ok d ∧ d =
          (⟨⟨var, CONCEPT_ROLE, .none⟩, none, none, var, none, false⟩ : Denoted) :=
          ⟨_, by simp [denote, roleName, roleAlnText, parseAln?], rfl⟩
      refine ⟨var, d :: ds, rfl, ?_, ?_, .cons ?_ hall, by simp, ?_⟩
      all_goals subst hdef
      · simp only [Node.written, ← hlab, hc, Bool.false_eq_true, if_false, List.singleton_append]
        exact mapM_cons_ok hd hds
      · simp [htr]
      · exact ⟨rfl, rfl, rfl, rfl⟩
      · intro vars' hg
        have := hrun vars' (fun d hd => hg d (List.mem_cons_of_mem _ hd))
        exact RunInv.flat rfl rfl (by simp [eligible]) this
theorem branches_spec (isAlpha : Char → Bool) (m : Model) (vars : List Str) :
    (bs : Branches) → ∀ v out, interpretBranches isAlpha m vars v bs = .ok out →
      ∃ ds, (Branches.written (some v) bs).mapM (denote isAlpha m vars) = .ok ds ∧
        out.triples = ds.map (·.triple) ∧ out.hasConcept = labelled bs ∧ All2 EntryOk out.epidata ds ∧
        (out.hasConcept = true → out.epidata ≠ []) ∧
        (∀ vars', Good vars' ds → RunInv vars' v out.epidata (ds.map fun d => some d.ctx))
  | .nil => by
    intro v out h
    simp only [interpretBranches, Except.ok.injEq] at h
    subst h
    exact ⟨[], by simp [Branches.written, pure, Except.pure], rfl, by simp [labelled, Branches.toList], .nil,
      by simp, fun _ _ => RunInv.nil _ _⟩
  | .atom r a rest => by
    intro v out h
    obtain ⟨role, repis, tgt, tepis, out', h1, h2, h3, rfl⟩ := interpretBranches_atom_ok h
    obtain ⟨ds, hds, htr, hlab, hall, -, hrun⟩ := branches_spec isAlpha m vars rest v out' h3
    obtain ⟨ra, hra, rfl, rfl⟩ := processRole_ok h1
    cases a with
    | num t => simp [processAtomic] at h2
    | none =>
      simp only [processAtomic, Except.ok.injEq, Prod.mk.injEq] at h2
      obtain ⟨rfl, rfl⟩ := h2
      obtain ⟨d, hd, hdef⟩ : ∃ d, denote isAlpha m vars ⟨some v, r, .atom .none⟩ = .ok d ∧ d =
          (⟨⟨v, roleName r, .none⟩, ra, none, v, none, false⟩ : Denoted) :=
          ⟨_, by simp [denote, hra], rfl⟩
      refine ⟨d :: ds, ?_, ?_, ?_, .cons ?_ hall, by simp, ?_⟩
      all_goals subst hdef
      · simp only [Branches.written]; exact mapM_cons_ok hd hds
      · simp [htr, atomInVars]
      · simp [labelled_atom, hlab, Bool.or_comm]
      · simp only [atomInVars, Bool.and_false, Bool.false_eq_true, if_false]
        exact entryOk_atom _ ra none v false
      · intro vars' hg
        have := hrun vars' (fun d hd => hg d (List.mem_cons_of_mem _ hd))
        simp only [atomInVars, Bool.and_false, Bool.false_eq_true, if_false]
        exact RunInv.flat (atom_epis_flat ra none).1 (atom_epis_flat ra none).2 (by simp [eligible]) this
    | str s =>
      rw [processAtomic_str] at h2
      cases hta : parseAln? isAlpha (splitTarget s).2 with
      | error e => simp [hta, Except.map] at h2
      | ok ta =>
        simp only [hta, Except.map, Except.ok.injEq, Prod.mk.injEq] at h2
        obtain ⟨rfl, rfl⟩ := h2
        obtain ⟨d, hd, hdef⟩ : ∃ d, denote isAlpha m vars ⟨some v, r, .atom (.str s)⟩ = .ok d ∧ d =
            (⟨orientTriple m (!m.noop && m.isRoleInverted (roleName r) && decide ((splitTarget s).1 ∈ vars))
              ⟨v, roleName r, .str (splitTarget s).1⟩, ra, ta, v, none,
              (!m.noop && m.isRoleInverted (roleName r) && decide ((splitTarget s).1 ∈ vars))⟩ : Denoted) :=
            ⟨_, by simp [denote, hra, hta], rfl⟩
        refine ⟨d :: ds, ?_, ?_, ?_, .cons ?_ hall, by simp, ?_⟩
        all_goals subst hdef
        · simp only [Branches.written]; exact mapM_cons_ok hd hds
        · simp only [atom_triple_str, htr, List.map_cons]
        · simp [labelled_atom, hlab, Bool.or_comm]
        · rw [atom_triple_str]; exact entryOk_atom _ ra ta v _
        · intro vars' hg
          have := hrun vars' (fun d hd => hg d (List.mem_cons_of_mem _ hd))
          obtain ⟨g1, -, g3⟩ := hg _ List.mem_cons_self
          rw [atom_triple_str]
          exact RunInv.flat (atom_epis_flat ra ta).1 (atom_epis_flat ra ta).2 (eligible_orient g1 g3) this
  | .sub r n rest => by
    intro v out h
    obtain ⟨role, repis, nv, nts, nes, out', h1, h0, h2, h3, rfl⟩ := interpretBranches_sub_ok h
    obtain ⟨ds, hds, htr, hlab, hall, -, hrun⟩ := branches_spec isAlpha m vars rest v out' h3
    obtain ⟨nv', nds, hnv', hnds, hntr, hnall, hnne, hnrun⟩ := node_spec isAlpha m vars n nts nes h2
    obtain ⟨ra, hra, rfl, rfl⟩ := processRole_ok h1
    rw [h0] at hnv'; cases hnv'
    obtain ⟨d, hd, hdef⟩ : ∃ d, denote isAlpha m vars ⟨some v, r, .opens n.var⟩ = .ok d ∧ d =
        (⟨orientTriple m (!m.noop && m.isRoleInverted (roleName r)) ⟨v, roleName r, .str nv⟩, ra, none, v, some nv,
          (!m.noop && m.isRoleInverted (roleName r))⟩ : Denoted) :=
        ⟨_, by simp [denote, hra, h0], rfl⟩
    refine ⟨d :: (nds ++ ds), ?_, ?_, ?_, .cons ?_ ((forall2_appendPopLast hnall).append hall), by simp, ?_⟩
    all_goals subst hdef
    · simp only [Branches.written]; exact mapM_cons_ok hd (mapM_append_ok hnds hds)
    · simp [htr, hntr, sub_triple]
    · simp [labelled_sub, hlab, Bool.or_comm]
    · rw [sub_triple]; exact entryOk_sub _ ra v nv _
    · intro vars' hg
      have hr := hrun vars' (fun d hd => hg d (by simp [hd]))
      have hn := hnrun vars' (fun d hd => hg d (by simp [hd]))
      obtain ⟨g1, g2, g3⟩ := hg _ List.mem_cons_self
      rw [sub_triple]
      have := RunInv.sub (sub_epis ra nv).1 (by simpa using g2) (sub_epis ra nv).2 (eligible_orient g1 g3) hn hnne hr
      simpa using this
end


end Penman.Interp

/-
  `_parse_triples` (model: `parseTriplesLoop`) against the iterative machine
  of `Spec.TripleAutomaton`: same triples, same error positions; viable
  prefixes and the position of a rejection.
-/
import Penman.Spec.TripleAutomaton
import Penman.Proofs.ParseTriples
import Penman.Proofs.ParseLemmas
namespace Penman.TripleAut
open Penman Penman.Spec.TripleAutomaton
open Penman.Spec.Automaton (endPos isAtomTok)

/-! ### the lexical helpers -/

theorem beforeComma_of_none (s : Str) (h : afterComma s = none) : beforeComma s = s := by
  unfold afterComma at h
  split at h
  · rename_i hd
    have := List.takeWhile_append_dropWhile (p := (· != ',')) (l := s)
    rw [hd, List.append_nil] at this
    exact this
  · cases h

theorem partition_eq (s : Str) :
    partitionStr [','] s = (beforeComma s, (afterComma s).isSome, (afterComma s).getD []) := by
  induction s with
  | nil => rfl
  | cons c cs ih =>
    by_cases hc : c = ','
    · subst hc
      simp [partitionStr, beforeComma, afterComma, List.isPrefixOf]
    · have hb : beforeComma (c :: cs) = c :: beforeComma cs := by
        simp [beforeComma, hc]
      have ha : afterComma (c :: cs) = afterComma cs := by
        simp [afterComma, hc]
      have hp : ([','] : Str).isPrefixOf (c :: cs) = false := by
        simp [List.isPrefixOf]; exact fun e => hc e.symm
      simp only [partitionStr, hp, ih, hb, ha]
      cases h : afterComma cs with
      | none => simp [beforeComma_of_none cs h]
      | some b => simp

theorem withColon_eq (r : Str) : (if startsWith [':'] r then r else ':' :: r) = withColon r := by
  cases r with
  | nil => simp [startsWith, List.isPrefixOf, withColon]
  | cons c cs =>
    by_cases hc : c = ':'
    · subst hc; simp [startsWith, List.isPrefixOf, withColon]
    · have : (':' == c) = false := by simp; exact fun e => hc e.symm
      simp [startsWith, List.isPrefixOf, this]
      unfold withColon
      split
      · rename_i h; injection h with h1 _; exact absurd h1 hc
      · rfl
theorem isAtomTok_eq (t : Tok) : isAtomTok t = isSymOrStr t := rfl

def _root_.Penman.Spec.TripleAutomaton.Outcome.toExcept (c : PCtx) : Outcome → Except PyErr (List Triple)
  | .accept trs => .ok trs
  | .rejectAt t => .error (tokErr t)
  | .exhausted => .error c.eofErr

/-- the closing `)` -/
def closeF (c : PCtx) (role src : Str) (tgt : Atom) (ts4 : List Tok) : Except PyErr (Triple × List Tok) :=
  match expectTy c .RPAREN ts4 with
  | .error e => .error e
  | .ok (_, ts5) => .ok (⟨src, role, tgt⟩, ts5)

/-- after a comma: an optional target, then `)` -/
def commaF (c : PCtx) (role src : Str) : List Tok → Except PyErr (Triple × List Tok)
  | n :: ts' => if isSymOrStr n then closeF c role src (.str n.text) ts' else closeF c role src .none (n :: ts')
  | [] => closeF c role src .none []

/-- `_parse_triple` and the closing `)` -/
def argsClose (c : PCtx) (role : Str) (sym : Tok) (ts3 : List Tok) : Except PyErr (Triple × List Tok) :=
  match parseTriple sym ts3 with
  | .error e => .error e
  | .ok (s, t, ts4) => closeF c role s t ts4

theorem argsClose_eq (c : PCtx) (role : Str) (sym : Tok) (ts3 : List Tok) :
    argsClose c role sym ts3 =
      match afterComma sym.text with
      | some (b0 :: bs) => closeF c role (beforeComma sym.text) (.str (b0 :: bs)) ts3
      | some [] => commaF c role (beforeComma sym.text) ts3
      | none =>
        match ts3 with
        | n :: ts' =>
          if n.ty = .SYMBOL then
            if n.text = [','] then commaF c role (beforeComma sym.text) ts'
            else if startsWith [','] n.text then closeF c role (beforeComma sym.text) (.str (n.text.drop 1)) ts'
            else .error (tokErr n)
          else closeF c role (beforeComma sym.text) .none (n :: ts')
        | [] => closeF c role (beforeComma sym.text) .none [] := by
  unfold argsClose parseTriple
  simp only [partition_eq]
  cases afterComma sym.text with
  | some b =>
    cases b with
    | cons b0 bs => rfl
    | nil =>
      cases ts3 with
      | nil => rfl
      | cons n ts' =>
        by_cases hn : isSymOrStr n = true
        · simp [commaF, hn]
        · simp [commaF, hn]
  | none =>
    cases ts3 with
    | nil => rfl
    | cons n ts' =>
      by_cases hn : n.ty = .SYMBOL
      · by_cases hc : n.text = [',']
        · cases ts' with
          | nil => simp [hn, hc, commaF]
          | cons k ts'' =>
            by_cases hk : isSymOrStr k = true
            · simp [hn, hc, commaF, hk]
            · simp [hn, hc, commaF, hk]
        · by_cases hs : startsWith [','] n.text = true
          · simp [hn, hc, hs]
          · simp [hn, hc, hs]
      · simp [hn]

/-- the code piece `x` fails exactly where the machine run `o` fails, or both
    complete the triple and go on with the same remaining tokens (fewer than `n`) -/
def Sim (c : PCtx) (x : Except PyErr (Triple × List Tok)) (o : Outcome) (acc : List Triple) (n : Nat) : Prop :=
  match x with
  | .error e => o.toExcept c = .error e
  | .ok (tr, ts5) => o = loop ⟨.afterTriple, acc ++ [tr]⟩ ts5 ∧ ts5.length < n

theorem Sim.mono {c x o acc n m} (h : Sim c x o acc n) (hnm : n ≤ m) : Sim c x o acc m := by
  cases x with
  | error e => exact h
  | ok p => exact ⟨h.1, Nat.lt_of_lt_of_le h.2 hnm⟩

theorem Sim.congr {c x o o' acc n} (h : Sim c x o' acc n) (ho : o = o') : Sim c x o acc n := ho ▸ h

/-- `)` is due in state `st` -/
theorem closeF_sim (c : PCtx) (role src : Str) (tgt : Atom) (st : State) (ts4 : List Tok) (acc : List Triple)
    (hend : atEnd ⟨st, acc⟩ = .exhausted)
    (hrp : ∀ t, t.ty = .RPAREN → step ⟨st, acc⟩ t = .next ⟨.afterTriple, acc ++ [⟨src, role, tgt⟩]⟩)
    (hno : ∀ t ts, ts4 = t :: ts → t.ty ≠ .RPAREN → step ⟨st, acc⟩ t = .reject) :
    Sim c (closeF c role src tgt ts4) (loop ⟨st, acc⟩ ts4) acc (ts4.length + 1) := by
  cases ts4 with
  | nil => simp [Sim, closeF, expectTy, loop, hend, Outcome.toExcept]
  | cons t ts =>
    by_cases h : t.ty = .RPAREN
    · simp only [Sim, closeF, expectTy, loop, h, if_true, hrp t h, List.length_cons]
      exact ⟨trivial, by omega⟩
    · simp [Sim, closeF, expectTy, loop, h, hno t ts rfl h, Outcome.toExcept]

theorem close_sim (c : PCtx) (role src tgt : Str) (ts4 : List Tok) (acc : List Triple) :
    Sim c (closeF c role src (.str tgt) ts4) (loop ⟨.expectClose role src tgt, acc⟩ ts4) acc (ts4.length + 1) :=
  closeF_sim c role src _ _ ts4 acc rfl (fun t h => by simp [step, h]) (fun t _ _ h => by simp [step, h])

/-- comma read: a target or `)` -/
theorem comma_sim (c : PCtx) (role src : Str) (ts : List Tok) (acc : List Triple) :
    Sim c (commaF c role src ts) (loop ⟨.afterSource role src true, acc⟩ ts) acc (ts.length + 1) := by
  cases ts with
  | nil => simp [Sim, commaF, closeF, expectTy, loop, atEnd, Outcome.toExcept]
  | cons n ts' =>
    by_cases hn : isSymOrStr n = true
    · have hr : n.ty ≠ .RPAREN := by
        intro e; simp [isSymOrStr, e] at hn
      simp only [commaF, hn, if_true]
      refine ((close_sim c role src n.text ts' acc).mono (by simp)).congr ?_
      simp [loop, step, hr, isAtomTok_eq, hn]
    · simp only [commaF, hn]
      refine closeF_sim c role src .none _ (n :: ts') acc rfl (fun t h => by simp [step, h]) (fun t ts e h => ?_)
      injection e with e1 _
      subst e1
      simp [step, h, isAtomTok_eq, hn]

/-- from the source symbol to `)` -/
theorem args_sim (c : PCtx) (role : Str) (sym : Tok) (hsym : sym.ty = .SYMBOL) (ts3 : List Tok)
    (acc : List Triple) :
    Sim c (argsClose c role sym ts3) (loop ⟨.expectSource role, acc⟩ (sym :: ts3)) acc (ts3.length + 2) := by
  rw [argsClose_eq]
  cases hac : afterComma sym.text with
  | some b =>
    cases b with
    | cons b0 bs =>
      -- `a,b`
      refine ((close_sim c role (beforeComma sym.text) (b0 :: bs) ts3 acc).mono (by omega)).congr ?_
      simp [loop, step, hsym, hac]
    | nil =>
      -- `a,`
      refine ((comma_sim c role (beforeComma sym.text) ts3 acc).mono (by omega)).congr ?_
      simp [loop, step, hsym, hac]
  | none =>
    -- `a`
    have h1 : loop ⟨.expectSource role, acc⟩ (sym :: ts3)
        = loop ⟨.afterSource role (beforeComma sym.text) false, acc⟩ ts3 := by
      simp [loop, step, hsym, hac]
    rw [h1]
    cases ts3 with
    | nil => simp [Sim, closeF, expectTy, loop, atEnd, Outcome.toExcept]
    | cons n ts' =>
      by_cases hn : n.ty = .SYMBOL
      · have hr : n.ty ≠ .RPAREN := by simp [hn]
        simp only [hn, if_true]
        by_cases hcm : n.text = [',']
        · -- `a` `,`
          simp only [hcm, if_true]
          refine ((comma_sim c role (beforeComma sym.text) ts' acc).mono (by simp)).congr ?_
          simp [loop, step, hn, hcm]
        · simp only [hcm, if_false]
          cases htx : n.text with
          | nil =>
            simp [Sim, startsWith, List.isPrefixOf, loop, step, hn, htx, Outcome.toExcept]
          | cons x xs =>
            by_cases hx : x = ','
            · -- `a` `,b`
              subst hx
              cases xs with
              | nil => exact absurd htx hcm
              | cons y ys =>
                simp only [startsWith, List.isPrefixOf, beq_self_eq_true, Bool.true_and, if_true,
                  List.drop_succ_cons, List.drop_zero]
                refine ((close_sim c role (beforeComma sym.text) (y :: ys) ts' acc).mono (by simp)).congr ?_
                simp [loop, step, hn, htx]
            · -- `a` `b` : no transition
              have hx' : (',' == x) = false := by simp; exact fun e => hx e.symm
              have h2 : loop ⟨.afterSource role (beforeComma sym.text) false, acc⟩ (n :: ts') = .rejectAt n := by
                simp [loop, step, hn, htx, hx]
              simp [Sim, startsWith, List.isPrefixOf, hx', h2, Outcome.toExcept]
      · simp only [hn, if_false]
        refine (closeF_sim c role _ .none _ (n :: ts') acc rfl (fun t h => by simp [step, h])
          (fun t ts e h => ?_)).mono (by simp)
        injection e with e1 _
        subst e1
        simp [step, h, hn]

def body (c : PCtx) (role : Str) (ts1 : List Tok) : Except PyErr (Triple × List Tok) :=
  match expectTy c .LPAREN ts1 with
  | .error e => .error e
  | .ok (_, ts2) =>
    match expectTy c .SYMBOL ts2 with
    | .error e => .error e
    | .ok (sym, ts3) => argsClose c role sym ts3

/-- from `(` to `)` -/
theorem body_sim (c : PCtx) (role : Str) (ts1 : List Tok) (acc : List Triple) :
    Sim c (body c role ts1) (loop ⟨.expectOpen role, acc⟩ ts1) acc ts1.length := by
  unfold body
  cases ts1 with
  | nil => simp [Sim, expectTy, loop, atEnd, Outcome.toExcept]
  | cons lp ts2 =>
    by_cases hlp : lp.ty = .LPAREN
    · have h1 : loop ⟨.expectOpen role, acc⟩ (lp :: ts2) = loop ⟨.expectSource role, acc⟩ ts2 := by
        simp [loop, step, hlp]
      simp only [expectTy, hlp, if_true, h1]
      cases ts2 with
      | nil => simp [Sim, loop, atEnd, Outcome.toExcept]
      | cons sym ts3 =>
        by_cases hsym : sym.ty = .SYMBOL
        · simp only [hsym, if_true]
          exact (args_sim c role sym hsym ts3 acc).mono (by simp)
        · simp [Sim, hsym, loop, step, Outcome.toExcept]
    · simp [Sim, expectTy, hlp, loop, step, Outcome.toExcept]

/-- after `)` -/
def contF (c : PCtx) (f : Nat) (acc : List Triple) : List Tok → Except PyErr (List Triple)
  | [] => .ok acc.reverse
  | n :: ts6 =>
    if n.ty ≠ .SYMBOL || !startsWith ['^'] n.text then .ok acc.reverse
    else if n.text = ['^'] then parseTriplesLoop c f false ts6 acc
    else parseTriplesLoop c f true (n :: ts6) acc

def roleOf (strip : Bool) (text : Str) : Str :=
  withColon (if strip && startsWith ['^'] text then text.drop 1 else text)

theorem parseTriplesLoop_unfold (c : PCtx) (f : Nat) (strip : Bool) (toks : List Tok) (acc : List Triple) :
    parseTriplesLoop c (f+1) strip toks acc =
      match expectTy c .SYMBOL toks with
      | .error e => .error e
      | .ok (rt, ts1) =>
        match body c (roleOf strip rt.text) ts1 with
        | .error e => .error e
        | .ok (tr, ts5) => contF c f (tr :: acc) ts5 := by
  simp only [parseTriplesLoop, body, argsClose, closeF, roleOf, bind, Except.bind, withColon_eq]
  cases expectTy c .SYMBOL toks with
  | error e => rfl
  | ok x1 =>
    simp only
    cases expectTy c .LPAREN x1.2 with
    | error e => rfl
    | ok x2 =>
      simp only
      cases expectTy c .SYMBOL x2.2 with
      | error e => rfl
      | ok x3 =>
        simp only
        cases parseTriple x3.1 x3.2 with
        | error e => rfl
        | ok x4 =>
          simp only
          cases expectTy c .RPAREN x4.2.2 with
          | error e => rfl
          | ok x5 =>
            simp only
            cases x5.2 with
            | nil => rfl
            | cons n ts6 => rfl

/-! ### the whole conjunction -/

theorem loop_eq (c : PCtx) : ∀ f : Nat,
    (∀ (toks : List Tok) (acc : List Triple), toks.length < f →
      parseTriplesLoop c f false toks acc = (loop ⟨.expectRole, acc.reverse⟩ toks).toExcept c) ∧
    (∀ (ts5 : List Tok) (acc : List Triple), ts5.length < f →
      contF c f acc ts5 = (loop ⟨.afterTriple, acc.reverse⟩ ts5).toExcept c) := by
  intro f
  induction f with
  | zero => exact ⟨fun _ _ h => by omega, fun _ _ h => by omega⟩
  | succ f ih =>
    -- one triple read from the role token `rt`, then the continuation
    have one : ∀ (strip : Bool) (rt : Tok) (ts1 : List Tok) (acc : List Triple),
        rt.ty = .SYMBOL → ts1.length < f →
        parseTriplesLoop c (f+1) strip (rt :: ts1) acc
          = (loop ⟨.expectOpen (roleOf strip rt.text), acc.reverse⟩ ts1).toExcept c := by
      intro strip rt ts1 acc hrt hg
      rw [parseTriplesLoop_unfold]
      simp only [expectTy, hrt, if_true]
      have := body_sim c (roleOf strip rt.text) ts1 acc.reverse
      revert this
      cases body c (roleOf strip rt.text) ts1 with
      | error e => simp only [Sim]; intro h; exact h.symm
      | ok x =>
        simp only [Sim]
        intro h
        rw [h.1, ih.2 x.2 (x.1 :: acc) (by omega)]
        simp
    have hR : ∀ (toks : List Tok) (acc : List Triple), toks.length < f + 1 →
        parseTriplesLoop c (f+1) false toks acc = (loop ⟨.expectRole, acc.reverse⟩ toks).toExcept c := by
      intro toks acc hf
      cases toks with
      | nil => simp [parseTriplesLoop_unfold, expectTy, loop, atEnd, Outcome.toExcept]
      | cons rt ts1 =>
        by_cases hrt : rt.ty = .SYMBOL
        · rw [one false rt ts1 acc hrt (by simpa using hf)]
          simp [loop, step, hrt, roleOf]
        · simp [parseTriplesLoop_unfold, expectTy, hrt, loop, step, Outcome.toExcept]
    refine ⟨hR, ?_⟩
    intro ts5 acc hf
    cases ts5 with
    | nil => simp [contF, loop, atEnd, Outcome.toExcept]
    | cons n ts6 =>
      simp only [List.length_cons] at hf
      by_cases hn : n.ty = .SYMBOL
      · cases htx : n.text with
        | nil => simp [contF, hn, htx, startsWith, loop, step, Outcome.toExcept]
        | cons x xs =>
          by_cases hx : x = '^'
          · subst hx
            cases xs with
            | nil =>
              -- a lone `^`
              simp only [contF, hn, htx, startsWith, List.isPrefixOf]
              simp only [ne_eq, not_true_eq_false, decide_false, beq_self_eq_true, Bool.true_and, Bool.not_true,
                Bool.or_self, Bool.false_eq_true, if_false, if_true]
              rw [hR ts6 acc (by omega)]
              simp [loop, step, hn, htx]
            | cons y ys =>
              -- `^role`
              simp only [contF, hn, startsWith, htx, List.isPrefixOf]
              simp only [ne_eq, not_true_eq_false, decide_false, beq_self_eq_true, Bool.true_and, Bool.not_true,
                Bool.or_self, Bool.false_eq_true, if_false, List.cons.injEq, true_and, reduceCtorEq]
              rw [one true n ts6 acc hn (by omega)]
              simp [loop, step, hn, htx, roleOf, startsWith, List.isPrefixOf]
          · have hx' : ('^' == x) = false := by simp; exact fun e => hx e.symm
            simp [contF, hn, htx, startsWith, List.isPrefixOf, hx', loop, step, hx, Outcome.toExcept]
      · simp [contF, hn, loop, step, Outcome.toExcept]

theorem report_eq_toExcept (all : List Tok) (o : Outcome) : o.report all = o.toExcept ⟨eofPos all⟩ := by
  cases o with
  | accept trs => rfl
  | rejectAt t => rfl
  | exhausted => simp [Outcome.report, Outcome.toExcept, PCtx.eofErr, endPos_eq_eofPos]

/-- **`parse_triples` is the machine** -/
theorem parseTriplesToks_eq (toks : List Tok) : parseTriplesToks toks = run toks := by
  rw [run, report_eq_toExcept, parseTriplesToks, ((loop_eq _ _).1 toks [] (Nat.lt_succ_self _))]
  rfl

/-- the same from inside a conjunction, any context, enough fuel -/
theorem parseTriplesLoop_eq (c : PCtx) (f : Nat) (toks : List Tok) (acc : List Triple) (hf : toks.length < f) :
    parseTriplesLoop c f false toks acc = (loop ⟨.expectRole, acc.reverse⟩ toks).toExcept c :=
  (loop_eq c f).1 toks acc hf

/-! ### viable prefixes and the position of a failure -/

theorem loop_append_of_steps (cfg cfg' : Config) (pre ext : List Tok) (h : steps cfg pre = some cfg') :
    loop cfg (pre ++ ext) = loop cfg' ext := by
  induction pre generalizing cfg with
  | nil => simp [steps] at h; simp [h]
  | cons t ts ih =>
    simp only [steps] at h
    split at h
    · rename_i cfg1 hs
      simp only [List.cons_append, loop, hs]
      exact ih _ h
    · cases h

theorem loop_rejectAt (cfg : Config) (toks : List Tok) (t : Tok) (h : loop cfg toks = .rejectAt t) :
    ∃ pre post cfg', toks = pre ++ t :: post ∧ steps cfg pre = some cfg' ∧ step cfg' t = .reject := by
  induction toks generalizing cfg with
  | nil => obtain ⟨st, acc⟩ := cfg; cases st <;> simp [loop, atEnd] at h
  | cons u us ih =>
    simp only [loop] at h
    split at h
    · rename_i cfg1 hs
      obtain ⟨pre, post, cfg', e, s, r⟩ := ih _ h
      exact ⟨u :: pre, post, cfg', by simp [e], by simp [steps, hs, s], r⟩
    · cases h
    · rename_i hs
      cases h
      exact ⟨[], us, cfg, rfl, rfl, hs⟩

theorem loop_exhausted (cfg : Config) (toks : List Tok) (h : loop cfg toks = .exhausted) :
    ∃ cfg', steps cfg toks = some cfg' := by
  induction toks generalizing cfg with
  | nil => exact ⟨cfg, rfl⟩
  | cons u us ih =>
    simp only [loop] at h
    split at h
    · rename_i cfg1 hs
      obtain ⟨cfg', s⟩ := ih _ h
      exact ⟨cfg', by simp [steps, hs, s]⟩
    · cases h
    · cases h

def symTok : Tok := ⟨.SYMBOL, ['a'], 0, 0⟩
def lpTok : Tok := ⟨.LPAREN, ['('], 0, 0⟩
def rpTok : Tok := ⟨.RPAREN, [')'], 0, 0⟩

/-- every configuration can be completed to an accepted input -/
theorem completable (cfg : Config) : ∃ ext trs, loop cfg ext = .accept trs := by
  obtain ⟨st, acc⟩ := cfg
  cases st with
  | expectRole => exact ⟨[symTok, lpTok, symTok, rpTok], _, rfl⟩
  | expectOpen role => exact ⟨[lpTok, symTok, rpTok], _, rfl⟩
  | expectSource role => exact ⟨[symTok, rpTok], _, rfl⟩
  | afterSource role src cm => exact ⟨[rpTok], _, rfl⟩
  | expectClose role src tgt => exact ⟨[rpTok], _, rfl⟩
  | afterTriple => exact ⟨[], _, rfl⟩

theorem viable_of_steps (pre : List Tok) (cfg : Config) (h : steps init pre = some cfg) : Viable pre := by
  obtain ⟨ext, trs, hn⟩ := completable cfg
  exact ⟨ext, trs, by rw [runOutcome, loop_append_of_steps _ _ _ _ h, hn]⟩

theorem not_viable_of_reject (pre : List Tok) (t : Tok) (cfg : Config)
    (h : steps init pre = some cfg) (hr : step cfg t = .reject) : ¬ Viable (pre ++ [t]) := by
  rintro ⟨ext, trs, ha⟩
  rw [runOutcome, List.append_assoc, loop_append_of_steps _ _ _ _ h] at ha
  simp [loop, hr] at ha

/-- the machine rejects at `t` : `t` is in the input, what precedes it is a
    viable prefix, and with `t` it is not -/
theorem run_rejectAt (toks : List Tok) (t : Tok) (h : runOutcome toks = .rejectAt t) :
    ∃ pre post, toks = pre ++ t :: post ∧ Viable pre ∧ ¬ Viable (pre ++ [t]) := by
  obtain ⟨pre, post, cfg, e, s, r⟩ := loop_rejectAt _ _ _ h
  exact ⟨pre, post, e, viable_of_steps pre cfg s, not_viable_of_reject pre t cfg s r⟩

/-- the machine runs out of input: all of it is a viable prefix -/
theorem run_exhausted (toks : List Tok) (h : runOutcome toks = .exhausted) : Viable toks := by
  obtain ⟨cfg, s⟩ := loop_exhausted _ _ h
  exact viable_of_steps toks cfg s

end Penman.TripleAut



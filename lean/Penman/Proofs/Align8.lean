/-
  Penman.Proofs.Align8 — tree level of C03 with alignments: each branch of the
  configured tree is a triple of the graph (as it is, or inverted once) with the
  printed form of that triple's role alignment appended to the role and of its
  alignment appended to the target.
-/
import Penman.Proofs.Align7
set_option linter.unusedSimpArgs false
namespace Penman
namespace Cfg
namespace Al
open Penman.Spec.Reading

variable {isAlpha : Char → Bool} {m : Model} {vars : List Str} {v : Str} {e : Edge}

/-- what an edge of the store is written as -/
theorem rawTriple_al (F : EdgeFacts isAlpha m vars v e) :
    rawTriple v e = ⟨v, (Cfg.denote v e).role ++ alnText (e.epis.filter fun x => x.mode = 1).getLast?,
        withAln (Cfg.denote v e).tgt (e.epis.filter fun x => x.mode = 2).getLast?⟩ ∧
    stripAln (rawTriple v e) = Cfg.denote v e := by
  have hr := edge_role_noTilde F
  have hrole : slashRole (outRole e) = (Cfg.denote v e).role ++ alnText (e.epis.filter fun x => x.mode = 1).getLast? ∧
      beforeTilde (slashRole (outRole e)) = (Cfg.denote v e).role := by
    have hdt := F.good.roleTilde
    rw [denote_role_slash] at hdt ⊢
    rw [outRole_eq]
    rcases filter_cases F.one1 with h0 | ⟨x, hx, hm, h1⟩
    · have : raStr e.epis = [] := by simp [raStr, h0]
      rw [this, List.append_nil, h0]
      exact ⟨by simp [alnText], beforeTilde_of_noTilde hdt⟩
    · have hns : e.role ≠ ['/'] := F.ra (by rw [h1]; simp)
      cases x with
      | push _ => simp [Epi.mode] at hm
      | pop => simp [Epi.mode] at hm
      | aln _ _ => simp [Epi.mode] at hm
      | roleAln p i =>
        have hra : raStr e.epis = '~' :: alnBody p i := by simp [raStr, h1, Epi.toStr, alnToString_eq]
        have hne : e.role ++ '~' :: alnBody p i ≠ ['/'] := by
          intro h
          have : '~' ∈ e.role ++ '~' :: alnBody p i := by simp
          rw [h] at this; simp at this
        rw [hra, h1]
        simp only [slashRole, hne, hns, if_false, List.getLast?_singleton, alnText, Epi.toStr, alnToString_eq]
        exact ⟨trivial, beforeTilde_append hr⟩
  have htgt : (match e.tgt with | .atom a => outAtom e a | .node w => Atom.str w) =
        withAln (Cfg.denote v e).tgt (e.epis.filter fun x => x.mode = 2).getLast? ∧
      (match (match e.tgt with | .atom a => outAtom e a | .node w => Atom.str w) with
        | .str s => Atom.str (splitTarget s).1 | a => a) = (Cfg.denote v e).tgt := by
    have hgt := F.good.tgt
    rcases filter_cases F.one2 with h0 | ⟨x, hx, hm, h1⟩
    · rw [h0]
      have hd : (match e.tgt with | .atom a => outAtom e a | .node w => Atom.str w) = (Cfg.denote v e).tgt := by
        cases hte : e.tgt with
        | atom a => simp only [Cfg.denote, hte]; exact outAtom_plain h0
        | node w => simp [Cfg.denote, hte]
      rw [hd]
      refine ⟨rfl, ?_⟩
      cases hdt : (Cfg.denote v e).tgt with
      | none => rfl
      | num _ => rfl
      | str s =>
        rw [hdt] at hgt
        simp only [splitTarget_ok hgt]
    · obtain ⟨s, hs, hsv, hst⟩ := F.ta (by rw [h1]; simp)
      cases x with
      | push _ => simp [Epi.mode] at hm
      | pop => simp [Epi.mode] at hm
      | roleAln _ _ => simp [Epi.mode] at hm
      | aln p i =>
        have hok : MarkerOK isAlpha p i := F.ok _ hx
        have hta : taStr e.epis = '~' :: alnBody p i := by simp [taStr, h1, Epi.toStr, alnToString_eq]
        obtain ⟨b', hsp, _⟩ := splitTarget_append isAlpha hst hok.2
        have hdt : (Cfg.denote v e).tgt = .str s := by simp [Cfg.denote, hs]
        rw [hdt, h1]
        simp only [hs, outAtom_eq, h1, hta, atomStr, withAln, List.getLast?_singleton, Epi.toStr, alnToString_eq,
          List.cons_ne_nil, if_false, hsp, and_self]
  refine ⟨?_, ?_⟩
  · show (⟨v, slashRole (outRole e), _⟩ : Triple) = _
    rw [hrole.1]; exact congrArg (Triple.mk v _) htgt.1
  · show (⟨v, beforeTilde (slashRole (outRole e)), _⟩ : Triple) = ⟨v, (Cfg.denote v e).role, (Cfg.denote v e).tgt⟩
    rw [hrole.2]; exact congrArg (Triple.mk v _) htgt.2

/-- **C03 with alignments, tree level.** -/
theorem encode_tree_al (isAlpha : Char → Bool) {m : Model} {g : Graph} {top : Option Str} {t : Str}
    (hw : ModelWf m) (hg : WfGraphAl m g) (hal : AlignOK isAlpha m g)
    (hpv : PushVars g) (hps : PushSrcOK g) (ht : topOf g top = some t) (htv : t ∈ g.variables)
    (hreach : ∀ v ∈ g.variables, Reach g t v) :
    ∃ T, configure m g top = .ok T ∧ T.metadata = g.metadata ∧ T.node.var = some t ∧
      (∀ x, x ∈ T.node.vars ↔ x ∈ g.variables) ∧ T.node.vars.Nodup ∧
      ((T.node.edgeTriples.map stripAln).map (deinvert1 m g)).Perm
        ((g.triples.filter (fun x => !nullB x)).map (deinvert1 m g)) ∧
      ∀ x ∈ T.node.edgeTriples, ∃ t0 ∈ g.triples,
        (stripAln x = t0 ∨ (stripAln x = m.invert t0 ∧ (∃ b, t0.tgt = .str b) ∧ t0.role ≠ CONCEPT_ROLE)) ∧
        x.role = (stripAln x).role ++ alnText (roleAlnOf g t0) ∧
        x.tgt = withAln (stripAln x).tgt (tgtAlnOf g t0) := by
  obtain ⟨T, st, l, hT, E⟩ := encodedAl hw hg hpv hps ht htv hreach
  have hr2 : ∀ x ∈ g.triples, RoleOK2 m x := fun x hx => roleOK2_of_colon m x (hg.roles x hx).1
  obtain ⟨_, hvars, h3, hnd, hvar⟩ := storeOf_tree hr2 E.store E.build
  have hgood := storeOf_good E.store
  have hEF := fun p hp e he => edgeFacts (isAlpha := isAlpha) (vars := g.variables) (p := p) (e := e) hw hg hal E
    (fun _ => Iff.rfl) hgood.forest hp he
  have hstrip : (flat (fun v es => es.map (rawTriple v)) st.cells).map stripAln = placed st.cells := by
    unfold flat placed
    rw [List.map_flatMap]
    apply flatMap_congr'
    intro p hpm
    rw [List.map_map]
    apply List.map_congr_left
    intro e he
    exact (rawTriple_al (hEF p hpm e he).1).2
  have htt : (T.node.edgeTriples.map stripAln).Perm (placed st.cells) := by
    rw [← hstrip]; exact h3.map _
  refine ⟨T, hT, E.metaEq, hvar, ?_, (hvars.nodup_iff).2 hnd, ?_, ?_⟩
  · intro x; rw [← E.keys x]; exact hvars.mem_iff
  · refine ((htt.trans E.perm.symm).map _).trans ?_
    have hsplit : (g.triples.map (deinvert1 m g)).Perm
        ((g.triples.filter (fun x => !nullB x)).map (deinvert1 m g) ++ (g.triples.filter nullB).map (deinvert1 m g)) := by
      rw [← List.map_append]
      apply List.Perm.map
      have := List.filter_append_perm (fun x => !nullB x) g.triples
      simpa using this.symm
    exact (List.perm_append_right_iff _).1 (E.same.symm.trans hsplit)
  · intro x hx
    have := h3.subset hx
    simp only [flat, List.mem_flatMap, List.mem_map] at this
    obtain ⟨p, hp, e, he, rfl⟩ := this
    obtain ⟨F, t1, ht1, hv, _, hra, hta⟩ := hEF p hp e he
    obtain ⟨h1, h2⟩ := rawTriple_al F
    refine ⟨t1, ht1, by rw [h2]; exact hv, ?_, ?_⟩
    · rw [h2, ← hra]; rw [h1]
    · rw [h2, ← hta]; rw [h1]

end Al
end Cfg
end Penman

/-
  Penman.Proofs.GraphLemmas — helper lemmas for property C15
  (association lists, `dedup`, graph queries, graph set operators).
  Core Lean only.
-/
import Penman.Graph
set_option linter.unusedSimpArgs false
namespace Penman

/-! ### `dedup` -/

theorem mem_dedup {α : Type} [DecidableEq α] {a : α} : ∀ {l : List α}, a ∈ dedup l ↔ a ∈ l
  | [] => by simp [dedup]
  | x :: xs => by
    simp only [dedup, List.mem_cons, List.mem_filter, mem_dedup (l := xs)]
    by_cases h : a = x <;> simp [h]

theorem nodup_dedup {α : Type} [DecidableEq α] : ∀ l : List α, (dedup l).Nodup
  | [] => by simp [dedup]
  | x :: xs => by
    simp only [dedup, List.nodup_cons, List.mem_filter]
    exact ⟨by simp, (nodup_dedup xs).sublist List.filter_sublist⟩

theorem dedup_sublist {α : Type} [DecidableEq α] : ∀ l : List α, (dedup l).Sublist l
  | [] => by simp [dedup]
  | x :: xs => by
    simp only [dedup]
    exact (List.filter_sublist.trans (dedup_sublist xs)).cons_cons x

/-! ### association lists -/

namespace AList
variable {α β : Type} [DecidableEq α]

@[simp] theorem get?_nil (k : α) : get? ([] : AList α β) k = none := rfl

theorem get?_cons (p : α × β) (r : AList α β) (k : α) :
    get? (p :: r) k = if p.1 = k then some p.2 else get? r k := by
  simp only [get?, List.find?_cons]
  by_cases h : p.1 = k <;> simp [h]

theorem get?_append (a b : AList α β) (k : α) :
    get? (a ++ b) k = (get? a k).or (get? b k) := by
  induction a with
  | nil => simp
  | cons p r ih =>
    simp only [List.cons_append, get?_cons, ih]
    by_cases h : p.1 = k <;> simp [h]

theorem get?_eq_none_iff (d : AList α β) (k : α) : get? d k = none ↔ k ∉ keys d := by
  induction d with
  | nil => simp [keys]
  | cons p r ih =>
    simp only [get?_cons, keys, List.map_cons, List.mem_cons, not_or] at ih ⊢
    by_cases h : p.1 = k
    · simp [h]
    · simp only [h, if_false, ih]
      constructor
      · intro h2; exact ⟨fun e => h e.symm, h2⟩
      · exact fun h2 => h2.2

theorem get?_isSome_iff (d : AList α β) (k : α) : (get? d k).isSome ↔ k ∈ keys d := by
  rw [← Decidable.not_iff_not, ← get?_eq_none_iff]
  cases get? d k <;> simp

theorem mem_of_get?_eq_some {d : AList α β} {k : α} {v : β} (h : get? d k = some v) :
    (k, v) ∈ d := by
  induction d with
  | nil => simp at h
  | cons p r ih =>
    rw [get?_cons] at h
    by_cases hk : p.1 = k
    · simp only [hk, if_true, Option.some.injEq] at h
      simp [← hk, ← h]
    · simp only [hk, if_false] at h
      exact List.mem_cons_of_mem _ (ih h)

theorem get?_eq_some_iff_mem {d : AList α β} (hd : (keys d).Nodup) (k : α) (v : β) :
    get? d k = some v ↔ (k, v) ∈ d := by
  refine ⟨mem_of_get?_eq_some, ?_⟩
  induction d with
  | nil => simp
  | cons p r ih =>
    simp only [keys, List.map_cons, List.nodup_cons] at hd
    intro hm
    rw [get?_cons]
    rcases List.mem_cons.1 hm with rfl | hm
    · simp
    · have : p.1 ≠ k := by
        intro e; apply hd.1; rw [e]; exact List.mem_map.2 ⟨(k, v), hm, rfl⟩
      simp only [this, if_false]
      exact ih hd.2 hm

omit [DecidableEq α] in
theorem keys_reverse (d : AList α β) : keys d.reverse = (keys d).reverse := by
  simp [keys]

/-- With duplicate-free keys (always the case for a Python `dict`), looking up in
    the reversed list gives the same answer. -/
theorem get?_reverse {d : AList α β} (hd : (keys d).Nodup) (k : α) :
    get? d.reverse k = get? d k := by
  have hr : (keys d.reverse).Nodup := by rw [keys_reverse]; exact (List.reverse_perm _).symm.nodup hd
  cases h : get? d k with
  | none =>
    rw [get?_eq_none_iff] at h ⊢
    simpa [keys_reverse] using h
  | some v =>
    rw [get?_eq_some_iff_mem hd] at h
    rw [get?_eq_some_iff_mem hr]
    simpa using h

theorem get?_reverse_eq_none_iff (d : AList α β) (k : α) :
    get? d.reverse k = none ↔ get? d k = none := by
  simp [get?_eq_none_iff, keys_reverse]

theorem get?_set (d : AList α β) (k : α) (v : β) (k' : α) :
    get? (set d k v) k' = if k = k' then some v else get? d k' := by
  induction d with
  | nil => simp [set, get?_cons]
  | cons p r ih =>
    obtain ⟨a, b⟩ := p
    simp only [set]
    by_cases h : a = k
    · subst h
      simp only [if_true, get?_cons]
      by_cases h2 : a = k' <;> simp [h2]
    · simp only [h, if_false, get?_cons, ih]
      by_cases h2 : a = k'
      · subst h2
        simp [Ne.symm h]
      · simp [h2]

theorem set_of_not_mem {d : AList α β} {k : α} (h : k ∉ keys d) (v : β) :
    set d k v = d ++ [(k, v)] := by
  induction d with
  | nil => rfl
  | cons p r ih =>
    simp only [keys, List.map_cons, List.mem_cons, not_or] at h
    have h1 : p.1 ≠ k := fun e => h.1 e.symm
    simp only [set, h1, if_false, List.cons_append]
    rw [ih h.2]

theorem keys_set_of_mem {d : AList α β} {k : α} (h : k ∈ keys d) (v : β) :
    keys (set d k v) = keys d := by
  induction d with
  | nil => simp [keys] at h
  | cons p r ih =>
    simp only [set]
    by_cases h1 : p.1 = k
    · simp [h1, keys]
    · simp only [h1, if_false]
      simp only [keys, List.map_cons, List.mem_cons] at h ⊢
      rcases h with h | h
      · exact absurd h.symm h1
      · have := ih h
        simp only [keys] at this
        rw [this]

theorem keys_set (d : AList α β) (k : α) (v : β) :
    keys (set d k v) = if k ∈ keys d then keys d else keys d ++ [k] := by
  by_cases h : k ∈ keys d
  · simp [h, keys_set_of_mem h]
  · rw [if_neg h, set_of_not_mem h]; simp [keys]

theorem nodup_keys_set {d : AList α β} (hd : (keys d).Nodup) (k : α) (v : β) :
    (keys (set d k v)).Nodup := by
  rw [keys_set]
  by_cases h : k ∈ keys d
  · simpa [h] using hd
  · simp only [h, if_false]
    rw [List.nodup_append]
    exact ⟨hd, by simp, by
      intro a ha b hb e
      simp only [List.mem_singleton] at hb
      exact h (by rw [← hb, ← e]; exact ha)⟩

theorem nodup_keys_foldl_set (e : List (α × β)) {d : AList α β} (hd : (keys d).Nodup) :
    (keys (e.foldl (fun d p => d.set p.1 p.2) d)).Nodup := by
  induction e generalizing d with
  | nil => exact hd
  | cons p r ih => exact ih (nodup_keys_set hd _ _)

theorem nodup_keys_ofList (l : List (α × β)) : (keys (ofList l)).Nodup :=
  nodup_keys_foldl_set l (d := []) (by simp [keys])

theorem nodup_keys_update {d : AList α β} (hd : (keys d).Nodup) (e : AList α β) :
    (keys (update d e)).Nodup := nodup_keys_foldl_set e hd

theorem get?_foldl_set (e : List (α × β)) (d : AList α β) (k : α) :
    get? (e.foldl (fun d p => d.set p.1 p.2) d) k = (get? e.reverse k).or (get? d k) := by
  induction e generalizing d with
  | nil => simp
  | cons p r ih =>
    simp only [List.foldl_cons, ih, List.reverse_cons, get?_append, get?_set, get?_cons, get?_nil]
    by_cases h : p.1 = k <;> simp [h]

/-- `d.update(e)`: the value of the *last* entry of `e` for the key wins, else `d`'s. -/
theorem get?_update (d e : AList α β) (k : α) :
    get? (update d e) k = (get? e.reverse k).or (get? d k) := get?_foldl_set e d k

theorem get?_update_of_nodup (d : AList α β) {e : AList α β} (he : (keys e).Nodup) (k : α) :
    get? (update d e) k = (get? e k).or (get? d k) := by
  rw [get?_update, get?_reverse he]

theorem get?_ofList (l : List (α × β)) (k : α) : get? (ofList l) k = get? l.reverse k := by
  simp [ofList, get?_foldl_set]

theorem foldl_set_of_nodup (e : List (α × β)) (d : AList α β) (h : (keys (d ++ e)).Nodup) :
    e.foldl (fun d p => d.set p.1 p.2) d = d ++ e := by
  induction e generalizing d with
  | nil => simp
  | cons p r ih =>
    have hp : p.1 ∉ keys d := by
      simp only [keys, List.map_append, List.map_cons, List.nodup_append] at h
      intro hm
      exact h.2.2 _ hm _ (List.mem_cons_self) rfl
    simp only [List.foldl_cons, set_of_not_mem hp]
    rw [ih]
    · simp
    · simpa using h

/-- `dict(d.items()) == d` including order, when keys are duplicate-free -/
theorem ofList_of_nodup {d : AList α β} (h : (keys d).Nodup) : ofList d = d := by
  simpa [ofList] using foldl_set_of_nodup d [] (by simpa using h)

theorem ofList_idem (l : List (α × β)) : ofList (ofList l) = ofList l :=
  ofList_of_nodup (nodup_keys_ofList l)

theorem get?_filter_key (q : α → Bool) (d : AList α β) (k : α) :
    get? (d.filter (fun p => q p.1)) k = if q k then get? d k else none := by
  induction d with
  | nil => simp
  | cons p r ih =>
    simp only [List.filter_cons]
    by_cases hq : q p.1
    · simp only [hq, if_true, get?_cons, ih]
      by_cases h : p.1 = k
      · subst h; simp [hq]
      · simp [h]
    · simp only [hq]
      by_cases h : p.1 = k
      · subst h; simp [hq, ih]
      · simp [h, ih, get?_cons]

omit [DecidableEq α] in
theorem keys_filter_key (q : α → Bool) (d : AList α β) :
    keys (d.filter (fun p => q p.1)) = (keys d).filter q := by
  simp [keys, List.filter_map, Function.comp_def]

end AList

/-! ### classification predicates used to state the partition -/

/-- the triple is an instance (concept) triple -/
def isInstT (t : Triple) : Bool := t.role = CONCEPT_ROLE
/-- the triple is an edge of `g`: not an instance triple and its target is a variable of `g` -/
def Graph.isEdgeT (g : Graph) (t : Triple) : Bool := t.role ≠ CONCEPT_ROLE && g.isVar t.tgt
/-- the triple is an attribute of `g`: not an instance triple and its target is not a variable -/
def Graph.isAttrT (g : Graph) (t : Triple) : Bool := t.role ≠ CONCEPT_ROLE && !g.isVar t.tgt
/-- the `(source, role, target)` filter pattern of `edges()`/`attributes()`; `none` = wildcard -/
def matchT (src : Option Str) (role : Option Str) (tgt : Option Atom) (t : Triple) : Bool :=
  (src.all (· = t.src)) && (role.all (· = t.role)) && (tgt.all (· = t.tgt))

theorem matchT_iff (src role : Option Str) (tgt : Option Atom) (t : Triple) :
    matchT src role tgt t = true ↔
      (∀ s, src = some s → s = t.src) ∧ (∀ r, role = some r → r = t.role) ∧
      (∀ a, tgt = some a → a = t.tgt) := by
  cases src <;> cases role <;> cases tgt <;> simp [matchT, and_assoc]

@[simp] theorem matchT_none (t : Triple) : matchT none none none t = true := rfl

/-- exactly one of the three classes holds for any triple -/
theorem class_exclusive_exhaustive (g : Graph) (t : Triple) :
    (isInstT t = true ∧ g.isEdgeT t = false ∧ g.isAttrT t = false) ∨
    (isInstT t = false ∧ g.isEdgeT t = true ∧ g.isAttrT t = false) ∨
    (isInstT t = false ∧ g.isEdgeT t = false ∧ g.isAttrT t = true) := by
  simp only [isInstT, Graph.isEdgeT, Graph.isAttrT]
  by_cases h1 : t.role = CONCEPT_ROLE <;> cases h2 : g.isVar t.tgt <;> simp [h1]

/-! ### queries as filters -/

theorem filterTriples_eq (g : Graph) (s r : Option Str) (t : Option Atom) :
    g.filterTriples s r t = g.triples.filter (matchT s r t) := rfl

theorem instances_eq_filter (g : Graph) : g.instances = g.triples.filter isInstT := by
  simp only [Graph.instances, Graph.filterTriples]
  apply List.filter_congr
  intro t _
  simp [isInstT, eq_comm]

theorem edges_eq_filter' (g : Graph) (s r : Option Str) (t : Option Atom) :
    g.edges s r t = g.triples.filter (fun x => matchT s r t x && g.isEdgeT x) := by
  simp only [Graph.edges, filterTriples_eq, List.filter_filter]
  apply List.filter_congr
  intro x _
  simp only [Graph.isEdgeT, Bool.and_comm]

theorem attributes_eq_filter' (g : Graph) (s r : Option Str) (t : Option Atom) :
    g.attributes s r t = g.triples.filter (fun x => matchT s r t x && g.isAttrT x) := by
  simp only [Graph.attributes, filterTriples_eq, List.filter_filter]
  apply List.filter_congr
  intro x _
  simp only [Graph.isAttrT, Bool.and_comm]

theorem edges_eq_filter (g : Graph) : g.edges = g.triples.filter g.isEdgeT := by
  rw [edges_eq_filter']; simp

theorem attributes_eq_filter (g : Graph) : g.attributes = g.triples.filter g.isAttrT := by
  rw [attributes_eq_filter']; simp

theorem edges_filtered (g : Graph) (s r : Option Str) (t : Option Atom) :
    g.edges s r t = g.edges.filter (matchT s r t) := by
  rw [edges_eq_filter', edges_eq_filter, List.filter_filter]

theorem attributes_filtered (g : Graph) (s r : Option Str) (t : Option Atom) :
    g.attributes s r t = g.attributes.filter (matchT s r t) := by
  rw [attributes_eq_filter', attributes_eq_filter, List.filter_filter]

/-- every occurrence of a triple is counted in exactly one class -/
theorem count_partition (g : Graph) (l : List Triple) (t : Triple) :
    l.count t = (l.filter isInstT).count t + (l.filter g.isEdgeT).count t +
      (l.filter g.isAttrT).count t := by
  induction l with
  | nil => rfl
  | cons x r ih =>
    simp only [List.filter_cons]
    rcases class_exclusive_exhaustive g x with h | h | h <;>
      simp [h.1, h.2.1, h.2.2, List.count_cons, ih] <;> omega

theorem length_partition (g : Graph) (l : List Triple) :
    l.length = (l.filter isInstT).length + (l.filter g.isEdgeT).length +
      (l.filter g.isAttrT).length := by
  induction l with
  | nil => rfl
  | cons t r ih =>
    simp only [List.filter_cons, List.length_cons]
    rcases class_exclusive_exhaustive g t with h | h | h <;>
      simp [h.1, h.2.1, h.2.2] <;> omega

/-! ### variables -/

theorem mem_variables (g : Graph) (v : Str) :
    v ∈ g.variables ↔ (∃ t ∈ g.triples, t.src = v) ∨ g.top = some v := by
  unfold Graph.variables
  cases htop : g.top with
  | none => simp [mem_dedup]
  | some t =>
    by_cases h : t ∈ dedup (g.triples.map (·.src))
    · simp only [h, if_true, mem_dedup, List.mem_map, Option.some.injEq]
      constructor
      · exact Or.inl
      · rintro (h' | rfl)
        · exact h'
        · simpa [mem_dedup] using h
    · simp only [h, if_false, List.mem_append, mem_dedup, List.mem_map, List.mem_singleton,
        Option.some.injEq]
      constructor
      · rintro (h' | rfl)
        · exact Or.inl h'
        · exact Or.inr rfl
      · rintro (h' | rfl)
        · exact Or.inl h'
        · exact Or.inr rfl

theorem variables_nodup (g : Graph) : g.variables.Nodup := by
  unfold Graph.variables
  cases g.top with
  | none => exact nodup_dedup _
  | some t =>
    by_cases h : t ∈ dedup (g.triples.map (·.src))
    · simpa [h] using nodup_dedup _
    · simp only [h, if_false]
      rw [List.nodup_append]
      refine ⟨nodup_dedup _, by simp, ?_⟩
      intro a ha b hb e
      simp only [List.mem_singleton] at hb
      exact h (by rw [← hb, ← e]; exact ha)

theorem isVar_iff (g : Graph) (a : Atom) : g.isVar a = true ↔ ∃ v, a = .str v ∧ v ∈ g.variables := by
  cases a <;> simp [Graph.isVar]

/-! ### top -/

theorem getTop_of_top_none {g : Graph} (h : g.top = none) :
    g.getTop = g.triples.head?.map (·.src) := by
  unfold Graph.getTop
  rw [h]
  cases g.triples <;> rfl

theorem getTop_of_top_some {g : Graph} {t : Str} (h : g.top = some t) : g.getTop = some t := by
  unfold Graph.getTop; rw [h]

/-- the (implicit or explicit) top is always a variable -/
theorem getTop_mem_variables {g : Graph} {v : Str} (h : g.getTop = some v) : v ∈ g.variables := by
  rw [mem_variables]
  cases ht : g.top with
  | some t => rw [getTop_of_top_some ht] at h; exact Or.inr h
  | none =>
    rw [getTop_of_top_none ht] at h
    cases hl : g.triples with
    | nil => simp [hl] at h
    | cons t r =>
      simp only [hl, List.head?_cons, Option.map_some, Option.some.injEq] at h
      exact Or.inl ⟨t, by simp, h⟩

/-! ### re-entrancies -/

/-- in-degree of `v` (number of edges whose target is `v`), plus one if `v` is the top -/
def Graph.reentCount (g : Graph) (v : Str) : Nat :=
  g.edges.countP (fun t => t.tgt = Atom.str v) + (if g.getTop = some v then 1 else 0)

theorem countStr_append (v : Str) (a b : List Str) :
    countStr v (a ++ b) = countStr v a + countStr v b := by
  simp [countStr]

theorem countStr_pos_iff (v : Str) (l : List Str) : 0 < countStr v l ↔ v ∈ l := by
  induction l with
  | nil => simp [countStr]
  | cons x r ih =>
    simp only [countStr, List.filter_cons, List.mem_cons] at ih ⊢
    by_cases h : x = v
    · simp [h]
    · simp only [h, decide_false, Bool.false_eq_true, if_false, ih]
      constructor
      · exact Or.inr
      · rintro (e | e)
        · exact absurd e.symm h
        · exact e

@[simp] theorem tgtStr?_none : tgtStr? Atom.none = none := rfl
@[simp] theorem tgtStr?_str (s : Str) : tgtStr? (Atom.str s) = some s := rfl
@[simp] theorem tgtStr?_num (s : Str) : tgtStr? (Atom.num s) = none := rfl

theorem countStr_filterMap_tgt (v : Str) (l : List Triple) :
    countStr v (l.filterMap (fun t => tgtStr? t.tgt)) = l.countP (fun t => t.tgt = Atom.str v) := by
  induction l with
  | nil => rfl
  | cons t r ih =>
    simp only [countStr] at ih
    rcases ht : t.tgt with _ | s | n
    · simp [countStr, List.filterMap_cons, ht, List.countP_cons, ih]
    · by_cases h : s = v
      · simp [countStr, List.filterMap_cons, ht, List.countP_cons, ih, h]
      · simp [countStr, List.filterMap_cons, ht, List.countP_cons, ih, h]
    · simp [countStr, List.filterMap_cons, ht, List.countP_cons, ih]

/-- the list of "entrances" used by `reentrancies()` -/
def Graph.ents (g : Graph) : List Str :=
  (match g.getTop with | some t => [t] | none => []) ++ (g.edges.filterMap (fun t => tgtStr? t.tgt))

theorem countStr_ents (g : Graph) (v : Str) : countStr v g.ents = g.reentCount v := by
  unfold Graph.ents Graph.reentCount
  rw [countStr_append, countStr_filterMap_tgt, Nat.add_comm]
  congr 1
  cases g.getTop with
  | none => simp [countStr]
  | some t => by_cases h : t = v <;> simp [countStr, h]

theorem reentrancies_eq (g : Graph) :
    g.reentrancies = (dedup g.ents).filterMap fun v =>
      if 2 ≤ g.reentCount v then some (v, g.reentCount v - 1) else none := by
  unfold Graph.reentrancies
  simp only [← countStr_ents]
  rfl

theorem get?_filterMap_ite (l : List Str) (p : Str → Prop) [DecidablePred p] (f : Str → Nat)
    (v : Str) :
    AList.get? (l.filterMap fun v => if p v then some (v, f v) else none) v =
      if v ∈ l ∧ p v then some (f v) else none := by
  induction l with
  | nil => simp
  | cons x r ih =>
    simp only [List.filterMap_cons]
    by_cases hx : p x
    · simp only [hx, if_true, AList.get?_cons, ih, List.mem_cons]
      by_cases e : x = v
      · subst e; simp [hx]
      · have e' : ¬ v = x := fun h => e h.symm
        simp [e, e']
    · simp only [hx, if_false, ih, List.mem_cons]
      by_cases e : v = x
      · subst e; simp [hx]
      · simp [e]

theorem keys_filterMap_ite (l : List Str) (p : Str → Prop) [DecidablePred p] (f : Str → Nat) :
    AList.keys (l.filterMap fun v => if p v then some (v, f v) else none) = l.filter p := by
  induction l with
  | nil => rfl
  | cons x r ih =>
    simp only [AList.keys] at ih
    by_cases hx : p x <;> simp [AList.keys, List.filterMap_cons, List.filter_cons, hx, ih]

theorem reentrancies_get? (g : Graph) (v : Str) :
    AList.get? g.reentrancies v =
      if 2 ≤ g.reentCount v then some (g.reentCount v - 1) else none := by
  rw [reentrancies_eq, get?_filterMap_ite]
  by_cases h : 2 ≤ g.reentCount v
  · have : v ∈ dedup g.ents := by
      rw [mem_dedup, ← countStr_pos_iff, countStr_ents]; omega
    simp [h, this]
  · simp [h]

theorem reentrancies_keys (g : Graph) :
    AList.keys g.reentrancies = (dedup g.ents).filter (fun v => 2 ≤ g.reentCount v) := by
  rw [reentrancies_eq, keys_filterMap_ite]

theorem reentrancies_keys_nodup (g : Graph) : (AList.keys g.reentrancies).Nodup := by
  rw [reentrancies_keys]
  exact (nodup_dedup _).sublist List.filter_sublist

theorem mem_reentrancies (g : Graph) (v : Str) (n : Nat) :
    (v, n) ∈ g.reentrancies ↔ 2 ≤ g.reentCount v ∧ n = g.reentCount v - 1 := by
  rw [← AList.get?_eq_some_iff_mem (reentrancies_keys_nodup g), reentrancies_get?]
  by_cases h : 2 ≤ g.reentCount v
  · simp [h, eq_comm]
  · simp [h]

/-! ### union (`__ior__`, `__or__`) -/

theorem ior_triples (g h : Graph) :
    (g.ior h).triples = g.triples ++ h.triples.filter (fun t => t ∉ g.triples) := rfl

theorem mem_ior_triples (g h : Graph) (t : Triple) :
    t ∈ (g.ior h).triples ↔ t ∈ g.triples ∨ t ∈ h.triples := by
  rw [ior_triples]
  simp only [List.mem_append, List.mem_filter, decide_eq_true_eq]
  by_cases hg : t ∈ g.triples <;> simp [hg]

theorem ior_top (g h : Graph) : (g.ior h).top = g.top := rfl
theorem ior_metadata (g h : Graph) : (g.ior h).metadata = g.metadata := rfl

theorem or_eq_ior (g h : Graph) : g.or h = Graph.ior { g with metadata := [] } h := rfl
theorem or_triples (g h : Graph) : (g.or h).triples = (g.ior h).triples := rfl
theorem or_top (g h : Graph) : (g.or h).top = g.top := rfl
theorem or_epidata (g h : Graph) : (g.or h).epidata = (g.ior h).epidata := rfl
theorem or_metadata (g h : Graph) : (g.or h).metadata = [] := rfl

/-- one step of the marker-copy loop of `__ior__` -/
def iorStep (h : Graph) (d : Epidata) (t : Triple) : Epidata :=
  match AList.get? h.epidata t with
  | some e => d.set t e
  | none => d

theorem ior_epidata_eq (g h : Graph) :
    (g.ior h).epidata =
      AList.update ((h.triples.filter (fun t => t ∉ g.triples)).foldl (iorStep h) g.epidata)
        h.epidata := rfl

theorem get?_foldl_iorStep_of_none (h : Graph) (l : List Triple) (d : Epidata) (k : Triple)
    (hk : AList.get? h.epidata k = none) :
    AList.get? (l.foldl (iorStep h) d) k = AList.get? d k := by
  induction l generalizing d with
  | nil => rfl
  | cons t r ih =>
    simp only [List.foldl_cons, ih]
    unfold iorStep
    cases ht : AList.get? h.epidata t with
    | none => rfl
    | some e =>
      have : t ≠ k := by intro e'; rw [e', hk] at ht; cases ht
      simp [AList.get?_set, this]

theorem nodup_keys_foldl_iorStep (h : Graph) (l : List Triple) {d : Epidata}
    (hd : (AList.keys d).Nodup) : (AList.keys (l.foldl (iorStep h) d)).Nodup := by
  induction l generalizing d with
  | nil => exact hd
  | cons t r ih =>
    apply ih
    unfold iorStep
    cases AList.get? h.epidata t with
    | none => exact hd
    | some e => exact AList.nodup_keys_set hd _ _

/-- Markers after `g |= h`, for arbitrary association lists: the *last* entry of
    `h.epidata` for the triple wins, otherwise `g`'s entry is kept. -/
theorem ior_epidata_get? (g h : Graph) (t : Triple) :
    AList.get? (g.ior h).epidata t =
      (AList.get? h.epidata.reverse t).or (AList.get? g.epidata t) := by
  rw [ior_epidata_eq, AList.get?_update]
  cases hr : AList.get? h.epidata.reverse t with
  | some e => simp
  | none =>
    rw [AList.get?_reverse_eq_none_iff] at hr
    simp [get?_foldl_iorStep_of_none h _ _ t hr]

/-- Markers after `g |= h` when `h.epidata` is a proper dict (duplicate-free keys). -/
theorem ior_epidata_get?_of_nodup (g : Graph) {h : Graph} (hh : (AList.keys h.epidata).Nodup)
    (t : Triple) :
    AList.get? (g.ior h).epidata t = (AList.get? h.epidata t).or (AList.get? g.epidata t) := by
  rw [ior_epidata_get?, AList.get?_reverse hh]

theorem ior_epidata_keys_nodup {g : Graph} (hg : (AList.keys g.epidata).Nodup) (h : Graph) :
    (AList.keys (g.ior h).epidata).Nodup := by
  rw [ior_epidata_eq]
  exact AList.nodup_keys_update (nodup_keys_foldl_iorStep h _ hg) _

theorem mem_keys_ior_epidata (g h : Graph) (t : Triple) :
    t ∈ AList.keys (g.ior h).epidata ↔ t ∈ AList.keys g.epidata ∨ t ∈ AList.keys h.epidata := by
  simp only [← AList.get?_isSome_iff, ior_epidata_get?]
  have : (AList.get? h.epidata.reverse t).isSome = (AList.get? h.epidata t).isSome := by
    cases h1 : AList.get? h.epidata.reverse t with
    | none => rw [AList.get?_reverse_eq_none_iff] at h1; simp [h1]
    | some e =>
      cases h2 : AList.get? h.epidata t with
      | none => rw [← AList.get?_reverse_eq_none_iff, h1] at h2; cases h2
      | some e' => rfl
  cases h1 : AList.get? h.epidata.reverse t <;> cases h2 : AList.get? h.epidata t <;>
    cases h3 : AList.get? g.epidata t <;> simp_all

/-- the top seen through `.top` after a union -/
theorem ior_getTop (g h : Graph) :
    (g.ior h).getTop = (g.getTop).or (h.triples.head?.map (·.src)) := by
  unfold Graph.getTop
  rw [ior_top, ior_triples]
  cases g.top with
  | some t => rfl
  | none =>
    cases hg : g.triples with
    | cons a r => rfl
    | nil =>
      cases h.triples with
      | nil => rfl
      | cons b r => simp

theorem ior_triples_nodup {g h : Graph} (hg : g.triples.Nodup) (hh : h.triples.Nodup) :
    (g.ior h).triples.Nodup := by
  rw [ior_triples, List.nodup_append]
  refine ⟨hg, hh.sublist List.filter_sublist, ?_⟩
  intro a ha b hb e
  simp only [List.mem_filter, decide_eq_true_eq] at hb
  exact hb.2 (e ▸ ha)

/-! ### difference (`__isub__`, `__sub__`) -/

/-- `v` occurs as the source or as the (string) target of a triple of `l` -/
def occursIn (v : Str) (l : List Triple) : Prop := ∃ t ∈ l, t.src = v ∨ t.tgt = Atom.str v

instance (v : Str) (l : List Triple) : Decidable (occursIn v l) := by
  unfold occursIn; infer_instance

theorem isub_triples (g h : Graph) :
    (g.isub h).triples = g.triples.filter (fun t => t ∉ h.triples) := rfl

theorem mem_isub_triples (g h : Graph) (t : Triple) :
    t ∈ (g.isub h).triples ↔ t ∈ g.triples ∧ t ∉ h.triples := by
  simp [isub_triples]

theorem isub_metadata (g h : Graph) : (g.isub h).metadata = g.metadata := rfl

theorem isub_epidata (g h : Graph) :
    (g.isub h).epidata = g.epidata.filter (fun p => p.1 ∉ h.triples) := rfl

theorem isub_epidata_get? (g h : Graph) (t : Triple) :
    AList.get? (g.isub h).epidata t = if t ∈ h.triples then none else AList.get? g.epidata t := by
  rw [isub_epidata]
  have := AList.get?_filter_key (fun k => decide (k ∉ h.triples)) g.epidata t
  rw [this]
  by_cases ht : t ∈ h.triples <;> simp [ht]

theorem isub_epidata_keys (g h : Graph) :
    AList.keys (g.isub h).epidata = (AList.keys g.epidata).filter (fun t => t ∉ h.triples) := by
  rw [isub_epidata]
  exact AList.keys_filter_key (fun k => decide (k ∉ h.triples)) g.epidata

theorem isub_epidata_keys_nodup {g : Graph} (hg : (AList.keys g.epidata).Nodup) (h : Graph) :
    (AList.keys (g.isub h).epidata).Nodup := by
  rw [isub_epidata_keys]; exact hg.sublist List.filter_sublist

theorem mem_possible_iff (v : Str) (l : List Triple) :
    Atom.str v ∈ l.flatMap (fun t => [Atom.str t.src, t.tgt]) ↔ occursIn v l := by
  simp only [List.mem_flatMap, List.mem_cons, List.not_mem_nil, or_false, Atom.str.injEq, occursIn]
  constructor
  · rintro ⟨t, ht, h | h⟩
    · exact ⟨t, ht, Or.inl h.symm⟩
    · exact ⟨t, ht, Or.inr h.symm⟩
  · rintro ⟨t, ht, h | h⟩
    · exact ⟨t, ht, Or.inl h.symm⟩
    · exact ⟨t, ht, Or.inr h.symm⟩

theorem isub_top (g h : Graph) :
    (g.isub h).top = g.top.filter (fun v => decide (occursIn v (g.isub h).triples)) := by
  unfold Graph.isub
  cases g.top with
  | none => rfl
  | some v =>
    simp only [Option.filter]
    by_cases hv : occursIn v (g.triples.filter (fun t => t ∉ h.triples))
    · have := (mem_possible_iff v _).2 hv
      simp only [hv, decide_true, if_true]
      rw [if_pos this]
    · have := mt (mem_possible_iff v _).1 hv
      simp only [hv, decide_false, Bool.false_eq_true, if_false]
      rw [if_neg this]

theorem isub_triples_nodup {g : Graph} (hg : g.triples.Nodup) (h : Graph) :
    (g.isub h).triples.Nodup := hg.sublist List.filter_sublist

theorem sub_eq_isub (g h : Graph) : g.sub h = Graph.isub { g with metadata := [] } h := rfl
theorem sub_triples (g h : Graph) : (g.sub h).triples = (g.isub h).triples := rfl
theorem sub_top (g h : Graph) : (g.sub h).top = (g.isub h).top := rfl
theorem sub_epidata (g h : Graph) : (g.sub h).epidata = (g.isub h).epidata := rfl
theorem sub_metadata (g h : Graph) : (g.sub h).metadata = [] := rfl

theorem mem_or_triples (g h : Graph) (t : Triple) :
    t ∈ (g.or h).triples ↔ t ∈ g.triples ∨ t ∈ h.triples := mem_ior_triples g h t

theorem mem_sub_triples (g h : Graph) (t : Triple) :
    t ∈ (g.sub h).triples ↔ t ∈ g.triples ∧ t ∉ h.triples := mem_isub_triples g h t

/-! ### a small language of set operations -/

/-- one graph set operation with its right operand -/
inductive GOp where
  | or (h : Graph)     -- `g | h`
  | sub (h : Graph)    -- `g - h`
  | ior (h : Graph)    -- `g |= h`
  | isub (h : Graph)   -- `g -= h`

/-- the right operand of an operation -/
def GOp.arg : GOp → Graph | .or h | .sub h | .ior h | .isub h => h

/-- run one operation on the model -/
def GOp.apply (g : Graph) : GOp → Graph
  | .or h => g.or h
  | .sub h => g.sub h
  | .ior h => g.ior h
  | .isub h => g.isub h

/-- run a sequence of operations left to right -/
def applyOps (g : Graph) (ops : List GOp) : Graph := ops.foldl GOp.apply g

/-- the operation on *sets* of triples (as predicates) -/
def GOp.denote (S : Triple → Prop) : GOp → (Triple → Prop)
  | .or h | .ior h => fun t => S t ∨ t ∈ h.triples
  | .sub h | .isub h => fun t => S t ∧ t ∉ h.triples

/-- the set expression denoted by a sequence of operations -/
def denoteOps (S : Triple → Prop) (ops : List GOp) : Triple → Prop := ops.foldl GOp.denote S

/-- the operation on *lists* of triples (order-preserving) -/
def GOp.onList (l : List Triple) : GOp → List Triple
  | .or h | .ior h => l ++ h.triples.filter (fun t => t ∉ l)
  | .sub h | .isub h => l.filter (fun t => t ∉ h.triples)

theorem GOp.apply_triples (g : Graph) (op : GOp) : (op.apply g).triples = op.onList g.triples := by
  cases op <;> rfl

theorem applyOps_triples (g : Graph) (ops : List GOp) :
    (applyOps g ops).triples = ops.foldl GOp.onList g.triples := by
  induction ops generalizing g with
  | nil => rfl
  | cons op r ih =>
    simp only [applyOps, List.foldl_cons] at ih ⊢
    rw [ih, GOp.apply_triples]

theorem GOp.mem_apply (g : Graph) (op : GOp) (t : Triple) :
    t ∈ (op.apply g).triples ↔ op.denote (fun x => x ∈ g.triples) t := by
  cases op
  · exact mem_or_triples _ _ _
  · exact mem_sub_triples _ _ _
  · exact mem_ior_triples _ _ _
  · exact mem_isub_triples _ _ _

theorem GOp.denote_congr {S S' : Triple → Prop} (hS : ∀ t, S t ↔ S' t) (op : GOp) (t : Triple) :
    op.denote S t ↔ op.denote S' t := by
  cases op <;> simp only [GOp.denote, hS]

theorem mem_applyOps_aux (ops : List GOp) (g : Graph) (S : Triple → Prop)
    (hS : ∀ t, t ∈ g.triples ↔ S t) (t : Triple) :
    t ∈ (applyOps g ops).triples ↔ denoteOps S ops t := by
  induction ops generalizing g S with
  | nil => exact hS t
  | cons op r ih =>
    simp only [applyOps, denoteOps, List.foldl_cons] at ih ⊢
    apply ih
    intro x
    rw [GOp.mem_apply]
    exact GOp.denote_congr hS op x

theorem mem_applyOps (g : Graph) (ops : List GOp) (t : Triple) :
    t ∈ (applyOps g ops).triples ↔ denoteOps (fun x => x ∈ g.triples) ops t :=
  mem_applyOps_aux ops g _ (fun _ => Iff.rfl) t

/-! ### `__eq__` -/

theorem eqv_iff (g h : Graph) :
    g.eqv h = true ↔ g.getTop = h.getTop ∧ g.triples.length = h.triples.length ∧
      ∀ t, t ∈ g.triples ↔ t ∈ h.triples := by
  simp only [Graph.eqv, Bool.and_eq_true, decide_eq_true_eq, List.all_eq_true]
  constructor
  · rintro ⟨⟨⟨h1, h2⟩, h3⟩, h4⟩
    exact ⟨h1, h2, fun t => ⟨h3 t, h4 t⟩⟩
  · rintro ⟨h1, h2, h3⟩
    exact ⟨⟨⟨h1, h2⟩, fun t => (h3 t).1⟩, fun t => (h3 t).2⟩

theorem eqv_refl (g : Graph) : g.eqv g = true := by simp [eqv_iff]

theorem eqv_symm {g h : Graph} (e : g.eqv h = true) : h.eqv g = true := by
  rw [eqv_iff] at e ⊢
  exact ⟨e.1.symm, e.2.1.symm, fun t => (e.2.2 t).symm⟩

theorem eqv_trans {g h k : Graph} (e1 : g.eqv h = true) (e2 : h.eqv k = true) :
    g.eqv k = true := by
  rw [eqv_iff] at e1 e2 ⊢
  exact ⟨e1.1.trans e2.1, e1.2.1.trans e2.2.1, fun t => (e1.2.2 t).trans (e2.2.2 t)⟩

/-! ### `Graph.__init__` -/

theorem ensureColon_eq (r : Str) : ensureColon r = if r.head? = some ':' then r else ':' :: r := by
  cases r with
  | nil => rfl
  | cons c cs =>
    simp only [ensureColon, startsWith, List.head?_cons, Option.some.injEq]
    by_cases h : c = ':'
    · subst h; simp
    · have : ¬ (':' = c) := fun e => h e.symm
      simp [h, this]

theorem startsWith_colon_iff (r : Str) : startsWith [':'] r = true ↔ r.head? = some ':' := by
  cases r with
  | nil => simp [startsWith]
  | cons c cs =>
    simp only [startsWith, List.head?_cons, Option.some.injEq]
    by_cases h : c = ':'
    · subst h; simp
    · have : ¬ (':' = c) := fun e => h e.symm
      simp [h, this]

theorem ensureColon_startsWith (r : Str) : startsWith [':'] (ensureColon r) = true := by
  rw [startsWith_colon_iff, ensureColon_eq]
  by_cases h : r.head? = some ':' <;> simp [h]

theorem ensureColon_of_startsWith {r : Str} (h : startsWith [':'] r = true) : ensureColon r = r := by
  unfold ensureColon; rw [if_pos h]

theorem ensureColon_of_not_startsWith {r : Str} (h : startsWith [':'] r = false) :
    ensureColon r = ':' :: r := by
  unfold ensureColon; rw [h]; rfl

theorem ensureColon_idem (r : Str) : ensureColon (ensureColon r) = ensureColon r :=
  ensureColon_of_startsWith (ensureColon_startsWith r)

/-- the role normalisation applied to every triple by `Graph.__init__` -/
def colonT (t : Triple) : Triple := { t with role := ensureColon t.role }

theorem colonT_idem (t : Triple) : colonT (colonT t) = colonT t := by
  simp [colonT, ensureColon_idem]

theorem mk'_triples (ts : List Triple) (top : Option Str) (e : List (Triple × List Epi))
    (m : List (Str × Str)) : (Graph.mk' ts top e m).triples = ts.map colonT := rfl

theorem mk'_top (ts : List Triple) (top : Option Str) (e : List (Triple × List Epi))
    (m : List (Str × Str)) : (Graph.mk' ts top e m).top = top := rfl

theorem mk'_epidata (ts : List Triple) (top : Option Str) (e : List (Triple × List Epi))
    (m : List (Str × Str)) : (Graph.mk' ts top e m).epidata = AList.ofList e := rfl

theorem mk'_metadata (ts : List Triple) (top : Option Str) (e : List (Triple × List Epi))
    (m : List (Str × Str)) : (Graph.mk' ts top e m).metadata = AList.ofList m := rfl

theorem mk'_idem (ts : List Triple) (top : Option Str) (e : List (Triple × List Epi))
    (m : List (Str × Str)) :
    let g := Graph.mk' ts top e m
    Graph.mk' g.triples g.top g.epidata g.metadata = g := by
  simp only [Graph.mk', AList.ofList_idem, List.map_map]
  congr 1
  apply List.map_congr_left
  intro t _
  simp [ensureColon_idem]

/-! ### list-level algebra of the operators -/

theorem or_self_triples (g : Graph) : (g.or g).triples = g.triples := by
  rw [or_triples, ior_triples]
  have : g.triples.filter (fun t => decide (t ∉ g.triples)) = [] := by
    rw [List.filter_eq_nil_iff]; intro a ha; simp [ha]
  rw [this, List.append_nil]

theorem or_sub_cancel_triples (g h : Graph) :
    ((g.or h).sub h).triples = g.triples.filter (fun t => t ∉ h.triples) := by
  rw [sub_triples, isub_triples, or_triples, ior_triples, List.filter_append, List.filter_filter]
  have : h.triples.filter (fun a => decide (a ∉ h.triples) && decide (a ∉ g.triples)) = [] := by
    rw [List.filter_eq_nil_iff]; intro a ha; simp [ha]
  rw [this, List.append_nil]

theorem or_assoc_triples (g h k : Graph) :
    ((g.or h).or k).triples = (g.or (h.or k)).triples := by
  simp only [or_triples, ior_triples, List.filter_append, List.filter_filter, List.append_assoc]
  congr 2
  apply List.filter_congr
  intro t _
  simp only [List.mem_append, List.mem_filter, decide_eq_true_eq, not_or, not_and, Decidable.not_not]
  by_cases hg : t ∈ g.triples <;> by_cases hh : t ∈ h.triples <;> simp [hg, hh]

theorem sub_sub_triples (g h k : Graph) :
    ((g.sub h).sub k).triples = (g.sub (h.or k)).triples := by
  simp only [sub_triples, isub_triples, or_triples, ior_triples, List.filter_filter]
  apply List.filter_congr
  intro t _
  simp only [List.mem_append, List.mem_filter, decide_eq_true_eq, not_or, not_and, Decidable.not_not]
  by_cases hh : t ∈ h.triples <;> by_cases hk : t ∈ k.triples <;> simp [hh, hk]

end Penman

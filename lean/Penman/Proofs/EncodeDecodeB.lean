/-
  Penman.Proofs.EncodeDecodeB — the configured tree is grammar-valid at the character level.
  1. a new invariant of the cell store (`SQ`): in every cell the `/` edges (node labels) come
     first and have atomic targets (they are inserted at the front, everything else is appended;
     establishing a site never touches a `/` edge);
  2. with at most one node label per variable, a cell has its `/` edge, if any, in first position
     only; every edge is the graph's triple or its inversion, so its texts are grammar-valid;
  3. `buildNode` then yields a tree whose written form is `WfTreeText`.
-/
import Penman.Proofs.Configure16
import Penman.Proofs.TextWfLemmas
import Penman.Spec.EncodeText

namespace Penman
namespace Cfg
open Penman.Spec Penman.C03Text

/-! ### 1. the `/`-first invariant -/

/-- `/` edges have atomic targets, and no `/` edge follows an edge with another role -/
def SlashOK : List Edge → Prop
  | [] => True
  | e :: es => (e.role = ['/'] → ∃ a, e.tgt = .atom a) ∧ (e.role ≠ ['/'] → ∀ x ∈ es, x.role ≠ ['/']) ∧
      SlashOK es

def SQ (c : Cells) : Prop := ∀ p ∈ c, SlashOK p.2

/-- the triples of a data list have roles that cannot be confused with `/` -/
def DataOK (m : Model) (l : List Datum) : Prop := ∀ tr p es, Datum.t tr p es ∈ l → RoleOK m tr

theorem slashOK_snoc : ∀ {es : List Edge} {e : Edge}, SlashOK es → e.role ≠ ['/'] → SlashOK (es ++ [e]) := by
  intro es
  induction es with
  | nil => intro e _ he; exact ⟨fun h => absurd h he, fun _ x hx => by simp at hx, trivial⟩
  | cons a r ih =>
    intro e h he
    obtain ⟨h1, h2, h3⟩ := h
    refine ⟨h1, ?_, ih h3 he⟩
    intro hna x hx
    rcases List.mem_append.1 hx with hx | hx
    · exact h2 hna x hx
    · simp only [List.mem_singleton] at hx; subst hx; exact he

theorem slashOK_cons_slash {es : List Edge} {a : Atom} {epis : List Epi} (h : SlashOK es) :
    SlashOK (⟨['/'], .atom a, epis⟩ :: es) :=
  ⟨fun _ => ⟨a, rfl⟩, fun h' => absurd rfl h', h⟩

theorem establishIn_roles (v : Str) : ∀ {es : List Edge}, ∀ x ∈ establishIn v es, ∃ y ∈ es, x.role = y.role := by
  intro es
  induction es with
  | nil => intro x hx; simp [establishIn] at hx
  | cons a r ih =>
    intro x hx
    simp only [establishIn] at hx
    split at hx
    · simp only [List.mem_cons] at hx
      rcases hx with rfl | hx
      · exact ⟨a, List.mem_cons_self, rfl⟩
      · exact ⟨x, List.mem_cons_of_mem _ hx, rfl⟩
    · simp only [List.mem_cons] at hx
      rcases hx with rfl | hx
      · exact ⟨_, List.mem_cons_self, rfl⟩
      · obtain ⟨y, hy, e⟩ := ih x hx
        exact ⟨y, List.mem_cons_of_mem _ hy, e⟩

theorem slashOK_establishIn (v : Str) : ∀ {es : List Edge}, SlashOK es → SlashOK (establishIn v es) := by
  intro es
  induction es with
  | nil => intro h; simpa [establishIn] using h
  | cons a r ih =>
    intro h
    obtain ⟨h1, h2, h3⟩ := h
    simp only [establishIn]
    split
    · rename_i hc
      exact ⟨fun h => absurd h hc.2, fun _ => h2 hc.2, h3⟩
    · refine ⟨h1, ?_, ih h3⟩
      intro hna x hx
      obtain ⟨y, hy, e⟩ := establishIn_roles v x hx
      rw [e]; exact h2 hna y hy

theorem sq_set {c : Cells} {k : Str} {es : List Edge} (h : SQ c) (hes : SlashOK es) : SQ (AList.set c k es) := by
  intro p hp
  rcases mem_set hp with h1 | h1
  · exact h p h1
  · subst h1; exact hes

theorem cell_cases (st : St) (v : Str) : st.cell v = [] ∨ (v, st.cell v) ∈ st.cells := by
  unfold St.cell AList.get?
  cases h : List.find? (fun x => decide (x.1 = v)) st.cells with
  | none => left; rfl
  | some p =>
    right
    have h1 := List.mem_of_find?_eq_some h
    have h2 := List.find?_some h
    simp only [decide_eq_true_eq] at h2
    obtain ⟨a, b⟩ := p
    simp only [] at h2; subst h2
    simpa using h1

theorem sq_cell {st : St} (h : SQ st.cells) (v : Str) : SlashOK (st.cell v) := by
  rcases cell_cases st v with h1 | h1
  · rw [h1]; trivial
  · exact h _ h1

theorem sq_addBack {st : St} {var : Str} {e : Edge} (h : SQ st.cells) (he : e.role ≠ ['/']) :
    SQ (st.addBack var e).cells := sq_set h (slashOK_snoc (sq_cell h var) he)

theorem sq_addFront {st : St} {var : Str} {a : Atom} {epis : List Epi} (h : SQ st.cells) :
    SQ (st.addFront var ⟨['/'], .atom a, epis⟩).cells := sq_set h (slashOK_cons_slash (sq_cell h var))

theorem sq_getOrEstablish {st : St} {v : Str} (h : SQ st.cells) : SQ (getOrEstablish st v).2.cells := by
  unfold getOrEstablish
  split
  · exact h
  · simp only []
    apply sq_set
    · exact sq_set h (slashOK_establishIn v (sq_cell h _))
    · trivial
  · exact h

theorem sq_findNext : ∀ data rev st, SQ st.cells → SQ (findNext data rev st).2.2.2.cells := by
  intro data rev st
  fun_induction findNext data rev st <;> intro h
  · exact h
  · exact h
  · rename_i ih; exact ih h
  · rename_i tr push epis rest rev st d trySrc h1
    simp only [trySrc]; split
    · exact sq_getOrEstablish h
    · exact h
  · rename_i tr push epis rest rev st d trySrc h1 tv htv tryTgt h2
    have hT : SQ trySrc.2.cells := by
      simp only [trySrc]; split
      · exact sq_getOrEstablish h
      · exact h
    simp only [tryTgt]; split
    · exact sq_getOrEstablish hT
    · exact hT
  · rename_i tr push epis rest rev st d trySrc h1 tv htv tryTgt h2 ih
    have hT : SQ trySrc.2.cells := by
      simp only [trySrc]; split
      · exact sq_getOrEstablish h
      · exact h
    have hU : SQ tryTgt.2.cells := by
      simp only [tryTgt]; split
      · exact sq_getOrEstablish hT
      · exact hT
    exact ih hU
  · rename_i tr push epis rest rev st d trySrc h1 hnt ih
    have hT : SQ trySrc.2.cells := by
      simp only [trySrc]; split
      · exact sq_getOrEstablish h
      · exact h
    exact ih hT

theorem sq_cn (m : Model) : ∀ f var data st s, SQ st.cells → DataOK m data →
    SQ (configureNode m f var data st s).2.1.cells := by
  intro f
  induction f with
  | zero => intro var data st s h _; exact h
  | succ f ih =>
    intro var data st s h hd
    cases data with
    | nil => exact h
    | cons d data =>
      cases d with
      | pop => exact h
      | t tr push epis =>
        have hd' : DataOK m data := fun tr p es hm => hd tr p es (List.mem_cons_of_mem _ hm)
        have hrt : RoleOK m tr := hd tr push epis List.mem_cons_self
        simp only [configureNode]
        split
        · exact h
        · rename_i role target push' s' hor
          obtain ⟨hslash, _⟩ := orient_spec hor hrt
          split
          · split
            · exact ih _ _ _ _ h hd'
            · exact ih _ _ _ _ (sq_addFront h) hd'
          · split
            · rename_i v hp
              have h1 : SQ (st.newCell v).cells := sq_set h trivial
              have h2 := ih v data (st.newCell v) false h1 hd'
              have hd2 : DataOK m (configureNode m f v data (st.newCell v) false).1 :=
                fun tr p es hm => hd' tr p es ((cn_suffix m f v data (st.newCell v) false).subset hm)
              exact ih _ _ _ _ (sq_addBack h2 hslash) hd2
            · have h1 : SQ (st.noteSite var target).cells := by rw [cells_noteSite]; exact h
              exact ih _ _ _ _ (sq_addBack h1 hslash) hd'

theorem sq_round {m : Model} {a b} (h : Round m a b) (hp : SQ a.2.2.cells)
    (hd : DataOK m a.1) (hs : DataOK m a.2.1) : SQ b.2.2.cells ∧ DataOK m b.1 ∧ DataOK m b.2.1 := by
  cases h with
  | @skip data skipped st sk v st1 tr push epis rest hfn ho =>
    obtain ⟨hcat, _⟩ := findNext_some _ _ _ hfn
    simp only [List.reverse_nil, List.nil_append] at hcat
    have := sq_findNext data [] st hp
    rw [hfn] at this
    refine ⟨this, ?_, ?_⟩
    · intro tr' p es hm
      apply hd tr' p es; rw [← hcat]
      exact List.mem_append_right _ (List.mem_cons_of_mem _ ((stripPops_suffix rest).subset hm))
    · intro tr' p es hm
      simp only [List.mem_append, List.mem_singleton] at hm
      rcases hm with (hm | hm) | hm
      · apply hd tr' p es; rw [← hcat]; exact List.mem_append_left _ hm
      · exact hs tr' p es hm
      · apply hd tr' p es; rw [← hcat, hm]; simp
  | @prog data skipped st sk v st1 tr push epis rest hfn ho =>
    obtain ⟨hcat, _⟩ := findNext_some _ _ _ hfn
    simp only [List.reverse_nil, List.nil_append] at hcat
    have h1 := sq_findNext data [] st hp
    rw [hfn] at h1
    have hd1 : DataOK m (.t tr push epis :: rest) := by
      intro tr' p es hm; apply hd tr' p es; rw [← hcat]; exact List.mem_append_right _ hm
    refine ⟨sq_cn m _ v _ st1 false h1 hd1, ?_, fun _ _ _ hm => by simp at hm⟩
    intro tr' p es hm
    have := (stripPops_suffix _).subset hm
    simp only [List.mem_append] at this
    rcases this with h | h | h
    · exact hd1 tr' p es ((cn_suffix _ _ _ _ _ _).subset h)
    · apply hd tr' p es; rw [← hcat]; exact List.mem_append_left _ h
    · exact hs tr' p es h

theorem sq_loop (m : Model) : ∀ fuel data skipped st st', SQ st.cells → DataOK m data → DataOK m skipped →
    configureLoop m fuel data skipped st = .ok st' → SQ st'.cells := by
  intro fuel
  induction fuel with
  | zero => intro data skipped st st' _ _ _ h; simp [configureLoop] at h
  | succ fuel ih =>
    intro data skipped st st' hp hd hs h
    cases data with
    | nil =>
      simp only [configureLoop] at h
      split at h
      · simp only [Except.ok.injEq] at h; subst h; exact hp
      · simp at h
    | cons d data =>
      rcases loop_cases m d data skipped st with ⟨_, e⟩ | ⟨nx, hround, e⟩
      · rw [e] at h; simp at h
      · rw [e] at h
        obtain ⟨p1, d1, s1⟩ := sq_round hround hp hd hs
        exact ih _ _ _ _ p1 d1 s1 h

theorem pending_of_mem : ∀ {l : List Datum} {tr : Triple} {p : Bool} {es : List Epi},
    Datum.t tr p es ∈ l → tr ∈ pending l := by
  intro l
  induction l with
  | nil => intro tr p es h; simp at h
  | cons d l ih =>
    intro tr p es h
    simp only [List.mem_cons] at h
    cases d with
    | pop =>
      rcases h with h | h
      · cases h
      · simpa [pending] using ih h
    | t tr' p' es' =>
      rcases h with h | h
      · cases h; simp [pending]
      · simp only [pending, List.mem_cons]; exact Or.inr (ih h)

/-- in the final store the node labels come first and are atomic -/
theorem storeOf_sq {m : Model} {g : Graph} {top : Str} {st : St} (hr : ∀ t ∈ g.triples, RoleOK2 m t)
    (h : storeOf m g top = .ok st) : SQ st.cells := by
  unfold storeOf at h
  cases hp : preconfigure m g.epidata g.triples [] with
  | error e1 => rw [hp] at h; simp [Except.bind] at h
  | ok data =>
    rw [hp] at h
    simp only [Except.bind] at h
    have hpre := preconfigure_spec m _ _ _ _ hp
    have hrd := roleOK_of_Pre hpre hr
    have hd : DataOK m data := fun tr p es hm => hrd tr (pending_of_mem hm)
    have h0 : SQ (st0 g top).cells := by
      intro p hp; simp [st0] at hp; subst hp; trivial
    have h1 := sq_cn m (data.length + 1) top data (st0 g top) false h0 hd
    have hd1 : DataOK m (stripPops (configureNode m (data.length + 1) top data (st0 g top) false).1) :=
      fun tr p es hm => hd tr p es ((cn_suffix _ _ _ _ _ _).subset ((stripPops_suffix _).subset hm))
    exact sq_loop m _ _ _ _ _ h1 hd1 (fun _ _ _ hm => by simp at hm) h

/-! ### 3. from well-formed cells to a well-formed tree -/

variable {cfg : LexCfg}

/-- an edge whose texts are grammar-valid -/
def EdgeText (cfg : LexCfg) (e : Edge) : Prop :=
  e.epis = [] ∧
  (e.role = ['/'] → ∃ a, e.tgt = .atom a ∧ atomB cfg (writtenAtom a) = true) ∧
  (e.role ≠ ['/'] → roleTextB cfg e.role = true ∧
     (∀ a, e.tgt = .atom a → atomB cfg (writtenAtom a) = true) ∧
     (∀ w, e.tgt = .node w → symbolB cfg w = true))

/-- a cell whose edges are grammar-valid, with `/` at most in first position -/
structure CellText (cfg : LexCfg) (es : List Edge) : Prop where
  tail : ∀ e r, es = e :: r → ∀ x ∈ r, x.role ≠ ['/']
  edge : ∀ e ∈ es, EdgeText cfg e

theorem branches_wf (C : Cells) (f : Nat)
    (hP : ∀ f' w n, f = f' + 1 → symbolB cfg w = true → buildNode C f' w = .ok n →
      wfNodeB cfg (writtenForm n) = true) :
    ∀ (es : List Edge) (bs : Branches), (∀ e ∈ es, EdgeText cfg e ∧ e.role ≠ ['/']) →
      buildBranches C f es = .ok bs → wfEdgesB cfg (writtenBs bs) = true := by
  intro es
  induction es with
  | nil =>
    intro bs _ h
    simp only [buildBranches, Except.ok.injEq] at h; subst h
    rfl
  | cons e es ih =>
    intro bs hes h
    simp only [buildBranches] at h
    cases hrest : buildBranches C f es with
    | error x => rw [hrest] at h; simp [bind, Except.bind] at h
    | ok rest =>
      rw [hrest] at h
      simp only [bind, Except.bind] at h
      have i1 := ih rest (fun e' he' => hes e' (List.mem_cons_of_mem _ he')) hrest
      obtain ⟨⟨hep, _, hE⟩, hns⟩ := hes e List.mem_cons_self
      obtain ⟨hr, ha, hn⟩ := hE hns
      cases htg : e.tgt with
      | atom a =>
        rw [htg] at h
        simp only [pure, Except.pure, Except.ok.injEq] at h
        subst h
        simp [hep, applyEpis, writtenBs, wfEdgesB, hr, ha a htg, i1]
      | node w =>
        rw [htg] at h
        cases f with
        | zero => simp at h
        | succ f1 =>
          simp only [] at h
          cases hnode : buildNode C f1 w with
          | error x => rw [hnode] at h; simp at h
          | ok n =>
            rw [hnode] at h
            simp only [pure, Except.pure, Except.ok.injEq] at h
            subst h
            have := hP f1 w n rfl (hn w htg) hnode
            simp [hep, applyEpis, writtenBs, wfEdgesB, hr, this, i1]

theorem cellOf_cases (C : Cells) (v : Str) : cellOf C v = [] ∨ (v, cellOf C v) ∈ C :=
  cell_cases ⟨C, []⟩ v

/-- **store → grammar-valid tree** -/
theorem build_wf (C : Cells) (hC : ∀ p ∈ C, CellText cfg p.2) : ∀ (f : Nat) (v : Str) (n : Node),
    symbolB cfg v = true → buildNode C f v = .ok n → wfNodeB cfg (writtenForm n) = true := by
  intro f
  induction f using Nat.strongRecOn with
  | _ f ih =>
    intro v n hv h
    cases f with
    | zero => simp [buildNode] at h
    | succ f0 =>
      simp only [buildNode] at h
      cases hb : buildBranches C f0 ((AList.get? C v).getD []) with
      | error e => rw [hb] at h; simp [bind, Except.bind] at h
      | ok bs =>
        rw [hb] at h
        simp only [bind, Except.bind, pure, Except.pure, Except.ok.injEq] at h
        subst h
        have hcell : CellText cfg (cellOf C v) := by
          rcases cellOf_cases C v with h1 | h1
          · rw [h1]; exact ⟨fun e r h => (by cases h), fun e he => absurd he (by simp)⟩
          · exact hC _ h1
        have hQ := branches_wf (cfg := cfg) C f0 (fun f' w n' e hw hb' => ih f' (by omega) w n' hw hb')
        change buildBranches C f0 (cellOf C v) = .ok bs at hb
        simp only [writtenForm, wfNodeB, hv, Bool.true_and]
        cases hes : cellOf C v with
        | nil => rw [hes] at hb; simp only [buildBranches, Except.ok.injEq] at hb; subst hb; rfl
        | cons e r =>
          rw [hes] at hb hcell
          have htail := hcell.tail e r rfl
          by_cases hs : e.role = ['/']
          · obtain ⟨hep, hS, _⟩ := hcell.edge e List.mem_cons_self
            obtain ⟨a, hta, hab⟩ := hS hs
            simp only [buildBranches] at hb
            cases hrest : buildBranches C f0 r with
            | error x => rw [hrest] at hb; simp [bind, Except.bind] at hb
            | ok rest =>
              rw [hrest] at hb
              simp only [bind, Except.bind, hta, pure, Except.pure, Except.ok.injEq] at hb
              subst hb
              have i1 := hQ r rest (fun x hx => ⟨hcell.edge x (List.mem_cons_of_mem _ hx), htail x hx⟩) hrest
              simp [hep, applyEpis, hs, writtenBs, wfTopB, hab, i1]
          · have := hQ (e :: r) bs (fun x hx => ⟨hcell.edge x hx, by
              rcases List.mem_cons.1 hx with rfl | hx
              · exact hs
              · exact htail x hx⟩) hb
            exact FL.wfTop_of_edges _ this

/-! ### 2. the cells of an encoded graph are grammar-valid -/

theorem roleTextB_of_roleB {r : Str} (h : roleB cfg r = true) : roleTextB cfg r = true :=
  (FL.alignedB_iff _ _).2 ⟨r, [], by simp, h, .inl rfl⟩

theorem atomTextB_of {s : Str} (h : (symbolB cfg s || stringB cfg s) = true) : atomTextB cfg s = true :=
  (FL.alignedB_iff _ _).2 ⟨s, [], by simp, h, .inl rfl⟩

theorem atomB_written_of_tgtOK {a : Atom} (h : TgtTextOK cfg a) : atomB cfg (writtenAtom a) = true := by
  cases a with
  | none => rfl
  | str s => exact atomTextB_of h
  | num s =>
    simp only [TgtTextOK] at h
    exact atomTextB_of (by simp [h])

theorem slashOK_mem : ∀ {es : List Edge} {e : Edge}, SlashOK es → e ∈ es → e.role = ['/'] → ∃ a, e.tgt = .atom a := by
  intro es
  induction es with
  | nil => intro e _ h; simp at h
  | cons a r ih =>
    intro e h he hs
    rcases List.mem_cons.1 he with rfl | he
    · exact h.1 hs
    · exact ih h.2.2 he hs

theorem deinvert1_inst (m : Model) (g : Graph) {x : Triple} (h : x.role = CONCEPT_ROLE) : deinvert1 m g x = x := by
  have : m.isRoleInverted x.role = false := by
    rw [h]; unfold Model.isRoleInverted
    have : endsWith ofStr CONCEPT_ROLE = false := by decide
    simp [this]
  simp [deinvert1, this]

theorem countP_le_flatMap {α β : Type} (P : β → Bool) (f : α → List β) : ∀ {l : List α} {a : α}, a ∈ l →
    (f a).countP P ≤ (l.flatMap f).countP P := by
  intro l
  induction l with
  | nil => intro a h; simp at h
  | cons b r ih =>
    intro a h
    simp only [List.flatMap_cons, List.countP_append]
    rcases List.mem_cons.1 h with rfl | h
    · omega
    · have := ih h; omega

/-- the instance triples with source `v` -/
def instOf (v : Str) (y : Triple) : Bool := decide (y.src = v ∧ y.role = CONCEPT_ROLE)

theorem countP_inst_le_one {g : Graph}
    (h : ((g.triples.filter (fun t => t.role = CONCEPT_ROLE)).map (·.src)).Nodup) (v : Str) :
    g.triples.countP (instOf v) ≤ 1 := by
  have h1 := (List.nodup_iff_count.1 h) v
  have : g.triples.countP (instOf v) =
      ((g.triples.filter (fun t => t.role = CONCEPT_ROLE)).map (·.src)).count v := by
    rw [List.count_eq_countP, List.countP_map, List.countP_filter]
    apply List.countP_congr
    intro t _
    simp only [instOf, Function.comp]
    simp only [decide_eq_true_eq, Bool.and_eq_true, beq_iff_eq]
  omega

/-- **every cell of the store of an encoded graph is grammar-valid** -/
theorem cells_text {isSpace : Char → Bool} {m : Model} {g : Graph} {t : Str} {T : Tree} {st : St} {l : List Triple}
    (hg : WfGraph m g) (htx : GraphTextOK cfg isSpace m g) (E : Encoded m g t T st l) :
    ∀ p ∈ st.cells, CellText cfg p.2 := by
  have hr2 : ∀ x ∈ g.triples, RoleOK2 m x := fun x hx => roleOK2_of_colon m x (hg.roles x hx).1
  have hsq := storeOf_sq hr2 E.store
  have hgood := storeOf_good E.store
  have hvarsym : ∀ v ∈ g.variables, symbolB cfg v = true := by
    intro v hv
    obtain ⟨t0, ht0, hs0, _⟩ := hg.labelled v hv
    rw [← hs0]; exact htx.srcs t0 ht0
  -- facts about one edge
  have hedge : ∀ p ∈ st.cells, ∀ e ∈ p.2, EdgeText cfg e := by
    intro p hp e he
    have hx : Cfg.denote p.1 e ∈ placed st.cells := by
      simp only [placed, List.mem_flatMap, List.mem_map]; exact ⟨p, hp, e, he, rfl⟩
    obtain ⟨t0, ht0, hv⟩ := E.version _ (E.perm.symm.subset hx)
    obtain ⟨hnc, hep⟩ := E.plain p hp e he
    refine ⟨hep, ?_, ?_⟩
    · intro hs
      obtain ⟨a, ha⟩ := slashOK_mem (hsq p hp) he hs
      refine ⟨a, ha, ?_⟩
      have hden : Cfg.denote p.1 e = ⟨p.1, CONCEPT_ROLE, a⟩ := by simp [Cfg.denote, hs, ha]
      rcases hv with hv | ⟨hv, _, hr0⟩
      · have : t0.tgt = a := by rw [← hv, hden]
        rw [← this]; exact atomB_written_of_tgtOK (htx.tgts t0 ht0)
      · exfalso
        have : (m.invert t0).role = CONCEPT_ROLE := by rw [← hv, hden]
        rw [invert_role] at this
        exact (hg.noInstOf t0 ht0 hr0).1 this
    · intro hs
      have hrole : (Cfg.denote p.1 e).role = e.role := by simp [Cfg.denote, hs]
      refine ⟨?_, ?_, ?_⟩
      · apply roleTextB_of_roleB
        rcases hv with hv | ⟨hv, _, hr0⟩
        · have e1 : t0.role = e.role := by rw [← hv, hrole]
          rw [← e1]; exact (htx.roles t0 ht0 (by rw [e1]; exact hnc)).1
        · have e1 : m.invertRole t0.role = e.role := by rw [← invert_role, ← hv, hrole]
          rw [← e1]; exact (htx.roles t0 ht0 hr0).2
      · intro a ha
        have htg : (Cfg.denote p.1 e).tgt = a := by simp [Cfg.denote, ha]
        rcases hv with hv | ⟨hv, _, _⟩
        · have : t0.tgt = a := by rw [← hv, htg]
          rw [← this]; exact atomB_written_of_tgtOK (htx.tgts t0 ht0)
        · have : a = .str t0.src := by rw [← htg, hv, invert_tgt]
          rw [this]
          exact atomTextB_of (by simp [htx.srcs t0 ht0])
      · intro w hw'
        exact hvarsym w ((E.keys w).1 (hgood.forest p hp e he w hw').2)
  intro p hp
  refine ⟨?_, hedge p hp⟩
  intro e r hes x hx hxs
  -- two node labels in one cell: impossible
  have hso := hsq p hp
  rw [hes] at hso
  have hes' : e.role = ['/'] := by
    apply Classical.byContradiction
    intro hne; exact hso.2.1 hne x hx hxs
  have hcount : 2 ≤ (placed st.cells).countP (instOf p.1) := by
    have h1 : (p.2.map (Cfg.denote p.1)).countP (instOf p.1) ≤ (placed st.cells).countP (instOf p.1) :=
      countP_le_flatMap (instOf p.1) (fun q : Str × List Edge => q.2.map (Cfg.denote q.1)) hp
    have h2 : 2 ≤ (p.2.map (Cfg.denote p.1)).countP (instOf p.1) := by
      rw [hes, List.map_cons, List.countP_cons]
      have a1 : instOf p.1 (Cfg.denote p.1 e) = true := by simp [instOf, Cfg.denote, hes']
      have a2 : 0 < (r.map (Cfg.denote p.1)).countP (instOf p.1) :=
        List.countP_pos_iff.2 ⟨Cfg.denote p.1 x, List.mem_map.2 ⟨x, hx, rfl⟩, by simp [instOf, Cfg.denote, hxs]⟩
      simp only [a1, if_true]; omega
    omega
  have hle : (placed st.cells).countP (instOf p.1) ≤ 1 := by
    rw [← E.perm.countP_eq]
    have s1 : l.countP (instOf p.1) ≤ (l.map (deinvert1 m g)).countP (instOf p.1) := by
      rw [List.countP_map]
      apply List.countP_mono_left
      intro y _ hy
      simp only [instOf, decide_eq_true_eq] at hy
      simp only [Function.comp, deinvert1_inst m g hy.2]
      simpa [instOf] using hy
    have s2 : (l.map (deinvert1 m g)).countP (instOf p.1) ≤ (g.triples.map (deinvert1 m g)).countP (instOf p.1) := by
      rw [E.same.countP_eq, List.countP_append]; omega
    have s3 : (g.triples.map (deinvert1 m g)).countP (instOf p.1) ≤ g.triples.countP (instOf p.1) := by
      rw [List.countP_map]
      apply List.countP_mono_left
      intro y hy hP
      simp only [Function.comp, instOf, decide_eq_true_eq] at hP ⊢
      unfold deinvert1 at hP
      split at hP
      · rename_i hc
        exfalso
        rw [invert_role] at hP
        by_cases hyr : y.role = CONCEPT_ROLE
        · have := deinvert1_inst m g hyr
          have hi : m.isRoleInverted y.role = false := by
            rw [hyr]; unfold Model.isRoleInverted
            have : endsWith ofStr CONCEPT_ROLE = false := by decide
            simp [this]
          rw [hi] at hc; exact absurd hc.1 (by simp)
        · exact (hg.noInstOf y hy hyr).1 hP.2
      · exact hP
    have s4 := countP_inst_le_one htx.oneLabel p.1
    omega
  omega

/-- **`configure` yields grammar-valid text**: the written form of the configured tree of an encoded
    graph is `WfTreeText` -/
theorem encoded_tree_wf {isSpace : Char → Bool} {m : Model} {g : Graph} {t : Str} {T : Tree} {st : St} {l : List Triple}
    (hg : WfGraph m g) (htx : GraphTextOK cfg isSpace m g) (htv : t ∈ g.variables) (E : Encoded m g t T st l) :
    WfTreeText cfg (writtenForm T.node) := by
  obtain ⟨t0, ht0, hs0, _⟩ := hg.labelled t htv
  exact build_wf st.cells (cells_text hg htx E) _ t T.node (by rw [← hs0]; exact htx.srcs t0 ht0) E.build

end Cfg
end Penman

/-
  Penman.Proofs.Configure4 — content preservation (J3): the triples denoted by the
  cell store are, up to order, the processed data, each kept, inverted once, or
  (null instance) dropped.
-/
import Penman.Proofs.Configure3
namespace Penman
namespace Cfg

theorem Corr.append {m : Model} {a b c d : List Triple} (h1 : Corr m a b) (h2 : Corr m c d) :
    Corr m (a ++ c) (b ++ d) := by
  induction h1 with
  | nil => simpa using h2
  | cons hs _ ih => rw [List.cons_append, List.append_assoc]; exact Corr.cons hs ih

theorem Corr.perm {m : Model} {l1 l1' : List Triple} (hp : l1.Perm l1') :
    ∀ {l}, Corr m l1 l → ∃ l', Corr m l1' l' ∧ l.Perm l' := by
  induction hp with
  | nil => intro l h; exact ⟨l, h, List.Perm.refl _⟩
  | cons x _ ih =>
    intro l h
    cases h with
    | cons hs hc =>
      obtain ⟨l', h1, h2⟩ := ih hc
      exact ⟨_, Corr.cons hs h1, List.Perm.append_left _ h2⟩
  | swap x y l0 =>
    intro l h
    cases h with
    | cons hs hc =>
      cases hc with
      | cons hs' hc' =>
        refine ⟨_, Corr.cons hs' (Corr.cons hs hc'), ?_⟩
        rw [← List.append_assoc, ← List.append_assoc]
        exact List.Perm.append_right _ List.perm_append_comm
  | trans _ _ ih1 ih2 =>
    intro l h
    obtain ⟨l', h1, h2⟩ := ih1 h
    obtain ⟨l'', h3, h4⟩ := ih2 h1
    exact ⟨l'', h3, h2.trans h4⟩

theorem Sim.nil (m : Model) : Sim m [] [] := ⟨[], Corr.nil, List.Perm.refl _⟩

theorem Sim.perm_right {m : Model} {X Y Y' : List Triple} (h : Sim m X Y) (hp : Y.Perm Y') : Sim m X Y' := by
  obtain ⟨l, h1, h2⟩ := h; exact ⟨l, h1, h2.trans hp⟩

theorem Sim.perm_left {m : Model} {X X' Y : List Triple} (h : Sim m X Y) (hp : X.Perm X') : Sim m X' Y := by
  obtain ⟨l, h1, h2⟩ := h
  obtain ⟨l', h3, h4⟩ := Corr.perm hp h1
  exact ⟨l', h3, h4.symm.trans h2⟩

theorem Sim.snoc {m : Model} {X Y : List Triple} {a : Triple} {ob : Option Triple}
    (h : Sim m X Y) (hs : Step m a ob) : Sim m (X ++ [a]) (ob.toList ++ Y) := by
  obtain ⟨l, h1, h2⟩ := h
  refine ⟨l ++ (ob.toList ++ []), Corr.append h1 (Corr.cons hs Corr.nil), ?_⟩
  simp only [List.append_nil]
  exact List.perm_append_comm.trans (List.Perm.append_left _ h2)

/-! ### `pending` -/

theorem pending_append (a b : List Datum) : pending (a ++ b) = pending a ++ pending b := by
  induction a with
  | nil => rfl
  | cons d r ih => cases d <;> simp [pending, ih]

theorem pending_stripPops (l : List Datum) : pending (stripPops l) = pending l := by
  fun_induction stripPops l
  · rename_i ih; simpa [pending] using ih
  · rfl

/-! ### `placed` under store updates -/

theorem placed_cons (k : Str) (es : List Edge) (r : Cells) :
    placed ((k, es) :: r) = es.map (denote k) ++ placed r := by simp [placed]

theorem placed_set_append (c : Cells) (v : Str) (e : Edge) :
    (placed (AList.set c v ((AList.get? c v).getD [] ++ [e]))).Perm (denote v e :: placed c) := by
  induction c with
  | nil => simp [AList.set, AList.get?, placed]
  | cons p r ih =>
    obtain ⟨k, x⟩ := p
    by_cases h : k = v
    · subst h
      simp [AList.set, AList.get?, placed_cons]
    · have hg : AList.get? ((k, x) :: r) v = AList.get? r v := by simp [AList.get?, List.find?, h]
      rw [hg]
      simp only [AList.set, h, if_false, placed_cons]
      exact (List.Perm.append_left _ ih).trans List.perm_middle

theorem placed_set_cons (c : Cells) (v : Str) (e : Edge) :
    (placed (AList.set c v (e :: (AList.get? c v).getD []))).Perm (denote v e :: placed c) := by
  induction c with
  | nil => simp [AList.set, AList.get?, placed]
  | cons p r ih =>
    obtain ⟨k, x⟩ := p
    by_cases h : k = v
    · subst h
      simp [AList.set, AList.get?, placed_cons]
    · have hg : AList.get? ((k, x) :: r) v = AList.get? r v := by simp [AList.get?, List.find?, h]
      rw [hg]
      simp only [AList.set, h, if_false, placed_cons]
      exact (List.Perm.append_left _ ih).trans List.perm_middle

theorem placed_set_same (c : Cells) (v : Str) (es : List Edge)
    (h : es.map (denote v) = ((AList.get? c v).getD []).map (denote v)) :
    placed (AList.set c v es) = placed c := by
  induction c with
  | nil =>
    simp [AList.get?] at h
    subst h
    simp [AList.set, placed]
  | cons p r ih =>
    obtain ⟨k, x⟩ := p
    by_cases hk : k = v
    · subst hk
      simp [AList.get?] at h
      simp [AList.set, placed_cons, h]
    · have hg : AList.get? ((k, x) :: r) v = AList.get? r v := by simp [AList.get?, List.find?, hk]
      rw [hg] at h
      simp only [AList.set, hk, if_false, placed_cons, ih h]

theorem establishIn_denote (u v : Str) : ∀ es : List Edge,
    (establishIn v es).map (denote u) = es.map (denote u) := by
  intro es
  induction es with
  | nil => rfl
  | cons e r ih =>
    simp only [establishIn]
    split
    · rename_i h
      simp only [List.map_cons, List.cons.injEq, and_true]
      simp [denote, h.1]
    · simp [ih]

theorem get?_none_of_not_mem {c : Cells} {v : Str} (h : v ∉ ckeys c) : AList.get? c v = none := by
  cases hg : AList.get? c v with
  | none => rfl
  | some x =>
    exfalso; apply h
    exact (get?_isSome_iff (c := c) (k := v)).1 (by simp [hg])


/-! ### the state operations on `placed` -/

theorem placed_addFront (st : St) (v : Str) (e : Edge) :
    (placed (st.addFront v e).cells).Perm (denote v e :: placed st.cells) := placed_set_cons _ _ _

theorem placed_addBack (st : St) (v : Str) (e : Edge) :
    (placed (st.addBack v e).cells).Perm (denote v e :: placed st.cells) := placed_set_append _ _ _

theorem placed_newCell {st : St} {v : Str} (hg : Good st) (hv : ¬ Own st v) :
    placed (st.newCell v).cells = placed st.cells := by
  apply placed_set_same
  rw [get?_none_of_not_mem (fun h => hv ((hg.own v).1 h))]
  rfl

theorem placed_getOrEstablish {st : St} {v : Str} (hg : Good st) :
    placed (getOrEstablish st v).2.cells = placed st.cells := by
  unfold getOrEstablish
  split
  · rfl
  · rename_i u hs
    simp only []
    have hvn : ¬ Own st v := by unfold Own; rw [hs]; simp
    have hvk : v ∉ ckeys st.cells := fun h => hvn ((hg.own v).1 h)
    have huk : u ∈ ckeys st.cells := (hg.own u).2 (hg.site v u hs)
    rw [placed_set_same, placed_set_same]
    · exact establishIn_denote u v _
    · rw [get?_none_of_not_mem (by rw [keys_set_of_mem _ huk]; exact hvk)]
      rfl
  · rfl

theorem placed_findNext : ∀ data rev st, Good st →
    placed (findNext data rev st).2.2.2.cells = placed st.cells := by
  intro data rev st
  fun_induction findNext data rev st <;> intro hg
  · rfl
  · rfl
  · rename_i ih; exact ih hg
  · rename_i tr push epis rest rev st d trySrc h1
    simp only [trySrc]; split
    · exact placed_getOrEstablish hg
    · rfl
  · rename_i tr push epis rest rev st d trySrc h1 tv htv tryTgt h2
    have hT : Good trySrc.2 ∧ placed trySrc.2.cells = placed st.cells := by
      simp only [trySrc]; split
      · exact ⟨(good_getOrEstablish hg).1, placed_getOrEstablish hg⟩
      · exact ⟨hg, rfl⟩
    have hU : placed tryTgt.2.cells = placed trySrc.2.cells := by
      simp only [tryTgt]; split
      · exact placed_getOrEstablish hT.1
      · rfl
    exact hU.trans hT.2
  · rename_i tr push epis rest rev st d trySrc h1 tv htv tryTgt h2 ih
    have hT : Good trySrc.2 ∧ placed trySrc.2.cells = placed st.cells := by
      simp only [trySrc]; split
      · exact ⟨(good_getOrEstablish hg).1, placed_getOrEstablish hg⟩
      · exact ⟨hg, rfl⟩
    have hU : Good tryTgt.2 ∧ placed tryTgt.2.cells = placed trySrc.2.cells := by
      simp only [tryTgt]; split
      · exact ⟨(good_getOrEstablish hT.1).1, placed_getOrEstablish hT.1⟩
      · exact ⟨hT.1, rfl⟩
    exact (ih hU.1).trans (hU.2.trans hT.2)
  · rename_i tr push epis rest rev st d trySrc h1 hnt ih
    have hT : Good trySrc.2 ∧ placed trySrc.2.cells = placed st.cells := by
      simp only [trySrc]; split
      · exact ⟨(good_getOrEstablish hg).1, placed_getOrEstablish hg⟩
      · exact ⟨hg, rfl⟩
    exact (ih hT.1).trans hT.2

/-! ### one datum -/

/-- roles for which `/` ↔ `:instance` read-back is unambiguous -/
def RoleOK (m : Model) (tr : Triple) : Prop := tr.role ≠ ['/'] ∧ m.invertRole tr.role ≠ ['/']

theorem orient_spec {m : Model} {var : Str} {tr : Triple} {push s : Bool} {role : Str} {target : Atom}
    {push' s' : Bool} (h : orient m var tr push s = some (role, target, push', s')) (hr : RoleOK m tr) :
    role ≠ ['/'] ∧ ((⟨var, role, target⟩ : Triple) = tr ∨
      (∃ v, tr.tgt = .str v ∧ tr.role ≠ CONCEPT_ROLE ∧ (⟨var, role, target⟩ : Triple) = m.invert tr)) := by
  unfold orient at h
  split at h
  · rename_i h1
    simp only [Option.some.injEq, Prod.mk.injEq] at h
    obtain ⟨rfl, rfl, _, _⟩ := h
    exact ⟨hr.1, Or.inl (by rw [← h1])⟩
  · split at h
    · rename_i h2
      simp only [Option.some.injEq, Prod.mk.injEq] at h
      obtain ⟨rfl, rfl, _, _⟩ := h
      have hi : m.invert tr = ⟨var, m.invertRole tr.role, .str tr.src⟩ := by
        unfold Model.invert; rw [h2.1]
      refine ⟨by rw [hi]; exact hr.2, Or.inr ⟨var, h2.1, h2.2, ?_⟩⟩
      rw [hi]
    · simp at h

theorem step_some {m : Model} {tr o : Triple}
    (h : o = tr ∨ (∃ v, tr.tgt = .str v ∧ tr.role ≠ CONCEPT_ROLE ∧ o = m.invert tr)) (hn : ¬ NullInst o) :
    Step m tr (some o) := by
  rcases h with rfl | ⟨v, h1, h2, rfl⟩
  · exact Step.keep _ hn
  · exact Step.inv _ v h1 h2 hn

theorem step_none {m : Model} {tr o : Triple}
    (h : o = tr ∨ (∃ v, tr.tgt = .str v ∧ tr.role ≠ CONCEPT_ROLE ∧ o = m.invert tr)) (hn : NullInst o) :
    Step m tr none := by
  rcases h with rfl | ⟨v, h1, h2, rfl⟩
  · exact Step.drop _ hn
  · exact Step.dropInv _ v h1 h2 hn

theorem Sim.place {m : Model} {X P P' : List Triple} {a o : Triple} (h : Sim m X P)
    (hs : Step m a (some o)) (hp : P'.Perm (o :: P)) : Sim m (X ++ [a]) P' :=
  (h.snoc hs).perm_right (by simpa using hp.symm)

/-- J3 for `configureNode`: the consumed prefix `c` of the data is what the store gains -/
theorem cn_content (m : Model) : ∀ f var data st s, Good st → Own st var →
    (∀ tr ∈ pending data, RoleOK m tr) →
    ∃ c, data = c ++ (configureNode m f var data st s).1 ∧
      ∀ X, Sim m X (placed st.cells) →
        Sim m (X ++ pending c) (placed (configureNode m f var data st s).2.1.cells) := by
  intro f
  induction f with
  | zero => intro var data st s _ _ _; exact ⟨[], rfl, fun X h => by simpa [pending, configureNode] using h⟩
  | succ f ih =>
    intro var data st s hg hv hr
    cases data with
    | nil => exact ⟨[], rfl, fun X h => by simpa [pending, configureNode] using h⟩
    | cons d data =>
      cases d with
      | pop => exact ⟨[.pop], rfl, fun X h => by simpa [pending, configureNode] using h⟩
      | t tr push epis =>
        have hr' : ∀ tr ∈ pending data, RoleOK m tr := fun t ht => hr t (by simp [pending, ht])
        have hrt : RoleOK m tr := hr tr (by simp [pending])
        simp only [configureNode]
        split
        · exact ⟨[], rfl, fun X h => by simpa [pending, configureNode] using h⟩
        · rename_i role target push' s' hor
          obtain ⟨hslash, hO⟩ := orient_spec hor hrt
          split
          · rename_i hcr
            split
            · rename_i hmiss
              obtain ⟨c, hc, hX⟩ := ih var data st s' hg hv hr'
              refine ⟨.t tr push epis :: c, by rw [List.cons_append, ← hc], ?_⟩
              intro X h
              have hs : Step m tr none := step_none hO ⟨hcr, hmiss⟩
              have := hX (X ++ [tr]) (by simpa using h.snoc hs)
              simpa [pending, List.append_assoc] using this
            · rename_i hmiss
              obtain ⟨g1, e1⟩ := good_addFront_atom (e := ⟨['/'], .atom target, epis⟩) hg hv (by intro w; simp)
              obtain ⟨c, hc, hX⟩ := ih var data _ s' g1 (own_mono hg g1 e1 hv) hr'
              refine ⟨.t tr push epis :: c, by rw [List.cons_append, ← hc], ?_⟩
              intro X h
              have hden : denote var ⟨['/'], .atom target, epis⟩ = ⟨var, role, target⟩ := by
                simp [denote, hcr]
              have hs : Step m tr (some ⟨var, role, target⟩) := step_some hO (fun hn => hmiss hn.2)
              have h1 : Sim m (X ++ [tr]) (placed (st.addFront var ⟨['/'], .atom target, epis⟩).cells) :=
                h.place hs (by rw [← hden]; exact placed_addFront st var _)
              have := hX (X ++ [tr]) h1
              simpa [pending, List.append_assoc] using this
          · rename_i hncr
            have hnn : ¬ NullInst ⟨var, role, target⟩ := fun hn => hncr hn.1
            have hs : Step m tr (some ⟨var, role, target⟩) := step_some hO hnn
            split
            · rename_i v hp
              obtain ⟨htgt, hnv⟩ := pushVar_some hp
              obtain ⟨g1, k1, o1⟩ := good_newCell hg hnv
              have e1 : Ext st (st.newCell v) := by unfold Ext; rw [k1]; exact List.prefix_append _ _
              obtain ⟨g2, e2⟩ := good_cn m f v data (st.newCell v) false g1 o1
              have hv2 : Own (configureNode m f v data (st.newCell v) false).2.1 var :=
                own_mono g1 g2 e2 (own_mono hg g1 e1 hv)
              obtain ⟨c1, hc1, hX1⟩ := ih v data (st.newCell v) false g1 o1 hr'
              -- the continuation
              have hvk : var ∈ ckeys st.cells := (hg.own var).2 hv
              have hvn : v ∉ ckeys st.cells := fun h => hnv ((hg.own v).1 h)
              have hidx : (ckeys (st.newCell v).cells).idxOf var < (ckeys (st.newCell v).cells).idxOf v := by
                rw [k1]
                simp only [List.idxOf_append, hvk, hvn, if_true, if_false]
                have := List.idxOf_lt_length_of_mem hvk
                omega
              have hm1 : var ∈ ckeys (st.newCell v).cells := List.IsPrefix.mem hvk e1
              have hm2 : v ∈ ckeys (st.newCell v).cells := by rw [k1]; simp
              have hidx2 : (ckeys (configureNode m f v data (st.newCell v) false).2.1.cells).idxOf var <
                  (ckeys (configureNode m f v data (st.newCell v) false).2.1.cells).idxOf v := by
                rw [idxOf_prefix e2 hm1, idxOf_prefix e2 hm2]; exact hidx
              obtain ⟨g3, e3⟩ := good_addBack_node (role := role) (epis := epis) g2 hv2 hidx2 (List.IsPrefix.mem hm2 e2)
              have hr2 : ∀ tr ∈ pending (configureNode m f v data (st.newCell v) false).1, RoleOK m tr := by
                intro t ht; apply hr'
                rw [hc1, pending_append]; exact List.mem_append_right _ ht
              obtain ⟨c2, hc2, hX2⟩ := ih var _ _ (s' && (configureNode m f v data (st.newCell v) false).2.2) g3
                (own_mono g2 g3 e3 hv2) hr2
              refine ⟨.t tr push epis :: (c1 ++ c2), ?_, ?_⟩
              · rw [List.cons_append, List.append_assoc, ← hc2, ← hc1]
              · intro X h
                have hden : denote var ⟨role, .node v, epis⟩ = ⟨var, role, target⟩ := by
                  simp [denote, hslash, htgt]
                -- first the child (its cell is new and empty), then the edge to it
                have h0 : Sim m X (placed (st.newCell v).cells) := by rw [placed_newCell hg hnv]; exact h
                have h1 := hX1 X h0
                have h2 : Sim m (X ++ pending c1 ++ [tr])
                    (placed ((configureNode m f v data (st.newCell v) false).2.1.addBack var ⟨role, .node v, epis⟩).cells) :=
                  h1.place hs (by rw [← hden]; exact placed_addBack _ var _)
                have h3 := hX2 _ h2
                refine h3.perm_left ?_
                simp only [pending, pending_append, List.append_assoc]
                refine List.Perm.append_left _ ?_
                rw [← List.append_assoc, ← List.cons_append]
                refine List.Perm.append_right _ ?_
                exact List.perm_append_comm
            · obtain ⟨g1, e1⟩ := good_noteSite (t := target) hg hv
              have hv1 := own_mono hg g1 e1 hv
              obtain ⟨g2, e2⟩ := good_addBack_atom (e := ⟨role, .atom target, epis⟩) g1 hv1 (by intro w; simp)
              obtain ⟨c, hc, hX⟩ := ih var data _ s' g2 (own_mono g1 g2 e2 hv1) hr'
              refine ⟨.t tr push epis :: c, by rw [List.cons_append, ← hc], ?_⟩
              intro X h
              have hden : denote var ⟨role, .atom target, epis⟩ = ⟨var, role, target⟩ := by
                simp [denote, hslash]
              have h0 : Sim m X (placed (st.noteSite var target).cells) := by rw [cells_noteSite]; exact h
              have h1 : Sim m (X ++ [tr])
                  (placed ((st.noteSite var target).addBack var ⟨role, .atom target, epis⟩).cells) :=
                h0.place hs (by rw [← hden]; exact placed_addBack _ var _)
              have := hX (X ++ [tr]) h1
              simpa [pending, List.append_assoc] using this

end Cfg

/-
  Penman.Proofs.InterpReach — in a graph produced by `interpret` from a
  tree whose root has a variable, every source of a triple is `Reach`-able
  from the top, provided no nested-node branch carries (after role
  processing, de-inversion and `ensureColon`) the instance role
  (`SubRolesOk`). The counterexamples at the end show the hypothesis is
  necessary.
-/
import Penman.Spec.Reach
namespace Penman

/-! ### the hypothesis -/

/-- the role of `m.deinvert ⟨s, r, .str w⟩` -/
def deinvRole (m : Model) (r : Str) : Str :=
  if m.noop then r else if m.isRoleInverted r then m.invertRole r else r

/-- the role check for one nested-node branch -/
def subRoleOk (isAlpha : Char → Bool) (m : Model) (role : Str) : Bool :=
  match processRole isAlpha role with
  | .ok (r, _) => ensureColon (deinvRole m r) != CONCEPT_ROLE
  | .error _ => true

mutual
/-- every nested-node branch of the tree has a role that does not end up as
    the instance role in the interpreted graph -/
def SubRolesOk (isAlpha : Char → Bool) (m : Model) : Node → Bool
  | .mk _ bs => SubRolesOkB isAlpha m bs
def SubRolesOkB (isAlpha : Char → Bool) (m : Model) : Branches → Bool
  | .nil => true
  | .atom _ _ rest => SubRolesOkB isAlpha m rest
  | .sub role n rest =>
    subRoleOk isAlpha m role && SubRolesOk isAlpha m n && SubRolesOkB isAlpha m rest
end

/-! ### `deinvert` on a triple with a string target -/

theorem deinvert_role (m : Model) (s r w : Str) :
    (m.deinvert ⟨s, r, .str w⟩).role = deinvRole m r := by
  unfold Model.deinvert deinvRole Model.invert
  by_cases h1 : m.noop = true <;> by_cases h2 : m.isRoleInverted r = true <;> simp [h1, h2]

theorem deinvert_ends (m : Model) (s r w : Str) :
    ((m.deinvert ⟨s, r, .str w⟩).src = s ∧ (m.deinvert ⟨s, r, .str w⟩).tgt = .str w) ∨
    ((m.deinvert ⟨s, r, .str w⟩).src = w ∧ (m.deinvert ⟨s, r, .str w⟩).tgt = .str s) := by
  unfold Model.deinvert Model.invert
  by_cases h1 : m.noop = true <;> by_cases h2 : m.isRoleInverted r = true <;> simp [h1, h2]

theorem isRoleInverted_concept (m : Model) : m.isRoleInverted CONCEPT_ROLE = false := by
  have : endsWith ofStr CONCEPT_ROLE = false := by decide
  simp [Model.isRoleInverted, this]

/-! ### `Reach` helpers -/

/-- the triple as stored by `Graph.mk'` -/
def fixRole (t : Triple) : Triple := { t with role := ensureColon t.role }

theorem Reach.trans {g : Graph} {a b c : Str} (h1 : Reach g a b) (h2 : Reach g b c) :
    Reach g a c := by
  induction h2 with
  | refl => exact h1
  | step _ hadj ih => exact Reach.step ih hadj

/-! ### inversion lemmas for `interpretNode` / `interpretBranches` -/

theorem interpretNode_ok {isAlpha : Char → Bool} {m : Model} {vars : List Str}
    {v : Option Str} {bs : Branches} {ts : List Triple} {eps : List (Triple × List Epi)}
    (h : interpretNode isAlpha m vars (.mk v bs) = .ok (ts, eps)) :
    ∃ var out, v = some var ∧ interpretBranches isAlpha m vars var bs = .ok out ∧
      ts = (if out.hasConcept then out.triples else ⟨var, CONCEPT_ROLE, .none⟩ :: out.triples) := by
  unfold interpretNode at h
  cases v with
  | none => simp at h
  | some var =>
    simp only [bind, Except.bind] at h
    cases hb : interpretBranches isAlpha m vars var bs with
    | error e => simp [hb] at h
    | ok out =>
      refine ⟨var, out, rfl, hb, ?_⟩
      simp only [hb] at h
      by_cases hc : out.hasConcept = true
      · simp [hc, pure, Except.pure] at h
        simp [hc, h.1]
      · simp [hc, pure, Except.pure] at h
        simp [hc, h.1]

theorem interpretBranches_atom_ok {isAlpha : Char → Bool} {m : Model} {vars : List Str}
    {var role : Str} {a : Atom} {rest : Branches} {out : InterpOut}
    (h : interpretBranches isAlpha m vars var (.atom role a rest) = .ok out) :
    ∃ r re tgt te out', processRole isAlpha role = .ok (r, re) ∧
      processAtomic isAlpha a = .ok (tgt, te) ∧
      interpretBranches isAlpha m vars var rest = .ok out' ∧
      out.hasConcept = (out'.hasConcept || decide (r = CONCEPT_ROLE)) ∧
      out.triples = (if m.isRoleInverted r && atomInVars vars tgt then m.deinvert ⟨var, r, tgt⟩
                     else ⟨var, r, tgt⟩) :: out'.triples := by
  unfold interpretBranches at h
  simp only [bind, Except.bind] at h
  cases hr : processRole isAlpha role with
  | error e => simp [hr] at h
  | ok p =>
    obtain ⟨r, re⟩ := p
    simp only [hr] at h
    cases ha : processAtomic isAlpha a with
    | error e => simp [ha] at h
    | ok q =>
      obtain ⟨tgt, te⟩ := q
      simp only [ha] at h
      cases hb : interpretBranches isAlpha m vars var rest with
      | error e => simp [hb] at h
      | ok out' =>
        simp only [hb, pure, Except.pure] at h
        refine ⟨r, re, tgt, te, out', rfl, rfl, rfl, ?_, ?_⟩
        · cases h; rfl
        · cases h; rfl

theorem interpretBranches_sub_ok {isAlpha : Char → Bool} {m : Model} {vars : List Str}
    {var role : Str} {n : Node} {rest : Branches} {out : InterpOut}
    (h : interpretBranches isAlpha m vars var (.sub role n rest) = .ok out) :
    ∃ r re nv nts neps out', processRole isAlpha role = .ok (r, re) ∧
      n.var = some nv ∧
      interpretNode isAlpha m vars n = .ok (nts, neps) ∧
      interpretBranches isAlpha m vars var rest = .ok out' ∧
      out.hasConcept = (out'.hasConcept || decide (r = CONCEPT_ROLE)) ∧
      out.triples = m.deinvert ⟨var, r, .str nv⟩ :: nts ++ out'.triples := by
  unfold interpretBranches at h
  simp only [bind, Except.bind] at h
  cases hr : processRole isAlpha role with
  | error e => simp [hr] at h
  | ok p =>
    obtain ⟨r, re⟩ := p
    simp only [hr] at h
    cases hv : n.var with
    | none => simp [hv, throw, throwThe, MonadExceptOf.throw] at h
    | some nv =>
      simp only [hv] at h
      cases hn : interpretNode isAlpha m vars n with
      | error e => simp [hn] at h
      | ok q =>
        obtain ⟨nts, neps⟩ := q
        simp only [hn] at h
        cases hb : interpretBranches isAlpha m vars var rest with
        | error e => simp [hb] at h
        | ok out' =>
          simp only [hb, pure, Except.pure] at h
          refine ⟨r, re, nv, nts, neps, out', rfl, rfl, rfl, rfl, ?_, ?_⟩
          · cases h; rfl
          · cases h; rfl


/-! ### tree variables -/

theorem Node.vars_mk_some (v : Str) (bs : Branches) :
    (Node.mk (some v) bs).vars = v :: bs.nodes.map (·.1) := by
  simp [Node.vars, Node.nodes]

theorem Branches.nodes_sub_vars (role : Str) (n : Node) (rest : Branches) :
    (Branches.sub role n rest).nodes.map (·.1) = n.vars ++ rest.nodes.map (·.1) := by
  simp [Node.vars, Branches.nodes]

theorem Branches.nodes_atom_vars (role : Str) (a : Atom) (rest : Branches) :
    (Branches.atom role a rest).nodes.map (·.1) = rest.nodes.map (·.1) := by
  simp [Branches.nodes]

/-! ### every source of an interpreted triple is a variable of the tree -/

theorem atom_triple_src {m : Model} {vars : List Str} {var r : Str} {tgt : Atom}
    (hvar : var ∈ vars) :
    (if m.isRoleInverted r && atomInVars vars tgt then m.deinvert ⟨var, r, tgt⟩
      else ⟨var, r, tgt⟩ : Triple).src ∈ vars := by
  split
  · rename_i hc
    simp only [Bool.and_eq_true] at hc
    cases tgt with
    | str s =>
      have hs : s ∈ vars := by simpa [atomInVars] using hc.2
      rcases deinvert_ends m var r s with h | h
      · rw [h.1]; exact hvar
      · rw [h.1]; exact hs
    | none => simp [atomInVars] at hc
    | num _ => simp [atomInVars] at hc
  · exact hvar

mutual
theorem interpretNode_src_vars (isAlpha : Char → Bool) (m : Model) (vars : List Str) :
    ∀ (n : Node) (ts : List Triple) (eps : List (Triple × List Epi)),
      interpretNode isAlpha m vars n = .ok (ts, eps) → (∀ w ∈ n.vars, w ∈ vars) →
      ∀ t ∈ ts, t.src ∈ vars
  | .mk v bs, ts, eps, h, hv, t, ht => by
    obtain ⟨var, out, rfl, hb, rfl⟩ := interpretNode_ok h
    rw [Node.vars_mk_some] at hv
    have hvar : var ∈ vars := hv var (by simp)
    have ih := interpretBranches_src_vars isAlpha m vars bs var out hb hvar
      (fun w hw => hv w (List.mem_cons_of_mem _ hw))
    split at ht
    · exact ih t ht
    · rcases List.mem_cons.1 ht with rfl | ht
      · exact hvar
      · exact ih t ht
theorem interpretBranches_src_vars (isAlpha : Char → Bool) (m : Model) (vars : List Str) :
    ∀ (bs : Branches) (var : Str) (out : InterpOut),
      interpretBranches isAlpha m vars var bs = .ok out → var ∈ vars →
      (∀ w ∈ bs.nodes.map (·.1), w ∈ vars) → ∀ t ∈ out.triples, t.src ∈ vars
  | .nil, var, out, h, hvar, hv, t, ht => by
    unfold interpretBranches at h
    cases h
    simp at ht
  | .atom role a rest, var, out, h, hvar, hv, t, ht => by
    obtain ⟨r, re, tgt, te, out', -, -, hb, -, hts⟩ := interpretBranches_atom_ok h
    rw [Branches.nodes_atom_vars] at hv
    have ih := interpretBranches_src_vars isAlpha m vars rest var out' hb hvar hv
    rw [hts] at ht
    rcases List.mem_cons.1 ht with rfl | ht
    · exact atom_triple_src hvar
    · exact ih t ht
  | .sub role n rest, var, out, h, hvar, hv, t, ht => by
    obtain ⟨r, re, nv, nts, neps, out', -, hnv, hn, hb, -, hts⟩ := interpretBranches_sub_ok h
    rw [Branches.nodes_sub_vars] at hv
    have ih1 := interpretNode_src_vars isAlpha m vars n nts neps hn
      (fun w hw => hv w (List.mem_append_left _ hw))
    have ih2 := interpretBranches_src_vars isAlpha m vars rest var out' hb hvar
      (fun w hw => hv w (List.mem_append_right _ hw))
    have hnvv : nv ∈ vars := by
      apply hv; apply List.mem_append_left
      cases n with
      | mk v bs => simp only [Node.var] at hnv; subst hnv; simp [Node.vars_mk_some]
    rw [hts] at ht
    rcases List.mem_cons.1 ht with rfl | ht
    · rcases deinvert_ends m var r nv with h | h
      · rw [h.1]; exact hvar
      · rw [h.1]; exact hnvv
    · rcases List.mem_append.1 ht with ht | ht
      · exact ih1 t ht
      · exact ih2 t ht
end


/-! ### every variable of the tree is connected to the root variable -/

theorem deinvRole_concept (m : Model) : deinvRole m CONCEPT_ROLE = CONCEPT_ROLE := by
  simp [deinvRole, isRoleInverted_concept]

theorem subRoleOk_ne {isAlpha : Char → Bool} {m : Model} {role r : Str} {re : List Epi}
    (hr : processRole isAlpha role = .ok (r, re)) (hok : subRoleOk isAlpha m role = true) :
    ensureColon (deinvRole m r) ≠ CONCEPT_ROLE := by
  simpa [subRoleOk, hr] using hok

theorem subRoleOk_ne_concept {isAlpha : Char → Bool} {m : Model} {role r : Str} {re : List Epi}
    (hr : processRole isAlpha role = .ok (r, re)) (hok : subRoleOk isAlpha m role = true) :
    r ≠ CONCEPT_ROLE := by
  intro h
  subst h
  have := subRoleOk_ne hr hok
  rw [deinvRole_concept] at this
  exact this (by decide)

/-- the nested-node triple is an (undirected) edge between the two variables -/
theorem sub_adj {m : Model} {g : Graph} {var r nv : Str}
    (hne : ensureColon (deinvRole m r) ≠ CONCEPT_ROLE)
    (hmem : fixRole (m.deinvert ⟨var, r, .str nv⟩) ∈ g.triples)
    (h1 : g.IsSrc var) (h2 : g.IsSrc nv) : g.Adj var nv := by
  refine ⟨h1, h2, _, hmem, ?_, ?_⟩
  · show ensureColon (m.deinvert ⟨var, r, .str nv⟩).role ≠ CONCEPT_ROLE
    rw [deinvert_role]; exact hne
  · exact deinvert_ends m var r nv

mutual
theorem interpretNode_reach (isAlpha : Char → Bool) (m : Model) (vars : List Str) :
    ∀ (n : Node) (ts : List Triple) (eps : List (Triple × List Epi)),
      interpretNode isAlpha m vars n = .ok (ts, eps) → SubRolesOk isAlpha m n = true →
      ∃ v, n.var = some v ∧ (∃ t ∈ ts, t.src = v) ∧
        ∀ g : Graph, (∀ t ∈ ts, fixRole t ∈ g.triples) → ∀ w ∈ n.vars, Reach g v w
  | .mk v bs, ts, eps, h, hok => by
    obtain ⟨var, out, rfl, hb, rfl⟩ := interpretNode_ok h
    have hok' : SubRolesOkB isAlpha m bs = true := by simpa [SubRolesOk] using hok
    obtain ⟨ih1, ih2⟩ := interpretBranches_reach isAlpha m vars bs var out hb hok'
    have hsrc : ∃ t ∈ (if out.hasConcept then out.triples
        else ⟨var, CONCEPT_ROLE, .none⟩ :: out.triples), t.src = var := by
      split
      · rename_i hc; exact ih1 hc
      · exact ⟨_, List.mem_cons_self, rfl⟩
    refine ⟨var, rfl, hsrc, ?_⟩
    intro g hg w hw
    rw [Node.vars_mk_some] at hw
    rcases List.mem_cons.1 hw with rfl | hw
    · exact Reach.refl
    · apply ih2 g ?_ ?_ w hw
      · intro t ht
        apply hg
        split
        · exact ht
        · exact List.mem_cons_of_mem _ ht
      · obtain ⟨t, ht, hs⟩ := hsrc
        exact ⟨fixRole t, hg t ht, hs⟩
theorem interpretBranches_reach (isAlpha : Char → Bool) (m : Model) (vars : List Str) :
    ∀ (bs : Branches) (var : Str) (out : InterpOut),
      interpretBranches isAlpha m vars var bs = .ok out → SubRolesOkB isAlpha m bs = true →
      (out.hasConcept = true → ∃ t ∈ out.triples, t.src = var) ∧
      ∀ g : Graph, (∀ t ∈ out.triples, fixRole t ∈ g.triples) → g.IsSrc var →
        ∀ w ∈ bs.nodes.map (·.1), Reach g var w
  | .nil, var, out, h, hok => by
    unfold interpretBranches at h
    cases h
    simp [Branches.nodes]
  | .atom role a rest, var, out, h, hok => by
    obtain ⟨r, re, tgt, te, out', -, -, hb, hhc, hts⟩ := interpretBranches_atom_ok h
    have hok' : SubRolesOkB isAlpha m rest = true := by simpa [SubRolesOkB] using hok
    obtain ⟨ih1, ih2⟩ := interpretBranches_reach isAlpha m vars rest var out' hb hok'
    refine ⟨?_, ?_⟩
    · intro hc
      rw [hhc, Bool.or_eq_true] at hc
      rw [hts]
      rcases hc with hc | hc
      · obtain ⟨t, ht, hs⟩ := ih1 hc
        exact ⟨t, List.mem_cons_of_mem _ ht, hs⟩
      · have hr : r = CONCEPT_ROLE := by simpa using hc
        subst hr
        refine ⟨_, List.mem_cons_self, ?_⟩
        simp [isRoleInverted_concept]
    · intro g hg hsrc w hw
      rw [Branches.nodes_atom_vars] at hw
      apply ih2 g ?_ hsrc w hw
      intro t ht
      apply hg
      rw [hts]
      exact List.mem_cons_of_mem _ ht
  | .sub role n rest, var, out, h, hok => by
    obtain ⟨r, re, nv, nts, neps, out', hr, hnv, hn, hb, hhc, hts⟩ := interpretBranches_sub_ok h
    simp only [SubRolesOkB, Bool.and_eq_true] at hok
    obtain ⟨⟨hok0, hok1⟩, hok2⟩ := hok
    obtain ⟨nv', hnv', hnsrc, ihn⟩ := interpretNode_reach isAlpha m vars n nts neps hn hok1
    obtain ⟨ih1, ih2⟩ := interpretBranches_reach isAlpha m vars rest var out' hb hok2
    have : nv' = nv := by rw [hnv] at hnv'; exact (Option.some.inj hnv').symm
    subst this
    refine ⟨?_, ?_⟩
    · intro hc
      rw [hhc, Bool.or_eq_true] at hc
      rw [hts]
      rcases hc with hc | hc
      · obtain ⟨t, ht, hs⟩ := ih1 hc
        exact ⟨t, List.mem_cons_of_mem _ (List.mem_append_right _ ht), hs⟩
      · have hr' : r = CONCEPT_ROLE := by simpa using hc
        exact absurd hr' (subRoleOk_ne_concept hr hok0)
    · intro g hg hsrc w hw
      rw [hts] at hg
      rw [Branches.nodes_sub_vars] at hw
      rcases List.mem_append.1 hw with hw | hw
      · have hg' : ∀ t ∈ nts, fixRole t ∈ g.triples := fun t ht =>
          hg t (List.mem_cons_of_mem _ (List.mem_append_left _ ht))
        have hnvsrc : g.IsSrc nv' := by
          obtain ⟨t, ht, hs⟩ := hnsrc
          exact ⟨fixRole t, hg' t ht, hs⟩
        have hadj : g.Adj var nv' :=
          sub_adj (subRoleOk_ne hr hok0) (hg _ List.mem_cons_self) hsrc hnvsrc
        exact Reach.trans (Reach.step Reach.refl hadj) (ihn g hg' w hw)
      · apply ih2 g ?_ hsrc w hw
        intro t ht
        exact hg t (List.mem_cons_of_mem _ (List.mem_append_right _ ht))
end

/-! ### the main theorem -/

theorem interpret_all_reach (isAlpha : Char → Bool) (m : Model) (t : Tree) (g : Graph) (top : Str)
    (h : interpret isAlpha m t = .ok g) (hv : t.node.var = some top)
    (hok : SubRolesOk isAlpha m t.node = true) :
    g.getTop = some top ∧ g.IsSrc top ∧ ∀ v, g.IsSrc v → Reach g top v := by
  unfold interpret at h
  simp only [bind, Except.bind] at h
  cases hn : interpretNode isAlpha m t.node.vars t.node with
  | error e => simp [hn] at h
  | ok p =>
    obtain ⟨ts, eps⟩ := p
    simp only [hn, pure, Except.pure] at h
    cases h
    obtain ⟨v, hv', ⟨t0, ht0, hs0⟩, hreach⟩ :=
      interpretNode_reach isAlpha m t.node.vars t.node ts eps hn hok
    have : v = top := by rw [hv] at hv'; exact (Option.some.inj hv').symm
    subst this
    have hmem : ∀ t' ∈ ts, fixRole t' ∈
        (Graph.mk' ts t.node.var (epimapOf eps) t.metadata).triples := by
      intro t' ht'
      exact List.mem_map.2 ⟨t', ht', rfl⟩
    refine ⟨?_, ⟨fixRole t0, hmem t0 ht0, hs0⟩, ?_⟩
    · simp [Graph.getTop, Graph.mk', hv]
    · rintro w ⟨t', ht', hs'⟩
      obtain ⟨t1, ht1, rfl⟩ := List.mem_map.1 ht'
      have hw : t1.src ∈ t.node.vars :=
        interpretNode_src_vars isAlpha m t.node.vars t.node ts eps hn (fun _ h => h) t1 ht1
      have : w = t1.src := hs'.symm
      subst this
      exact hreach _ hmem _ hw


/-! ### the hypothesis `SubRolesOk` is necessary: counterexamples

  In each tree below a nested-node branch ends up as an `:instance`
  triple of the graph, which is not an edge, so the nested variable `b` is
  not connected to the top `a`; `Model.errors` reports it as unreachable. -/

/-- no edge at all: nothing but the start is reachable -/
theorem Reach.eq_of_all_instance {g : Graph} (hall : ∀ t ∈ g.triples, t.role = CONCEPT_ROLE)
    {top v : Str} (h : Reach g top v) : v = top := by
  induction h with
  | refl => rfl
  | step _ hadj _ =>
    obtain ⟨_, _, t, ht, hne, _⟩ := hadj
    exact absurd (hall t ht) hne

namespace InterpReach

/-- the default model and an `isalpha` table that is never consulted here -/
def m0 : Model := {}
def noAlpha : Char → Bool := fun _ => false

/-- what a counterexample tree `n` (root variable `a`, nested variable `b`
    with instance triple `k`) must satisfy -/
def cexCheck (n : Node) (k : Triple) : Bool :=
  match interpret noAlpha m0 ⟨n, []⟩ with
  | .ok g =>
    n.var == some "a".toList && k.src == "b".toList && k ∈ g.triples &&
    !SubRolesOk noAlpha m0 n &&
    decide (E_UNREACH ∈ codes (m0.errors g) (some k)) &&
    g.triples.all (fun t => t.role == CONCEPT_ROLE)
  | .error _ => false

/-- a tree passing `cexCheck` violates the conclusion of `interpret_all_reach` -/
theorem cexCheck_sound {n : Node} {k : Triple} (hc : cexCheck n k = true) :
    ∃ g, interpret noAlpha m0 ⟨n, []⟩ = .ok g ∧ n.var = some "a".toList ∧
      SubRolesOk noAlpha m0 n = false ∧
      E_UNREACH ∈ codes (m0.errors g) (some k) ∧
      g.IsSrc "b".toList ∧ ¬ Reach g "a".toList "b".toList := by
  unfold cexCheck at hc
  cases hg : interpret noAlpha m0 ⟨n, []⟩ with
  | error e => simp [hg] at hc
  | ok g =>
    simp only [hg, Bool.and_eq_true, beq_iff_eq, decide_eq_true_eq, Bool.not_eq_true',
      List.all_eq_true] at hc
    obtain ⟨⟨⟨⟨⟨h1, h2⟩, h3⟩, h4⟩, h5⟩, h6⟩ := hc
    refine ⟨g, rfl, h1, h4, h5, ⟨k, h3, h2⟩, ?_⟩
    intro hr
    have := Reach.eq_of_all_instance h6 hr
    exact absurd this (by decide)

/-- the tree of `(b / x)` -/
def cexB : Node := .mk (some "b".toList) (.atom "/".toList (.str "x".toList) .nil)

/-- `(a :instance (b / x))` : the nested branch carries the instance role -/
theorem cex_instance : cexCheck (.mk (some "a".toList) (.sub ":instance".toList cexB .nil))
    ⟨"b".toList, CONCEPT_ROLE, .str "x".toList⟩ = true := by decide +kernel

/-- `(a / (b / x))` as a tree: role `/` on a nested node -/
theorem cex_slash : cexCheck (.mk (some "a".toList) (.sub "/".toList cexB .nil))
    ⟨"b".toList, CONCEPT_ROLE, .str "x".toList⟩ = true := by decide +kernel

/-- `(a :instance-of (b / x))` : de-inversion gives `(b :instance a)` -/
theorem cex_instance_of : cexCheck (.mk (some "a".toList) (.sub ":instance-of".toList cexB .nil))
    ⟨"b".toList, CONCEPT_ROLE, .str "x".toList⟩ = true := by decide +kernel

/-- role `instance` without colon: `Graph.mk'` turns it into `:instance` -/
theorem cex_nocolon : cexCheck (.mk (some "a".toList) (.sub "instance".toList cexB .nil))
    ⟨"b".toList, CONCEPT_ROLE, .str "x".toList⟩ = true := by decide +kernel

/-! ### non-vacuity: `(a / alpha :ARG0 (b / beta :ARG1-of (c / gamma)))` -/

def exTree : Tree :=
  ⟨.mk (some "a".toList) (.atom "/".toList (.str "alpha".toList)
      (.sub ":ARG0".toList (.mk (some "b".toList) (.atom "/".toList (.str "beta".toList)
        (.sub ":ARG1-of".toList (.mk (some "c".toList)
          (.atom "/".toList (.str "gamma".toList) .nil)) .nil))) .nil)), []⟩

example : SubRolesOk noAlpha m0 exTree.node = true ∧
    exTree.node.var = some "a".toList ∧
    ((interpret noAlpha m0 exTree).toOption.map (·.triples)) =
      some [⟨"a".toList, ":instance".toList, .str "alpha".toList⟩,
            ⟨"a".toList, ":ARG0".toList, .str "b".toList⟩,
            ⟨"b".toList, ":instance".toList, .str "beta".toList⟩,
            ⟨"c".toList, ":ARG1".toList, .str "b".toList⟩,
            ⟨"c".toList, ":instance".toList, .str "gamma".toList⟩] := by decide +kernel

/-- the theorem applies to `exTree` -/
example : ∃ g, interpret noAlpha m0 exTree = .ok g ∧ g.getTop = some "a".toList ∧
    g.IsSrc "a".toList ∧ ∀ v, g.IsSrc v → Reach g "a".toList v := by
  cases hg : interpret noAlpha m0 exTree with
  | error e =>
    have h : (interpret noAlpha m0 exTree).toOption.isSome = true := by decide +kernel
    rw [hg] at h
    exact absurd h (by simp [Except.toOption])
  | ok g =>
    exact ⟨g, rfl, interpret_all_reach noAlpha m0 exTree g "a".toList hg rfl (by decide +kernel)⟩

end InterpReach

end Penman

#print axioms Penman.interpret_all_reach
#print axioms Penman.InterpReach.cexCheck_sound
#print axioms Penman.InterpReach.cex_instance_of
